(* C01 -- the hypotheses of the generic hash-table theorems hold for the leaves regenerated from momo's headers:
   every configuration the harness runs (and every other valid one) is an instance of the proved model. *)
From Coq Require Import ZArith List Lia Bool Permutation.
From MomoCommon Require Import GenPrelude.
From C01 Require Import HashModel ListAux HashSpec HashProofs HashInst.
From C01 Require Gen_BucketBase Gen_HashBucketBase Gen_LimP4 Gen_Open2N2 Gen_OpenN1 Gen_Open8 Open2N2_Proofs OpenN1_Proofs.
Import ListNotations.
Local Open Scope Z_scope.

Lemma pow2_le_63 log : 0 <= log <= 63 -> 0 < 2 ^ log <= 2 ^ 63.
Proof. intros. split; [apply Z.pow_pos_nonneg; lia|apply Z.pow_le_mono_r; lia]. Qed.

Lemma mask_val log : 0 <= log <= 63 -> wrapU 64 (2 ^ log - 1) = Z.ones log.
Proof.
  intros H. pose proof (pow2_le_63 log H). rewrite wrapU_small.
  - rewrite Z.ones_equiv. lia.
  - assert (2 ^ 63 < 2 ^ 64) by (apply Z.pow_lt_mono_r; lia). lia.
Qed.

Lemma land_mask_range x log : 0 <= log <= 63 -> 0 <= Z.land x (wrapU 64 (2 ^ log - 1)) < 2 ^ log.
Proof.
  intros H. rewrite mask_val by auto. rewrite Z.land_ones by lia. apply Z.mod_pos_bound. apply Z.pow_pos_nonneg; lia.
Qed.

Lemma start_fn_range hc log : 0 <= log <= max_log -> 0 <= start_fn hc (2 ^ log) < 2 ^ log.
Proof. intros H. unfold start_fn, Gen_BucketBase.GetStartBucketIndex. apply land_mask_range. unfold max_log in H. lia. Qed.

Lemma next_fn_range probing i log p : 0 <= log <= max_log -> 0 <= next_fn probing i (2 ^ log) p < 2 ^ log.
Proof.
  intros H. unfold max_log in H. unfold next_fn.
  destruct (probing =? 0); [|destruct (probing =? 1); [|destruct (probing =? 2)]];
    unfold Gen_BucketBase.GetNextBucketIndex, Gen_LimP4.GetNextBucketIndex, Gen_Open2N2.GetNextBucketIndex, Gen_Open8.GetNextBucketIndex;
    apply land_mask_range; lia.
Qed.

Lemma shift_fn_nonneg pol cap bc : 0 <= shift_fn pol cap bc.
Proof.
  unfold shift_fn. destruct (pol =? 0); [|lia].
  unfold Gen_HashBucketBase.GetBucketCountShift.
  destruct (andb (Z.gtb bc 0) (Z.gtb cap 0)); [|lia].
  destruct (cap =? 1); [lia|]. destruct (cap =? 2).
  - apply wrapU_range. lia.
  - apply wrapU_range. lia.
Qed.

(* the encoded max-probe states that can occur *)
Definition Binv_of (kind : Z) (b : BS) : Prop :=
  if kind <=? 1 then True else if kind =? 2 then Open2N2_Proofs.enc_inv b else OpenN1_Proofs.enc_inv (kind - 2) b.

Lemma base_maxprobe log : 0 <= log <= max_log -> Gen_BucketBase.GetMaxProbe log = 2 ^ log - 1.
Proof.
  intros H. unfold max_log in H. unfold Gen_BucketBase.GetMaxProbe. rewrite Z.shiftl_1_l.
  assert (0 < 2 ^ log <= 2 ^ 63) by (apply pow2_le_63; lia).
  assert (2 ^ 63 < 2 ^ 64) by (apply Z.pow_lt_mono_r; lia).
  rewrite (wrapU_small 64 (2 ^ log)) by lia. apply wrapU_small. lia.
Qed.

Record cfg_valid (c : cfg) : Prop := {
  cv_cap : 1 <= c_cap c;
  cv_thr : c_wfThr c <= c_cap c;
  cv_logStart : 0 <= c_logStart c;
  cv_bound : 0 <= c_bound c;
  cv_unlim : c_bound c = 1 -> c_unlimited c = true
}.

Theorem momo_instances_ok c : cfg_valid c ->
  ModelOK BS bs0 (decode_fn (c_bound c)) (upd_fn (c_bound c)) (c_cap c) (c_unlimited c) (c_wfThr c) start_fn
          (next_fn (c_probing c)) (c_logStart c) (shift_fn (c_pol c) (c_cap c)) max_log (Binv_of (c_bound c)).
Proof.
  intros V. destruct V as [V1 V2 V3 V4 V5].
  assert (Hp63 : forall log, 0 <= log <= max_log -> 0 < 2 ^ log <= 2 ^ 63) by (intros; apply pow2_le_63; unfold max_log in *; lia).
  constructor; auto.
  - apply shift_fn_nonneg.
  - apply start_fn_range.
  - intros. apply next_fn_range; auto.
  - unfold Binv_of, bs0. destruct (c_bound c <=? 1); auto. destruct (c_bound c =? 2).
    + unfold Open2N2_Proofs.enc_inv. simpl. change (0 / 4) with 0. lia.
    + unfold OpenN1_Proofs.enc_inv. lia.
  - intros log b p Hl Hb Hp. unfold Binv_of, upd_fn in *. destruct (c_bound c <=? 1); auto. destruct (c_bound c =? 2).
    + destruct (Open2N2_Proofs.update_spec b p Hb) as [s' [E [I' _]]]; [specialize (Hp63 _ Hl); lia|]. rewrite E. exact I'.
    + unfold max_log in Hl. destruct (OpenN1_Proofs.update_spec (c_bound c - 2) b p log Hb) as [s' [E [I' _]]]; [lia|lia|]. rewrite E. exact I'.
  - intros log b p Hl Hb Hp Hu. unfold Binv_of, upd_fn, decode_fn in *.
    destruct (Z.leb_spec (c_bound c) 1) as [Hk|Hk].
    + destruct (Z.eqb_spec (c_bound c) 0) as [E0|E0].
      * rewrite base_maxprobe by auto. split; [lia|auto].
      * assert (E1 : c_bound c = 1) by lia. rewrite E1. simpl. specialize (V5 E1).
        assert (p = 0). { destruct (Z.leb_spec 1 p) as [H1|H1]; [|lia]. specialize (Hu H1). congruence. }
        subst. split; [lia|auto].
    + destruct (Z.eqb_spec (c_bound c) 0); [lia|]. destruct (Z.eqb_spec (c_bound c) 1); [lia|].
      destruct (Z.eqb_spec (c_bound c) 2) as [E2|E2].
      * destruct (Open2N2_Proofs.update_spec b p Hb) as [s' [E [I' [G1 [G2 _]]]]]; [specialize (Hp63 _ Hl); lia|]. rewrite E.
        unfold Open2N2_Proofs.decode, Gen_Open2N2.GetMaxProbe in *. split; [exact G1|]. intros q Hq Hqd. lia.
      * unfold max_log in Hl. destruct (OpenN1_Proofs.update_spec (c_bound c - 2) b p log Hb) as [s' [E [I' [G1 [G2 _]]]]]; [lia|lia|]. rewrite E.
        unfold OpenN1_Proofs.bound in *. split; [exact G1|]. intros q Hq Hqd. apply G2; [lia|exact Hqd].
Qed.

(* every history of every valid momo configuration, for every hash function *)
Theorem momo_refines_all_histories c (h : Z -> Z) : cfg_valid c -> forall os,
  let r := run_gen c h init_cfg os in
  let sp := spec_run [] os (snd r) in
  Permutation (hall BS (fst r)) (fst sp) /\ NoDup (map fst (hall BS (fst r))) /\
  count (fst r) = Z.of_nat (length (fst sp)) /\ Forall2 out_equiv (snd r) (snd sp).
Proof.
  intros V os. cbv zeta.
  destruct (hash_refines_all_histories BS bs0 _ _ h _ _ (c_wf0 c) _ _ _ _ (calc_capacity (c_pol c) (c_cap c)) _ _ _ (momo_instances_ok c V) os) as [I [P F]].
  unfold run_gen, init_cfg. split; [exact P|]. split; [apply I|]. split; [|exact F].
  rewrite <- (Permutation_length P). apply I.
Qed.

(* the configurations run by the correspondence stage are valid instances *)
Definition cfg_valid_b (c : cfg) : bool :=
  (1 <=? c_cap c) && (c_wfThr c <=? c_cap c) && (0 <=? c_logStart c) && (0 <=? c_bound c) &&
  (negb (c_bound c =? 1) || c_unlimited c).

Lemma cfg_valid_b_ok c : cfg_valid_b c = true -> cfg_valid c.
Proof.
  unfold cfg_valid_b. rewrite !andb_true_iff, orb_true_iff, negb_true_iff. intros [[[[H1 H2] H3] H4] H5].
  constructor; try (apply Z.leb_le; assumption).
  intros E. destruct H5 as [H5|H5]; auto. rewrite E in H5. discriminate.
Qed.

(* ---- non-vacuity: a concrete three-generation state under a CONSTANT hash satisfies the invariant ----
   Open2N2<3>-like configuration (cap 3, triangular probing, lossy max-probe encoder, capacity 11/12), start table 2 buckets;
   the relocations after the two growths are made to fail (budget), so three generations coexist. *)
Definition nv_cfg : cfg := mkCfg 3 true 3 2 2 1 1 1.
Definition nv_hash (k : Z) : Z := 12345.
Definition nv_ops : list op :=
  [OInsert 1 10 None; OInsert 2 20 None; OInsert 3 30 None; OInsert 4 40 None; OInsert 5 50 None;
   OInsert 6 60 (Some 1%nat); OInsert 7 70 (Some 0%nat); OInsert 8 80 (Some 0%nat); OInsert 9 90 (Some 0%nat);
   OInsert 10 100 (Some 0%nat); OInsert 11 110 (Some 0%nat); OInsert 12 120 (Some 0%nat); ORemove 3; OFind 12].
Definition nv_state : hset BS := fst (run_gen nv_cfg nv_hash init_cfg nv_ops).

Lemma nv_cfg_valid : cfg_valid nv_cfg.
Proof. apply cfg_valid_b_ok. vm_compute. reflexivity. Qed.

Theorem nonvacuous_multigen :
  length (gens nv_state) = 3%nat /\ map fst (traverse BS nv_state) <> [] /\
  length (hall BS nv_state) = 11%nat /\
  snd (run_gen nv_cfg nv_hash init_cfg nv_ops) =
    [RBool true; RBool true; RBool true; RBool true; RBool true; RBool true; RBool true; RBool true; RBool true;
     RBool true; RBool true; RBool true; RBool true; ROpt (Some 120)] /\
  Inv BS bs0 (decode_fn (c_bound nv_cfg)) nv_hash (c_cap nv_cfg) (c_unlimited nv_cfg) (c_wf0 nv_cfg) start_fn
      (next_fn (c_probing nv_cfg)) max_log (Binv_of (c_bound nv_cfg)) nv_state.
Proof.
  split; [vm_compute; reflexivity|]. split; [vm_compute; discriminate|]. split; [vm_compute; reflexivity|].
  split; [vm_compute; reflexivity|].
  apply (hash_refines_all_histories BS bs0 _ _ nv_hash _ _ (c_wf0 nv_cfg) _ _ _ _ (calc_capacity (c_pol nv_cfg) (c_cap nv_cfg)) _ _ _
           (momo_instances_ok nv_cfg nv_cfg_valid) nv_ops).
Qed.

(* ================= "Hash table is full" is unreachable for momo's probing schemes ================= *)
From C01 Require ProbeSeq.

Lemma path_ext start n1 n2 hc bc : (forall i p, n1 i bc p = n2 i bc p) -> forall p, path start n1 hc bc p = path start n2 hc bc p.
Proof. intros H. induction p; simpl; auto. rewrite IHp. apply H. Qed.

Lemma path_probe_index nx n hc p : path start_fn nx hc (2 ^ n) p = ProbeSeq.probe_index nx n (start_fn hc (2 ^ n)) p.
Proof. induction p; simpl; auto. rewrite IHp. reflexivity. Qed.

Definition lin_next (i bc p : Z) : Z := Z.land (wrapU 64 (i + 1)) (wrapU 64 (bc - 1)).

Lemma lin_path hc log : 0 <= log <= 63 -> forall p,
  path start_fn lin_next hc (2 ^ log) p = (start_fn hc (2 ^ log) + Z.of_nat p) mod 2 ^ log.
Proof.
  intros Hl. pose proof (pow2_le_63 log Hl) as Hp.
  assert (H64 : 2 ^ 63 < 2 ^ 64) by (apply Z.pow_lt_mono_r; lia).
  assert (Hs : 0 <= start_fn hc (2 ^ log) < 2 ^ log) by (unfold start_fn, Gen_BucketBase.GetStartBucketIndex; apply land_mask_range; auto).
  induction p.
  - simpl. rewrite Z.add_0_r. symmetry. apply Z.mod_small. exact Hs.
  - simpl path. rewrite IHp. unfold lin_next. rewrite mask_val by auto. rewrite Z.land_ones by lia.
    assert (Hm : 0 <= (start_fn hc (2 ^ log) + Z.of_nat p) mod 2 ^ log < 2 ^ log) by (apply Z.mod_pos_bound; lia).
    rewrite wrapU_small by lia. rewrite Z.add_mod_idemp_l by lia. f_equal. lia.
Qed.

Lemma lin_cover hc log b : 0 <= log <= 63 -> 0 <= b < 2 ^ log ->
  exists p : nat, Z.of_nat p < 2 ^ log /\ path start_fn lin_next hc (2 ^ log) p = b.
Proof.
  intros Hl Hb. pose proof (pow2_le_63 log Hl) as Hp.
  set (s0 := start_fn hc (2 ^ log)).
  assert (Hd : 0 <= (b - s0) mod 2 ^ log < 2 ^ log) by (apply Z.mod_pos_bound; lia).
  exists (Z.to_nat ((b - s0) mod 2 ^ log)). rewrite Z2Nat.id by lia. split; [lia|].
  rewrite lin_path by auto. rewrite Z2Nat.id by lia. fold s0.
  rewrite Z.add_mod_idemp_r by lia. replace (s0 + (b - s0)) with b by lia. apply Z.mod_small. exact Hb.
Qed.

Theorem momo_probe_cover probing hc log b : 0 <= log <= max_log -> 0 <= b < 2 ^ log ->
  exists p : nat, Z.of_nat p < 2 ^ log /\ path start_fn (next_fn probing) hc (2 ^ log) p = b.
Proof.
  intros Hl Hb. unfold max_log in Hl. assert (Hl' : 0 <= log <= 63) by lia.
  assert (Hs : 0 <= start_fn hc (2 ^ log) < 2 ^ log) by (unfold start_fn, Gen_BucketBase.GetStartBucketIndex; apply land_mask_range; auto).
  unfold next_fn. destruct (probing =? 0); [|destruct (probing =? 1); [|destruct (probing =? 2)]].
  - destruct (lin_cover hc log b Hl' Hb) as [p [H1 H2]]. exists p. split; [exact H1|exact H2].
  - destruct (lin_cover hc log b Hl' Hb) as [p [H1 H2]]. exists p. split; [exact H1|exact H2].
  - destruct (ProbeSeq.open2n2_probe_covers log _ b Hl' Hs Hb) as [p [H1 H2]]. exists p. split; [exact H1|].
    rewrite path_probe_index. exact H2.
  - destruct (ProbeSeq.open8_probe_covers log _ b Hl' Hs Hb) as [p [H1 H2]]. exists p. split; [exact H1|].
    rewrite path_probe_index. exact H2.
Qed.

Lemma frac_le x a b : 0 <= x -> 0 < b -> a <= b -> x * a / b <= x.
Proof. intros. apply Z.div_le_upper_bound; [lia|]. nia. Qed.

(* the hand-mirrored CalcCapacity never promises more items than the table has slots *)
Theorem momo_calc_le pol cap log : 1 <= cap -> 0 <= log -> calc_capacity pol cap (2 ^ log) <= cap * 2 ^ log.
Proof.
  intros Hc Hl. assert (Hp : 0 < 2 ^ log) by (apply Z.pow_pos_nonneg; lia). set (bc := 2 ^ log) in *.
  unfold calc_capacity.
  destruct (pol =? 0).
  - destruct (Z.eqb_spec cap 1); [subst; pose proof (frac_le bc 5 8); lia|].
    destruct (Z.eqb_spec cap 2); [subst; assert (bc / 2 <= bc) by (apply Z.div_le_upper_bound; lia); lia|]. nia.
  - assert (Hx : 0 <= bc * cap) by nia.
    destruct (pol =? 1); [pose proof (frac_le (bc * cap) 11 12); lia|].
    destruct (pol =? 2); [pose proof (frac_le (bc * cap) 5 6); lia|].
    destruct (cap =? 7); [pose proof (frac_le (bc * cap) 13 14); lia|pose proof (frac_le (bc * cap) 11 12); lia].
Qed.

(* every reachable state of every valid configuration keeps Inv and CapOK, for every hash function *)
Theorem momo_reachable_all_histories c (h : Z -> Z) : cfg_valid c -> forall os,
  Reach BS bs0 (decode_fn (c_bound c)) h (c_cap c) (c_unlimited c) (c_wf0 c) start_fn (next_fn (c_probing c)) max_log
        (Binv_of (c_bound c)) (fst (run_gen c h init_cfg os)).
Proof.
  intros V os. unfold run_gen, init_cfg.
  apply (reachable_all_histories BS bs0 _ _ h _ _ (c_wf0 c) _ _ _ _ (calc_capacity (c_pol c) (c_cap c)) _ _ _ (momo_instances_ok c V));
    intros; first [apply momo_probe_cover; auto | apply momo_calc_le; [apply V|lia]].
Qed.

(* in such a state an insert of an absent key never throws "Hash table is full" (bounded and unbounded buckets alike) *)
Theorem momo_never_table_full c (h : Z -> Z) : cfg_valid c -> forall s k v bud s',
  Reach BS bs0 (decode_fn (c_bound c)) h (c_cap c) (c_unlimited c) (c_wf0 c) start_fn (next_fn (c_probing c)) max_log
        (Binv_of (c_bound c)) s ->
  step_gen c h s (OInsert k v bud) = (s', RExn) ->
  ~ (count s < capacity s) /\
  match reserve_log (calc_capacity (c_pol c) (c_cap c)) 64 (newLog BS (c_logStart c) (shift_fn (c_pol c) (c_cap c)) (gens s)) (count s + 1)
  with Some nl => max_log < nl | None => True end.
Proof.
  intros V s k v bud s' HR H. unfold step_gen in H.
  eapply (never_table_full BS bs0 _ _ h _ _ (c_wf0 c) _ _ _ _ (calc_capacity (c_pol c) (c_cap c)) _ _ _ (momo_instances_ok c V)); eauto;
    intros; first [apply momo_probe_cover; auto | apply momo_calc_le; [apply V|lia]].
Qed.

(* last round: in a reachable state the copy constructor does not throw when the contents fit the largest table (2^max_log buckets), and the
   overloadIfCannotGrow fallback does not throw when the newest table has a free slot *)
Theorem momo_copy_never_throws c (h : Z -> Z) : cfg_valid c -> forall s,
  Reach BS bs0 (decode_fn (c_bound c)) h (c_cap c) (c_unlimited c) (c_wf0 c) start_fn (next_fn (c_probing c)) max_log
        (Binv_of (c_bound c)) s ->
  c_logStart c <= max_log -> count s <= calc_capacity (c_pol c) (c_cap c) (2 ^ max_log) ->
  exists s', step_gen c h s OCopy = (s', RUnit).
Proof.
  intros V s HR Hls Hfit. unfold step_gen.
  eapply (copy_no_throw BS bs0 _ _ h _ _ (c_wf0 c) _ _ _ _ (calc_capacity (c_pol c) (c_cap c)) _ _ _ (momo_instances_ok c V)); eauto;
    try (intros; first [apply momo_probe_cover; auto | apply momo_calc_le; [apply V|lia]]).
  pose proof (cv_logStart c V). unfold max_log in *. lia.
Qed.

Theorem momo_nomem_insert_never_throws c (h : Z -> Z) : cfg_valid c -> forall s kv t r,
  Reach BS bs0 (decode_fn (c_bound c)) h (c_cap c) (c_unlimited c) (c_wf0 c) start_fn (next_fn (c_probing c)) max_log
        (Binv_of (c_bound c)) s ->
  gens s = t :: r -> Z.of_nat (length (flat_map (@items BS) (tbs t))) < c_cap c * 2 ^ tlog t ->
  exists s', hadd_nomem BS bs0 (upd_fn (c_bound c)) h (c_cap c) (c_unlimited c) (c_wf0 c) (c_wfThr c) start_fn (next_fn (c_probing c))
               (c_logStart c) (calc_capacity (c_pol c) (c_cap c)) (shift_fn (c_pol c) (c_cap c)) max_log s kv = Some s'.
Proof.
  intros V s kv t r HR Eg Hroom.
  eapply (nomem_insert_no_throw BS bs0 (decode_fn (c_bound c)) _ h _ _ (c_wf0 c) _ _ _ _ (calc_capacity (c_pol c) (c_cap c)) _ _ _ (momo_instances_ok c V)); eauto;
    intros; first [apply momo_probe_cover; auto | apply momo_calc_le; [apply V|lia]].
Qed.

(* two containers + holder, every valid configuration, every hash function, every history without a throwing MergeTo *)
Theorem momo_world_refines_all_histories c (h : Z -> Z) : cfg_valid c -> forall os,
  no_merge_exn os (snd (wrun_gen c h winit_cfg os)) ->
  WR BS bs0 (decode_fn (c_bound c)) h (c_cap c) (c_unlimited c) (c_wf0 c) start_fn (next_fn (c_probing c)) max_log (Binv_of (c_bound c))
     (fst (wrun_gen c h winit_cfg os)) (fst (wspec_run ([], [], None) os (snd (wrun_gen c h winit_cfg os)))) /\
  Forall2 out_equiv (snd (wrun_gen c h winit_cfg os)) (snd (wspec_run ([], [], None) os (snd (wrun_gen c h winit_cfg os)))).
Proof.
  intros V os. unfold wrun_gen, winit_cfg.
  apply (world_refines_all_histories BS bs0 _ _ h _ _ (c_wf0 c) _ _ _ _ (calc_capacity (c_pol c) (c_cap c)) _ _ _ (momo_instances_ok c V)).
Qed.

(* ALL histories of a pair of containers (no exclusion): a MergeTo interrupted by an exception keeps the union of the contents,
   every element in exactly one container *)
Theorem momo_world_traces_all_histories c (h : Z -> Z) : cfg_valid c -> forall os,
  exists m', wtrace ([], [], None) os (snd (wrun_gen c h winit_cfg os)) m' /\
    WR BS bs0 (decode_fn (c_bound c)) h (c_cap c) (c_unlimited c) (c_wf0 c) start_fn (next_fn (c_probing c)) max_log (Binv_of (c_bound c))
       (fst (wrun_gen c h winit_cfg os)) m'.
Proof.
  intros V os. unfold wrun_gen, winit_cfg.
  apply (world_traces_all_histories BS bs0 _ _ h _ _ (c_wf0 c) _ _ _ _ (calc_capacity (c_pol c) (c_cap c)) _ _ _ (momo_instances_ok c V)).
Qed.
