(* C17: RadixSorterCodeGetter for integral value types (RadixSorter.h:27-40, after c1e16df): the code of a value is its
   W-bit unsigned representation XOR the sign mask (signed types) / XOR 0 (unsigned types).  The map is an order
   isomorphism, so sorting by code sorts the VALUES.  Hand model, run against the real code getter (cases SCODE/UCODE). *)
From Coq Require Import ZArith Bool List Lia Permutation.
From MomoCommon Require Import GenPrelude.
From C17 Require Import SorterSearch SorterSort Sort_Proofs Radix_Proofs.
Import ListNotations.
Local Open Scope Z_scope.

Definition code_of_signed (W x : Z) : Z := Z.lxor (wrapU W x) (2 ^ (W - 1)).
Definition code_of_unsigned (W x : Z) : Z := Z.lxor (wrapU W x) 0.

Lemma land_below_pow2 a k : 0 <= k -> 0 <= a < 2 ^ k -> Z.land a (2 ^ k) = 0.
Proof.
  intros Hk Ha. apply Z.bits_inj'. intros n Hn. rewrite Z.land_spec, Z.pow2_bits_eqb, Z.bits_0 by lia.
  destruct (Z.eqb_spec k n) as [->|]; [|apply andb_false_r].
  rewrite andb_true_r. destruct (Z.eq_dec a 0) as [->|]; [apply Z.bits_0|].
  apply Z.bits_above_log2; [lia|]. apply Z.log2_lt_pow2; lia.
Qed.

Lemma lxor_add_pow2 a k : 0 <= k -> 0 <= a < 2 ^ k -> Z.lxor a (2 ^ k) = a + 2 ^ k.
Proof. intros Hk Ha. symmetry. apply Z.add_nocarry_lxor. apply land_below_pow2; assumption. Qed.

Theorem code_of_signed_eq W x : 1 <= W -> - 2 ^ (W - 1) <= x < 2 ^ (W - 1) -> code_of_signed W x = x + 2 ^ (W - 1).
Proof.
  intros HW Hx. unfold code_of_signed, wrapU.
  assert (P : 2 ^ W = 2 * 2 ^ (W - 1)) by (replace W with (Z.succ (W - 1)) at 1 by lia; rewrite Z.pow_succ_r by lia; reflexivity).
  assert (0 < 2 ^ (W - 1)) by (apply Z.pow_pos_nonneg; lia).
  destruct (Z_lt_le_dec x 0).
  - replace (x mod 2 ^ W) with (x + 2 ^ W) by (apply Z.mod_unique with (-1); [left; lia|lia]).
    replace (x + 2 ^ W) with ((x + 2 ^ (W - 1)) + 2 ^ (W - 1)) by lia.
    rewrite <- (lxor_add_pow2 (x + 2 ^ (W - 1)) (W - 1)) by lia.
    rewrite Z.lxor_assoc, Z.lxor_nilpotent, Z.lxor_0_r. reflexivity.
  - rewrite Z.mod_small by lia. apply lxor_add_pow2; lia.
Qed.

Theorem code_of_signed_order W x y : 1 <= W -> - 2 ^ (W - 1) <= x < 2 ^ (W - 1) -> - 2 ^ (W - 1) <= y < 2 ^ (W - 1) ->
  (x <= y <-> code_of_signed W x <= code_of_signed W y) /\ 0 <= code_of_signed W x < 2 ^ W.
Proof.
  intros HW Hx Hy. rewrite !code_of_signed_eq by assumption.
  assert (P : 2 ^ W = 2 * 2 ^ (W - 1)) by (replace W with (Z.succ (W - 1)) at 1 by lia; rewrite Z.pow_succ_r by lia; reflexivity).
  lia.
Qed.

Theorem code_of_unsigned_eq W x : 0 <= W -> 0 <= x < 2 ^ W -> code_of_unsigned W x = x.
Proof. intros. unfold code_of_unsigned. rewrite Z.lxor_0_r. apply wrapU_small. lia. Qed.

(* RadixSorter<R>::Sort(begin, count) on an array of SIGNED W-bit integers: the VALUES come out in non-decreasing order *)
Theorem RadixSort_signed_values_sorted R W (vs : list Z) : 1 <= R -> 1 <= W ->
  Forall (fun v => - 2 ^ (W - 1) <= v < 2 ^ (W - 1)) vs ->
  exists l', RadixSortG swap Z.eqb R false W (map (fun v => (code_of_signed W v, v)) vs) = Ok l' /\
    Permutation vs (map snd l') /\ (forall a b, 0 <= a -> a <= b -> b < alen l' -> itm l' a <= itm l' b).
Proof.
  intros HR HW Hvs. remember (map (fun v => (code_of_signed W v, v)) vs) as l eqn:El.
  assert (HP : Forall (fun e => fst e = code_of_signed W (snd e) /\ - 2 ^ (W - 1) <= snd e < 2 ^ (W - 1)) l).
  { subst l. rewrite Forall_forall in *. intros e He. apply in_map_iff in He. destruct He as (v & <- & Hv). simpl. split; [reflexivity|apply Hvs; exact Hv]. }
  assert (Hz : (forall a, Z.eqb a a = true) /\ (forall a b, Z.eqb a b = true -> Z.eqb b a = true) /\
               (forall a b c, Z.eqb a b = true -> Z.eqb b c = true -> Z.eqb a c = true)).
  { split; [apply Z.eqb_refl|]. split.
    - intros a b H. apply Z.eqb_eq in H. subst. apply Z.eqb_refl.
    - intros a b c H1 H2. apply Z.eqb_eq in H1. apply Z.eqb_eq in H2. subst. apply Z.eqb_refl. }
  destruct Hz as (Z1 & Z2 & Z3).
  assert (HW0 : 0 <= W) by lia.
  destruct (RadixSortG_total swap (fun _ _ _ => eq_refl) Z.eqb Z1 Z2 Z3 R false W l HR HW0) as (l' & E & P & L & Sd & _).
  { intros k Hk. rewrite Forall_forall in HP.
    assert (Hin : In (get l k) l) by (unfold get; apply nth_In; unfold alen in Hk; lia).
    destruct (HP (get l k) Hin) as [Hc Hr]. unfold code. rewrite Hc.
    assert (0 < 2 ^ (W - 1)) by (apply Z.pow_pos_nonneg; lia). apply (code_of_signed_order W _ 0); lia. }
  exists l'. split; [exact E|]. split.
  - replace vs with (map snd l); [apply Permutation_map; exact P|]. subst l. rewrite map_map. simpl. apply map_id.
  - intros a b Ha Hab Hb.
    assert (HP' : Forall (fun e => fst e = code_of_signed W (snd e) /\ - 2 ^ (W - 1) <= snd e < 2 ^ (W - 1)) l') by (eapply Permutation_Forall; eauto).
    rewrite Forall_forall in HP'.
    assert (Ia : In (get l' a) l') by (unfold get; apply nth_In; unfold alen in *; lia).
    assert (Ib : In (get l' b) l') by (unfold get; apply nth_In; unfold alen in *; lia).
    destruct (HP' (get l' a) Ia) as [Ca Ra]. destruct (HP' (get l' b) Ib) as [Cb Rb].
    specialize (Sd a b Ha Hab Hb). unfold code in Sd. rewrite Ca, Cb in Sd. unfold itm.
    apply (code_of_signed_order W _ _ HW Ra Rb). exact Sd.
Qed.
