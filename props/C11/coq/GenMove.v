(* C11 -- the probe loop of HashSet::pvAddNogrow and the loop skeleton of HashSet::pvRelocateItems(Buckets ptr) are GENERATED
   (Gen_HashSetMove.v: buckets are abstract handles, IsFull / GetNextBucketIndex / AddCrt / GetHashCodePart / Remove are
   Section variables = the primitives; `throw "Hash table is full"` is Exn).
   Here: the generated probe loop equals the hand model's add_loop (so tadd, and with it every theorem about "table full",
   rests on the generated loop), and the generated relocation skeleton visits the buckets 0 .. bucketCount-1 in ascending
   order and in each bucket exactly its `count` items from the last to the first, calling GetHashCodePart and then Remove
   (whose replacer is the pvAddNogrow into the newest table) on each -- the order of the hand model's reloc_buckets /
   reloc_items.  What stays in the hand model: the effects of the item moves and the exception paths (swallowed failure,
   generations kept linked), and the recursion over older generations. *)
From Coq Require Import ZArith List Lia Bool.
From MomoCommon Require Import GenPrelude.
From C11 Require Import GrowModel.
From C11 Require Gen_HashSetMove.
Import ListNotations.
Local Open Scope Z_scope.

Section MoveTie.
  Variable B : Type.
  Variable b0 : B.
  Variable cap : Z.
  Variable wf0 : bool.
  Variable next : Z -> Z -> Z -> Z.

  (* ---------------- pvAddNogrow ---------------- *)
  Section Add.
    Variable t : table B.
    Let full (i : Z) : bool := isFull B cap (getb B b0 wf0 t i).              (* buckets[i].IsFull() *)
    Let nexti (i hc bc p : Z) : Z := next i bc p.                            (* Bucket::GetNextBucketIndex *)
    Let at_ (_ i : Z) : Z := i.                                              (* buckets[i]: the handle of a bucket is its index *)

    Lemma gen_addnogrow_loop : forall n probe idx hc extra, 0 <= probe -> Z.of_nat n = bcount B t - 1 - probe ->
      bcount B t < 2 ^ 64 ->
      Gen_HashSetMove.pvAddNogrow_loop0 full nexti at_ (S n + extra) (bcount B t) 0 hc idx idx probe =
        match add_loop B b0 cap wf0 next n t (Z.to_nat probe) idx with
        | Some (i, q) => Ok (None, (i, i, Z.of_nat q))
        | None => Exn                                  (* throw std::runtime_error("Hash table is full") *)
        end.
    Proof.
      induction n; intros probe idx hc extra Hp Hn Hb; cbn [Nat.add]; rewrite Gen_HashSetMove.pvAddNogrow_loop0_eq; cbv zeta;
        unfold full at 1; simpl add_loop; destruct (isFull B cap (getb B b0 wf0 t idx)).
      - rewrite wrapU_small by lia. replace (probe + 1 >=? bcount B t) with true by (symmetry; apply Z.geb_le; lia). auto.
      - rewrite Z2Nat.id by lia. auto.
      - rewrite wrapU_small by lia. replace (probe + 1 >=? bcount B t) with false by (symmetry; rewrite Z.geb_leb; apply Z.leb_gt; lia).
        unfold nexti, at_. fold at_ nexti.
        replace (Z.pos (Pos.of_succ_nat (Z.to_nat probe))) with (probe + 1) by (rewrite Zpos_P_of_succ_nat; lia).
        replace (S (Z.to_nat probe)) with (Z.to_nat (probe + 1)) by lia.
        change (S (n + extra)) with (S n + extra)%nat.
        rewrite <- (IHn (probe + 1) (next idx (bcount B t) (probe + 1)) hc extra) by lia. reflexivity.
      - rewrite Z2Nat.id by lia. auto.
    Qed.

    (* the generated loop throws "Hash table is full" exactly when the hand model's tadd fails, and otherwise stops at the
       bucket and probe where tadd places the item *)
    Theorem gen_addnogrow_is_tadd : forall (ub : B -> Z -> B) (wfu : Z -> bool) start h k extra, 0 <= tlog B t -> bcount B t < 2 ^ 64 ->
      let i0 := start (h k) (bcount B t) in
      let n := Z.to_nat (bcount B t - 1) in
      (Gen_HashSetMove.pvAddNogrow_loop0 full nexti at_ (S n + extra) (bcount B t) 0 (h k) i0 i0 0 = Exn <->
         tadd B b0 ub h cap wf0 wfu start next t k = None) /\
      (forall i q, add_loop B b0 cap wf0 next n t 0 i0 = Some (i, q) ->
         Gen_HashSetMove.pvAddNogrow_loop0 full nexti at_ (S n + extra) (bcount B t) 0 (h k) i0 i0 0 = Ok (None, (i, i, Z.of_nat q))).
    Proof.
      intros ub wfu start h k extra HL Hb i0 n. assert (BP : 0 < bcount B t) by (unfold bcount; apply Z.pow_pos_nonneg; lia).
      rewrite (gen_addnogrow_loop n 0 i0 (h k) extra) by (unfold n; lia). change (Z.to_nat 0) with 0%nat.
      unfold tadd. fold i0. fold n.
      destruct (add_loop B b0 cap wf0 next n t 0 i0) as [[i q]|]; split; try (split; [discriminate|discriminate]); auto.
      - intros i1 q1 E. inversion E; subst; auto.
      - split; auto.
      - intros; discriminate.
    Qed.

    (* the WHOLE generated pvAddNogrow (the <false> instantiation used by the migration; fuel 70 covers tables of up to 70 buckets):
       "Hash table is full" iff the model's add_loop fails; otherwise the position names the bucket where tadd puts the item, mCount is
       unchanged and the probe count handed to startBucket.UpdateMaxProbe (recorded in rec_maxprobe) is the one tadd hands to upd_bound *)
    Theorem gen_addnogrow_whole : forall start hc blog bp (badd : Z -> Z -> Z -> Z -> Z -> Z -> Z) ver (mkpos : Z -> Z -> Z -> Z) c cp mb rmp creator,
      0 <= tlog B t -> bcount B t <= 70 ->
      let i0 := start hc (bcount B t) in
      Gen_HashSetMove.pvAddNogrow blog bp full nexti start badd ver at_ mkpos (fun _ => bcount B t) c cp mb rmp 0 hc creator =
        match add_loop B b0 cap wf0 next (Z.to_nat (bcount B t - 1)) t 0 i0 with
        | Some (i, q) => Ok (mkpos i (badd i bp creator hc blog (Z.of_nat q)) ver, c, Z.of_nat q)
        | None => Exn
        end.
    Proof.
      intros start hc blog bp badd ver mkpos c cp mb rmp creator Hl Hb i0.
      assert (Hpos : 0 < bcount B t) by (unfold bcount; apply Z.pow_pos_nonneg; lia).
      unfold Gen_HashSetMove.pvAddNogrow, Gen_HashSetMove.fuel_of_pvAddNogrow. cbv zeta.
      replace (Z.to_nat 70) with (S (Z.to_nat (bcount B t - 1)) + Z.to_nat (70 - bcount B t))%nat by lia.
      change (at_ 0 (start hc (bcount B t))) with (start hc (bcount B t)).
      rewrite (gen_addnogrow_loop (Z.to_nat (bcount B t - 1)) 0 (start hc (bcount B t)) hc (Z.to_nat (70 - bcount B t)));
        [| lia | lia | apply Z.le_lt_trans with 70; [exact Hb | reflexivity]].
      change (Z.to_nat 0) with O. fold i0.
      destruct (add_loop B b0 cap wf0 next (Z.to_nat (bcount B t - 1)) t 0 i0) as [[i q]|]; reflexivity.
    Qed.
  End Add.

  (* ---------------- pvRelocateItems(Buckets ptr): the loop skeleton ---------------- *)
  Section Reloc.
    Variable blog : Z.
    Variable hashpart : Z -> Z -> Z -> Z -> Z -> Z -> Z.     (* bucket.GetHashCodePart(getter, iter, i, oldLog, newLog) *)
    Variable remove : Z -> Z -> Z -> Z -> Z.                 (* bucket.Remove(params, iter, replacer): returns an iterator *)
    Hypothesis remove_iter : forall b p it r, remove b p it r = it.   (* the removed item is the last one: Remove hands the iterator back *)

    (* inner loop: `for (c = count; c > 0; --c) { --iter; hashCode = GetHashCodePart(.., iter, ..); iter = Remove(.., iter, ..); }`
       runs exactly c times, on the items at end-1, end-2, ..., end-c (last to first) *)
    Lemma gen_reloc_inner : forall c fuel bucket bp bks g i rp mb mcap mm it cnt rmp,
      (c < fuel)%nat -> Z.of_nat c < 2 ^ 64 ->
      Gen_HashSetMove.pvRelocateItems_b_loop1 blog hashpart remove fuel bucket bp bks g i rp mb mcap mm it (Z.of_nat c) cnt rmp =
        Ok (None, (it - Z.of_nat c, 0, cnt, rmp)).
    Proof.
      induction c; intros fuel bucket bp bks g i rp mb mcap mm it cnt rmp Hf Hc; (destruct fuel; [lia|]);
        rewrite Gen_HashSetMove.pvRelocateItems_b_loop1_eq; cbv zeta.
      - simpl. rewrite Z.sub_0_r. auto.
      - replace (Z.of_nat (S c) >? 0) with true by (symmetry; apply Z.gtb_lt; lia).
        rewrite remove_iter. rewrite wrapU_small by lia. replace (Z.of_nat (S c) - 1) with (Z.of_nat c) by lia.
        rewrite IHc by lia. f_equal. f_equal. f_equal. f_equal. f_equal. lia.
    Qed.

    (* outer loop: `for (i = 0; i < bucketCount; ++i)` handles every bucket once, ascending, and ends at i = bucketCount *)
    Variable at_ : Z -> Z -> Z.
    Variable deref : Z -> Z.
    Variable bounds : Z -> Z -> Z.
    Variable bend : Z -> Z.
    Variable count_of : Z -> Z.
    Hypothesis counts_small : forall x, 0 <= count_of x < 70.

    Lemma gen_reloc_outer : forall n i bc bp bks g ht rp mb mcap mm cnt rmp extra, 0 <= i -> Z.of_nat n = bc - i -> bc < 2 ^ 64 ->
      Gen_HashSetMove.pvRelocateItems_b_loop0 blog at_ deref bounds bend hashpart remove count_of (S n + extra) bc bp bks g ht rp mb mcap mm i cnt rmp =
        Ok (None, (bc, cnt, rmp)).
    Proof.
      induction n; intros i bc bp bks g ht rp mb mcap mm cnt rmp extra Hi Hn Hb; cbn [Nat.add];
        rewrite Gen_HashSetMove.pvRelocateItems_b_loop0_eq; cbv zeta.
      - replace (i <? bc) with false by (symmetry; apply Z.ltb_ge; lia). replace i with bc by lia. auto.
      - replace (i <? bc) with true by (symmetry; apply Z.ltb_lt; lia).
        pose proof (counts_small (bounds (at_ (deref bks) i) bp)) as CS.
        set (c := count_of (bounds (at_ (deref bks) i) bp)) in *.
        replace c with (Z.of_nat (Z.to_nat c)) by lia.
        rewrite gen_reloc_inner by (unfold Gen_HashSetMove.fuel_of_pvRelocateItems_b; lia).
        rewrite wrapU_small by lia. change (S (n + extra)) with (S n + extra)%nat. apply IHn; lia.
    Qed.
  End Reloc.
End MoveTie.
