// C10 – shared pieces of the two harness TUs (tie harness.cpp, oracle oracle.cpp).
#pragma once
#include "private_access.h"
#include "kit.h"
#include <cxxabi.h>
#ifndef MOMO_INCLUDE_OLD_HASH_BUCKETS
#define MOMO_INCLUDE_OLD_HASH_BUCKETS      // coverage audit: LimP, LimP1, Lim4, UnlimP, One, OpenN1 buckets are instantiated too
#endif
#include <momo/HashSet.h>
#include <momo/TreeSet.h>
#include <momo/HashMap.h>
#include <momo/TreeMap.h>
#include <momo/Array.h>
#include <momo/SegmentedArray.h>

namespace c10 {

// LE<C>: a kit element that additionally writes value-level events into kit::W().log:
//   "M v" move construction from an object holding v      "C v" copy construction
//   "X v" destruction of an object holding v (-1 = moved-from)
//   "MA s d" move assignment (values before)               "CA s d" copy assignment
// (kit::ElemT itself logs "C o<id>", "X o<id>", "F copy|alloc|func", "A ..", "D ..")
// Categories as momo sees them (default MOMO_IS_NOTHROW_RELOCATABLE_APPENDIX: a type with a move constructor is
// nothrow-relocatable and is relocated inside noexcept functions):
//   NTM, SMH  nothrow move;   THM  move constructor not declared noexcept -- it never actually throws here (failure
//   injection is suspended while it runs; a throw would be std::terminate by momo's documented policy), its move
//   assignment and copy operations may throw;   CPY  copy-only (no move members): every "move" is a copy that may throw.
struct SuspendCopyFailure
{
	static long& saved() { static long s = -1; return s; }
	explicit SuspendCopyFailure(bool on) { if (on) { saved() = kit::W().fail_copy; kit::W().fail_copy = -1; } }
	static void restore(bool on) { if (on) kit::W().fail_copy = saved(); }
};
template<int C>
struct LE : private SuspendCopyFailure, kit::ElemT<C>
{
	typedef kit::ElemT<C> B;
	static const bool nt = (C == kit::NTM || C == kit::SMH);
	static const bool movable = true;
	explicit LE(int64_t x = 0) : SuspendCopyFailure(false), B(x) {}
	LE(const LE& e) : SuspendCopyFailure(false), B(static_cast<const B&>(e)) { kit::W().ev("C " + std::to_string(this->Value())); }
	LE(LE&& e) noexcept(nt) : SuspendCopyFailure(C == kit::THM), B(static_cast<B&&>(e))
		{ SuspendCopyFailure::restore(C == kit::THM); kit::W().ev("M " + std::to_string(this->Value())); }
	~LE() noexcept { kit::W().ev("X " + std::to_string(this->Value())); }
	LE& operator=(const LE& e)
	{
		int64_t s = e.Value(), d = this->Value();
		B::operator=(static_cast<const B&>(e));
		kit::W().ev("CA " + std::to_string(s) + " " + std::to_string(d));
		return *this;
	}
	LE& operator=(LE&& e) noexcept(nt)
	{
		int64_t s = e.Value(), d = this->Value();
		B::operator=(static_cast<B&&>(e));
		kit::W().ev("MA " + std::to_string(s) + " " + std::to_string(d));
		return *this;
	}
	// ordering / equality by KEY = Value() / 100 (std::less / std::equal_to based traits)
	friend bool operator<(const LE& a, const LE& b) { return a.Value() / 100 < b.Value() / 100; }
	friend bool operator==(const LE& a, const LE& b) { return a.Value() / 100 == b.Value() / 100; }
};
template<>
struct LE<kit::CPY> : kit::ElemT<kit::CPY>
{
	typedef kit::ElemT<kit::CPY> B;
	static const bool nt = false;
	static const bool movable = false;
	explicit LE(int64_t x = 0) : B(x) {}
	LE(const LE& e) : B(static_cast<const B&>(e)) { kit::W().ev("C " + std::to_string(this->Value())); }
	~LE() noexcept { kit::W().ev("X " + std::to_string(this->Value())); }
	LE& operator=(const LE& e)
	{
		int64_t s = e.Value(), d = this->Value();
		B::operator=(static_cast<const B&>(e));
		kit::W().ev("CA " + std::to_string(s) + " " + std::to_string(d));
		return *this;
	}
	friend bool operator<(const LE& a, const LE& b) { return a.Value() / 100 < b.Value() / 100; }
	friend bool operator==(const LE& a, const LE& b) { return a.Value() / 100 == b.Value() / 100; }
};
// TRIV: trivially copyable -> momo relocates it with memcpy (not tracked by the kit registry: no copy / move counters)
template<>
struct LE<kit::TRIV> : kit::ElemTriv
{
	static const bool nt = true;
	static const bool movable = true;
	LE() : kit::ElemTriv() {}
	explicit LE(int64_t x) : kit::ElemTriv(x) {}
	friend bool operator<(const LE& a, const LE& b) { return a.Value() / 100 < b.Value() / 100; }
	friend bool operator==(const LE& a, const LE& b) { return a.Value() / 100 == b.Value() / 100; }
};
static_assert(momo::IsTriviallyRelocatable<LE<kit::TRIV>>::value, "TRIV must be trivially relocatable");
static_assert(momo::internal::ObjectManager<LE<kit::TRIV>, kit::MM>::isTriviallyRelocatable, "TRIV");
static_assert(!momo::internal::ObjectManager<LE<kit::NTM>, kit::MM>::isTriviallyRelocatable, "NTM is not trivially relocatable");
static_assert(momo::internal::ObjectManager<LE<kit::SMH>, kit::MM>::isNothrowRelocatable, "SMH");
static_assert(std::is_copy_constructible<LE<kit::CPY>>::value && !momo::internal::ObjectManager<LE<kit::CPY>, kit::MM>::isNothrowMoveConstructible, "CPY is copy-only");
static_assert(momo::internal::ObjectManager<LE<kit::NTM>, kit::MM>::isNothrowRelocatable, "NTM");
static_assert(momo::internal::ObjectManager<LE<kit::THM>, kit::MM>::isNothrowRelocatable, "THM is relocatable by the default appendix");
static_assert(!momo::internal::ObjectManager<LE<kit::THM>, kit::MM>::isNothrowMoveConstructible, "THM");
static_assert(!momo::internal::ObjectManager<LE<kit::CPY>, kit::MM>::isNothrowRelocatable, "CPY");
static_assert(!momo::internal::ObjectManager<LE<kit::CPY>, kit::MM>::isNothrowAnywayAssignable, "CPY");

inline int64_t keyof(int64_t v) { return v / 100; }

// key functors: every call is a `func` step
struct KHash
{
	int dist; explicit KHash(int d = kit::IDENT) : dist(d) {}
	template<typename T> size_t operator()(const T& t) const { kit::W().step_func(); return kit::spread(dist, uint64_t(keyof(t.Value()))); }
};
struct KEq { template<typename A, typename Bb> bool operator()(const A& a, const Bb& b) const { kit::W().step_func(); return keyof(a.Value()) == keyof(b.Value()); } };
struct KLess { template<typename A, typename Bb> bool operator()(const A& a, const Bb& b) const { kit::W().step_func(); return keyof(a.Value()) < keyof(b.Value()); } };

struct HSettings : momo::HashSetSettings
{
	static const momo::ExtraCheckMode extraCheckMode = momo::ExtraCheckMode::nothing;
};
struct TSettings : momo::TreeSetSettings
{
	static const momo::ExtraCheckMode extraCheckMode = momo::ExtraCheckMode::nothing;
};

// checkVersion = false selects the inline crew (SetCrew<.., false>: memory manager and traits stored inside the set object)
struct HSettingsNV : HSettings { static const bool checkVersion = false; };
struct TSettingsNV : TSettings { static const bool checkVersion = false; };
inline std::string type_name(const std::type_info& ti)
{
	int st = 0; char* d = abi::__cxa_demangle(ti.name(), nullptr, nullptr, &st);
	std::string r = (st == 0 && d) ? d : ti.name(); std::free(d); return r;
}

template<typename E, typename Bucket = momo::HashBucketOpen8> using HSet = momo::HashSet<E, momo::HashTraitsStd<E, KHash, KEq, Bucket>, kit::MM,
	momo::HashSetItemTraits<E, kit::MM>, HSettings>;
template<typename HS> inline typename HS::HashTraits htraits(int dist = kit::IDENT) { return typename HS::HashTraits(8, KHash(dist), KEq()); }
template<typename E, bool multi = false> using TSet = momo::TreeSet<E, momo::TreeTraitsStd<E, KLess, multi>, kit::MM,
	momo::TreeSetItemTraits<E, kit::MM>, TSettings>;
// default (empty) tree traits: std::less -> operator< of LE (keys), enables pvMergeFast / pvMergeToLinear
template<typename E, bool multi = false> using TSetD = momo::TreeSet<E, momo::TreeTraits<E, multi>, kit::MM,
	momo::TreeSetItemTraits<E, kit::MM>, TSettings>;

inline std::vector<std::string> split(const std::string& s, char sep = ' ')
{
	std::vector<std::string> r; std::string cur; std::istringstream is(s);
	while (std::getline(is, cur, sep)) if (!cur.empty()) r.push_back(cur);
	return r;
}
inline std::vector<int64_t> ints(const std::string& s)     // "1,2,3" or "-" (empty)
{
	std::vector<int64_t> r; if (s == "-") return r;
	for (auto& t : split(s, ',')) r.push_back(std::stoll(t));
	return r;
}
inline std::string join(const std::vector<int64_t>& v)
{
	if (v.empty()) return "-";
	std::string s; for (size_t i = 0; i < v.size(); ++i) { if (i) s += ","; s += std::to_string(v[i]); }
	return s;
}
inline std::string join_sorted(std::vector<int64_t> v) { std::sort(v.begin(), v.end()); return join(v); }

// value-level events of the log (drop kit's own "C o..", "X o..", "A ..", "D .."; keep "F kind")
inline std::string value_trace()
{
	std::string s;
	for (auto& e : kit::W().log)
	{
		if (e.size() >= 2 && (e[0] == 'A' || e[0] == 'D') && e[1] == ' ') continue;
		if (e.size() >= 3 && (e[0] == 'C' || e[0] == 'X') && e[1] == ' ' && e[2] == 'o') continue;
		if (!s.empty()) s += ";";
		s += e;
	}
	return s.empty() ? "-" : s;
}

// structural validator of a TreeSet (private access): the root has no parent, every child points back to its node,
// internal nodes have count+1 children, the item counts add up to GetCount().  "" = valid.
template<typename Node>
inline bool check_node(Node* node, Node* parent, size_t& items, std::string& err, int depth)
{
	if (depth > 64) { err = "tree too deep / cyclic"; return false; }
	if (node->GetParent() != parent) { err = "a node's parent pointer does not point to its parent (depth " + std::to_string(depth) + ")"; return false; }
	size_t cnt = node->GetCount();
	items += cnt;
	if (!node->IsLeaf())
		for (size_t i = 0; i <= cnt; ++i)
			if (!check_node(node->GetChild(i), node, items, err, depth + 1)) return false;
	return true;
}
template<typename S> inline auto check_tree(const S& s, int) -> decltype((void)s.mRootNode, std::string())
{
	if (s.mRootNode == nullptr) return s.GetCount() == 0 ? "" : "null root with non-zero count";
	size_t items = 0; std::string err;
	if (!check_node(s.mRootNode, static_cast<decltype(s.mRootNode)>(nullptr), items, err, 0)) return err;
	if (items != s.GetCount()) return "node item counts " + std::to_string(items) + " != GetCount() " + std::to_string(s.GetCount());
	return "";
}
template<typename S> inline std::string check_tree(const S&, long) { return ""; }

enum Kind { K_ALLOC = 0, K_COPY = 1, K_FUNC = 2 };
inline int kind_of(const std::string& s) { return s == "alloc" ? K_ALLOC : s == "copy" ? K_COPY : K_FUNC; }
inline void arm_kind(int kind, long k)
{
	kit::W().arm(kind == K_ALLOC ? k : -1, kind == K_COPY ? k : -1, kind == K_FUNC ? k : -1);
}
inline bool fired(int kind)
{
	kit::World& w = kit::W();
	return (kind == K_ALLOC ? w.fail_alloc : kind == K_COPY ? w.fail_copy : w.fail_func) < 0;
}

} // namespace c10
