(* C05 -- Array::Insert(index, count, item) end to end on GENERATED pieces.  The six statements of Array.h (Insert) are glued by hand:
     overflow test, newCount, grow   = Gen_GuardsArray.Insert_prefix          (generated)
     itemIndex = pvIndexOf(item)      = Gen_IndexOf.pvIndexOf                  (generated)
     grow || (index <= itemIndex && itemIndex < initCount)                     (IndexOfProofs.alias_test, one line)
     ItemHandler temporary            = a copy of the item's cell into a cell [tmp] outside the array
     pvGrow(newCount, add)            = Gen_Grow.GrowCapacity                  (generated; relocation keeps the cells)
     ArrayShifter::InsertNogrow       = Gen_ShiftLoops.ShiftInsert             (generated, all five loops)
   and the glue is corresponded with the real Array::Insert on every run (`gl ainsert`).
   Cells: [it] = the cell `item` refers to (0 <= it < count: an element of the array, ANY position; it >= 2^64: an external object);
   ptr = its address in item units (base + it for an element). *)
From Coq Require Import ZArith Bool Lia.
From MomoCommon Require Import GenPrelude.
From C05 Require Import Gen_GuardsArray Gen_IndexOf Gen_Grow Gen_ShiftLoops.
From C05 Require GuardProofs IndexOfProofs GrowProofs ShiftLoopProofs.
Local Open Scope Z_scope.
(* generated functions are never unfolded by simpl / cbn *)
Local Arguments ShiftInsert : simpl never.
Local Arguments GrowCapacity : simpl never.
Local Arguments Insert_prefix : simpl never.
Local Arguments pvIndexOf : simpl never.

Definition U64 : Z := 2 ^ 64.

Definition shift_result (r : outcome (unit * (Z -> Z) * Z)) (cap' : Z) : outcome ((Z -> Z) * Z * Z) :=
  match r with Ok (_, items', cnt') => Ok (items', cnt', cap') | Stuck => Stuck | Fuel => Fuel | Exn => Exn end.

Definition gen_array_insert (growOnReserve : bool) (items : Z -> Z) (cnt cap_ base index count it ptr tmp : Z)
  : outcome ((Z -> Z) * Z * Z) :=
  match Insert_prefix cnt cap_ index count with
  | Ok (newCount, grow) =>
    let itemIndex := pvIndexOf base cnt ptr in
    if negb (Z.eqb grow 0) || IndexOfProofs.alias_test index cnt itemIndex then
      let items1 := upd items tmp (items it) in                    (* ItemHandler itemHandler(memManager, Creator<const Item&>(memManager, item)) *)
      match (if negb (Z.eqb grow 0) then GrowCapacity growOnReserve cap_ newCount 0 false else Ok cap_) with   (* if (grow) pvGrow(newCount, add) *)
      | Ok cap' => shift_result (ShiftInsert items1 cnt cap' index count tmp) cap'   (* InsertNogrow( *this, index, count, *&itemHandler) *)
      | Stuck => Stuck | Fuel => Fuel | Exn => Exn
      end
    else shift_result (ShiftInsert items cnt cap_ index count it) cap_              (* InsertNogrow( *this, index, count, item) *)
  | Stuck => Stuck | Fuel => Fuel | Exn => Exn
  end.

(* item = ANY element of the array (aliased, any position relative to index) or an external object; any capacity (growth or not):
   the count inserted cells all hold the value the item had when the call started; prefix untouched; tail shifted up by count *)
Theorem gen_array_insert_spec (growOnReserve : bool) (items : Z -> Z) cnt cap_ base index count it ptr tmp :
  0 <= index -> index <= cnt -> cnt <= cap_ -> cap_ < U64 -> 0 <= count -> cnt + count < U64 ->
  0 <= base -> base + cnt < U64 -> 0 <= ptr < U64 -> U64 <= tmp ->
  ((0 <= it < cnt /\ ptr = base + it) \/ (U64 <= it /\ (ptr < base \/ base + cnt <= ptr))) ->
  exists items' cap', gen_array_insert growOnReserve items cnt cap_ base index count it ptr tmp = Ok (items', cnt + count, cap') /\
    cnt + count <= cap' /\
    (forall j, 0 <= j < index -> items' j = items j) /\
    (forall j, index <= j < index + count -> items' j = items it) /\
    (forall j, index + count <= j < cnt + count -> items' j = items (j - count)).
Proof.
  intros Hx Hxn Hcc HU Hc Hfit Hb Hbw Hp Htmp Hit.
  unfold gen_array_insert.
  rewrite (GuardProofs.insert_prefix_spec cnt cap_) by (unfold GuardProofs.u64, GuardProofs.U, U64 in *; lia).
  unfold GuardProofs.U. destruct (Z.ltb_spec (2 ^ 64 - 1) (cnt + count)); [unfold U64 in *; lia|]. cbv iota beta.
  destruct (IndexOfProofs.alias_test_exact base cnt ptr index) as (Hal1 & Hal2); try (unfold IndexOfProofs.U64, U64 in *; lia).
  destruct (Z.ltb_spec cap_ (cnt + count)) as [Hg|Hg].
  - (* growth: copy first *)
    simpl negb. simpl orb. cbv iota.
    destruct (GrowProofs.grow_capacity_ge growOnReserve cap_ (cnt + count) 0 false) as (r & Hr & Hr1 & Hr2); try (unfold U64 in *; lia).
    rewrite Hr.
    destruct (ShiftLoopProofs.shift_insert_spec (upd items tmp (items it)) cnt r index count tmp) as (items' & -> & H1 & H2 & H3 & H4);
      try (unfold ShiftLoopProofs.U64, U64 in *; lia).
    exists items', r. simpl. split; auto. split; [lia|].
    repeat split; intros j Hj; rewrite ?H1, ?H2, ?H3 by lia; unfold upd;
      repeat match goal with |- context [Z.eqb ?a ?b] => destruct (Z.eqb_spec a b) end; auto; unfold U64 in *; lia.
  - simpl negb. simpl orb.
    destruct (IndexOfProofs.alias_test index cnt (pvIndexOf base cnt ptr)) eqn:Ha.
    + (* aliased at or behind the insertion point: copy first, no growth *)
      destruct (ShiftLoopProofs.shift_insert_spec (upd items tmp (items it)) cnt cap_ index count tmp) as (items' & -> & H1 & H2 & H3 & H4);
        try (unfold ShiftLoopProofs.U64, U64 in *; lia).
      exists items', cap_. simpl. split; auto. split; [lia|].
      repeat split; intros j Hj; rewrite ?H1, ?H2, ?H3 by lia; unfold upd;
        repeat match goal with |- context [Z.eqb ?a ?b] => destruct (Z.eqb_spec a b) end; auto; unfold U64 in *; lia.
    + (* an element in front of the insertion point, or an external object: used in place *)
      assert (Hfront : it < index \/ cnt + count <= it).
      { destruct Hit as [(Hi1 & Hi2)|(Hi1 & Hi2)].
        - pose proof (Hal1 it Hi1 Hi2) as He. rewrite ?Ha in He. symmetry in He. apply Z.leb_gt in He. lia.
        - unfold U64 in *; lia. }
      destruct (ShiftLoopProofs.shift_insert_spec items cnt cap_ index count it) as (items' & -> & H1 & H2 & H3 & H4);
        try (unfold ShiftLoopProofs.U64, U64 in *; lia).
      exists items', cap_. simpl. split; auto. split; [lia|].
      repeat split; intros j Hj; rewrite ?H1, ?H2, ?H3 by lia; auto.
Qed.
