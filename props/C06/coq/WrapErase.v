(* C06 - erase(first,last) of the unordered wrappers, with explicit iterator KINDS.
   A momo hash iterator is either TRAVERSABLE (from begin()/++ of a traversable one) or LOOKUP-DERIVED
   (from find / insert / equal_range): operator++ of a lookup-derived iterator yields end() (HashSet.h:315-323;
   for the multimap it still walks the values of its key, HashMultiMap.h:228-235,292-304).  Iterator equality
   compares positions only.  State = the traversal order of the container (a list of elements). *)
From Coq Require Import List ZArith Bool Lia Arith.
From C06 Require Import Spec SpecProofs WrapOrdered.
Import ListNotations.

Inductive iter := End | At (pos : nat) (trav : bool).
Inductive result := Throw | Done (rest : list elem) (ret : option elem).

Definition it_eq (a b : iter) : bool :=
  match a, b with End, End => true | At i _, At j _ => i =? j | _, _ => false end.
Definition it_wf (n : nat) (a : iter) : Prop := match a with End => True | At i _ => i < n end.
Definition pos_of (n : nat) (a : iter) : nat := match a with End => n | At i _ => i end.
Definition is_trav (a : iter) : bool := match a with At _ false => false | _ => true end.
Definition deref (l : list elem) (a : iter) : option elem := match a with End => None | At i _ => nth_error l i end.

(* [first,last) as C++ defines it: the positions visited by ++ from first until the iterator equals last *)
Fixpoint walk (next : iter -> iter) (fuel : nat) (a last : iter) : option (list nat) :=
  if it_eq a last then Some [] else
  match fuel with
  | 0 => None
  | S f => match a with End => None | At i _ => option_map (cons i) (walk next f (next a) last) end
  end.

(* ---------- unordered_set / unordered_map ---------- *)
Definition us_next (n : nat) (a : iter) : iter :=
  match a with
  | End => End
  | At i true => if S i <? n then At (S i) true else End
  | At i false => End
  end.
Definition us_begin (n : nat) : iter := if n =? 0 then End else At 0 true.
(* erase(where): HashSet::Remove returns the traversal successor, or end() for a lookup-derived iterator *)
Definition us_erase_one (l : list elem) (a : iter) : result :=
  match a with
  | End => Throw
  | At i trav => Done (erase_range i (S i) l) (if trav then nth_error l (S i) else None)
  end.
(* unordered_set.h:565-577 / unordered_map.h:628-643, shape after commit b584262 *)
Definition us_erase_range (l : list elem) (first last : iter) : result :=
  let n := length l in
  if it_eq first last then Done l (deref l first)
  else if negb (it_eq first End) && it_eq (us_next n first) last then us_erase_one l first
  else if it_eq first (us_begin n) && it_eq last End then Done [] None
  else Throw.
(* shape before b584262: whole-container test first *)
Definition us_erase_range_prefix (l : list elem) (first last : iter) : result :=
  let n := length l in
  if it_eq first (us_begin n) && it_eq last End then Done [] None
  else if it_eq first last then Done l (deref l first)
  else if negb (it_eq first End) && it_eq (us_next n first) last then us_erase_one l first
  else Throw.

(* ---------- unordered_multimap: traversal order with the values of one key adjacent ---------- *)
Fixpoint run_len (k : Z) (l : list elem) : nat :=
  match l with e :: t => if (key e =? k)%Z then S (run_len k t) else 0 | [] => 0 end.
Definition kend (l : list elem) (p : nat) : nat := p + run_len (keyat l p) (skipn p l).     (* MakeIterator(keyIter, count) *)
Definition kstart (l : list elem) (p : nat) : nat := p - run_len (keyat l p) (rev (firstn p l)). (* MakeIterator(keyIter, 0) *)
Definition mm_next (l : list elem) (a : iter) : iter :=
  match a with
  | End => End
  | At p true => if S p <? length l then At (S p) true else End
  | At p false => if S p <? kend l p then At (S p) false else End
  end.
Definition mm_key_last (l : list elem) (p : nat) (trav : bool) : iter :=
  if trav then (if kend l p <? length l then At (kend l p) true else End) else End.
(* erase(where): count == 1 -> RemoveKey, else swap-with-last Remove; the order inside the key is abstracted *)
Definition mm_erase_one (l : list elem) (a : iter) : result :=
  match a with
  | End => Throw
  | At p trav => Done (erase_range p (S p) l)
      (if S p <? kend l p then nth_error l (kend l p - 1) else deref l (mm_key_last l p trav))
  end.
Definition mm_step3 (l : list elem) (first last : iter) : result :=
  if it_eq first (us_begin (length l)) && it_eq last End then Done [] None else Throw.
(* unordered_multimap.h:569-592, shape after commit 8a385f6 *)
Definition mm_erase_range (l : list elem) (first last : iter) : result :=
  if it_eq first last then Done l (deref l first)
  else match first with
       | End => mm_step3 l first last
       | At p trav =>
           if it_eq (mm_next l first) last then mm_erase_one l first
           else if (p =? kstart l p) && it_eq last (mm_key_last l p trav)
                then Done (erase_range p (kend l p) l) (deref l (mm_key_last l p trav))
                else mm_step3 l first last
       end.
(* shape before 8a385f6: whole-container test first, whole-key test without "first is the key's first value" *)
Definition mm_erase_range_prefix (l : list elem) (first last : iter) : result :=
  if it_eq first (us_begin (length l)) && it_eq last End then Done [] None
  else if it_eq first last then Done l (deref l first)
  else match first with
       | End => Throw
       | At p trav =>
           if it_eq (mm_next l first) last then mm_erase_one l first
           else if it_eq last (mm_key_last l p trav)
                then Done (erase_range (kstart l p) (kend l p) l) (deref l (mm_key_last l p trav))
                else Throw
       end.

(* ---------------- proofs ---------------- *)
Lemma it_eq_pos n a b : it_wf n a -> it_wf n b -> it_eq a b = (pos_of n a =? pos_of n b).
Proof.
  destruct a, b; simpl; intros; auto.
  - rewrite Nat.eqb_refl; auto.
  - symmetry. apply Nat.eqb_neq. lia.
  - symmetry. apply Nat.eqb_neq. lia.
Qed.

Lemma erase_nothing (l : list elem) i : erase_range i (i + 0) l = l.
Proof. unfold erase_range. rewrite Nat.add_0_r. apply firstn_skipn. Qed.
Lemma erase_all (l : list elem) : erase_range 0 (0 + length l) l = [].
Proof. unfold erase_range. simpl. apply skipn_all. Qed.

Lemma walk_S next f a last : walk next (S f) a last =
  if it_eq a last then Some [] else
  match a with End => None | At i _ => option_map (cons i) (walk next f (next a) last) end.
Proof. reflexivity. Qed.
Lemma walk_0 next a last : walk next 0 a last = if it_eq a last then Some [] else None.
Proof. reflexivity. Qed.

(* walking with a traversable iterator visits consecutive positions up to last *)
Lemma walk_trav next n last : it_wf n last ->
  (forall i, i < n -> next (At i true) = if S i <? n then At (S i) true else End) ->
  forall fuel i ps, i < n -> walk next fuel (At i true) last = Some ps ->
  i <= pos_of n last /\ ps = seq i (pos_of n last - i).
Proof.
  intros Hl Hn. induction fuel as [|f IH]; intros i ps Hi.
  - rewrite walk_0, (it_eq_pos n) by (simpl; auto). simpl pos_of.
    destruct (Nat.eqb_spec i (pos_of n last)) as [e|e]; try discriminate. intros E; injection E as <-.
    rewrite <- e, Nat.sub_diag. simpl; auto.
  - rewrite walk_S, (it_eq_pos n) by (simpl; auto). simpl pos_of.
    destruct (Nat.eqb_spec i (pos_of n last)) as [e|e].
    + intros E; injection E as <-. rewrite <- e, Nat.sub_diag. simpl; auto.
    + rewrite Hn by auto. destruct (Nat.ltb_spec (S i) n).
      * destruct (walk next f (At (S i) true) last) as [ps'|] eqn:W; simpl; try discriminate.
        intros E; inversion E; subst. destruct (IH (S i) ps' H W) as [A B]. split; [lia|].
        rewrite B. replace (pos_of n last - i) with (S (pos_of n last - S i)) by lia. reflexivity.
      * destruct f; [rewrite walk_0|rewrite walk_S]; destruct last as [|j tj]; simpl in *; try discriminate;
        intros E; inversion E; subst; (split; [lia|]); replace (n - i) with 1 by lia; reflexivity.
Qed.

Theorem us_erase_range_cases l first last ps :
  let n := length l in
  it_wf n first -> it_wf n last ->
  walk (us_next n) (S n) first last = Some ps ->
  match us_erase_range l first last with
  | Throw => 2 <= length ps < n
  | Done rest ret =>
      exists i m, ps = seq i m /\ rest = erase_range i (i + m) l /\ (m = 0 \/ m = 1 \/ m = n) /\
                  (is_trav first = true -> ret = deref l last) /\
                  (is_trav first = false -> ret = None \/ m = 0)
  end.
Proof.
  intros n Hf Hl W. unfold us_erase_range. fold n.
  destruct first as [|i [|]].
  - (* first = end *)
    simpl in W. destruct last; simpl in *; try discriminate. inversion W; subst.
    exists 0, 0. rewrite erase_nothing. repeat split; auto.
  - (* traversable *)
    simpl in Hf.
    destruct (walk_trav (us_next n) n last Hl ltac:(intros; reflexivity) (S n) i ps Hf W) as [A B].
    rewrite (it_eq_pos n) by (simpl; auto). simpl pos_of.
    destruct (Nat.eqb_spec i (pos_of n last)) as [E|E].
    + exists i, 0. rewrite erase_nothing. subst ps. rewrite <- E, Nat.sub_diag. repeat split; auto; try discriminate.
      intros _. destruct last; simpl in *; [lia|subst; auto].
    + simpl it_eq at 1. simpl negb. rewrite andb_true_l.
      assert (Hnx : it_wf n (us_next n (At i true))) by (simpl; destruct (Nat.ltb_spec (S i) n); simpl; auto).
      rewrite (it_eq_pos n (us_next n (At i true))) by auto.
      assert (Pn : pos_of n (us_next n (At i true)) = S i) by (simpl; destruct (Nat.ltb_spec (S i) n); simpl; lia).
      rewrite Pn. destruct (Nat.eqb_spec (S i) (pos_of n last)) as [E1|E1].
      * unfold us_erase_one. exists i, 1. subst ps. rewrite <- E1. replace (S i - i) with 1 by lia.
        replace (i + 1) with (S i) by lia. repeat split; auto; try discriminate.
        intros _. destruct last as [|j tj]; unfold deref, pos_of in *.
        -- apply nth_error_None. fold n. lia.
        -- subst j; auto.
      * rewrite (it_eq_pos n) by (simpl; auto; unfold us_begin; destruct (Nat.eqb_spec n 0); simpl; auto; lia).
        assert (Pb : pos_of n (us_begin n) = 0) by (unfold us_begin; destruct (Nat.eqb_spec n 0); simpl; lia).
        rewrite Pb. simpl pos_of.
        destruct (Nat.eqb_spec i 0) as [E2|E2]; simpl.
        -- destruct last as [|j tj]; simpl.
           ++ exists 0, n. subst i ps. unfold pos_of. rewrite Nat.sub_0_r. change (erase_range 0 (0 + n) l) with (erase_range 0 (0 + length l) l). rewrite erase_all.
              repeat split; auto.
           ++ subst ps. rewrite seq_length. simpl in *. lia.
        -- subst ps. rewrite seq_length. destruct last; simpl in *; lia.
  - (* lookup-derived *)
    simpl in Hf. assert (n = S (Nat.pred n)) as En by lia. 
    destruct last as [|j tj]; simpl it_eq.
    + simpl. simpl in W. inversion W; subst. exists i, 1. replace (i + 1) with (S i) by lia.
      repeat split; auto; discriminate.
    + simpl in W. simpl in Hl. destruct (Nat.eqb_spec i j).
      * inversion W; subst. exists j, 0. rewrite erase_nothing. repeat split; auto; discriminate.
      * discriminate.
Qed.

(* the pre-fix shape is wrong: erase(equal_range(k)) for the first-traversed key cleared the container *)
Theorem us_erase_range_prefix_refuted : exists l first last ps,
  it_wf (length l) first /\ it_wf (length l) last /\
  walk (us_next (length l)) (S (length l)) first last = Some ps /\ ps = [0] /\
  us_erase_range_prefix l first last = Done [] None /\
  us_erase_range l first last = Done [(2%Z, 0%Z)] None.
Proof. exists [(1%Z, 0%Z); (2%Z, 0%Z)], (At 0 false), End, [0]. vm_compute. repeat split; auto. Qed.
