(* C19 -- the inductive invariant of the free-row list machine (Treiber.v) and its preservation by every step. *)
From Coq Require Import List Arith Bool PeanoNat Lia Permutation.
From C19 Require Import Treiber.
Import ListNotations.

Lemma upd_eq {A} (f : nat -> A) k v : upd f k v k = v.
Proof. unfold upd. rewrite Nat.eqb_refl. reflexivity. Qed.

Lemma upd_neq {A} (f : nat -> A) k v x : x <> k -> upd f k v x = f x.
Proof. unfold upd. intros H. destruct (Nat.eqb_spec x k); [contradiction|reflexivity]. Qed.

Lemma upd_case {A} (f : nat -> A) k v x :
  (x = k /\ upd f k v x = v) \/ (x <> k /\ upd f k v x = f x).
Proof. destruct (Nat.eq_dec x k); [left|right]; split; auto; subst; [apply upd_eq|apply upd_neq; auto]. Qed.

Ltac upd_tac :=
  repeat first
  [ rewrite upd_eq in *
  | match goal with
    | N : ?x <> ?k |- _ => rewrite (upd_neq _ k _ x N) in *
    end
  | match goal with
    | H : context [upd ?f ?k ?v ?x] |- _ =>
        let N := fresh "N" in destruct (Nat.eq_dec x k) as [N|N]; [subst|]
    | |- context [upd ?f ?k ?v ?x] =>
        let N := fresh "N" in destruct (Nat.eq_dec x k) as [N|N]; [subst|]
    end ].

Lemma oeqb_spec a b : reflect (a = b) (oeqb a b).
Proof.
  destruct a, b; simpl; try (constructor; congruence).
  destruct (Nat.eqb_spec r r0); constructor; congruence.
Qed.

(* the list l is exactly what one sees following link words from `start` down to null *)
Fixpoint chain (lk : row -> option row) (start : option row) (l : list row) : Prop :=
  match l with
  | [] => start = None
  | r :: l' => start = Some r /\ chain lk (lk r) l'
  end.

Lemma chain_upd lk st l r v : ~ In r l -> chain lk st l -> chain (upd lk r v) st l.
Proof.
  revert st; induction l; simpl; intros st Hn Hc; auto.
  destruct Hc as [H1 H2]; split; auto.
  rewrite upd_neq by (intro; apply Hn; left; congruence).
  apply IHl; auto.
Qed.

Lemma chain_walk lk st l : chain lk st l -> walk lk st (length l) = Some l.
Proof.
  revert st; induction l; simpl; intros st H.
  - subst; reflexivity.
  - destruct H as [-> H]. rewrite (IHl _ H). reflexivity.
Qed.

Lemma chain_walk_fuel lk st l f : chain lk st l -> length l <= f -> walk lk st f = Some l.
Proof.
  revert st f; induction l; simpl; intros st f H Hf.
  - subst; destruct f; reflexivity.
  - destruct H as [-> H]. destruct f; [lia|]. simpl. rewrite (IHl _ f H) by lia. reflexivity.
Qed.

Lemma chain_det lk st l1 l2 : chain lk st l1 -> chain lk st l2 -> l1 = l2.
Proof.
  revert st l2; induction l1; destruct l2; simpl; intros; try congruence.
  - destruct H0; congruence.
  - destruct H; congruence.
  - destruct H, H0. assert (a = r) by congruence. subst. f_equal. eauto.
Qed.

Definition in_hand (s : state) (r : row) : Prop := exists t, held (dpcs s t) = Some r.

Record inv (s : state) : Prop := mkInv {
  i_chain : chain (link s) (head s) (shared s);
  i_nodup : NoDup (shared s ++ drain s);
  i_own : match own s with
          | OIdle => drain s = []
          | ODrain c => chain (link s) c (drain s)
          | ONext r n => exists d, drain s = r :: d /\ chain (link s) n d
          end;
  i_listed : forall r, status s r = Listed <-> In r (shared s ++ drain s);
  i_held : forall t r, held (dpcs s t) = Some r -> status s r = Pending;
  i_pend : forall r, status s r = Pending -> exists t, held (dpcs s t) = Some r;
  i_inj : forall t1 t2 r, held (dpcs s t1) = Some r -> held (dpcs s t2) = Some r -> t1 = t2;
  i_linked : forall t r h, dpcs s t = Linked r h -> link s r = h;
  i_nd_disp : NoDup (disposed s);
  i_nd_recl : NoDup (reclaimed s);
  i_recl_pub : incl (reclaimed s) (published s);
  i_pub_disp : incl (published s) (disposed s);
  i_disp : forall r g, In (r, g) (disposed s) ->
             In (r, g) (reclaimed s) \/ (g = gen s r /\ (status s r = Pending \/ status s r = Listed));
  i_active : forall r, status s r = Pending \/ status s r = Listed ->
             In (r, gen s r) (disposed s) /\ ~ In (r, gen s r) (reclaimed s);
  i_lpub : forall r, status s r = Listed -> In (r, gen s r) (published s);
  i_rgen : forall r g, In (r, g) (reclaimed s) -> g < gen s r \/ (g = gen s r /\ status s r = Free) }.

Lemma inv_init : inv init.
Proof.
  constructor; simpl; auto; try (constructor; fail); try (intros; discriminate); try (intros; contradiction);
    try (intros ? ?; contradiction).
  - intros r; split; [discriminate|contradiction].
  - intros r [H|H]; discriminate.
Qed.

(* a row that is not Listed is on neither list *)
Lemma not_listed_notin s r : inv s -> status s r <> Listed -> ~ In r (shared s ++ drain s).
Proof. intros I H Hin. apply H. apply (i_listed s I). exact Hin. Qed.

Lemma notin_app {A} (x : A) l1 l2 : ~ In x (l1 ++ l2) -> ~ In x l1 /\ ~ In x l2.
Proof. intros H; split; intro; apply H; apply in_or_app; auto. Qed.

Lemma own_chain_upd s r v :
  ~ In r (drain s) ->
  match own s with
  | OIdle => drain s = []
  | ODrain c => chain (link s) c (drain s)
  | ONext r0 n => exists d, drain s = r0 :: d /\ chain (link s) n d
  end ->
  match own s with
  | OIdle => drain s = []
  | ODrain c => chain (upd (link s) r v) c (drain s)
  | ONext r0 n => exists d, drain s = r0 :: d /\ chain (upd (link s) r v) n d
  end.
Proof.
  intros Hn. destruct (own s); auto.
  - intros; apply chain_upd; auto.
  - intros [d [E C]]. exists d; split; auto. apply chain_upd; auto. rewrite E in Hn. intro; apply Hn; right; auto.
Qed.

Ltac inv_pair :=
  repeat match goal with
  | H : (_, _) = (_, _) |- _ => inversion H; subst; clear H
  end.

Section Step.
Variable s : state.
Hypothesis I : inv s.

Ltac getinv :=
  pose proof (i_chain s I) as I1;
  pose proof (i_nodup s I) as I2;
  pose proof (i_own s I) as I3;
  pose proof (i_listed s I) as I4;
  pose proof (i_held s I) as I5;
  pose proof (i_pend s I) as I6;
  pose proof (i_inj s I) as I7;
  pose proof (i_linked s I) as I8;
  pose proof (i_nd_disp s I) as I9;
  pose proof (i_nd_recl s I) as I10;
  pose proof (i_recl_pub s I) as I11;
  pose proof (i_pub_disp s I) as I12;
  pose proof (i_disp s I) as I13;
  pose proof (i_active s I) as I14;
  pose proof (i_lpub s I) as I15;
  pose proof (i_rgen s I) as I16.

Ltac sat :=
  repeat match goal with
  | H : held (dpcs s ?t) = Some ?r |- _ =>
      lazymatch goal with
      | _ : status s r = Pending |- _ => fail
      | _ => pose proof (i_held s I _ _ H)
      end
  end.
Ltac fin := simpl in *; sat; try congruence; eauto.

(* writes into a buffer that is not on a list and not Linked by anybody leave the structure intact *)
Lemma link_write_ok r v :
  status s r <> Listed ->
  chain (upd (link s) r v) (head s) (shared s) /\
  match own s with
  | OIdle => drain s = []
  | ODrain c => chain (upd (link s) r v) c (drain s)
  | ONext r0 n => exists d, drain s = r0 :: d /\ chain (upd (link s) r v) n d
  end.
Proof.
  getinv.
  intros H. pose proof (not_listed_notin s r I H) as Hn. apply notin_app in Hn. destruct Hn.
  split; [apply chain_upd; auto | apply own_chain_upd; auto].
Qed.

Lemma step_DBegin t r s' : step s (DBegin t r) = Some s' -> inv s'.
Proof.
  getinv.
  unfold step. destruct (dpcs s t) eqn:Ep; try discriminate. destruct (status s r) eqn:Es; try discriminate.
  intros H; inversion H; subst; clear H.
  assert (Hfresh : ~ In (r, gen s r) (disposed s)).
  { intro Hin. destruct (I13 _ _ Hin) as [Hr|[_ [Hp|Hp]]]; try congruence.
    destruct (I16 _ _ Hr) as [?|[_ ?]]; [lia|congruence]. }
  constructor; simpl; auto.
  - intros r0. rewrite <- I4. upd_tac; split; congruence.
  - intros t0 r0 Hh. upd_tac; eauto. simpl in Hh. congruence.
  - intros r0 Hs. upd_tac.
    + exists t. rewrite upd_eq. reflexivity.
    + destruct (I6 _ Hs) as [t0 Ht0]. exists t0. rewrite upd_neq; auto. intro; subst. rewrite Ep in Ht0. discriminate.
  - intros t1 t2 r0 H1 H2. upd_tac; fin.
  - intros t0 r0 h Hd. upd_tac; try discriminate. eauto.
  - constructor; auto.
  - apply incl_tl; auto.
  - intros r0 g [Hin|Hin].
    + inv_pair. right. rewrite upd_eq. auto.
    + destruct (I13 _ _ Hin) as [?|[? Hp]]; auto. right. upd_tac; auto.
  - intros r0 Hs. upd_tac.
    + split; [left; auto|]. intro Hr. destruct (I16 _ _ Hr) as [?|[_ ?]]; [lia|congruence].
    + destruct (I14 _ Hs). split; auto.
  - intros r0 Hs. upd_tac; try discriminate. auto.
  - intros r0 g Hin. destruct (I16 _ _ Hin) as [?|[? ?]]; auto. upd_tac; auto. congruence.
Qed.

(* a step that only moves thread t between pcs holding the same row *)
Lemma held_same_ok t p r :
  held (dpcs s t) = Some r -> held p = Some r ->
  (forall t0 r0, held (upd (dpcs s) t p t0) = Some r0 -> status s r0 = Pending) /\
  (forall r0, status s r0 = Pending -> exists t0, held (upd (dpcs s) t p t0) = Some r0) /\
  (forall t1 t2 r0, held (upd (dpcs s) t p t1) = Some r0 -> held (upd (dpcs s) t p t2) = Some r0 -> t1 = t2).
Proof.
  getinv.
  intros Ho Hn.
  assert (E : forall t0, held (upd (dpcs s) t p t0) = held (dpcs s t0)).
  { intros t0. destruct (upd_case (dpcs s) t p t0) as [[-> ->]|[_ ->]]; congruence. }
  repeat split.
  - intros t0 r0. rewrite E. apply I5.
  - intros r0 Hs. destruct (I6 _ Hs) as [t0 ?]. exists t0. rewrite E. auto.
  - intros t1 t2 r0. rewrite !E. apply I7.
Qed.

Lemma step_DLoad t s' : step s (DLoad t) = Some s' -> inv s'.
Proof.
  getinv.
  unfold step. destruct (dpcs s t) eqn:Ep; try discriminate.
  intros H; inversion H; subst; clear H.
  destruct (held_same_ok t (Loaded r (head s)) r) as [A [B C]]; [rewrite Ep; auto|auto|].
  constructor; simpl; auto.
  intros t0 r0 h Hd. upd_tac; try discriminate. eauto.
Qed.

Lemma step_DLink t s' : step s (DLink t) = Some s' -> inv s'.
Proof.
  getinv.
  unfold step. destruct (dpcs s t) eqn:Ep; try discriminate.
  intros H; inversion H; subst; clear H.
  destruct (held_same_ok t (Linked r h) r) as [A [B C]]; [rewrite Ep; auto|auto|].
  assert (Hp : status s r = Pending) by (apply (I5 t); rewrite Ep; auto).
  destruct (link_write_ok r h) as [L1 L2]; [congruence|].
  constructor; simpl; auto.
  intros t0 r0 h0 Hd.
  destruct (upd_case (dpcs s) t (Linked r h) t0) as [[-> E]|[N E]]; rewrite E in Hd; clear E.
  - inversion Hd; subst. apply upd_eq.
  - assert (r0 <> r).
    { intro; subst. apply N. apply (I7 t0 t r); [rewrite Hd|rewrite Ep]; auto. }
    rewrite upd_neq; eauto.
Qed.

Lemma step_DCas t sp s' : step s (DCas t sp) = Some s' -> inv s'.
Proof.
  getinv.
  unfold step. destruct (dpcs s t) eqn:Ep; try discriminate.
  assert (Hh : held (dpcs s t) = Some r) by (rewrite Ep; auto).
  assert (Hp : status s r = Pending) by (apply (I5 t); auto).
  destruct (negb sp && oeqb (head s) h) eqn:Ec.
  - (* success *)
    apply andb_true_iff in Ec. destruct Ec as [_ Ec]. destruct (oeqb_spec (head s) h); try discriminate.
    intros H; inversion H; subst; clear H.
    assert (Hn : ~ In r (shared s ++ drain s)) by (apply not_listed_notin; auto; congruence).
    destruct (I14 r (or_introl Hp)) as [Hd Hr].
    constructor; simpl; auto.
    + split; auto. rewrite (I8 _ _ _ Ep). auto.
    + constructor; auto.
    + intros r0. upd_tac.
      * split; auto.
      * rewrite I4. split; auto. intros [?|?]; auto. congruence.
    + intros t0 r0 H0. upd_tac; simpl in *; try discriminate; eauto.
      exfalso. apply N. eapply I7; eauto.
    + intros r0 Hs. upd_tac; try discriminate. destruct (I6 _ Hs) as [t0 Ht0]. exists t0.
      rewrite upd_neq; auto. intro; subst. congruence.
    + intros t1 t2 r0 H1 H2. upd_tac; try discriminate. eauto.
    + intros t0 r0 h0 H0. upd_tac; try discriminate. eauto.
    + apply incl_tl; auto.
    + intros a [<-|Ha]; auto.
    + intros r0 g Hin. destruct (I13 _ _ Hin) as [?|[? Hq]]; auto. right. upd_tac; auto.
    + intros r0 Hs. upd_tac; auto.
    + intros r0 Hs. upd_tac; [left; auto|right; auto].
    + intros r0 g Hin. destruct (I16 _ _ Hin) as [?|[? ?]]; auto. upd_tac; auto. congruence.
  - (* failure: genuine or spurious *)
    intros H; inversion H; subst; clear H.
    destruct (held_same_ok t (Start r) r) as [A [B C]]; auto.
    constructor; simpl; auto.
    intros t0 r0 h0 Hd. upd_tac; try discriminate. eauto.
Qed.

Lemma step_OExchange s' : step s OExchange = Some s' -> inv s'.
Proof.
  getinv.
  unfold step. destruct (own s) eqn:Eo; try discriminate.
  intros H; inversion H; subst; clear H.
  assert (Ed : drain s = []) by (try rewrite Eo in I3; auto).
  constructor; simpl; auto.
  - rewrite Ed, app_nil_r in I2. auto.
  - intros r. rewrite I4, Ed, app_nil_r. reflexivity.
Qed.

Lemma step_ORead s' : step s ORead = Some s' -> inv s'.
Proof.
  getinv.
  unfold step. destruct (own s) eqn:Eo; try discriminate. destruct c; try discriminate.
  intros H; inversion H; subst; clear H.
  try rewrite Eo in I3.
  constructor; simpl; auto.
  destruct (drain s) as [|a d]; simpl in I3; [discriminate|]. destruct I3 as [E C]. inversion E; subst.
  exists d; auto.
Qed.

Lemma step_ODone s' : step s ODone = Some s' -> inv s'.
Proof.
  getinv.
  unfold step. destruct (own s) eqn:Eo; try discriminate. destruct c; try discriminate.
  intros H; inversion H; subst; clear H.
  try rewrite Eo in I3.
  constructor; simpl; auto.
  destruct (drain s); auto. simpl in I3. destruct I3; discriminate.
Qed.

Lemma step_OFree g s' : step s (OFree g) = Some s' -> inv s'.
Proof.
  getinv.
  unfold step. destruct (own s) eqn:Eo; try discriminate.
  intros H; inversion H; subst; clear H.
  try rewrite Eo in I3. destruct I3 as [d [Ed Cd]].
  assert (Hin : In r (shared s ++ drain s)) by (rewrite Ed; apply in_or_app; right; left; auto).
  assert (Hl : status s r = Listed) by (apply I4; auto).
  pose proof I2 as ND. rewrite Ed in ND.
  pose proof (NoDup_remove_1 _ _ _ ND) as ND1. pose proof (NoDup_remove_2 _ _ _ ND) as ND2.
  apply notin_app in ND2. destruct ND2 as [Ns Nd].
  destruct (I14 r (or_intror Hl)) as [Hdisp Hrecl].
  constructor; simpl; auto.
  - apply chain_upd; auto.
  - rewrite Ed; simpl; auto.
  - rewrite Ed; simpl. apply chain_upd; auto.
  - intros r0. rewrite Ed; simpl. upd_tac.
    + split; [discriminate|]. intro Hx. exfalso. apply in_app_or in Hx. tauto.
    + rewrite I4, Ed. split; intro Hx; apply in_app_or in Hx; apply in_or_app; simpl in *; intuition congruence.
  - intros t0 r0 Hh. pose proof (I5 _ _ Hh). upd_tac; auto. congruence.
  - intros r0 Hs. upd_tac; try discriminate. auto.
  - intros t0 r0 h Hd. assert (r0 <> r).
    { intro; subst. assert (status s r = Pending) by (apply (I5 t0); rewrite Hd; auto). congruence. }
    rewrite upd_neq; eauto.
  - constructor; auto.
  - intros a [<-|Ha]; auto.
  - intros r0 g0 Hd0. destruct (I13 _ _ Hd0) as [?|[? Hq]]; [left; right; auto|].
    upd_tac; [left; left; auto|right; auto].
  - intros r0 Hs. upd_tac; [destruct Hs; discriminate|].
    destruct (I14 _ Hs). split; auto. intros [Hx|Hx]; auto. congruence.
  - intros r0 Hs. upd_tac; try discriminate. auto.
  - intros r0 g0 [Hx|Hx].
    + inv_pair. right. rewrite upd_eq. auto.
    + destruct (I16 _ _ Hx) as [?|[? ?]]; auto. right. split; auto. upd_tac; auto.
Qed.

Lemma step_OAlloc r g s' : step s (OAlloc r g) = Some s' -> inv s'.
Proof.
  getinv.
  unfold step. destruct (own s) eqn:Eo; try discriminate. destruct (status s r) eqn:Es; try discriminate.
  intros H; inversion H; subst; clear H.
  destruct (link_write_ok r g) as [L1 L2]; [congruence|]. try rewrite Eo in L2.
  constructor; simpl; auto.
  - intros r0. rewrite <- I4. upd_tac; split; congruence.
  - intros t0 r0 Hh. pose proof (I5 _ _ Hh). upd_tac; auto. congruence.
  - intros r0 Hs. upd_tac; try discriminate. auto.
  - intros t0 r0 h Hd. assert (r0 <> r).
    { intro; subst. assert (status s r = Pending) by (apply (I5 t0); rewrite Hd; auto). congruence. }
    rewrite upd_neq; eauto.
  - intros r0 g0 Hd0. destruct (I13 _ _ Hd0) as [?|[? Hq]]; auto.
    right. upd_tac; [destruct Hq; congruence|auto].
  - intros r0 Hs. upd_tac; [destruct Hs; discriminate|auto].
  - intros r0 Hs. upd_tac; try discriminate. auto.
  - intros r0 g0 Hx. destruct (I16 _ _ Hx) as [?|[? ?]]; upd_tac; auto; left; lia.
Qed.

(* owner-side status moves between Detached / InTable / Free that touch neither the lists nor the logs *)
Lemma status_move_ok r v lk' own' :
  in_use (status s r) = true -> in_use v = true -> (v = Free \/ status s r <> Free) ->
  chain lk' (head s) (shared s) ->
  match own' with
  | OIdle => drain s = []
  | ODrain c => chain lk' c (drain s)
  | ONext r0 n => exists d, drain s = r0 :: d /\ chain lk' n d
  end ->
  (forall t r0 h, dpcs s t = Linked r0 h -> lk' r0 = h) ->
  inv (mkState (head s) lk' (dpcs s) own' (upd (status s) r v) (gen s) (shared s) (drain s)
               (disposed s) (published s) (reclaimed s)).
Proof.
  getinv.
  intros Hu Hv Hf L1 L2 L3.
  assert (Hnp : status s r <> Pending) by (intro E; rewrite E in Hu; discriminate).
  assert (Hnl : status s r <> Listed) by (intro E; rewrite E in Hu; discriminate).
  assert (Hvp : v <> Pending) by (intro; subst; discriminate).
  assert (Hvl : v <> Listed) by (intro; subst; discriminate).
  constructor; simpl; auto.
  - intros r0. rewrite <- I4. upd_tac; split; congruence.
  - intros t0 r0 Hh. pose proof (I5 _ _ Hh). upd_tac; auto. congruence.
  - intros r0 Hs. upd_tac; try congruence. auto.
  - intros r0 g0 Hd0. destruct (I13 _ _ Hd0) as [?|[? Hq]]; auto.
    right. upd_tac; [destruct Hq; congruence|auto].
  - intros r0 Hs. upd_tac; [destruct Hs; congruence|auto].
  - intros r0 Hs. upd_tac; try congruence. auto.
  - intros r0 g0 Hx. destruct (I16 _ _ Hx) as [?|[? ?]]; auto. upd_tac; auto.
    destruct Hf; [right; split; auto|congruence].
Qed.

Lemma step_OAdd r s' : step s (OAdd r) = Some s' -> inv s'.
Proof.
  getinv.
  unfold step. destruct (own s) eqn:Eo; try discriminate. destruct (status s r) eqn:Es; try discriminate.
  intros H; inversion H; subst; clear H.
  rewrite <- Eo at 1.
  apply status_move_ok; auto; try (rewrite Es; auto); try (right; discriminate); try (rewrite Eo; auto).
Qed.

Lemma step_OExtract r s' : step s (OExtract r) = Some s' -> inv s'.
Proof.
  getinv.
  unfold step. destruct (own s) eqn:Eo; try discriminate. destruct (status s r) eqn:Es; try discriminate.
  intros H; inversion H; subst; clear H.
  rewrite <- Eo at 1.
  apply status_move_ok; auto; try (rewrite Es; auto); try (right; discriminate); try (rewrite Eo; auto).
Qed.

Lemma linked_upd_ok r v :
  status s r <> Pending ->
  forall t r0 h, dpcs s t = Linked r0 h -> upd (link s) r v r0 = h.
Proof.
  getinv.
  intros Hn t r0 h Hd. assert (r0 <> r).
  { intro; subst. apply Hn. apply (I5 t). rewrite Hd; auto. }
  rewrite upd_neq; eauto.
Qed.

Lemma step_ORemove r g s' : step s (ORemove r g) = Some s' -> inv s'.
Proof.
  getinv.
  unfold step. destruct (own s) eqn:Eo; try discriminate. destruct (status s r) eqn:Es; try discriminate.
  intros H; inversion H; subst; clear H.
  destruct (link_write_ok r g) as [L1 L2]; [congruence|]. try rewrite Eo in L2.
  apply status_move_ok; auto; try (rewrite Es; auto).
  apply linked_upd_ok. congruence.
Qed.

Lemma step_Scribble r g s' : step s (Scribble r g) = Some s' -> inv s'.
Proof.
  getinv.
  unfold step. destruct (in_use (status s r)) eqn:Eu; try discriminate.
  intros H; inversion H; subst; clear H.
  assert (Hnl : status s r <> Listed) by (intro E; rewrite E in Eu; discriminate).
  assert (Hnp : status s r <> Pending) by (intro E; rewrite E in Eu; discriminate).
  destruct (link_write_ok r g) as [L1 L2]; auto.
  constructor; simpl; auto.
  apply linked_upd_ok; auto.
Qed.

End Step.

Theorem inv_step s l s' : inv s -> step s l = Some s' -> inv s'.
Proof.
  intros I H. destruct l.
  - eapply step_DBegin; eauto.
  - eapply step_DLoad; eauto.
  - eapply step_DLink; eauto.
  - eapply step_DCas; eauto.
  - eapply step_OExchange; eauto.
  - eapply step_ORead; eauto.
  - eapply step_OFree; eauto.
  - eapply step_ODone; eauto.
  - eapply step_OAlloc; eauto.
  - eapply step_OAdd; eauto.
  - eapply step_OExtract; eauto.
  - eapply step_ORemove; eauto.
  - eapply step_Scribble; eauto.
Qed.

Lemma inv_run ls : forall s s', inv s -> run s ls = Some s' -> inv s'.
Proof.
  induction ls; simpl; intros s s' I H.
  - inversion H; subst; auto.
  - destruct (step s a) eqn:E; try discriminate. eapply IHls; [|eauto]. eapply inv_step; eauto.
Qed.

Theorem inv_reachable s : reachable s -> inv s.
Proof. intros [ls H]. eapply inv_run; [apply inv_init|eauto]. Qed.

Lemma run_app ls1 : forall ls2 s s1, run s ls1 = Some s1 -> run s (ls1 ++ ls2) = run s1 ls2.
Proof.
  induction ls1; simpl; intros ls2 s s1 H.
  - inversion H; auto.
  - destruct (step s a); try discriminate. eauto.
Qed.

Lemma reachable_step s l s' : reachable s -> step s l = Some s' -> reachable s'.
Proof.
  intros [ls H] Hs. exists (ls ++ [l]). rewrite (run_app _ _ _ _ H). simpl. rewrite Hs. reflexivity.
Qed.
