(* C07 L1 model driver: "X traits | op | op ..." scripts on the extracted IndexModel / MultiHash
   (same syntax and same output as harness_idx.cpp).  The hash traits only matter to the real code. *)
open Zutil
open Datatypes
open IndexModel

module L = Stdlib.List
let nat = nat_of_int
let ofnat = int_of_nat
let zi = int_of_z

let str_digest (s : string) : int =
  let h = ref 7 in
  Stdlib.String.iter (fun ch -> h := (!h * 131 + Char.code ch) mod 1000003) s; !h

let ord (t : nat) : nat = nat ((ofnat t) * 5 + 1)
let reach _ _ = true   (* every probe may see every entry: the worst case for lookups by content *)

type bed = { mutable st : istate; content : (int, int array) Hashtbl.t; mutable live : int list }

let ct_of (b : bed) : BinNums.coq_Z -> BinNums.coq_Z list = fun z ->
  let a = try Hashtbl.find b.content (zi z) with Not_found -> [| 0; 0; 0 |] in
  L.map z_of_int (Array.to_list a)

let key_content b cols i =
  let a = try Hashtbl.find b.content i with Not_found -> [| 0; 0; 0 |] in
  L.map (fun c -> a.(ofnat c)) cols

let dump (b : bed) : string =
  let buf = Buffer.create 256 in
  L.iteri (fun j u ->
    let ids = L.sort compare (L.map (fun e -> zi e.eraw) u.uents) in
    Buffer.add_string buf (Printf.sprintf "U%d[%s]" j (Stdlib.String.concat " " (L.map string_of_int ids)))) b.st.uhs;
  L.iteri (fun j m ->
    let groups = L.map (fun g ->
      let key = zi g.gkey in
      (key_content b m.mcols key, Printf.sprintf "%d:%s" key (Stdlib.String.concat " " (L.map (fun v -> string_of_int (zi v)) g.gvals)))) m.mgroups in
    let groups = L.sort compare groups in
    Buffer.add_string buf (Printf.sprintf "M%d[%s]" j (Stdlib.String.concat "|" (L.map snd groups)))) b.st.mhs;
  Buffer.contents buf

let show_outcome = function
  | Accepted -> "ok"
  | Refused (r, j) -> Printf.sprintf "conflict %d %d" (zi r) (ofnat j)
  | Thrown -> "exn"

(* an operation under fault injection: the model fails at every fallible step in turn (threading the
   rolled-back states) before the run without failure *)
let with_faults (inject : bool) (b : bed) (run : nat option -> istate -> istate * outcome) : outcome =
  if inject then begin
    let s = ref 0 in
    let go = ref true in
    while !go do
      let (st', o) = run (Some (nat !s)) b.st in
      (match o with Thrown -> b.st <- st'; incr s | _ -> go := false);
      if !s > 64 then go := false
    done
  end;
  let (st', o) = run None b.st in
  b.st <- st'; o

(* round 8: the statement trees GENERATED from DataIndexes.h (Gen_Protocol, run by ProtoSem's interpreter) are executed next to
   the hand model on every two-phase operation; the two must agree exactly (state and outcome) *)
let gen_diff = ref ""
let chk_gen what hand gen =
  (match gen with
   | Some (g, _) -> if g <> hand && !gen_diff = "" then gen_diff := what
   | None -> if !gen_diff = "" then gen_diff := what ^ ":uninterpreted");
  hand
let add_raw_g o r c fl st raw = let h = add_raw o r c fl st raw in chk_gen "AddRaw" h (ProtoRun.gen_add_raw o r c fl st raw)
let update_raw_g fu fm o r c fl st a bb = let h = update_raw fu fm o r c fl st a bb in chk_gen "UpdateRaw" h (ProtoRun.gen_update_raw fu fm o r c fl st a bb)
let update_col_g fu fm o r c fl st raw col v =
  let ((st', oc), ct') = update_col fu fm o r c fl st raw col v in
  ignore (chk_gen "UpdateRawCol" (st', oc) (ProtoRun.gen_update_col fu fm o r c fl st raw col v)); ((st', oc), ct')
let remove_raw_g fu fm r c fl st raw =
  let h = remove_raw fu fm r c fl st raw in
  (match ProtoRun.gen_remove_raw fu fm r c fl st raw with
   | Some g -> if g <> h && !gen_diff = "" then gen_diff := "RemoveRaw"
   | None -> if !gen_diff = "" then gen_diff := "RemoveRaw:uninterpreted"); h

let run_op (b : bed) (text : string) : string =
  let ws = words text in
  let ct = ct_of b in
  let mut s = Printf.sprintf "%s%s #%d" s (if !gen_diff = "" then "" else " !GEN-PROTOCOL-DIFFERS:" ^ !gen_diff) (str_digest (dump b)) in
  let ints l = L.map int_of_string l in
  match ws with
  | "NU" :: cols ->
    let cs = L.map nat (L.sort compare (ints cols)) in
    let raws = L.map z_of_int (L.sort compare b.live) in
    let (st', r) = add_unique_index ord reach ct b.st cs raws in
    b.st <- st';
    mut (match r with None -> "ok" | Some r -> Printf.sprintf "dup %d" (zi r))
  | "NM" :: cols ->
    let cs = L.map nat (L.sort compare (ints cols)) in
    let raws = L.map z_of_int (L.sort compare b.live) in
    b.st <- add_multi_index ord reach ct b.st cs raws; mut "ok"
  | ["W"; i; a; c; d] -> Hashtbl.replace b.content (int_of_string i) [| int_of_string a; int_of_string c; int_of_string d |]; "ok"
  | ["ADD"; f; i] ->
    let i = int_of_string i in
    if L.mem i b.live then mut "invalid" else begin
      let o = with_faults (f <> "0") b (fun fl st -> add_raw_g ord reach ct fl st (z_of_int i)) in
      (match o with Accepted -> b.live <- i :: b.live | _ -> ());
      mut (show_outcome o) end
  | ["REM"; f; i] ->
    let i = int_of_string i in
    if not (L.mem i b.live) then mut "invalid" else begin
      ignore f;
      let (st', _) = remove_raw_g true true reach ct None b.st (z_of_int i) in
      b.st <- st'; b.live <- L.filter (fun x -> x <> i) b.live; mut "ok" end
  | ["UPD"; f; i; j] ->
    let i = int_of_string i and j = int_of_string j in
    if not (L.mem i b.live) || L.mem j b.live || i = j then mut "invalid" else begin
      let o = with_faults (f <> "0") b (fun fl st -> update_raw_g true true ord reach ct fl st (z_of_int i) (z_of_int j)) in
      (match o with Accepted -> b.live <- j :: L.filter (fun x -> x <> i) b.live | _ -> ());
      mut (show_outcome o) end
  | ["UPC"; f; i; c; v; t] ->
    let i = int_of_string i and c = int_of_string c and v = int_of_string v in
    if not (L.mem i b.live) then mut "invalid" else begin
      let run fl st = let ((st', o), _) = update_col_g true true ord reach ct fl st (z_of_int i) (nat c) (z_of_int v) in (st', o) in
      let o =
        if t <> "0" then begin
          (* the assigner throws: it is the step after all applicable Add steps *)
          let n = L.length (L.filter (fun u -> has_col u.ucols (nat c)) b.st.uhs) + L.length (L.filter (fun m -> has_col m.mcols (nat c)) b.st.mhs) in
          let cur = (try Hashtbl.find b.content i with Not_found -> [| 0; 0; 0 |]).(c) in
          if cur = v then Thrown   (* equal item: the assigner is called at once and throws; nothing changes *)
          else begin let (st', o) = run (Some (nat n)) b.st in b.st <- st'; o end
        end else with_faults (f <> "0") b run in
      (match o with
       | Accepted -> let a = Array.copy (try Hashtbl.find b.content i with Not_found -> [| 0; 0; 0 |]) in a.(c) <- v; Hashtbl.replace b.content i a
       | _ -> ());
      mut (show_outcome o) end
  | ["FLT"; m; r] ->
    let m = int_of_string m and r = int_of_string r in
    b.st <- filter_raws (fun z -> (zi z) mod m <> r) b.st;
    b.live <- L.filter (fun x -> x mod m <> r) b.live; mut "ok"
  | "FU" :: j :: vals ->
    let j = int_of_string j in
    (match L.nth_opt b.st.uhs j with
     | Some u when L.length u.ucols = L.length vals ->
       Stdlib.String.concat " " ("f" :: L.map (fun z -> string_of_int (zi z)) (find_unique reach ct u (L.map z_of_string vals)))
     | _ -> "noindex")
  | "FM" :: j :: vals ->
    let j = int_of_string j in
    (match L.nth_opt b.st.mhs j with
     | Some m when L.length m.mcols = L.length vals ->
       Stdlib.String.concat " " ("f" :: L.map (fun z -> string_of_int (zi z)) (find_multi reach ct m (L.map z_of_string vals)))
     | _ -> "noindex")
  | ["SEG"; n] ->
    let n = z_of_string n in
    let (si, ii) = Gen_Segments.coq_GetSegItemIndexes n in
    Printf.sprintf "seg %s %s %s" (string_of_z (Gen_Segments.coq_GetItemCount n)) (string_of_z si) (string_of_z ii)
  | ["DUMP"] -> dump b
  | _ -> "?"

let run_case (line : string) : string =
  gen_diff := "";
  match Stdlib.String.split_on_char '|' line with
  | _ :: ops ->
    let b = { st = empty_istate; content = Hashtbl.create 64; live = [] } in
    let outs = L.map (fun o -> run_op b o) ops in
    Stdlib.String.concat "|" (outs @ [dump b])
  | [] -> ""
