(* C18 -- correctness of the CHM addend assignment: Graph::FillAddends (recursive DFS) and the vertex loop of
   pvFillAddends.  If they report success, EVERY edge (v1, v2, value) of the graph satisfies
   addends[v1] + addends[v2] = value (mod 2^64) with both addends non-zero; they never run out of fuel
   (recursion depth <= number of vertices) and never store a zero addend ("2^63 + delta" representation). *)
From Coq Require Import ZArith Bool List Lia.
From MomoCommon Require Import GenPrelude.
From C18 Require Import Model.
Import ListNotations.
Local Open Scope Z_scope.

Definition extends (a a' : addends_t) : Prop := forall w, a w <> 0 -> a' w = a w.
Definition edge_ok (a : addends_t) (v : Z) (e : Z * Z) : Prop :=
  a v <> 0 /\ a (fst e) <> 0 /\ wrapU 64 (a v + a (fst e)) = snd e.
Definition edges_ok (g : graph) (a : addends_t) (v : Z) : Prop := forall e, In e (g v) -> edge_ok a v e.

Lemma extends_refl a : extends a a.
Proof. intros w _; reflexivity. Qed.

Lemma extends_trans a b c : extends a b -> extends b c -> extends a c.
Proof. intros H1 H2 w Hw. rewrite H2; [apply H1; auto|]. rewrite H1; auto. Qed.

Lemma extends_upd a w x : a w = 0 -> extends a (upd a w x).
Proof. intros H0 u Hu. apply upd_other. intros ->. contradiction. Qed.

Lemma extends_nz a a' w : extends a a' -> a w <> 0 -> a' w <> 0.
Proof. intros H Hw. rewrite H; auto. Qed.

Lemma edge_ok_extends a a' v e : extends a a' -> edge_ok a v e -> edge_ok a' v e.
Proof. intros H (H1 & H2 & H3). unfold edge_ok. rewrite !H; auto. Qed.

Lemma edges_ok_extends g a a' v : extends a a' -> edges_ok g a v -> edges_ok g a' v.
Proof. intros H H1 e He. eapply edge_ok_extends; eauto. Qed.

(* number of vertices of dom whose addend is still zero: the termination measure of the recursion *)
Definition cz (dom : list Z) (a : addends_t) : nat := length (filter (fun w => Z.eqb (a w) 0) dom).

Lemma cz_extends dom a a' : extends a a' -> (cz dom a' <= cz dom a)%nat.
Proof.
  intros H. unfold cz. induction dom as [|x dom IH]; simpl; [lia|].
  destruct (Z.eqb_spec (a x) 0) as [E|E]; destruct (Z.eqb_spec (a' x) 0) as [E'|E']; simpl; try lia.
  rewrite (H x E) in E'. contradiction.
Qed.

Lemma cz_le_length dom a : (cz dom a <= length dom)%nat.
Proof. unfold cz. induction dom; simpl; [lia|]. destruct (Z.eqb _ 0); simpl; lia. Qed.

Lemma cz_upd dom a w x : In w dom -> a w = 0 -> x <> 0 -> (cz dom (upd a w x) < cz dom a)%nat.
Proof.
  intros Hin H0 Hx. induction dom as [|y dom IH]; [contradiction|].
  pose proof (cz_extends dom a (upd a w x) (extends_upd a w x H0)) as Hle.
  unfold cz in *. simpl.
  destruct (Z.eq_dec y w) as [->|Hne].
  - rewrite upd_same, H0. simpl. destruct (Z.eqb_spec x 0); [contradiction|]. simpl. lia.
  - rewrite upd_other by auto. destruct Hin as [->|Hin]; [contradiction|].
    specialize (IH Hin). destruct (Z.eqb (a y) 0); simpl; lia.
Qed.

Lemma wrap_sum_back addend val : 0 <= val < 2 ^ 64 -> wrapU 64 (addend + wrapU 64 (val - addend)) = val.
Proof.
  intros H. unfold wrapU. rewrite Zplus_mod_idemp_r.
  replace (addend + (val - addend)) with val by ring. apply Z.mod_small; lia.
Qed.

Lemma wrap_neg y : - 2 ^ 64 < y < 0 -> wrapU 64 y = y + 2 ^ 64.
Proof.
  intros H. unfold wrapU. rewrite <- (Z_mod_plus_full y 1 (2 ^ 64)). apply Z.mod_small; lia.
Qed.

Section Dfs.
  Variable g : graph.
  Variable dom : list Z.
  Variables B F : Z.
  Hypothesis Hg : forall v v2 val, In (v2, val) (g v) -> In v2 dom /\ 0 <= val <= B.
  Hypothesis HB : 0 <= B.
  Hypothesis HFB : (F + 1) * B < 2 ^ 63.

  Definition near (a : addends_t) : Prop := forall w, a w <> 0 -> Z.abs (a w - 2 ^ 63) <= F * B.

  Definition post (a : addends_t) (b : bool) (a' : addends_t) : Prop :=
    extends a a' /\ near a' /\
    (b = true -> forall w, a w = 0 -> a' w <> 0 -> edges_ok g a' w).

  Lemma fill_spec : forall f a v,
    Z.of_nat f <= F -> near a -> a v <> 0 -> Z.abs (a v - 2 ^ 63) <= (F - Z.of_nat f) * B -> (cz dom a < f)%nat ->
    exists b a', fill f g a v = Some (b, a') /\ post a b a' /\ (b = true -> edges_ok g a' v).
  Proof.
    induction f as [|f IHf]; intros a v HfF Hnear Hav Hbound Hcz; [lia|].
    cbn [fill].
    assert (Hloop : forall es a1,
      (forall e, In e es -> In e (g v)) -> near a1 -> a1 v = a v -> (cz dom a1 < S f)%nat ->
      exists b a', fill_loop (fill f g) (a v) es a1 = Some (b, a') /\ post a1 b a' /\
                   (b = true -> forall e, In e es -> edge_ok a' v e)).
    { induction es as [|[v2 val] es IHes]; intros a1 Hsub Hn1 Hv1 Hcz1.
      - exists true, a1. cbn [fill_loop]. split; [reflexivity|]. split.
        + split; [apply extends_refl|]. split; [auto|]. intros _ w H0 H1. contradiction.
        + intros _ e [].
      - cbn [fill_loop].
        destruct (Hg v v2 val (Hsub _ (or_introl eq_refl))) as (Hdom & Hval).
        assert (Hsub' : forall e, In e es -> In e (g v)) by (intros e He; apply Hsub; right; auto).
        assert (Hav1 : a1 v <> 0) by (rewrite Hv1; auto).
        destruct (Z.eqb_spec (a1 v2) 0) as [E0|E0].
        + (* unvisited neighbour: assign and recurse *)
          set (x := wrapU 64 (val - a v)).
          assert (Hx : x = 2 ^ 63 + (val - (a v - 2 ^ 63))).
          { unfold x. rewrite wrap_neg by nia. ring. }
          assert (Hxb : Z.abs (x - 2 ^ 63) <= (F - Z.of_nat f) * B) by (rewrite Hx; nia).
          assert (Hxnz : x <> 0) by (rewrite Hx; nia).
          set (a2 := upd a1 v2 x).
          assert (He12 : extends a1 a2) by (apply extends_upd; auto).
          assert (Hn2 : near a2).
          { intros w Hw. unfold a2, upd in *. destruct (Z.eqb w v2); [nia|auto]. }
          assert (Ha2v2 : a2 v2 = x) by (unfold a2; apply upd_same).
          assert (Hcz2 : (cz dom a2 < f)%nat).
          { pose proof (cz_upd dom a1 v2 x Hdom E0 Hxnz). unfold a2. lia. }
          assert (G1 : Z.of_nat f <= F) by lia.
          assert (G3 : a2 v2 <> 0) by (rewrite Ha2v2; auto).
          assert (G4 : Z.abs (a2 v2 - 2 ^ 63) <= (F - Z.of_nat f) * B) by (rewrite Ha2v2; auto).
          destruct (IHf a2 v2 G1 Hn2 G3 G4 Hcz2) as (b & a3 & Ef & (He23 & Hn3 & Hnew3) & Hok3).
          rewrite Ef. destruct b.
          * (* recursion succeeded: go on with the next edge *)
            assert (He13 : extends a1 a3) by (eapply extends_trans; eauto).
            destruct (IHes a3) as (b' & a' & El & (He3' & Hn' & Hnew') & Hok'); auto.
            { rewrite (He13 v Hav1); auto. }
            { pose proof (cz_extends dom a2 a3 He23). lia. }
            exists b', a'. split; [exact El|]. split.
            -- split; [eapply extends_trans; eauto|]. split; [auto|].
               intros Hb w Hw0 Hw'.
               destruct (Z.eq_dec (a3 w) 0) as [E3|E3].
               ++ apply Hnew'; auto.
               ++ apply edges_ok_extends with (a := a3); auto.
                  destruct (Z.eq_dec (a2 w) 0) as [E2|E2].
                  ** apply Hnew3; auto.
                  ** assert (w = v2).
                     { unfold a2, upd in E2. destruct (Z.eqb_spec w v2); auto. contradiction. }
                     subst w. apply Hok3; auto.
            -- intros Hb e [<-|He]; [|apply Hok'; auto].
               apply edge_ok_extends with (a := a3); auto.
               unfold edge_ok; simpl.
               assert (a3 v = a v) by (rewrite (He13 v Hav1); auto).
               assert (a3 v2 = x) by (rewrite (He23 v2); rewrite Ha2v2; auto).
               rewrite H, H0. repeat split; auto.
               unfold x. apply wrap_sum_back. lia.
          * exists false, a3. split; [reflexivity|]. split; [|discriminate].
            split; [eapply extends_trans; eauto|]. split; [auto|discriminate].
        + destruct (Z.eqb_spec (wrapU 64 (a v + a1 v2)) val) as [Es|Es]; simpl.
          * destruct (IHes a1) as (b' & a' & El & (He' & Hn' & Hnew') & Hok'); auto.
            exists b', a'. split; [exact El|]. split; [split; [auto|split; auto]|].
            intros Hb e [<-|He]; [|apply Hok'; auto].
            apply edge_ok_extends with (a := a1); auto.
            unfold edge_ok; simpl. rewrite Hv1. repeat split; auto.
          * exists false, a1. split; [reflexivity|]. split; [|discriminate].
            split; [apply extends_refl|]. split; [auto|discriminate]. }
    destruct (Hloop (g v) a) as (b & a' & El & Hpost & Hok); auto.
    exists b, a'. split; [exact El|]. split; [exact Hpost|].
    intros Hb e He. apply Hok; auto.
  Qed.

  (* the vertex loop of pvFillAddends, started with any table in which every non-zero vertex is finished *)
  Lemma fill_all_spec (f0 : nat) : Z.of_nat f0 = F -> (length dom < f0)%nat ->
    forall vs a, near a -> (forall w, a w <> 0 -> edges_ok g a w) ->
    exists b a', fill_all f0 g vs a = Some (b, a') /\ extends a a' /\ near a' /\
      (b = true -> (forall w, a' w <> 0 -> edges_ok g a' w) /\ (forall v, In v vs -> edges_ok g a' v)).
  Proof.
    intros HF Hlen. induction vs as [|v vs IH]; intros a Hn HP.
    - exists true, a. cbn [fill_all]. split; [reflexivity|]. split; [apply extends_refl|]. split; [auto|].
      intros _. split; [auto|]. intros v [].
    - cbn [fill_all].
      destruct (negb (has_edge g v) || negb (Z.eqb (a v) 0)) eqn:Eskip.
      + destruct (IH a Hn HP) as (b & a' & E & He & Hn' & Hok).
        exists b, a'. split; [exact E|]. split; [auto|]. split; [auto|].
        intros Hb. destruct (Hok Hb) as (Hok1 & Hok2). split; [auto|].
        intros u [Euv|Hu]; [subst u|auto].
        apply orb_true_iff in Eskip. destruct Eskip as [E1|E1].
        * unfold has_edge in E1. intros e He'. destruct (g v); [contradiction|discriminate].
        * apply edges_ok_extends with (a := a); auto. apply HP.
          destruct (Z.eqb_spec (a v) 0); [discriminate|auto].
      + apply orb_false_iff in Eskip. destruct Eskip as [_ E1].
        assert (Ea : a v = 0) by (destruct (Z.eqb_spec (a v) 0); [auto|discriminate]).
        set (a1 := upd a v (2 ^ 63)).
        assert (He01 : extends a a1) by (apply extends_upd; auto).
        assert (Ha1v : a1 v = 2 ^ 63) by apply upd_same.
        assert (Hn1 : near a1).
        { intros w Hw. unfold a1, upd in *. destruct (Z.eqb w v); [nia|auto]. }
        assert (G1 : Z.of_nat f0 <= F) by lia.
        assert (G3 : a1 v <> 0) by (rewrite Ha1v; lia).
        assert (G4 : Z.abs (a1 v - 2 ^ 63) <= (F - Z.of_nat f0) * B) by (rewrite Ha1v; nia).
        assert (G5 : (cz dom a1 < f0)%nat) by (pose proof (cz_le_length dom a1); lia).
        destruct (fill_spec f0 a1 v G1 Hn1 G3 G4 G5) as (b & a2 & Ef & (He12 & Hn2 & Hnew) & Hokv).
        rewrite Ef. destruct b.
        * assert (HP2 : forall w, a2 w <> 0 -> edges_ok g a2 w).
          { intros w Hw. destruct (Z.eq_dec (a1 w) 0) as [E|E]; [apply Hnew; auto|].
            destruct (Z.eq_dec w v) as [->|Hne]; [apply Hokv; auto|].
            apply edges_ok_extends with (a := a); [eapply extends_trans; eauto|].
            apply HP. unfold a1 in E. rewrite upd_other in E; auto. }
          destruct (IH a2 Hn2 HP2) as (b & a' & E & He & Hn' & Hok).
          exists b, a'. split; [exact E|]. split; [eauto using extends_trans|]. split; [auto|].
          intros Hb. destruct (Hok Hb) as (Hok1 & Hok2). split; [auto|].
          intros u [Euv|Hu]; [subst u|auto].
          apply edges_ok_extends with (a := a2); auto.
        * exists false, a2. split; [reflexivity|]. split; [eauto using extends_trans|]. split; [auto|discriminate].
  Qed.
End Dfs.
