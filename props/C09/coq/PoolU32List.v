(* C09: internal::MemPoolUInt32 - the FREE LIST threaded through the blocks (a uint32 "next free handle" stored in every free block,
   head in mBlockHead), over the GENERATED Allocate / Deallocate / DeallocateAll / pvNewBuffer / pvClear / GetRealPointer
   (Gen_MemPoolUInt32.v, memory primitives PoolU32Prims.v).

   State  = the modelled members (mBuffers, its count, memory cells, mBlockHead, mAllocCount) + the ghost list of allocated handles.
   Steps  = Allocate (with the address the memory manager returns if a buffer is needed), Deallocate of an allocated handle,
            DeallocateAll, and an arbitrary USER WRITE into an allocated block (the user owns that memory, incl. the cell the pool used).
   Inv    = the cells reachable from mBlockHead form a list fl of handles ending in the null handle such that fl ++ allocated has no
            duplicate, every handle in it is < bufferCount * blockCount, and its length IS bufferCount * blockCount (every block of
            every buffer is either free or allocated); mAllocCount = |allocated|; bufferCount <= mMaxBufferCount; buffers disjoint.
   Proved: Inv holds initially, every valid step is executed by the generated code without Stuck / Fuel and preserves Inv
   (=> all histories); corollaries: a handle is never handed out twice, allocated /\ free = {}, blocks of allocated handles are
   pairwise disjoint and inside their buffers, every address the pool reads or writes is a block address (>= 4 bytes apart). *)
From Coq Require Import ZArith List Bool Lia Permutation.
From MomoCommon Require Import GenPrelude.
From C09 Require PoolU32Prims Gen_MemPoolUInt32 PoolU32.
Import ListNotations.
Local Open Scope Z_scope.

Lemma nodup_app_disj (l1 l2 : list Z) x : NoDup (l1 ++ l2) -> In x l1 -> In x l2 -> False.
Proof.
  induction l1 as [|a l1 IH]; intros N H1 H2; [destruct H1|]. cbn [app] in N. inversion N as [|? ? Na N']; subst.
  destruct H1 as [->|H1]; [apply Na, in_or_app; right; exact H2|exact (IH N' H1 H2)].
Qed.
Lemma nodup_app_r (l1 l2 : list Z) : NoDup (l1 ++ l2) -> NoDup l2.
Proof. induction l1 as [|a l1 IH]; intros N; [exact N|]. cbn [app] in N. inversion N; subst. auto. Qed.
Lemma nodup_app_l (l1 l2 : list Z) : NoDup (l1 ++ l2) -> NoDup l1.
Proof.
  induction l1 as [|a l1 IH]; intros N; [constructor|]. cbn [app] in N. inversion N as [|? ? Na N']; subst. constructor; [|auto].
  intros Hin. apply Na, in_or_app. left. exact Hin.
Qed.
Lemma nodup_app_intro (l1 l2 : list Z) : NoDup l1 -> NoDup l2 -> (forall x, In x l1 -> ~ In x l2) -> NoDup (l1 ++ l2).
Proof.
  induction l1 as [|a l1 IH]; intros N1 N2 D; [exact N2|]. cbn [app]. inversion N1 as [|? ? Na N1']; subst. constructor.
  - intros Hin. apply in_app_or in Hin. destruct Hin as [Hin|Hin]; [exact (Na Hin)|exact (D a (or_introl eq_refl) Hin)].
  - apply IH; [exact N1'|exact N2|intros x Hx; apply D; right; exact Hx].
Qed.

Section L.
Variables bc bs M : Z.                     (* blockCount, mBlockSize, mMaxBufferCount *)
Hypothesis Hbc : 1 <= bc.
Hypothesis Hbs : 4 <= bs.
Hypothesis Hsz : bc * bs < 2 ^ 63.
Hypothesis HM : 0 <= M /\ M * bc <= 4294967294.   (* maxTotalBlockCount < 2^32 - 1 (constructor assertion) *)

Definition null : Z := 4294967295.
Definition addr (b : Z -> Z) (h : Z) : Z := b (h / bc) + (h mod bc) * bs.

Record st := mk { B : Z -> Z; n : Z; mem : Z -> Z; head : Z; cnt : Z; alloc : list Z }.

Inductive op := OAlloc (nb : Z) | OFree (h : Z) | OFreeAll | OWrite (h v : Z).

Fixpoint rm (h : Z) (l : list Z) : list Z :=
  match l with [] => [] | x :: l' => if Z.eqb x h then l' else x :: rm h l' end.

(* one step = the GENERATED function; None = the generated code got Stuck / ran out of fuel (proved impossible for valid steps) *)
Definition step (s : st) (o : op) : option st :=
  match o with
  | OAlloc nb =>
      match Gen_MemPoolUInt32.Allocate bc (B s) (n s) (mem s) (head s) M bs (cnt s) nb with
      | Ok (blk, b', n', m', h', c') => Some (mk b' n' m' h' c' (blk :: alloc s))
      | Exn => Some s                           (* std::length_error at the limit: thrown before anything was changed *)
      | _ => None
      end
  | OFree h =>
      match Gen_MemPoolUInt32.Deallocate bc (B s) (n s) (mem s) (head s) M bs (cnt s) h with
      | Ok (_, n', m', h', c') => Some (mk (B s) n' m' h' c' (rm h (alloc s)))
      | _ => None
      end
  | OFreeAll =>
      let '(n', h', c') := Gen_MemPoolUInt32.DeallocateAll bc (B s) (n s) (mem s) (head s) M bs (cnt s) in
      Some (mk (B s) n' (mem s) h' c' [])
  | OWrite h v => Some (mk (B s) (n s) (upd (mem s) (addr (B s) h) v) (head s) (cnt s) (alloc s))
  end.

Definition disjoint_buffers (b : Z -> Z) (k : Z) : Prop :=
  forall i j, 0 <= i < k -> 0 <= j < k -> i <> j -> b i + bc * bs <= b j \/ b j + bc * bs <= b i.

(* what the environment guarantees: the manager returns memory disjoint from the buffers the pool owns; users free / write only
   handles they hold *)
Definition valid (s : st) (o : op) : Prop :=
  match o with
  | OAlloc nb => forall k, 0 <= k < n s -> nb + bc * bs <= B s k \/ B s k + bc * bs <= nb
  | OFree h => In h (alloc s)
  | OFreeAll => True
  | OWrite h _ => In h (alloc s)
  end.

Fixpoint flist (m b : Z -> Z) (hd : Z) (l : list Z) : Prop :=
  match l with
  | [] => hd = null
  | h :: l' => hd = h /\ h <> null /\ flist m b (m (addr b h)) l'
  end.

Definition good (k : Z) (L : list Z) : Prop :=
  NoDup L /\ (forall h, In h L -> 0 <= h < k * bc) /\ Z.of_nat (length L) = k * bc.

Definition Inv (s : st) : Prop :=
  0 <= n s <= M /\ disjoint_buffers (B s) (n s) /\ cnt s = Z.of_nat (length (alloc s)) /\
  exists fl, flist (mem s) (B s) (head s) fl /\ good (n s) (fl ++ alloc s).

Lemma good_perm k L L' : Permutation L L' -> good k L -> good k L'.
Proof.
  intros P (N & R & Len). split; [eapply Permutation_NoDup; eauto|]. split.
  - intros h Hh. apply R. eapply Permutation_in; [apply Permutation_sym; exact P|exact Hh].
  - rewrite <- Len. f_equal. symmetry. apply Permutation_length. exact P.
Qed.

Lemma rm_perm h l : In h l -> Permutation l (h :: rm h l).
Proof.
  induction l as [|x l IH]; intros Hin; [destruct Hin|]. cbn [rm]. destruct (Z.eqb_spec x h) as [->|Ne]; [apply Permutation_refl|].
  destruct Hin as [E|Hin]; [congruence|]. eapply perm_trans; [apply perm_skip, IH, Hin|apply perm_swap].
Qed.

Lemma addr_inj b k h h' : disjoint_buffers b k -> 0 <= h < k * bc -> 0 <= h' < k * bc -> h <> h' ->
  addr b h + bs <= addr b h' \/ addr b h' + bs <= addr b h.
Proof.
  intros D Hh Hh' Ne. unfold addr.
  pose proof (Z.mod_pos_bound h bc ltac:(lia)) as Mh. pose proof (Z.mod_pos_bound h' bc ltac:(lia)) as Mh'.
  pose proof (Z.div_mod h bc ltac:(lia)) as Dh. pose proof (Z.div_mod h' bc ltac:(lia)) as Dh'.
  assert (0 <= h / bc < k) as K by (split; [apply Z.div_pos; lia|apply Z.div_lt_upper_bound; lia]).
  assert (0 <= h' / bc < k) as K' by (split; [apply Z.div_pos; lia|apply Z.div_lt_upper_bound; lia]).
  destruct (Z.eq_dec (h / bc) (h' / bc)) as [E|N].
  - rewrite E. assert (h mod bc <> h' mod bc) as Nm by (intro Em; apply Ne; rewrite Dh, Dh', E, Em; reflexivity).
    destruct (Z_lt_le_dec (h mod bc) (h' mod bc)); [left|right]; nia.
  - destruct (D (h / bc) (h' / bc) K K' N); [left|right]; nia.
Qed.

Lemma flist_frame m b hd l a v : (forall h, In h l -> addr b h <> a) -> flist m b hd l -> flist (upd m a v) b hd l.
Proof.
  revert hd. induction l as [|h l IH]; intros hd Ha F; [exact F|]. destruct F as (E & Nn & F). split; [exact E|]. split; [exact Nn|].
  assert (upd m a v (addr b h) = m (addr b h)) as ->
    by (unfold upd; destruct (Z.eqb_spec (addr b h) a) as [Ea|_]; [exfalso; apply (Ha h); [left; reflexivity|exact Ea]|reflexivity]).
  apply IH; [intros h' Hh'; apply Ha; right; exact Hh'|exact F].
Qed.

Lemma flist_in_not_null m b hd l h : flist m b hd l -> In h l -> h <> null.
Proof. revert hd. induction l as [|x l IH]; intros hd F Hin; [destruct Hin|]. destruct F as (_ & Nn & F). destruct Hin as [<-|Hin]; [exact Nn|eapply IH; eauto]. Qed.

(* ---------- the handles of a new buffer ---------- *)
Fixpoint hs (c : nat) (from : Z) : list Z := match c with O => [] | S c' => from :: hs c' (from + 1) end.

Lemma hs_in c : forall from x, In x (hs c from) <-> from <= x < from + Z.of_nat c.
Proof.
  induction c as [|c IH]; intros from x; cbn [hs In]; [lia|]. rewrite IH. lia.
Qed.
Lemma hs_nodup c : forall from, NoDup (hs c from).
Proof. induction c as [|c IH]; intros from; cbn [hs]; constructor; [rewrite hs_in; lia|apply IH]. Qed.
Lemma hs_len c from : length (hs c from) = c.
Proof. revert from. induction c as [|c IH]; intros from; cbn [hs length]; [reflexivity|rewrite IH; reflexivity]. Qed.

Lemma new_chain m b k nb : 0 <= k -> k * bc + bc <= 4294967294 -> b k = nb ->
  (forall j, 0 <= j < bc -> m (nb + bs * j) = PoolU32.nextval bc k j) ->
  forall c i, 0 <= i -> i + Z.of_nat c = bc ->
  flist m b (if i <? bc then k * bc + i else null) (hs c (k * bc + i)).
Proof.
  intros Hk Hlim Hb Hm. induction c as [|c IH]; intros i Hi Hc.
  - cbn [hs flist]. destruct (Z.ltb_spec i bc); [lia|reflexivity].
  - cbn [hs flist]. destruct (Z.ltb_spec i bc) as [L|]; [|lia]. split; [reflexivity|]. split; [unfold null; nia|].
    assert ((k * bc + i) / bc = k) as Ed by (rewrite Z.add_comm, Z.div_add by lia; rewrite Z.div_small by lia; lia).
    assert ((k * bc + i) mod bc = i) as Em by (rewrite Z.add_comm, Z.mod_add by lia; apply Z.mod_small; lia).
    unfold addr. rewrite Ed, Em, Hb. replace (nb + i * bs) with (nb + bs * i) by lia. rewrite Hm by lia.
    unfold PoolU32.nextval. replace (k * bc + i + 1) with (k * bc + (i + 1)) by lia. apply IH; lia.
Qed.

(* ---------- specifications of the generated functions ---------- *)
Lemma cnt_small c : 0 <= c <= 4294967295 -> wrapU 64 c = c.
Proof. intros. apply wrapU_small. rewrite PoolU32.two64. lia. Qed.

Lemma alloc_hit b k m hd c nb : hd <> null -> 0 <= hd < null -> 0 <= c < 4294967295 ->
  Gen_MemPoolUInt32.Allocate bc b k m hd M bs c nb = Ok (hd, b, k, m, m (addr b hd), c + 1).
Proof.
  intros Hn Hr Hc. unfold Gen_MemPoolUInt32.Allocate, Gen_MemPoolUInt32.nullPtr. unfold null in Hn.
  destruct (Z.eqb_spec hd 4294967295); [contradiction|]. cbv zeta.
  rewrite (PoolU32.realpointer_spec bc bs Hbc Hbs Hsz) by (unfold null in Hr; lia).
  unfold PoolU32Prims.load32. rewrite cnt_small by lia. reflexivity.
Qed.

Lemma alloc_new b k m c nb : 0 <= k < M -> 0 <= c < 4294967295 ->
  exists m', Gen_MemPoolUInt32.Allocate bc b k m null M bs c nb = Ok (k * bc, upd b k nb, k + 1, m', PoolU32.nextval bc k 0, c + 1) /\
    (forall j, 0 <= j < bc -> m' (nb + bs * j) = PoolU32.nextval bc k j) /\
    (forall a, (forall j, 0 <= j < bc -> a <> nb + bs * j) -> m' a = m a).
Proof.
  intros Hk Hc. unfold Gen_MemPoolUInt32.Allocate, Gen_MemPoolUInt32.nullPtr, null. rewrite Z.eqb_refl. fold null.
  destruct (PoolU32.newbuffer_spec bc bs Hbc Hbs Hsz b k m null M c nb ltac:(lia) ltac:(lia)) as (Hlt & _).
  destruct (Hlt ltac:(lia)) as ((m' & E & Hin & Hout) & Hr). rewrite E. exists m'. cbv zeta.
  assert (0 <= k * bc /\ k * bc + bc <= 4294967294) as (B1 & B2) by nia.
  rewrite (PoolU32.realpointer_spec bc bs Hbc Hbs Hsz) by lia.
  rewrite Z.div_mul, Z.mod_mul by lia. assert (upd b k nb k = nb) as -> by (unfold upd; rewrite Z.eqb_refl; reflexivity). unfold PoolU32Prims.load32.
  replace (nb + 0 * bs) with (nb + bs * 0) by lia. rewrite Hin by lia. rewrite cnt_small by lia.
  split; [reflexivity|]. split; assumption.
Qed.

Lemma alloc_exn b k m c nb : M <= k -> 0 <= k -> Gen_MemPoolUInt32.Allocate bc b k m null M bs c nb = Exn.
Proof.
  intros Hk H0. unfold Gen_MemPoolUInt32.Allocate, Gen_MemPoolUInt32.nullPtr, null. rewrite Z.eqb_refl. fold null.
  destruct (PoolU32.newbuffer_spec bc bs Hbc Hbs Hsz b k m null M c nb ltac:(lia) ltac:(lia)) as (_ & Hge).
  rewrite (Hge Hk). reflexivity.
Qed.

Lemma dealloc_spec b k m hd c h : 0 <= h < null -> 0 < c <= 4294967295 ->
  Gen_MemPoolUInt32.Deallocate bc b k m hd M bs c h =
    Ok (tt, (if (c - 1 =? 0) && (k >? 2) then 0 else k), upd m (addr b h) hd, (if (c - 1 =? 0) && (k >? 2) then null else h), c - 1).
Proof.
  intros Hh Hc. unfold Gen_MemPoolUInt32.Deallocate, Gen_MemPoolUInt32.nullPtr. unfold null in Hh.
  destruct (Z.eqb_spec h 4294967295); [lia|]. cbn [negb]. rewrite Z.gtb_ltb. destruct (Z.ltb_spec 0 c); [|lia].
  rewrite (PoolU32.realpointer_spec bc bs Hbc Hbs Hsz) by lia.
  cbv zeta. rewrite cnt_small by lia. unfold PoolU32Prims.store32, Gen_MemPoolUInt32.pvClear, Gen_MemPoolUInt32.nullPtr, null.
  destruct ((c - 1 =? 0) && (k >? 2)); reflexivity.
Qed.

(* ---------- initial state and preservation ---------- *)
Definition init (b m : Z -> Z) : st := mk b 0 m null 0 [].

Lemma Inv_init b m : Inv (init b m).
Proof.
  unfold Inv, init; cbn. split; [lia|]. split; [intros i j; lia|]. split; [reflexivity|].
  exists []. split; [reflexivity|]. split; [constructor|]. split; [intros h []|reflexivity].
Qed.

Lemma good_bounds k L : good k L -> 0 <= k <= M -> Z.of_nat (length L) <= 4294967294.
Proof. intros (_ & _ & Len) Hk. rewrite Len. nia. Qed.

Theorem step_Inv s o : Inv s -> valid s o -> exists s', step s o = Some s' /\ Inv s'.
Proof.
  intros (Hn & Dis & Hcnt & fl & F & G) V. pose proof G as (ND & Rng & Len).
  pose proof (good_bounds _ _ G Hn) as Hlen. rewrite app_length, Nat2Z.inj_add in Hlen, Len.
  destruct o as [nb|h| |h v]; cbn [step valid] in *.
  - (* Allocate *)
    destruct fl as [|f fl].
    + cbn [flist] in F. rewrite F. cbn [app length] in *.
      destruct (Z_lt_le_dec (n s) M) as [Hlt|Hge].
      * destruct (alloc_new (B s) (n s) (mem s) (cnt s) nb ltac:(lia) ltac:(lia)) as (m' & E & Hin & Hout). rewrite E.
        eexists; split; [reflexivity|]. unfold Inv; cbn.
        assert (0 <= n s * bc /\ n s * bc + bc <= 4294967294) as (B1 & B2) by nia.
        split; [lia|]. split.
        { intros i j Hi Hj Nij. unfold upd. destruct (Z.eqb_spec i (n s)) as [->|Ni]; destruct (Z.eqb_spec j (n s)) as [->|Nj]; try lia.
          - destruct (V j ltac:(lia)); [left|right]; lia.
          - destruct (V i ltac:(lia)); [right|left]; lia.
          - apply Dis; lia. }
        split; [rewrite Hcnt; cbn [length]; lia|].
        exists (hs (Z.to_nat (bc - 1)) (n s * bc + 1)). split.
        { pose proof (new_chain m' (upd (B s) (n s) nb) (n s) nb ltac:(lia) B2 ltac:(unfold upd; rewrite Z.eqb_refl; reflexivity) Hin
                       (Z.to_nat (bc - 1)) 1 ltac:(lia) ltac:(lia)) as C.
          unfold PoolU32.nextval. replace (n s * bc + 0 + 1) with (n s * bc + 1) by lia. exact C. }
        split; [|split].
        { apply nodup_app_intro; [apply hs_nodup| |].
          - constructor; [intros Hx; specialize (Rng _ Hx); lia|exact ND].
          - intros x Hx [<-|Hx']; apply hs_in in Hx; [lia|specialize (Rng _ Hx'); lia]. }
        { intros x Hx. apply in_app_or in Hx. destruct Hx as [Hx|[<-|Hx]]; [apply hs_in in Hx; nia|nia|specialize (Rng x Hx); nia]. }
        { rewrite app_length, hs_len. cbn [length]. rewrite Nat2Z.inj_add, Nat2Z.inj_succ. lia. }
      * rewrite alloc_exn by lia. exists s. split; [reflexivity|]. unfold Inv. split; [exact Hn|]. split; [exact Dis|]. split; [exact Hcnt|].
        exists []. rewrite F. split; [reflexivity|exact G].
    + destruct F as (E & Nn & F). assert (0 <= f < n s * bc) as Hf by (apply Rng; left; reflexivity).
      rewrite E, alloc_hit by (unfold null in *; cbn [app length] in *; try rewrite Hcnt; nia).
      eexists; split; [reflexivity|]. unfold Inv; cbn. split; [exact Hn|]. split; [exact Dis|]. split; [rewrite Hcnt; cbn [length]; lia|].
      exists fl. split; [exact F|]. eapply good_perm; [|exact G]. apply (Permutation_middle fl (alloc s) f).
  - (* Deallocate *)
    assert (0 <= h < n s * bc) as Hh by (apply Rng, in_or_app; right; exact V).
    assert (0 < cnt s) as Hc by (rewrite Hcnt; destruct (alloc s); [destruct V|cbn [length]; lia]).
    rewrite dealloc_spec by (unfold null; nia).
    eexists; split; [reflexivity|]. pose proof (rm_perm h (alloc s) V) as P.
    assert (length (alloc s) = S (length (rm h (alloc s)))) as Hl by (rewrite (Permutation_length P); reflexivity).
    destruct ((cnt s - 1 =? 0) && (n s >? 2)) eqn:Ec.
    + apply andb_prop in Ec. destruct Ec as (Ec & _). apply Z.eqb_eq in Ec.
      assert (rm h (alloc s) = []) as Er by (destruct (rm h (alloc s)); [reflexivity|cbn [length] in Hl; lia]).
      unfold Inv; cbn. rewrite Er. split; [lia|]. split; [intros i j; lia|]. split; [cbn; lia|].
      exists []. split; [reflexivity|]. split; [constructor|]. split; [intros x []|reflexivity].
    + unfold Inv; cbn. split; [exact Hn|]. split; [exact Dis|]. split; [rewrite Hcnt, Hl, Nat2Z.inj_succ; lia|].
      exists (h :: fl). split.
      * cbn [flist]. split; [reflexivity|]. split; [unfold null; nia|].
        assert (upd (mem s) (addr (B s) h) (head s) (addr (B s) h) = head s) as -> by (unfold upd; rewrite Z.eqb_refl; reflexivity).
        apply flist_frame; [|exact F]. intros x Hx Ea.
        assert (x <> h) as Nx by (intros ->; exact (nodup_app_disj _ _ _ ND Hx V)).
        destruct (addr_inj (B s) (n s) x h Dis ltac:(apply Rng, in_or_app; left; exact Hx) Hh Nx); lia.
      * eapply good_perm; [|exact G]. cbn [app]. eapply perm_trans; [apply Permutation_app_head, P|]. apply Permutation_sym, Permutation_middle.
  - (* DeallocateAll *)
    unfold Gen_MemPoolUInt32.DeallocateAll, Gen_MemPoolUInt32.pvClear, Gen_MemPoolUInt32.nullPtr. cbv zeta. fold null.
    eexists; split; [reflexivity|]. unfold Inv; cbn. split; [lia|]. split; [intros i j; lia|]. split; [reflexivity|].
    exists []. split; [reflexivity|]. split; [constructor|]. split; [intros x []|reflexivity].
  - (* user write into an allocated block *)
    eexists; split; [reflexivity|]. unfold Inv; cbn. split; [exact Hn|]. split; [exact Dis|]. split; [exact Hcnt|].
    exists fl. split; [|exact G]. apply flist_frame; [|exact F]. intros x Hx Ea.
    assert (0 <= h < n s * bc) as Hh by (apply Rng, in_or_app; right; exact V).
    assert (x <> h) as Nx by (intros ->; exact (nodup_app_disj _ _ _ ND Hx V)).
    destruct (addr_inj (B s) (n s) x h Dis ltac:(apply Rng, in_or_app; left; exact Hx) Hh Nx); lia.
Qed.

(* ---------- all histories ---------- *)
Inductive runs : st -> list op -> st -> Prop :=
| runs_nil s : runs s [] s
| runs_cons s o s1 os s2 : valid s o -> step s o = Some s1 -> runs s1 os s2 -> runs s (o :: os) s2.

Theorem Inv_all_histories b m os s : runs (init b m) os s -> Inv s.
Proof.
  assert (forall s0 os s1, runs s0 os s1 -> Inv s0 -> Inv s1) as H.
  { intros s0 os' s1 R. induction R as [|s0 o s1 os' s2 V E R IH]; intros I; [exact I|].
    apply IH. destruct (step_Inv s0 o I V) as (s' & E' & I'). rewrite E in E'. injection E' as <-. exact I'. }
  intros R. exact (H _ _ _ R (Inv_init b m)).
Qed.

(* the generated code never gets Stuck (MOMO_ASSERT) and never runs out of fuel on a valid step from a reachable state *)
Theorem never_stuck b m os s o : runs (init b m) os s -> valid s o -> step s o <> None.
Proof. intros R V. destruct (step_Inv s o (Inv_all_histories _ _ _ _ R) V) as (s' & E & _). rewrite E. discriminate. Qed.

(* allocated /\ free = {}, no handle twice in the free list, every free handle below bufferCount * blockCount *)
Theorem free_list_sound s : Inv s ->
  exists fl, flist (mem s) (B s) (head s) fl /\ NoDup fl /\ NoDup (alloc s) /\
    (forall h, In h fl -> ~ In h (alloc s) /\ 0 <= h < n s * bc /\ h <> null) /\
    (forall h, In h (alloc s) -> 0 <= h < n s * bc) /\
    Z.of_nat (length fl) + Z.of_nat (length (alloc s)) = n s * bc /\ cnt s = Z.of_nat (length (alloc s)).
Proof.
  intros (Hn & Dis & Hcnt & fl & F & (ND & Rng & Len)). exists fl. split; [exact F|].
  split; [exact (nodup_app_l _ _ ND)|]. split; [exact (nodup_app_r _ _ ND)|]. split.
  - intros h Hh. split; [intros Ha; exact (nodup_app_disj _ _ _ ND Hh Ha)|]. split; [apply Rng, in_or_app; left; exact Hh|].
    exact (flist_in_not_null _ _ _ _ _ F Hh).
  - split; [intros h Hh; apply Rng, in_or_app; right; exact Hh|]. split; [rewrite <- Len, app_length, Nat2Z.inj_add; reflexivity|exact Hcnt].
Qed.

(* Allocate either is refused with the state unchanged (the limit is reached and no block is free) or hands out a handle that
   is not allocated, is not the null handle and is below bufferCount * blockCount *)
Theorem alloc_fresh s nb s' : Inv s -> valid s (OAlloc nb) -> step s (OAlloc nb) = Some s' ->
  (s' = s /\ head s = null /\ n s = M) \/
  (exists blk, alloc s' = blk :: alloc s /\ ~ In blk (alloc s) /\ 0 <= blk < n s' * bc /\ blk <> null).
Proof.
  intros I V E. destruct (step_Inv s (OAlloc nb) I V) as (s'' & E' & I'). rewrite E in E'. injection E' as <-.
  cbn [step] in E. destruct (Gen_MemPoolUInt32.Allocate bc (B s) (n s) (mem s) (head s) M bs (cnt s) nb) as [[[[[[blk b'] n'] m'] h'] c']| | |] eqn:Ea; try discriminate.
  - injection E as <-. right. exists blk. split; [reflexivity|].
    destruct I' as (Hn' & _ & _ & fl & _ & (ND & Rng & _)). cbn in ND, Rng, Hn'. split.
    + apply nodup_app_r in ND. inversion ND; assumption.
    + assert (0 <= blk < n' * bc) as Hb by (apply Rng, in_or_app; right; left; reflexivity). split; [exact Hb|]. unfold null. nia.
  - injection E as <-. left. split; [reflexivity|].
    destruct I as (Hn & _ & Hcnt & fl & F & G). pose proof (good_bounds _ _ G Hn) as Hlen. rewrite app_length, Nat2Z.inj_add in Hlen.
    destruct fl as [|f fl].
    + cbn [flist] in F. split; [exact F|]. rewrite F in Ea. destruct (Z_lt_le_dec (n s) M) as [Hlt|Hge]; [|lia].
      destruct (alloc_new (B s) (n s) (mem s) (cnt s) nb ltac:(lia) ltac:(lia)) as (m' & E2 & _). rewrite E2 in Ea. discriminate.
    + destruct F as (Ef & Nn & _). destruct G as (_ & Rng & _). assert (0 <= f < n s * bc) as Hf by (apply Rng; left; reflexivity).
      rewrite Ef, alloc_hit in Ea by (unfold null in *; cbn [app length] in *; try rewrite Hcnt; nia). discriminate.
Qed.

(* the blocks of two different allocated handles are disjoint, each lies inside the buffer numbered h / blockCount, and the
   GENERATED GetRealPointer returns exactly that address *)
Theorem allocated_blocks_disjoint s h h' : Inv s -> In h (alloc s) -> In h' (alloc s) -> h <> h' ->
  Gen_MemPoolUInt32.GetRealPointer bc (B s) (n s) (mem s) (head s) M bs (cnt s) h = Ok (addr (B s) h) /\
  0 <= h / bc < n s /\ B s (h / bc) <= addr (B s) h /\ addr (B s) h + bs <= B s (h / bc) + bc * bs /\
  (addr (B s) h + bs <= addr (B s) h' \/ addr (B s) h' + bs <= addr (B s) h).
Proof.
  intros I Hh Hh' Ne. destruct (free_list_sound s I) as (_ & _ & _ & _ & _ & Rng & _).
  destruct I as (Hn & Dis & _). pose proof (Rng h Hh) as R. pose proof (Rng h' Hh') as R'.
  split; [apply (PoolU32.realpointer_spec bc bs Hbc Hbs Hsz); nia|].
  pose proof (Z.mod_pos_bound h bc ltac:(lia)) as Mh.
  split; [split; [apply Z.div_pos; lia|apply Z.div_lt_upper_bound; lia]|]. unfold addr at 1 2. split; [nia|]. split; [nia|].
  exact (addr_inj (B s) (n s) h h' Dis R R' Ne).
Qed.
End L.
