// instantiation TU for cxx2coq (C11): the growth decision of HashSet (pvGetNewLogBucketCount, Reserve, pvAddGrow)
#include "momo/HashSet.h"
namespace momo { template class HashSet<uint64_t>; }
// member templates (pvAddGrow<ItemCreator>) are instantiated by use
struct C11Filter { bool operator()(const uint64_t& x) const { return x == 0; } };
void c11_use(momo::HashSet<uint64_t>& s) { s.Insert(uint64_t(1)); s.Remove(C11Filter()); }
