(* C02 (growth round 6) -- towards the general iterator theorem: a "zipper" (bottom-up, path based) characterisation of operator++ that
   mirrors the real code - step inside the leaf or descend to the leftmost leaf of child index+1, then pvMoveIf / pvMove: climb while
   the node is the last child of its parent - proved equal to the hand model's top-down next_in / climb on well-formed trees. *)
From Coq Require Import List ZArith Bool Lia Arith.
From C02 Require Import BTreeModel BTreeBase.
Import ListNotations.

Section Zipper.
Variable maxCap : nat.

(* ---- bottom-up climbing (the loop of pvMove), on paths from the root r ---- *)
Section Up.
Variable r : node.
Definition cnt_at (q : list nat) : nat := match node_at q r with Some m => n_count m | None => 0 end.
(* rq = the path reversed: the last child index first *)
Fixpoint up_rev (rq : list nat) : iter :=
  match rq with
  | [] => ([], n_count r)
  | c :: rq' => if c <? cnt_at (rev rq') then (rev rq', c) else up_rev rq'
  end.
Definition up (q : list nat) : iter := up_rev (rev q).
Lemma up_nil : up [] = ([], n_count r).
Proof. reflexivity. Qed.
Lemma up_snoc q c : up (q ++ [c]) = if c <? cnt_at q then (q, c) else up q.
Proof. unfold up. rewrite rev_app_distr. cbn [rev app up_rev]. rewrite rev_involutive. reflexivity. Qed.
End Up.

Lemma node_at_app p q n m : node_at p n = Some m -> node_at (p ++ q) n = node_at q m.
Proof.
  revert n. induction p as [|c p IH]; intros n H; cbn [node_at app] in *; [congruence|].
  destruct (nth_error (n_children n) c); [apply IH; exact H | discriminate].
Qed.

(* bottom-up = the hand model's top-down climb (for a path that exists in the tree) *)
Lemma up_is_climb r : forall p n pre m, node_at pre r = Some n -> node_at p n = Some m ->
  up r (pre ++ p) = match climb p n with Some (q, i) => (pre ++ q, i) | None => up r pre end.
Proof.
  induction p as [|c p IH]; intros n pre m Hn Hp; cbn [climb].
  - rewrite app_nil_r. reflexivity.
  - cbn [node_at] in Hp. destruct (nth_error (n_children n) c) as [ch|] eqn:E; [|discriminate].
    assert (Hc : node_at (pre ++ [c]) r = Some ch) by (rewrite (node_at_app pre [c] r n Hn); cbn [node_at]; rewrite E; reflexivity).
    assert (Ea : pre ++ c :: p = (pre ++ [c]) ++ p) by (apply (app_assoc pre [c] p)).
    rewrite Ea, (IH ch (pre ++ [c]) m Hc Hp). destruct (climb p ch) as [[q i]|]; cbn [lift orelse].
    + rewrite <- app_assoc. reflexivity.
    + rewrite up_snoc. unfold cnt_at, here. rewrite Hn. destruct (c <? n_count n); rewrite ?app_nil_r; reflexivity.
Qed.

(* ---- the forward step of operator++ before pvMoveIf, relative to a subtree n: stay in the leaf or go to the leftmost leaf of child j+1 ---- *)
Definition step_fwd (d : nat) (n : node) (p : list nat) (j : nat) : iter :=
  match node_at p n with
  | Some m => if is_leaf m then (p, S j)
              else match nth_error (n_children m) (S j) with
                   | Some ch => (p ++ S j :: leftmost (d - length p - 1) ch, 0)
                   | None => (p, S j)
                   end
  | None => (p, S j)
  end.
(* pvMoveIf relative to the subtree n: None = the position falls off this subtree (pvMove keeps climbing above it) *)
Definition zip_next (d : nat) (n : node) (p : list nat) (j : nat) : option iter :=
  let '(q, i) := step_fwd d n p j in
  match node_at q n with
  | Some m => if i <? n_count m then Some (q, i) else climb q n
  | None => None
  end.

Lemma leftmost_leaf : forall d n, shape maxCap d n -> exists m, node_at (leftmost d n) n = Some m /\ shape maxCap 0 m.
Proof.
  induction d as [|d IH]; intros n Sh; cbn [leftmost].
  - exists n. split; [reflexivity | exact Sh].
  - destruct Sh as (_ & _ & L & F & _). destruct (n_children n) as [|ch cs] eqn:E; [simpl in L; lia|].
    inversion F as [|? ? Sc _]; subst. destruct (IH ch Sc) as (m & Hm & Sm). exists m. split; [|exact Sm].
    cbn [node_at]. rewrite E. cbn [nth_error]. exact Hm.
Qed.

Lemma first_in_zip : forall d n, shape maxCap d n ->
  first_in d n = match node_at (leftmost d n) n with
                 | Some m => if 0 <? n_count m then Some (leftmost d n, 0) else climb (leftmost d n) n
                 | None => None end.
Proof.
  induction d as [|d IH]; intros n Sh; cbn [first_in leftmost].
  - cbn [node_at climb]. unfold here. destruct (0 <? n_count n); reflexivity.
  - destruct Sh as (_ & _ & L & F & _). destruct (n_children n) as [|ch cs] eqn:E; [simpl in L; lia|].
    cbn [node_at nth_error climb]. rewrite E. cbn [nth_error].
    inversion F as [|? ? Sc _]; subst. rewrite (IH ch Sc).
    destruct (leftmost_leaf d ch Sc) as (m & Hm & _). rewrite Hm.
    destruct (0 <? n_count m); cbn [lift orelse]; reflexivity.
Qed.
Lemma shape_at : forall p d n m, shape maxCap d n -> node_at p n = Some m -> shape maxCap (d - length p) m /\ length p <= d.
Proof.
  induction p as [|c p IH]; intros d n m Sh H; cbn [node_at length] in *.
  - injection H as <-. rewrite Nat.sub_0_r. split; [exact Sh | lia].
  - destruct (nth_error (n_children n) c) as [ch|] eqn:E; [|discriminate].
    assert (Lf : is_leaf n = false) by (unfold is_leaf; destruct (n_children n); [destruct c; discriminate | reflexivity]).
    destruct (shape_internal maxCap d n Sh Lf) as [d' ->]. destruct Sh as (_ & _ & L & F & _).
    assert (Sc : shape maxCap d' ch) by (rewrite Forall_forall in F; apply F; eapply nth_error_In; exact E).
    destruct (IH d' ch m Sc H) as [A B]. split; [exact A | lia].
Qed.

(* the hand model's top-down next_in IS the zipper step (relative to any well-formed subtree) *)
Lemma next_in_zip : forall p d n j m, shape maxCap d n -> node_at p n = Some m -> j < n_count m ->
  next_in d p n j = zip_next d n p j.
Proof.
  induction p as [|c p IH]; intros d n j m Sh Hm Hj; cbn [next_in].
  - cbn [node_at] in Hm. injection Hm as <-. unfold zip_next, step_fwd. cbn [node_at length].
    destruct (is_leaf n) eqn:Lf.
    + cbn [node_at climb]. unfold here. destruct (S j <? n_count n); reflexivity.
    + destruct (shape_internal maxCap d n Sh Lf) as [d' ->]. destruct Sh as (_ & _ & L & F & _).
      destruct (nth_error (n_children n) (S j)) as [ch|] eqn:E; [|apply nth_error_None in E; lia].
      assert (Sc : shape maxCap d' ch) by (rewrite Forall_forall in F; apply F; eapply nth_error_In; exact E).
      replace (S d' - 0 - 1) with d' by lia. cbn [pred app node_at climb]. rewrite E.
      rewrite (first_in_zip d' ch Sc). destruct (leftmost_leaf d' ch Sc) as (lm & Hl & _). rewrite Hl.
      destruct (0 <? n_count lm); cbn [lift orelse]; reflexivity.
  - cbn [node_at] in Hm. destruct (nth_error (n_children n) c) as [ch|] eqn:E; [|discriminate].
    assert (Lf : is_leaf n = false) by (unfold is_leaf; destruct (n_children n); [destruct c; discriminate | reflexivity]).
    destruct (shape_internal maxCap d n Sh Lf) as [d' ->]. destruct Sh as (_ & _ & L & F & _).
    assert (Sc : shape maxCap d' ch) by (rewrite Forall_forall in F; apply F; eapply nth_error_In; exact E).
    cbn [pred]. rewrite (IH d' ch j m Sc Hm Hj).
    unfold zip_next, step_fwd. cbn [node_at length]. rewrite E, Hm.
    replace (S d' - S (length p) - 1) with (d' - length p - 1) by lia.
    destruct (is_leaf m).
    + cbn [node_at climb]. rewrite E, Hm. destruct (S j <? n_count m); cbn [lift orelse]; reflexivity.
    + destruct (nth_error (n_children m) (S j)) as [chh|] eqn:E2.
      * destruct (shape_at p d' ch m Sc Hm) as [Sm Lp].
        assert (Lm : is_leaf m = false) by (unfold is_leaf; destruct (n_children m); [discriminate | reflexivity]).
        destruct (shape_internal maxCap _ m Sm Lm) as [x Ex]. rewrite Ex in Sm. destruct Sm as (_ & _ & _ & Fm & _).
        assert (Sh2 : shape maxCap x chh) by (rewrite Forall_forall in Fm; apply Fm; eapply nth_error_In; exact E2).
        replace (d' - length p - 1) with x by lia.
        destruct (leftmost_leaf x chh Sh2) as (lm & Hl & _).
        assert (Hq : node_at (p ++ S j :: leftmost x chh) ch = Some lm).
        { rewrite (node_at_app p _ ch m Hm). cbn [node_at]. rewrite E2. exact Hl. }
        cbn [app node_at climb]. rewrite E, Hq.
        destruct (0 <? n_count lm); cbn [lift orelse]; reflexivity.
      * cbn [node_at climb]. rewrite E, Hm. destruct (S j <? n_count m); cbn [lift orelse]; reflexivity.
Qed.
(* the whole tree: the hand model's `next` is the bottom-up zipper step - exactly the structure of the real operator++:
   step inside the leaf / descend to the leftmost leaf of child index+1, then (pvMoveIf) if the index is the node's count climb
   (pvMove) while the node is the last child of its parent, ending at (root, count) = end *)
Theorem next_is_zipper d r p j m :
  shape maxCap d r -> node_at p r = Some m -> j < n_count m ->
  next {| root := Some r; cnt := 0 |} (p, j) =
  let '(q, i) := step_fwd d r p j in if i <? cnt_at r q then (q, i) else up r q.
Proof.
  intros Sh Hm Hj. unfold next. cbn [root fst snd]. rewrite (shape_height maxCap d r Sh).
  rewrite (next_in_zip p d r j m Sh Hm Hj). unfold zip_next.
  destruct (step_fwd d r p j) as [q i] eqn:Es.
  assert (Hq : exists mq, node_at q r = Some mq).
  { unfold step_fwd in Es. rewrite Hm in Es. destruct (is_leaf m) eqn:Lf; [injection Es as <- <-; eauto|].
    destruct (nth_error (n_children m) (S j)) as [ch|] eqn:E; [|injection Es as <- <-; eauto].
    injection Es as <- <-. destruct (shape_at p d r m Sh Hm) as [Sm Lp].
    destruct (shape_internal maxCap _ m Sm Lf) as [x Ex]. rewrite Ex in Sm. destruct Sm as (_ & _ & _ & Fm & _).
    assert (Sh2 : shape maxCap x ch) by (rewrite Forall_forall in Fm; apply Fm; eapply nth_error_In; exact E).
    replace (d - length p - 1) with x by lia. destruct (leftmost_leaf x ch Sh2) as (lm & Hl & _).
    exists lm. rewrite (node_at_app p _ r m Hm). cbn [node_at]. rewrite E. exact Hl. }
  destruct Hq as [mq Hq]. unfold cnt_at. rewrite Hq. destruct (i <? n_count mq); [reflexivity|].
  pose proof (up_is_climb r q r [] mq eq_refl Hq) as U. cbn [app] in U. rewrite U.
  destruct (climb q r) as [[q' i']|]; reflexivity.
Qed.
End Zipper.
