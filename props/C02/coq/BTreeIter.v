(* C02 -- iterators: GetBegin, operator++ / operator-- (with pvMove climbing), positions <-> in-order indexes *)
From Coq Require Import List ZArith Arith Lia Bool.
From C02 Require Import BTreeModel BTreeBase BTreeSearch.
Import ListNotations.

Ltac sp := cbn [before after valid has_item item_at orelse lift].
Tactic Notation "sp" "in" hyp(H) := cbn [before after valid has_item item_at orelse lift] in H.
Tactic Notation "spall" := cbn [before after valid has_item item_at orelse lift] in *.

Section Iter.
Variables (maxCap : nat).
Notation shape := (shape maxCap).

Lemma firstn_S_nth (l : list Z) j : j < length l -> firstn (S j) l = firstn j l ++ [nth j l 0%Z].
Proof.
  revert j; induction l as [|a l IH]; intros j H; simpl in *; [lia|].
  destruct j; simpl; auto. rewrite IH by lia. reflexivity.
Qed.

Lemma skipn_nth (l : list Z) j : j < length l -> skipn j l = nth j l 0%Z :: skipn (S j) l.
Proof.
  revert j; induction l as [|a l IH]; intros j H; simpl in *; [lia|].
  destruct j; simpl; auto. rewrite IH by lia. reflexivity.
Qed.

Lemma pre_0 n : pre n 0 = [].
Proof. reflexivity. Qed.

Lemma nth_flat n c ch : nth_error (n_children n) c = Some ch -> nth c (map flatten (n_children n)) [] = flatten ch.
Proof. intros E. apply nth_error_nth'. rewrite nth_error_map', E. reflexivity. Qed.

(* a position with an item: the item is the head of `after` *)
Lemma after_item d p n j :
  shape d n -> valid d p n j -> has_item p n j ->
  exists x tl, item_at p n j = Some x /\ after p n j = x :: tl.
Proof.
  revert d n; induction p as [|c p IH]; intros d n S V H.
  - spall. destruct (nth_error_ex (n_items n) j H) as [x Ex]. exists x.
    rewrite Ex. destruct (is_leaf n).
    + exists (skipn (Datatypes.S j) (n_items n)). split; auto. rewrite skipn_nth by exact H.
      rewrite (nth_error_nth' _ _ _ 0%Z Ex). reflexivity.
    + destruct (post_head n j H) as [tl E]. exists tl. rewrite E. rewrite (nth_error_nth' _ _ _ 0%Z Ex). auto.
  - destruct (valid_cons _ _ _ _ _ V) as (d' & ch & -> & E & V'). sp in H; sp. rewrite E in *.
    destruct (IH d' ch (shape_child _ _ _ _ _ S E) V' H) as (x & tl & E1 & E2).
    exists x, (tl ++ post n c). rewrite E1, E2. auto.
Qed.

Lemma before_end d n : shape d n -> before [] n (n_count n) = flatten n.
Proof.
  intros S. pose proof (before_after maxCap d [] n (n_count n) S (le_n _)) as H. rewrite <- H.
  sp. destruct (is_leaf n).
  - unfold n_count. rewrite skipn_all. rewrite app_nil_r. reflexivity.
  - rewrite post_end by lia. rewrite app_nil_r. reflexivity.
Qed.

Lemma before_lt d p n j :
  shape d n -> valid d p n j -> has_item p n j -> length (before p n j) < length (flatten n).
Proof.
  intros S V H. destruct (after_item d p n j S V H) as (x & tl & _ & E).
  rewrite <- (before_after maxCap d p n j S V), E, app_length. simpl. lia.
Qed.

(* ---------- GetBegin ---------- *)
Lemma first_in_unfold d n :
  first_in (S d) n = match nth_error (n_children n) 0 with
                     | Some ch => orelse (lift 0 (first_in d ch)) (here n 0)
                     | None => here n 0
                     end.
Proof. cbn [first_in]. destruct (n_children n); reflexivity. Qed.

Lemma first_in_spec d n :
  shape d n ->
  match first_in d n with
  | Some (p, j) => valid d p n j /\ has_item p n j /\ before p n j = []
  | None => flatten n = []
  end.
Proof.
  revert n; induction d as [|d IH]; intros n S.
  - pose proof (shape_0_leaf _ _ S) as Lf. cbn [first_in]. unfold here.
    destruct (0 <? n_count n) eqn:E.
    + apply Nat.ltb_lt in E. sp. rewrite Lf. repeat split; auto. lia.
    + apply Nat.ltb_ge in E. rewrite (flatten_leaf _ Lf). unfold n_count in E. destruct (n_items n); simpl in *; auto; lia.
  - pose proof S as (_ & _ & L & _).
    destruct (shape_child_ex _ _ _ 0 S (Nat.le_0_l _)) as (ch & E & Sch).
    rewrite first_in_unfold, E.
    specialize (IH ch Sch).
    destruct (first_in d ch) as [[p j]|].
    + destruct IH as (V & HI & Hb). sp. rewrite E. repeat split; auto; try (rewrite Hb; reflexivity).
    + sp. unfold here. destruct (0 <? n_count n) eqn:E0.
      * apply Nat.ltb_lt in E0. sp. rewrite (shape_S_internal _ _ _ S). repeat split; auto; try lia.
        rewrite (nth_flat n 0 ch E), IH. reflexivity.
      * apply Nat.ltb_ge in E0. rewrite (flatten_split n 0 ch) by (auto; lia).
        rewrite IH, post_end by lia. reflexivity.
Qed.

(* ---------- operator++ ---------- *)
Lemma next_in_spec d p n j :
  shape d n -> valid d p n j -> has_item p n j ->
  exists x, item_at p n j = Some x /\
  match next_in d p n j with
  | Some (q, i) => valid d q n i /\ has_item q n i /\ before q n i = before p n j ++ [x]
  | None => before p n j ++ [x] = flatten n
  end.
Proof.
  revert d n; induction p as [|c p IH]; intros d n S V H.
  - sp in V; sp in H. destruct (nth_error_ex (n_items n) j H) as [x Ex]. exists x. split; [exact Ex|].
    pose proof (nth_error_nth' _ _ _ 0%Z Ex) as Nx.
    cbn [next_in]. destruct (is_leaf n) eqn:Lf.
    + unfold here. destruct (Datatypes.S j <? n_count n) eqn:E.
      * apply Nat.ltb_lt in E. sp. rewrite Lf. repeat split; auto; try lia.
        rewrite firstn_S_nth by exact H. rewrite Nx. reflexivity.
      * apply Nat.ltb_ge in E. sp. rewrite Lf. rewrite (flatten_leaf _ Lf).
        rewrite <- Nx, <- firstn_S_nth by exact H. apply firstn_all2. unfold n_count in *. lia.
    + destruct (shape_internal _ _ _ S Lf) as [d' ->]. pose proof S as (_ & _ & L & _).
      destruct (shape_child_ex _ _ _ j S V) as (chj & Ej & _).
      destruct (shape_child_ex _ _ _ (Datatypes.S j) S H) as (ch & E & Sch). rewrite E.
      assert (B0 : (pre n j ++ nth j (map flatten (n_children n)) []) ++ [x] = pre n (Datatypes.S j)).
      { rewrite (pre_snoc n j chj L Ej H). rewrite (nth_flat n j chj Ej), Nx, <- app_assoc. reflexivity. }
      pose proof (first_in_spec (Nat.pred (Datatypes.S d')) ch Sch) as F. simpl Nat.pred in *.
      destruct (first_in d' ch) as [[q i]|].
      * destruct F as (Vq & Hq & Bq). sp. rewrite ?Lf, ?E. repeat split; auto.
        rewrite Bq, app_nil_r. symmetry. exact B0.
      * sp. unfold here. destruct (Datatypes.S j <? n_count n) eqn:E1.
        -- apply Nat.ltb_lt in E1. sp. rewrite ?Lf. repeat split; auto; try lia.
           rewrite (nth_flat n _ ch E), F, app_nil_r. symmetry. exact B0.
        -- apply Nat.ltb_ge in E1. sp. rewrite ?Lf. rewrite B0. rewrite (flatten_split n _ ch L E), F, post_end by lia.
           rewrite app_nil_r. reflexivity.
  - destruct (valid_cons _ _ _ _ _ V) as (d' & ch & -> & E & V'). sp in H. rewrite E in H.
    pose proof S as (_ & _ & L & _). pose proof (shape_child _ _ _ _ _ S E) as Sch.
    destruct (IH d' ch Sch V' H) as (x & Ex & R). exists x. sp. cbn [next_in]. simpl Nat.pred. rewrite E. split; [exact Ex|].
    destruct (next_in d' p ch j) as [[q i]|].
    + destruct R as (Vq & Hq & Bq). sp. rewrite E. repeat split; auto. rewrite Bq, app_assoc. reflexivity.
    + sp. unfold here. destruct (c <? n_count n) eqn:E1.
      * apply Nat.ltb_lt in E1. sp. rewrite (shape_S_internal _ _ _ S). repeat split; auto; try lia.
        rewrite (nth_flat n c ch E), <- R, app_assoc. reflexivity.
      * apply Nat.ltb_ge in E1. rewrite (flatten_split n c ch L E), <- R, post_end by lia.
        rewrite app_nil_r, app_assoc. reflexivity.
Qed.

(* ---------- operator-- ---------- *)
Lemma last_in_spec d n :
  shape d n ->
  match last_in d n with
  | Some (p, j) => valid d p n j /\ has_item p n j /\ exists x, item_at p n j = Some x /\ before p n j ++ [x] = flatten n
  | None => flatten n = []
  end.
Proof.
  revert n; induction d as [|d IH]; intros n S.
  - pose proof (shape_0_leaf _ _ S) as Lf. cbn [last_in]. unfold here_prev. rewrite (flatten_leaf _ Lf).
    destruct (n_count n) as [|c] eqn:Ec.
    + unfold n_count in Ec. destruct (n_items n); simpl in *; auto; lia.
    + sp. rewrite Lf. assert (Hc : c < length (n_items n)) by (unfold n_count in Ec; lia).
      destruct (nth_error_ex _ _ Hc) as [x Ex]. repeat split; auto; try lia.
      exists x. split; auto. rewrite <- (nth_error_nth' _ _ _ 0%Z Ex), <- firstn_S_nth by exact Hc.
      apply firstn_all2. unfold n_count in Ec. lia.
  - pose proof S as (_ & _ & L & _).
    destruct (shape_child_ex _ _ _ (n_count n) S (le_n _)) as (ch & E & Sch).
    cbn [last_in]. rewrite E. specialize (IH ch Sch).
    assert (Fl : flatten n = pre n (n_count n) ++ flatten ch).
    { rewrite (flatten_split n _ ch L E), post_end by lia. rewrite app_nil_r. reflexivity. }
    destruct (last_in d ch) as [[p j]|].
    + destruct IH as (V & HI & x & Ex & Hb). sp. rewrite E. repeat split; auto.
      exists x. split; auto. rewrite Fl, <- Hb, app_assoc. reflexivity.
    + sp. unfold here_prev. destruct (n_count n) as [|c] eqn:Ec.
      * rewrite Fl, IH. reflexivity.
      * sp. rewrite (shape_S_internal _ _ _ S). assert (Hc : c < n_count n) by lia.
        destruct (nth_error_ex (n_items n) c Hc) as [x Ex].
        destruct (shape_child_ex _ _ _ c S (Nat.lt_le_incl _ _ Hc)) as (chc & Ecc & _).
        repeat split; auto; try lia. exists x. split; auto.
        rewrite Fl, IH, app_nil_r. rewrite <- Ec in L. rewrite (pre_snoc n c chc L Ecc Hc).
        rewrite (nth_flat n c chc Ecc), (nth_error_nth' _ _ _ 0%Z Ex), <- app_assoc. reflexivity.
Qed.

Lemma prev_in_spec d p n j :
  shape d n -> valid d p n j ->
  match prev_in d p n j with
  | Some (q, i) => valid d q n i /\ has_item q n i /\ exists x, item_at q n i = Some x /\ before q n i ++ [x] = before p n j
  | None => before p n j = []
  end.
Proof.
  revert d n; induction p as [|c p IH]; intros d n S V.
  - sp in V. cbn [prev_in]. destruct (is_leaf n) eqn:Lf.
    + unfold here_prev. destruct j as [|j]; sp; rewrite Lf; auto.
      assert (Hj : j < length (n_items n)) by (unfold n_count in V; lia).
      destruct (nth_error_ex _ _ Hj) as [x Ex]. repeat split; auto; try lia.
      exists x. split; auto. rewrite firstn_S_nth by exact Hj. rewrite (nth_error_nth' _ _ _ 0%Z Ex). reflexivity.
    + destruct (shape_internal _ _ _ S Lf) as [d' ->]. pose proof S as (_ & _ & L & _).
      destruct (shape_child_ex _ _ _ j S V) as (ch & E & Sch). rewrite E.
      pose proof (last_in_spec d' ch Sch) as F. simpl Nat.pred.
      destruct (last_in d' ch) as [[q i]|].
      * destruct F as (Vq & Hq & x & Ex & Bq). sp. rewrite E, Lf. repeat split; auto.
        exists x. split; auto. rewrite (nth_flat n j ch E), <- Bq, app_assoc. reflexivity.
      * sp. unfold here_prev. destruct j as [|j].
        -- sp. rewrite Lf. rewrite (nth_flat n 0 ch E), F. reflexivity.
        -- sp. rewrite Lf. assert (Hj : j < n_count n) by lia.
           destruct (nth_error_ex (n_items n) j Hj) as [x Ex].
           destruct (shape_child_ex _ _ _ j S (Nat.lt_le_incl _ _ Hj)) as (chj & Ej & _).
           repeat split; auto; try lia. exists x. split; auto.
           rewrite (nth_flat n _ ch E), F, app_nil_r. rewrite (pre_snoc n j chj L Ej Hj).
           rewrite (nth_flat n j chj Ej), (nth_error_nth' _ _ _ 0%Z Ex), <- app_assoc. reflexivity.
  - destruct (valid_cons _ _ _ _ _ V) as (d' & ch & -> & E & V').
    pose proof S as (_ & _ & L & _). pose proof (shape_child _ _ _ _ _ S E) as Sch.
    specialize (IH d' ch Sch V'). cbn [prev_in]. rewrite E. simpl Nat.pred.
    destruct (prev_in d' p ch j) as [[q i]|].
    + destruct IH as (Vq & Hq & x & Ex & Bq). sp. rewrite E. repeat split; auto.
      exists x. split; auto. rewrite <- Bq, app_assoc. reflexivity.
    + sp. unfold here_prev. destruct c as [|c].
      * sp. rewrite E, IH. reflexivity.
      * sp. rewrite (shape_S_internal _ _ _ S).
        assert (Hc : c < n_count n) by (apply nth_error_lt in E; lia).
        destruct (nth_error_ex (n_items n) c Hc) as [x Ex].
        destruct (shape_child_ex _ _ _ c S (Nat.lt_le_incl _ _ Hc)) as (chc & Ecc & _).
        repeat split; auto; try lia. exists x. split; auto.
        rewrite E, IH, app_nil_r. rewrite (pre_snoc n c chc L Ecc Hc).
        rewrite (nth_flat n c chc Ecc), (nth_error_nth' _ _ _ 0%Z Ex), <- app_assoc. reflexivity.
Qed.

(* ---------- a position that holds an item is determined by its index ---------- *)
Lemma pre_mono d n c c' ch :
  shape (S d) n -> nth_error (n_children n) c = Some ch -> c < c' -> c' <= n_count n ->
  length (pre n c) + length (flatten ch) + 1 <= length (pre n c').
Proof.
  intros S E Hlt Hle. pose proof S as (_ & _ & L & _).
  induction c' as [|c' IH]; [lia|].
  destruct (shape_child_ex _ _ _ c' S (ltac:(lia))) as (ch' & E' & _).
  rewrite (pre_snoc n c' ch' L E') by lia. rewrite !app_length. simpl.
  destruct (Nat.eq_dec c c') as [->|Hne].
  - rewrite E in E'. inversion E'; subst. lia.
  - assert (c < c') by lia. specialize (IH ltac:(lia) ltac:(lia)). lia.
Qed.

Lemma has_item_unique d p q n j i :
  shape d n -> valid d p n j -> has_item p n j -> valid d q n i -> has_item q n i ->
  length (before p n j) = length (before q n i) -> p = q /\ j = i.
Proof.
  revert d q n; induction p as [|c p IH]; intros d q n S Vp Hp Vq Hq Hlen.
  - destruct q as [|c' q].
    + split; auto. spall. destruct (is_leaf n) eqn:Lf.
      * rewrite !firstn_length in Hlen. unfold n_count in *. lia.
      * destruct (shape_internal _ _ _ S Lf) as [d' ->].
        destruct (shape_child_ex _ _ _ j S Vp) as (chj & Ej & _).
        destruct (shape_child_ex _ _ _ i S Vq) as (chi & Ei & _).
        rewrite !app_length, (nth_flat n j chj Ej), (nth_flat n i chi Ei) in Hlen.
        destruct (lt_eq_lt_dec j i) as [[Hlt|Heq]|Hgt]; auto.
        -- pose proof (pre_mono d' n j i chj S Ej Hlt Vq). lia.
        -- pose proof (pre_mono d' n i j chi S Ei Hgt Vp). lia.
    + exfalso. destruct (valid_cons _ _ _ _ _ Vq) as (d' & ch & -> & E & V').
      pose proof (shape_child _ _ _ _ _ S E) as Sch.
      sp in Hq. rewrite E in Hq. pose proof (before_lt d' q ch i Sch V' Hq) as Hlt.
      sp in Hlen; sp in Vp; sp in Hp. rewrite (shape_S_internal _ _ _ S), E in Hlen.
      destruct (shape_child_ex _ _ _ j S Vp) as (chj & Ej & _).
      rewrite !app_length, (nth_flat n j chj Ej) in Hlen.
      assert (Hc : c' <= n_count n) by (pose proof S as (_ & _ & L & _); apply nth_error_lt in E; lia).
      destruct (lt_eq_lt_dec j c') as [[H1|H1]|H1].
      * pose proof (pre_mono d' n j c' chj S Ej H1 Hc). lia.
      * subst. rewrite E in Ej. inversion Ej; subst. lia.
      * pose proof (pre_mono d' n c' j ch S E H1 Vp). lia.
  - destruct (valid_cons _ _ _ _ _ Vp) as (d' & ch & -> & E & V').
    pose proof (shape_child _ _ _ _ _ S E) as Sch.
    sp in Hp. rewrite E in Hp. pose proof (before_lt d' p ch j Sch V' Hp) as Hlt.
    assert (Hc : c <= n_count n) by (pose proof S as (_ & _ & L & _); apply nth_error_lt in E; lia).
    destruct q as [|c' q].
    + exfalso. sp in Hlen; sp in Vq; sp in Hq. rewrite (shape_S_internal _ _ _ S), E in Hlen.
      destruct (shape_child_ex _ _ _ i S Vq) as (chi & Ei & _).
      rewrite !app_length, (nth_flat n i chi Ei) in Hlen.
      destruct (lt_eq_lt_dec i c) as [[H1|H1]|H1].
      * pose proof (pre_mono d' n i c chi S Ei H1 Hc). lia.
      * subst. rewrite E in Ei. inversion Ei; subst. lia.
      * pose proof (pre_mono d' n c i ch S E H1 Vq). lia.
    + destruct (valid_cons _ _ _ _ _ Vq) as (d'' & ch' & Ed & E' & V''). inversion Ed; subst d''.
      pose proof (shape_child _ _ _ _ _ S E') as Sch'.
      sp in Hq. rewrite E' in Hq. pose proof (before_lt d' q ch' i Sch' V'' Hq) as Hlt'.
      assert (Hc' : c' <= n_count n) by (pose proof S as (_ & _ & L & _); apply nth_error_lt in E'; lia).
      sp in Hlen. rewrite E, E', !app_length in Hlen.
      destruct (lt_eq_lt_dec c c') as [[H1|H1]|H1].
      * pose proof (pre_mono d' n c c' ch S E H1 Hc'). lia.
      * subst c'. rewrite E in E'. inversion E'; subst ch'.
        destruct (IH d' q ch Sch V' Hp V'' Hq ltac:(lia)) as [-> ->]. auto.
      * pose proof (pre_mono d' n c' c ch' S E' H1 Hc). lia.
Qed.

End Iter.
