(* C10 -- proofs about the pointer-level model of pvMergeFast: a FAILED fast merge gives back exactly the heap it
   started from (root of the lower tree has a null parent again, every stacked node freed, leaf order restored). *)
From Coq Require Import ZArith Bool List Lia Arith.
From C10 Require Import Machine FastPtr.
Import ListNotations.

(* ---------------------------------------------------------------- the separator's leaf *)
Theorem leaf_remove_spec c w items idx w' r : leaf_remove c w items idx = (w', r) ->
  match r with
  | Some (e, rest) => e = nth idx items 0%Z /\ rest = firstn idx items ++ skipn (S idx) items
  | None => nothrow_reloc c = false            (* only a copy-only item can make the remover throw *)
  end.
Proof.
  unfold leaf_remove. destruct (nothrow_reloc c) eqn:Hc.
  - set (w1 := match skipn (S idx) items with [] => w | _ => emit_list w (rot_events (nth idx items 0%Z) (skipn (S idx) items)) end).
    destruct (relocate_nothrow c w1 (nth idx items 0%Z) Hc) as (w2 & E & _). rewrite E.
    intros H; inversion H; subst. auto.
  - destruct (relocate c w (nth idx items 0%Z)) as [w1 [e|]] eqn:E; intros H; inversion H; subst; [|reflexivity].
    apply relocate_value in E. auto.
Qed.

Lemma no_copy_app l t : Forall (fun e => is_copy e = false) l -> no_copy t -> no_copy (l ++ t).
Proof. intros Hl Ht. unfold no_copy. apply Forall_app. auto. Qed.

Lemma rot_events_no_copy x seg : Forall (fun e => is_copy e = false) (rot_events x seg).
Proof.
  unfold rot_events. repeat (apply Forall_app; split); repeat constructor.
  apply Forall_forall. intros e He. apply in_flat_map in He. destruct He as (y & _ & [<-|[<-|[]]]); reflexivity.
Qed.

Theorem leaf_remove_no_copy c w items idx w' r : nothrow_reloc c = true -> no_copy (tr w) ->
  leaf_remove c w items idx = (w', r) -> no_copy (tr w').
Proof.
  intros Hc N. unfold leaf_remove. rewrite Hc.
  set (w1 := match skipn (S idx) items with [] => w | _ => emit_list w (rot_events (nth idx items 0%Z) (skipn (S idx) items)) end).
  assert (N1 : no_copy (tr w1)).
  { unfold w1. destruct (skipn (S idx) items); [exact N|]. unfold emit_list. cbn [tr]. apply no_copy_app; [apply rot_events_no_copy|exact N]. }
  destruct (relocate_nothrow c w1 (nth idx items 0%Z) Hc) as (w2 & E & T & _). rewrite E.
  intros H; inversion H; subst. rewrite T. repeat apply no_copy_cons; auto.
Qed.

(* ---------------------------------------------------------------- failure path *)
Lemma NoDup_snoc {A} (l : list A) a : NoDup l -> ~ In a l -> NoDup (l ++ [a]).
Proof.
  induction l as [|x l IH]; intros N H; simpl; [constructor; [intros []|constructor]|].
  inversion N; subst. constructor.
  - intros I. apply in_app_or in I. destruct I as [I|[<-|[]]]; [contradiction|]. apply H. left. reflexivity.
  - apply IH; [assumption|]. intros I. apply H. right. exact I.
Qed.

Lemma last_in {A} (d : A) : forall l, l <> [] -> In (last l d) l.
Proof.
  induction l as [|x l IH]; intros H; [contradiction|]. destruct l as [|y l']; [left; reflexivity|].
  right. apply IH. discriminate.
Qed.

Fixpoint chainfrom (h : heap) (p : option nat) (A : list nat) : Prop :=
  match A with
  | [] => p = None
  | a :: A' => p = Some a /\ exists c, lookup h a = Some c /\ chainfrom h (c_parent c) A'
  end.

Lemma chainfrom_ext h h' : forall A p, (forall x, In x A -> lookup h' x = lookup h x) -> chainfrom h p A -> chainfrom h' p A.
Proof.
  induction A as [|a A IH]; intros p E H; simpl in *; [exact H|].
  destruct H as (-> & c & L & H). split; [reflexivity|]. exists c. split; [rewrite E; auto|].
  apply IH; [intros x Hx; apply E; auto|exact H].
Qed.

Lemma destroy_up_spec : forall A h p f, chainfrom h p A -> NoDup A -> (length A <= f)%nat ->
  forall y, (In y A -> lookup (destroy_up f h p) y = None) /\ (~ In y A -> lookup (destroy_up f h p) y = lookup h y).
Proof.
  induction A as [|a A IH]; intros h p f H N L y; simpl in H.
  - subst p. destruct f; simpl; split; auto; intros [].
  - destruct H as (-> & c & Lc & H). destruct f as [|f]; [simpl in L; lia|]. simpl. rewrite Lc.
    inversion N as [|x l Hn N']; subst.
    assert (H' : chainfrom (free h a) (c_parent c) A).
    { apply (chainfrom_ext h); [|exact H]. intros x Hx. apply lookup_free_other. intros ->. contradiction. }
    destruct (IH (free h a) (c_parent c) f H' N' ltac:(simpl in L; lia) y) as [I1 I2]. split.
    + intros [<-|Hy]; [|apply I1; exact Hy]. rewrite I2; [apply lookup_free_same|exact Hn].
    + intros Hy. rewrite I2; [|intros Hy'; apply Hy; right; exact Hy'].
      apply lookup_free_other. intros ->. apply Hy. left. reflexivity.
Qed.

Section Failure.
Variables (h0 : heap) (root1 : nat) (c0 : cell).
Hypothesis Hroot : lookup h0 root1 = Some c0.
Hypothesis Hpar : c_parent c0 = None.

(* state of the heap while nodes are being stacked on top of root1: A = the stacked nodes, bottom-up *)
Definition Inv (hc : heap) (top : nat) (A : list nat) : Prop :=
  (exists cr, lookup hc root1 = Some cr /\ c_items cr = c_items c0 /\ c_kids cr = c_kids c0 /\ chainfrom hc (c_parent cr) A) /\
  top = last A root1 /\
  (forall y, y <> root1 -> ~ In y A -> lookup hc y = lookup h0 y) /\
  NoDup A /\ ~ In root1 A /\ (forall a, In a A -> lookup h0 a = None).

Lemma chain_extend hc a newc : forall A p, A <> [] -> chainfrom hc p A -> NoDup A -> ~ In a A ->
  c_parent newc = None ->
  chainfrom (set_parent (upd hc a newc) (last A root1) (Some a)) p (A ++ [a]).
Proof.
  induction A as [|b A IH]; intros p Hne H N Ha Hn; [contradiction|].
  simpl in H. destruct H as (-> & cb & Lb & H). inversion N as [|x l Hb N']; subst.
  assert (Hab : a <> b) by (intros ->; apply Ha; left; reflexivity).
  destruct A as [|b' A'].
  - (* b is the top *)
    simpl in H. change (last [b] root1) with b. change ([b] ++ [a]) with [b; a]. cbn [chainfrom]. split; [reflexivity|]. unfold set_parent. rewrite lookup_upd_other by exact Hab. rewrite Lb.
    exists (C (Some a) (c_items cb) (c_kids cb)). split; [apply lookup_upd_same|]. cbn [c_parent]. split; [reflexivity|].
    exists newc. split; [|exact Hn]. rewrite lookup_upd_other by (intros E; apply Hab; symmetry; exact E). apply lookup_upd_same.
  - change (last (b :: b' :: A') root1) with (last (b' :: A') root1).
    change ((b :: b' :: A') ++ [a]) with (b :: ((b' :: A') ++ [a])).
    assert (Hlast : In (last (b' :: A') root1) (b' :: A')) by (apply last_in; discriminate).
    specialize (IH (c_parent cb) ltac:(discriminate) H N' ltac:(intros Hx; apply Ha; right; exact Hx) Hn).
    remember (last (b' :: A') root1) as t eqn:Et. remember ((b' :: A') ++ [a]) as A2 eqn:EA2.
    cbn [chainfrom]. split; [reflexivity|]. exists cb. split; [|exact IH].
    unfold set_parent. destruct (lookup (upd hc a newc) t); [|rewrite lookup_upd_other by exact Hab; exact Lb].
    rewrite lookup_upd_other by (intros E; apply Hb; rewrite <- E; exact Hlast).
    rewrite lookup_upd_other by exact Hab. exact Lb.
Qed.

Lemma inv_stack hc top A a : Inv hc top A -> ~ In a A -> a <> root1 -> lookup h0 a = None ->
  Inv (set_parent (upd hc a (C None [] [Ptr top])) top (Some a)) a (A ++ [a]).
Proof.
  intros ((cr & Lr & Hi & Hk & Hc) & Ht & Hf & N & Hr & Hfr) Ha Har Hfa.
  assert (Lca : lookup hc a = None) by (rewrite Hf; auto).
  unfold Inv. split; [|split; [|split; [|split; [|split]]]].
  - destruct A as [|b A'].
    + simpl in Ht. subst top. simpl in Hc. unfold set_parent. rewrite lookup_upd_other by exact Har. rewrite Lr.
      exists (C (Some a) (c_items cr) (c_kids cr)). split; [apply lookup_upd_same|]. cbn [c_parent c_items c_kids app chainfrom]. split; [exact Hi|]. split; [exact Hk|]. split; [reflexivity|].
      exists (C None [] [Ptr root1]). split; [|reflexivity].
      rewrite lookup_upd_other by (intros E; apply Har; symmetry; exact E). apply lookup_upd_same.
    + assert (Hlast : In top (b :: A')).
      { rewrite Ht. apply last_in. discriminate. }
      exists cr. split; [|split; [exact Hi|split; [exact Hk|]]].
      * unfold set_parent. destruct (lookup (upd hc a (C None [] [Ptr top])) top).
        -- rewrite lookup_upd_other by (intros E; apply Hr; rewrite <- E; exact Hlast).
           rewrite lookup_upd_other by exact Har. exact Lr.
        -- rewrite lookup_upd_other by exact Har. exact Lr.
      * rewrite Ht. apply chain_extend; auto. discriminate.
  - rewrite last_last. reflexivity.
  - intros y Hy1 Hy2. assert (Hya : y <> a) by (intros ->; apply Hy2; apply in_or_app; right; left; reflexivity).
    assert (HyA : ~ In y A) by (intros Hx; apply Hy2; apply in_or_app; left; exact Hx).
    unfold set_parent. destruct (lookup (upd hc a (C None [] [Ptr top])) top) eqn:El.
    + assert (Hyt : top <> y).
      { intros ->. destruct A as [|b A']; [simpl in Ht; contradiction|].
        apply HyA. rewrite Ht. apply last_in. discriminate. }
      rewrite lookup_upd_other by exact Hyt. rewrite lookup_upd_other by (intros E; apply Hya; symmetry; exact E). apply Hf; auto.
    + rewrite lookup_upd_other by (intros E; apply Hya; symmetry; exact E). apply Hf; auto.
  - apply NoDup_snoc; auto.
  - intros Hx. apply in_app_or in Hx. destruct Hx as [Hx|[Hx|[]]]; [contradiction|]. apply Har. exact Hx.
  - intros x Hx. apply in_app_or in Hx. destruct Hx as [Hx|[<-|[]]]; [apply Hfr; exact Hx|exact Hfa].
Qed.
End Failure.

Section Failure2.
Variables (h0 : heap) (root1 : nat) (c0 : cell).
Hypothesis Hroot : lookup h0 root1 = Some c0.
Hypothesis Hpar : c_parent c0 = None.

Lemma climb_inv maxcap : forall f hc w node2 top fresh A,
  Inv h0 root1 c0 hc top A -> NoDup fresh -> (forall a, In a fresh -> lookup h0 a = None /\ ~ In a A) ->
  match climb f maxcap hc w node2 top fresh with
  | Joined h1 _ _ top' _ => exists A', Inv h0 root1 c0 h1 top' A' /\ (length A' <= length A + f)%nat
  | Threw h1 _ => exists top' A', Inv h0 root1 c0 h1 top' A' /\ (length A' <= length A + f)%nat
  | Broken => True
  end.
Proof.
  induction f as [|f IH]; intros hc w node2 top fresh A HI Nf Hf; simpl; [exact I|].
  destruct (lookup hc node2) as [c2|]; [|exact I].
  assert (Alloc :
    match match step_alloc w with
          | None => Threw hc (fail_alloc w)
          | Some w1 => match fresh with
                       | [] => Broken
                       | a :: fr => match c_parent c2 with
                                    | None => Joined (set_parent (upd hc a (C None [] [Ptr top])) top (Some a)) w1 a a fr
                                    | Some pa => climb f maxcap (set_parent (upd hc a (C None [] [Ptr top])) top (Some a)) w1 pa a fr
                                    end
                       end
          end with
    | Joined h1 _ _ top' _ => exists A', Inv h0 root1 c0 h1 top' A' /\ (length A' <= length A + S f)%nat
    | Threw h1 _ => exists top' A', Inv h0 root1 c0 h1 top' A' /\ (length A' <= length A + S f)%nat
    | Broken => True
    end).
  { destruct (step_alloc w) as [w1|]; [|exists top, A; split; [exact HI|lia]].
    destruct fresh as [|a fr]; [exact I|].
    destruct (Hf a (or_introl eq_refl)) as [Fa Na].
    assert (Har : a <> root1) by (intros ->; congruence).
    pose proof (inv_stack h0 root1 c0 hc top A a HI Na Har Fa) as HI'.
    inversion Nf as [|x l Hna Nfr]; subst.
    destruct (c_parent c2) as [pa|].
    - specialize (IH (set_parent (upd hc a (C None [] [Ptr top])) top (Some a)) w1 pa a fr (A ++ [a]) HI' Nfr).
      assert (Hf' : forall x, In x fr -> lookup h0 x = None /\ ~ In x (A ++ [a])).
      { intros x Hx. destruct (Hf x (or_intror Hx)) as [F1 F2]. split; [exact F1|].
        intros Hi. apply in_app_or in Hi. destruct Hi as [Hi|[<-|[]]]; [contradiction|contradiction]. }
      specialize (IH Hf'). rewrite app_length in IH. simpl in IH.
      destruct (climb f maxcap _ w1 pa a fr) as [h1 w2 j t fr2|h1 w2|]; [| |exact I].
      + destruct IH as (A' & I1 & L1). exists A'. split; [exact I1|lia].
      + destruct IH as (t' & A' & I1 & L1). exists t', A'. split; [exact I1|lia].
    - exists (A ++ [a]). split; [exact HI'|]. rewrite app_length. simpl. lia. }
  destruct (c_parent c2) as [pa|] eqn:Ep.
  - destruct (match lookup hc pa with Some pc => Nat.ltb (length (c_items pc)) maxcap | None => false end).
    + exists A. split; [exact HI|lia].
    + exact Alloc.
  - exact Alloc.
Qed.

Lemma cleanup_restores fuel h1 top A : Inv h0 root1 c0 h1 top A -> (length A <= fuel)%nat ->
  forall y, lookup (cleanup fuel h1 root1) y = lookup h0 y.
Proof.
  intros ((cr & Lr & Hi & Hk & Hc) & Ht & Hf & N & Hr & Hfr) L y.
  unfold cleanup. rewrite Lr.
  assert (Hc' : chainfrom (set_parent h1 root1 None) (c_parent cr) A).
  { apply (chainfrom_ext h1); [|exact Hc]. intros x Hx. unfold set_parent. rewrite Lr.
    apply lookup_upd_other. intros ->. contradiction. }
  destruct (destroy_up_spec A _ _ fuel Hc' N L y) as [D1 D2].
  destruct (in_dec Nat.eq_dec y A) as [Hy|Hy].
  - rewrite (D1 Hy). symmetry. apply Hfr. exact Hy.
  - rewrite (D2 Hy). unfold set_parent. rewrite Lr. destruct (Nat.eq_dec y root1) as [->|Hne].
    + rewrite lookup_upd_same. rewrite Hroot. destruct c0 as [p0 i0 k0]. simpl in *. subst p0. rewrite Hi, Hk. reflexivity.
    + rewrite lookup_upd_other by (intros E; apply Hne; symmetry; exact E). apply Hf; assumption.
Qed.

(* "valid and usable after failure", pointer level: when pvMergeFast throws -- at any node allocation of the joining
   path or while relocating the separator -- the heap is EXACTLY the heap before the call: the root of the lower tree
   has a null parent again, every stacked node has been returned, nothing else was touched (tree 2 is never written
   inside the try block, the leaf gets its separator back in place). *)
Theorem merge_fast_failure_restores_heap c w root2 start2 leaf1 swap maxcap fuel fresh w' h' :
  NoDup fresh -> (forall a, In a fresh -> lookup h0 a = None) ->
  merge_fast_ptr c w h0 root1 root2 start2 leaf1 swap maxcap fuel fresh = (w', FThrow h') ->
  forall y, lookup h' y = lookup h0 y.
Proof.
  intros Nf Hf. unfold merge_fast_ptr.
  assert (HI0 : Inv h0 root1 c0 h0 root1 []).
  { unfold Inv. split; [exists c0; simpl; auto|]. repeat split; auto; try constructor. intros a []. }
  pose proof (climb_inv maxcap fuel h0 w start2 root1 fresh [] HI0 Nf (fun a Ha => conj (Hf a Ha) (fun x => x))) as CI.
  destruct (climb fuel maxcap h0 w start2 root1 fresh) as [h1 w1 join top fr|h1 w1|]; [| |intros H; inversion H].
  - destruct CI as (A' & I1 & L1). simpl in L1.
    destruct (lookup h1 leaf1) as [lc|]; [|intros H; inversion H].
    destruct (lookup h1 join) as [jc0|]; [|intros H; inversion H].
    destruct (leaf_remove c w1 (c_items lc) (if swap then 0%nat else (length (c_items lc) - 1)%nat)) as [w2 [[sep items1]|]].
    + destruct (lookup (upd h1 leaf1 _) join); [|intros H; inversion H].
      destruct (Nat.eqb join top); intros H; inversion H.
    + intros H; inversion H; subst. apply (cleanup_restores fuel h1 top A' I1 L1).
  - destruct CI as (t' & A' & I1 & L1). simpl in L1. intros H; inversion H; subst.
    apply (cleanup_restores fuel h1 t' A' I1 L1).
Qed.
End Failure2.

(* ---------------------------------------------------------------- the seeded change (a): a clean-up that walks top-down
   from the local rootNode1 and forgets `mRootNode->SetParent(nullptr)` frees the same nodes but leaves the root with a
   pointer to a freed node: the theorem above is false for it. *)
Fixpoint destroy_down (fuel : nat) (h : heap) (cur root1 : nat) : heap :=
  match fuel with
  | O => h
  | S f => if Nat.eqb cur root1 then h else
           match lookup h cur with
           | Some (C _ _ (Ptr ch :: _)) => destroy_down f (free h cur) ch root1
           | _ => h
           end
  end.

Theorem seed_a_cleanup_leaves_dangling_parent :
  let h0 := [(1%nat, C None [5%Z] [])] in
  let h1 := set_parent (upd h0 9%nat (C None [] [Ptr 1%nat])) 1%nat (Some 9%nat) in     (* one node stacked on the root *)
  let hbad := destroy_down 5 h1 9%nat 1%nat in
  lookup hbad 9%nat = None /\ lookup hbad 1%nat = Some (C (Some 9%nat) [5%Z] []) /\ lookup hbad 1%nat <> lookup h0 1%nat.
Proof. vm_compute. repeat split; discriminate. Qed.

(* ---------------------------------------------------------------- success path: bounded sweep (vm_compute) over the joining
   geometries -- both directions, tree 2 spines of depth 0..3 with every full / not-full pattern (joining at any level, or
   growing a new root), tree 1 = a single leaf or an internal root whose boundary leaf holds the separator:
   the returned root has a null parent, every cell points back to its parent, child counts = item counts + 1, no node
   exceeds the capacity, and the in-order contents are the concatenation of the two trees in key order. *)
Definition maxcap_s : nat := 2.
Definition mk_spine (swap : bool) (fulls : list bool) : heap * nat * nat :=
  (* bottom cell id 20 (a leaf, or an internal node over opaque subtrees when tree 1 is internal); spine cell i has id 21+i *)
  let fix go (i : nat) (fulls : list bool) (below : nat) (h : heap) : heap * nat :=
    match fulls with
    | [] => (h, below)
    | fl :: rest =>
      let id := (21 + i)%nat in
      let its := if fl then [Z.of_nat (300 + 10 * i); Z.of_nat (301 + 10 * i)] else [Z.of_nat (300 + 10 * i)] in
      let others := map (fun j => Sub [Z.of_nat (400 + 10 * i + j)]) (seq 0 (length its)) in
      let kids := if swap then others ++ [Ptr below] else Ptr below :: others in
      let h1 := set_parent (upd h id (C None its kids)) below (Some id) in
      go (S i) rest id h1
    end in
  let h0 := [(20%nat, C None [200%Z; 201%Z] [])] in
  let '(h, root2) := go 0%nat fulls 20%nat h0 in (h, root2, 20%nat).

Definition mk_tree1 (internal : bool) (swap : bool) (h : heap) : heap * nat * nat :=
  if internal then
    let leafkid := Ptr 2%nat in
    let kids := if swap then [leafkid; Sub [13%Z]] else [Sub [13%Z]; leafkid] in
    (upd (upd h 2%nat (C (Some 1%nat) [10%Z; 11%Z] [])) 1%nat (C None [12%Z] kids), 1%nat, 2%nat)
  else (upd h 1%nat (C None [10%Z; 11%Z] []), 1%nat, 1%nat).

Definition all_bools : nat -> list (list bool) :=
  fix go n := match n with O => [[]] | S n' => flat_map (fun l => [true :: l; false :: l]) (go n') end.

Definition list_eqb (a b : list Z) : bool := if list_eq_dec Z.eq_dec a b then true else false.

Definition sweep_case (swap internal : bool) (fulls : list bool) : bool :=
  let '(h2, root2, start2) := mk_spine swap fulls in
  let '(h, root1, leaf1) := mk_tree1 internal swap h2 in
  let expected := if swap then inorder 12 h (Ptr root2) ++ inorder 12 h (Ptr root1)
                  else inorder 12 h (Ptr root1) ++ inorder 12 h (Ptr root2) in
  match merge_fast_ptr NTM (W [] [] [] []) h root1 root2 start2 leaf1 swap maxcap_s 12 [50; 51; 52; 53; 54; 55]%nat with
  | (_, FOk h' r) => wfb 12 maxcap_s h' (Ptr r) None && list_eqb (inorder 12 h' (Ptr r)) expected
  | _ => false
  end.

(* the two trees handed to pvMergeFast by MergeTo have heights h1 <= h2: when tree 1 is internal (height 1 here) the spine
   of tree 2 starts one level up, which the sweep models by an internal bottom cell -- only the leaf case of tree 2's
   bottom is enumerated for a leaf tree 1 *)
Definition sweep_success : bool :=
  forallb (fun swap => forallb (fun internal => forallb (fun d => forallb (fun fulls => sweep_case swap internal fulls)
    (all_bools d)) [0; 1; 2; 3]%nat) [false]) [true; false].

Lemma sweep_success_ok : sweep_success = true.
Proof. vm_compute. reflexivity. Qed.

(* NON-VACUITY of the failure theorems below (their hypothesis is "merge_fast_ptr ... = (w', FThrow h')"): FThrow is reachable.
   On every geometry of the success sweep (tree 1 = a single leaf), in both directions,
   - a copy-only element (CPY) whose first copy fails (the separator relocation) makes merge_fast_ptr return FThrow, and
   - whenever the first climbing step needs a new node (tree 2 is a single leaf, or the lowest spine node is full) a failing
     first allocation makes it return FThrow (NTM elements),
   and, concretely on these inputs, both trees then pass the structural validator and have their original contents.
   (FBroken -- fuel exhaustion or a malformed heap -- is a distinct result, so FThrow is not a totalisation artefact.) *)
Definition throw_case (c : cat) (w : world) (swap : bool) (fulls : list bool) : bool :=
  let '(h2, root2, start2) := mk_spine swap fulls in
  let '(h, root1, leaf1) := mk_tree1 false swap h2 in
  match merge_fast_ptr c w h root1 root2 start2 leaf1 swap maxcap_s 12 [50; 51; 52; 53; 54; 55]%nat with
  | (w', FThrow h') =>
      wfb 12 maxcap_s h' (Ptr root1) None && wfb 12 maxcap_s h' (Ptr root2) None &&
      list_eqb (inorder 12 h' (Ptr root1)) (inorder 12 h (Ptr root1)) &&
      list_eqb (inorder 12 h' (Ptr root2)) (inorder 12 h (Ptr root2)) &&
      negb (list_eqb (map (fun e => match e with EFail _ => 1%Z | _ => 0%Z end) (tr w')) (map (fun _ => 0%Z) (tr w')))
  | _ => false
  end.

Definition needs_node_first (fulls : list bool) : bool := match fulls with [] => true | f :: _ => f end.

Definition sweep_failure : bool :=
  forallb (fun swap => forallb (fun d => forallb (fun fulls =>
      throw_case CPY (W [] [] [true] []) swap fulls &&
      (if needs_node_first fulls then throw_case NTM (W [] [true] [] []) swap fulls else true))
    (all_bools d)) [0; 1; 2; 3]%nat) [true; false].

Lemma sweep_failure_ok : sweep_failure = true.
Proof. vm_compute. reflexivity. Qed.

(* the same fact as a plain existence statement, for the reader who wants the hypothesis of the failure theorems inhabited *)
Theorem merge_fast_fthrow_reachable :
  (exists h root1 root2 start2 leaf1 swap maxcap fuel fresh w' h',
     merge_fast_ptr CPY (W [] [] [true] []) h root1 root2 start2 leaf1 swap maxcap fuel fresh = (w', FThrow h')) /\
  (exists h root1 root2 start2 leaf1 swap maxcap fuel fresh w' h',
     merge_fast_ptr NTM (W [] [true] [] []) h root1 root2 start2 leaf1 swap maxcap fuel fresh = (w', FThrow h')).
Proof.
  assert (R : forall c w swap fulls, throw_case c w swap fulls = true ->
            exists h root1 root2 start2 leaf1 swap maxcap fuel fresh w' h',
              merge_fast_ptr c w h root1 root2 start2 leaf1 swap maxcap fuel fresh = (w', FThrow h')).
  { intros c w swap fulls. unfold throw_case.
    destruct (mk_spine swap fulls) as [[h2 root2] start2]. destruct (mk_tree1 false swap h2) as [[h root1] leaf1].
    destruct (merge_fast_ptr c w h root1 root2 start2 leaf1 swap maxcap_s 12 [50; 51; 52; 53; 54; 55]%nat) as [w' r] eqn:M.
    destruct r; try discriminate. intros _. do 11 eexists. exact M. }
  split; [apply (R CPY _ false [false]) | apply (R NTM _ false [])]; vm_compute; reflexivity.
Qed.

Lemma forallb_ext' {A} (f g : A -> bool) l : (forall x, f x = g x) -> forallb f l = forallb g l.
Proof. intros E. induction l as [|x l IH]; simpl; [reflexivity|]. rewrite E, IH. reflexivity. Qed.

Lemma wfb_ext h h' maxcap : (forall y, lookup h' y = lookup h y) ->
  forall f r p, wfb f maxcap h' r p = wfb f maxcap h r p.
Proof.
  intros E. induction f as [|f IH]; intros r p; destruct r as [l|a]; simpl; try reflexivity.
  rewrite E. destruct (lookup h a) as [c|]; [|reflexivity]. f_equal.
  apply forallb_ext'. intros k. apply IH.
Qed.

Lemma inorder_S f h a : inorder (S f) h (Ptr a) =
  match lookup h a with
  | None => []
  | Some c => match c_kids c with [] => c_items c | ks => interleave (map (inorder f h) ks) (c_items c) end
  end.
Proof. reflexivity. Qed.

Lemma inorder_ext h h' : (forall y, lookup h' y = lookup h y) -> forall f r, inorder f h' r = inorder f h r.
Proof.
  intros E. induction f as [|f IH]; intros r; destruct r as [l|a]; try reflexivity.
  rewrite !inorder_S, E. destruct (lookup h a) as [c|]; [|reflexivity]. destruct (c_kids c) as [|k ks]; [reflexivity|].
  rewrite (map_ext _ _ IH (k :: ks)). reflexivity.
Qed.

(* corollary in the words of the property: after a failed fast merge both trees are still valid containers (root parent
   null, all parent / child links and counts intact) with unchanged contents, and no stacked node is left allocated *)
Theorem merge_fast_failure_valid_and_unchanged c w h0 root1 c0 root2 start2 leaf1 swap maxcap fuel fresh w' h' :
  lookup h0 root1 = Some c0 -> c_parent c0 = None ->
  NoDup fresh -> (forall a, In a fresh -> lookup h0 a = None) ->
  merge_fast_ptr c w h0 root1 root2 start2 leaf1 swap maxcap fuel fresh = (w', FThrow h') ->
  (exists c1, lookup h' root1 = Some c1 /\ c_parent c1 = None) /\
  (forall f r p, wfb f maxcap h' r p = wfb f maxcap h0 r p) /\
  (forall f r, inorder f h' r = inorder f h0 r) /\
  (forall a, In a fresh -> lookup h' a = None).
Proof.
  intros Hr Hp Nf Hf H.
  pose proof (merge_fast_failure_restores_heap h0 root1 c0 Hr Hp c w root2 start2 leaf1 swap maxcap fuel fresh w' h' Nf Hf H) as E.
  split; [exists c0; rewrite E; auto|]. split; [apply wfb_ext; exact E|]. split; [apply inorder_ext; exact E|].
  intros a Ha. rewrite E. apply Hf. exact Ha.
Qed.
