(* Extraction of the proved monitor and of the L2 resource machine. ExtrOcamlBasic only. *)
From Coq Require Import ZArith List Extraction ExtrOcamlBasic.
From C03 Require Effects7.
From C03 Require Monitor Effects Effects2 Effects2Proofs Effects3 Effects4 Effects5 Effects6 PoolConcC09.
Separate Extraction
  Monitor.mon_check Monitor.mon_diag Monitor.accepts
  Effects.om_relocate Effects.om_relocate_exec Effects.om_relocate_create Effects.om_move_exec Effects.om_copy_exec
  Effects.array_regrow Effects.array_addback Effects.array_op_then_destroy
  Effects.hs_copy_then_destroy Effects.ts_copy_then_destroy Effects.init_state Effects.init_cells
  Effects2.merge_scn Effects2.move_scn Effects2.dt_copy_then_destroy Effects2.hmm_ctor_then_destroy Effects2.pools_scn Effects2Proofs.rows_init
  Effects3.sa_ctor_then_destroy Effects3.hs_history Effects3.hs_history_auto Effects3.open2n2_capacity
  Effects4.tsn_copy_then_destroy Effects4.first_insert_scn
  Effects5.sa2_ctor_then_destroy Effects6.migrate_then_destroy Effects6.dt_history Effects6.dt_step Effects6.merge_refill_scn Effects6.migrate_block_then_destroy Effects.p_alloc Effects7.insertion Effects7.h23_script Effects7.h23_state Effects7.esz_std Effects7.grow_dbl
  PoolConcC09.Allocate PoolConcC09.Deallocate PoolConcC09.MergeFrom PoolConcC09.DeallocateAll PoolConcC09.empty_world PoolConcC09.flush.
