(* C10 -- proofs about the merge / extract model, for EVERY failure schedule. *)
From Coq Require Import ZArith Bool List Lia Permutation Arith.
From C10 Require Import Machine Merge.
Import ListNotations.
Local Open Scope Z_scope.

(* ---------------------------------------------------------------- list facts *)

Lemma nth_split_skipn (b : list item) (i : nat) : (i < length b)%nat ->
  b = firstn i b ++ nth i b 0 :: skipn (S i) b.
Proof.
  revert i; induction b as [|a b IH]; intros i H; simpl in *; [lia|].
  destruct i; simpl; [reflexivity|]. f_equal. apply IH. lia.
Qed.

Lemma bucket_remove_perm b i : (i < length b)%nat -> Permutation (nth i b 0 :: bucket_remove b i) b.
Proof.
  intros H. pose proof (nth_split_skipn b i H) as Hb. unfold bucket_remove.
  remember (firstn i b) as pre in *. remember (skipn (S i) b) as post in *. remember (nth i b 0) as x in *.
  clear Heqpre Heqpost Heqx. subst b.
  destruct (rev post) as [|l rp] eqn:E; apply (f_equal (@rev item)) in E; rewrite rev_involutive in E; subst post; simpl.
  - apply Permutation_cons_append.
  - etransitivity; [|apply Permutation_middle]. constructor.
    apply Permutation_app_head. apply Permutation_cons_append.
Qed.

Lemma bucket_remove_length b i : (i < length b)%nat -> S (length (bucket_remove b i)) = length b.
Proof. intros H. pose proof (Permutation_length (bucket_remove_perm b i H)) as P. simpl in P. exact P. Qed.

Lemma perm_transfer (A b b' C D : list item) x :
  Permutation (x :: b') b -> Permutation ((A ++ b' ++ C) ++ D ++ [x]) ((A ++ b ++ C) ++ D).
Proof.
  intros P. rewrite app_assoc.
  apply perm_trans with (x :: ((A ++ b' ++ C) ++ D)); [symmetry; apply Permutation_cons_append|].
  change (x :: (A ++ b' ++ C) ++ D) with ((x :: A ++ b' ++ C) ++ D). apply Permutation_app_tail.
  etransitivity; [apply Permutation_middle|]. apply Permutation_app_head.
  change (x :: b' ++ C) with ((x :: b') ++ C). apply Permutation_app_tail. exact P.
Qed.

Lemma has_key_false_notin d k : has_key d k = false -> ~ In k (map key d).
Proof.
  intros H I. apply in_map_iff in I. destruct I as (y & E & I).
  assert (has_key d k = true); [|congruence].
  apply existsb_exists. exists y. split; [exact I|]. apply Z.eqb_eq. exact E.
Qed.

Lemma has_key_true_in d k : has_key d k = true -> In k (map key d).
Proof.
  intros H. apply existsb_exists in H. destruct H as (y & I & E). apply Z.eqb_eq in E. subst. apply in_map. exact I.
Qed.

Lemma in_has_key d k : In k (map key d) -> has_key d k = true.
Proof.
  intros I. destruct (has_key d k) eqn:E; [reflexivity|]. exfalso. exact (has_key_false_notin _ _ E I).
Qed.

Lemma nodup_keys_snoc d x : NoDup (map key d) -> has_key d (key x) = false -> NoDup (map key (d ++ [x])).
Proof.
  intros N H. rewrite map_app. simpl.
  apply Permutation_NoDup with (l := key x :: map key d); [apply Permutation_cons_append|].
  constructor; [apply has_key_false_notin; exact H|exact N].
Qed.

(* ---------------------------------------------------------------- mechanism facts *)

Lemma extract_reloc_value c w x r w' e : extract_reloc c w x r = (w', Some e) -> e = x.
Proof.
  unfold extract_reloc. destruct r as [l|].
  - destruct (replace_relocate c w l x) as [w1 [[e1 m1]|]] eqn:E; intros H; inversion H; subst.
    apply replace_relocate_value in E. tauto.
  - apply relocate_value.
Qed.

Lemma extract_reloc_no_copy c w x r w' o : nothrow_reloc c = true -> no_copy (tr w) ->
  extract_reloc c w x r = (w', o) -> no_copy (tr w').
Proof.
  unfold extract_reloc. intros Hc Hn. destruct r as [l|].
  - destruct (replace_relocate c w l x) as [w1 o1] eqn:E. pose proof (replace_relocate_no_copy _ _ _ _ _ _ Hc Hn E) as N.
    destruct o1 as [[e1 m1]|]; intros H; inversion H; subst; exact N.
  - intros H. exact (relocate_no_copy _ _ _ _ _ Hc Hn H).
Qed.

(* a nothrow-relocatable category never throws while relocating: the extraction always succeeds *)
Lemma extract_reloc_nothrow c w x r : nothrow_reloc c = true -> exists w', extract_reloc c w x r = (w', Some x).
Proof.
  intros Hc. unfold extract_reloc. destruct r as [l|].
  - destruct (replace_relocate_nothrow c w l x Hc) as (w' & E & _). rewrite E. eexists; reflexivity.
  - destruct (relocate_nothrow c w x Hc) as (w' & E & _). rewrite E. eexists; reflexivity.
Qed.

Lemma fail_func_tr w : tr (fail_func w) = EFail FFunc :: tr w. Proof. reflexivity. Qed.
Lemma fail_alloc_tr w : tr (fail_alloc w) = EFail FAlloc :: tr w. Proof. reflexivity. Qed.

(* ================================================================ HashSet::pvMergeTo *)

Definition hinv (init : list item) (st : mstate) : Prop :=
  Permutation (src_items st ++ s_dst st) init /\ (s_idx st <= length (s_cur st))%nat.

Ltac hstep_cases c multi st :=
  unfold hstep; destruct st as [dn b idx todo dst w stat]; simpl;
  destruct stat; simpl; try tauto;
  destruct idx as [|i]; simpl;
  [ destruct todo as [|b2 t]; simpl
  | destruct (step_func w) as [w1|] eqn:Ef; simpl;
    [ destruct (negb multi && has_key dst (key (nth i b 0))) eqn:Eh; simpl;
      [ | destruct (step_alloc w1) as [w2|] eqn:Ea; simpl;
          [ destruct (extract_reloc c w2 (nth i b 0) (repl_of b i)) as [w3 [e|]] eqn:Ee; simpl | ] ]
    | ] ].

Lemma hstep_inv c multi init st : hinv init st -> hinv init (hstep c multi st).
Proof.
  unfold hinv, src_items. hstep_cases c multi st; intros [P L]; simpl in *; try (split; [exact P|lia]); try tauto.
  - split; [|lia]. rewrite concat_app. simpl. rewrite app_nil_r. rewrite <- !app_assoc in *. exact P.
  - apply extract_reloc_value in Ee. subst e.
    assert (Hi : (i < length b)%nat) by lia.
    split.
    + etransitivity; [|exact P]. apply perm_transfer. apply bucket_remove_perm. exact Hi.
    + pose proof (bucket_remove_length b i Hi). lia.
Qed.

Lemma hrun_inv c multi init n st : hinv init st -> hinv init (hrun c multi n st).
Proof. intros H. induction n; simpl; [exact H|]. apply hstep_inv. exact IHn. Qed.

Lemma hinit_inv src dst w : hinv (concat src ++ dst) (hinit src dst w).
Proof. split; simpl; [|lia]. unfold src_items. simpl. reflexivity. Qed.

(* merge_conservation, hash source: after ANY number of loop iterations (hence also in the state left behind
   by a failure part-way, and in the final state) source (+) destination is the initial multiset. *)
Theorem hmerge_conservation c multi src dst w n :
  Permutation (src_items (hrun c multi n (hinit src dst w)) ++ s_dst (hrun c multi n (hinit src dst w)))
              (concat src ++ dst).
Proof. exact (proj1 (hrun_inv c multi _ n _ (hinit_inv src dst w))). Qed.

(* unique-key destinations never contain duplicate keys *)
Lemma hstep_nodup c multi st : multi = false ->
  NoDup (map key (s_dst st)) -> NoDup (map key (s_dst (hstep c multi st))).
Proof.
  intros Hm. hstep_cases c multi st; intros N; subst multi; simpl in *; try exact N.
  apply extract_reloc_value in Ee. subst e. apply nodup_keys_snoc; assumption.
Qed.

Theorem hmerge_unique_nodup c src dst w n :
  NoDup (map key dst) -> NoDup (map key (s_dst (hrun c false n (hinit src dst w)))).
Proof. intros N. induction n; simpl; [exact N|]. apply hstep_nodup; [reflexivity|exact IHn]. Qed.

(* the trace of a movable (nothrow-relocatable) category contains no copy *)
Lemma hstep_no_copy c multi st : nothrow_reloc c = true ->
  no_copy (tr (s_w st)) -> no_copy (tr (s_w (hstep c multi st))).
Proof.
  intros Hc. hstep_cases c multi st; intros N; simpl in *; try exact N;
  try (apply step_func_tr in Ef); try (apply step_alloc_tr in Ea);
  try (rewrite Ef; exact N); try (apply no_copy_cons; [reflexivity|]; try rewrite Ea; try rewrite Ef; exact N).
  - eapply extract_reloc_no_copy; [exact Hc| |exact Ee]. rewrite Ea, Ef. exact N.
  - eapply extract_reloc_no_copy; [exact Hc| |exact Ee]. rewrite Ea, Ef. exact N.
Qed.

Theorem hmerge_no_copy c multi src dst w n : nothrow_reloc c = true -> no_copy (tr w) ->
  no_copy (tr (s_w (hrun c multi n (hinit src dst w)))).
Proof. intros Hc N. induction n; simpl; [exact N|]. apply hstep_no_copy; assumption. Qed.

(* an element refused by a unique-key destination stays in the source *)
Definition hkeep (dst0 : list item) (st : mstate) : Prop :=
  (forall k, In k (map key dst0) -> In k (map key (s_dst st))).

Lemma hstep_keys_grow c multi st k : In k (map key (s_dst st)) -> In k (map key (s_dst (hstep c multi st))).
Proof.
  hstep_cases c multi st; intros I; simpl in *; try exact I.
  rewrite map_app. apply in_or_app. left. exact I.
Qed.

Lemma hstep_stays c multi st y : multi = false -> In y (src_items st) -> has_key (s_dst st) (key y) = true ->
  (s_idx st <= length (s_cur st))%nat -> In y (src_items (hstep c multi st)).
Proof.
  intros Hm. unfold src_items. hstep_cases c multi st; intros I K L; subst multi; simpl in *; try exact I.
  - rewrite concat_app. simpl. rewrite app_nil_r. rewrite <- !app_assoc. exact I.
  - apply extract_reloc_value in Ee. subst e.
    assert (Hne : y <> nth i b 0) by (intros ->; congruence).
    assert (Hi : (i < length b)%nat) by lia.
    apply in_app_or in I. apply in_or_app. destruct I as [I|I]; [left; exact I|right].
    apply in_app_or in I. apply in_or_app. destruct I as [I|I]; [left|right; exact I].
    apply (Permutation_in _ (Permutation_sym (bucket_remove_perm b i Hi))) in I.
    destruct I as [I|I]; [congruence|exact I].
Qed.

Theorem hmerge_refused_stays c src dst w n y :
  In y (concat src) -> has_key dst (key y) = true ->
  In y (src_items (hrun c false n (hinit src dst w))).
Proof.
  intros I K.
  assert (G : In y (src_items (hrun c false n (hinit src dst w))) /\
              has_key (s_dst (hrun c false n (hinit src dst w))) (key y) = true).
  { induction n; simpl.
    - split; [|exact K]. unfold src_items; simpl. exact I.
    - destruct IHn as [I1 K1]. split.
      + apply hstep_stays; [reflexivity|exact I1|exact K1|].
        exact (proj2 (hrun_inv c false _ n _ (hinit_inv src dst w))).
      + apply in_has_key. apply hstep_keys_grow. apply has_key_true_in. exact K1. }
  exact (proj1 G).
Qed.
