(* Property C18 -- theorems only.  Each is closed by `exact <lemma>` and followed by Print Assumptions.
   Gen_Vertices.v / Gen_Ceil.v (GetVertices, Ceil) are regenerated from /repo's headers on every run; Model.v is the
   executable model of DataColumnList that calls them and is run against the real class on every run. *)
From Coq Require Import ZArith List.
From MomoCommon Require Import GenPrelude.
From C18 Require Gen_Vertices Gen_Ceil Model Layout.
Import ListNotations.
Local Open Scope Z_scope.

(* pvAddEdges: for EVERY list of columns added in one Add (sizes up to 4 GiB, alignment a power of two <= 16 that
   divides the size -- what ObjectAlignmenter::Check enforces), starting at any current total size and alignment:
   the new slots form a chain (in order, each offset a multiple of its alignment, each starting at or after the
   end of the previous one and at or after the old total size), the chain ends at the new total size, total size
   and alignment only grow, every column's alignment divides the list alignment, no 64-bit wrap-around happens. *)
Theorem C18_layout_ok :
  forall L cp g cs off al g' off' al' rs,
    Forall Layout.col_ok cs -> 0 <= off -> off + Z.of_nat (length cs) * (Layout.maxItemSize + 16) <= 2 ^ 63 ->
    Layout.pow2_le16 al ->
    Model.new_edges L cp g off al cs = (g', off', al', rs) ->
    Layout.chain off rs off' /\ off' <= off + Z.of_nat (length cs) * (Layout.maxItemSize + 16) /\
    al <= al' /\ Layout.pow2_le16 al' /\ Forall Layout.rec_ok rs /\
    Forall (fun r => (Model.r_align r | al')) rs /\
    map Model.r_code rs = map Model.c_code cs /\ map Model.r_size rs = map Model.c_size cs /\
    map Model.r_align rs = map Model.c_align cs /\ g' = Model.old_edges L cp g rs.
Proof. exact Layout.new_edges_ok. Qed.
Print Assumptions C18_layout_ok.

(* what a chain means: every slot lies inside [lo, hi), is aligned and non-empty ... *)
Theorem C18_chain_slot_inside :
  forall lo rs hi r, Layout.chain lo rs hi -> In r rs ->
    lo <= Model.r_off r /\ Model.r_off r + Model.r_size r <= hi /\
    Model.r_off r mod Model.r_align r = 0 /\ 0 < Model.r_size r.
Proof. exact Layout.chain_in. Qed.
Print Assumptions C18_chain_slot_inside.

(* ... and two different columns never overlap *)
Theorem C18_chain_slots_disjoint :
  forall lo rs hi i j ri rj, Layout.chain lo rs hi -> (i < j)%nat ->
    nth_error rs i = Some ri -> nth_error rs j = Some rj ->
    Model.r_off ri + Model.r_size ri <= Model.r_off rj.
Proof. exact Layout.chain_disjoint. Qed.
Print Assumptions C18_chain_slots_disjoint.
