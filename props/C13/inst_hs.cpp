// instantiation TU for cxx2coq (C13): HashSet::pvAddNogrow<false> -- the probing loop that reports "Hash table is full" --
// for an open-addressing HashSet (slow-hash key, HashBucketOpen2N2<3>)
#include "momo/HashSet.h"
namespace c13hs {
struct H { size_t operator()(const uint64_t& k) const { return size_t(k); } };
typedef momo::HashSet<uint64_t, momo::HashTraitsStd<uint64_t, H, std::equal_to<uint64_t>, momo::HashBucketOpen2N2<3>>> Set;
inline bool use(Set& s) { return !!s.Find(uint64_t(2)); }
inline void use2(Set& s) { s.Insert(uint64_t(3)); s.Reserve(100); }
}
