(* COPIED from props/C12/coq (only change: the library name); C11 uses these LimP4 bucket facts for GenFullP4.v *)
(* C12: the hash bits a bucket keeps next to an element, and what the new placement reads. *)
From Coq Require Import ZArith Bool Lia.
From MomoCommon Require Import GenPrelude.
From C11 Require Import Bits Gen_Base.
Local Open Scope Z_scope.

(* (logBucketCount + 6) / 8 : the "budget class" of a table size; stored bits are reused only inside one class *)
Definition qof (L : Z) : Z := (L + 6) / 8.

(* the bits of h that the bucket stores for class q: bits [0, 8q] (bucket index + hash-probe byte) and the 7 short-hash bits [57,63] *)
Definition known (q h : Z) : Z := Z.lor (Z.land h (Z.ones (8 * q + 1))) (Z.shiftl (Z.shiftr h 57) 57).

Lemma tb_known q h n : 0 <= q -> 0 <= n ->
  Z.testbit (known q h) n = ((n <? 8 * q + 1) || (57 <=? n)) && Z.testbit h n.
Proof.
  intros Hq Hn. unfold known. rewrite Z.lor_spec, Z.land_spec, tb_ones by lia.
  destruct (Z.leb_spec 57 n).
  - rewrite Z.shiftl_spec, Z.shiftr_spec by lia. replace (n - 57 + 57) with n by lia.
    destruct (n <? 8 * q + 1), (Z.testbit h n); reflexivity.
  - rewrite Z.shiftl_spec by lia. rewrite (Z.testbit_neg_r _ (n - 57)) by lia.
    destruct (n <? 8 * q + 1), (Z.testbit h n); reflexivity.
Qed.

Lemma known_range q h : 0 <= q -> 0 <= h < 2 ^ 64 -> 0 <= known q h < 2 ^ 64.
Proof.
  intros Hq Hh. assert (0 <= known q h).
  { unfold known. apply Z.lor_nonneg. split; [apply Z.land_nonneg; left; lia|]. apply Z.shiftl_nonneg. apply Z.shiftr_nonneg. lia. }
  split; [assumption|].
  destruct (Z.eq_dec (known q h) 0) as [->|Hz]; [reflexivity|].
  apply Z.log2_lt_pow2; [lia|].
  destruct (Z.lt_ge_cases (Z.log2 (known q h)) 64) as [|Hge]; [assumption|exfalso].
  assert (Hb : Z.testbit (known q h) (Z.log2 (known q h)) = true) by (apply Z.bit_log2; lia).
  rewrite tb_known in Hb by lia.
  set (k := Z.log2 (known q h)) in *.
  assert (Z.testbit h k = false).
  { rewrite <- (Z.mod_small h (2 ^ 64)) by lia. apply Z.mod_pow2_bits_high. lia. }
  rewrite H0 in Hb. rewrite andb_false_r in Hb. discriminate.
Qed.

Lemma known_idem q h : 0 <= q -> known q (known q h) = known q h.
Proof.
  intros Hq. apply Z.bits_inj'. intros n Hn. rewrite !tb_known by lia.
  destruct ((n <? 8 * q + 1) || (57 <=? n)); simpl; reflexivity.
Qed.

(* equality of two 64-bit-range values from agreement of the low 64 bits *)
Lemma bits_eq_64 a b : 0 <= a < 2 ^ 64 -> 0 <= b < 2 ^ 64 ->
  (forall n, 0 <= n < 64 -> Z.testbit a n = Z.testbit b n) -> a = b.
Proof.
  intros Ha Hb H. apply Z.bits_inj'. intros n Hn.
  destruct (Z.lt_ge_cases n 64); [apply H; lia|].
  rewrite <- (Z.mod_small a (2 ^ 64)), <- (Z.mod_small b (2 ^ 64)) by lia.
  rewrite !Z.mod_pow2_bits_high by lia. reflexivity.
Qed.

(* the start bucket of a table of 2^L buckets reads only bits [0,L) *)
Lemma start_bits h L : 0 <= L <= 63 -> Gen_Base.GetStartBucketIndex h (2 ^ L) = Z.land h (Z.ones L).
Proof.
  intros HL. unfold Gen_Base.GetStartBucketIndex.
  assert (0 < 2 ^ L) by (apply pow2_pos; lia).
  assert (2 ^ L <= 2 ^ 63) by (apply pow2_le_mono; lia).
  rewrite wrapU_small by (change (2 ^ 64) with (2 * 2 ^ 63); lia).
  rewrite pow2m1_ones. reflexivity.
Qed.

Lemma start_known q h L : 0 <= q -> 0 <= L <= 63 -> L <= 8 * q + 1 ->
  Gen_Base.GetStartBucketIndex (known q h) (2 ^ L) = Gen_Base.GetStartBucketIndex h (2 ^ L).
Proof.
  intros Hq HL Hle. rewrite !start_bits by lia. apply Z.bits_inj'. intros n Hn.
  rewrite !Z.land_spec, tb_known, tb_ones by lia.
  destruct (Z.ltb_spec n L); [|rewrite !andb_false_r; reflexivity].
  destruct (Z.ltb_spec n (8 * q + 1)); [|lia]. simpl. reflexivity.
Qed.

Lemma start_mod h L : 0 <= L <= 63 -> Gen_Base.GetStartBucketIndex h (2 ^ L) = h mod 2 ^ L.
Proof. intros. rewrite start_bits by lia. apply Z.land_ones. lia. Qed.
