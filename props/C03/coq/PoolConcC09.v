(* COPIED VERBATIM from props/C09/coq/PoolConc.v (C09's concrete, code-level model of momo::MemPool for blockCount >= 2, validated there against the real pool's private state after every operation; its invariants - no buffer returned twice, chains, doubly linked list - are C09's theorems). C03 uses it for a BLOCK-LEVEL micro tie of buffer allocations / returns with the free-block cache and MergeFrom, and relates it to the abstract pool model of Effects6.v in the tie output (source emptied by MergeFrom). *)
(* C09: concrete code-level model of momo::MemPool for blockCount >= 2 (MemPool.h 285-435, 459-468, 519-570, 682-706).
   * the per-buffer free chain is kept exactly as the code keeps it: BufferBytes {firstFreeBlockIndex, freeBlockCount}
     (maps fb / fc) and the next-free index stored in the first byte of every free block (map nx: buffer -> index -> index);
     indexes are RELATIVE to the buffer's first block index (real int8_t index = pvGetFirstBlockIndex(buffer) + relative
     index; C09_newbuffer_layout shows that sum always fits int8_t and never equals the -128 terminator);
   * the free-block cache is the list of cached blocks, head (mCacheHead) first; mCachedCount is its length;
   * the buffer list is kept at list level: lfull = the buffers left of mFreeBufferHead (leftmost first), lfree =
     mFreeBufferHead and the buffers to its right.  The pointer surgery that realises each list step is PoolLinks.v, proved
     to implement exactly these list steps for all heaps (C09_*_dll_inv theorems);
   * `live` is ghost state (the pool does not know it): the blocks handed out and not yet returned.
   Control flow mirrors the source statement by statement (line numbers in comments).  Executable; extracted and compared
   with the real pool's private state after EVERY operation (`tr` cases).  No function of Coq's List module is used
   (an extracted List.ml would shadow OCaml's List in lib/zutil.ml). *)
From Coq Require Import ZArith Bool List.
From MomoCommon Require Import GenPrelude.
Import ListNotations.
Local Open Scope Z_scope.

Definition blk := (Z * Z)%type.           (* (buffer id, relative block index) *)
Definition blk_eqb (a b : blk) : bool := (fst a =? fst b) && (snd a =? snd b).

Definition hd0 (l : list Z) : Z := match l with [] => 0 | a :: _ => a end.
Definition tl0 {A} (l : list A) : list A := match l with [] => [] | _ :: t => t end.
Fixpoint rev0 {A} (l acc : list A) : list A := match l with [] => acc | a :: t => rev0 t (a :: acc) end.
Fixpoint removez (x : Z) (l : list Z) : list Z :=
  match l with [] => [] | a :: t => if a =? x then removez x t else a :: removez x t end.
Fixpoint removeb (x : blk) (l : list blk) : list blk :=
  match l with [] => [] | a :: t => if blk_eqb a x then removeb x t else a :: removeb x t end.
Fixpoint memb (x : blk) (l : list blk) : bool := match l with [] => false | a :: t => blk_eqb a x || memb x t end.
Fixpoint memz (x : Z) (l : list Z) : bool := match l with [] => false | a :: t => (a =? x) || memz x t end.
Fixpoint foldl {A B} (f : A -> B -> A) (l : list B) (a : A) : A := match l with [] => a | b :: t => foldl f t (f a b) end.
Fixpoint lenz {A} (l : list A) : Z := match l with [] => 0 | _ :: t => 1 + lenz t end.

Record cpool := mkCP { lfull : list Z; lfree : list Z; cache : list blk; acount : Z; live : list blk }.
Record cworld := mkCW { fb : Z -> Z; fc : Z -> Z; nx : Z -> Z -> Z; fresh : Z; returned : list Z; cp0 : cpool; cp1 : cpool }.

Definition empty_pool : cpool := mkCP [] [] [] 0 [].
Definition empty_world : cworld := mkCW (fun _ => 0) (fun _ => 0) (fun _ _ => 0) 1 [] empty_pool empty_pool.

Definition getp (w : cworld) (p : bool) : cpool := if p then cp1 w else cp0 w.
Definition setp (w : cworld) (p : bool) (x : cpool) : cworld :=
  if p then mkCW (fb w) (fc w) (nx w) (fresh w) (returned w) (cp0 w) x
  else mkCW (fb w) (fc w) (nx w) (fresh w) (returned w) x (cp1 w).
(* pvSetBufferBytes *)
Definition set_bytes (w : cworld) (b f c : Z) : cworld :=
  mkCW (upd (fb w) b f) (upd (fc w) b c) (nx w) (fresh w) (returned w) (cp0 w) (cp1 w).
(* pvSetNextFreeBlockIndex *)
Definition set_nx (w : cworld) (b j v : Z) : cworld :=
  mkCW (fb w) (fc w) (fun b' j' => if (b' =? b) && (j' =? j) then v else nx w b' j') (fresh w) (returned w) (cp0 w) (cp1 w).
Definition add_returned (w : cworld) (b : Z) : cworld :=
  mkCW (fb w) (fc w) (nx w) (fresh w) (b :: returned w) (cp0 w) (cp1 w).

Section Params.
Variable C : Z.        (* Params::blockCount, >= 2 *)
Variable CF : Z.       (* Params::cachedFreeBlockCount *)
Variable uc : bool.    (* pvUseCache() *)

Definition NIL : Z := -1.   (* stands for int8_t{-128} (line 636); never followed: the code counts freeBlockCount steps *)

(* pvNewBuffer 603-638, chain part: all C blocks free, chained in index order; the new buffer gets the next id *)
Definition new_buffer (w : cworld) : cworld * Z :=
  let nb := fresh w in
  (mkCW (upd (fb w) nb 0) (upd (fc w) nb C)
        (fun b j => if b =? nb then (if j =? C - 1 then NIL else j + 1) else nx w b j)
        (nb + 1) (returned w) (cp0 w) (cp1 w), nb).

(* small steps on one pool record *)
Definition set_lists (w : cworld) (p : bool) (lf lr : list Z) : cworld :=
  let x := getp w p in setp w p (mkCP lf lr (cache x) (acount x) (live x)).
Definition set_cache (w : cworld) (p : bool) (c : list blk) : cworld :=
  let x := getp w p in setp w p (mkCP (lfull x) (lfree x) c (acount x) (live x)).
Definition add_live (w : cworld) (p : bool) (bk : blk) : cworld :=           (* ++mData.allocCount + ghost *)
  let x := getp w p in setp w p (mkCP (lfull x) (lfree x) (cache x) (acount x + 1) (bk :: live x)).
Definition remove_live (w : cworld) (p : bool) (bk : blk) : cworld :=        (* --mData.allocCount + ghost *)
  let x := getp w p in setp w p (mkCP (lfull x) (lfree x) (cache x) (acount x - 1) (removeb bk (live x))).

(* pvNewBuffer() linked in as the LAST buffer of the list: lines 521-522 (empty list) and 527-529 (after the head, which has
   no successor there) *)
Definition attach_new (w : cworld) (p : bool) : cworld :=
  let '(w', nb) := new_buffer w in
  set_lists w' p (lfull (getp w' p)) (lfree (getp w' p) ++ [nb]).

(* pvNewBlock 531-537: take the first free block of the head; a head without free blocks leaves the free part *)
Definition take (w : cworld) (p : bool) : cworld * blk :=
  let x := getp w p in
  let head := hd0 (lfree x) in
  let idx := fb w head in                                                             (* 531 *)
  let bC := fc w head - 1 in                                                          (* 533 *)
  let w := set_bytes w head (nx w head idx) bC in                                     (* 532, 534 *)
  let w := if bC =? 0 then set_lists w p (lfull x ++ [head]) (tl0 (lfree x)) else w in   (* 535-536: mFreeBufferHead = nextBuffer *)
  (w, (head, idx)).

(* pvNewBlock 519-538 *)
Definition pvNewBlock (w : cworld) (p : bool) : cworld * blk :=
  let w := match lfree (getp w p) with [] => attach_new w p | _ => w end in           (* 521-522 *)
  let x := getp w p in
  let head := hd0 (lfree x) in
  let nextBuffer := hd0 (tl0 (lfree x)) in                                            (* 523-524 *)
  let w := if (fc w head =? 1) && (nextBuffer =? 0) then attach_new w p else w in     (* 525-530 *)
  take w p.

(* pvDeleteBlock 549-553: push the block on its buffer's chain *)
Definition push (w : cworld) (bk : blk) : cworld :=
  let b := fst bk in let j := snd bk in
  set_bytes (set_nx w b j (fb w b)) b j (fc w b + 1).
(* 555-556 pvMoveBufferToHead: the (so far full) buffer becomes the head, directly in front of the old head *)
Definition move_head (w : cworld) (p : bool) (b : Z) : cworld :=
  let x := getp w p in set_lists w p (removez b (lfull x)) (b :: lfree x).
(* 565+568: the head is completely free and has a successor: the successor becomes the head, the buffer is deleted *)
Definition drop_head (w : cworld) (p : bool) (b : Z) : cworld :=
  let x := getp w p in add_returned (set_bytes (set_lists w p (lfull x) (tl0 (lfree x))) b 0 0) b.
(* 568: a completely free buffer other than the head is deleted *)
Definition drop_mid (w : cworld) (p : bool) (b : Z) : cworld :=
  let x := getp w p in add_returned (set_bytes (set_lists w p (removez b (lfull x)) (removez b (lfree x))) b 0 0) b.

(* pvDeleteBlock(block, buffer, blockIndex) 547-570 (buffer and index come from pvGetBlockIndex, C09_..._roundtrip) *)
Definition pvDeleteBlock (w : cworld) (p : bool) (bk : blk) : cworld :=
  let b := fst bk in
  let w := push w bk in                                                               (* 549-553 *)
  let w := if fc w b =? 1 then move_head w p b else w in                              (* 555-556 *)
  if fc w b =? C then                                                                 (* 557 *)
    let x := getp w p in
    if b =? hd0 (lfree x) then                                                        (* 560 *)
      if hd0 (tl0 (lfree x)) =? 0 then w                                              (* 562-563: the only buffer with free blocks is kept *)
      else drop_head w p b                                                            (* 565, 568 *)
    else drop_mid w p b                                                               (* 568 *)
  else w.

(* pvFlushDeallocate 459-468: mCacheHead advances block by block (mCachedCount is reset at the end) *)
Fixpoint flush_loop (l : list blk) (w : cworld) (p : bool) : cworld :=
  match l with
  | [] => w
  | bk :: rest => flush_loop rest (pvDeleteBlock (set_cache w p rest) p bk) p         (* 463-465 *)
  end.
Definition flush (w : cworld) (p : bool) : cworld := flush_loop (cache (getp w p)) w p.

(* Allocate 285-306 *)
Definition Allocate (w : cworld) (p : bool) : cworld * blk :=
  let x := getp w p in
  let '(w, bk) :=
    match cache x with
    | bk :: rest => if uc then (set_cache w p rest, bk)                               (* 289-294 *)
                    else pvNewBlock w p
    | [] => pvNewBlock w p                                                            (* 297-298 *)
    end in
  (add_live w p bk, bk).                                                              (* 304 *)

(* Deallocate 308-325 (the counter / ghost update of line 324 is done right after the flush; it is independent of the rest) *)
Definition Deallocate (w : cworld) (p : bool) (bk : blk) : cworld :=
  if uc then
    let w := if CF <=? lenz (cache (getp w p)) then flush w p else w in               (* 314-315 *)
    let w := remove_live w p bk in                                                    (* 324 *)
    set_cache w p (bk :: cache (getp w p))                                            (* 316-318 *)
  else pvDeleteBlock (remove_live w p bk) p bk.                                       (* 322, 324 *)

(* pvDeleteBuffer for every buffer of a list *)
Definition return_all (w : cworld) (l : list Z) : cworld := foldl (fun w b => add_returned (set_bytes w b 0 0) b) l w.

(* DeallocateAll 337-358 *)
Definition DeallocateAll (w : cworld) (p : bool) : cworld :=
  let x := getp w p in
  match lfree x with
  | [] => w                                                                                             (* 340-341 *)
  | _ => let w := return_all w (rev0 (lfull x) []) in                                                   (* 342-348 *)
         let w := return_all w (lfree x) in                                                             (* 349-354 *)
         setp w p (mkCP [] [] [] 0 [])                                                                  (* 355-357 *)
  end.

(* the free blocks of a buffer, in chain order (what pvDeleteBlocks' first loop 689-694 visits) *)
Fixpoint chain_walk (n : nat) (w : cworld) (b i : Z) : list Z :=
  match n with O => [] | S n' => i :: chain_walk n' w b (nx w b i) end.
Definition chain_of (w : cworld) (b : Z) : list Z := chain_walk (Z.to_nat (fc w b)) w b (fb w b).

(* pvDeleteBlocks 682-706 *)
Fixpoint upto (n : nat) (i : Z) : list Z := match n with O => [] | S n' => i :: upto n' (i + 1) end.
Definition pvDeleteBlocks (f : blk -> bool) (w : cworld) (p : bool) (b : Z) : cworld :=
  let freeBits := chain_of w b in                                                                       (* 686-694 *)
  foldl (fun w i =>
           if memz i freeBits then w                                                                    (* 697-698 *)
           else if f (b, i) then                                                                        (* 701 *)
             pvDeleteBlock (remove_live w p (b, i)) p (b, i)                                            (* 703-704 *)
           else w)
        (upto (Z.to_nat C) 0) w.

(* DeallocateIf 360-384 *)
Definition DeallocateIf (w : cworld) (p : bool) (f : blk -> bool) : cworld :=
  let w := if uc then flush w p else w in                                                               (* 364-365 *)
  if acount (getp w p) =? 0 then w                                                                      (* 366-367 *)
  else
    let w := foldl (fun w b => pvDeleteBlocks f w p b) (lfree (getp w p)) w in                          (* 368-376: head, then every next *)
    foldl (fun w b => pvDeleteBlocks f w p b) (rev0 (lfull (getp w p)) []) w.                           (* 377-383: prev of the head, leftwards *)

(* MergeFrom 386-435: pool d .MergeFrom(pool s), s = negb d *)
Definition MergeFrom (w : cworld) (d : bool) : cworld :=
  let s := negb d in
  let w := if uc then flush w s else w in                                                               (* 394-395 *)
  let x := getp w d in let y := getp w s in
  let x := mkCP (lfull x) (lfree x) (cache x) (acount x + acount y) (live x ++ live y) in              (* 396 *)
  let y0 := mkCP (lfull y) (lfree y) (cache y) 0 [] in                                                  (* 397 *)
  match lfree y with
  | [] => setp (setp w d x) s y0                                                                        (* 398-399 *)
  | _ =>
    match lfree x with
    | [] => setp (setp w d (mkCP (lfull y) (lfree y) (cache x) (acount x) (live x))) s                  (* 400-405 *)
                 (mkCP [] [] (cache y) 0 [])
    | _ => setp (setp w d (mkCP (lfull x ++ rev0 (lfull y) []) (lfree x ++ lfree y) (cache x) (acount x) (live x))) s
                (mkCP [] [] (cache y) 0 [])                                                             (* 406-434, C09_mergefrom_dll_inv *)
    end
  end.

(* Swap 244-251: the two pools exchange parameters (equal here), counter, buffer list head, cache head and cached count *)
Definition Swap (w : cworld) : cworld := mkCW (fb w) (fc w) (nx w) (fresh w) (returned w) (cp1 w) (cp0 w).

(* move assignment 236-240: pool d = std::move(pool s), s = negb d: MemPool(std::move(s)).Swap(d); the temporary, which now holds
   d's old state, is destroyed: its destructor (227-234) runs DeallocateAll (blockCount > 1).  Legal only when d has no
   allocated block (MOMO_EXTRA_CHECK(allocCount == 0) in the destructor): otherwise the model ignores the operation.
   After DeallocateAll d's record is the empty record, so exchanging the records leaves s empty, as the move constructor does. *)
Definition MoveAssign (w : cworld) (d : bool) : cworld :=
  if acount (getp w d) =? 0 then Swap (DeallocateAll w d) else w.
End Params.
