"""C15: histories for harness3 / the extracted models Arr.v, MultiMap.v, Table.v (T-cor)."""


def gen_arr(r, n):
    cases = []
    for kind in ('arh', 'aih', 'sah'):
        for _ in range(n):
            ops = []
            for v in range(r.choice([0, 1, 3, 4, 5, 9, 40])):
                ops.append('addback,%d' % (v * 3 + 1))
            for _ in range(r.range(6, 18)):
                t = r.below(20); s = r.below(4); s2 = r.below(4)
                if t == 0: ops.append('begin,%d' % s)
                elif t == 1: ops.append('end,%d' % s)
                elif t == 2: ops.append('def,%d' % s)
                elif t == 3: ops.append('foreign,%d' % (4 + r.below(2)))          # foreign iterators live in slots 4,5 only
                elif t in (4, 5): ops.append('adv,%d,%d' % (s, r.choice([-50, -2, -1, 0, 1, 1, 2, 3, 5, 41, 1000])))
                elif t in (6, 7, 8): ops.append('deref,%d' % s)
                elif t == 9: ops.append('%s,%d,%d' % (r.choice(['diff', 'less']), s, r.choice([s2, 4, 5])))
                elif t == 10: ops.append('idx,%d' % r.choice([0, 1, 2, 3, 4, 8, 9, 39, 40, 41, 100000]))
                elif t == 11: ops.append('back')
                elif t == 12: ops.append('addback,%d' % r.below(100))
                elif t == 13: ops.append('rmback,%d' % r.choice([0, 1, 1, 2, 5, 50]))
                elif t == 14 and r.chance(1, 3): ops.append('insn,%d,%d,%d' % (r.choice([0, 1, 2, 4, 5, 9, 10, 41]), r.choice([0, 1, 2, 3, 7] + ([-1, -5] if kind != 'sah' else [])), r.below(100)))
                elif t == 14: ops.append('ins,%d,%d' % (r.choice([0, 1, 2, 4, 5, 9, 10, 41, 77]), r.below(100)))
                elif t == 15: ops.append('rm,%d,%d' % (r.choice([0, 1, 2, 4, 8, 9, 40]), r.choice([0, 1, 2, 5])))
                elif t == 16: ops.append('clear')
                elif t == 17: ops.append('setcount,%d' % r.choice([0, 1, 2, 4, 5, 12]))
                else: ops.append('deref,%d' % s)
            for s in range(4):
                ops.append('deref,%d' % s)
            cases.append(kind + ' ' + ' '.join(ops))
    return cases


def gen_mm(r, n):
    """K slots 0..3 hold key iterators, V slots 10..13 value iterators (typed on the C++ side)"""
    cases = []
    for _ in range(n):
        ops = []
        for k in range(1, r.choice([1, 3, 4, 40])):
            for j in range(1 + k % 3):
                ops.append('add,%d,%d,13' % (k, k * 10 + j))
        for _ in range(r.range(6, 16)):
            t = r.below(28); k = r.range(1, 5); ks = r.below(4); vs = 10 + r.below(4)
            if t in (0, 1): ops.append('find,%d,%d' % (k, ks))
            elif t == 2: ops.append('end,%d' % vs)
            elif t == 3: ops.append('fk,%d' % ks)
            elif t == 4: ops.append('fv,%d' % vs)
            elif t in (5, 6): ops.append('makeit,%d,%d,%d' % (ks, r.choice([0, 0, 1, 2, 3, 9]), vs))
            elif t == 7: ops.append('kderef,%d' % ks)
            elif t == 8: ops.append('kinc,%d' % ks)
            elif t in (9, 10): ops.append('vderef,%d' % vs)
            elif t == 11: ops.append('vinc,%d' % vs)
            elif t in (12, 13): ops.append('add,%d,%d,%d' % (r.choice([k, 50 + r.below(3)]), r.below(100), vs))
            elif t == 14: ops.append('addat,%d,%d,%d' % (ks, r.below(100), vs))
            elif t == 15: ops.append('inskey,%d,%d' % (r.choice([k, 60 + r.below(3)]), ks))
            elif t in (16, 17): ops.append('rmit,%d' % vs)
            elif t == 18: ops.append('rmki,%d,%d' % (ks, r.choice([0, 1, 5])))
            elif t == 19: ops.append('rmvals,%d' % ks)
            elif t == 20: ops.append('rmkeyit,%d' % ks)
            elif t == 21: ops.append('rmkey,%d' % k)
            elif t == 22: ops.append('rmif,%d' % r.choice([2, 3, 7, 1000003]))
            elif t == 23: ops.append('clear')
            elif t == 24: ops += ['find,%d,%d' % (k, ks), 'reset,%d,%d' % (ks, k)]      # ResetKey only with the same key (else: extra-check assertion)
            elif t == 25: ops.append('chk,%d,%d' % (vs, r.below(2)))
            elif t == 26: ops.append('count')
            else: ops += ['inskey,%d,%d' % (100 + j, 3) for j in range(40)]       # growth of the key table
        for s in range(4):
            ops += ['kderef,%d' % s, 'vderef,%d' % (10 + s)]
        cases.append('mmh ' + ' '.join(ops))
    return cases


def gen_dt(r, n):
    """slots 0..3 row references, 10..11 selections.  All values are distinct (sorting is not stable)"""
    cases = []
    for _ in range(n):
        ops = []
        uniq = [1000]
        def fresh():
            uniq[0] += r.range(1, 9); return uniq[0]
        for v in range(r.choice([0, 1, 3, 6, 20])):
            ops.append('addrow,%d' % (v * 7 + 1))
        ops += ['select,10', 'select,11']
        for _ in range(r.range(6, 16)):
            t = r.below(32); s = r.below(4); ss = 10 + r.below(2)
            if t == 22: ops.append('selectif,%d,%d' % (r.choice([2, 3, 7]), ss))
            elif t == 23: ops.append('selofsel,%d,%d,%d' % (ss, r.choice([2, 3, 5]), 10 + r.below(2)))
            elif t in (24, 25): ops.append('selsort,%d' % ss)
            elif t in (26, 27): ops.append('selsum,%d' % ss)
            elif t == 28: ops.append('selrev,%d' % ss)
            elif t == 29: ops.append('selrm,%d,%d,%d' % (ss, r.choice([0, 1, 2, 7]), r.choice([0, 1, 2, 9])))
            elif t == 30: ops.append('selcount,%d' % ss)
            elif t == 31: ops.append('rmsel,%d' % ss)
            elif t in (0, 1, 2): ops.append('ref,%d,%d' % (r.choice([0, 1, 2, 5, 19, 20, 21]), s))
            elif t == 3: ops.append('select,%d' % ss)
            elif t == 4: ops.append('foreign,%d' % s)
            elif t in (5, 6): ops.append('selref,%d,%d,%d' % (ss, r.choice([0, 1, 2, 6, 30]), s))
            elif t in (7, 8, 9): ops.append('read,%d' % s)
            elif t == 10: ops.append('number,%d' % s)
            elif t == 11: ops.append('addrow,%d' % fresh())
            elif t == 12: ops.append('insert,%d,%d' % (r.choice([0, 1, 3, 6, 7, 50]), fresh()))
            elif t in (13, 14): ops.append('rmref,%d,%d' % (s, r.below(2)))
            elif t == 15: ops.append('rmnum,%d' % r.choice([0, 1, 2, 6, 40]))
            elif t == 16: ops.append('updref,%d,%d' % (s, fresh()))
            elif t == 17: ops.append('updnum,%d,%d' % (r.choice([0, 1, 2, 6, 40]), fresh()))
            elif t == 18: ops.append('rmif,%d' % r.choice([2, 3, 1000003]))
            elif t == 19: ops.append('clear')
            else: ops.append('count')
        for s in range(4):
            ops.append('read,%d' % s)
        cases.append('dth ' + ' '.join(ops))
    return cases


def gen_boundary():
    """every index-taking entry point at count-1, count, count+1 and SIZE_MAX (-1); one call per case (each case is a forked child)"""
    cases = []
    def bnd(c): return [x for x in (c - 1, c, c + 1, -1) if x >= -1 and not (x == -1 and c == 0 and False)]
    # HashMultiMap: key 5 with c values (c = 0: InsertKey only), other keys around it
    for c in (0, 1, 2, 3, 7, 8, 9):
        setup = ['add,1,10,13', 'add,9,90,13'] + (['inskey,5,3'] if c == 0 else ['add,5,%d,13' % (50 + j) for j in range(c)])
        for idx in sorted(set(bnd(c))):
            cases.append('mmh ' + ' '.join(setup + ['find,5,0', 'rmki,0,%d' % idx, 'count', 'find,5,1', 'kderef,1']))
            # MakeIterator(keyIter, count) is legal and yields the position after the key's last value (not dereferenced here)
            cases.append('mmh ' + ' '.join(setup + ['find,5,0', 'makeit,0,%d,10' % idx] + (['vderef,10', 'rmit,10'] if idx != c else []) + ['count']))
    # arrays
    for kind in ('arh', 'aih', 'sah'):
        for n in (0, 1, 4, 5, 9, 33):
            setup = ['addback,%d' % (v * 3 + 1) for v in range(n)]
            for i in sorted(set(bnd(n))):
                cases.append(kind + ' ' + ' '.join(setup + ['idx,%d' % i]))
                cases.append(kind + ' ' + ' '.join(setup + ['ins,%d,77' % i, 'back']))
                cases.append(kind + ' ' + ' '.join(setup + ['rmback,%d' % i]))
                cases.append(kind + ' ' + ' '.join(setup + ['begin,0', 'adv,0,%d' % i, 'deref,0']))
                cases.append(kind + ' ' + ' '.join(setup + ['end,0', 'adv,0,%d' % (-i if i >= 0 else 1), 'deref,0']))
                for cnt in (0, 1, 2, -1, -2, -n, -(n + 1) if n else -3):       # negative = SIZE_MAX - k + 1: counts near SIZE_MAX
                    cases.append(kind + ' ' + ' '.join(setup + ['rm,%d,%d' % (i, cnt)]))
                    # SegmentedArray::Insert reserves segment by segment: a huge count that does NOT trip the overflow check would
                    # allocate until memory is exhausted -- never generated; only counts with count > SIZE_MAX - size
                    if kind != 'sah' or cnt >= 0 or -cnt <= n:
                        cases.append(kind + ' ' + ' '.join(setup + ['insn,%d,%d,77' % (i, cnt), 'back']))
                if kind != 'sah':
                    cases.append(kind + ' ' + ' '.join(setup + ['insn,%d,%d,77' % (i, 2 ** 62), 'back']))
                if i >= 1:
                    cases.append(kind + ' ' + ' '.join(setup + ['rm,%d,%d' % (0, i)]))
                    cases.append(kind + ' ' + ' '.join(setup + ['rm,%d,%d' % (1, i - 1)]))
            cases.append(kind + ' ' + ' '.join(setup + ['back']))
    # DataTable row numbers and selection indices
    for n in (0, 1, 3, 6):
        setup = ['addrow,%d' % (v * 7 + 1) for v in range(n)] + ['select,10']
        for i in sorted(set(bnd(n))):
            cases.append('dth ' + ' '.join(setup + ['ref,%d,0' % i, 'read,0']))
            cases.append('dth ' + ' '.join(setup + ['selref,10,%d,0' % i, 'read,0']))
            cases.append('dth ' + ' '.join(setup + ['rmnum,%d' % i, 'count']))
            cases.append('dth ' + ' '.join(setup + ['updnum,%d,55' % i, 'count']))
            cases.append('dth ' + ' '.join(setup + ['insert,%d,55' % i, 'count']))
    return cases


def gen(ctx, scale):
    r = ctx.rng
    return gen_boundary() + gen_arr(r, 150 * scale) + gen_mm(r, 500 * scale) + gen_dt(r, 500 * scale) + gen_dt_idx(r, 300 * scale)


def gen_guards():
    """T-gen validation of the cxx2coq-translated guard prefixes: the REAL function on boundary grids of 64-bit arguments
    ("-k" = 2^64 - k for unsigned arguments)"""
    cases = []
    M63 = 2 ** 63
    def B(c):
        return sorted(set(x for x in (0, 1, 2, c - 1, c, c + 1, c + 2, M63 - 1, M63, M63 + 1, -2, -1, -c, -c - 1, -c + 1) if abs(x) < 2 ** 64 and (x >= 0 or x > -2 ** 64)), key=str)
    for k in ('ar', 'ai', 'sa'):
        for c in (0, 1, 4, 5, 33):
            for i in B(c):
                for n in B(c) + [c - i if 0 <= c - i else 0, (c - i + 1) if c - i + 1 >= 0 else 0]:
                    cases.append('g rm %s %d %d %d' % (k, c, i, n))
                cases.append('g idx %s %d %d' % (k, c, i))
                cases.append('g rmback %s %d %d' % (k, c, i))
            if True:       # also SegmentedArray: only tiny counts or counts that trip the overflow guard (never a huge count that fits)
                for i in (0, 1, c - 1 if c else 0, c, c + 1, -1):
                    for n in [0, 1, 2] + ([-1, -2, -c, -c + 1] if c >= 1 else []):
                        if n >= 0 or -n <= c:           # overflow-tripping counts only (a huge count that fits would run into bad_alloc)
                            cases.append('g insn %s %d %d %d' % (k, c, i, n))
            for idx in sorted(set((0, 1, c // 2, c))):
                if idx > c: continue
                for d in sorted(set((0, 1, -1, 2, c - idx, c - idx + 1, -idx, -idx - 1, M63 - 1, -M63, -M63 + 1, M63 - 2))):
                    cases.append('g adv %s %d %d %d' % (k, c, idx, d))
                cases.append('g arrow %s %d %d' % (k, c, idx))
        for d in (0, 1, -1, M63 - 1, -M63):
            cases.append('g defadv %s 0 %d' % (k, d))
        cases.append('g defarrow %s 0' % k)
    for snap in (0, 1, 5, 2 ** 64 - 1):
        for cur in (0, 1, 5, 6, 2 ** 64 - 1):
            for p in (0, 1):
                cases.append('g kself %d %d %d' % (p, snap, cur))
            for p in (0, 1, 2):
                for q in (1, 2):
                    for al in (0, 1):
                        for c2 in (cur, snap):
                            cases.append('g kcont %d %d %d %d %d %d' % (p, snap, cur, c2, q, al))
    for c in (0, 1, 2, 3, 7, 8, 9):
        for i in (0, 1, c - 1 if c else 0, c, c + 1, -1, M63):
            cases.append('g mmrm %d %d' % (c, i))
            cases.append('g mmmk %d %d' % (c, i))
    for c in (0, 1, 3, 6):
        for i in B(c):
            cases += ['g selidx %d %d' % (c, i), 'g row %d %d' % (c, i), 'g tins %d %d' % (c, i), 'g tupd %d %d' % (c, i)]
            for n in B(c) + [max(c - i, 0), max(c - i + 1, 0)]:
                cases.append('g selrm %d %d %d' % (c, i, n))
    for c in (0, 1, 2, 5, 31, 32):
        for p in sorted(set((0, 1, c - 1 if c else 0, c))):
            if p <= c:
                cases += ['g tinc %d %d' % (c, p), 'g tarrow %d %d' % (c, p)]
    cases.append('g tdefinc')
    return sorted(set(cases))


def gen_ubsan():
    """`operator+=` boundary diffs for the small UBSan translation unit (every tier): Array ext/int capacity, SegmentedArray, DataRawIterator"""
    M63 = 2 ** 63
    cases = []
    for c in (0, 1, 5, 33):
        for idx in sorted(set((0, 1, c // 2, c))):
            if idx > c: continue
            ds = sorted(set((0, 1, -1, 2, c - idx, c - idx + 1, -idx, -idx - 1, M63 - 1, M63 - 2, M63 - idx, M63 - idx - 1, -M63, -M63 + 1, -M63 + idx)))
            for d in ds:
                if -M63 <= d < M63:
                    for k in ('ar', 'ai', 'sa'):
                        cases.append('g adv %s %d %d %d' % (k, c, idx, d))
                    if c <= 5:
                        cases.append('g rawadv %d %d %d' % (c, idx, d))
            if c <= 5:
                cases.append('g rawarrow %d %d' % (c, idx))
    # DataRawMultiHashIterator (FindByMultiHash bounds of c rows): += over the whole ptrdiff_t range; -> at every reachable index incl. the end
    for c in (0, 1, 2, 3, 9):
        for idx in sorted(set((0, 1, c))):
            if idx > c: continue
            for d in sorted(set((0, 1, -1, 2, -2, c - idx, c - idx + 1, -idx, -idx - 1, 1000, M63 - 1, M63 - 1 - idx, M63 - idx, -M63, -M63 + 1, 2 ** 62, -2 ** 62))):
                if -M63 <= d < M63:
                    cases.append('g mhadv %d %d %d' % (c, idx, d))
            cases.append('g mharrow %d %d' % (c, idx))
    return sorted(set(cases))


def gen_dt_idx(r, n):
    """index look-up histories (Table.v TFindMulti / TBounds*): a table with a multi-hash index, values from a small set so that the
    bounds hold several rows; slots 0..3 row references, 10..11 selections, 20..21 bounds.  No sorting (not stable on equal values)."""
    cases = []
    V = [5, 6, 7]
    for _ in range(n):
        ops = ['addrow,%d' % r.choice(V) for _ in range(r.choice([0, 1, 2, 5, 12]))]
        ops += ['findm,%d,20' % r.choice(V), 'findm,%d,21' % r.choice(V + [99])]
        for _ in range(r.range(5, 14)):
            t = r.below(24); s = r.below(4); b = 20 + r.below(2)
            if t in (0, 1): ops.append('findm,%d,%d' % (r.choice(V + [99]), b))
            elif t in (2, 3, 4): ops.append('bat,%d,%d' % (b, r.choice([0, 0, 1, 2, 5, 13])))
            elif t in (5, 6): ops.append('bsum,%d' % b)
            elif t == 7: ops.append('bcount,%d' % b)
            elif t in (8, 9): ops.append('addrow,%d' % r.choice(V))
            elif t == 10: ops.append('insert,%d,%d' % (r.choice([0, 1, 3, 50]), r.choice(V)))
            elif t == 11: ops.append('rmnum,%d' % r.choice([0, 1, 2, 40]))
            elif t == 12: ops.append('ref,%d,%d' % (r.choice([0, 1, 2, 20]), s))
            elif t == 13: ops.append('rmref,%d,%d' % (s, r.below(2)))
            elif t == 14: ops.append('updref,%d,%d' % (s, r.choice(V)))
            elif t == 15: ops.append('updnum,%d,%d' % (r.choice([0, 1, 40]), r.choice(V)))
            elif t == 16: ops.append('rmif,%d' % r.choice([2, 5, 1000003]))
            elif t == 17: ops.append('clear')
            elif t == 18: ops.append('read,%d' % s)
            elif t == 19: ops.append('selectif,%d,10' % r.choice([5, 7]))
            elif t == 20: ops.append('rmsel,10')
            elif t == 21: ops.append('selsum,10')
            else: ops.append('count')
        ops += ['bat,20,0', 'bsum,21', 'bcount,20']
        cases.append('dth ' + ' '.join(ops))
    return cases
