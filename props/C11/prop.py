"""C11 – hash tables survive failures during growth without losing elements.
proof: Coq theorems about the executable generation-chain model coq/GrowModel.v (all schedules, all histories);
tie:   T-cor – the extracted model is run against the real momo::HashSet/HashMap (allocation refusal through kit::MM,
       throwing hash for slow-hash keys) on the failure schedule observed on the real run; per op: result, count,
       capacity, number of generations, exact bucket shape of every generation, Find of every key, traversal order;
oracle: std::set twin + kit protocol/leak summary inside the harness (independent of the model)."""
import os, re

KINDS = {0: ['L1', 'L2', 'L3', 'L4', 'L4d'], 1: ['O1', 'O2', 'O3', 'O8'], 2: ['N1', 'L4i', 'O3i', 'O8i'], 3: ['P2', 'P3', 'P8']}
TU_OF = {k: tu for tu, ks in KINDS.items() for k in ks}
TU_NAME = {0: 'limp4', 1: 'open', 2: 'one', 3: 'limp'}
TUS = (0, 1, 2, 3)
GEN = ['gen_policy_base.json', 'gen_policy_open2n2.json', 'gen_policy_open2n2_m1.json', 'gen_policy_open8.json',
       'gen_index_base.json', 'gen_index_open2n2.json', 'gen_index_open8.json', 'gen_buckets.json', 'gen_hashset_grow.json',
       'gen_c13_open2n2.json', 'gen_c13_open2n2_ops.json', 'gen_c13_openn1.json', 'gen_c13_openn1_ops.json',
       'gen_c12_base.json', 'gen_c12_limp4.json', 'gen_c12_limp4_add.json', 'gen_c12_one.json',
       'gen_hashset_move.json', 'gen_hashset_find.json', 'gen_hashset_clear.json', 'gen_p4s4.json', 'gen_p4s3.json', 'gen_p4s2.json', 'gen_p4s1.json']
MAP_KINDS = ('L4', 'L1', 'O3', 'P3', 'N1')


def arm(r, slow, inten):
    """injection suffix for one growth-capable op"""
    if not r.chance(inten, 100):
        return ''
    if slow and r.chance(55, 100):
        return 'f%d' % r.choice([0, 1, 1, 1, 1, 2, 2, 3, 4, 6, 9])
    return 'a%d' % r.choice([0, 0, 0, 0, 0, 1, 1, 2, 3, 5])


def gen_history(r, slow, nops, nkeys, inten, removes=18):
    ops = []
    for _ in range(nops):
        t = r.below(100)
        k = r.below(nkeys)
        if t < 100 - removes - 12:
            ops.append('i%d%s' % (k, arm(r, slow, inten)))
        elif t < 100 - 12:
            u = r.below(10)
            if u < 6: ops.append('r%d' % k)
            elif u < 8: ops += ['e%d' % k, 'j%s' % arm(r, slow, inten)]
            elif u < 9: ops.append('p%d_%d' % (r.choice([2, 3, 5]), r.below(2)))
            else: ops.append('m')
        elif t < 100 - 6:
            ops.append('q%d' % k)
        elif t < 100 - 3:
            ops.append('v%d%s' % (r.below(3 * nkeys), arm(r, slow, inten)))
        elif t < 100 - 2:
            ops.append('t')
        elif t < 100 - 1 and r.chance(1, 3):
            ops.append('x%d' % r.below(2))
        else:
            ops.append('c')
    return ops


def gen_cases(ctx, scale):
    r = ctx.rng
    cases = []   # (tu, 'kind keycat dist logStart sm | ops')
    def add(kind, keycat, dist, ls, sm, ops):
        if kind not in MAP_KINDS or keycat == 'T':
            sm = 'S'             # HashMap is instantiated for one kind per harness TU
        if kind in ('O1', 'L1', 'N1'):
            ls = max(ls, 1)      # CalcCapacity(1 bucket of capacity 1) = 0 is not a usable start size
        cases.append((TU_OF[kind], '%s %s %d %d %s | %s' % (kind, keycat, dist, ls, sm, ' '.join(ops))))
    allk = [k for ks in KINDS.values() for k in ks]
    main = ['L4', 'O3', 'O8', 'L2', 'O1', 'L1', 'L3', 'O2', 'P2', 'P3', 'P8']
    # 1. random histories, all kinds x key categories x hash distributions x failure intensities
    for i in range(260 * scale):
        kind = r.choice(main) if r.chance(3, 4) else r.choice(allk)
        keycat = r.choice(['S', 'S', 'T', 'T', 'F', 'F'])
        dist = r.choice([0, 0, 4, 4, 2, 5, 1, 3])
        ls = r.choice([0, 1, 1, 2, 2, 3, 4])
        sm = 'M' if (keycat != 'T' and r.chance(1, 4)) else 'S'
        inten = r.choice([0, 30, 60, 90, 100])
        nkeys = r.choice([12, 30, 80, 200])
        add(kind, keycat, dist, ls, sm, gen_history(r, keycat != 'F', r.range(10, 90), nkeys, inten))
    # 2. every failure point k of a growth, repeated over the following operations (several generations)
    for i in range(14 * scale):
        kind = r.choice(main)
        keycat = r.choice(['S', 'T', 'T']) if (kind[0] == 'O' or r.chance(2, 3)) else 'F'
        dist = r.choice([0, 4, 4, 2, 5])
        ls = r.choice([0, 1, 2])
        sm = 'S'
        n0 = r.range(4, 40)
        base = ['i%d' % k for k in range(n0)]
        tail_keys = list(range(n0, n0 + 14))
        for k in range(0, 10):
            ops = list(base)
            for j, key in enumerate(tail_keys):
                if keycat != 'F' and (kind[0] == 'O' or j % 2 == 0):
                    ops.append('i%df%d' % (key, k if j < 6 else 1 + (k + j) % 4))
                else:
                    ops.append('i%da%d' % (key, k if j < 6 else (k + j) % 3))
            ops += ['r%d' % r.below(n0 + 14) for _ in range(5)] + ['t']
            ops += ['i%d' % key for key in range(n0 + 14, n0 + 20)]
            add(kind, keycat, dist, ls, sm, ops)
    # 3. persistent refusal: the table is overloaded through the fallback path until "Hash table is full"
    for i in range(10 * scale):
        kind = r.choice(main + ['N1', 'P2', 'P3'])
        keycat = r.choice(['S', 'F', 'T'])
        ls = r.choice([0, 1, 2])
        dist = r.choice([0, 4, 1, 2])
        n0 = r.range(1, 10)
        ops = ['i%d' % k for k in range(n0)] + ['i%da0' % k for k in range(n0, n0 + 45)]
        ops += ['r%d' % r.below(n0 + 45) for _ in range(6)] + ['i%da0' % k for k in range(100, 108)] + ['i%d' % k for k in range(200, 206)]
        add(kind, keycat, dist, ls, 'S', ops)
    # 4. growth succeeds but (almost) every migration fails at once, sometimes refusal on top: 3+ generations + overload
    for i in range(36 * scale):
        kind = r.choice(['O3', 'O8', 'O1', 'L4', 'L2', 'O2', 'L1', 'L3', 'P2', 'P3', 'P8'])
        ls = r.choice([0, 0, 1, 2])
        dist = r.choice([0, 4, 4, 5, 2])
        prefuse = r.choice([0, 0, 0, 1, 2])
        ops = []
        for k in range(r.range(40, 90) * (2 if kind == 'O8' else 1)):
            t = r.below(10)
            ops.append('i%d%s' % (k, 'a0' if t < prefuse else 'f1' if t < 8 else 'f%d' % r.range(1, 5)))
            if r.chance(1, 8): ops.append('r%d' % r.below(k + 1))
            if r.chance(1, 20): ops.append('q%d' % r.below(k + 1))
        # in the multi-generation state: Reserve (granted / refused / interrupted), Clear, then more insertions
        tail = r.below(4)
        if tail == 0: ops += ['v%d' % r.range(60, 400)]
        elif tail == 1: ops += ['v%da0' % r.range(60, 400), 'v%df%d' % (r.range(60, 400), r.range(0, 6)), 't', 'v%d' % r.range(100, 400)]
        elif tail == 2: ops += ['x%d' % r.below(2)] + ['i%d%s' % (k, r.choice(['', 'f1', 'a0'])) for k in range(400, 420)]
        else:
            # Remove(filter) / Extract / Insert(ExtractedItem) in the multi-generation state
            ops += ['e%d' % r.below(25), 'j%s' % r.choice(['f1', 'a0', 'a0f1', '']), 'e%d' % r.below(25), 'e%d' % r.below(25), 'jf1', 'j',
                    'p%d_%d' % (r.choice([2, 3, 4]), r.below(2)), 't', 'e%d' % r.below(25), 'p2_1', 'j', 'm']
        ops += ['t'] + ['i%d' % k for k in range(300, 300 + r.range(1, 40))]
        add(kind, r.choice(['T', 'T', 'T', 'S']), dist, ls, 'S', ops)
    # 5. fast-hash keys in LimP4 (one allocation per bucket array): migrations interrupted by refused bucket-array allocations
    for i in range(24 * scale):
        kind = r.choice(['L4', 'L2', 'L3', 'L4', 'L1', 'P2', 'P3', 'P8'])
        ls = r.choice([0, 1, 2])
        dist = r.choice([0, 4, 4, 5, 2])
        ops = []
        for k in range(r.range(25, 75)):
            ops.append('i%da%d' % (k, r.choice([1, 2, 2, 2, 3, 3, 4, 0])))
            if r.chance(1, 8): ops.append('r%d' % r.below(k + 1))
        ops += ['t'] + ['i%d' % k for k in range(300, 300 + r.range(1, 40))]
        kc = r.choice(['F', 'F', 'T'])
        add(kind, kc, dist, ls, 'S' if kc == 'T' else r.choice(['S', 'S', 'M']), ops)
    # 6. overloading fallback insertions followed by growth (before commit 7a001ad MOMO_CHECK(newCapacity > mCount) failed here)
    for kind in ('N1', 'L1'):
        add(kind, 'F', 0, 1, 'S', ['i0', 'i1a0', 'i2', 'i3', 'r0', 'i4', 'i5', 't'])
    ops = ['i0']; k = 1; bc = 1
    for phase in range(4):
        ops += ['i%da0f1' % (k + j) for j in range(3 * bc + 2)]; k += 3 * bc + 2
        ops.append('i%df1' % k); k += 1; bc *= 2
    ops += ['i%da0f1' % (k + j) for j in range(3 * bc + 2)]
    ops += ['i%d' % (1000 + j) for j in range(4)] + ['t', 'r3', 'i2000', 'i2001']
    add('O3', 'T', 0, 0, 'S', ops)
    # 7. first insertion into a bucket-less container (fresh, after Clear(true), after moving everything away): refused
    #    bucket array, refused BucketParams, refused item array; move out and back in between (BucketParams ownership)
    for kind in ['L4', 'O3', 'O8', 'P3', 'N1', 'L1', 'O1', 'L4d']:
        for keycat in (['F', 'T'] if scale == 1 else ['F', 'S', 'T']):
            sm = 'M' if (keycat != 'T' and kind in ('L4', 'O3')) else 'S'
            ops = ['i0a0', 'i1a1', 'i2a2', 'm', 'i3', 'i4', 'i5', 'x1', 'i6a0', 'i7a1', 'i8a2', 'm', 'i9', 'i10a0', 'y', 'i11a0', 'i12a1', 'i13a2', 'i14',
                   'e14', 'x1', 'ja0', 'ja1', 'j', 'i15a0', 'y', 'm', 'i16a1', 'i17', 't', 'p2_0', 'x0', 'i18a0', 'i19']
            add(kind, keycat, r.choice([0, 4]), r.choice([1, 2]), sm, ops)
    # 8. probe sequences longer than 255 (lossy max-probe encodings): constant hash, one big table obtained by Reserve
    add('O1', 'F', 1, 4, 'S', ['v400', 'b300', 'q7100', 'q7299', 'r7250', 'q7299', 't', 'e7290', 'j', 'p7_3'])
    if scale > 1:
        add('O2', 'F', 1, 4, 'S', ['v800', 'b560', 'q7100', 'q7559', 'r7500', 'q7559', 't'])
        add('O8', 'F', 1, 4, 'S', ['v3000', 'b2100', 'q7100', 'q9099', 'r9000', 'q9099', 't'])
        add('L1', 'F', 1, 4, 'S', ['v300', 'b280', 'q7100', 'q7279', 'r7250', 'q7279', 't'])
    # 9. table filled to the last slot under persistent refusal, ONE free slot, insertion from EVERY start bucket (the free
    #    slot is at every position of the probe path, in particular the last one), linear and triangular probing
    for kind in ['O3', 'L4', 'O1', 'L1', 'O8', 'L2', 'P3', 'N1', 'O2', 'L3']:
        for ls in ([1, 2, 3] if scale == 1 else [1, 2, 3, 4]):
            bc = 2 ** ls
            capk = {'O3': 3, 'L4': 4, 'O1': 1, 'L1': 1, 'O8': 7, 'L2': 2, 'P3': 3, 'N1': 1, 'O2': 2, 'L3': 3}[kind]
            keycat = r.choice(['F', 'T', 'S'])
            ops = ['i0'] + ['i%da0' % k for k in range(1, capk * bc + 3)]          # brim-full (the surplus answers "full")
            prev = 0
            for st in range(bc):
                key = 1000 * bc + st                                              # IDENT hash: start bucket = st
                ops += ['r%d' % prev, 'i%da0' % key, 'i%da0' % (key + 500 * bc)]  # fills the hole; the next one finds no slot
                prev = key
            ops += ['t', 'i%d' % (3000 * bc), 'i%d' % (3000 * bc + 1), 't']       # allocation granted again: grows, migrates
            add(kind, keycat, 0, ls, 'S', ops)
    # 10. slow-hash keys in buckets that KEEP hash bits (LimP4, Open2N2, LimP): items colliding in the low bits and differing
    #     in the bits the next table uses, removal at EVERY position of a 2..maxCount-item bucket, then growth inside the same
    #     8-doubling band (hash rebuilt from the stored bytes) -- completed, or interrupted by a throwing hash / refused array
    for kind in ['L4', 'L3', 'L4d', 'L2', 'O3', 'O2', 'P3', 'P8'] * (1 if scale == 1 else 3):
        capk = {'L4': 4, 'L3': 3, 'L4d': 4, 'L2': 2, 'O3': 3, 'O2': 2, 'P3': 3, 'P8': 8}[kind]
        for ls in (2, 3, 4):
            bc = 2 ** ls
            for cnt in range(2, capk + 1):
                for pos in range(cnt):
                    if scale == 1 and r.chance(1, 2) and not (cnt == 3 and pos == 0):
                        continue
                    b = r.below(bc)
                    grp = [b + bc * j for j in r.choice([[0, 4, 1, 2, 3, 5, 6, 7], [0, 16, 1, 3, 2, 5, 9, 6], [3, 1, 2, 0, 7, 4, 5, 6]])][:cnt]
                    ops = ['i%d' % k for k in grp]
                    ops.append('r%d' % grp[pos])
                    # fillers: other buckets only, two per bucket, until the capacity is reached; then growth
                    fill = [bb + bc * (8 + j) for j in range(capk) for bb in range(bc) if bb != b]
                    tailarm = r.choice(['', '', 'f1', 'f2', 'f3', 'a1', 'a2'])
                    ops += ['i%d' % k for k in fill[:2 * bc + 2]]
                    ops += ['i%d%s' % (900 * bc + j, tailarm) for j in range(4)]
                    ops += ['t', 'r%d' % grp[(pos + 1) % cnt]] + ['i%d' % (950 * bc + j) for j in range(2 * bc)] + ['t']
                    add(kind, 'S', 0, ls, 'S', ops)
    # 12. inline crew (stateless manager kit::MM0, checkVersion = false): the container object itself holds traits and manager
    for i in range(12 * scale):
        kind = r.choice(['L4i', 'O3i', 'O8i'])
        keycat = r.choice(['F', 'S', 'S'])
        add(kind, keycat, r.choice([0, 4, 2, 5]), r.choice([0, 1, 2, 4]), 'S', gen_history(r, keycat != 'F', r.range(20, 90), r.choice([30, 80]), r.choice([30, 60, 100])))
    # 11. Reserve boundary values around the capacities of the first table sizes (0, 1, cap-1, cap, cap+1) between insertions
    for kind in ['L4', 'O3', 'O8', 'L1', 'N1', 'P3']:
        ops = ['v0', 'i0', 'v0', 'v1', 'i1', 'i2']
        for n in [2, 3, 4, 5, 6, 7, 10, 11, 12, 13, 14, 21, 22, 23, 24, 26, 27, 31, 32, 33, 44, 45, 63, 64, 65]:
            ops += ['v%d%s' % (n, r.choice(['', '', 'a0', 'f1'])), 'i%d' % (100 + n)]
        add(kind, r.choice(['F', 'S', 'T']), r.choice([0, 4]), r.choice([0, 1, 2]), 'S', ops)
    return cases


def run_tu(ctx, harness, tu, lines, tag):
    """run the real code in `sched` mode; returns (kept_lines, output_lines, crashes).  When the real code dies
    (assertion / signal / sanitizer) the culprit history (= first case without output: the harness flushes one line
    per finished case) is recorded and the run continues with the remaining histories, so that the other stages
    still see every history that does not crash."""
    kept = []; outs = []; crashes = []
    rest = list(lines); rounds = 0
    while rest and rounds < 6:
        rounds += 1
        path = os.path.join(ctx.build, '%s-%d.in' % (tag, tu))
        open(path, 'w').write('\n'.join(rest) + '\n')
        rc, out, err = ctx.run_lines([harness, 'sched'], path)
        n = min(len(out), len(rest))
        if rc == 0 and len(out) == len(rest):
            kept += rest; outs += out; rest = []
            break
        kept += rest[:n]; outs += out[:n]
        if n < len(rest):
            crashes.append((rest[n], (err[-600:] or 'exit code %d' % rc)))
            rest = rest[n + 1:]
        else:
            crashes.append((None, err[-600:] or 'exit code %d' % rc)); rest = []
    if rest:
        crashes.append((None, 'more than 5 crashing histories, %d histories not run' % len(rest)))
    return kept, outs, crashes


STAT_KEYS = ['g2', 'g3', 'fb', 'refused', 'full', 'migfail', 'afail', 'extra', 'chk', 'grows', 'growsx', 'brim1', 'bandsame', 'bandcross']


def bump(d, group, key, n=1):
    g = d.setdefault(group, {}); g[key] = g.get(key, 0) + n


def measure(stats, case, header, st):
    """per-dimension counts of what REALLY ran (from the case line and the facts/statistics printed by the real code)"""
    D = stats.setdefault('_dist', {})
    w = case.split()
    kind, keycat, dist, ls, sm = w[0], w[1], w[2], w[3], w[4]
    hd = header.split()
    bump(D, 'bucket_kind', kind); bump(D, 'key_category', keycat); bump(D, 'hash_distribution', dist)
    bump(D, 'log2_start_buckets', ls); bump(D, 'container', 'HashMap' if sm == 'M' else 'HashSet')
    bump(D, 'kind_x_keycat', kind + '/' + keycat)
    bump(D, 'bucket_maxCount(real)', '%s/%s=%s' % (kind, keycat, hd[0]))
    bump(D, 'areItemsNothrowRelocatable(real)', hd[2]); bump(D, 'WasFull_of_fresh_bucket(real)', hd[1]); bump(D, 'LimP_skipOddMemPools(real)', hd[3])
    bump(D, 'bucket_keeps_hash_bits(real)', st.get('part', '?')); bump(D, 'inline_crew(real)', st.get('inlinecrew', '?'))
    bump(D, 'sizeof_item(real)', st.get('itemsize', '?'))
    bump(D, 'max_log2_buckets_reached', st.get('maxlog', '?'))
    bump(D, 'max_coexisting_generations', st.get('maxg', '?'))
    g = int(st.get('grows', 0)); bump(D, 'growths_per_history', '0' if g == 0 else '1' if g == 1 else '2-3' if g <= 3 else '4+')
    for tok in w[6:]:
        if tok == '|': break
        bump(D, 'operation', tok[0])
        i = 1
        while i < len(tok) and (tok[i].isdigit() or tok[i] == '_'): i += 1
        arms = tok[i:]
        if tok[0] in 'ijv':
            if not arms: bump(D, 'injection', 'none')
            else:
                import re as _re
                for kind_, n in _re.findall(r'([af])(\d+)', arms):
                    bump(D, 'injection', ('allocation#' if kind_ == 'a' else 'hashcall#') + (n if int(n) < 4 else '4+'))
                if 'a' in arms and 'f' in arms: bump(D, 'injection', 'both_armed')
        if tok[0] == 'v':
            bump(D, 'reserve_argument', tok[1:i] if int(tok[1:i] or 0) <= 3 else 'other')
    if st.get('res', '-') != '-':
        for kv in st['res'].split(','):
            k, n = kv.split(':'); bump(D, 'result', k, int(n))
    for ann in hd[4:]:
        if ann != '-':
            h, af, rr, m = ann.split('.')
            if h == '1': bump(D, 'observed_failure', 'hash_threw_in_pvFind')
            if af == '1': bump(D, 'observed_failure', 'item_creation_failed')
            if rr == '1': bump(D, 'observed_failure', 'bucket_array_refused')
            if m != '-1': bump(D, 'observed_failure', 'migration_interrupted_after_%s_items' % (m if int(m) < 3 else '3+'))


def oracle_and_annotate(ctx, harnesses, cases, tag, stats):
    """run the real code in `sched` mode: oracle verdicts + the observed schedule (model input)"""
    bad = []; annotated = {tu: [] for tu in TUS}
    for tu in TUS:
        lines = [c for (t, c) in cases if t == tu]
        if not lines:
            continue
        lines, out, crashes = run_tu(ctx, harnesses[tu], tu, lines, tag)
        for culprit, msg in crashes:
            bad.append((tu, culprit or '(harness %s)' % TU_NAME[tu], 'the real container crashed (assertion/signal) on this history: ' + msg))
        ctx.evaluations += len(lines)
        for c, o in zip(lines, out):
            parts = o.split(' # ')
            if len(parts) != 3:
                bad.append((tu, c, 'unparsable harness output: ' + o[:200])); continue
            annotated[tu].append(c + ' | ' + parts[0])
            st = dict(kv.split('=', 1) for kv in parts[1].split())
            measure(stats, c, parts[0], st)
            for k in STAT_KEYS:
                stats[k] = stats.get(k, 0) + int(st.get(k, 0))
            mg = int(st.get('maxg', 0))
            stats['cases'] = stats.get('cases', 0) + 1
            if mg >= 2: stats['cases_ge2_generations'] = stats.get('cases_ge2_generations', 0) + 1
            if mg >= 3: stats['cases_ge3_generations'] = stats.get('cases_ge3_generations', 0) + 1
            if mg >= 4: stats['cases_ge4_generations'] = stats.get('cases_ge4_generations', 0) + 1
            if int(st.get('fb', 0)) > 0: stats['cases_with_fallback_insert'] = stats.get('cases_with_fallback_insert', 0) + 1
            if int(st.get('full', 0)) > 0: stats['cases_with_table_full'] = stats.get('cases_with_table_full', 0) + 1
            if st.get('single') != '1': stats['cases_stuck_multi_generation'] = stats.get('cases_stuck_multi_generation', 0) + 1
            if mg >= 2 or int(st.get('fb', 0)) > 0:
                ctx.nontrivial.add(c)
            if int(st.get('chk', 0)) > 0:
                stats.setdefault('_chk_cases', []).append((len(c), tu, c))
            if parts[2] != 'OK':
                bad.append((tu, c, parts[2]))
    return bad, annotated


def source_digest(ctx, flags):
    """content hash of everything the harness binary depends on (current headers of the repo under test included)"""
    import hashlib
    h = hashlib.sha256()
    files = [os.path.join(ctx.pdir, 'harness.cpp'), os.path.join(ctx.root, 'harness', 'kit.h'), os.path.join(ctx.root, 'harness', 'private_access.h')]
    inc = os.path.join(ctx.repo, 'include', 'momo')
    for d, _, fs in sorted(os.walk(inc)):
        files += [os.path.join(d, f) for f in sorted(fs)]
    for f in files:
        h.update(f.encode()); h.update(open(f, 'rb').read())
    h.update(repr(flags).encode()); h.update(ctx.tier.encode())
    return h.hexdigest()


def build(ctx):
    """build the four harness TUs in parallel; a TU is rebuilt only if the content hash of its inputs changed"""
    jobs = []; res = {}
    for tu in TUS:
        flags = ['-DC11_TU=%d' % tu, '-g0']       # no debug info: halves the compile time
        dig = source_digest(ctx, flags)
        exe = os.path.join(ctx.build, 'h%d' % tu + ('.san' if ctx.tier == 'thorough' else ''))
        stamp = exe + '.sha256'
        if os.path.exists(exe) and os.path.exists(stamp) and open(stamp).read() == dig:
            res[tu] = exe
        else:
            if os.path.exists(stamp): os.remove(stamp)
            jobs.append((tu, flags, dig, stamp))
    if jobs:
        built = ctx.cxx_many([('harness.cpp', 'h%d' % tu, flags) for (tu, flags, dig, stamp) in jobs])
        for (tu, flags, dig, stamp) in jobs:
            path = built.get('h%d' % tu)
            if path is None:
                return None
            open(stamp, 'w').write(dig); res[tu] = path
    ctx.coverage['harness_rebuilt_tus'] = [tu for (tu, _, _, _) in jobs]
    return res


def leaf_cases(ctx, scale):
    """translator validation grid: boundary table sizes x bucket capacities x hash codes / indices / probes"""
    r = ctx.rng; out = []
    for L in range(0, 63):
        for mc in (1, 2, 3, 4, 7, 8, 15):
            if (2 ** L) * mc * 2 < 2 ** 64:
                out.append('leaf cap B %d %d' % (mc, L))
        for mc in (1, 2, 3):          # double == exact rational arithmetic up to 2^53 slots (domain of the tie theorem)
            if (2 ** L) * mc < 2 ** 53: out.append('leaf cap O2 %d %d' % (mc, L))
        for mc in (7, 3, 1):
            if (2 ** L) * mc < 2 ** 53: out.append('leaf cap O8 %d %d' % (mc, L))
    for L in list(range(0, 64)):
        bc = 2 ** L
        vals = sorted(set(v for v in [0, 1, 2, bc // 2, bc - 2, bc - 1] if 0 <= v < bc))
        for k in ('B', 'O2', 'O8'):
            for i in vals:
                for p in vals + [r.below(bc)]:
                    hc = r.choice([0, 1, bc - 1, bc, bc + 1, 2 ** 64 - 1, r.below(2 ** 64)])
                    out.append('leaf idx %s %d %d %d %d' % (k, hc, L, i, p))
    for L in range(0, 17):
        out.append('leaf cnt %d' % L)
    # AddCrt / Remove / UpdateMaxProbe / Clear sequences on ONE real bucket vs the generated functions: all bookkeeping bytes,
    # the count and IsFull (generator ported from props/C13)
    for i in range(250 * scale):
        kind = r.choice(['o2', 'n1', 'n1f', 'n1f']); m = 3 if kind != 'n1f' else 7; L = r.range(1, 63)
        cnt = 0; toks = []
        for _ in range(r.range(1, 40)):
            c = r.below(10)
            if c < 5 and cnt < m:
                hc = r.choice([r.next(), r.below(1 << 20), (r.below(256) << 56) | r.below(1 << 16), 2 ** 64 - 1, 0])
                toks.append('A:%d:%d:%d' % (hc, r.range(0, 63), r.choice([0, 1, r.below(300), r.below(1 << 20)]))); cnt += 1
            elif c < 8 and cnt > 0:
                toks.append('R:%d' % r.below(cnt)); cnt -= 1
            elif c < 9:
                toks.append('U:%d' % min(2 ** L - 1, r.choice([0, 1, r.below(8), r.below(300), 254, 255, 256, r.below(1 << 20), 2 ** L - 1])))
            elif r.below(4) == 0:
                toks.append('C:0'); cnt = 0
        out.append('leaf bops %s %d %d %s' % (kind, m, L, ' '.join(toks)))
    # the generated pvAddNogrow probe loop / pvRelocateItems loop skeleton against the REAL private pvAddNogrow (called directly, table
    # filled until "Hash table is full") and one REAL migration observed through a move-logging key type
    for i in range(120 * scale):
        kind = r.choice(['L1', 'L2', 'L4', 'O1', 'O3', 'O8', 'N1']); L = r.range(1, 5) if kind != 'O8' else r.range(1, 3)
        mc = {'L1': 1, 'L2': 2, 'L4': 4, 'O1': 1, 'O3': 3, 'O8': 7, 'N1': 1}[kind]; bc = 2 ** L
        n = r.choice([r.range(0, bc * mc), bc * mc + r.range(0, 3), r.range(0, bc * mc + 3)])
        hs = []; seen = set()
        clustered = r.chance(50, 100); base = r.below(bc)
        while len(hs) < n:
            h = r.choice([r.next(), r.below(1 << 20), r.below(4 * bc)])
            if clustered and r.chance(70, 100): h = (h // bc) * bc + (base + r.below(2)) % bc   # pile up on one or two start buckets
            h %= 2 ** 64
            if h not in seen: seen.add(h); hs.append(h)
        out.append('leaf move %s %d %s' % (kind, L, ' '.join(str(h) for h in hs)))
    # the LimP4 / One bucket operations (translations ported from C12): metadata bytes, count, IsFull, WasFull, memory-pool index
    for i in range(200 * scale):
        cnt = 0; toks = []
        for _ in range(r.range(1, 30)):
            c = r.below(10)
            if c < 5 and cnt < 4:
                hc = r.choice([r.next(), r.below(1 << 20), (r.below(256) << 56) | r.below(1 << 16), 2 ** 64 - 1, 0])
                toks.append('A:%d:%d:%d' % (hc, r.range(0, 63), r.choice([0, 1, r.below(300), r.below(1 << 20)]))); cnt += 1
            elif c < 9 and cnt > 0:
                toks.append('R:%d' % r.below(cnt)); cnt -= 1
            elif r.below(3) == 0:
                toks.append('C:0'); cnt = 0
        out.append('leaf p4ops ' + ' '.join(toks))
    for i in range(60 * scale):
        full = False; toks = []
        for _ in range(r.range(1, 12)):
            c = r.below(10)
            if c < 5 and not full: toks.append('A:%d' % r.choice([r.next(), 0, 1, 2 ** 63, 2 ** 64 - 1])); full = True
            elif c < 9 and full: toks.append('R:0'); full = False
            elif r.below(2) == 0: toks.append('C:0'); full = False
        out.append('leaf oneops ' + ' '.join(toks))
    # the generated size loop of Reserve (+ the f76c2d4 length_error bound) against the real Reserve on a bucket-less set
    for kind in ('L4', 'L1', 'O3', 'O8'):
        for nl0 in (0, 1, 2, 4, 7):
            for n in [1, 2, 3, 5, 6, 7, 11, 12, 13, 21, 22, 23, 32, 33, 100, 1000, 5000, 2 ** 64 - 1] + [r.range(1, 3000) for _ in range(3)]:   # (2^62.. would be refused by Buckets::Create, not by the loop)
                out.append('leaf rsv %s %d %d' % (kind, nl0, n))
    return out


def replay(ctx, rp):
    harnesses = build(ctx)
    if harnesses is None:
        print('harness does not build'); return 2
    case = rp.get('case')
    if not case:
        print('replay has no concrete case (no-failing-input-found): broken stages were', list(rp.get('broken', {}).keys())); return 1
    case = ' | '.join(case.split(' | ')[:2])
    tu = TU_OF[case.split()[0]]
    stats = {}
    bad, ann = oracle_and_annotate(ctx, harnesses, [(tu, case)], 'replay', stats)
    chk = stats.pop('_chk_cases', [])
    stats.pop('_dist', None)
    print('case:', case); print('stats:', stats)
    rc = 0
    if chk:
        print('oracle: an operation with valid arguments failed a MOMO_CHECK'); rc = 1
    for b in bad:
        print('oracle:', b[2]); rc = 1
    if ann[tu] and ctx.extract():
        mism, _ = ctx.correspond('replay', ann[tu], [harnesses[tu]], [ctx.model_exe], stage=False)
        for (i, c, a, b) in mism:
            print('model and implementation disagree:\n impl :', a[:600], '\n model:', b[:600]); rc = 1
    if rc:
        print('VIOLATION property=C11 replay=%s' % ctx.replay)
    else:
        print('property holds on this case')
    return rc


def first_diff(a, b):
    ta, tb = a.split(), b.split()
    for i in range(max(len(ta), len(tb))):
        x = ta[i] if i < len(ta) else '<none>'; y = tb[i] if i < len(tb) else '<none>'
        if x != y:
            return i, x, y
    return -1, '', ''


def gen_facts(ctx, regen_ok):
    """T-gen (AST facts, astfacts.py): the try / catch (...) of pvRelocateItems() and the recursion / Destroy order of
    pvRelocateItems(Buckets*) are read off the clang AST of the CURRENT headers into coq/Gen_RelocFacts.v; GenFacts.v computes the
    structural facts the hand model is written for and proves them.  A stale fact file must never keep the proofs green."""
    import importlib.util, hashlib
    out = os.path.join(ctx.cdir, 'Gen_RelocFacts.v')
    try:
        sp = importlib.util.spec_from_file_location('c11_astfacts', os.path.join(ctx.pdir, 'astfacts.py'))
        m = importlib.util.module_from_spec(sp); sp.loader.exec_module(m)
        txt = m.facts_text(os.path.join(ctx.pdir, 'inst_grow.cpp'), ctx.repo, ctx.root)
        if not os.path.exists(out) or open(out).read() != txt:
            open(out, 'w').write(txt)
        ctx.tie_obligations.append({'name': 'translate Gen_RelocFacts (AST facts: try/catch of pvRelocateItems(), recursion and Destroy order of '
                                            'pvRelocateItems(Buckets*))', 'ok': True, 'sha256': hashlib.sha256(txt.encode()).hexdigest()[:16]})
        return True
    except Exception as e:
        if os.path.exists(out):
            os.remove(out)
        ctx.tie_obligations.append({'name': 'translate Gen_RelocFacts', 'ok': False, 'error': str(e)[:400]})
        ctx.stage('regen', False, 'AST facts: %s' % str(e)[:300])
        return False


def run(ctx):
    scale = 1 if ctx.quick() else 8
    ctx.trusted += ['tools/cxx2coq.py + clang 14 JSON AST for the leaf functions (validated on every run against the real functions); double arithmetic of CalcCapacity translated to exact rationals',
                    'extraction: ExtrOcamlBasic only (no Extract Constant), OCaml 4.13.1, zarith for decimal I/O only',
                    'g++ 12 -std=c++17, harness reaches private members via #define private public (mBuckets chain, bucket bounds, WasFull)',
                    'harness/kit.h failure injection (kit::MM allocation refusal, throwing hash through custom HashTraits)']
    ctx.assumptions += ['Bucket::AddCrt / item relocation give the strong guarantee when they throw (one migration step is atomic)',
                        'pvFindBuckets (pointer-range search) returns the generation in which pvFind found the item',
                        'max-probe encoders never under-approximate (property C13); the extracted model uses the exact maximum',
                        'the failure schedule fed to the model is the one observed on the real run (refused array allocation, number of items migrated before the injected failure)',
                        'bucket counts stay below Buckets::maxBucketCount (no length_error path)']
    gen_facts(ctx, ctx.regen(GEN))          # T-gen: the leaf arithmetic of the growth decision / probe sequence, from the current headers
    ctx.prove()
    harnesses = build(ctx)
    if harnesses is None:
        ctx.stage('build-harness', False, getattr(ctx, 'last_cxx_error', ''))
        return ctx.finish(rule=RULE)
    cases = gen_cases(ctx, scale)
    if any(not s['ok'] for s in ctx.stages.values()):
        ctx.log('a stage broke: searching the implementation for a failing input with the thorough generator')
        cases = cases + gen_cases(ctx, 6)
    stats = {}
    bad, annotated = oracle_and_annotate(ctx, harnesses, cases, 'oracle', stats)
    ctx.stage('oracle', not bad, bad[0][2] if bad else '')
    for (tu, c, why) in bad[:3]:
        ctx.violation('real HashSet/HashMap violates the property: ' + why,
                      {'case': c, 'why': why, 'cmd': 'echo "%s" | build/C11/h%d sched' % (c, tu)}, found_input=True)
    stats.pop('_chk_cases', None)
    # the model is extracted even when a proof broke (make -k has built GrowModel.vo and the regenerated Gen_*.vo unless THEY
    # are what broke): the correspondence is then the search stage that turns a broken proof into a concrete input
    have_model = ctx.extract()
    if have_model:
        lc = leaf_cases(ctx, scale)
        mism, _ = ctx.correspond('translator-validation', lc, [harnesses[2]], [ctx.model_exe])
        ctx.tie_obligations.append({'name': 'generated leaf functions == real C++ on %d boundary cases' % len(lc), 'ok': not mism})
        for (i, c, a, b) in mism[:3]:
            ctx.violation('generated Gallina and the real function disagree', {'case': c, 'impl': a, 'model': b,
                          'cmd': 'echo "%s" | build/C11/h2' % c}, found_input=True)
        for tu in TUS:
            if not annotated[tu]:
                continue
            mism, _ = ctx.correspond('tcor-' + TU_NAME[tu], annotated[tu], [harnesses[tu]], [ctx.model_exe])
            ctx.tie_obligations.append({'name': 'extracted GrowModel == real momo containers (%s) on %d histories' % (TU_NAME[tu], len(annotated[tu])), 'ok': not mism})
            for (i, c, a, b) in mism[:2]:
                j, x, y = first_diff(a, b)
                ctx.violation('model and implementation disagree at op #%d: impl %s model %s' % (j, x, y),
                              {'case': c, 'op_index': j, 'impl': x, 'model': y,
                               'cmd': 'echo "%s" | C11_VERBOSE=1 build/C11/h%d  (and build/C11/model_driver)' % (c, tu)}, found_input=True)
    stats['refused_growth_insertions_through_fallback'] = stats.get('fb', 0)
    stats['op_states_with_ge2_generations'] = stats.get('g2', 0)
    stats['op_states_with_ge3_generations'] = stats.get('g3', 0)
    stats['insertions_reporting_table_full'] = stats.get('full', 0)
    stats['migrations_interrupted_by_injected_failure'] = stats.get('migfail', 0)
    ctx.coverage['reached'] = stats
    dist = stats.pop('_dist', {})
    dist['harness_tu'] = {TU_NAME[tu]: sum(1 for (t, c) in cases if t == tu) for tu in TUS}
    dist['threshold_events'] = {'growths': stats.get('grows', 0), 'growths_with_existing_buckets': stats.get('growsx', 0),
                                'op_states_one_slot_from_physically_full': stats.get('brim1', 0),
                                'growths_inside_an_8_doubling_band': stats.get('bandsame', 0), 'growths_crossing_a_band_border': stats.get('bandcross', 0),
                                'insertions_reporting_table_full': stats.get('full', 0),
                                'refused_growth_insertions_through_fallback': stats.get('fb', 0),
                                'op_states_with_ge2_generations': stats.get('g2', 0), 'op_states_with_ge3_generations': stats.get('g3', 0)}
    ctx.coverage['input_distribution'] = dist
    for (t, c) in cases[::max(1, len(cases) // 6)][:6]:
        ctx.add_sample(c[:400])
    return ctx.finish(rule=RULE)


RULE = ('cases = random insert/remove/find/reserve histories over bucket kinds {LimP4<1..4> (one allocation per bucket array), Open2N2<1..3>, Open8, '
        'LimP<2,3,8>, One} x {fast-hash uint64 keys, slow-hash kit::ElemNtm keys} x {HashSet, HashMap} x 6 hash distributions x start sizes 2^0..2^4, '
        'each growth-capable op armed with "n-th allocation refused" or "n-th hash call throws"; plus systematic families: every failure index k=0..9 '
        'of a growth repeated over the next operations, persistent refusal until "Hash table is full", growth with every migration failing. '
        'distinct = distinct case line; non-trivial = history that reached >= 2 coexisting generations or a fallback insertion')
