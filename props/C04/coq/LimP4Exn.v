(* C04 -- theorems over the cxx2coq-GENERATED BucketLimP4::pvAdd0<minMemPoolIndex | maxCount> and pvAdd<1 | 2 | 3>
   (details/HashBucketLimP4.h:472-495; Gen_LimP4_exn.v, regenerated on every run; pointer state = two scalars as in C12's
   translation).  Three steps may throw: the BucketMemory constructor (pool allocation: `memory_fails`), the item creator
   (pvAdd0: `itemCreator_fails`) and ItemTraits::RelocateCreate (pvAdd: copies of the existing items or the creator).
   Whenever one of them throws, the short hashes and the pointer state (items pointer + memory-pool index) are exactly as before:
   the publication `mShortHashes[count] = ...; pvSetPtrState(memory.Extract(), ...)` comes last.  (That the block allocated by
   the guard is given back is the BucketMemory destructor -- RAII, invisible to the translator: hand model bucket_add_guard.) *)
From Coq Require Import ZArith Bool List Lia.
From MomoCommon Require Import GenPrelude.
From C04 Require Gen_LimP4_exn.
Local Open Scope Z_scope.
Module P4 := Gen_LimP4_exn.

Ltac unchanged_or_done :=
  repeat match goal with |- context [if ?c then _ else _] => destruct c end;
  intros H; inversion H; subst; auto.


Lemma pvAdd0_min_incomplete : forall sh p st cf hc mf mem items sh' p' st',
  P4.pvAdd0_min sh p st cf hc mf mem items = Ok (false, sh', p', st') ->
  (mf = true \/ cf = true) /\ sh' = sh /\ p' = p /\ st' = st.
Proof.
  intros sh p st cf hc mf mem items sh' p' st'. unfold P4.pvAdd0_min.
  destruct mf. { intros H; inversion H; auto. } destruct cf. { intros H; inversion H; auto. }
  destruct (P4.pvSetPtrState _ _ _ _ _) as [[a b] c]. intros H; inversion H.
Qed.
Lemma pvAdd0_max_incomplete : forall sh p st cf hc mf mem items sh' p' st',
  P4.pvAdd0_max sh p st cf hc mf mem items = Ok (false, sh', p', st') ->
  (mf = true \/ cf = true) /\ sh' = sh /\ p' = p /\ st' = st.
Proof.
  intros sh p st cf hc mf mem items sh' p' st'. unfold P4.pvAdd0_max.
  destruct mf. { intros H; inversion H; auto. } destruct cf. { intros H; inversion H; auto. }
  destruct (P4.pvSetPtrState _ _ _ _ _) as [[a b] c]. intros H; inversion H.
Qed.
Lemma pvAdd_1_incomplete : forall sh p st hc items mf rf mem newItems sh' p' st',
  P4.pvAdd_1 sh p st hc items mf rf mem newItems = Ok (false, sh', p', st') ->
  (mf = true \/ rf = true) /\ sh' = sh /\ p' = p /\ st' = st.
Proof.
  intros sh p st hc items mf rf mem newItems sh' p' st'. unfold P4.pvAdd_1. cbv zeta.
  destruct mf. { intros H; inversion H; auto. } destruct rf. { intros H; inversion H; auto. }
  destruct (P4.pvSetPtrState _ _ _ _ _) as [[a b] c]. intros H; inversion H.
Qed.
Lemma pvAdd_2_incomplete : forall sh p st hc items mf rf mem newItems sh' p' st',
  P4.pvAdd_2 sh p st hc items mf rf mem newItems = Ok (false, sh', p', st') ->
  (mf = true \/ rf = true) /\ sh' = sh /\ p' = p /\ st' = st.
Proof.
  intros sh p st hc items mf rf mem newItems sh' p' st'. unfold P4.pvAdd_2. cbv zeta.
  destruct mf. { intros H; inversion H; auto. } destruct rf. { intros H; inversion H; auto. }
  destruct (P4.pvSetPtrState _ _ _ _ _) as [[a b] c]. intros H; inversion H.
Qed.
Lemma pvAdd_3_incomplete : forall sh p st hc items mf rf mem newItems sh' p' st',
  P4.pvAdd_3 sh p st hc items mf rf mem newItems = Ok (false, sh', p', st') ->
  (mf = true \/ rf = true) /\ sh' = sh /\ p' = p /\ st' = st.
Proof.
  intros sh p st hc items mf rf mem newItems sh' p' st'. unfold P4.pvAdd_3. cbv zeta.
  destruct mf. { intros H; inversion H; auto. } destruct rf. { intros H; inversion H; auto. }
  destruct (P4.pvSetPtrState _ _ _ _ _) as [[a b] c]. intros H; inversion H.
Qed.

(* non-vacuity: each failing step really yields (false, same fields); without a failure the function completes *)
Lemma pvAdd0_min_alloc_fails : forall sh p st cf hc mem items,
  P4.pvAdd0_min sh p st cf hc true mem items = Ok (false, sh, p, st).
Proof. reflexivity. Qed.
Lemma pvAdd0_min_creator_fails : forall sh p st hc mem items,
  P4.pvAdd0_min sh p st true hc false mem items = Ok (false, sh, p, st).
Proof. reflexivity. Qed.
Lemma pvAdd_2_relocate_fails : forall sh p st hc items mem newItems,
  P4.pvAdd_2 sh p st hc items false true mem newItems = Ok (false, sh, p, st).
Proof. reflexivity. Qed.
Lemma pvAdd_2_completes : forall sh p st hc items mem newItems,
  exists sh' p' st', P4.pvAdd_2 sh p st hc items false false mem newItems = Ok (true, sh', p', st').
Proof.
  intros. unfold P4.pvAdd_2. cbv zeta. destruct (P4.pvSetPtrState _ _ _ _ _) as [[a b] c]. eexists _, _, _. reflexivity.
Qed.

(* ---- the whole generated AddCrt dispatcher (HashBucketLimP4.h:309-356): the callee's completed flag is passed on, every failure
   flag of pvAdd0 / pvAdd is a parameter.  AddCrt writes the hash-PROBE byte of the new slot (pvSetHashProbe) BEFORE the step that may
   throw, so "all bytes unchanged" is false; what holds: the pointer state is unchanged, and a byte that differs lies strictly above the
   slot index being filled and is an `empty` marker (>= 128) -- hence (bucket_wf) the count and the short hashes of the occupied
   slots are unchanged. *)
Lemma bit7_ge128 : forall z, Z.testbit z 7 = true -> 128 <= wrapU 8 z < 256.
Proof.
  intros z H. unfold wrapU. assert (Hb : Z.testbit (z mod 2 ^ 8) 7 = true) by (rewrite Z.mod_pow2_bits_low by lia; exact H).
  apply Z.testbit_true in Hb; [|lia]. change (2 ^ 8) with 256 in *. change (2 ^ 7) with 128 in Hb.
  pose proof (Z.mod_pos_bound z 256 ltac:(lia)). Ltac Zify.zify_post_hook ::= Z.div_mod_to_equations. lia.
Qed.

Section Disp.
Variables (hashCount minMemPoolIndex : Z).
Hypothesis HhashCount : 4 <= hashCount <= 8.

Definition differs_above (sh sh' : Z -> Z) (idx : Z) : Prop :=
  forall i, sh' i <> sh i -> idx < i /\ 128 <= sh' i < 256.

Lemma differs_refl : forall sh idx, differs_above sh sh idx.
Proof. intros sh idx i H. congruence. Qed.

Lemma set_probe_spec : forall sh p st idx hc lbc pr, 0 <= idx < 4 ->
  differs_above sh (P4.pvSetHashProbe hashCount sh p st idx hc lbc pr) idx.
Proof.
  intros sh p st idx hc lbc pr Hidx. unfold P4.pvSetHashProbe. cbn [P4.useHashCodePartGetter negb orb].
  assert (Hw : wrapU 64 (wrapU 64 (hashCount - 1) - idx) = hashCount - 1 - idx).
  { rewrite (wrapU_small 64 (hashCount - 1)) by lia. apply wrapU_small. lia. }
  rewrite Hw. destruct (Z.leb_spec (hashCount - 1 - idx) idx) as [Hle|Hgt]; [apply differs_refl|].
  intros i Hne. unfold upd in *. destruct (Z.eqb_spec i (hashCount - 1 - idx)) as [Hi|Hi]; [|congruence].
  split; [lia|]. clear Hne. destruct (Z.ltb _ _).
  - apply bit7_ge128. rewrite !Z.lor_spec. unfold P4.maskEmpty. reflexivity.
  - unfold P4.emptyHashProbe. cbv. split; congruence.
Qed.

Definition fill_index (sh : Z -> Z) (p st : Z) : Z := if Z.eqb p 0 then 0 else P4.pvGetCount sh p st.

Ltac fin := split; [reflexivity|split; [reflexivity|split; [assumption|]]]; tauto.
Theorem AddCrt_incomplete : forall sh p st cf hc lbc pr mf0 m0 i0 mfx mx ix mf3 rf3 m3 n3 mf2 rf2 m2 n2 mf1 rf1 m1 n1 sh' p' st',
  P4.AddCrt hashCount minMemPoolIndex sh p st cf hc lbc pr mf0 m0 i0 mfx mx ix mf3 rf3 m3 n3 mf2 rf2 m2 n2 mf1 rf1 m1 n1
    = Ok (false, sh', p', st') ->
  p' = p /\ st' = st /\ differs_above sh sh' (fill_index sh p st) /\
  (cf = true \/ mf0 = true \/ mfx = true \/ mf1 = true \/ rf1 = true \/ mf2 = true \/ rf2 = true \/ mf3 = true \/ rf3 = true).
Proof.
  intros until st'. unfold P4.AddCrt, fill_index. cbv zeta.
  set (mpi := P4.pvGetMemPoolIndex sh p st). set (cnt := P4.pvGetCount sh p st).
  destruct (Z.eqb p 0).
  - destruct (orb _ _); [|discriminate].
    pose proof (set_probe_spec sh p st 0 hc lbc pr ltac:(lia)) as Hd. set (sh1 := P4.pvSetHashProbe _ _ _ _ _ _ _ _) in *.
    destruct (Z.eqb mpi minMemPoolIndex).
    + destruct (P4.pvAdd0_min _ _ _ _ _ _ _ _) as [[[[c a] b] d]| | |] eqn:E; try discriminate. intros H; inversion H; subst.
      apply pvAdd0_min_incomplete in E. destruct E as (Hf & -> & -> & ->). destruct Hf; fin.
    + destruct (P4.pvAdd0_max _ _ _ _ _ _ _ _) as [[[[c a] b] d]| | |] eqn:E; try discriminate. intros H; inversion H; subst.
      apply pvAdd0_max_incomplete in E. destruct E as (Hf & -> & -> & ->). destruct Hf; fin.
  - destruct (Z.ltb 0 cnt) eqn:H0; [|discriminate]. destruct (Z.leb cnt mpi) eqn:Hle; [|discriminate]. cbn [andb].
    destruct (Z.ltb_spec cnt P4.maxCount) as [Hlt|]; [|discriminate]. unfold P4.maxCount in Hlt. apply Z.ltb_lt in H0.
    destruct (Z.eqb_spec cnt mpi) as [Heq|Hne].
    + destruct (Z.eqb_spec mpi 1) as [E1|]; [|destruct (Z.eqb_spec mpi 2) as [E2|]; [|destruct (Z.eqb_spec mpi 3) as [E3|]; [|discriminate]]].
      * pose proof (set_probe_spec sh p st 1 hc lbc pr ltac:(lia)) as Hd. set (sh1 := P4.pvSetHashProbe _ _ _ _ _ _ _ _) in *.
        destruct (P4.pvAdd_1 _ _ _ _ _ _ _ _ _) as [[[[c a] b] d]| | |] eqn:E; try discriminate. intros H; inversion H; subst.
        apply pvAdd_1_incomplete in E. destruct E as (Hf & -> & -> & ->). rewrite Heq, E1. destruct Hf; fin.
      * pose proof (set_probe_spec sh p st 2 hc lbc pr ltac:(lia)) as Hd. set (sh1 := P4.pvSetHashProbe _ _ _ _ _ _ _ _) in *.
        destruct (P4.pvAdd_2 _ _ _ _ _ _ _ _ _) as [[[[c a] b] d]| | |] eqn:E; try discriminate. intros H; inversion H; subst.
        apply pvAdd_2_incomplete in E. destruct E as (Hf & -> & -> & ->). rewrite Heq, E2. destruct Hf; fin.
      * pose proof (set_probe_spec sh p st 3 hc lbc pr ltac:(lia)) as Hd. set (sh1 := P4.pvSetHashProbe _ _ _ _ _ _ _ _) in *.
        destruct (P4.pvAdd_3 _ _ _ _ _ _ _ _ _) as [[[[c a] b] d]| | |] eqn:E; try discriminate. intros H; inversion H; subst.
        apply pvAdd_3_incomplete in E. destruct E as (Hf & -> & -> & ->). rewrite Heq, E3. destruct Hf; fin.
    + pose proof (set_probe_spec sh p st cnt hc lbc pr ltac:(lia)) as Hd. set (sh1 := P4.pvSetHashProbe _ _ _ _ _ _ _ _) in *.
      destruct cf.
      * intros H; inversion H; subst. fin.
      * destruct (P4.pvSetPtrState _ _ _ _ _) as [[a b] c]. discriminate.
Qed.

(* bucket well-formedness as far as the count is concerned: the slots at and above the fill index carry `empty` markers *)
Definition bucket_wf (sh : Z -> Z) (p st : Z) : Prop :=
  (p = 0 -> P4.pvGetCount sh p st = 0) /\ forall i, P4.pvGetCount sh p st <= i < 4 -> 128 <= sh i.

Theorem AddCrt_failure_keeps_bucket : forall sh p st cf hc lbc pr mf0 m0 i0 mfx mx ix mf3 rf3 m3 n3 mf2 rf2 m2 n2 mf1 rf1 m1 n1 sh' p' st',
  bucket_wf sh p st ->
  P4.AddCrt hashCount minMemPoolIndex sh p st cf hc lbc pr mf0 m0 i0 mfx mx ix mf3 rf3 m3 n3 mf2 rf2 m2 n2 mf1 rf1 m1 n1
    = Ok (false, sh', p', st') ->
  p' = p /\ st' = st /\ P4.pvGetCount sh' p' st' = P4.pvGetCount sh p st /\
  (forall i, i < P4.pvGetCount sh p st -> sh' i = sh i) /\ bucket_wf sh' p' st'.
Proof.
  intros until st'. intros [Hz Hwf] H. apply AddCrt_incomplete in H. destruct H as (-> & -> & Hd & _).
  assert (Hfi : fill_index sh p st = P4.pvGetCount sh p st).
  { unfold fill_index. destruct (Z.eqb_spec p 0); auto. symmetry; auto. }
  rewrite Hfi in Hd.
  assert (Hlow : forall i, i <= P4.pvGetCount sh p st -> sh' i = sh i).
  { intros i Hi. destruct (Z.eq_dec (sh' i) (sh i)) as [|Hne]; auto. apply Hd in Hne. lia. }
  assert (Hcls : forall i, 0 <= i < 4 -> (sh' i <? 128) = (sh i <? 128)).
  { intros i Hi. destruct (Z.eq_dec (sh' i) (sh i)) as [->|Hne]; auto. destruct (Hd i Hne) as [Hgt Hr].
    pose proof (Hwf i ltac:(lia)). destruct (Z.ltb_spec (sh' i) 128), (Z.ltb_spec (sh i) 128); auto; lia. }
  assert (Hcnt : P4.pvGetCount sh' p st = P4.pvGetCount sh p st).
  { unfold P4.pvGetCount, P4.maskEmpty. rewrite !Z.geb_leb.
    pose proof (Hcls 0 ltac:(lia)) as C0. pose proof (Hcls 1 ltac:(lia)) as C1. pose proof (Hcls 2 ltac:(lia)) as C2. pose proof (Hcls 3 ltac:(lia)) as C3.
    rewrite C0, C2, C3. replace (128 <=? sh' 1) with (128 <=? sh 1); auto.
    destruct (Z.leb_spec 128 (sh' 1)), (Z.leb_spec 128 (sh 1)), (Z.ltb_spec (sh' 1) 128), (Z.ltb_spec (sh 1) 128); auto; try lia; discriminate. }
  repeat split; auto.
  - intros i Hi. apply Hlow. lia.
  - rewrite Hcnt. auto.
  - rewrite Hcnt. intros i Hi. destruct (Z.eq_dec (sh' i) (sh i)) as [->|Hne]; [apply Hwf; auto|]. apply Hd in Hne. lia.
Qed.
End Disp.

(* non-vacuity: the empty bucket (all bytes 255, null pointer) is well-formed, and each failure flag really produces `false` *)
Lemma empty_bucket_wf : forall st, bucket_wf (fun _ => 255) 0 st.
Proof. intros st. split; [reflexivity|]. intros i _. lia. Qed.
Lemma AddCrt_alloc_failure_reached : forall cf,
  match P4.AddCrt 6 2 (fun _ => 255) 0 1 cf 12345 3 0 true 0 0 true 0 0 false false 0 0 false false 0 0 false false 0 0 with
  | Ok (false, sh', 0, 1) => sh' 0 = 255 /\ sh' 1 = 255 | _ => False end.
Proof. intros cf. vm_compute. split; reflexivity. Qed.
Lemma AddCrt_completes_reached :
  match P4.AddCrt 6 2 (fun _ => 255) 0 1 false 12345 3 0 false 4096 4096 false 0 0 false false 0 0 false false 0 0 false false 0 0 with
  | Ok (true, sh', p', st') => P4.pvGetCount sh' p' st' = 1 /\ p' = 4096 | _ => False end.
Proof. vm_compute. split; reflexivity. Qed.
