// C03 implementation side, part 1: micro-correspondence.  Drives the REAL ObjectManager / Array / HashSet / TreeSet
// code on kit elements and prints the canonical event trace of one mechanism instance; the extracted Coq model
// (ocaml/driver.ml, Effects.v) prints the same format.   Case lines (k = index of the failing fallible step, -1 = none):
//   om reloc|relocexec|reloccreate|moveexec|copyexec <cat> <count> <k>
//   arr regrow|addback <cat> <count> <cap> <newcap> <k>
//   hs <cat> <n> <k>        HashSet copy constructor (+ destructor)      ts <cat> <n> <k>   TreeSet copy constructor
// Output:  <val|exc> <trace tokens...> ! <live blocks> <live objs> <#kit errors>
// Tokens: C<dst>.<src> copy  M<dst>.<src> move  X<obj> destroy  A<blk>.<size> / D<blk>.<size>  F failure; objects and
// blocks are renamed in order of first appearance inside the window; for hs/ts the sizes are omitted and runs of
// consecutive X tokens are sorted (bucket order vs insertion order is not part of the resource model).
#include "private_access.h"
#include "kit.h"
#include "momo/Array.h"
#include "momo/HashSet.h"
#include "momo/TreeSet.h"
using namespace momo;
typedef unsigned long long ull;

struct PlainHash { template<class T> size_t operator()(const T& t) const { return size_t(t.Value()); } };
struct PlainEq { template<class A, class B> bool operator()(const A& a, const B& b) const { return a.Value() == b.Value(); } };
struct PlainLess { template<class A, class B> bool operator()(const A& a, const B& b) const { return a.Value() < b.Value(); } };

static std::string canon(bool sizes, bool sortX)
{
	kit::World& w = kit::W();
	std::map<ull, ull> os, bs;
	auto O = [&](ull x) { auto it = os.find(x); if (it != os.end()) return it->second; ull n = os.size(); return os[x] = n; };
	auto B = [&](ull x) { auto it = bs.find(x); if (it != bs.end()) return it->second; ull n = bs.size(); return bs[x] = n; };
	std::vector<std::string> toks;
	std::vector<ull> xrun;
	auto flush = [&]() { if (sortX) std::sort(xrun.begin(), xrun.end()); for (ull x : xrun) toks.push_back("X" + std::to_string(x)); xrun.clear(); };
	for (auto& e : w.elog)
	{
		if (e.kind == 'U') continue;
		if (e.kind == 'X') { xrun.push_back(O(e.a)); continue; }
		flush();
		switch (e.kind)
		{
		case 'N': toks.push_back("N" + std::to_string(O(e.a))); break;
		case 'C': { ull s = O(e.b); ull d = O(e.a); toks.push_back("C" + std::to_string(d) + "." + std::to_string(s)); break; }
		case 'M': { ull s = O(e.b); ull d = O(e.a); toks.push_back("M" + std::to_string(d) + "." + std::to_string(s)); break; }
		case 'A': toks.push_back("A" + std::to_string(B(e.b)) + (sizes ? "." + std::to_string(e.c) : "")); break;
		case 'D': toks.push_back("D" + std::to_string(B(e.b)) + (sizes ? "." + std::to_string(e.c) : "")); break;
		case 'F': toks.push_back("F"); break;
		}
	}
	flush();
	std::string r;
	for (auto& t : toks) r += " " + t;
	return r;
}

static void window_begin(long k) { kit::World& w = kit::W(); w.elog_reset(); w.elogging = true; w.arm_step(k); }
static void window_end() { kit::World& w = kit::W(); w.disarm(); w.elogging = false; }

template<class E> static void run_om(const std::string& mech, size_t count, long k)
{
	typedef internal::ObjectManager<E, kit::MM> OM;
	kit::MM mm(1);
	std::vector<E*> keep;
	E* src = static_cast<E*>(std::malloc(sizeof(E) * (count + 2)));
	E* dst = static_cast<E*>(std::malloc(sizeof(E) * (count + 2)));
	std::vector<bool> srcLive(count + 2, false), dstLive(count + 2, false);
	size_t nsrc = (mech == "moveexec" || mech == "copyexec") ? 1 : count;
	for (size_t i = 0; i < nsrc; ++i) { ::new (static_cast<void*>(src + i)) E(int64_t(100 + i)); srcLive[i] = true; }
	E arg(int64_t(7));
	bool thrown = false;
	auto nop = []() { kit::W().step_func(); };
	window_begin(k);
	try
	{
		if (mech == "reloc") OM::Relocate(mm, src, dst, count);
		else if (mech == "relocexec") OM::RelocateExec(mm, src, dst, count, nop);
		else if (mech == "reloccreate")
			OM::RelocateCreate(mm, src, dst, count, typename OM::template Creator<const E&>(mm, arg), dst + count);
		else if (mech == "moveexec") OM::MoveExec(mm, std::move(src[0]), dst, nop);
		else if (mech == "copyexec") OM::CopyExec(mm, src[0], dst, nop);
	}
	catch (const std::exception&) { thrown = true; }
	window_end();
	std::string tr = canon(true, false);
	// clean up whatever is live according to the kit registry (the oracle for "exactly these are live" is the summary below)
	for (size_t i = 0; i < count + 2; ++i)
	{
		if (kit::W().objs.count(src + i)) src[i].~E();
		if (kit::W().objs.count(dst + i)) dst[i].~E();
	}
	std::free(src); std::free(dst);
	printf("%s%s", thrown ? "exc" : "val", tr.c_str());
}

template<class E> static void run_arr(const std::string& op, size_t count, size_t cap, size_t newcap, long k)
{
	typedef Array<E, kit::MM, ArrayItemTraits<E, kit::MM>, ArraySettings<0, false>> Arr;
	bool thrown = false;
	E arg(int64_t(7));
	{
		Arr a{kit::MM(1)};
		if (cap > 0) a.Reserve(cap);
		for (size_t i = 0; i < count; ++i) a.AddBack(E(int64_t(100 + i)));
		if (a.GetCapacity() != cap) { printf("bad-setup cap=%llu", ull(a.GetCapacity())); return; }
		window_begin(k);
		try
		{
			if (op == "regrow") { if (newcap > cap) a.Reserve(newcap); else a.Shrink(newcap); }
			else a.AddBack(static_cast<const E&>(arg));
		}
		catch (const std::exception&) { thrown = true; }
		kit::W().disarm();
		if (!thrown && a.GetCapacity() != newcap) { window_end(); printf("bad-newcap cap=%llu", ull(a.GetCapacity())); return; }
	}	// ~Array inside the window
	window_end();
	printf("%s%s", thrown ? "exc" : "val", canon(true, false).c_str());
}

template<class E> static void run_hs(size_t n, long k)
{
	typedef HashSet<E, HashTraitsStd<E, PlainHash, PlainEq, HashBucketOpenDefault>, kit::MM> HS;
	bool thrown = false;
	{
		HS src(typename HS::HashTraits(), kit::MM(1));
		for (size_t i = 0; i < n; ++i) src.Insert(E(int64_t(100 + i)));
		window_begin(k);
		try { HS copy(src, kit::MM(1)); kit::W().disarm(); }
		catch (const std::exception&) { thrown = true; }
		window_end();
	}
	printf("%s%s", thrown ? "exc" : "val", canon(false, true).c_str());
}

template<class E> static void run_ts(size_t n, long k)
{
	typedef TreeSet<E, TreeTraitsStd<E, PlainLess>, kit::MM> TS;
	bool thrown = false;
	{
		TS src(typename TS::TreeTraits(), kit::MM(1));
		for (size_t i = 0; i < n; ++i) src.Insert(E(int64_t(100 + i)));
		window_begin(k);
		try { TS copy(src, kit::MM(1)); kit::W().disarm(); }
		catch (const std::exception&) { thrown = true; }
		window_end();
	}
	printf("%s%s", thrown ? "exc" : "val", canon(false, true).c_str());
}

int main()
{
	std::string line;
	while (std::getline(std::cin, line))
	{
		std::istringstream is(line); std::string cmd, a, cat; is >> cmd;
		kit::W().errors.clear();
		if (cmd == "om")
		{
			size_t count; long k; is >> a >> cat >> count >> k;
			if (cat == "ntm") run_om<kit::ElemNtm>(a, count, k); else run_om<kit::ElemCpo>(a, count, k);
		}
		else if (cmd == "arr")
		{
			size_t count, cap, newcap; long k; is >> a >> cat >> count >> cap >> newcap >> k;
			if (cat == "ntm") run_arr<kit::ElemNtm>(a, count, cap, newcap, k); else run_arr<kit::ElemCpo>(a, count, cap, newcap, k);
		}
		else if (cmd == "hs")
		{
			size_t n; long k; is >> cat >> n >> k;
			if (cat == "ntm") run_hs<kit::ElemNtm>(n, k); else run_hs<kit::ElemCpo>(n, k);
		}
		else if (cmd == "ts")
		{
			size_t n; long k; is >> cat >> n >> k;
			if (cat == "ntm") run_ts<kit::ElemNtm>(n, k); else run_ts<kit::ElemCpo>(n, k);
		}
		else printf("?");
		printf(" ! %s\n", kit::summary().c_str());
		fflush(stdout);
	}
	return 0;
}
