(* C09 (b): abstract pool model over sets of live blocks (two pools sharing one memory manager).
   A block is a Z; each pool has the blocks handed out (`live`), the free blocks it holds in its buffers or cache
   (`spare`) and its counter (mData.allocCount).  Which spare/fresh block Allocate returns is left to the caller of the
   model (the op carries it), so the theorems hold for every placement / cache policy. *)
From Coq Require Import ZArith List Bool Lia Permutation.
Import ListNotations.
Local Open Scope Z_scope.

Record pool := mkPool { live : list Z; spare : list Z; acount : Z }.
Definition world := (pool * pool)%type.
Definition get (w : world) (p : bool) : pool := if p then snd w else fst w.
Definition put (w : world) (p : bool) (x : pool) : world := if p then (fst w, x) else (x, snd w).
Definition blocks (w : world) : list Z := live (fst w) ++ spare (fst w) ++ live (snd w) ++ spare (snd w).

Definition memb (x : Z) (l : list Z) : bool := existsb (Z.eqb x) l.
Definition remove1 (x : Z) (l : list Z) : list Z := filter (fun y => negb (y =? x)) l.

Inductive op :=
| Alloc (p : bool) (b : Z)              (* Allocate() of pool p returned block b *)
| Dealloc (p : bool) (b : Z)            (* Deallocate(b) *)
| DeallocIf (p : bool) (f : Z -> bool)  (* DeallocateIf(f) *)
| DeallocAll (p : bool)
| Merge (d : bool).                     (* pool d .MergeFrom(the other pool) *)

Definition step (w : world) (o : op) : world :=
  match o with
  | Alloc p b =>
    let x := get w p in
    if memb b (spare x) then put w p (mkPool (b :: live x) (remove1 b (spare x)) (acount x + 1))    (* reused free block *)
    else if memb b (blocks w) then w                                                                (* not available: impossible *)
    else put w p (mkPool (b :: live x) (spare x) (acount x + 1))                                    (* block of a new buffer *)
  | Dealloc p b =>
    let x := get w p in
    if memb b (live x) then put w p (mkPool (remove1 b (live x)) (b :: spare x) (acount x - 1)) else w
  | DeallocIf p f =>
    let x := get w p in
    put w p (mkPool (filter (fun b => negb (f b)) (live x)) (filter f (live x) ++ spare x)
                    (acount x - Z.of_nat (length (filter f (live x)))))
  | DeallocAll p => let x := get w p in put w p (mkPool [] (live x ++ spare x) 0)
  | Merge d =>
    let x := get w d in let y := get w (negb d) in
    put (put w d (mkPool (live x ++ live y) (spare x ++ spare y) (acount x + acount y))) (negb d) (mkPool [] [] 0)
  end.

Definition run (w : world) (ops : list op) : world := fold_left step ops w.
Definition empty : world := (mkPool [] [] 0, mkPool [] [] 0).

Definition inv (w : world) : Prop :=
  NoDup (blocks w) /\ acount (fst w) = Z.of_nat (length (live (fst w))) /\ acount (snd w) = Z.of_nat (length (live (snd w))).

Lemma memb_In x l : memb x l = true <-> In x l.
Proof.
  unfold memb. rewrite existsb_exists. split.
  - intros (y & Hy & E). apply Z.eqb_eq in E. subst. exact Hy.
  - intros H. exists x. split; [exact H|apply Z.eqb_refl].
Qed.

Lemma remove1_In x y l : In y (remove1 x l) <-> In y l /\ y <> x.
Proof.
  unfold remove1. rewrite filter_In. split; intros (H1 & H2); split; auto.
  - intro E. subst. rewrite Z.eqb_refl in H2. discriminate.
  - apply negb_true_iff. apply Z.eqb_neq. exact H2.
Qed.

Lemma NoDup_filter {A} (f : A -> bool) l : NoDup l -> NoDup (filter f l).
Proof.
  induction 1 as [|x l Hx ND IH]; simpl; [constructor|].
  destruct (f x); [constructor; auto; rewrite filter_In; tauto|exact IH].
Qed.

Lemma remove1_notin x l : ~ In x l -> remove1 x l = l.
Proof.
  induction l as [|z l IH]; intros H; [reflexivity|]. unfold remove1 in *. simpl.
  destruct (Z.eqb_spec z x); [subst; exfalso; apply H; left; reflexivity|]. simpl. f_equal. apply IH. intro; apply H; right; assumption.
Qed.

Lemma remove1_length x l : NoDup l -> In x l -> Z.of_nat (length (remove1 x l)) = Z.of_nat (length l) - 1.
Proof.
  induction 1 as [|y l Hy ND IH]; intros Hin; [destruct Hin|].
  unfold remove1 in *. cbn [filter length]. destruct (Z.eqb_spec y x) as [E|E]; cbn [negb].
  - subst. fold (remove1 x l). rewrite remove1_notin by assumption. rewrite Nat2Z.inj_succ. lia.
  - destruct Hin as [Hin|Hin]; [congruence|]. cbn [length]. rewrite !Nat2Z.inj_succ. rewrite IH by assumption. lia.
Qed.

Lemma filter_partition_perm (f : Z -> bool) l : Permutation l (filter (fun b => negb (f b)) l ++ filter f l).
Proof.
  induction l as [|x l IH]; simpl; [constructor|]. destruct (f x); simpl.
  - apply Permutation_cons_app. exact IH.
  - constructor. exact IH.
Qed.

Lemma filter_partition_length (f : Z -> bool) l :
  Z.of_nat (length (filter (fun b => negb (f b)) l)) = Z.of_nat (length l) - Z.of_nat (length (filter f l)).
Proof. induction l as [|x l IH]; [reflexivity|]. cbn [filter length]. destruct (f x); cbn [negb length]; rewrite ?Nat2Z.inj_succ; lia. Qed.

Lemma perm_take b s : NoDup s -> In b s -> Permutation s (b :: remove1 b s).
Proof.
  intros ND Hin. apply NoDup_Permutation; [exact ND| |].
  - constructor; [rewrite remove1_In; tauto|]. apply NoDup_filter. exact ND.
  - intros y. simpl. rewrite remove1_In. destruct (Z.eq_dec y b); [subst; tauto|].
    split; [intros; right; split; auto|intros [E|[? ?]]; [congruence|assumption]].
Qed.

Lemma NoDup_app_remove_l (A B : list Z) : NoDup (A ++ B) -> NoDup B.
Proof. induction A as [|x A IH]; simpl; intros H; [exact H|]. inversion H; subst. auto. Qed.
Lemma NoDup_app_remove_r (A B : list Z) : NoDup (A ++ B) -> NoDup A.
Proof.
  induction A as [|x A IH]; simpl; intros H; [constructor|]. inversion H as [|? ? Nx ND]; subst.
  constructor; [intro; apply Nx; apply in_or_app; left; assumption|auto].
Qed.

Lemma NoDup_parts (l1 s1 l2 s2 : list Z) : NoDup (l1 ++ s1 ++ l2 ++ s2) -> NoDup l1 /\ NoDup s1 /\ NoDup l2 /\ NoDup s2.
Proof.
  intros ND. split; [apply NoDup_app_remove_r in ND; exact ND|]. apply NoDup_app_remove_l in ND.
  split; [apply NoDup_app_remove_r in ND; exact ND|]. apply NoDup_app_remove_l in ND.
  split; [apply NoDup_app_remove_r in ND; exact ND|]. apply NoDup_app_remove_l in ND. exact ND.
Qed.

(* every operation preserves: no block is in two places at once (in particular no block is handed out twice and no
   live block is simultaneously free), and each pool's counter equals the number of its live blocks *)
Lemma step_inv w o : inv w -> inv (step w o).
Proof.
  destruct w as [[l1 s1 a1] [l2 s2 a2]]. unfold inv, blocks. cbn [fst snd live spare acount]. intros (ND & A1 & A2).
  destruct (NoDup_parts _ _ _ _ ND) as (N1 & N2 & N3 & N4).
  destruct o as [p b|p b|p f|p|d]; cbn [step].
  - (* Alloc *)
    destruct p; unfold get, put, blocks; cbn [fst snd live spare acount].
    + destruct (memb b s2) eqn:M.
      * apply memb_In in M. cbn [fst snd live spare acount length]. split; [|split; [assumption|rewrite Nat2Z.inj_succ; lia]].
        eapply Permutation_NoDup; [|exact ND].
        apply Permutation_app_head. apply Permutation_app_head.
        rewrite (perm_take b s2 N4 M) at 1. cbn [app]. symmetry. apply Permutation_middle.
      * destruct (memb b (l1 ++ s1 ++ l2 ++ s2)) eqn:M2; cbn [fst snd live spare acount length]; [split; [|split]; assumption|].
        assert (~ In b (l1 ++ s1 ++ l2 ++ s2)) as NI by (rewrite <- memb_In; congruence).
        split; [|split; [assumption|rewrite Nat2Z.inj_succ; lia]].
        eapply Permutation_NoDup with (l := b :: l1 ++ s1 ++ l2 ++ s2); [|constructor; assumption].
        cbn [app]. rewrite (app_assoc l1 s1 (l2 ++ s2)), (app_assoc l1 s1 (b :: l2 ++ s2)). apply Permutation_middle.
    + destruct (memb b s1) eqn:M.
      * apply memb_In in M. cbn [fst snd live spare acount length]. split; [|split; [rewrite Nat2Z.inj_succ; lia|assumption]].
        eapply Permutation_NoDup; [|exact ND].
        rewrite (perm_take b s1 N2 M) at 1. cbn [app]. symmetry. apply Permutation_middle.
      * destruct (memb b (l1 ++ s1 ++ l2 ++ s2)) eqn:M2; cbn [fst snd live spare acount length]; [split; [|split]; assumption|].
        assert (~ In b (l1 ++ s1 ++ l2 ++ s2)) as NI by (rewrite <- memb_In; congruence).
        split; [|split; [rewrite Nat2Z.inj_succ; lia|assumption]].
        cbn [app]. constructor; assumption.
  - (* Dealloc *)
    destruct p; unfold get, put, blocks; cbn [fst snd live spare acount].
    + destruct (memb b l2) eqn:M; cbn [fst snd live spare acount]; [|split; [|split]; assumption].
      apply memb_In in M. split; [|split; [assumption|rewrite remove1_length by assumption; lia]].
      eapply Permutation_NoDup; [|exact ND].
      apply Permutation_app_head. apply Permutation_app_head. rewrite (perm_take b l2 N3 M) at 1. cbn [app]. apply Permutation_middle.
    + destruct (memb b l1) eqn:M; cbn [fst snd live spare acount]; [|split; [|split]; assumption].
      apply memb_In in M. split; [|split; [rewrite remove1_length by assumption; lia|assumption]].
      eapply Permutation_NoDup; [|exact ND].
      rewrite (perm_take b l1 N1 M) at 1. cbn [app]. apply Permutation_middle.
  - (* DeallocIf *)
    destruct p; unfold get, put, blocks; cbn [fst snd live spare acount].
    + split; [|split; [assumption|rewrite filter_partition_length; lia]].
      eapply Permutation_NoDup; [|exact ND].
      apply Permutation_app_head. apply Permutation_app_head. rewrite app_assoc. apply Permutation_app_tail. apply filter_partition_perm.
    + split; [|split; [rewrite filter_partition_length; lia|assumption]].
      eapply Permutation_NoDup; [|exact ND].
      rewrite <- (app_assoc (filter f l1) s1). rewrite (app_assoc (filter (fun b => negb (f b)) l1) (filter f l1)).
      apply Permutation_app_tail. apply filter_partition_perm.
  - (* DeallocAll *)
    destruct p; unfold get, put, blocks; cbn [fst snd live spare acount app length]; rewrite <- ?app_assoc;
    (split; [assumption|split; [try assumption; reflexivity|try assumption; reflexivity]]).
  - (* Merge *)
    assert (Permutation (l1 ++ s1 ++ l2 ++ s2) ((l1 ++ l2) ++ s1 ++ s2)) as P.
    { rewrite <- app_assoc. apply Permutation_app_head. rewrite !app_assoc. apply Permutation_app_tail. apply Permutation_app_comm. }
    destruct d; unfold get, put, blocks; cbn [fst snd live spare acount negb app length]; rewrite ?app_nil_r.
    + split; [|split; [reflexivity|rewrite app_length, Nat2Z.inj_add; lia]].
      eapply Permutation_NoDup; [|exact ND]. rewrite P. apply Permutation_app; apply Permutation_app_comm.
    + split; [|split; [rewrite app_length, Nat2Z.inj_add; lia|reflexivity]].
      eapply Permutation_NoDup; [|exact ND]. exact P.
Qed.

Lemma inv_empty : inv empty.
Proof. unfold inv, empty, blocks. simpl. repeat split; try constructor. Qed.

Theorem run_inv ops : inv (run empty ops).
Proof.
  unfold run. generalize inv_empty. generalize empty. induction ops as [|o ops IH]; intros w Hw; simpl; [exact Hw|].
  apply IH. apply step_inv. exact Hw.
Qed.

(* consequences for every history: a block is never handed out twice (the live sets are duplicate-free and disjoint from
   each other and from the free blocks), GetAllocateCount = number of live blocks, and the counter is 0 exactly when
   every block has been returned *)
Theorem no_block_twice ops :
  let w := run empty ops in
  NoDup (live (fst w) ++ live (snd w)) /\
  (forall b, In b (live (fst w) ++ live (snd w)) -> ~ In b (spare (fst w) ++ spare (snd w))) /\
  acount (fst w) = Z.of_nat (length (live (fst w))) /\ acount (snd w) = Z.of_nat (length (live (snd w))).
Proof.
  cbv zeta. destruct (run_inv ops) as (ND & A1 & A2). unfold blocks in ND.
  set (w := run empty ops) in *. clearbody w. destruct w as [[l1 s1 a1] [l2 s2 a2]]. simpl in *.
  assert (Permutation (l1 ++ s1 ++ l2 ++ s2) ((l1 ++ l2) ++ (s1 ++ s2))) as P.
  { rewrite <- !app_assoc. apply Permutation_app_head. rewrite !app_assoc. apply Permutation_app_tail. apply Permutation_app_comm. }
  pose proof (Permutation_NoDup P ND) as ND'.
  split; [apply NoDup_app_remove_r in ND'; exact ND'|]. split; [|split; assumption].
  intros b Hb Hs. clear - ND' Hb Hs. induction (l1 ++ l2) as [|x l IH]; [destruct Hb|].
  simpl in ND'. inversion ND' as [|? ? Nx NDl]; subst. destruct Hb as [E|Hb].
  - subst. apply Nx. apply in_or_app. right. exact Hs.
  - apply IH; assumption.
Qed.

Theorem count_zero_iff_all_returned ops p :
  let w := run empty ops in acount (get w p) = 0 <-> live (get w p) = [].
Proof.
  cbv zeta. destruct (run_inv ops) as (_ & A1 & A2). destruct p; simpl.
  - rewrite A2. destruct (live (snd (run empty ops))); simpl; split; intros; try reflexivity; try discriminate; lia.
  - rewrite A1. destruct (live (fst (run empty ops))); simpl; split; intros; try reflexivity; try discriminate; lia.
Qed.

(* Deallocate of a live block removes exactly that block; DeallocateIf removes exactly the selected blocks *)
Lemma dealloc_exact w p b : In b (live (get w p)) ->
  live (get (step w (Dealloc p b)) p) = remove1 b (live (get w p)) /\ live (get (step w (Dealloc p b)) (negb p)) = live (get w (negb p)).
Proof.
  intros H. apply memb_In in H. destruct w as [x y]. destruct p; simpl in *; rewrite H; simpl; auto.
Qed.

Lemma deallocif_exact w p f :
  live (get (step w (DeallocIf p f)) p) = filter (fun b => negb (f b)) (live (get w p)) /\
  live (get (step w (DeallocIf p f)) (negb p)) = live (get w (negb p)).
Proof. destruct w as [x y]. destruct p; simpl; auto. Qed.

Lemma merge_exact w d :
  live (get (step w (Merge d)) d) = live (get w d) ++ live (get w (negb d)) /\ live (get (step w (Merge d)) (negb d)) = [].
Proof. destruct w as [x y]. destruct d; simpl; auto. Qed.
