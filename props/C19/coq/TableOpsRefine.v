(* C19 -- the table-object steps of TreiberTables (TSwap, TMoveCtor) ARE the cxx2coq translations of DataTable::Swap,
   DataTable(DataTable&&) and Crew(Crew&&) (Gen_TableSwap.v, Gen_TableCrew.v, regenerated from the headers on every run).
   What matters for detached rows: the Crew pointer (whose Data holds the list head the rows point to) and the raw pool (into
   which the drain deallocates their buffers) always travel TOGETHER from one table object to the other. *)
From Coq Require Import List Arith Bool PeanoNat ZArith Lia.
From C19 Require Import Treiber TreiberInv TreiberRows TreiberTables.
From C19 Require Gen_TableSwap Gen_TableCrew.
Import ListNotations.

Definition enct (c : option nat) : Z := match c with None => 0%Z | Some k => Z.of_nat (S k) end.
Definition dect (z : Z) : option nat := if Z.eqb z 0 then None else Some (Nat.pred (Z.to_nat z)).
Lemma dect_enct c : dect (enct c) = c.
Proof.
  destruct c; unfold dect, enct; [|reflexivity].
  destruct (Z.eqb_spec (Z.of_nat (S n)) 0); [lia|]. rewrite Nat2Z.id. reflexivity.
Qed.

(* DataTable::Swap exchanges all four members: crew and pool (and rows array, indexes) stay together *)
Theorem generated_table_swap_keeps_crew_and_pool_together c1 r1 p1 i1 c2 r2 p2 i2 :
  Gen_TableSwap.Swap c1 r1 p1 i1 c2 r2 p2 i2 = (c2, r2, p2, i2, c1, r1, p1, i1).
Proof. reflexivity. Qed.

(* ... and its effect on "which table object owns the crew" is exactly TSwap *)
Theorem TSwap_is_generated_swap ts t1 t2 ts' r1 p1 i1 r2 p2 i2 :
  t1 <> t2 -> stept ts (TSwap t1 t2) = Some ts' ->
  let '(c1', _, _, _, c2', _, _, _) :=
    Gen_TableSwap.Swap (enct (tab ts t1)) r1 p1 i1 (enct (tab ts t2)) r2 p2 i2 in
  tab ts' t1 = dect c1' /\ tab ts' t2 = dect c2' /\ (forall t, t <> t1 -> t <> t2 -> tab ts' t = tab ts t) /\ tl ts' = tl ts.
Proof.
  intros N H. unfold stept in H. inversion H; subst; clear H. simpl. rewrite !dect_enct.
  repeat split.
  - rewrite upd_neq by auto. apply upd_eq.
  - apply upd_eq.
  - intros t A B. rewrite !upd_neq; auto.
Qed.

(* Crew(Crew&&): the new crew takes the Data pointer, the source is left null; DataTable(DataTable&&) move-constructs its crew
   (and pool) from the source's: exactly TMoveCtor *)
Theorem generated_crew_move_nulls_the_source d : Gen_TableCrew.MoveCtor 0%Z d = (d, 0%Z).
Proof. reflexivity. Qed.

Theorem generated_table_move_takes_crew_and_pool c r p i : forall a b c0 d0,
  Gen_TableSwap.MoveCtor a b c0 d0 c r p i = (c, r, p, i).
Proof. reflexivity. Qed.

Theorem TMoveCtor_is_generated_move ts t' t ts' :
  stept ts (TMoveCtor t' t) = Some ts' ->
  let '(nw, old) := Gen_TableCrew.MoveCtor 0%Z (enct (tab ts t)) in
  tab ts' t' = dect nw /\ tab ts' t = dect old /\ (forall x, x <> t' -> x <> t -> tab ts' x = tab ts x) /\ tl ts' = tl ts.
Proof.
  intros H. unfold stept in H. destruct (Nat.eqb_spec t' t); try discriminate. destruct (tab ts t'); try discriminate.
  inversion H; subst; clear H. simpl. rewrite dect_enct.
  repeat split.
  - rewrite upd_neq by auto. apply upd_eq.
  - apply upd_eq.
  - intros x A B. rewrite !upd_neq; auto.
Qed.

(* a Swap that leaves the crew behind (mutant T1) is not this function *)
Theorem table_swap_without_crew_refuted :
  exists c1 c2, (let '(c1', _, _, _, _, _, _, _) := Gen_TableSwap.Swap c1 0%Z 0%Z 0%Z c2 0%Z 0%Z 0%Z in c1') <> c1.
Proof. exists 1%Z, 2%Z. vm_compute. discriminate. Qed.
