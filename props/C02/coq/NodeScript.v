(* C02 (growth rounds) -- executable node-level model run against REAL `Node` objects (byte for byte: count byte, memPoolIndex,
   capacity, the whole index table, every raw item slot, the child array).  Since the second growth round EVERY state change
   comes from the cxx2coq-generated functions (Gen_Node: pvGetLeafMemPoolIndex; Gen_NodeOpsI / Gen_NodeOpsC: pvInitIndexes,
   AcceptBackItem, Remove incl. the table / item / child shifts); only the glue that the harness itself performs on the real node
   (constructing the new item in GetItemPtr(count), SetChild(index + 1, new child) after AcceptBackItem) is written here. *)
From Coq Require Import ZArith Bool List Lia.
From MomoCommon Require Import GenPrelude.
From C02 Require Import Gen_Node Gen_NodeOpsI Gen_NodeOpsC BTreeModel NodeOps.
Import ListNotations.
Local Open Scope Z_scope.

Record nstate := { ns_mpi : Z; ns_cnt : Z; ns_tbl : Z -> Z; ns_items : Z -> Z; ns_ch : Z -> Z }.

Section NodeScript.
Variables (maxCap stepRaw blockCount : nat) (cont : bool).
Let lp := Z.of_nat (leafPoolCount maxCap stepRaw).
Let mc := Z.of_nat maxCap.
Let st := Z.of_nat (capStep maxCap stepRaw).

Definition ns_capacity (s : nstate) : Z := Gen_NodeOpsI.GetCapacity lp mc st (ns_mpi s) (ns_cnt s) (ns_tbl s) (ns_ch s).
Definition ns_is_leaf (s : nstate) : bool := Gen_NodeOpsI.IsLeaf lp (ns_mpi s) (ns_cnt s) (ns_tbl s) (ns_ch s).

(* Node::Create(params, isLeaf, count): leaf -> pvGetLeafMemPoolIndex (no internal node allocated yet), internal -> leafMemPoolCount;
   the constructor stores count and runs pvInitIndexes (generated) on the raw memory (modelled as all zero); the harness then
   constructs items 1000.. in GetItemPtr(0..count) and sets children 1.. *)
Definition ns_create (leaf : bool) (c0 : nat) : nstate :=
  let mpi := if leaf then Gen_Node.pvGetLeafMemPoolIndex lp mc st (Z.of_nat blockCount) 0 (Z.of_nat c0) else lp in
  let t := match Gen_NodeOpsI.pvInitIndexes mc mpi (Z.of_nat c0) (fun _ => 0) (fun _ => 0) with Ok (_, t') => t' | _ => (fun _ => -1) end in
  {| ns_mpi := mpi; ns_cnt := Z.of_nat c0; ns_tbl := t;
     ns_items := fun j => if andb (0 <=? j) (j <? Z.of_nat c0) then 1000 + j else 0;
     ns_ch := fun j => if leaf then 0 else j + 1 |}.

(* the slot GetItemPtr(i) denotes *)
Definition ns_slot_of (s : nstate) (i : Z) : Z := if cont then i else ns_tbl s i.

Definition ns_accept (s : nstate) (index x newchild : Z) : option nstate :=
  let items1 := upd (ns_items s) (ns_slot_of s (ns_cnt s)) x in        (* itemCreator(node->GetItemPtr(count)) *)
  if cont then
    match Gen_NodeOpsC.AcceptBackItem lp mc st (ns_mpi s) (ns_cnt s) (ns_ch s) items1 index with
    | Ok (_, c, ch', it') => Some {| ns_mpi := ns_mpi s; ns_cnt := c; ns_tbl := ns_tbl s; ns_items := it';
                                     ns_ch := if ns_is_leaf s then ch' else upd ch' (index + 1) newchild |}
    | _ => None
    end
  else
    match Gen_NodeOpsI.AcceptBackItem lp mc st (ns_mpi s) (ns_cnt s) (ns_tbl s) (ns_ch s) index with
    | Ok (_, c, t', ch') => Some {| ns_mpi := ns_mpi s; ns_cnt := c; ns_tbl := t'; ns_items := items1;
                                    ns_ch := if ns_is_leaf s then ch' else upd ch' (index + 1) newchild |}
    | _ => None
    end.

Definition ns_remove (s : nstate) (index : Z) : option nstate :=
  if cont then
    match Gen_NodeOpsC.Remove lp (ns_mpi s) (ns_cnt s) (ns_ch s) (ns_items s) index with
    | Ok (_, c, ch', it') => Some {| ns_mpi := ns_mpi s; ns_cnt := c; ns_tbl := ns_tbl s; ns_items := it'; ns_ch := ch' |}
    | _ => None
    end
  else
    match Gen_NodeOpsI.Remove lp (ns_mpi s) (ns_cnt s) (ns_tbl s) (ns_ch s) index with
    | Ok (_, c, t', ch') => Some {| ns_mpi := ns_mpi s; ns_cnt := c; ns_tbl := t'; ns_items := ns_items s; ns_ch := ch' |}
    | _ => None
    end.

(* what the harness prints *)
Definition zseq (n : nat) : list Z := map Z.of_nat (seq 0 n).
Definition ns_table (s : nstate) : list Z := map (ns_tbl s) (zseq maxCap).
Definition ns_live (s : nstate) (slot : Z) : bool :=
  existsb (fun i => ns_slot_of s i =? slot) (zseq (Z.to_nat (ns_cnt s))).
Definition ns_slot (s : nstate) (slot : Z) : Z := ns_items s slot.
Definition ns_children (s : nstate) : list Z := map (ns_ch s) (zseq (S (Z.to_nat (ns_cnt s)))).
End NodeScript.
