// C07 implementation side (L1 tie + oracle): drives the REAL momo::internal::DataIndexes object - its
// UniqueHash / MultiHash members and the two-phase AddRaw / RemoveRaw / UpdateRaw protocol - directly, with
// rows living in one array so that the ORDER OF ROW ADDRESSES (which MultiHash sorts by) is the order of
// the row ids used by the Coq model (coq/IndexModel.v, coq/MultiHash.v via ocaml/idx_driver.ml).
// Case line:  X <traits> | op | op | ...     traits 0 = momo::DataTraits, 1 = heavily colliding hash, 2 = constant hash
//   NU c..      create unique hash index on columns c.. (over the live rows)       -> ok | dup i
//   NM c..      create multi hash index
//   W i v0 v1 v2    write the content of the (dead) row i
//   ADD f i     DataIndexes::AddRaw(row i)        f=1: inject std::bad_alloc at the 1st,2nd,.. allocation until it completes
//   REM f i     DataIndexes::RemoveRaw(row i)
//   UPD f i j   DataIndexes::UpdateRaw(old row i, new row j)
//   UPC f i c v t   DataIndexes::UpdateRaw(row i, offset of column c, item v, assigner); t=1: the assigner throws
//   FU j v..    FindRaws(unique index j, tuple)   FM j v..  FindRaws(multi index j, tuple)
//   FLT m r     DataIndexes::FilterRaws(keep rows with id % m != r)
//   SEG n       the real SegmentedArraySettings<sqrt,6>::GetItemCount(n) / GetSegItemIndexes(n) (translator validation)
//   DUMP        full canonical state
// After every mutating op the line carries "<result> #<digest of the canonical state>".
#include "private_access.h"
#include "momo/DataTable.h"

static long g_countdown = 0, g_live = 0, g_faults = 0;
class FailMM
{
public:
	explicit FailMM() noexcept {}
	FailMM(FailMM&&) noexcept {}
	FailMM(const FailMM&) noexcept {}
	~FailMM() noexcept {}
	FailMM& operator=(const FailMM&) = delete;
	void* Allocate(size_t size)
	{
		if (g_countdown > 0 && --g_countdown == 0) throw std::bad_alloc();
		void* p = std::malloc(size); if (p == nullptr) throw std::bad_alloc();
		++g_live; return p;
	}
	void Deallocate(void* ptr, size_t) noexcept { --g_live; std::free(ptr); }
	bool IsEqual(const FailMM&) const noexcept { return true; }
};

struct S { int k[3]; int pad; };
static const int NRAW = 1024;
static S g_store[NRAW];

typedef momo::DataColumnListStatic<S, momo::DataColumnInfo<S>, FailMM> CL;

struct Traits1 : public momo::DataTraits
{
	template<typename Item> static void AccumulateHashCode(size_t& hashCode, const Item& item, size_t) { hashCode += size_t(item) & 1; }
};
struct Traits2 : public momo::DataTraits
{
	template<typename Item> static void AccumulateHashCode(size_t& hashCode, const Item&, size_t) { hashCode += 0; }
};

struct Traits3 : public momo::DataTraits   // another bucket family for the index hash tables
{
	typedef momo::HashBucketLimP4<> HashBucket;
};

static unsigned long strDigest(const std::string& s) { unsigned long h = 7; for (unsigned char ch : s) h = (h * 131 + ch) % 1000003UL; return h; }

template<typename Traits>
struct Bed
{
	typedef momo::internal::DataIndexes<CL, Traits> Indexes;
	typedef typename Indexes::UniqueHashIndex UIdx;
	typedef typename Indexes::MultiHashIndex MIdx;
	typedef momo::internal::VersionKeeper<typename CL::Settings> VK;
	FailMM mm;
	Indexes idx;
	std::vector<std::vector<int>> ucols, mcols;   // columns of each index (sorted), creation order
	std::set<int> live;
	std::string fail;
	size_t version = 0;

	Bed() : idx(mm) {}
	void bad(const std::string& w) { if (fail.empty()) fail = w; }
	static long idOf(const S* raw) { return long(raw - g_store); }
	static size_t off(int c) { return offsetof(S, k) + sizeof(int) * size_t(c); }
	static std::vector<int> keyOf(const std::vector<int>& cols, int i) { std::vector<int> k; for (int c : cols) k.push_back(g_store[i].k[c]); return k; }

	std::vector<S*> liveRaws() { std::vector<S*> v; for (int i : live) v.push_back(&g_store[i]); return v; }

	// canonical state: unique hashes as sorted id lists; multi hashes as groups sorted by key content,
	// each group "key:values in array order"
	std::string dump(bool sortValues)
	{
		std::ostringstream o;
		for (size_t j = 0; j < idx.mUniqueHashes.GetCount(); ++j)
		{
			std::vector<long> ids;
			for (S* raw : idx.mUniqueHashes[j].mHashSet) ids.push_back(idOf(raw));
			std::sort(ids.begin(), ids.end());
			o << "U" << j << "[";
			for (size_t q = 0; q < ids.size(); ++q) o << (q ? " " : "") << ids[q];
			o << "]";
			if (!!idx.mUniqueHashes[j].mPositionAdd || !!idx.mUniqueHashes[j].mPositionRemove) bad("unique hash keeps a pending position");
		}
		for (size_t j = 0; j < idx.mMultiHashes.GetCount(); ++j)
		{
			std::vector<std::pair<std::vector<int>, std::string>> groups;
			auto& mm2 = idx.mMultiHashes[j].mHashMultiMap;
			for (auto keyIter = mm2.GetKeyBounds().GetBegin(); !!keyIter; ++keyIter)
			{
				std::ostringstream g; long key = idOf(keyIter->key); g << key << ":";
				std::vector<long> vals; for (size_t q = 0; q < keyIter->GetCount(); ++q) vals.push_back(idOf((*keyIter)[q]));
				if (sortValues) std::sort(vals.begin(), vals.end());
				for (size_t q = 0; q < vals.size(); ++q) g << (q ? " " : "") << vals[q];
				groups.push_back({ keyOf(mcols[j], int(key)), g.str() });
			}
			std::sort(groups.begin(), groups.end());
			o << "M" << j << "[";
			for (size_t q = 0; q < groups.size(); ++q) o << (q ? "|" : "") << groups[q].second;
			o << "]";
			if (!!idx.mMultiHashes[j].mKeyIteratorAdd || !!idx.mMultiHashes[j].mKeyIteratorRemove) bad("multi hash keeps a pending key iterator");
		}
		return o.str();
	}

	// ---- the oracle: every index against the set of live rows (brute force)
	void verify()
	{
		for (size_t j = 0; j < ucols.size(); ++j)
		{
			std::set<long> ids; size_t n = 0;
			for (S* raw : idx.mUniqueHashes[j].mHashSet) { ids.insert(idOf(raw)); ++n; }
			if (n != live.size() || ids.size() != n) { bad("unique hash " + std::to_string(j) + " holds " + std::to_string(n) + " entries for " + std::to_string(live.size()) + " rows"); return; }
			for (int i : live)
			{
				if (!ids.count(i)) { bad("row " + std::to_string(i) + " missing from unique hash " + std::to_string(j)); return; }
				auto b = idx.FindRaws(UIdx(ptrdiff_t(j)), &g_store[i], VK(&version));
				if (b.GetCount() != 1 || *b.GetBegin() != &g_store[i]) { bad("row " + std::to_string(i) + " is not reachable under its key in unique hash " + std::to_string(j)); return; }
				for (int i2 : live) if (i2 < i && keyOf(ucols[j], i) == keyOf(ucols[j], i2)) { bad("unique hash " + std::to_string(j) + " violated by rows " + std::to_string(i2) + "," + std::to_string(i)); return; }
			}
		}
		for (size_t j = 0; j < mcols.size(); ++j)
		{
			std::map<std::vector<int>, std::vector<long>> exp;
			for (int i : live) exp[keyOf(mcols[j], i)].push_back(i);
			auto& mm2 = idx.mMultiHashes[j].mHashMultiMap;
			if (mm2.GetKeyCount() != exp.size()) { bad("multi hash " + std::to_string(j) + " has " + std::to_string(mm2.GetKeyCount()) + " keys, brute force " + std::to_string(exp.size())); return; }
			for (auto keyIter = mm2.GetKeyBounds().GetBegin(); !!keyIter; ++keyIter)
			{
				long key = idOf(keyIter->key);
				if (!live.count(int(key))) { bad("multi hash " + std::to_string(j) + ": key row " + std::to_string(key) + " is not a live row"); return; }
				std::vector<long> got{ key }; size_t cnt = keyIter->GetCount();
				for (size_t q = 0; q < cnt; ++q) got.push_back(idOf((*keyIter)[q]));
				// completed segments must be sorted by address: AcceptRemove binary-searches them
				size_t i1 = 0, i2 = 64;
				for (size_t seg = 0; i2 < cnt; ++seg)
				{
					for (size_t q = i1 + 1; q < i2; ++q) if (!((*keyIter)[q - 1] < (*keyIter)[q])) { bad("multi hash " + std::to_string(j) + ": completed segment [" + std::to_string(i1) + "," + std::to_string(i2) + ") is not sorted"); return; }
					i1 = i2; i2 += (seg + 1 < 4) ? 128 : (seg + 1 < 10) ? 256 : 512;
				}
				std::sort(got.begin(), got.end());
				auto it = exp.find(keyOf(mcols[j], int(key)));
				if (it == exp.end() || it->second != got) { bad("multi hash " + std::to_string(j) + ": group of key row " + std::to_string(key) + " has " + std::to_string(got.size()) + " rows, brute force " + std::to_string(it == exp.end() ? 0 : it->second.size())); return; }
			}
		}
	}

	template<typename F> void faulty(bool inject, const F& f)
	{
		if (!inject) { f(); return; }
		std::string before = dump(true);
		for (long k = 1; k < 100000; ++k)
		{
			g_countdown = k;
			try { f(); g_countdown = 0; return; }
			catch (const std::bad_alloc&)
			{
				g_countdown = 0; ++g_faults;
				if (dump(true) != before) bad("indexes changed by an operation that failed at allocation #" + std::to_string(k));
				verify();
			}
		}
	}

	template<typename... Items, size_t n = sizeof...(Items)>
	std::string addUnique(const std::vector<int>& cols)
	{
		std::array<size_t, n> offs; for (size_t q = 0; q < n; ++q) offs[q] = off(cols[q]);
		std::vector<S*> raws = liveRaws();
		auto res = idx.template AddUniqueHashIndex<Items...>(raws, offs);
		if (res.raw != nullptr) return "dup " + std::to_string(idOf(res.raw));
		std::vector<int> sc = cols; std::sort(sc.begin(), sc.end());
		if (std::find(ucols.begin(), ucols.end(), sc) == ucols.end()) ucols.push_back(sc);
		return "ok";
	}
	template<typename... Items, size_t n = sizeof...(Items)>
	std::string addMulti(const std::vector<int>& cols)
	{
		std::array<size_t, n> offs; for (size_t q = 0; q < n; ++q) offs[q] = off(cols[q]);
		std::vector<S*> raws = liveRaws();
		idx.template AddMultiHashIndex<Items...>(raws, offs);
		std::vector<int> sc = cols; std::sort(sc.begin(), sc.end());
		if (std::find(mcols.begin(), mcols.end(), sc) == mcols.end()) mcols.push_back(sc);
		return "ok";
	}

	bool expConflict(const int* content, int skip, long& r, long& j)
	{
		for (size_t u = 0; u < ucols.size(); ++u)
			for (int i : live)
			{
				if (i == skip) continue;
				bool eq = true; for (int c : ucols[u]) if (g_store[i].k[c] != content[c]) eq = false;
				if (eq) { r = i; j = long(u); return true; }
			}
		return false;
	}

	std::string resultOf(const typename Indexes::Result& res, bool conf, long er, long ej)
	{
		if (res.raw == nullptr) { if (conf) bad("accepted although row " + std::to_string(er) + " collides on unique hash " + std::to_string(ej)); return "ok"; }
		long r = idOf(res.raw), j = long(static_cast<ptrdiff_t>(res.uniqueHashIndex));
		if (!conf) bad("refused although no row collides"); else if (r != er || j != ej) bad("refusal names row " + std::to_string(r) + " index " + std::to_string(j) + ", brute force " + std::to_string(er) + " " + std::to_string(ej));
		return "conflict " + std::to_string(r) + " " + std::to_string(j);
	}

	std::string runOp(const std::string& text)
	{
		std::istringstream is(text); std::string cmd; is >> cmd; std::ostringstream out; bool mutating = true;
		if (cmd == "NU" || cmd == "NM")
		{
			std::vector<int> cols; int c; while (is >> c) cols.push_back(c);
			if (cmd == "NU") out << (cols.size() == 1 ? addUnique<int>(cols) : cols.size() == 2 ? addUnique<int, int>(cols) : addUnique<int, int, int>(cols));
			else out << (cols.size() == 1 ? addMulti<int>(cols) : cols.size() == 2 ? addMulti<int, int>(cols) : addMulti<int, int, int>(cols));
		}
		else if (cmd == "W") { int i; is >> i; is >> g_store[i].k[0] >> g_store[i].k[1] >> g_store[i].k[2]; if (live.count(i)) bad("script writes a live row"); out << "ok"; mutating = false; }
		else if (cmd == "ADD")
		{
			int f, i; is >> f >> i;
			if (live.count(i)) { out << "invalid"; }
			else {
				long er = 0, ej = 0; bool conf = expConflict(g_store[i].k, -1, er, ej);
				typename Indexes::Result res{ nullptr, UIdx::empty };
				faulty(f != 0, [&] { res = idx.AddRaw(&g_store[i]); });
				out << resultOf(res, conf, er, ej);
				if (res.raw == nullptr) live.insert(i);
			}
		}
		else if (cmd == "REM")
		{
			int f, i; is >> f >> i;
			if (!live.count(i)) out << "invalid";
			else { faulty(f != 0, [&] { idx.RemoveRaw(&g_store[i]); }); live.erase(i); out << "ok"; }
		}
		else if (cmd == "UPD")
		{
			int f, i, j; is >> f >> i >> j;
			if (!live.count(i) || live.count(j) || i == j) out << "invalid";
			else {
				long er = 0, ej = 0; bool conf = expConflict(g_store[j].k, i, er, ej);
				typename Indexes::Result res{ nullptr, UIdx::empty };
				faulty(f != 0, [&] { res = idx.UpdateRaw(&g_store[i], &g_store[j]); });
				out << resultOf(res, conf, er, ej);
				if (res.raw == nullptr) { live.erase(i); live.insert(j); }
			}
		}
		else if (cmd == "UPC")
		{
			int f, i, c, v, t; is >> f >> i >> c >> v >> t;
			if (!live.count(i)) out << "invalid";
			else {
				int content[3] = { g_store[i].k[0], g_store[i].k[1], g_store[i].k[2] }; content[c] = v;
				long er = 0, ej = 0; bool conf = (v != g_store[i].k[c]) && expConflict(content, i, er, ej);
				typename Indexes::Result res{ nullptr, UIdx::empty };
				bool threw = false;
				auto assigner = [&] (S* raw, size_t offset) {
					if (t != 0) throw std::bad_alloc();
					*reinterpret_cast<int*>(reinterpret_cast<char*>(raw) + offset) = v; };
				std::string before = dump(true);
				try { faulty(f != 0 && t == 0, [&] { res = idx.UpdateRaw(&g_store[i], off(c), v, assigner); }); }
				catch (const std::bad_alloc&) { threw = true; }
				if (threw)
				{
					out << "exn";
					if (conf) bad("conflicting single-column update reached the assigner");
					if (dump(true) != before) bad("indexes changed by a single-column update whose assignment threw");
					if (g_store[i].k[c] != content[c] && false) {}
				}
				else out << resultOf(res, conf, er, ej);
				if (!threw && res.raw == nullptr && g_store[i].k[c] != v) bad("assigner was not applied");
			}
		}
		else if (cmd == "FU" || cmd == "FM")
		{
			mutating = false; size_t j; is >> j; std::vector<int> v; int x; while (is >> x) v.push_back(x);
			std::vector<long> got; bool ok = true;
			if (cmd == "FU")
			{
				if (j >= ucols.size() || v.size() != ucols[j].size()) ok = false;
				else if (v.size() == 1) { typename Indexes::template OffsetItemTuple<int> tup{ std::pair<size_t, const int&>(off(ucols[j][0]), v[0]) };
					for (S* raw : idx.FindRaws(UIdx(ptrdiff_t(j)), tup, VK(&version))) got.push_back(idOf(raw)); }
				else { typename Indexes::template OffsetItemTuple<int, int> tup{ std::pair<size_t, const int&>(off(ucols[j][0]), v[0]), std::pair<size_t, const int&>(off(ucols[j][1]), v[1]) };
					for (S* raw : idx.FindRaws(UIdx(ptrdiff_t(j)), tup, VK(&version))) got.push_back(idOf(raw)); }
			}
			else
			{
				if (j >= mcols.size() || v.size() != mcols[j].size()) ok = false;
				else if (v.size() == 1) { typename Indexes::template OffsetItemTuple<int> tup{ std::pair<size_t, const int&>(off(mcols[j][0]), v[0]) };
					for (S* raw : idx.FindRaws(MIdx(ptrdiff_t(j)), tup, VK(&version))) got.push_back(idOf(raw)); }
				else { typename Indexes::template OffsetItemTuple<int, int> tup{ std::pair<size_t, const int&>(off(mcols[j][0]), v[0]), std::pair<size_t, const int&>(off(mcols[j][1]), v[1]) };
					for (S* raw : idx.FindRaws(MIdx(ptrdiff_t(j)), tup, VK(&version))) got.push_back(idOf(raw)); }
			}
			if (!ok) out << "noindex";
			else {
				const std::vector<int>& cols = (cmd == "FU") ? ucols[j] : mcols[j];
				std::vector<long> exp; for (int i : live) if (keyOf(cols, i) == v) exp.push_back(i);
				std::vector<long> sorted = got; std::sort(sorted.begin(), sorted.end());
				if (sorted != exp) bad(cmd + " returns " + std::to_string(got.size()) + " rows, brute force " + std::to_string(exp.size()));
				out << "f";
				for (long g : got) out << " " << g;     // array order: key row first, then the values
			}
		}
		else if (cmd == "FLT")
		{
			int m, r; is >> m >> r;
			idx.FilterRaws([m, r] (S* raw) noexcept { return (raw - g_store) % m != r; });
			for (auto it = live.begin(); it != live.end(); ) { if (*it % m == r) it = live.erase(it); else ++it; }
			out << "ok";
		}
		else if (cmd == "SEG")
		{
			mutating = false; size_t n; is >> n;
			typedef momo::SegmentedArraySettings<momo::SegmentedArrayItemCountFunc::sqrt, 6> SAS;
			size_t si = 0, ii = 0; SAS::GetSegItemIndexes(n, si, ii);
			out << "seg " << SAS::GetItemCount(n) << " " << si << " " << ii;
		}
		else if (cmd == "DUMP") { mutating = false; out << dump(false); }
		else { mutating = false; out << "?"; }
		if (mutating) { ++version; verify(); out << " #" << strDigest(dump(false)); }
		return out.str();
	}
};

template<typename Traits> static std::string runCase(const std::vector<std::string>& ops)
{
	std::string outLine;
	std::memset(g_store, 0, sizeof(g_store));
	{
		Bed<Traits> bed;
		for (const std::string& text : ops)
		{
			std::string o;
			try { o = bed.runOp(text); }
			catch (const std::exception& e) { o = std::string("!ORACLE-FAIL:unexpected exception ") + e.what(); g_countdown = 0; }
			if (!outLine.empty()) outLine += "|";
			outLine += o;
		}
		outLine += "|" + bed.dump(false);
		if (!bed.fail.empty()) outLine += " !ORACLE-FAIL:" + bed.fail;
	}
	if (g_live != 0) { outLine += " !ORACLE-FAIL:memory leak (" + std::to_string(g_live) + " live blocks)"; g_live = 0; }
	return outLine;
}

int main()
{
	std::string line; long cases = 0;
	while (std::getline(std::cin, line))
	{
		std::vector<std::string> parts; size_t pos = 0;
		while (pos <= line.size()) { size_t bar = line.find('|', pos); if (bar == std::string::npos) bar = line.size(); parts.push_back(line.substr(pos, bar - pos)); pos = bar + 1; }
		int traits = 0; { std::istringstream is(parts[0]); std::string x; is >> x >> traits; }
		std::vector<std::string> ops(parts.begin() + 1, parts.end());
		std::string out = traits == 0 ? runCase<momo::DataTraits>(ops) : traits == 1 ? runCase<Traits1>(ops) : traits == 2 ? runCase<Traits2>(ops) : runCase<Traits3>(ops);
		std::puts(out.c_str()); std::fflush(stdout); ++cases;
	}
	// the bucket classes really instantiated for the index hash sets (slow-hash keys: HashBucketOpen8 selects BucketOpen2N2<3, true>)
	typedef momo::internal::DataIndexes<CL, momo::DataTraits>::UniqueHash::HashSet HS0;
	typedef momo::internal::DataIndexes<CL, Traits3>::UniqueHash::HashSet HS3;
	static_assert(!HS0::HashTraits::isFastNothrowHashable, "index keys are slow-hash keys");
	std::fprintf(stderr, "idx cases=%ld injected_faults=%ld bucket0=%s bucket3=%s\n", cases, g_faults, typeid(HS0::Bucket).name(), typeid(HS3::Bucket).name());
	return 0;
}
