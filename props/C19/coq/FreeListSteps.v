(* C19 -- interleavings with the GENERATED code as the atomic steps, and linearisability.

   1. The body of the translated destructor loop (Gen_DataRow.destroy_loop0) IS the composition of three atomic pieces
      g_load / g_link / g_cas, and the translated drain IS g_exchange followed by the walk with g_next: lemmas closed by
      `reflexivity` against the regenerated text (if the real code changes shape they fail).
   2. Each small step of the hand machine (DLoad, DLink, DCas -- successful, genuinely failed, spuriously failed --,
      OExchange, ORead) is exactly that piece applied to the memory of the state.  Since the hand machine interleaves its
      steps arbitrarily, every interleaving of any number of destructors and the owner is an interleaving of generated
      pieces; all invariants of TreiberThms hold for it.
   3. Linearisability: for every schedule the shared list is what the ATOMIC stack specification (push; take-all) yields
      for the sequence of successful CASes and exchanges in the order they happen -- the linearisation points. *)
From Coq Require Import List Arith Bool PeanoNat ZArith Lia.
From MomoCommon Require Import GenPrelude.
From C19 Require Import FreeListPrims Gen_DataRow Gen_FreeListOwner Treiber TreiberInv TreiberThms FreeListRefine.
Import ListNotations.
Local Open Scope Z_scope.

(* ------------------------------------------------------------------ 1. the atomic pieces, pinned to the generated text *)
Definition g_load (mem : Z -> Z) (fr : Z) : Z := mem (id_addr fr).
Definition g_link (mem : Z -> Z) (h raw : Z) : Z -> Z := mem_store mem h raw.
Definition g_cas (spurious : bool) (mem : Z -> Z) (fr h raw : Z) : bool * Z * (Z -> Z) :=
  let ok := Z.eqb (mem fr) h && negb spurious in
  (ok, (if ok then h else mem fr), (if ok then GenPrelude.upd mem fr raw else mem)).
Definition g_exchange (mem : Z -> Z) (a v : Z) : Z * (Z -> Z) := (mem a, GenPrelude.upd mem a v).
Definition g_next (mem : Z -> Z) (p : Z) : Z := mem p.

Lemma destructor_body_is_three_atomic_pieces sp fuel fr raw mem mo :
  destroy_loop0 sp (S fuel) fr raw mem mo =
    let h := g_load mem fr in
    let m1 := g_link mem h raw in
    let '(ok, _, m2) := g_cas (sp fuel) m1 fr h raw in
    if ok then Ok (m2, Z.min mo 5) else destroy_loop0 sp fuel fr raw m2 (Z.min mo 5).
Proof. reflexivity. Qed.

Lemma drain_is_exchange_then_walk crew_head fuel mem pool mo :
  pvDeallocateFreeRaws crew_head fuel mem pool mo =
    let '(h, m1) := g_exchange mem crew_head 0 in
    match pvDeallocateFreeRaws_loop0 fuel m1 h pool with
    | Ok (_, pool') => Ok (tt, m1, pool', Z.min mo 5)
    | Stuck => Stuck | Fuel => Fuel | Exn => Exn
    end.
Proof. reflexivity. Qed.

Lemma walk_body_is_next_then_free fuel mem h pool :
  pvDeallocateFreeRaws_loop0 (S fuel) mem h pool =
    if negb (h =? 0) then pvDeallocateFreeRaws_loop0 fuel mem (g_next mem h) (pool_free pool h) else Ok (h, pool).
Proof. reflexivity. Qed.

(* ------------------------------------------------------------------ 2. the machine's small steps are those pieces *)
Lemma encp_eqb a b : (encp a =? encp b) = oeqb a b.
Proof.
  destruct (oeqb_spec a b) as [->|N]; [apply Z.eqb_refl|].
  destruct (Z.eqb_spec (encp a) (encp b)); auto. exfalso. apply N. apply encp_inj; auto.
Qed.

Lemma mem_of_ext s s' : head s' = head s -> link s' = link s -> forall a, mem_of s' a = mem_of s a.
Proof. intros H L a. unfold mem_of. rewrite H, L. reflexivity. Qed.

Theorem DLoad_is_generated_load s t r s' :
  dpcs s t = Start r -> step s (DLoad t) = Some s' ->
  exists h, dpcs s' t = Loaded r h /\ encp h = g_load (mem_of s) hd /\ forall a, mem_of s' a = mem_of s a.
Proof.
  intros E H. unfold step in H. rewrite E in H. inversion H; subst; clear H. simpl.
  exists (head s). rewrite upd_eq. repeat split; auto.
Qed.

Theorem DLink_is_generated_store s t r h s' :
  dpcs s t = Loaded r h -> step s (DLink t) = Some s' ->
  dpcs s' t = Linked r h /\ forall a, mem_of s' a = g_link (mem_of s) (encp h) (addr r) a.
Proof.
  intros E H. unfold step in H. rewrite E in H. inversion H; subst; clear H. simpl.
  split; [apply upd_eq|]. intros a. unfold g_link, mem_store, GenPrelude.upd, mem_of; simpl.
  destruct (Z.eqb_spec a (addr r)).
  - subst. destruct (Z.eqb_spec (addr r) hd); [exfalso; eapply addr_neq_hd; eauto|].
    destruct (Z.leb_spec 2 (addr r)); [|unfold addr in *; lia].
    replace (Z.to_nat (addr r - 2)) with r by (unfold addr; lia). rewrite upd_eq. reflexivity.
  - destruct (Z.eqb_spec a hd); auto. destruct (Z.leb_spec 2 a); auto.
    rewrite upd_neq; auto. intro E2. apply n. unfold addr. rewrite <- E2. lia.
Qed.

Theorem DCas_is_generated_cas s t r h sp s' :
  dpcs s t = Linked r h -> step s (DCas t sp) = Some s' ->
  let '(ok, _, m') := g_cas sp (mem_of s) hd (encp h) (addr r) in
  dpcs s' t = (if ok then Idle else Start r) /\ forall a, mem_of s' a = m' a.
Proof.
  intros E H. unfold g_cas. rewrite mem_of_hd, encp_eqb. rewrite (andb_comm (oeqb (head s) h)).
  unfold step in H. rewrite E in H.
  destruct (negb sp && oeqb (head s) h) eqn:C; inversion H; subst; clear H; simpl; rewrite upd_eq; split; auto.
  intros a. unfold mem_of, GenPrelude.upd; simpl. destruct (Z.eqb_spec a hd); auto.
Qed.

Theorem OExchange_is_generated_exchange s s' :
  step s OExchange = Some s' ->
  exists c, own s' = ODrain c /\ encp c = fst (g_exchange (mem_of s) hd 0) /\ forall a, mem_of s' a = snd (g_exchange (mem_of s) hd 0) a.
Proof.
  intros H. unfold step in H. destruct (own s); try discriminate. inversion H; subst; clear H. simpl.
  exists (head s). repeat split; auto. intros a. unfold mem_of, GenPrelude.upd; simpl. destruct (Z.eqb_spec a hd); auto.
Qed.

Theorem ORead_is_generated_next s r s' :
  own s = ODrain (Some r) -> step s ORead = Some s' ->
  exists nx, own s' = ONext r nx /\ encp nx = g_next (mem_of s) (addr r).
Proof.
  intros E H. unfold step in H. rewrite E in H. inversion H; subst; clear H. simpl.
  exists (link s r). split; auto. unfold g_next. symmetry. apply mem_of_addr.
Qed.

(* ------------------------------------------------------------------ 3. linearisability *)
Local Close Scope Z_scope.

Inductive aop := APush (r : row) | ATakeAll.
Definition aapply (st : list row) (o : aop) : list row := match o with APush r => r :: st | ATakeAll => [] end.

(* the linearisation point of a push is its SUCCESSFUL CAS, that of a drain is its exchange *)
Definition lin1 (s : state) (l : label) : list aop :=
  match l with
  | DCas t sp => match dpcs s t with
                 | Linked r h => if negb sp && oeqb (head s) h then [APush r] else []
                 | _ => []
                 end
  | OExchange => [ATakeAll]
  | _ => []
  end.
Fixpoint lin (s : state) (ls : list label) : list aop :=
  match ls with
  | [] => []
  | l :: ls' => lin1 s l ++ match step s l with Some s' => lin s' ls' | None => [] end
  end.

Lemma lin_step s l s' : step s l = Some s' -> shared s' = fold_left aapply (lin1 s l) (shared s).
Proof.
  intros H. destruct l; unfold step in H; simpl;
    repeat match type of H with
    | match ?x with _ => _ end = _ => destruct x eqn:?; try discriminate
    | (if ?x then _ else _) = _ => destruct x eqn:?; try discriminate
    end; inversion H; subst; reflexivity.
Qed.

(* for EVERY schedule of any number of destructors, the owner and the clients: the shared list is the state of the atomic
   stack after the linearised history *)
Theorem free_list_is_linearisable ls : forall s s',
  run s ls = Some s' -> shared s' = fold_left aapply (lin s ls) (shared s).
Proof.
  induction ls as [|l ls IH]; simpl; intros s s' H; [inversion H; reflexivity|].
  destruct (step s l) as [s1|] eqn:E; try discriminate.
  rewrite fold_left_app, <- (lin_step _ _ _ E). apply IH; auto.
Qed.

(* ... and a take-all returns exactly the linearised pushes since the previous take-all *)
Theorem take_all_returns_the_linearised_stack s s' :
  step s OExchange = Some s' -> drain s' = shared s /\ shared s' = [].
Proof. intros H. unfold step in H. destruct (own s); try discriminate. inversion H; subst. auto. Qed.

(* two concurrent pushes and a drain: thread 1 loads the (null) head first, thread 2 pushes, the owner takes everything, and only
   then thread 1's CAS runs: it SUCCEEDS although the head changed twice in between (null -> row 1 -> null: the harmless ABA),
   and the linearisation is push 1; take-all; push 0 *)
Definition sched_two_pushes_one_drain : list label :=
  [ OAlloc 0 None; OAlloc 1 None;
    DBegin 1 0; DLoad 1; DBegin 2 1; DLoad 2; DLink 2; DLink 1;
    DCas 2 false; OExchange; DCas 1 false; ORead; OFree None; ODone ].

Example ex_two_pushes_one_drain_linearised :
  lin init sched_two_pushes_one_drain = [APush 1; ATakeAll; APush 0] /\
  exists s, run init sched_two_pushes_one_drain = Some s /\ shared s = [0] /\ reclaimed s = [(1, 1)] /\
            own s = OIdle /\ dpcs s 1 = Idle /\ dpcs s 2 = Idle.
Proof. split; [vm_compute; reflexivity|]. eexists; split; [vm_compute; reflexivity|]. vm_compute. repeat split. Qed.
