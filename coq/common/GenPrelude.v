(* Prelude shared by every generated (cxx2coq) file and by the hand models. *)
From Coq Require Import ZArith Bool List Lia.
Local Open Scope Z_scope.

(* unsigned w-bit wrap-around, exactly where C++ computes in an unsigned type *)
Definition wrapU (w : Z) (x : Z) : Z := x mod 2 ^ w.
(* two's complement narrowing to a signed w-bit type *)
Definition wrapS (w : Z) (x : Z) : Z :=
  let m := x mod 2 ^ w in if Z.ltb m (2 ^ (w - 1)) then m else m - 2 ^ w.

(* member arrays are functions Z -> Z; a store is a functional update *)
Definition upd (a : Z -> Z) (i v : Z) : Z -> Z := fun j => if Z.eqb j i then v else a j.

(* outcome of a translated function that has loops / asserts / throws *)
Inductive outcome (A : Type) : Type :=
| Ok (a : A)
| Stuck      (* a MOMO_ASSERT / assert of the source failed *)
| Fuel       (* loop fuel exhausted: excluded by every theorem *)
| Exn.       (* a C++ throw *)
Arguments Ok {A} a. Arguments Stuck {A}. Arguments Fuel {A}. Arguments Exn {A}.

Lemma wrapU_small w x : 0 <= x < 2 ^ w -> wrapU w x = x.
Proof. intros; unfold wrapU; apply Z.mod_small; lia. Qed.

Lemma wrapU_range w x : 0 <= w -> 0 <= wrapU w x < 2 ^ w.
Proof. intros; unfold wrapU; apply Z.mod_pos_bound; apply Z.pow_pos_nonneg; lia. Qed.

Lemma wrapU_idem w x : 0 <= w -> wrapU w (wrapU w x) = wrapU w x.
Proof. intros; unfold wrapU; apply Z.mod_mod. apply Z.pow_nonzero; lia. Qed.

Lemma upd_same a i v : upd a i v i = v.
Proof. unfold upd. rewrite Z.eqb_refl. reflexivity. Qed.

Lemma upd_other a i v j : j <> i -> upd a i v j = a j.
Proof. unfold upd. intros H. destruct (Z.eqb_spec j i); [contradiction|reflexivity]. Qed.

Lemma pow2_pos k : 0 <= k -> 0 < 2 ^ k.
Proof. intros; apply Z.pow_pos_nonneg; lia. Qed.
