(* C02 -- search: pvFindFirst inside a node (linear and binary) and the descent, for predicates that are
   monotone on the in-order contents (false ... false true ... true), which is what sortedness gives for the
   lower/upper bound predicates. *)
From Coq Require Import List ZArith Arith Lia Bool Sorted.
From C02 Require Import BTreeModel BTreeBase.
Import ListNotations.

Fixpoint mono (P : Z -> bool) (l : list Z) : Prop :=
  match l with
  | [] => True
  | x :: r => (P x = true -> Forall (fun y => P y = true) r) /\ mono P r
  end.

Lemma mono_app P a b :
  mono P (a ++ b) -> mono P a /\ mono P b /\ (forall x, In x a -> P x = true -> Forall (fun y => P y = true) b).
Proof.
  induction a as [|x a IH]; simpl.
  - intros H. repeat split; auto. intros x [].
  - intros [H1 H2]. destruct (IH H2) as (Ma & Mb & Hab). repeat split; auto.
    + intros Hx. apply H1 in Hx. apply Forall_app in Hx. tauto.
    + intros y [->|Hy] Py; [apply H1 in Py; apply Forall_app in Py; tauto | eauto].
Qed.

Lemma ft_le P l : first_true P l <= length l.
Proof. induction l; simpl; [lia | destruct (P a); lia]. Qed.

Lemma ft_before P l i : i < first_true P l -> P (nth i l 0%Z) = false.
Proof.
  revert i; induction l as [|x l IH]; simpl; intros i H; [lia|].
  destruct (P x) eqn:E; [lia|]. destruct i; auto. apply IH. lia.
Qed.

Lemma ft_at P l : first_true P l < length l -> P (nth (first_true P l) l 0%Z) = true.
Proof.
  induction l as [|x l IH]; simpl; intros H; [lia|].
  destruct (P x) eqn:E; auto. apply IH. lia.
Qed.

Lemma Forall_nth_Z (Q : Z -> Prop) l i : Forall Q l -> i < length l -> Q (nth i l 0%Z).
Proof. intros F H. rewrite Forall_forall in F. apply F. apply nth_In. assumption. Qed.

Lemma mono_after P l i : mono P l -> first_true P l <= i < length l -> P (nth i l 0%Z) = true.
Proof.
  revert i; induction l as [|x l IH]; intros i M H; simpl in *; [lia|]. destruct M as [M1 M2].
  destruct (P x) eqn:E.
  - destruct i; auto. apply (Forall_nth_Z (fun y => P y = true)); [auto | lia].
  - destruct i; [lia|]. apply IH; auto. lia.
Qed.

Lemma ft_all_false P l : Forall (fun y => P y = false) l -> first_true P l = length l.
Proof. induction 1; simpl; auto. rewrite H. lia. Qed.

Lemma ft_all_true P l : Forall (fun y => P y = true) l -> first_true P l = 0.
Proof. destruct 1; simpl; auto. rewrite H. reflexivity. Qed.

Lemma ft_app P a b :
  first_true P (a ++ b) = if first_true P a <? length a then first_true P a else length a + first_true P b.
Proof.
  induction a as [|x a IH]; simpl; auto.
  destruct (P x); simpl; auto. rewrite IH.
  destruct (first_true P a <? length a) eqn:E.
  - apply Nat.ltb_lt in E. replace (S (first_true P a) <? S (length a)) with true; auto.
    symmetry. apply Nat.ltb_lt. lia.
  - apply Nat.ltb_ge in E. replace (S (first_true P a) <? S (length a)) with false; auto.
    symmetry. apply Nat.ltb_ge. lia.
Qed.

Lemma ft_full_all_false P l : first_true P l = length l -> Forall (fun y => P y = false) l.
Proof.
  induction l as [|x l IH]; simpl; intros H; auto.
  destruct (P x) eqn:E; [lia|]. constructor; auto.
Qed.

(* the items of a node are a sub-sequence of its contents *)
Lemma interleave_incl cs ks x : In x ks -> In x (interleave cs ks).
Proof.
  revert ks; induction cs as [|c cs IH]; intros ks H; simpl; auto.
  destruct ks as [|k ks]; [destruct H|]. apply in_or_app. right. destruct H as [->|H]; [left; auto | right; auto].
Qed.

Lemma mono_interleave P cs ks : mono P (interleave cs ks) -> mono P ks.
Proof.
  revert ks; induction cs as [|c cs IH]; intros ks; simpl; auto.
  destruct ks as [|k ks]; simpl; auto.
  intros H. apply mono_app in H. destruct H as (_ & [H1 H2] & _). split; auto.
  intros Pk. apply H1 in Pk. apply Forall_forall. intros y Hy. rewrite Forall_forall in Pk. apply Pk.
  apply interleave_incl; auto.
Qed.

(* ---------- search inside a node ---------- *)
Lemma search_lin_correct P ks : mono P ks -> search_lin P ks = first_true P ks.
Proof.
  intros M. unfold search_lin.
  destruct (length ks =? 0) eqn:E0; simpl.
  - apply Nat.eqb_eq in E0. destruct ks; simpl in *; [reflexivity | lia].
  - apply Nat.eqb_neq in E0.
    destruct (P (nth (length ks - 1) ks 0%Z)) eqn:El; simpl; auto.
    pose proof (ft_le P ks).
    destruct (Nat.eq_dec (first_true P ks) (length ks)); auto.
    rewrite (mono_after P ks (length ks - 1)) in El; [discriminate | auto | lia].
Qed.

Lemma bsearch_correct P ks : mono P ks -> forall fuel l r,
  l <= first_true P ks <= r -> r <= length ks -> r - l < fuel -> bsearch fuel P ks l r = first_true P ks.
Proof.
  intros M. induction fuel; intros l r H1 H2 H3; [lia|]. cbn [bsearch].
  destruct (l <? r) eqn:E.
  - apply Nat.ltb_lt in E.
    assert (Hm : l <= (l + r) / 2 < r).
    { split; [apply Nat.div_le_lower_bound; lia | apply Nat.div_lt_upper_bound; lia]. }
    remember ((l + r) / 2) as m.
    destruct (P (nth m ks 0%Z)) eqn:Em.
    + apply IHfuel; try lia.
      destruct (le_lt_dec (first_true P ks) m); [lia|].
      rewrite ft_before in Em by lia. discriminate.
    + apply IHfuel; try lia.
      destruct (le_lt_dec (S m) (first_true P ks)); [lia|].
      rewrite mono_after in Em by (auto; lia). discriminate.
  - apply Nat.ltb_ge in E. lia.
Qed.

Section Search.
Variables (maxCap stepRaw blockCount : nat) (linear multi : bool).
Notation shape := (shape maxCap).
Notation search := (search linear).
Notation ff := (ff linear).

Lemma search_correct P ks : mono P ks -> search P ks = first_true P ks.
Proof.
  intros M. unfold BTreeModel.search. destruct linear; [apply search_lin_correct; auto|].
  apply bsearch_correct; auto; pose proof (ft_le P ks); lia.
Qed.

(* what a position inside the node says about the contents *)
Lemma pre_snoc n c ch :
  length (n_children n) = S (n_count n) -> nth_error (n_children n) c = Some ch -> c < n_count n ->
  pre n (S c) = pre n c ++ flatten ch ++ [nth c (n_items n) 0%Z].
Proof.
  intros L E Hc. unfold pre.
  destruct (nth_error_split _ _ _ E) as [Ecs Lc].
  destruct (nth_error_ex (n_items n) c Hc) as [k Ek].
  destruct (nth_error_split _ _ _ Ek) as [Eks Lk].
  rewrite (nth_error_nth' _ _ _ 0%Z Ek).
  assert (F1 : firstn (S c) (map flatten (n_children n)) = firstn c (map flatten (n_children n)) ++ [flatten ch]).
  { rewrite !firstn_map'. rewrite Ecs at 1. rewrite firstn_app, Lc. replace (S c - c) with 1 by lia.
    rewrite firstn_firstn, Nat.min_r by lia. rewrite map_app. reflexivity. }
  assert (F2 : firstn (S c) (n_items n) = firstn c (n_items n) ++ [k]).
  { rewrite Eks at 1. rewrite firstn_app, Lk. replace (S c - c) with 1 by lia.
    rewrite firstn_firstn, Nat.min_r by lia. reflexivity. }
  rewrite F1, F2. rewrite zipcat_app.
  - simpl. reflexivity.
  - rewrite firstn_length, map_length, Lk. apply nth_error_lt in E. lia.
Qed.

Lemma post_head n c :
  c < n_count n -> exists tl, post n c = nth c (n_items n) 0%Z :: tl.
Proof.
  intros Hc. unfold post.
  destruct (nth_error_ex (n_items n) c Hc) as [k Ek].
  destruct (nth_error_split _ _ _ Ek) as [Eks Lk].
  rewrite (nth_error_nth' _ _ _ 0%Z Ek).
  assert (skipn c (n_items n) = k :: skipn (S c) (n_items n)).
  { rewrite Eks at 1. rewrite skipn_app, Lk, Nat.sub_diag. rewrite skipn_all2 by lia. reflexivity. }
  rewrite H. simpl. eauto.
Qed.

Lemma post_end n c : n_count n <= c -> post n c = [].
Proof. intros H. unfold post. rewrite (skipn_all2 (n_items n)) by (unfold n_count in H; lia). reflexivity. Qed.

(* all items before child i are false, all after are true, when i = first_true of the node's items *)
Lemma pre_all_false P n d :
  shape (S d) n -> mono P (flatten n) ->
  Forall (fun y => P y = false) (pre n (first_true P (n_items n))).
Proof.
  intros S M. pose proof S as (_ & _ & L & _).
  remember (first_true P (n_items n)) as i eqn:Ei.
  destruct i as [|i].
  - unfold pre. simpl. constructor.
  - assert (Hi : i < n_count n) by (pose proof (ft_le P (n_items n)); unfold n_count; lia).
    destruct (shape_child_ex _ _ _ i S (Nat.lt_le_incl _ _ Hi)) as (ch & E & _).
    rewrite (pre_snoc n i ch L E Hi).
    destruct (shape_child_ex _ _ _ (Datatypes.S i) S Hi) as (ch' & E' & _).
    rewrite (flatten_split n (Datatypes.S i) ch' L E') in M.
    rewrite (pre_snoc n i ch L E Hi) in M.
    apply mono_app in M. destruct M as (M1 & _ & _).
    assert (Pk : P (nth i (n_items n) 0%Z) = false) by (apply ft_before; lia).
    rewrite app_assoc in M1 |- *. apply mono_app in M1. destruct M1 as (_ & _ & H).
    apply Forall_app. split.
    + apply Forall_forall. intros y Hy. destruct (P y) eqn:Py; auto.
      specialize (H y Hy Py). inversion H; subst. congruence.
    + constructor; auto.
Qed.

Lemma post_all_true P n d :
  shape (S d) n -> mono P (flatten n) ->
  Forall (fun y => P y = true) (post n (first_true P (n_items n))).
Proof.
  intros S M. pose proof S as (_ & _ & L & _).
  set (i := first_true P (n_items n)).
  destruct (le_lt_dec (n_count n) i) as [Hge|Hlt].
  - rewrite post_end by auto. constructor.
  - destruct (shape_child_ex _ _ _ i S (Nat.lt_le_incl _ _ Hlt)) as (ch & E & _).
    rewrite (flatten_split n i ch L E) in M.
    apply mono_app in M. destruct M as (_ & M & _). apply mono_app in M. destruct M as (_ & M & _).
    destruct (post_head n i Hlt) as [tl Etl]. rewrite Etl in M |- *.
    assert (Pk : P (nth i (n_items n) 0%Z) = true) by (apply ft_at; exact Hlt).
    simpl in M. destruct M as [M _]. constructor; auto.
Qed.

(* a position that holds an item *)
Fixpoint has_item (p : list nat) (n : node) (j : nat) : Prop :=
  match p with
  | [] => j < n_count n
  | c :: p' => match nth_error (n_children n) c with Some ch => has_item p' ch j | None => False end
  end.

Lemma here_spec n i : here n i = (if i <? n_count n then Some ([], i) else None).
Proof. reflexivity. Qed.

(* the descent finds the first position whose item satisfies P *)
Lemma ff_spec P d n :
  shape d n -> mono P (flatten n) ->
  match ff d P n with
  | Some (p, j) => valid d p n j /\ has_item p n j /\ length (before p n j) = first_true P (flatten n)
                   /\ first_true P (flatten n) < length (flatten n)
  | None => first_true P (flatten n) = length (flatten n)
  end.
Proof.
  revert n; induction d as [|d IH]; intros n S M.
  - (* leaf *)
    pose proof (shape_0_leaf _ _ S) as Lf. rewrite (flatten_leaf _ Lf) in *.
    simpl. rewrite (search_correct _ _ M). unfold here.
    pose proof (ft_le P (n_items n)).
    destruct (first_true P (n_items n) <? n_count n) eqn:E.
    + apply Nat.ltb_lt in E. simpl. rewrite Lf. rewrite firstn_length. unfold n_count in *. repeat split; lia.
    + apply Nat.ltb_ge in E. unfold n_count in *. lia.
  - pose proof S as (_ & _ & L & _).
    assert (Mk : mono P (n_items n)) by (rewrite flatten_unfold in M; eapply mono_interleave; eauto).
    cbn [BTreeModel.ff]. rewrite (search_correct _ _ Mk).
    set (i := first_true P (n_items n)).
    assert (Hi : i <= n_count n) by apply ft_le.
    destruct (shape_child_ex _ _ _ i S Hi) as (ch & E & Sch). rewrite E.
    pose proof (pre_all_false P n d S M) as Fpre. pose proof (post_all_true P n d S M) as Fpost.
    fold i in Fpre, Fpost.
    rewrite (flatten_split n i ch L E) in *.
    assert (Mch : mono P (flatten ch)).
    { apply mono_app in M. destruct M as (_ & M & _). apply mono_app in M. tauto. }
    specialize (IH ch Sch Mch).
    rewrite ft_app. rewrite (ft_all_false P _ Fpre). rewrite Nat.ltb_irrefl.
    rewrite ft_app. rewrite (ft_all_true P _ Fpost).
    rewrite !app_length.
    destruct (BTreeModel.ff linear d P ch) as [[p j]|].
    + destruct IH as (V & HI & Hb & Hlt). simpl.
      apply Nat.ltb_lt in Hlt. rewrite Hlt. apply Nat.ltb_lt in Hlt.
      rewrite E. repeat split; auto. rewrite app_length. lia. lia.
    + rewrite IH. rewrite Nat.ltb_irrefl. simpl. unfold here.
      destruct (i <? n_count n) eqn:Ei.
      * apply Nat.ltb_lt in Ei. simpl. rewrite (shape_S_internal _ _ _ S).
        destruct (post_head n i Ei) as [tl Etl]. rewrite Etl. simpl.
        repeat split; auto; try lia. rewrite app_length.
        replace (nth i (map flatten (n_children n)) []) with (flatten ch); [lia|].
        symmetry. apply nth_error_nth'. rewrite nth_error_map', E. reflexivity.
      * apply Nat.ltb_ge in Ei. rewrite post_end by lia. simpl. lia.
Qed.

(* ---------- sorted contents give monotone bound predicates ---------- *)
Lemma sorted_mono_ge l k : StronglySorted Z.le l -> mono (fun x => negb (x <? k)%Z) l.
Proof.
  induction 1; simpl; auto. split; auto.
  intros Ha. apply negb_true_iff, Z.ltb_ge in Ha.
  eapply Forall_impl; [|exact H0]. intros y Hy. simpl. apply negb_true_iff, Z.ltb_ge. lia.
Qed.
Lemma sorted_mono_gt l k : StronglySorted Z.le l -> mono (fun x => (k <? x)%Z) l.
Proof.
  induction 1; simpl; auto. split; auto.
  intros Ha. apply Z.ltb_lt in Ha.
  eapply Forall_impl; [|exact H0]. intros y Hy. simpl. apply Z.ltb_lt. lia.
Qed.

End Search.
