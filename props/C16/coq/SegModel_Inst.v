(* C16: the L1 capacity model instantiated with the REGENERATED sizing functions (sqrt and cnst, every L <= 62,
   every count / requested capacity below 2^62). *)
From Coq Require Import ZArith Bool List Lia.
From MomoCommon Require Import GenPrelude.
From C16 Require Gen_SegSqrt Gen_SegCnst SegMath SegSqrt_Proofs SegCnst_Proofs SegModel.
Import ListNotations.
Local Open Scope Z_scope.
Import SegMath SegModel.

Definition maxi : Z := 2 ^ 62.

Lemma maxi_in_range L : 0 <= L <= 62 -> maxi <= 2 ^ 64 - 2 ^ L.
Proof.
  intros HL. assert (2 ^ L <= 2 ^ 62) by (apply Z.pow_le_mono_r; lia). unfold maxi.
  change (2 ^ 64) with (4 * 2 ^ 62). lia.
Qed.

(* ------------------------------------------------------------------ sqrt *)
Section Sqrt.
Variable L : Z.
Hypothesis HL : 0 <= L <= 62.
Let seg := Gen_SegSqrt.GetSegItemIndexes L.
Let idx := Gen_SegSqrt.GetIndex L.
Definition SCq : Z := fst (Gen_SegSqrt.GetSegItemIndexes L (maxi - 1)) + 1.

Let R := maxi_in_range L HL.
Let HL64 : 0 <= L < 64. Proof. lia. Qed.

Lemma q_nonneg i : 0 <= i < maxi -> 0 <= fst (seg i) /\ 0 <= snd (seg i).
Proof. intros Hi. pose proof (SegSqrt_Proofs.item_lt_count L i HL64 ltac:(lia)) as H. cbv zeta in H. unfold seg. lia. Qed.

Lemma q_zero : seg 0 = (0, 0).
Proof. apply (SegSqrt_Proofs.seg_first L HL64). Qed.

Lemma q_next i : 0 <= i -> i + 1 < maxi ->
  (fst (seg (i + 1)) = fst (seg i) /\ 0 < snd (seg (i + 1))) \/ (fst (seg (i + 1)) = fst (seg i) + 1 /\ snd (seg (i + 1)) = 0).
Proof.
  intros Hi Hi1. pose proof (SegSqrt_Proofs.seg_contiguous L i HL64 Hi ltac:(lia)) as C. cbv zeta in C.
  pose proof (q_nonneg i ltac:(lia)) as [_ Hj]. unfold seg in *. rewrite C.
  destruct (Z.ltb_spec (snd (Gen_SegSqrt.GetSegItemIndexes L i) + 1)
                       (Gen_SegSqrt.GetItemCount L (fst (Gen_SegSqrt.GetSegItemIndexes L i)))); cbn [fst snd]; [left|right]; lia.
Qed.

Lemma q_mono i i' : 0 <= i < i' -> i' < maxi ->
  fst (seg i) < fst (seg i') \/ (fst (seg i) = fst (seg i') /\ snd (seg i) < snd (seg i')).
Proof. intros H H'. apply (SegSqrt_Proofs.seg_monotone L i i' HL64 H ltac:(lia)). Qed.

Lemma q_bound c : 0 <= c < maxi -> fst (seg c) + 1 <= SCq.
Proof.
  intros Hc. unfold SCq. fold seg. destruct (Z.eq_dec c (maxi - 1)) as [->|]; [lia|].
  destruct (q_mono c (maxi - 1) ltac:(lia) ltac:(lia)); lia.
Qed.

Lemma q_cap_lt sc i : 0 <= sc <= SCq -> 0 <= i < maxi -> (i < idx sc 0 <-> fst (seg i) < sc).
Proof.
  intros Hsc Hi. unfold idx, seg.
  assert (Hm : 0 <= maxi - 1 < 2 ^ 64 - 2 ^ L) by (unfold maxi in *; lia).
  (* the capacity of SCq segments fits: it is at most (maxi - 1) + size of the last segment <= 2^62 + 2^63 *)
  pose proof (SegSqrt_Proofs.item_lt_count L (maxi - 1) HL64 Hm) as Hlast. cbv zeta in Hlast.
  rewrite SegSqrt_Proofs.gen_seg_of in Hlast by assumption.
  destruct Hlast as (Hs0 & Hj & Hcnt & Hk).
  assert (Hfit : idx_of L SCq 0 < 2 ^ 64 - 2 ^ L).
  { unfold SCq. rewrite SegSqrt_Proofs.gen_seg_of by assumption.
    set (s := fst (seg_of L (maxi - 1))) in *. set (j := snd (seg_of L (maxi - 1))) in *.
    rewrite cap_step by lia.
    pose proof (roundtrip L ltac:(lia) (maxi - 1) ltac:(lia)) as Rt. fold s j in Rt.
    rewrite idx_offset in Rt; [|lia|lia|].
    2:{ rewrite <- SegSqrt_Proofs.gen_cnt_of; try lia.
        destruct (SegSqrt_Proofs.seg_small L (maxi - 1) HL64 Hm) as (_ & X & _). exact X. }
    assert (cnt_of L s <= 2 ^ 63) by (unfold cnt_of; apply Z.pow_le_mono_r; lia).
    assert (2 ^ L <= 2 ^ 62) by (apply Z.pow_le_mono_r; lia).
    unfold maxi in *. change (2 ^ 64) with (4 * 2 ^ 62). change (2 ^ 63) with (2 * 2 ^ 62) in *. lia. }
  assert (Hfit' : idx_of L sc 0 < 2 ^ 64 - 2 ^ L).
  { pose proof (cap_mono L sc SCq ltac:(lia) ltac:(lia)). lia. }
  rewrite SegSqrt_Proofs.gen_idx_of; try lia.
  2:{ pose proof (cnt_pos L sc ltac:(lia) ltac:(lia)). lia. }
  rewrite SegSqrt_Proofs.gen_seg_of by lia.
  apply cap_lt_pure; lia.
Qed.

Lemma maxi_pos : 0 < maxi. Proof. reflexivity. Qed.

Theorem sqrt_grow_keeps_addresses st o st' :
  inv seg maxi SCq st -> op_ok maxi st o -> step seg idx st o = Some st' -> o <> Clear true ->
  inv seg maxi SCq st' /\ forall i, 0 <= i < count st -> i < count st' -> addr seg st' i = addr seg st i.
Proof. apply (grow_keeps_addresses seg idx maxi SCq q_nonneg q_zero q_next q_mono q_bound q_cap_lt maxi_pos). Qed.

Theorem sqrt_step_never_asserts st o :
  inv seg maxi SCq st -> op_ok maxi st o -> exists st', step seg idx st o = Some st' /\ inv seg maxi SCq st'.
Proof. apply (step_never_asserts seg idx maxi SCq q_nonneg q_zero q_next q_mono q_bound q_cap_lt maxi_pos). Qed.

Theorem sqrt_inv_empty : inv seg maxi SCq empty.
Proof. apply (inv_empty seg maxi SCq q_nonneg q_bound maxi_pos). Qed.

Lemma q_idx_zero : idx 0 0 = 0.
Proof. apply (SegSqrt_Proofs.seg_first L HL64). Qed.
Ltac dq := first [exact q_nonneg|exact q_zero|exact q_next|exact q_mono|exact q_bound|exact q_cap_lt|exact maxi_pos|exact q_idx_zero|eassumption].

(* two arrays: every world operation keeps both invariants and the id discipline *)
Theorem sqrt_wstep_inv w o : winv seg maxi SCq w -> wop_ok idx maxi w o ->
  exists w', wstep seg idx w o = Some w' /\ winv seg maxi SCq w'.
Proof. intros. eapply (wstep_inv seg idx maxi SCq); dq. Qed.

Theorem sqrt_copy_is_fresh w sh w' : winv seg maxi SCq w -> wop_ok idx maxi w (CopyAB sh) -> wstep seg idx w (CopyAB sh) = Some w' ->
  cb w' = ca w /\ ca w' = ca w /\ sa w' = sa w /\ (forall id, In id (sb w') -> ~ In id (sa w) /\ ~ In id (sb w)).
Proof. intros. eapply (copy_is_fresh seg idx maxi SCq); dq. Qed.

Theorem sqrt_wreachable_inv w : wreachable seg idx maxi w -> winv seg maxi SCq w.
Proof. intros. eapply (wreachable_inv seg idx maxi SCq); dq. Qed.

Theorem sqrt_reachable_inv st : reachable seg idx maxi st -> inv seg maxi SCq st.
Proof. apply (reachable_inv seg idx maxi SCq q_nonneg q_zero q_next q_mono q_bound q_cap_lt maxi_pos). Qed.
End Sqrt.

(* ------------------------------------------------------------------ cnst *)
Section Cnst.
Variable L : Z.
Hypothesis HL : 0 <= L <= 62.
Let seg := Gen_SegCnst.GetSegItemIndexes L.
Let idx := Gen_SegCnst.GetIndex L.
Definition SCc : Z := (maxi - 1) / 2 ^ L + 1.
Let HL64 : 0 <= L < 64. Proof. lia. Qed.
Let HB : 0 < 2 ^ L. Proof. apply SegMath.pow2_pos; lia. Qed.
Let HB62 : 2 ^ L <= 2 ^ 62. Proof. apply Z.pow_le_mono_r; lia. Qed.

Lemma c_seg i : seg i = (i / 2 ^ L, i mod 2 ^ L).
Proof. apply SegCnst_Proofs.gen_seg; exact HL64. Qed.

Lemma c_nonneg i : 0 <= i < maxi -> 0 <= fst (seg i) /\ 0 <= snd (seg i).
Proof.
  intros Hi. rewrite c_seg. cbn [fst snd]. pose proof (Z.mod_pos_bound i (2 ^ L) HB).
  assert (0 <= i / 2 ^ L) by (apply Z.div_pos; lia). lia.
Qed.

Lemma c_zero : seg 0 = (0, 0).
Proof. rewrite c_seg. rewrite Z.div_0_l, Z.mod_0_l by lia. reflexivity. Qed.

Lemma c_next i : 0 <= i -> i + 1 < maxi ->
  (fst (seg (i + 1)) = fst (seg i) /\ 0 < snd (seg (i + 1))) \/ (fst (seg (i + 1)) = fst (seg i) + 1 /\ snd (seg (i + 1)) = 0).
Proof.
  intros Hi Hi1. pose proof (SegCnst_Proofs.seg_contiguous L i HL64 Hi) as C. cbv zeta in C.
  pose proof (c_nonneg i ltac:(lia)) as [_ Hj]. unfold seg in *. rewrite C.
  destruct (Z.ltb_spec (snd (Gen_SegCnst.GetSegItemIndexes L i) + 1) (Gen_SegCnst.GetItemCount L)); cbn [fst snd]; [left|right]; lia.
Qed.

Lemma c_mono i i' : 0 <= i < i' -> i' < maxi ->
  fst (seg i) < fst (seg i') \/ (fst (seg i) = fst (seg i') /\ snd (seg i) < snd (seg i')).
Proof.
  intros H H'. rewrite !c_seg. cbn [fst snd].
  pose proof (Z.div_mod i (2 ^ L) ltac:(lia)). pose proof (Z.div_mod i' (2 ^ L) ltac:(lia)).
  pose proof (Z.mod_pos_bound i (2 ^ L) HB). pose proof (Z.mod_pos_bound i' (2 ^ L) HB).
  assert (i / 2 ^ L <= i' / 2 ^ L) by (apply Z.div_le_mono; lia).
  destruct (Z.eq_dec (i / 2 ^ L) (i' / 2 ^ L)) as [E|]; [right|left; lia]. split; [assumption|]. rewrite E in *. lia.
Qed.

Lemma c_bound c : 0 <= c < maxi -> fst (seg c) + 1 <= SCc.
Proof.
  intros Hc. rewrite c_seg. cbn [fst]. unfold SCc.
  assert (c / 2 ^ L <= (maxi - 1) / 2 ^ L) by (apply Z.div_le_mono; lia). lia.
Qed.

Lemma c_cap_lt sc i : 0 <= sc <= SCc -> 0 <= i < maxi -> (i < idx sc 0 <-> fst (seg i) < sc).
Proof.
  intros Hsc Hi. rewrite c_seg. cbn [fst]. unfold idx.
  assert (Hq : ((maxi - 1) / 2 ^ L) * 2 ^ L <= maxi - 1).
  { pose proof (Z.div_mod (maxi - 1) (2 ^ L) ltac:(lia)). pose proof (Z.mod_pos_bound (maxi - 1) (2 ^ L) HB). lia. }
  assert (Hfit : sc * 2 ^ L < 2 ^ 64).
  { unfold SCc in Hsc. assert (sc * 2 ^ L <= ((maxi - 1) / 2 ^ L + 1) * 2 ^ L) by nia.
    unfold maxi in *. change (2 ^ 64) with (4 * 2 ^ 62). lia. }
  rewrite SegCnst_Proofs.gen_idx by lia. rewrite Z.add_0_r.
  pose proof (Z.div_mod i (2 ^ L) ltac:(lia)). pose proof (Z.mod_pos_bound i (2 ^ L) HB).
  split; intros X; nia.
Qed.

Theorem cnst_grow_keeps_addresses st o st' :
  inv seg maxi SCc st -> op_ok maxi st o -> step seg idx st o = Some st' -> o <> Clear true ->
  inv seg maxi SCc st' /\ forall i, 0 <= i < count st -> i < count st' -> addr seg st' i = addr seg st i.
Proof. apply (grow_keeps_addresses seg idx maxi SCc c_nonneg c_zero c_next c_mono c_bound c_cap_lt maxi_pos). Qed.

Theorem cnst_step_never_asserts st o :
  inv seg maxi SCc st -> op_ok maxi st o -> exists st', step seg idx st o = Some st' /\ inv seg maxi SCc st'.
Proof. apply (step_never_asserts seg idx maxi SCc c_nonneg c_zero c_next c_mono c_bound c_cap_lt maxi_pos). Qed.

Theorem cnst_inv_empty : inv seg maxi SCc empty.
Proof. apply (inv_empty seg maxi SCc c_nonneg c_bound maxi_pos). Qed.

Lemma c_idx_zero : idx 0 0 = 0.
Proof. unfold idx. rewrite SegCnst_Proofs.gen_idx; try lia. Qed.
Ltac dc := first [exact c_nonneg|exact c_zero|exact c_next|exact c_mono|exact c_bound|exact c_cap_lt|exact maxi_pos|exact c_idx_zero|eassumption].

Theorem cnst_wstep_inv w o : winv seg maxi SCc w -> wop_ok idx maxi w o ->
  exists w', wstep seg idx w o = Some w' /\ winv seg maxi SCc w'.
Proof. intros. eapply (wstep_inv seg idx maxi SCc); dc. Qed.

Theorem cnst_copy_is_fresh w sh w' : winv seg maxi SCc w -> wop_ok idx maxi w (CopyAB sh) -> wstep seg idx w (CopyAB sh) = Some w' ->
  cb w' = ca w /\ ca w' = ca w /\ sa w' = sa w /\ (forall id, In id (sb w') -> ~ In id (sa w) /\ ~ In id (sb w)).
Proof. intros. eapply (copy_is_fresh seg idx maxi SCc); dc. Qed.

Theorem cnst_wreachable_inv w : wreachable seg idx maxi w -> winv seg maxi SCc w.
Proof. intros. eapply (wreachable_inv seg idx maxi SCc); dc. Qed.

Theorem cnst_reachable_inv st : reachable seg idx maxi st -> inv seg maxi SCc st.
Proof. apply (reachable_inv seg idx maxi SCc c_nonneg c_zero c_next c_mono c_bound c_cap_lt maxi_pos). Qed.
End Cnst.
