"""Common machinery of the momo verification framework (see /verif/DESIGN.md §5).

A property check is `props/<id>/prop.py` defining `run(ctx)`.  It uses the helpers here to
  regen    – regenerate Gallina from /repo's headers (tools/cxx2coq.py)              [tie, T-gen]
  prove    – full .vo build of the property's Coq project + Print Assumptions audit   [proof]
  extract  – build the extracted OCaml model driver                                   [for T-cor]
  cxx      – build the C++ harness against /repo's current working tree
  correspond – run model and implementation on the same cases and diff               [tie, T-cor]
and finally `ctx.finish()` which writes evidence, prints VIOLATION / KNOWN-FINDING lines and
returns the exit code.
"""
import os, sys, json, re, subprocess, time, hashlib, shutil, glob, traceback

ROOT = os.path.dirname(os.path.dirname(os.path.abspath(__file__)))
REPO = os.environ.get('VERIF_REPO', '/repo')
sys.path.insert(0, os.path.join(ROOT, 'tools'))
import cxx2coq

FORBIDDEN = [r'\bAdmitted\b', r'\badmit\b', r'\bAxiom\b', r'\bAxioms\b', r'\bParameter\b', r'\bParameters\b',
             r'\bConjecture\b', r'Unset\s+Guard', r'bypass_check', r'Admit\s+Obligations', r'type-in-type',
             r'impredicative-set', r'Unset\s+Positivity', r'Unset\s+Universe', r'\bhammer\b']
STD_AXIOMS_OK = {}   # none needed so far; name them here (and in DESIGN.md §6) if a library brings one in

CXXFLAGS = ['-std=c++17', '-O1', '-g', '-I', os.path.join(REPO, 'include'), '-DMOMO_VERIF']
SAN = ['-fsanitize=address,undefined', '-fno-sanitize-recover=all', '-fno-omit-frame-pointer']


class Rng:
    """SplitMix64 – the single source of randomness (seeded from VERIF_SEED)."""
    M = (1 << 64) - 1

    def __init__(self, seed):
        # hash the seed so that neighbouring VERIF_SEED values give unrelated streams
        h = hashlib.sha256(('momo-verif-seed-%d' % seed).encode()).digest()
        self.s = int.from_bytes(h[:8], 'little')

    def next(self):
        self.s = (self.s + 0x9E3779B97F4A7C15) & self.M
        z = self.s
        z = ((z ^ (z >> 30)) * 0xBF58476D1CE4E5B9) & self.M
        z = ((z ^ (z >> 27)) * 0x94D049BB133111EB) & self.M
        return z ^ (z >> 31)

    def below(self, n):
        return self.next() % n if n > 0 else 0

    def range(self, a, b):
        return a + self.below(b - a + 1)

    def choice(self, l):
        return l[self.below(len(l))]

    def chance(self, num, den):
        return self.below(den) < num

    def shuffle(self, l):
        for i in range(len(l) - 1, 0, -1):
            j = self.below(i + 1)
            l[i], l[j] = l[j], l[i]


def sh(cmd, timeout=600, cwd=None, env=None, inp=None):
    t0 = time.time()
    try:
        r = subprocess.run(cmd, cwd=cwd, env=env, input=inp, capture_output=True, text=True, timeout=timeout,
                           shell=isinstance(cmd, str))
        return r.returncode, r.stdout, r.stderr, time.time() - t0
    except subprocess.TimeoutExpired as e:
        return 124, (e.stdout or b'').decode('utf8', 'replace') if isinstance(e.stdout, bytes) else (e.stdout or ''), \
            'TIMEOUT after %ss' % timeout, time.time() - t0


class Ctx:
    def __init__(self, pid, tier, seed):
        self.id = pid; self.tier = tier; self.seed = seed
        self.t0 = time.time()
        self.root = ROOT; self.repo = REPO
        self.pdir = os.path.join(ROOT, 'props', pid)
        self.cdir = os.path.join(self.pdir, 'coq')
        self.build = os.path.join(ROOT, 'build', pid)
        os.makedirs(self.build, exist_ok=True)
        self.rng = Rng(seed)
        self.stages = {}            # name -> {'ok': bool, 'detail': str}
        self.theorems = []          # [{'name':..., 'assumptions':...}]
        self.tie_obligations = []   # [{'name':..., 'ok': bool}]
        self.coverage = {}
        self.samples = []
        self.assumptions = []
        self.trusted = []
        self.violations = []        # [{'what':..., 'replay': {...}, 'found_input': bool, 'key': str}]
        self.known_hits = []
        self.evaluations = 0
        self.nontrivial = set()
        self.traces_validated = 0
        self.level = 'proof'
        self.log_lines = []

    # ------------------------------------------------------------------ utilities
    def log(self, *a):
        s = ' '.join(str(x) for x in a)
        self.log_lines.append(s)
        print('[%s %6.1fs] %s' % (self.id, time.time() - self.t0, s), flush=True)

    def stage(self, name, ok, detail=''):
        self.stages[name] = {'ok': bool(ok), 'detail': detail[-4000:] if detail else ''}
        self.log('stage %-12s %s %s' % (name, 'ok' if ok else 'BROKEN', ('- ' + detail.strip().splitlines()[-1][:200]) if (detail and not ok) else ''))
        return ok

    def quick(self):
        return self.tier != 'thorough'

    # ------------------------------------------------------------------ T-gen
    def regen(self, cfg_files):
        """regenerate Gen_*.v from /repo's current headers.  cfg_files: json paths relative to props/<id>/."""
        ok = True; details = []
        for cf in cfg_files:
            cfg = json.load(open(os.path.join(self.pdir, cf)))
            cfg.setdefault('includes', [os.path.join(self.repo, 'include')])
            out = os.path.join(self.cdir, cfg['name'] + '.v')
            try:
                txt = cxx2coq.translate_group(cfg, repo=self.repo)
                old = open(out).read() if os.path.exists(out) else None
                if old != txt:
                    open(out, 'w').write(txt)
                self.tie_obligations.append({'name': 'translate ' + cfg['name'], 'ok': True,
                                             'sha256': hashlib.sha256(txt.encode()).hexdigest()[:16]})
            except cxx2coq.TranslationError as e:
                ok = False; details.append('%s: %s' % (cfg['name'], e))
                if os.path.exists(out):
                    os.remove(out)      # a stale model must not keep the proofs green
                self.tie_obligations.append({'name': 'translate ' + cfg['name'], 'ok': False, 'error': str(e)[:500]})
        self.stage('regen', ok, '\n'.join(details))
        return ok

    # ------------------------------------------------------------------ proof
    def build_common(self):
        d = os.path.join(ROOT, 'coq', 'common')
        vs = glob.glob(os.path.join(d, '*.v'))
        if all(os.path.exists(v + 'o') and os.path.getmtime(v + 'o') >= os.path.getmtime(v) for v in vs):
            return True, 'up to date'
        rc, o, e, _ = sh('coq_makefile -f _CoqProject -o Makefile >/dev/null 2>&1 && make -j8 2>&1', cwd=d, timeout=600)
        return rc == 0, o + e

    def audit(self, dirs):
        bad = []
        for d in dirs:
            for f in sorted(glob.glob(os.path.join(d, '*.v'))):
                txt = open(f).read()
                txt_nc = re.sub(r'\(\*.*?\*\)', '', txt, flags=re.S)
                for pat in FORBIDDEN:
                    for m in re.finditer(pat, txt_nc):
                        bad.append('%s: %s' % (os.path.basename(f), m.group(0)))
                # Variable / Hypothesis only inside sections
                depth = 0
                for line in txt_nc.splitlines():
                    ls = line.strip()
                    if re.match(r'Section\s+\w+', ls): depth += 1
                    elif re.match(r'End\s+\w+', ls) and depth > 0: depth -= 1
                    elif re.match(r'(Variable|Variables|Hypothesis|Hypotheses|Context)\b', ls) and depth == 0:
                        bad.append('%s: %s outside a section' % (os.path.basename(f), ls.split()[0]))
        return bad

    def prove(self, properties_file=None, timeout=1500, extra_audit_dirs=()):
        """full .vo build of props/<id>/coq, re-check Properties file capturing Print Assumptions"""
        properties_file = properties_file or ('Properties_%s.v' % self.id)
        okc, outc = self.build_common()
        if not okc:
            return self.stage('prove', False, 'common library failed to build\n' + outc)
        d = self.cdir
        # _CoqProject lists files explicitly; missing generated files make the build fail (intended)
        rc, o, e, wall = sh('coq_makefile -f _CoqProject -o Makefile 2>/dev/null >/dev/null; timeout %d make -k -j16 2>&1' % timeout, cwd=d,
                            timeout=timeout + 30)
        log = o + e
        open(os.path.join(self.build, 'coq_make.log'), 'w').write(log)
        if self.tier == 'thorough':
            # clean rebuild in the thorough tier
            sh('make clean >/dev/null 2>&1', cwd=d)
            rc, o, e, wall = sh('timeout %d make -k -j16 2>&1' % timeout, cwd=d, timeout=timeout + 30)
            log = o + e
        names = re.findall(r'^\s*(?:Theorem|Lemma)\s+(\w+)', open(os.path.join(d, properties_file)).read(), flags=re.M)
        if rc != 0:
            errs = [l for l in log.splitlines() if 'Error' in l or 'rror:' in l or l.startswith('File ')]
            self.theorems = [{'name': n, 'proved': False} for n in names]
            return self.stage('prove', False, 'make failed:\n' + '\n'.join(errs[-12:]) + '\n' + log[-1500:])
        # Print Assumptions of every theorem.  The .vo build above has just compiled (or found up to date) the very same Properties
        # file: reuse THAT compile's output instead of compiling the file a second time (C16: 71 Print Assumptions = ~60 s).
        #  - compiled in this make run: its output is the part of the make log after the last `COQC <properties_file>` line;
        #  - up to date: the output cached by the run that compiled it, valid only while the .vo file is the same (mtime + size);
        #  - anything unexpected (block count != theorem count, no cache): fall back to the separate coqc run as before.
        args = self.coq_args()
        vo = os.path.join(d, properties_file[:-2] + '.vo')
        cache = os.path.join(self.build, 'print_assumptions.cache')
        vo_key = '%r %r' % (os.path.getmtime(vo), os.path.getsize(vo)) if os.path.exists(vo) else None
        o2 = None
        m_ = list(re.finditer(r'^COQC %s\s*$' % re.escape(properties_file), log, flags=re.M))
        if m_:
            cand = log[m_[-1].end():]
            if len(self.parse_assumptions(cand)) == len(names) and vo_key:
                o2 = cand
                try: json.dump({'vo': vo_key, 'out': cand}, open(cache, 'w'))
                except OSError: pass
        elif vo_key and os.path.exists(cache):
            try:
                c_ = json.load(open(cache))
                if c_.get('vo') == vo_key and len(self.parse_assumptions(c_.get('out', ''))) == len(names):
                    o2 = c_['out']
            except (ValueError, OSError):
                pass
        if o2 is None:
            rc2, o2, e2, _ = sh(['coqc'] + args + [properties_file], cwd=d, timeout=600)
            if rc2 != 0:
                self.theorems = [{'name': n, 'proved': False} for n in names]
                return self.stage('prove', False, 'Properties file failed:\n' + (o2 + e2)[-2000:])
            vo_key = '%r %r' % (os.path.getmtime(vo), os.path.getsize(vo)) if os.path.exists(vo) else None
            if vo_key:
                try: json.dump({'vo': vo_key, 'out': o2}, open(cache, 'w'))
                except OSError: pass
        blocks = self.parse_assumptions(o2)
        ok = True; det = []
        if len(blocks) != len(names):
            ok = False; det.append('Print Assumptions count %d != theorem count %d' % (len(blocks), len(names)))
        self.theorems = []
        for i, n in enumerate(names):
            b = blocks[i] if i < len(blocks) else '?'
            closed = b.strip() == 'Closed under the global context'
            axioms = [] if closed else re.findall(r'^(\S+)\s*:', b, flags=re.M)
            bad_ax = [a for a in axioms if a not in STD_AXIOMS_OK]
            if not closed and (bad_ax or not axioms):
                ok = False; det.append('%s depends on %s' % (n, ', '.join(bad_ax) or b.strip()[:200]))
            self.theorems.append({'name': n, 'proved': True, 'assumptions': 'closed' if closed else axioms})
        bad = self.audit([d, os.path.join(ROOT, 'coq', 'common')] + list(extra_audit_dirs))
        if bad:
            ok = False; det.append('forbidden vernacular: ' + '; '.join(bad[:10]))
        # the Properties file must contain nothing but theorems closed by `exact`
        ptxt = re.sub(r'\(\*.*?\*\)', '', open(os.path.join(d, properties_file)).read(), flags=re.S)
        for m in re.finditer(r'Proof\.(.*?)Qed\.', ptxt, flags=re.S):
            if not re.fullmatch(r"\s*exact\s+[A-Za-z_][\w']*(\.[A-Za-z_][\w']*)*\s*\.\s*", m.group(1)):   # literally `exact <qualified.lemma>.`
                ok = False; det.append('Properties proof is not a single `exact`: ' + m.group(1).strip()[:80])
        if self.tier == 'thorough' and ok and os.environ.get('VERIF_COQCHK', '1') == '1':
            mod = properties_file[:-2]
            lib = self.coq_lib()
            rc3, o3, e3, w3 = sh('timeout 1200 coqchk -silent -o %s %s.%s 2>&1' % (' '.join(args), lib, mod), cwd=d, timeout=1300)
            self.coverage['coqchk'] = {'rc': rc3, 'wall_s': round(w3, 1), 'tail': (o3 + e3)[-1500:]}
            if rc3 != 0:
                ok = False; det.append('coqchk failed: ' + (o3 + e3)[-400:])
        return self.stage('prove', ok, '\n'.join(det))

    def coq_args(self):
        args = []
        for line in open(os.path.join(self.cdir, '_CoqProject')):
            p = line.split()
            if len(p) == 3 and p[0] in ('-Q', '-R'):
                args += p
        return args

    def coq_lib(self):
        for line in open(os.path.join(self.cdir, '_CoqProject')):
            p = line.split()
            if len(p) == 3 and p[0] == '-Q' and p[1] == '.':
                return p[2]
        return self.id

    @staticmethod
    def parse_assumptions(out):
        blocks = []; cur = None
        for line in out.splitlines():
            if line.startswith('Closed under the global context'):
                if cur is not None: blocks.append(cur); cur = None
                blocks.append(line)
            elif line.startswith('Axioms:'):
                if cur is not None: blocks.append(cur)
                cur = ''
            elif cur is not None:
                cur += line + '\n'
        if cur is not None: blocks.append(cur)
        return blocks

    # ------------------------------------------------------------------ extraction
    def extract(self, extract_v='Extract.v', driver='driver.ml', exe='model_driver', extra_ml=()):
        """coqc props/<id>/coq/Extract.v inside build/<id>/ml (Separate Extraction writes to cwd), then
        compile with ocamlfind together with lib/zutil.ml and props/<id>/ocaml/<driver>."""
        ml = os.path.join(self.build, 'ml')
        shutil.rmtree(ml, ignore_errors=True); os.makedirs(ml)
        args = []
        for line in open(os.path.join(self.cdir, '_CoqProject')):
            p = line.split()
            if len(p) == 3 and p[0] in ('-Q', '-R'):
                args += [p[0], os.path.normpath(os.path.join(self.cdir, p[1])), p[2]]
        shutil.copy(os.path.join(self.cdir, extract_v), os.path.join(ml, extract_v))
        rc, o, e, _ = sh(['coqc'] + args + [extract_v], cwd=ml, timeout=600)
        if rc != 0:
            return self.stage('extract', False, 'extraction failed:\n' + (o + e)[-2000:])
        for f in glob.glob(os.path.join(ml, 'Extract.*')) + glob.glob(os.path.join(ml, '.Extract*')):
            os.remove(f)
        shutil.copy(os.path.join(ROOT, 'lib', 'zutil.ml'), ml)
        for x in extra_ml:
            shutil.copy(os.path.join(self.pdir, 'ocaml', x), ml)
        shutil.copy(os.path.join(self.pdir, 'ocaml', driver), ml)
        # dependency order via ocamlfind ocamldep -sort
        rc, o, e, _ = sh('ocamlfind ocamldep -package zarith -sort *.mli *.ml', cwd=ml)
        if rc != 0:
            return self.stage('extract', False, 'ocamldep failed ' + e[-500:])
        files = o.split()
        out = os.path.join(self.build, exe)
        rc, o, e, _ = sh(['ocamlfind', 'ocamlopt', '-package', 'zarith', '-linkpkg', '-w', '-a', '-inline', '50'] + files + ['-o', out], cwd=ml, timeout=600)
        if rc != 0:
            return self.stage('extract', False, 'ocaml build failed:\n' + (o + e)[-2000:])
        self.model_exe = out
        return self.stage('extract', True)

    # ------------------------------------------------------------------ C++
    def cxx(self, src, exe, flags=(), sanitize=None, timeout=900, std=None):
        if sanitize is None:
            sanitize = (self.tier == 'thorough')
        out = os.path.join(self.build, exe + ('.san' if sanitize else ''))
        fl = list(CXXFLAGS)
        if std:
            fl[0] = '-std=' + std
        cmd = ['g++'] + fl + list(flags) + (SAN if sanitize else []) + ['-I', os.path.join(ROOT, 'harness'),
                                                                         os.path.join(self.pdir, src), '-o', out]
        rc, o, e, w = sh(cmd, timeout=timeout)
        if rc != 0:
            self.last_cxx_error = (o + e)[-3000:]
            return None
        return out

    def cxx_many(self, jobs, timeout=1200):
        """jobs: list of (src, exe, flags).  builds in parallel; returns dict exe->path or None"""
        import concurrent.futures as cf
        res = {}
        with cf.ThreadPoolExecutor(max_workers=min(8, len(jobs) or 1)) as ex:
            futs = {ex.submit(self.cxx, s, x, f, None, timeout): x for (s, x, f) in jobs}
            for fu in cf.as_completed(futs):
                res[futs[fu]] = fu.result()
        return res

    # ------------------------------------------------------------------ correspondence
    def run_lines(self, cmd, inp_path, timeout=900):
        with open(inp_path) as f:
            data = f.read()
        env = dict(os.environ)
        env.setdefault('ASAN_OPTIONS', 'detect_leaks=1:abort_on_error=0')
        rc, o, e, w = sh(cmd, inp=data, timeout=timeout, env=env)
        return rc, o.splitlines(), e

    def correspond(self, name, cases, impl_cmd, model_cmd, timeout=900, stage=True):
        """cases: list of strings (one case per line).  Both commands read all cases on stdin and print exactly
        one line per case.  Returns list of mismatches [(index, case, impl, model)]."""
        path = os.path.join(self.build, name + '.cases')
        with open(path, 'w') as f:
            f.write('\n'.join(cases) + '\n')
        rc1, l1, e1 = self.run_lines(impl_cmd, path, timeout)
        rc2, l2, e2 = self.run_lines(model_cmd, path, timeout)
        mism = []
        det = ''
        if rc1 != 0:
            det += 'implementation harness exit %d: %s\n' % (rc1, e1[-1500:])
        if rc2 != 0:
            det += 'model driver exit %d: %s\n' % (rc2, e2[-1500:])
        n = len(cases)
        for i in range(n):
            a = l1[i] if i < len(l1) else '<missing>'
            b = l2[i] if i < len(l2) else '<missing>'
            if a != b:
                mism.append((i, cases[i], a, b))
        self.evaluations += n
        self.traces_validated += n - len(mism)
        if stage:
            ok = not mism and rc1 == 0 and rc2 == 0
            if mism:
                det += 'first disagreement: case %r impl=%r model=%r (%d total)' % (mism[0][1][:300], mism[0][2][:300], mism[0][3][:300], len(mism))
            self.stage('corr:' + name, ok, det)
        return mism, (rc1, e1, rc2, e2)

    # ------------------------------------------------------------------ findings / results
    def known_findings(self):
        path = os.path.join(ROOT, 'known_findings.txt')
        out = []
        if os.path.exists(path):
            for line in open(path):
                line = line.strip()
                if not line or line.startswith('#'):
                    continue
                m = re.match(r'(known|fixed):\s+property=(\S+)\s+(?:key=(\S+)\s+)?(.*)', line)
                if m:
                    out.append({'kind': m.group(1), 'property': m.group(2), 'key': m.group(3), 'text': m.group(4)})
        return out

    def violation(self, what, replay, found_input=True, key=None):
        """record a violation; `key` identifies the specific failing input/call site for known_findings.txt"""
        for kf in self.known_findings():
            if kf['kind'] == 'known' and kf['property'] == self.id and key is not None and kf['key'] == key:
                if key not in [k['key'] for k in self.known_hits]:
                    self.known_hits.append({'key': key, 'text': kf['text']})
                return False
        self.violations.append({'what': what, 'replay': replay, 'found_input': found_input, 'key': key})
        return True

    def add_sample(self, s):
        if len(self.samples) < 8:
            self.samples.append(s)

    def finish(self, rule='', level_text=None):
        wall = time.time() - self.t0
        broken = [n for n, s in self.stages.items() if not s['ok']]
        # a broken stage with no concrete violation recorded: property no longer shown to hold
        if broken and not self.violations:
            self.violations.append({'what': 'stage(s) %s no longer check' % ', '.join(broken),
                                    'replay': {'broken': {n: self.stages[n]['detail'] for n in broken},
                                               'theorems': self.theorems}, 'found_input': False, 'key': None})
        for k in self.known_hits:
            print('KNOWN-FINDING: property=%s %s' % (self.id, k['text']), flush=True)
        os.makedirs(os.path.join(ROOT, 'replays'), exist_ok=True)
        os.makedirs(os.path.join(ROOT, 'evidence'), exist_ok=True)
        n_viol = 0
        for v in self.violations:
            n_viol += 1
            body = {'property': self.id, 'tier': self.tier, 'seed': self.seed, 'what': v['what'],
                    'found_input': v['found_input'], 'replay': v['replay'],
                    'broken_stages': {n: self.stages[n]['detail'] for n in broken}}
            h = hashlib.sha256(json.dumps(body, sort_keys=True, default=str).encode()).hexdigest()[:10]
            path = os.path.join(ROOT, 'replays', '%s-%s.json' % (self.id, h))
            json.dump(body, open(path, 'w'), indent=1, default=str)
            print('VIOLATION property=%s replay=%s%s' % (self.id, path, '' if v['found_input'] else ' no-failing-input-found'), flush=True)
            if n_viol >= 5:
                break
        proved = [t for t in self.theorems if t.get('proved')]
        ties_ok = [t for t in self.tie_obligations if t.get('ok')]
        obligations = len(self.theorems) + len(self.tie_obligations)
        discharged = len(proved) + len(ties_ok)
        cov = dict(self.coverage)
        cov.update({
            'obligations': obligations, 'discharged': discharged,
            'theorems': self.theorems, 'tie_obligations': self.tie_obligations,
            'checker_cmd': 'cd props/%s/coq && coq_makefile -f _CoqProject -o Makefile && make -k -j16 && coqc <-Q ...> Properties_%s.v  (Print Assumptions parsed; thorough: coqchk -o)' % (self.id, self.id),
            'trusted_base': ['Coq 8.16.1 kernel (coqc; coqchk in thorough tier)', 'no axioms: every property theorem is "Closed under the global context"',
                             'vm_compute used for finite sweeps/examples only; native_compute not used'] + self.trusted,
            'evaluations': self.evaluations, 'distinct_nontrivial': len(self.nontrivial),
            'rule': rule, 'samples': self.samples or ['(none)'],
            'traces_validated_against_impl': self.traces_validated,
            'stages': {n: s['ok'] for n, s in self.stages.items()},
            'known_findings_hit': self.known_hits,
        })
        ev = {'property_id': self.id, 'tier': 'thorough' if self.tier == 'thorough' else 'quick', 'seed': self.seed,
              'level': self.level, 'coverage': cov, 'assumptions': self.assumptions, 'wall_s': round(wall, 2),
              'violations': len(self.violations)}
        json.dump(ev, open(os.path.join(ROOT, 'evidence', self.id + '.json'), 'w'), indent=1, default=str)
        self.log('done: %d obligations (%d discharged), %d evaluations, %d distinct non-trivial, %d violations, %.1fs' %
                 (obligations, discharged, self.evaluations, len(self.nontrivial), len(self.violations), wall))
        return 1 if self.violations else 0


def main(argv):
    import argparse, importlib.util
    ap = argparse.ArgumentParser()
    ap.add_argument('id')
    ap.add_argument('--tier', default=os.environ.get('VERIF_TIER', 'quick'))
    ap.add_argument('--replay', default=None)
    a = ap.parse_args(argv)
    seed = int(os.environ.get('VERIF_SEED', '1'))
    tier = 'thorough' if a.tier == 'thorough' else 'quick'
    ctx = Ctx(a.id, tier, seed)
    ctx.replay = a.replay
    spec = importlib.util.spec_from_file_location('prop_' + a.id, os.path.join(ctx.pdir, 'prop.py'))
    mod = importlib.util.module_from_spec(spec)
    try:
        spec.loader.exec_module(mod)
        if a.replay:
            body = json.load(open(a.replay))
            if not hasattr(mod, 'replay'):
                print('property %s has no replay entry point' % a.id); return 2
            return mod.replay(ctx, body.get('replay', body))
        rc = mod.run(ctx)
        if rc is None:
            rc = ctx.finish()
    except Exception:
        tb = traceback.format_exc()
        ctx.stage('internal', False, tb)
        rc = ctx.finish(rule='internal error in the check')
    return rc
