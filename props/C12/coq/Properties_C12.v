(* Property C12 -- theorems only.  Each is closed by `exact <lemma>` and followed by Print Assumptions.
   The definitions they talk about (Gen_*.v) are regenerated from /repo's headers on every run.
   Vocabulary (Known.v): qof L = (L+6)/8 is the "budget class" of a table of 2^L buckets;
   known q h = bits [0,8q] and [57,63] of h = what a bucket keeps next to an element of class q. *)
From Coq Require Import ZArith List.
From MomoCommon Require Import GenPrelude.
From C12 Require Gen_Base Gen_O2 Gen_O2MP Gen_P4 Gen_One Known P4_Model P4_Slot P4_Bucket O2_Slot Chain O2_Bucket MP_Open2N2 TableO2 TableO2_Proofs TableP4 TableP4_Proofs TableOne TableOne_Proofs Refuted TableO2_Find SameCode Gen_O2set TableP4_Find Gen_P4A P4A_Refine Gen_P4A16 P4A_Refine16 Chains PtrState Gen_Ptr32 Gen_Ptr48 Gen_Ptr64 GensFind Gen_HSFind Gen_HSFindIn HSFind_Refine Gen_HSAdd Gen_HSReloc HSReloc_Refine Establish NoExn NoExnOne Gen_HSGrow Gen_PolicyO2 CapBound.
Import ListNotations.
Local Open Scope Z_scope.

(* LimP4, reconstruct_exact: for EVERY 64-bit hash h, every table size 2^L (L <= 63; for L >= 58 the known bits are all of h), every displacement `probe`,
   every slot idx and every hashCount <= 8: if the slot holds what AddCrt stored for (h, L, probe) and the element sits
   `probe` steps after its start bucket, then BucketLimP4::GetHashCodePart returns either the full getter's value
   or exactly the known bits of h. *)
Theorem C12_limp4_reconstruct_exact :
  forall H s full bidx L newL items idx h probe,
    0 <= idx -> idx < H <= 8 -> 0 <= h < 2 ^ 64 -> 0 <= L <= 63 -> 0 <= newL <= 63 -> 0 <= probe ->
    s (H - 1 - idx) = P4_Slot.p4_byte h L probe -> s idx = Gen_P4.pvCalcShortHash h ->
    bidx = (h mod 2 ^ L + probe) mod 2 ^ L ->
    Gen_P4.GetHashCodePart H s full bidx L newL items idx =
      if P4_Slot.p4_full_used (P4_Slot.p4_byte h L probe) L newL then full else Known.known (Known.qof L) h.
Proof. exact P4_Slot.p4_reconstruct. Qed.
Print Assumptions C12_limp4_reconstruct_exact.

(* p4_byte is exactly what the generated pvSetHashProbe writes (so the hypothesis above is what AddCrt establishes) *)
Theorem C12_limp4_setHashProbe_stores_byte :
  forall H s idx x L probe, 0 <= idx -> idx < H <= 8 -> 0 <= x -> 0 <= L <= 63 -> 0 <= probe < 2 ^ 64 ->
    Gen_P4.pvSetHashProbe H s idx x L probe =
      if H - 1 - idx <=? idx then s else upd s (H - 1 - idx) (P4_Slot.p4_byte x L probe).
Proof. exact P4_Slot.p4_setHashProbe_eq. Qed.
Print Assumptions C12_limp4_setHashProbe_stores_byte.

(* Open2N2, reconstruct_exact: same statement for BucketOpen2N2<.,3,true> (quadratic probing: the element sits
   tri(probe) buckets after its start bucket); additionally MOMO_ASSERT(probeShift > 0) can never fail when the table
   really grows (L < newL). *)
Theorem C12_open2n2_reconstruct_exact :
  forall st sh hp full bidx L newL idx h probe,
    0 <= h < 2 ^ 64 -> 0 <= L <= 63 -> L < newL <= 63 -> 0 <= probe ->
    hp idx = O2_Slot.o2_byte h L probe -> sh idx = Gen_O2.pvCalcShortHash h ->
    bidx = (h mod 2 ^ L + O2_Slot.tri probe) mod 2 ^ L ->
    Gen_O2.GetHashCodePart st sh hp full bidx L newL idx =
      Ok (if O2_Slot.o2_full_used (O2_Slot.o2_byte h L probe) L newL then full else Known.known (Known.qof L) h).
Proof. exact O2_Slot.o2_reconstruct. Qed.
Print Assumptions C12_open2n2_reconstruct_exact.

(* o2_byte / pvCalcShortHash are exactly what the generated AddCrt writes into slot 2 - count *)
Theorem C12_open2n2_addcrt_stores_byte :
  forall st sh hp x L probe newItem, 0 <= L <= 63 -> 0 <= probe < 2 ^ 64 ->
    Gen_O2.AddCrt st sh hp x L probe newItem =
      let count := Gen_O2.pvGetCount st sh hp in
      if count <? 3 then
        Ok (tt, upd st 1 (wrapU 8 (st 1 + 1)), upd sh (wrapU 64 (2 - count)) (Gen_O2.pvCalcShortHash x),
                upd hp (wrapU 64 (2 - count)) (O2_Slot.o2_byte x L probe))
      else Stuck.
Proof. exact O2_Slot.o2_addcrt_eq. Qed.
Print Assumptions C12_open2n2_addcrt_stores_byte.

(* Open2N2 Remove moves the (short hash, hash-probe byte) pair of slot 3-count into the freed slot: each remaining
   element keeps exactly the bytes AddCrt stored for it, so the slot-level theorem applies after any add/remove history. *)
Theorem C12_open2n2_remove_moves_pair :
  forall st sh hp idx, 0 <= Gen_O2.pvGetCount st sh hp <= 3 ->
    Gen_O2.Remove st sh hp idx =
      let c := Gen_O2.pvGetCount st sh hp in
      if idx >=? 3 - c then
        Ok (tt, upd st 1 (wrapU 8 (st 1 - 1)), upd (upd sh idx (sh (3 - c))) (3 - c) 128, upd hp idx (hp (3 - c)))
      else Stuck.
Proof. exact O2_Slot.o2_remove_eq. Qed.
Print Assumptions C12_open2n2_remove_moves_pair.

(* placement_depends_on_known: everything the new placement reads (start bucket for a table of the same class,
   short hash, new hash-probe byte) is a function of the known bits. *)
Theorem C12_start_bucket_depends_on_known :
  forall q h L, 0 <= q -> 0 <= L <= 63 -> L <= 8 * q + 1 ->
    Gen_Base.GetStartBucketIndex (Known.known q h) (2 ^ L) = Gen_Base.GetStartBucketIndex h (2 ^ L).
Proof. exact Known.start_known. Qed.
Print Assumptions C12_start_bucket_depends_on_known.

Theorem C12_limp4_short_hash_depends_on_known :
  forall q x, 0 <= q -> Gen_P4.pvCalcShortHash (Known.known q x) = Gen_P4.pvCalcShortHash x.
Proof. exact P4_Slot.p4_short_known. Qed.
Print Assumptions C12_limp4_short_hash_depends_on_known.

Theorem C12_limp4_hash_probe_depends_on_known :
  forall q x L probe, Known.qof L = q -> 0 <= L <= 63 -> 0 <= probe ->
    P4_Slot.p4_byte (Known.known q x) L probe = P4_Slot.p4_byte x L probe.
Proof. exact P4_Slot.p4_byte_known. Qed.
Print Assumptions C12_limp4_hash_probe_depends_on_known.

Theorem C12_open2n2_short_hash_depends_on_known :
  forall q x, 0 <= q -> Gen_O2.pvCalcShortHash (Known.known q x) = Gen_O2.pvCalcShortHash x.
Proof. exact O2_Slot.o2_short_known. Qed.
Print Assumptions C12_open2n2_short_hash_depends_on_known.

(* Open2N2 packs 8 hash bits when the probe shift is 0 (L = 1 mod 8); those reach one bit beyond the known bits, so the
   byte computed from a reconstructed code may differ there -- and is never used: see the chain theorem. *)
Theorem C12_open2n2_hash_probe_depends_on_known :
  forall q x L probe, Known.qof L = q -> (L + 7) mod 8 <> 0 -> 0 <= L <= 63 -> 0 <= probe ->
    O2_Slot.o2_byte (Known.known q x) L probe = O2_Slot.o2_byte x L probe.
Proof. exact O2_Slot.o2_byte_known. Qed.
Print Assumptions C12_open2n2_hash_probe_depends_on_known.

(* full_getter_when_insufficient: the full getter is used exactly when the byte is the empty marker (displacement too
   large for the probe field, or the legitimate pack happens to be 255) or the class changes ... *)
Theorem C12_limp4_full_getter_iff :
  forall h L newL probe, 0 <= h -> 0 <= L <= 63 -> 0 <= probe ->
    P4_Slot.p4_full_used (P4_Slot.p4_byte h L probe) L newL = true <->
      (P4_Slot.p4_byte h L probe = 255 \/ Known.qof L <> Known.qof newL).
Proof. exact Chain.p4_full_getter_iff. Qed.
Print Assumptions C12_limp4_full_getter_iff.

(* ... a slot that holds another element's short hash (< 128) is never mistaken for a hash-probe byte ... *)
Theorem C12_limp4_short_hash_never_read_as_probe :
  forall v L newL, 0 <= v < 128 -> P4_Slot.p4_full_used v L newL = true.
Proof. exact P4_Slot.p4_full_used_short. Qed.
Print Assumptions C12_limp4_short_hash_never_read_as_probe.

Theorem C12_open2n2_full_getter_iff :
  forall v L newL, O2_Slot.o2_full_used v L newL = true <-> (v = 255 \/ Known.qof L <> Known.qof newL).
Proof. exact Chain.o2_full_getter_iff. Qed.
Print Assumptions C12_open2n2_full_getter_iff.

(* ... and across a class boundary recomputing is necessary: two hashes with identical known bits start in different
   buckets of the larger table. *)
Theorem C12_known_bits_insufficient_across_classes :
  forall q newL, 0 <= q -> 8 * q + 1 < 57 -> 8 * q + 1 < newL <= 63 ->
    exists h1 h2, 0 <= h1 < 2 ^ 64 /\ 0 <= h2 < 2 ^ 64 /\ Known.known q h1 = Known.known q h2 /\
      Gen_Base.GetStartBucketIndex h1 (2 ^ newL) <> Gen_Base.GetStartBucketIndex h2 (2 ^ newL).
Proof. exact Chain.known_insufficient_across_classes. Qed.
Print Assumptions C12_known_bits_insufficient_across_classes.

(* chain_placement_equiv, LimP4: start from an element placed from its true hash h; along ANY chain of strictly growing
   table sizes (<= 2^63), any displacements, any slot situation (own hash-probe byte / empty marker / another element's
   short hash), re-placing from GetHashCodePart's answer yields at every step exactly the state a full rehash yields:
   same bucket, same short hash, same hash-probe byte. *)
Theorem C12_limp4_chain_placement_equiv :
  forall H idx h, 0 <= idx -> idx < H - 1 - idx -> H <= 8 -> 0 <= h < 2 ^ 64 ->
  forall steps L probe junk, 0 <= L <= 63 -> 0 <= probe -> Chain.junk_ok junk -> Chain.steps_ok L steps ->
    Chain.p4_chain_reuse H idx h (Chain.p4_mk h L probe junk) steps = Chain.p4_chain_rehash h (Chain.p4_mk h L probe junk) steps.
Proof. exact Chain.p4_chain_placement_equiv. Qed.
Print Assumptions C12_limp4_chain_placement_equiv.

(* chain_placement_equiv, Open2N2: no assertion fails along any chain, and the element always gets the bucket, the
   short hash and every live hash-probe byte of a full rehash (o2_eqv: the byte may differ only for tables with
   L = 1 mod 8, where it can never be read back because every later growth leaves the class). *)
Theorem C12_open2n2_chain_placement_equiv :
  forall idx h, 0 <= h < 2 ^ 64 ->
  forall steps e L probe, 0 <= L <= 63 -> 0 <= probe -> Chain.o2_eqv e (Chain.o2_mk h L probe) -> Chain.o2_steps_ok L steps ->
    exists l, Chain.o2_chain_reuse idx h e steps = Ok l /\
      Forall2 Chain.o2_eqv l (Chain.o2_chain_rehash h (Chain.o2_mk h L probe) steps).
Proof. exact Chain.o2_chain_placement_equiv. Qed.
Print Assumptions C12_open2n2_chain_placement_equiv.

(* BucketOne (64-bit state): AddCrt then GetHashCodePart returns the low 63 bits of h without ever calling the full
   getter; the state a later Find compares against and every start bucket up to 2^63 buckets read only those bits. *)
Theorem C12_one_reconstruct :
  forall h full iter, 0 <= h < 2 ^ 64 ->
    exists st, Gen_One.AddCrt 0 h = Ok (tt, st) /\ Gen_One.IsFull st = true /\
      Gen_One.GetHashCodePart st full iter iter = Ok (h mod 2 ^ 63) /\
      Gen_One.pvGetHashState (h mod 2 ^ 63) = Gen_One.pvGetHashState h /\
      (forall L, 0 <= L <= 63 -> Gen_Base.GetStartBucketIndex (h mod 2 ^ 63) (2 ^ L) = Gen_Base.GetStartBucketIndex h (2 ^ L)).
Proof. exact Chain.one_reconstruct. Qed.
Print Assumptions C12_one_reconstruct.

(* bucket_meta_inv, LimP4: every metadata state reachable from the empty bucket by ANY sequence of AddCrt (metadata
   composition p4_add of the generated pvGetCount/pvSetHashProbe/pvCalcShortHash) and the generated Remove, for every
   hashCount in 4..8, satisfies the bucket invariant: slots [0,count) are the elements' short hashes (< 128), all other
   slots are >= 128 (so pvGetCount is right), and each element's hash-probe slot, when it is not used as a short-hash
   slot, holds the empty marker or the element's own byte (hash-probe bytes survive the compaction done by Remove). *)
Theorem C12_limp4_bucket_meta_inv :
  forall H mm L s c hs ps, 4 <= H <= 8 -> 0 <= L <= 63 -> P4_Bucket.p4_reach H mm L s c hs ps ->
    P4_Bucket.p4_inv H s c (P4_Bucket.sh_of hs) (P4_Bucket.bv_of L hs ps) /\
    (forall i, 0 <= i < c -> 0 <= hs i < 2 ^ 64 /\ 0 <= ps i < 2 ^ 64).
Proof. exact P4_Bucket.p4_reach_inv. Qed.
Print Assumptions C12_limp4_bucket_meta_inv.

Theorem C12_limp4_count_from_metadata :
  forall H s c sh bv, 4 <= H -> P4_Bucket.p4_inv H s c sh bv -> Gen_P4.pvGetCount s = c.
Proof. exact P4_Bucket.p4_count_inv. Qed.
Print Assumptions C12_limp4_count_from_metadata.

(* reconstruct_exact at bucket level: after ANY such history, for EVERY element i of the bucket (hash hs i, displacement
   ps i) GetHashCodePart returns the full getter's value or exactly the known bits of that element's own hash -- never
   bits of a neighbour, never a stale byte left behind by a removal. *)
Theorem C12_limp4_bucket_reconstruct_exact :
  forall H mm L s c hs ps i full bidx newL items, 4 <= H <= 8 -> 0 <= L <= 63 -> 0 <= newL <= 63 ->
    P4_Bucket.p4_reach H mm L s c hs ps -> 0 <= i < c -> bidx = (hs i mod 2 ^ L + ps i) mod 2 ^ L ->
    Gen_P4.GetHashCodePart H s full bidx L newL items i = full \/
    (Gen_P4.GetHashCodePart H s full bidx L newL items i = Known.known (Known.qof L) (hs i) /\ Known.qof L = Known.qof newL).
Proof. exact P4_Bucket.p4_bucket_reconstruct. Qed.
Print Assumptions C12_limp4_bucket_reconstruct_exact.

(* non-vacuity: concrete 64-bit hashes for which the reconstruction path (not the full getter) is taken and the known
   bits differ from the hash, so the theorems above are not about an empty set of situations. *)
Theorem C12_limp4_nonvacuous :
  exists h L newL probe, 0 <= h < 2 ^ 64 /\ 0 <= L <= 63 /\ L < newL <= 63 /\ 0 <= probe /\
    P4_Slot.p4_full_used (P4_Slot.p4_byte h L probe) L newL = false /\ Known.known (Known.qof L) h <> h /\
    Chain.p4_code 4 0 h (Chain.p4_mk h L probe None) newL = Known.known (Known.qof L) h.
Proof. exact Chain.p4_nonvacuous. Qed.
Print Assumptions C12_limp4_nonvacuous.

Theorem C12_open2n2_nonvacuous :
  exists h L newL probe, 0 <= h < 2 ^ 64 /\ 0 <= L <= 63 /\ L < newL <= 63 /\ 0 <= probe /\
    O2_Slot.o2_full_used (O2_Slot.o2_byte h L probe) L newL = false /\ Known.known (Known.qof L) h <> h /\
    Chain.o2_code 2 h (Chain.o2_mk h L probe) newL = Ok (Known.known (Known.qof L) h).
Proof. exact Chain.o2_nonvacuous. Qed.
Print Assumptions C12_open2n2_nonvacuous.

(* ---------------------------------------------------------------------------------------------------------------
   Table level (TableO2.v: hand L1 model of HashSet::pvAddNogrow / pvRelocateItems over the generated AddCrt, Remove,
   GetHashCodePart, IsFull, GetNextBucketIndex, GetStartBucketIndex, UpdateMaxProbe; run against the real HashSet). *)

(* one iteration of pvRelocateItems' inner loop on a table of 2^L Open2N2 buckets (Tinv: every element sits on the probe
   path of the home bucket of its TRUE hash within the max-probe bound recorded there, with its true short hash and live
   hash-probe byte): no assertion fails, the element lands in the new table again satisfying Tinv for 2^newL buckets. *)
Theorem C12_open2n2_relocate_item_keeps_true_hash_path :
  forall hash, (forall k, 0 <= hash k < 2 ^ 64) ->
  forall L newL told tnew i, 0 <= L -> L < newL <= 63 -> TableO2_Proofs.Tinv hash L told -> TableO2_Proofs.Tinv hash newL tnew ->
    0 <= i < 2 ^ L -> 0 < TableO2.cnt (told i) ->
    match TableO2.relocate_item hash told tnew L newL i with
    | Ok (told', tnew') =>
        TableO2_Proofs.Tinv hash L told' /\ TableO2_Proofs.Tinv hash newL tnew' /\
        TableO2.cnt (told' i) = TableO2.cnt (told i) - 1 /\ (forall j, j <> i -> told' j = told j) /\
        (forall k, TableO2_Proofs.Present L told k -> TableO2_Proofs.Present L told' k \/ TableO2_Proofs.Present newL tnew' k) /\
        (forall k, TableO2_Proofs.Present newL tnew k -> TableO2_Proofs.Present newL tnew' k) /\
        (* position level: exactly the element of the lowest occupied slot leaves the old table and enters a free slot of the new one *)
        (let key := TableO2.bky (told i) (3 - TableO2.cnt (told i)) in
         TableO2_Proofs.At L told key i (3 - TableO2.cnt (told i)) /\
         (forall k b s, TableO2_Proofs.At L told' k b s <->
                        (TableO2_Proofs.At L told k b s /\ ~ (b = i /\ s = 3 - TableO2.cnt (told i)))) /\
         exists b0 s0, ~ TableO2_Proofs.occ (tnew b0) s0 /\
           forall k b s, TableO2_Proofs.At newL tnew' k b s <->
                         (TableO2_Proofs.At newL tnew k b s \/ (k = key /\ b = b0 /\ s = s0 /\ 0 <= b0 < 2 ^ newL)))
    | Exn => True
    | _ => False
    end.
Proof. exact TableO2_Proofs.relocate_item_spec. Qed.
Print Assumptions C12_open2n2_relocate_item_keeps_true_hash_path.

(* element_found_after_growth: migrate EVERY element of a table of 2^L buckets into a fresh table of 2^newL buckets with
   the codes GetHashCodePart reconstructs.  No MOMO_ASSERT fails, no loop runs out of fuel, and every key of the old table
   is Found in the new one: on the probe path of the home bucket computed from its TRUE hash, at a probe <= the bound
   recorded in that home bucket, in a slot whose short hash is its true short hash -- exactly what pvFind examines. *)
Theorem C12_open2n2_element_found_after_growth :
  forall hash, (forall k, 0 <= hash k < 2 ^ 64) ->
  forall L newL told, 0 <= L -> L < newL <= 63 -> TableO2_Proofs.Tinv hash L told ->
    match TableO2.migrate hash told L newL with
    | Ok (_, tnew) => TableO2_Proofs.Tinv hash newL tnew /\
                      (forall k, TableO2_Proofs.Present L told k -> TableO2_Proofs.Found hash newL tnew k)
    | Exn => True
    | _ => False
    end.
Proof. exact TableO2_Proofs.migrate_found. Qed.
Print Assumptions C12_open2n2_element_found_after_growth.

(* the hypothesis Tinv is what HashSet establishes: inserting keys by their full hash (pvAddNogrow) into the empty table *)
Theorem C12_open2n2_insert_establishes_table_invariant :
  forall hash, (forall k, 0 <= hash k < 2 ^ 64) ->
  forall L, 0 <= L <= 63 -> forall keys t, TableO2_Proofs.Tinv hash L t ->
    match TableO2.insert_all hash t L keys with
    | Ok t' => TableO2_Proofs.Tinv hash L t' /\ (forall k, TableO2_Proofs.Present L t k -> TableO2_Proofs.Present L t' k) /\
               (forall k, In k keys -> TableO2_Proofs.Present L t' k)
    | Exn => True
    | _ => False
    end.
Proof. exact TableO2_Proofs.insert_all_inv. Qed.
Print Assumptions C12_open2n2_insert_establishes_table_invariant.

Theorem C12_open2n2_empty_table_invariant : forall hash L, TableO2_Proofs.Tinv hash L TableO2.empty_table.
Proof. exact TableO2_Proofs.empty_inv. Qed.
Print Assumptions C12_open2n2_empty_table_invariant.

Theorem C12_open2n2_table_nonvacuous :
  match TableO2.insert_all TableO2_Proofs.demo_hash TableO2.empty_table 2 [1; 2; 3; 4; 5; 6; 7; 8] with
  | Ok t => match TableO2.migrate TableO2_Proofs.demo_hash t 2 5 with Ok _ => true | _ => false end
  | _ => false
  end = true.
Proof. exact TableO2_Proofs.table_nonvacuous. Qed.
Print Assumptions C12_open2n2_table_nonvacuous.

(* bucket_meta_inv, Open2N2: after ANY history of the generated AddCrt / Remove (and max-probe updates, which leave the
   count bits alone) every live slot holds exactly the (short hash, hash-probe byte) packing of the code and displacement
   its element was inserted with; free slots hold the empty short hash. *)
Theorem C12_open2n2_bucket_meta_inv :
  forall L st sh hp hs ps, 0 <= L <= 63 -> O2_Bucket.o2_reach L st sh hp hs ps -> O2_Bucket.o2_inv L st sh hp hs ps.
Proof. exact O2_Bucket.o2_reach_inv. Qed.
Print Assumptions C12_open2n2_bucket_meta_inv.

Theorem C12_open2n2_bucket_reconstruct_exact :
  forall L st sh hp hs ps i full bidx newL, 0 <= L <= 63 -> L < newL <= 63 ->
    O2_Bucket.o2_reach L st sh hp hs ps -> 3 - O2_Bucket.o2cnt st <= i <= 2 ->
    bidx = (hs i mod 2 ^ L + O2_Slot.tri (ps i)) mod 2 ^ L ->
    Gen_O2.GetHashCodePart st sh hp full bidx L newL i = Ok full \/
    (Gen_O2.GetHashCodePart st sh hp full bidx L newL i = Ok (Known.known (Known.qof L) (hs i)) /\ Known.qof L = Known.qof newL).
Proof. exact O2_Bucket.o2_bucket_reconstruct. Qed.
Print Assumptions C12_open2n2_bucket_reconstruct_exact.

(* BucketOne, whole bucket: after ANY history of AddCrt / Remove the bucket is either full with the state of its element's
   hash (GetHashCodePart = low 63 bits, full getter never called) or not full (state 0 = never used, 2 = was used). *)
Theorem C12_one_bucket_state_machine :
  forall st o, O2_Bucket.one_reach st o ->
    match o with
    | Some h => Gen_One.IsFull st = true /\ forall full it, Gen_One.GetHashCodePart st full it it = Ok (h mod 2 ^ 63)
    | None => Gen_One.IsFull st = false /\ (st = 0 \/ st = 2)
    end.
Proof. exact O2_Bucket.one_reach_inv. Qed.
Print Assumptions C12_one_bucket_state_machine.

(* ---------------------------------------------------------------------------------------------------------------
   LimP4 table level (TableP4.v: hand L1 model of pvAddNogrow / pvRelocateItems / Remove for BucketLimP4 over the generated
   IsFull, GetNextBucketIndex, GetStartBucketIndex, pvSetHashProbe, pvCalcShortHash, pvGetCount, Remove, GetHashCodePart, with
   the memory-pool index (WasFull) kept by hand; run against the real HashSet<.., HashBucketLimP4<>> in both hashCount builds). *)

(* element_found_after_growth, LimP4: for every hashCount 4..8, every minMemPoolIndex 1..4, every L < newL <= 63: migrating
   every element with reconstructed codes fails no assertion, and every key of the old table ends on the LINEAR probe path
   of the home bucket of its TRUE hash with every bucket before it on that path in the WasFull state (so pvFind's
   `bucket->WasFull() && probe <= maxProbe` walk reaches it), in a slot holding its true short hash. *)
Theorem C12_limp4_element_found_after_growth :
  forall H mm hash, 4 <= H <= 8 -> 1 <= mm <= 4 -> (forall k, 0 <= hash k < 2 ^ 64) ->
  forall L newL told, 0 <= L -> L < newL <= 63 -> TableP4_Proofs.PTinv H hash L told ->
    match TableP4.pmigrate H mm hash told L newL with
    | Ok (_, tnew, _) => TableP4_Proofs.PTinv H hash newL tnew /\
                         (forall k, TableP4_Proofs.PPresent L told k -> TableP4_Proofs.PFound hash newL tnew k)
    | Exn => True
    | _ => False
    end.
Proof. exact TableP4_Proofs.pmigrate_found. Qed.
Print Assumptions C12_limp4_element_found_after_growth.

(* removal between insertions: bucket.Remove of ANY element keeps the table invariant (uses the bucket-level Remove
   theorems p4_remove_inv / p4_remove_last_inv); WasFull is never lost by a removal *)
Theorem C12_limp4_table_remove_keeps_invariant :
  forall H mm hash, 4 <= H <= 8 -> 1 <= mm <= 4 -> (forall k, 0 <= hash k < 2 ^ 64) ->
  forall L t b idx, 0 <= L <= 63 -> TableP4_Proofs.PTinv H hash L t -> 0 <= idx < TableP4.pcnt (t b) ->
    exists t', TableP4.premove_at H mm t b idx = Ok t' /\ TableP4_Proofs.PTinv H hash L t' /\
      TableP4.pcnt (t' b) = TableP4.pcnt (t b) - 1 /\ (forall j, j <> b -> t' j = t j) /\
      (forall k, TableP4_Proofs.PPresent L t k -> k = TableP4.pky (t b) idx \/ TableP4_Proofs.PPresent L t' k) /\
      TableP4.pky (t' b) = upd (TableP4.pky (t b)) idx (TableP4.pky (t b) (TableP4.pcnt (t b) - 1)).
Proof. exact TableP4_Proofs.premove_at_spec. Qed.
Print Assumptions C12_limp4_table_remove_keeps_invariant.

Theorem C12_limp4_insert_establishes_table_invariant :
  forall H hash, 4 <= H <= 8 -> (forall k, 0 <= hash k < 2 ^ 64) ->
  forall L, 0 <= L <= 63 -> forall keys t, TableP4_Proofs.PTinv H hash L t ->
    match TableP4.pinsert_all H hash t L keys with
    | Ok t' => TableP4_Proofs.PTinv H hash L t' /\ (forall k, TableP4_Proofs.PPresent L t k -> TableP4_Proofs.PPresent L t' k) /\
               (forall k, In k keys -> TableP4_Proofs.PPresent L t' k)
    | Exn => True
    | _ => False
    end.
Proof. exact TableP4_Proofs.pinsert_all_inv. Qed.
Print Assumptions C12_limp4_insert_establishes_table_invariant.

Theorem C12_limp4_empty_table_invariant :
  forall H mm hash, 4 <= H <= 8 -> 1 <= mm <= 4 -> forall L, TableP4_Proofs.PTinv H hash L (TableP4.pempty_table H mm).
Proof. exact TableP4_Proofs.pempty_inv. Qed.
Print Assumptions C12_limp4_empty_table_invariant.

(* ---- round 3, Open2N2 table level ---- *)
(* chained generations: relocating ANY older generation (2^L buckets, any L < newL, not only L+1) into a newest table that
   ALREADY holds elements (pvRelocateItems(buckets) recursion, oldest first) keeps both invariants; no key is lost; when the
   loop completes every bucket of the older generation is empty.  (The loops with a throwing full getter, migrate_from_c /
   migrate_gens, are tied to the real code by `tbl2` cases but carry no theorem.) *)
Theorem C12_open2n2_older_generation_into_newest :
  forall hash, (forall k, 0 <= hash k < 2 ^ 64) ->
  forall L newL, 0 <= L -> L < newL <= 63 ->
  forall n told tnew i, 0 <= i -> i + Z.of_nat n <= 2 ^ L -> TableO2_Proofs.Tinv hash L told -> TableO2_Proofs.Tinv hash newL tnew ->
    (forall j, 0 <= j < i -> TableO2.cnt (told j) = 0) ->
    match TableO2.migrate_from hash n told tnew L newL i with
    | Ok (told', tnew') => TableO2_Proofs.mig_post hash L newL told tnew told' tnew' /\
                           (forall j, 0 <= j < i + Z.of_nat n -> TableO2.cnt (told' j) = 0)
    | Exn => True
    | _ => False
    end.
Proof. exact TableO2_Proofs.migrate_from_spec. Qed.
Print Assumptions C12_open2n2_older_generation_into_newest.

(* removal between insertions at table level: HashSet::Remove of any stored element keeps the table invariant *)
Theorem C12_open2n2_table_remove_keeps_invariant :
  forall hash L t b slot, TableO2_Proofs.Tinv hash L t -> TableO2_Proofs.occ (t b) slot ->
    exists t', TableO2.remove_at t b slot = Ok t' /\ TableO2_Proofs.Tinv hash L t' /\
      TableO2.cnt (t' b) = TableO2.cnt (t b) - 1 /\ (forall j, j <> b -> t' j = t j) /\
      (forall k, TableO2_Proofs.Present L t k -> k = TableO2.bky (t b) slot \/ TableO2_Proofs.Present L t' k).
Proof. exact TableO2_Proofs.remove_at_spec. Qed.
Print Assumptions C12_open2n2_table_remove_keeps_invariant.

(* the model's full-getter call counter (does the GENERATED GetHashCodePart's answer depend on the getter's value?) is exactly
   the branch condition: empty marker or class change *)
Theorem C12_open2n2_getter_call_observer :
  forall b i L newL slot, 0 <= L <= 63 -> 0 <= newL <= 63 -> 0 <= TableO2.bhp b slot < 256 ->
    TableO2.getter_used b i L newL slot = O2_Slot.o2_full_used (TableO2.bhp b slot) L newL.
Proof. exact TableO2_Proofs.getter_used_spec. Qed.
Print Assumptions C12_open2n2_getter_call_observer.

(* ---------------------------------------------------------------------------------------------------------------
   Round 4.  Budgeted / throwing migration (a full getter that throws after `budget` calls: pvRelocateItems() swallows the
   exception and keeps the older generation chained) and chains of generations. *)

(* Open2N2: whatever prefix of elements was migrated before the throw, BOTH generations satisfy their table invariants
   (every stored element on its true-hash path within the recorded bound) and every key of either table is still in the
   old or in the new one; without a throw the processed buckets are empty. *)
Theorem C12_open2n2_throwing_migration_keeps_both_generations :
  forall hash, (forall k, 0 <= hash k < 2 ^ 64) ->
  forall L newL budget, 0 <= L -> L < newL <= 63 ->
  forall n told tnew i calls, 0 <= i -> i + Z.of_nat n <= 2 ^ L -> TableO2_Proofs.Tinv hash L told -> TableO2_Proofs.Tinv hash newL tnew ->
    (forall j, 0 <= j < i -> TableO2.cnt (told j) = 0) ->
    match TableO2.migrate_from_c hash n told tnew L newL i budget calls with
    | Ok (told', tnew', _, thrown) => TableO2_Proofs.mig_post hash L newL told tnew told' tnew' /\
                                      (thrown = false -> forall j, 0 <= j < i + Z.of_nat n -> TableO2.cnt (told' j) = 0)
    | Exn => True
    | _ => False
    end.
Proof. exact TableO2_Proofs.migrate_from_c_spec. Qed.
Print Assumptions C12_open2n2_throwing_migration_keeps_both_generations.

(* Open2N2, chain of older generations (oldest first, any sizes below newL) into the newest table, with a throwing getter:
   all remaining generations and the newest table keep their invariants, no key of any generation is lost, and without a
   throw no older generation remains. *)
Theorem C12_open2n2_chained_generations :
  forall hash, (forall k, 0 <= hash k < 2 ^ 64) ->
  forall newL budget, newL <= 63 -> forall gens tnew calls,
    TableO2_Proofs.gens_ok hash newL gens -> TableO2_Proofs.Tinv hash newL tnew ->
    match TableO2.migrate_gens hash gens tnew newL budget calls with
    | Ok (gens', tnew', _, thrown) =>
        TableO2_Proofs.gens_ok hash newL gens' /\ TableO2_Proofs.Tinv hash newL tnew' /\
        (forall k, TableO2_Proofs.in_gens gens k \/ TableO2_Proofs.Present newL tnew k ->
                   TableO2_Proofs.in_gens gens' k \/ TableO2_Proofs.Present newL tnew' k) /\
        (thrown = false -> gens' = [])
    | Exn => True
    | _ => False
    end.
Proof. exact TableO2_Proofs.migrate_gens_spec. Qed.
Print Assumptions C12_open2n2_chained_generations.

Theorem C12_limp4_throwing_migration_keeps_both_generations :
  forall H mm hash, 4 <= H <= 8 -> 1 <= mm <= 4 -> (forall k, 0 <= hash k < 2 ^ 64) ->
  forall L newL budget, 0 <= L -> L < newL <= 63 ->
  forall n told tnew i calls, 0 <= i -> i + Z.of_nat n <= 2 ^ L ->
    TableP4_Proofs.PTinv H hash L told -> TableP4_Proofs.PTinv H hash newL tnew ->
    (forall j, 0 <= j < i -> TableP4.pcnt (told j) = 0) ->
    match TableP4.pmigrate_from_c H mm hash n told tnew L newL i budget calls with
    | Ok (told', tnew', _, thrown) => TableP4_Proofs.pmig_post H hash L newL told tnew told' tnew' /\
                                      (thrown = false -> forall j, 0 <= j < i + Z.of_nat n -> TableP4.pcnt (told' j) = 0)
    | Exn => True
    | _ => False
    end.
Proof. exact TableP4_Proofs.pmigrate_from_c_spec. Qed.
Print Assumptions C12_limp4_throwing_migration_keeps_both_generations.

Theorem C12_limp4_chained_generations :
  forall H mm hash, 4 <= H <= 8 -> 1 <= mm <= 4 -> (forall k, 0 <= hash k < 2 ^ 64) ->
  forall newL budget, newL <= 63 -> forall gens tnew calls,
    TableP4_Proofs.pgens_ok H hash newL gens -> TableP4_Proofs.PTinv H hash newL tnew ->
    match TableP4.pmigrate_gens H mm hash gens tnew newL budget calls with
    | Ok (gens', tnew', _, thrown) =>
        TableP4_Proofs.pgens_ok H hash newL gens' /\ TableP4_Proofs.PTinv H hash newL tnew' /\
        (forall k, TableP4_Proofs.pin_gens gens k \/ TableP4_Proofs.PPresent newL tnew k ->
                   TableP4_Proofs.pin_gens gens' k \/ TableP4_Proofs.PPresent newL tnew' k) /\
        (thrown = false -> gens' = [])
    | Exn => True
    | _ => False
    end.
Proof. exact TableP4_Proofs.pmigrate_gens_spec. Qed.
Print Assumptions C12_limp4_chained_generations.

(* BucketOne at table level (1-slot buckets, linear probing, pvFind walks while WasFull, GetMaxProbe = 2^L - 1):
   element_found_after_growth -- after migrating every element with the 63-bit code (the full getter is never called) every
   key is on the linear probe path of the home bucket of its TRUE hash, at a probe <= GetMaxProbe, every earlier bucket of
   the path in the WasFull state, and the bucket's hash state is the one Find compares against for the true hash. *)
Theorem C12_one_element_found_after_growth :
  forall hash, (forall k, 0 <= hash k < 2 ^ 64) ->
  forall L newL told, 0 <= L -> L < newL <= 63 -> TableOne_Proofs.OTinv hash L told ->
    match TableOne.omigrate hash told L newL with
    | Ok (_, tnew) => TableOne_Proofs.OTinv hash newL tnew /\
                      (forall k, TableOne_Proofs.OPresent L told k -> TableOne_Proofs.OFound hash newL tnew k)
    | Exn => True
    | _ => False
    end.
Proof. exact TableOne_Proofs.omigrate_found. Qed.
Print Assumptions C12_one_element_found_after_growth.

Theorem C12_one_insert_establishes_table_invariant :
  forall hash L, 0 <= L <= 63 -> forall keys t, TableOne_Proofs.OTinv hash L t ->
    match TableOne.oinsert_all hash t L keys with
    | Ok t' => TableOne_Proofs.OTinv hash L t' /\ (forall k, TableOne_Proofs.OPresent L t k -> TableOne_Proofs.OPresent L t' k) /\
               (forall k, In k keys -> TableOne_Proofs.OPresent L t' k)
    | Exn => True
    | _ => False
    end.
Proof. exact TableOne_Proofs.oinsert_all_inv. Qed.
Print Assumptions C12_one_insert_establishes_table_invariant.

(* EXACTLY one generation: start from two generations in which no key is stored twice (Good = both table invariants + Sep);
   run the migration loop with a full getter that may throw after any number of calls.  Whatever prefix of elements was
   migrated: both generations satisfy their table invariants, no key is stored twice, and every key that was in one of them
   is now in exactly one of them -- on the probe path of its TRUE hash, by the invariants; without a throw it is Found in
   the newest table.  (C12's side of what C11 proves abstractly about failed relocations.) *)
Theorem C12_open2n2_throwing_migration_exactly_one_generation :
  forall hash, (forall k, 0 <= hash k < 2 ^ 64) ->
  forall L newL budget told tnew calls, 0 <= L -> L < newL <= 63 -> TableO2_Proofs.Good hash L newL told tnew ->
    match TableO2.migrate_from_c hash (Z.to_nat (2 ^ L)) told tnew L newL 0 budget calls with
    | Ok (told', tnew', _, thrown) =>
        TableO2_Proofs.Good hash L newL told' tnew' /\
        (forall k, TableO2_Proofs.Present L told k \/ TableO2_Proofs.Present newL tnew k ->
           (TableO2_Proofs.Present L told' k \/ TableO2_Proofs.Present newL tnew' k) /\
           ~ (TableO2_Proofs.Present L told' k /\ TableO2_Proofs.Present newL tnew' k)) /\
        (thrown = false -> forall k, TableO2_Proofs.Present L told k \/ TableO2_Proofs.Present newL tnew k ->
           TableO2_Proofs.Found hash newL tnew' k)
    | Exn => True
    | _ => False
    end.
Proof. exact TableO2_Proofs.migrate_from_c_exactly_one. Qed.
Print Assumptions C12_open2n2_throwing_migration_exactly_one_generation.

(* ---- round 5: EXACTLY one generation for LimP4 and BucketOne (the Open2N2 statement is above) ---- *)
Theorem C12_limp4_throwing_migration_exactly_one_generation :
  forall H mm hash, 4 <= H <= 8 -> 1 <= mm <= 4 -> (forall k, 0 <= hash k < 2 ^ 64) ->
  forall L newL budget told tnew calls, 0 <= L -> L < newL <= 63 -> TableP4_Proofs.PGood H hash L newL told tnew ->
    match TableP4.pmigrate_from_c H mm hash (Z.to_nat (2 ^ L)) told tnew L newL 0 budget calls with
    | Ok (told', tnew', _, thrown) =>
        TableP4_Proofs.PGood H hash L newL told' tnew' /\
        (forall k, TableP4_Proofs.PPresent L told k \/ TableP4_Proofs.PPresent newL tnew k ->
           (TableP4_Proofs.PPresent L told' k \/ TableP4_Proofs.PPresent newL tnew' k) /\
           ~ (TableP4_Proofs.PPresent L told' k /\ TableP4_Proofs.PPresent newL tnew' k)) /\
        (thrown = false -> forall k, TableP4_Proofs.PPresent L told k \/ TableP4_Proofs.PPresent newL tnew k ->
           TableP4_Proofs.PFound hash newL tnew' k)
    | Exn => True
    | _ => False
    end.
Proof. exact TableP4_Proofs.pmigrate_from_c_exactly_one. Qed.
Print Assumptions C12_limp4_throwing_migration_exactly_one_generation.

(* BucketOne never calls the full getter, so nothing can throw; the statement is about stopping the loop after ANY number n
   of buckets (e.g. when a relocation of the element type throws): both generations keep their invariants, no key is
   stored twice, every key is in exactly one generation. *)
Theorem C12_one_migration_exactly_one_generation :
  forall hash, (forall k, 0 <= hash k < 2 ^ 64) ->
  forall L newL, 0 <= L -> L < newL <= 63 ->
  forall n told tnew i, 0 <= i -> i + Z.of_nat n <= 2 ^ L -> TableOne_Proofs.OGood hash L newL told tnew ->
    match TableOne.omigrate_from hash n told tnew newL i with
    | Ok (told', tnew') =>
        TableOne_Proofs.OGood hash L newL told' tnew' /\
        (forall k, TableOne_Proofs.OPresent L told k \/ TableOne_Proofs.OPresent newL tnew k ->
           (TableOne_Proofs.OPresent L told' k \/ TableOne_Proofs.OPresent newL tnew' k) /\
           ~ (TableOne_Proofs.OPresent L told' k /\ TableOne_Proofs.OPresent newL tnew' k))
    | Exn => True
    | _ => False
    end.
Proof. exact TableOne_Proofs.omigrate_from_exactly_one. Qed.
Print Assumptions C12_one_migration_exactly_one_generation.

(* ---- `_refuted` witnesses for the two independently seeded changes (Refuted.v: hand variants of the generated functions
   that differ exactly as the seeds' patches do) ---- *)

(* seed a (class test replaced by an exact-stored-bits test): along the chain 256 -> 512 -> 1024 buckets an element whose
   hash has bit 9 set ends in bucket 5 instead of 517; the generated function places it where a full rehash would. *)
Theorem C12_seedA_exact_bits_test_refuted :
  Refuted.chainA Refuted.GetHashCodePart_seedA <> Gen_Base.GetStartBucketIndex Refuted.hA (2 ^ 10) /\
  Refuted.chainA Refuted.real_getpart = Gen_Base.GetStartBucketIndex Refuted.hA (2 ^ 10).
Proof. exact Refuted.seedA_refuted. Qed.
Print Assumptions C12_seedA_exact_bits_test_refuted.

(* seed b (Remove guard off by one at index + count = hashCount - 1): after erasing element 0 of a 3-element bucket the
   moved element keeps the erased element's hash-probe byte and is re-placed with the wrong hash bits; the generated Remove
   marks the byte empty (full getter). *)
Theorem C12_seedB_remove_guard_refuted :
  let sB := Refuted.Remove_seedB 4 (Refuted.add3 4 4 Refuted.hB1 Refuted.hB2 Refuted.hB3) 0 in
  let sO := Refuted.Remove_orig 4 (Refuted.add3 4 4 Refuted.hB1 Refuted.hB2 Refuted.hB3) 0 in
  Gen_P4.pvGetCount sB = 2 /\ sB 0 = Gen_P4.pvCalcShortHash Refuted.hB3 /\
  Gen_P4.GetHashCodePart 4 sB 999 3 4 6 8 0 = Known.known (Known.qof 4) Refuted.hB1 /\
  Known.known (Known.qof 4) Refuted.hB1 <> Known.known (Known.qof 4) Refuted.hB3 /\
  Gen_Base.GetStartBucketIndex (Known.known (Known.qof 4) Refuted.hB1) (2 ^ 6) <> Gen_Base.GetStartBucketIndex Refuted.hB3 (2 ^ 6) /\
  Gen_P4.GetHashCodePart 4 sO 999 3 4 6 8 0 = 999.
Proof. exact Refuted.seedB_refuted. Qed.
Print Assumptions C12_seedB_remove_guard_refuted.

(* ---------------------------------------------------------------------------------------------------------------
   Model-growth round: HashSet::pvFind over the GENERATED BucketOpen2N2::Find; frame conditions of every bucket operation. *)

(* the generated Bucket::Find returns the first of slots 0,1,2 whose short hash equals the code's short hash and whose key
   matches, the null iterator otherwise *)
Theorem C12_open2n2_bucket_find_spec :
  forall b key h, exists r, TableO2.bucket_find b key h = Ok r /\
    ((r = 0 /\ forall i, 0 <= i < 3 -> ~ (TableO2.bsh b i = Gen_O2.pvCalcShortHash h /\ TableO2.bky b i = key)) \/
     (1 <= r <= 3 /\ TableO2.bsh b (r - 1) = Gen_O2.pvCalcShortHash h /\ TableO2.bky b (r - 1) = key)).
Proof. exact TableO2_Find.bucket_find_spec. Qed.
Print Assumptions C12_open2n2_bucket_find_spec.

(* the modelled HashSet::Find (start bucket, then probes 1..GetMaxProbe(start) while WasFull, generated leaves) returns a slot
   holding the key, for EVERY key present in a table satisfying the invariant ... *)
Theorem C12_open2n2_find_returns_every_present_key :
  forall hash L t key, 0 <= L <= 63 -> TableO2_Proofs.Tinv hash L t -> TableO2_Proofs.Present L t key ->
    exists r, TableO2.find t L key (hash key) = Ok r /\ TableO2_Find.hit hash L t key r.
Proof. exact TableO2_Find.find_present. Qed.
Print Assumptions C12_open2n2_find_returns_every_present_key.

(* ... hence after migrating every element with reconstructed codes, Find returns every key of the old table: the property's
   first sentence as a statement about the search procedure itself *)
Theorem C12_open2n2_find_after_growth :
  forall hash, (forall k, 0 <= hash k < 2 ^ 64) ->
  forall L newL told, 0 <= L -> L < newL <= 63 -> TableO2_Proofs.Tinv hash L told ->
    match TableO2.migrate hash told L newL with
    | Ok (_, tnew) => forall k, TableO2_Proofs.Present L told k ->
                        exists r, TableO2.find tnew newL k (hash k) = Ok r /\ TableO2_Find.hit hash newL tnew k r
    | Exn => True
    | _ => False
    end.
Proof. exact TableO2_Find.migrate_find. Qed.
Print Assumptions C12_open2n2_find_after_growth.

(* FRAME: every BucketOpen2N2 operation that writes mState / shortHashes / hashProbes, about the generated functions *)
Theorem C12_open2n2_addcrt_frame :
  forall st sh hp x L probe it, MP_Open2N2.enc_inv st -> 0 <= L <= 63 -> 0 <= probe < 2 ^ 64 -> Gen_O2.pvGetCount st sh hp < 3 ->
    exists st' sh' hp', Gen_O2.AddCrt st sh hp x L probe it = Ok (tt, st', sh', hp') /\
      MP_Open2N2.enc_inv st' /\ MP_Open2N2.decode st' = MP_Open2N2.decode st /\ st' 0 = st 0 /\
      Gen_O2.pvGetCount st' sh' hp' = Gen_O2.pvGetCount st sh hp + 1 /\
      (forall i, i <> 2 - Gen_O2.pvGetCount st sh hp -> sh' i = sh i /\ hp' i = hp i).
Proof. exact TableO2_Find.o2_addcrt_frame. Qed.
Print Assumptions C12_open2n2_addcrt_frame.

Theorem C12_open2n2_remove_frame :
  forall st sh hp idx, MP_Open2N2.enc_inv st -> 3 - Gen_O2.pvGetCount st sh hp <= idx <= 2 ->
    exists st' sh' hp', Gen_O2.Remove st sh hp idx = Ok (tt, st', sh', hp') /\
      MP_Open2N2.enc_inv st' /\ MP_Open2N2.decode st' = MP_Open2N2.decode st /\ st' 0 = st 0 /\
      Gen_O2.pvGetCount st' sh' hp' = Gen_O2.pvGetCount st sh hp - 1 /\
      (forall i, i <> idx -> i <> 3 - Gen_O2.pvGetCount st sh hp -> sh' i = sh i /\ hp' i = hp i).
Proof. exact TableO2_Find.o2_remove_frame. Qed.
Print Assumptions C12_open2n2_remove_frame.

Theorem C12_open2n2_updatemaxprobe_frame :
  forall st sh hp probe, MP_Open2N2.enc_inv st -> 0 <= probe <= 2 ^ 63 ->
    exists st', Gen_O2MP.UpdateMaxProbe st probe = Ok (tt, st') /\ MP_Open2N2.enc_inv st' /\ probe <= MP_Open2N2.decode st' /\
      MP_Open2N2.decode st <= MP_Open2N2.decode st' /\ Gen_O2.pvGetCount st' sh hp = Gen_O2.pvGetCount st sh hp.
Proof. exact TableO2_Find.o2_updatemaxprobe_frame. Qed.
Print Assumptions C12_open2n2_updatemaxprobe_frame.

Theorem C12_open2n2_clear_frame :
  forall st sh hp,
    let '(st', sh') := Gen_O2.Clear st sh hp in
    MP_Open2N2.enc_inv st' /\ MP_Open2N2.decode st' = 0 /\ Gen_O2.pvGetCount st' sh' hp = 0 /\ (forall i, 0 <= i < 3 -> sh' i = 128) /\
    Gen_O2.IsFull st' sh' hp = false.
Proof. exact TableO2_Find.o2_clear_frame. Qed.
Print Assumptions C12_open2n2_clear_frame.

(* same code: the class the real HashSet selects (HashBucketOpen8 + slow-hash key, instantiated through the container) *)
Theorem C12_open8_selected_bucket_same_code :
  Gen_O2set.pvGetCount = Gen_O2.pvGetCount /\ Gen_O2set.pvSetEmpty = Gen_O2.pvSetEmpty /\ Gen_O2set.Clear = Gen_O2.Clear /\
  Gen_O2set.pvCalcShortHash = Gen_O2.pvCalcShortHash /\ Gen_O2set.pvGetProbeShift = Gen_O2.pvGetProbeShift /\
  Gen_O2set.IsFull = Gen_O2.IsFull /\ Gen_O2set.WasFull = Gen_O2.WasFull /\ Gen_O2set.Find = Gen_O2.Find /\
  Gen_O2set.AddCrt = Gen_O2.AddCrt /\ Gen_O2set.Remove = Gen_O2.Remove /\ Gen_O2set.GetHashCodePart = Gen_O2.GetHashCodePart /\
  Gen_O2set.GetNextBucketIndex = Gen_O2.GetNextBucketIndex.
Proof. exact SameCode.open8_selected_bucket_same_code. Qed.
Print Assumptions C12_open8_selected_bucket_same_code.

(* ---------------------------------------------------------------------------------------------------------------
   Grow round 2: BucketLimP4::Find / BucketOne::Find (generated) under specs; HashSet::pvFind for LimP4 and One. *)
Theorem C12_limp4_bucket_find_spec :
  forall b key h, exists r, TableP4.pbucket_find b key h = Ok r /\
    ((r = 0 /\ forall i, 0 <= i < 4 -> ~ (TableP4.ps b i = Gen_P4.pvCalcShortHash h /\ TableP4.pky b i = key)) \/
     (1 <= r <= 4 /\ TableP4.ps b (r - 1) = Gen_P4.pvCalcShortHash h /\ TableP4.pky b (r - 1) = key)).
Proof. exact TableP4_Find.pbucket_find_spec. Qed.
Print Assumptions C12_limp4_bucket_find_spec.

Theorem C12_one_bucket_find_spec :
  forall b key h, TableOne.obucket_find b key h =
    (if andb (TableOne.ost b =? Gen_One.pvGetHashState h) (TableOne.oky b =? key) then 1 else 0).
Proof. exact TableP4_Find.obucket_find_spec. Qed.
Print Assumptions C12_one_bucket_find_spec.

(* the modelled HashSet::Find (start bucket, then linear probes 1..2^L-1 while the bucket just examined WasFull) returns a
   slot holding the key for EVERY key present in a LimP4 table satisfying the invariant, every hashCount 4..8 ... *)
Theorem C12_limp4_find_returns_every_present_key :
  forall H hash L t key, 0 <= L <= 63 -> TableP4_Proofs.PTinv H hash L t -> TableP4_Proofs.PPresent L t key ->
    exists r, TableP4.pfind t L key (hash key) = Ok r /\ TableP4_Find.phit hash L t key r.
Proof. exact TableP4_Find.pfind_present. Qed.
Print Assumptions C12_limp4_find_returns_every_present_key.

(* ... hence after migrating every element with reconstructed codes Find returns every key of the old table *)
Theorem C12_limp4_find_after_growth :
  forall H mm hash, 4 <= H <= 8 -> (forall k, 0 <= hash k < 2 ^ 64) -> 1 <= mm <= 4 ->
  forall L newL told, 0 <= L -> L < newL <= 63 -> TableP4_Proofs.PTinv H hash L told ->
    match TableP4.pmigrate H mm hash told L newL with
    | Ok (_, tnew, _) => forall k, TableP4_Proofs.PPresent L told k ->
                           exists r, TableP4.pfind tnew newL k (hash k) = Ok r /\ TableP4_Find.phit hash newL tnew k r
    | Exn => True
    | _ => False
    end.
Proof. exact TableP4_Find.pmigrate_find. Qed.
Print Assumptions C12_limp4_find_after_growth.

Theorem C12_one_find_returns_every_present_key :
  forall hash L t key, 0 <= L <= 63 -> TableOne_Proofs.OTinv hash L t -> TableOne_Proofs.OPresent L t key ->
    exists r, TableOne.ofind t L key (hash key) = Ok r /\ TableP4_Find.ohit hash t key r.
Proof. exact TableP4_Find.ofind_present. Qed.
Print Assumptions C12_one_find_returns_every_present_key.

Theorem C12_one_find_after_growth :
  forall hash, (forall k, 0 <= hash k < 2 ^ 64) ->
  forall L newL told, 0 <= L -> L < newL <= 63 -> TableOne_Proofs.OTinv hash L told ->
    match TableOne.omigrate hash told L newL with
    | Ok (_, tnew) => forall k, TableOne_Proofs.OPresent L told k ->
                        exists r, TableOne.ofind tnew newL k (hash k) = Ok r /\ TableP4_Find.ohit hash tnew k r
    | Exn => True
    | _ => False
    end.
Proof. exact TableP4_Find.omigrate_find. Qed.
Print Assumptions C12_one_find_after_growth.

(* BucketOne::Clear (generated) frame *)
Theorem C12_one_clear_frame :
  forall st, Gen_One.IsFull (Gen_One.Clear st) = false /\ Gen_One.WasFull (Gen_One.Clear st) = false.
Proof. exact TableP4_Find.one_clear_frame. Qed.
Print Assumptions C12_one_clear_frame.

(* the REAL BucketLimP4::AddCrt (generated with all its branches: pvAdd0<min>, pvAdd0<max>, pvAdd<1..3>, spare memory) refines
   the hand composition used by every LimP4 theorem: same mShortHashes as P4_Model.p4_add, and the memory-pool index
   (pointer state + 1) moves exactly as TableP4's bookkeeping says.  A wrong slot in any branch's pvSetHashProbe breaks this. *)
Theorem C12_limp4_generated_addcrt_refines_model :
  forall H mm s ptr stt x L probe m0a m0b m1a m1b m2a m2b m3a m3b m4a m4b,
    0 <= stt < 4 -> mm = 2 ->
    let c := Gen_P4.pvGetCount s in let mpi := stt + 1 in
    0 <= c < 4 -> c <= mpi -> (ptr = 0 <-> c = 0) -> (c = 0 -> mpi = mm \/ mpi = 4) ->
    exists r s' ptr' stt',
      Gen_P4A.AddCrt H mm s ptr stt x L probe m0a m0b m1a m1b m2a m2b m3a m3b m4a m4b = Ok (r, s', ptr', stt') /\
      P4_Model.p4_add H s x L probe = Ok s' /\
      stt' + 1 = (if c =? 0 then mpi else if c =? mpi then mpi + 1 else mpi) /\ 0 <= stt' < 4 /\
      (ptr' = ptr \/ ptr' = m0a \/ ptr' = m1a \/ ptr' = m2a \/ ptr' = m3a \/ ptr' = m4a).
Proof. exact P4A_Refine.p4a_addcrt_refines. Qed.
Print Assumptions C12_limp4_generated_addcrt_refines_model.

(* generated pvGetMemPoolIndex / WasFull: the index is the pointer's state bits + 1, WasFull <-> index = maxCount *)
Theorem C12_limp4_generated_wasfull :
  forall s ptr stt, 0 <= stt < 4 -> Gen_P4A.WasFull s ptr stt = (stt + 1 =? 4).
Proof. exact P4A_Refine.p4a_wasfull. Qed.
Print Assumptions C12_limp4_generated_wasfull.

(* ---------------------------------------------------------------------------------------------------------------
   Grow round 3. *)

(* chains of growths: after ANY chain of successive pvRelocateItems runs (strictly growing sizes up to 2^63; each run consumes
   GetHashCodePart of the previous table and calls AddCrt in the next) the modelled HashSet::Find returns every key of the
   ORIGINAL table, and the final table satisfies the invariant again. *)
Theorem C12_open2n2_find_after_any_chain_of_growths :
  forall hash, (forall k, 0 <= hash k < 2 ^ 64) ->
  forall Ls L t, 0 <= L <= 63 -> Chains.increasing L Ls -> TableO2_Proofs.Tinv hash L t ->
    match TableO2.grow_chain hash t L Ls with
    | Ok (t', L') => TableO2_Proofs.Tinv hash L' t' /\
        (forall k, TableO2_Proofs.Present L t k -> exists r, TableO2.find t' L' k (hash k) = Ok r /\ TableO2_Find.hit hash L' t' k r)
    | Exn => True
    | _ => False
    end.
Proof. exact Chains.grow_chain_find. Qed.
Print Assumptions C12_open2n2_find_after_any_chain_of_growths.

Theorem C12_limp4_find_after_any_chain_of_growths :
  forall H mm hash, 4 <= H <= 8 -> 1 <= mm <= 4 -> (forall k, 0 <= hash k < 2 ^ 64) ->
  forall Ls L t, 0 <= L <= 63 -> Chains.increasing L Ls -> TableP4_Proofs.PTinv H hash L t ->
    match TableP4.pgrow_chain H mm hash t L Ls with
    | Ok (t', L') => TableP4_Proofs.PTinv H hash L' t' /\
        (forall k, TableP4_Proofs.PPresent L t k -> exists r, TableP4.pfind t' L' k (hash k) = Ok r /\ TableP4_Find.phit hash L' t' k r)
    | Exn => True
    | _ => False
    end.
Proof. exact Chains.pgrow_chain_find. Qed.
Print Assumptions C12_limp4_find_after_any_chain_of_growths.

Theorem C12_one_find_after_any_chain_of_growths :
  forall hash, (forall k, 0 <= hash k < 2 ^ 64) ->
  forall Ls L t, 0 <= L <= 63 -> Chains.increasing L Ls -> TableOne_Proofs.OTinv hash L t ->
    match TableOne.ogrow_chain hash t L Ls with
    | Ok (t', L') => TableOne_Proofs.OTinv hash L' t' /\
        (forall k, TableOne_Proofs.OPresent L t k -> exists r, TableOne.ofind t' L' k (hash k) = Ok r /\ TableP4_Find.ohit hash t' k r)
    | Exn => True
    | _ => False
    end.
Proof. exact Chains.ogrow_chain_find. Qed.
Print Assumptions C12_one_find_after_any_chain_of_growths.

(* the generated BucketLimP4::Remove WITH the pointer state (count == 1 branch: pointer null, memory-pool index reset to
   minMemPoolIndex unless it is maxCount) refines the Remove of the LimP4 theorems and TableP4.premove_at's bookkeeping *)
Theorem C12_limp4_generated_remove_refines_model :
  forall H mm s ptr stt iter idx, 0 <= stt < 4 -> 1 <= mm <= 4 ->
    let c := Gen_P4.pvGetCount s in let mpi := stt + 1 in
    match Gen_P4.Remove H mm s iter ptr mpi idx with
    | Ok (_, s') =>
        exists r stt', Gen_P4A.Remove H mm s ptr stt iter idx = Ok (r, s', (if c =? 1 then 0 else ptr), stt') /\
          stt' + 1 = (if c =? 1 then (if mpi =? 4 then mpi else mm) else mpi) /\ 0 <= stt' < 4
    | Stuck => Gen_P4A.Remove H mm s ptr stt iter idx = Stuck
    | _ => False
    end.
Proof. exact P4A_Refine.p4a_remove_refines. Qed.
Print Assumptions C12_limp4_generated_remove_refines_model.

(* BucketLimP4::Clear (generated) frame *)
Theorem C12_limp4_clear_frame :
  forall H mm s ptr stt, 4 <= H -> 1 <= mm <= 4 ->
    let '(s', ptr', stt') := Gen_P4A.Clear H mm s ptr stt in
    (forall j, 0 <= j < H -> s' j = 255) /\ ptr' = 0 /\ stt' + 1 = mm /\ Gen_P4.pvGetCount s' = 0 /\
    Gen_P4A.WasFull s' ptr' stt' = (mm =? 4).
Proof. exact P4A_Refine.p4a_clear_frame. Qed.
Print Assumptions C12_limp4_clear_frame.

(* the AddCrt refinement for the instantiation with minMemPoolIndex = 1 (16-byte items / std::string keys), and same code for
   everything except pvAdd0<minMemPoolIndex> *)
Theorem C12_limp4_generated_addcrt_refines_model_min1 :
  forall H mm s ptr stt x L probe m0a m0b m1a m1b m2a m2b m3a m3b m4a m4b,
    0 <= stt < 4 -> mm = 1 ->
    let c := Gen_P4.pvGetCount s in let mpi := stt + 1 in
    0 <= c < 4 -> c <= mpi -> (ptr = 0 <-> c = 0) -> (c = 0 -> mpi = mm \/ mpi = 4) ->
    exists r s' ptr' stt',
      Gen_P4A16.AddCrt H mm s ptr stt x L probe m0a m0b m1a m1b m2a m2b m3a m3b m4a m4b = Ok (r, s', ptr', stt') /\
      P4_Model.p4_add H s x L probe = Ok s' /\
      stt' + 1 = (if c =? 0 then mpi else if c =? mpi then mpi + 1 else mpi) /\ 0 <= stt' < 4 /\
      (ptr' = ptr \/ ptr' = m0a \/ ptr' = m1a \/ ptr' = m2a \/ ptr' = m3a \/ ptr' = m4a).
Proof. exact P4A_Refine16.p4a_addcrt_refines16. Qed.
Print Assumptions C12_limp4_generated_addcrt_refines_model_min1.

Theorem C12_limp4_16byte_instantiation_same_code :
  Gen_P4A16.pvGetCount = Gen_P4A.pvGetCount /\ Gen_P4A16.pvCalcShortHash = Gen_P4A.pvCalcShortHash /\
  Gen_P4A16.pvGetProbeShift = Gen_P4A.pvGetProbeShift /\ Gen_P4A16.IsFull = Gen_P4A.IsFull /\
  Gen_P4A16.pvGetMemPoolIndex = Gen_P4A.pvGetMemPoolIndex /\ Gen_P4A16.WasFull = Gen_P4A.WasFull /\
  Gen_P4A16.pvSetPtrState = Gen_P4A.pvSetPtrState /\ Gen_P4A16.pvSetEmpty = Gen_P4A.pvSetEmpty /\ Gen_P4A16.Clear = Gen_P4A.Clear /\
  Gen_P4A16.pvSetHashProbe = Gen_P4A.pvSetHashProbe /\ Gen_P4A16.pvAdd0_max = Gen_P4A.pvAdd0_max /\
  Gen_P4A16.pvAdd_1 = Gen_P4A.pvAdd_1 /\ Gen_P4A16.pvAdd_2 = Gen_P4A.pvAdd_2 /\ Gen_P4A16.pvAdd_3 = Gen_P4A.pvAdd_3 /\
  Gen_P4A16.Remove = Gen_P4A.Remove.
Proof. exact P4A_Refine16.p4a16_same_code. Qed.
Print Assumptions C12_limp4_16byte_instantiation_same_code.

(* BucketLimP4PtrState, the three generated packings: pack / unpack round trip (this is what the two-scalar abstraction of the
   pointer state in Gen_P4A rests on) *)
Theorem C12_ptrstate32_roundtrip :
  forall m ptr s, 0 <= ptr < 2 ^ 32 -> Z.land ptr 3 = 0 -> 0 <= s <= 3 ->
    exists m', Gen_Ptr32.SetPtr m ptr s = Ok (tt, m') /\ Gen_Ptr32.GetPointer m' = ptr /\ Gen_Ptr32.GetState m' = s.
Proof. exact PtrState.ptr32_roundtrip. Qed.
Print Assumptions C12_ptrstate32_roundtrip.

Theorem C12_ptrstate48_roundtrip :
  forall m ptr s, 0 <= ptr < 2 ^ 48 -> Z.land ptr 3 = 0 -> 0 <= s <= 3 ->
    exists m', Gen_Ptr48.SetPtr m ptr s = Ok (tt, m') /\ Gen_Ptr48.GetPointer m' = ptr /\ Gen_Ptr48.GetState m' = s.
Proof. exact PtrState.ptr48_roundtrip. Qed.
Print Assumptions C12_ptrstate48_roundtrip.

Theorem C12_ptrstate64_roundtrip :
  forall m ptr s, 0 <= ptr < 2 ^ 64 -> Z.land ptr 3 = 0 -> 0 <= s <= 3 ->
    exists m', Gen_Ptr64.SetPtr m ptr s = Ok (tt, m') /\ Gen_Ptr64.GetPointer m' = ptr /\ Gen_Ptr64.GetState m' = s.
Proof. exact PtrState.ptr64_roundtrip. Qed.
Print Assumptions C12_ptrstate64_roundtrip.

(* ---------------------------------------------------------------------------------------------------------------
   Next round. *)

(* the abstraction step of Gen_P4A (member object mPtrState = two scalars), formally, for each of the three real packings:
   the generated Set with the arguments pvSetPtrState passes succeeds and the generated GetPointer / GetState then return exactly
   the scalars the model's pvSetPtrState produces; pvGetMemPoolIndex reads the index back. *)
Theorem C12_ptrstate_two_scalar_abstraction_32 :
  forall s ptr stt items mpi m, 1 <= mpi <= 4 -> 0 <= items < 2 ^ 32 -> Z.land items 3 = 0 ->
    let '(s', ptr', stt') := Gen_P4A.pvSetPtrState s ptr stt items mpi in
    s' = s /\ exists m', Gen_Ptr32.SetPtr m items (wrapU 8 (wrapU 8 (wrapU 8 mpi - 1))) = Ok (tt, m') /\ PtrState.R32 m' ptr' stt' /\
      Gen_P4A.pvGetMemPoolIndex s' ptr' stt' = mpi.
Proof. exact PtrState.ptrstate_abstraction32. Qed.
Print Assumptions C12_ptrstate_two_scalar_abstraction_32.

Theorem C12_ptrstate_two_scalar_abstraction_48 :
  forall s ptr stt items mpi m, 1 <= mpi <= 4 -> 0 <= items < 2 ^ 48 -> Z.land items 3 = 0 ->
    let '(s', ptr', stt') := Gen_P4A.pvSetPtrState s ptr stt items mpi in
    s' = s /\ exists m', Gen_Ptr48.SetPtr m items (wrapU 8 (wrapU 8 (wrapU 8 mpi - 1))) = Ok (tt, m') /\ PtrState.R48 m' ptr' stt' /\
      Gen_P4A.pvGetMemPoolIndex s' ptr' stt' = mpi.
Proof. exact PtrState.ptrstate_abstraction48. Qed.
Print Assumptions C12_ptrstate_two_scalar_abstraction_48.

Theorem C12_ptrstate_two_scalar_abstraction_64 :
  forall s ptr stt items mpi m, 1 <= mpi <= 4 -> 0 <= items < 2 ^ 64 -> Z.land items 3 = 0 ->
    let '(s', ptr', stt') := Gen_P4A.pvSetPtrState s ptr stt items mpi in
    s' = s /\ exists m', Gen_Ptr64.SetPtr m items (wrapU 8 (wrapU 8 (wrapU 8 mpi - 1))) = Ok (tt, m') /\ PtrState.R64 m' ptr' stt' /\
      Gen_P4A.pvGetMemPoolIndex s' ptr' stt' = mpi.
Proof. exact PtrState.ptrstate_abstraction64. Qed.
Print Assumptions C12_ptrstate_two_scalar_abstraction_64.

(* Find across chained generations (LimP4): the modelled HashSet::pvFind(key) -- newest table, then GetNextBuckets() ... --
   never asserts or runs out of fuel and returns every key stored in ANY generation satisfying its invariant ... *)
Theorem C12_limp4_find_across_generations :
  forall H hash key gens, GensFind.pgens_inv H hash gens ->
    (exists g, In g gens /\ TableP4_Proofs.PPresent (snd g) (fst g) key) ->
    exists r, TableP4.pfind_gens gens key (hash key) = Ok (Some r) /\ GensFind.pgens_hit gens key r.
Proof. exact GensFind.pfind_gens_present. Qed.
Print Assumptions C12_limp4_find_across_generations.

(* ... in particular after a migration interrupted (or not) by a throwing full getter: every key stored anywhere before is
   returned by Find over the newest table and the remaining older generations *)
Theorem C12_limp4_find_after_throwing_migration :
  forall H mm hash, 4 <= H <= 8 -> 1 <= mm <= 4 -> (forall k, 0 <= hash k < 2 ^ 64) ->
  forall newL budget, 0 <= newL <= 63 -> forall gens tnew calls,
    TableP4_Proofs.pgens_ok H hash newL gens -> TableP4_Proofs.PTinv H hash newL tnew ->
    match TableP4.pmigrate_gens H mm hash gens tnew newL budget calls with
    | Ok (gens', tnew', _, _) =>
        forall k, TableP4_Proofs.pin_gens gens k \/ TableP4_Proofs.PPresent newL tnew k ->
          exists r, TableP4.pfind_gens ((tnew', newL) :: rev gens') k (hash k) = Ok (Some r) /\
                    GensFind.pgens_hit ((tnew', newL) :: rev gens') k r
    | Exn => True
    | _ => False
    end.
Proof. exact GensFind.pmigrate_gens_find. Qed.
Print Assumptions C12_limp4_find_after_throwing_migration.

(* Find across chained generations (Open2N2): the search loop is bounded by the bucket's own decoded maxProbe (< 2^64 by the
   encoder invariant, so ++probe never wraps); never asserts or runs out of fuel; returns every key stored in ANY generation *)
Theorem C12_open2n2_find_across_generations :
  forall hash key gens, GensFind.gens_inv hash gens ->
    (exists g, In g gens /\ TableO2_Proofs.Present (snd g) (fst g) key) ->
    exists r, TableO2.find_gens gens key (hash key) = Ok (Some r) /\ GensFind.gens_hit gens key r.
Proof. exact GensFind.find_gens_present. Qed.
Print Assumptions C12_open2n2_find_across_generations.

Theorem C12_open2n2_find_after_throwing_migration :
  forall hash, (forall k, 0 <= hash k < 2 ^ 64) ->
  forall newL budget, 0 <= newL <= 63 -> forall gens tnew calls,
    TableO2_Proofs.gens_ok hash newL gens -> TableO2_Proofs.Tinv hash newL tnew ->
    match TableO2.migrate_gens hash gens tnew newL budget calls with
    | Ok (gens', tnew', _, _) =>
        forall k, TableO2_Proofs.in_gens gens k \/ TableO2_Proofs.Present newL tnew k ->
          exists r, TableO2.find_gens ((tnew', newL) :: rev gens') k (hash k) = Ok (Some r) /\
                    GensFind.gens_hit ((tnew', newL) :: rev gens') k r
    | Exn => True
    | _ => False
    end.
Proof. exact GensFind.migrate_gens_find. Qed.
Print Assumptions C12_open2n2_find_after_throwing_migration.

(* HashSet::pvFind(key) GENERATED (Gen_HSFind.pvFindKey, HashSet.h:1043-1064; result = the (indexCode, bucketIter) handed to
   ConstPositionProxy): its walk over the chained bucket generations -- per-generation search, `break` on a non-null iterator,
   `buckets = buckets->GetNextBuckets()`, `break` at nullptr -- equals the hand-written walk, for ANY values of the generated
   code's Section variables (any generation pointers gptr, any find_in / buckets_next) such that the pointers are non-null and
   chained by buckets_next (chain_ok) and find_in on generation i's pointer returns the per-generation search's
   (iterator, indexCode) (find_in_ok); for any total per-generation search tf and up to 70 chained generations (each at least
   doubles the bucket count, so there are < 64). *)
Theorem C12_hashset_find_walk_generated :
  forall (A : Type) (tf : Z -> A -> outcome (option (Z * Z))) (it : nat -> Z -> Z -> Z), (forall g b s, it g b s <> 0) ->
  forall (gens : list A) (gptr : nat -> Z) (hash_of : Z -> Z) (find_in : Z -> Z -> Z -> Z * Z) (buckets_next : Z -> Z),
    HSFind_Refine.chain_ok A gens gptr buckets_next ->
    HSFind_Refine.find_in_ok A tf it gens gptr find_in ->
    (forall h, Forall (fun a => exists r, tf h a = Ok r) gens) ->
  forall mCount key ht pred, mCount <> 0 -> gens <> [] -> (length gens <= 70)%nat ->
    Gen_HSFind.pvFindKey false hash_of find_in buckets_next mCount (gptr 0%nat) key ht pred
    = Ok (HSFind_Refine.resw it (hash_of key) (HSFind_Refine.walk A tf 0 (hash_of key) gens)).
Proof. exact HSFind_Refine.pvFindKey_walk. Qed.
Print Assumptions C12_hashset_find_walk_generated.

(* the per-generation search, static HashSet::pvFind(indexCode, buckets, itemPred) GENERATED (Gen_HSFindIn.pvFindIn,
   HashSet.h:1066-1095: start bucket, then `for (probe = 1; bucket->WasFull() && probe <= maxProbe; ++probe)`; result =
   (iterator, final value of the by-reference indexCode)), equals the hand-written TableP4.pfind / TableO2.find /
   TableOne.ofind -- same hit, indexCode = the hit's bucket index (unchanged on a miss), same Stuck/Fuel behaviour -- for ANY
   bucket-array pointer bks and ANY values of the Section variables (bucket pointers bk_at bks i, methods b_find / b_wasfull /
   b_maxprobe / bk_count / bk_logcount) satisfying *_heap_ok: the method on the pointer of bucket i returns what the generated
   bucket-level leaf returns on the model's bucket i.  No table invariant is needed: this is an equality of programs. *)
Theorem C12_hashset_bucket_probing_generated_limp4 :
  forall t L key (itb : Z -> Z -> Z), (forall b s, itb b s <> 0) ->
  forall bks bk_count bk_logcount b_find b_wasfull bk_at,
    HSFind_Refine.p4_heap_ok t L key itb bks bk_count bk_logcount b_find b_wasfull bk_at ->
  forall h pred params,
    HSFind_Refine.p4_findin bks bk_count bk_logcount b_find b_wasfull bk_at h pred params =
    match TableP4.pfind t L key h with Ok r => Ok (HSFind_Refine.resI itb h r) | Stuck => Stuck | Fuel => Fuel | Exn => Exn end.
Proof. exact HSFind_Refine.p4_findin_refines. Qed.
Print Assumptions C12_hashset_bucket_probing_generated_limp4.

Theorem C12_hashset_bucket_probing_generated_open2n2 :
  forall t L key (itb : Z -> Z -> Z), (forall b s, itb b s <> 0) ->
  forall bks bk_count bk_logcount b_find b_maxprobe b_wasfull bk_at,
    HSFind_Refine.o2_heap_ok t L key itb bks bk_count bk_logcount b_find b_maxprobe b_wasfull bk_at ->
  forall h pred params,
    HSFind_Refine.o2_findin bks bk_count bk_logcount b_find b_maxprobe b_wasfull bk_at h pred params =
    match TableO2.find t L key h with Ok r => Ok (HSFind_Refine.resI itb h r) | Stuck => Stuck | Fuel => Fuel | Exn => Exn end.
Proof. exact HSFind_Refine.o2_findin_refines. Qed.
Print Assumptions C12_hashset_bucket_probing_generated_open2n2.

Theorem C12_hashset_bucket_probing_generated_one :
  forall t L key (it1 : Z -> Z), (forall b, it1 b <> 0) ->
  forall bks bk_count bk_logcount b_find b_wasfull bk_at,
    HSFind_Refine.one_heap_ok t L key it1 bks bk_count bk_logcount b_find b_wasfull bk_at ->
  forall h pred params,
    HSFind_Refine.one_findin bks bk_count bk_logcount b_find b_wasfull bk_at h pred params =
    match TableOne.ofind t L key h with Ok r => Ok (HSFind_Refine.resI1 it1 h r) | Stuck => Stuck | Fuel => Fuel | Exn => Exn end.
Proof. exact HSFind_Refine.one_findin_refines. Qed.
Print Assumptions C12_hashset_bucket_probing_generated_one.

(* both generated functions composed (pvFind(key) calling the generated pvFind(indexCode, *buckets, pred)) = the hand-written
   TableP4.pfind_gens, for LimP4 generations satisfying their invariant, any memory layout satisfying p4_heaps_ok / chain_ok *)
Theorem C12_hashset_find_generated_refines_limp4 :
  forall H hash (it : nat -> Z -> Z -> Z), (forall g b s, it g b s <> 0) ->
  forall gptr bk_count bk_logcount b_find b_wasfull bk_at buckets_next gens key,
    HSFind_Refine.p4_heaps_ok it gptr bk_count bk_logcount b_find b_wasfull bk_at gens key ->
    HSFind_Refine.chain_ok _ gens gptr buckets_next ->
  forall mCount ht pred, GensFind.pgens_inv H hash gens -> gens <> [] -> (length gens <= 70)%nat -> mCount <> 0 ->
    Gen_HSFind.pvFindKey false hash (HSFind_Refine.p4_find_in bk_count bk_logcount b_find b_wasfull bk_at) buckets_next mCount (gptr 0%nat) key ht pred
    = Ok (HSFind_Refine.resw it (hash key) (TableP4.pfind_gens gens key (hash key))).
Proof. exact HSFind_Refine.hsfind_p4_refines. Qed.
Print Assumptions C12_hashset_find_generated_refines_limp4.

(* ... so the generated Find returns (indexCode, iterator) = (bucket index, non-null iterator) of a slot that holds the key, for
   every key stored in any generation *)
Theorem C12_hashset_find_generated_finds_present_limp4 :
  forall H hash (it : nat -> Z -> Z -> Z), (forall g b s, it g b s <> 0) ->
  forall gptr bk_count bk_logcount b_find b_wasfull bk_at buckets_next gens key,
    HSFind_Refine.p4_heaps_ok it gptr bk_count bk_logcount b_find b_wasfull bk_at gens key ->
    HSFind_Refine.chain_ok _ gens gptr buckets_next ->
  forall mCount ht pred, GensFind.pgens_inv H hash gens -> (length gens <= 70)%nat -> mCount <> 0 ->
    (exists g, In g gens /\ TableP4_Proofs.PPresent (snd g) (fst g) key) ->
    exists g b s,
      Gen_HSFind.pvFindKey false hash (HSFind_Refine.p4_find_in bk_count bk_logcount b_find b_wasfull bk_at) buckets_next mCount (gptr 0%nat) key ht pred
      = Ok (b, it g b s) /\ it g b s <> 0 /\ GensFind.pgens_hit gens key (g, b, s).
Proof. exact HSFind_Refine.hsfind_p4_present. Qed.
Print Assumptions C12_hashset_find_generated_finds_present_limp4.

(* the same for Open2N2 tables (TableO2.find_gens) *)
Theorem C12_hashset_find_generated_refines_open2n2 :
  forall hash (it : nat -> Z -> Z -> Z), (forall g b s, it g b s <> 0) ->
  forall gptr bk_count bk_logcount b_find b_maxprobe b_wasfull bk_at buckets_next gens key,
    HSFind_Refine.o2_heaps_ok it gptr bk_count bk_logcount b_find b_maxprobe b_wasfull bk_at gens key ->
    HSFind_Refine.chain_ok _ gens gptr buckets_next ->
  forall mCount ht pred, GensFind.gens_inv hash gens -> gens <> [] -> (length gens <= 70)%nat -> mCount <> 0 ->
    Gen_HSFind.pvFindKey false hash (HSFind_Refine.o2_find_in bk_count bk_logcount b_find b_maxprobe b_wasfull bk_at) buckets_next mCount (gptr 0%nat) key ht pred
    = Ok (HSFind_Refine.resw it (hash key) (TableO2.find_gens gens key (hash key))).
Proof. exact HSFind_Refine.hsfind_o2_refines. Qed.
Print Assumptions C12_hashset_find_generated_refines_open2n2.

Theorem C12_hashset_find_generated_finds_present_open2n2 :
  forall hash (it : nat -> Z -> Z -> Z), (forall g b s, it g b s <> 0) ->
  forall gptr bk_count bk_logcount b_find b_maxprobe b_wasfull bk_at buckets_next gens key,
    HSFind_Refine.o2_heaps_ok it gptr bk_count bk_logcount b_find b_maxprobe b_wasfull bk_at gens key ->
    HSFind_Refine.chain_ok _ gens gptr buckets_next ->
  forall mCount ht pred, GensFind.gens_inv hash gens -> (length gens <= 70)%nat -> mCount <> 0 ->
    (exists g, In g gens /\ TableO2_Proofs.Present (snd g) (fst g) key) ->
    exists g b s,
      Gen_HSFind.pvFindKey false hash (HSFind_Refine.o2_find_in bk_count bk_logcount b_find b_maxprobe b_wasfull bk_at) buckets_next mCount (gptr 0%nat) key ht pred
      = Ok (b, it g b s) /\ it g b s <> 0 /\ GensFind.gens_hit gens key (g, b, s).
Proof. exact HSFind_Refine.hsfind_o2_present. Qed.
Print Assumptions C12_hashset_find_generated_finds_present_open2n2.

(* the layout hypotheses are satisfiable (the theorems above are not vacuous): generation i at pointer i+1; bucket pointer = index *)
Theorem C12_hashset_find_layout_hypotheses_satisfiable :
  forall (A : Type) (gens : list A),
    HSFind_Refine.chain_ok A gens (fun i => Z.of_nat i + 1) (fun p => if p <? Z.of_nat (length gens) then p + 1 else 0).
Proof. exact HSFind_Refine.chain_ok_example. Qed.
Print Assumptions C12_hashset_find_layout_hypotheses_satisfiable.

Theorem C12_hashset_find_heap_hypotheses_satisfiable_limp4 :
  forall t L key itb bks,
    HSFind_Refine.p4_heap_ok t L key itb bks (fun _ => wrapU 64 (Z.shiftl 1 L)) (fun _ => L)
      (fun b _ _ h => match TableP4.pbucket_find (t b) key h with Ok r => if r =? 0 then 0 else itb b (r - 1) | _ => 0 end)
      (fun b => TableP4.was_full (t b)) (fun _ i => i).
Proof. exact HSFind_Refine.p4_heap_ok_example. Qed.
Print Assumptions C12_hashset_find_heap_hypotheses_satisfiable_limp4.

Theorem C12_hashset_find_heap_hypotheses_satisfiable_open2n2 :
  forall t L key itb bks,
    HSFind_Refine.o2_heap_ok t L key itb bks (fun _ => wrapU 64 (Z.shiftl 1 L)) (fun _ => L)
      (fun b _ _ h => match TableO2.bucket_find (t b) key h with Ok r => if r =? 0 then 0 else itb b (r - 1) | _ => 0 end)
      (fun b _ => Gen_O2MP.GetMaxProbe (TableO2.bst (t b))) (fun b => Gen_O2.WasFull (TableO2.bst (t b)) (TableO2.bsh (t b)) (TableO2.bhp (t b))) (fun _ i => i).
Proof. exact HSFind_Refine.o2_heap_ok_example. Qed.
Print Assumptions C12_hashset_find_heap_hypotheses_satisfiable_open2n2.

(* areItemsNothrowRelocatable: the generated walk stops after the newest generation (then pvRelocateItems never leaves an older one) *)
Theorem C12_hashset_find_nothrow_relocatable_newest_only :
  forall hash_of (find_in : Z -> Z -> Z -> Z * Z) buckets_next mBuckets mCount key ht pred, mCount <> 0 ->
    Gen_HSFind.pvFindKey true hash_of find_in buckets_next mCount mBuckets key ht pred
    = Ok (snd (find_in (hash_of key) mBuckets pred), fst (find_in (hash_of key) mBuckets pred)).
Proof. exact HSFind_Refine.pvFindKey_nothrow. Qed.
Print Assumptions C12_hashset_find_nothrow_relocatable_newest_only.

(* HashSet::pvAddNogrow<false> GENERATED (Gen_HSAdd.pvAddNogrow, HashSet.h:1123-1148: start bucket, `while (bucket->IsFull())` probe
   loop with the "Hash table is full" throw, AddCrt(.., hashCode, logCount, probe), startBucket.UpdateMaxProbe(probe); the bucket
   array is a ghost field of abstract type threaded through the bucket methods) EQUALS the hand-written add_nogrow / padd_nogrow when
   its Section variables are the generated bucket leaves over the model table (bucket pointer = index).  Equality of programs. *)
Theorem C12_hashset_addnogrow_generated_open2n2 :
  forall key L t code, HSReloc_Refine.o2_gen_add key L t code = TableO2.add_nogrow t L code key.
Proof. exact HSReloc_Refine.o2_gen_add_eq. Qed.
Print Assumptions C12_hashset_addnogrow_generated_open2n2.

Theorem C12_hashset_addnogrow_generated_limp4 :
  forall H key L t code, HSReloc_Refine.p4_gen_add H key L t code = TableP4.padd_nogrow H t L code key.
Proof. exact HSReloc_Refine.p4_gen_add_eq. Qed.
Print Assumptions C12_hashset_addnogrow_generated_limp4.

(* the two loops of HashSet::pvRelocateItems(Buckets* buckets) GENERATED (Gen_HSReloc.pvRelocateItemsB, HashSet.h:1286-1312: for every
   bucket i, `for (c = bounds.GetCount(); c > 0; --c) { --bucketIter; hashCode = bucket.GetHashCodePart(getter, bucketIter, i,
   buckets->GetLogCount(), mBuckets->GetLogCount()); bucketIter = bucket.Remove(params, bucketIter, replacer[hashCode]); }`), with
   Remove's replacer instantiated by the GENERATED pvAddNogrow<false> on the new table, equal the hand-written migrate_from /
   pmigrate_from on tables satisfying their invariants (the invariant gives count' = count - 1 after each Remove, which the
   generated counter c relies on).  world = (old table, new table). *)
Theorem C12_hashset_relocate_loops_generated_open2n2 :
  forall hash, (forall k, 0 <= hash k < 2 ^ 64) -> forall L newL, 0 <= L -> L < newL <= 63 ->
  forall told tnew, TableO2_Proofs.Tinv hash L told -> TableO2_Proofs.Tinv hash newL tnew ->
    HSReloc_Refine.o2_gen_reloc hash L newL told tnew = TableO2.migrate_from hash (Z.to_nat (2 ^ L)) told tnew L newL 0.
Proof. exact HSReloc_Refine.o2_gen_reloc_eq. Qed.
Print Assumptions C12_hashset_relocate_loops_generated_open2n2.

Theorem C12_hashset_relocate_loops_generated_limp4 :
  forall H mm hash, 4 <= H <= 8 -> 1 <= mm <= 4 -> (forall k, 0 <= hash k < 2 ^ 64) -> forall L newL, 0 <= L -> L < newL <= 63 ->
  forall told tnew calls, TableP4_Proofs.PTinv H hash L told -> TableP4_Proofs.PTinv H hash newL tnew ->
    HSReloc_Refine.p4_gen_reloc H mm hash L newL told tnew =
    HSReloc_Refine.lift2 HSReloc_Refine.proj2w (TableP4.pmigrate_from H mm hash (Z.to_nat (2 ^ L)) told tnew L newL 0 calls).
Proof. exact HSReloc_Refine.p4_gen_reloc_eq. Qed.
Print Assumptions C12_hashset_relocate_loops_generated_limp4.

(* element_found_after_growth for the GENERATED loops: relocating a table that satisfies its invariant into a fresh table *)
Theorem C12_open2n2_element_found_after_growth_generated_loops :
  forall hash, (forall k, 0 <= hash k < 2 ^ 64) -> forall L newL, 0 <= L -> L < newL <= 63 ->
  forall told, TableO2_Proofs.Tinv hash L told ->
    match HSReloc_Refine.o2_gen_reloc hash L newL told TableO2.empty_table with
    | Ok (_, tnew) => TableO2_Proofs.Tinv hash newL tnew /\ (forall k, TableO2_Proofs.Present L told k -> TableO2_Proofs.Found hash newL tnew k)
    | Exn => True
    | _ => False
    end.
Proof. exact HSReloc_Refine.o2_gen_reloc_found. Qed.
Print Assumptions C12_open2n2_element_found_after_growth_generated_loops.

Theorem C12_limp4_element_found_after_growth_generated_loops :
  forall H mm hash, 4 <= H <= 8 -> 1 <= mm <= 4 -> (forall k, 0 <= hash k < 2 ^ 64) -> forall L newL, 0 <= L -> L < newL <= 63 ->
  forall told, TableP4_Proofs.PTinv H hash L told ->
    match HSReloc_Refine.p4_gen_reloc H mm hash L newL told (TableP4.pempty_table H mm) with
    | Ok (_, tnew) => TableP4_Proofs.PTinv H hash newL tnew /\ (forall k, TableP4_Proofs.PPresent L told k -> TableP4_Proofs.PFound hash newL tnew k)
    | Exn => True
    | _ => False
    end.
Proof. exact HSReloc_Refine.p4_gen_reloc_found. Qed.
Print Assumptions C12_limp4_element_found_after_growth_generated_loops.

(* after ANY chain of growths carried out by the generated loops, every key of the original table is returned by the modelled Find
   (which the generated pvFind equals: the C12_hashset_bucket_probing_generated theorems) *)
Theorem C12_open2n2_find_after_any_chain_of_growths_generated_loops :
  forall hash, (forall k, 0 <= hash k < 2 ^ 64) ->
  forall Ls L t, 0 <= L <= 63 -> Chains.increasing L Ls -> TableO2_Proofs.Tinv hash L t ->
    match HSReloc_Refine.o2_gen_grow_chain hash t L Ls with
    | Ok (t', L') => TableO2_Proofs.Tinv hash L' t' /\
        (forall k, TableO2_Proofs.Present L t k -> exists r, TableO2.find t' L' k (hash k) = Ok r /\ TableO2_Find.hit hash L' t' k r)
    | Exn => True
    | _ => False
    end.
Proof. exact HSReloc_Refine.o2_gen_grow_chain_find. Qed.
Print Assumptions C12_open2n2_find_after_any_chain_of_growths_generated_loops.

Theorem C12_limp4_find_after_any_chain_of_growths_generated_loops :
  forall H mm hash, 4 <= H <= 8 -> 1 <= mm <= 4 -> (forall k, 0 <= hash k < 2 ^ 64) ->
  forall Ls L t, 0 <= L <= 63 -> Chains.increasing L Ls -> TableP4_Proofs.PTinv H hash L t ->
    match HSReloc_Refine.p4_gen_grow_chain H mm hash t L Ls with
    | Ok (t', L') => TableP4_Proofs.PTinv H hash L' t' /\
        (forall k, TableP4_Proofs.PPresent L t k -> exists r, TableP4.pfind t' L' k (hash k) = Ok r /\ TableP4_Find.phit hash L' t' k r)
    | Exn => True
    | _ => False
    end.
Proof. exact HSReloc_Refine.p4_gen_grow_chain_find. Qed.
Print Assumptions C12_limp4_find_after_any_chain_of_growths_generated_loops.

(* ---- review-fix round: establishing theorems for the hypotheses of the table-level theorems, and witnesses ---- *)
Theorem C12_one_empty_table_invariant : forall hash L, TableOne_Proofs.OTinv hash L TableOne.oempty_table.
Proof. exact TableOne_Proofs.oempty_inv. Qed.
Print Assumptions C12_one_empty_table_invariant.

(* Good / gens_ok / gens_inv (Open2N2): a table filled by HashSet::Insert-without-growth of DISTINCT keys, next to a fresh empty
   table, satisfies all of them (Uniq = no key stored twice holds for the empty table and is preserved by inserting an absent key) *)
Theorem C12_open2n2_table_hypotheses_established :
  forall hash, (forall k, 0 <= hash k < 2 ^ 64) -> forall L newL keys, 0 <= L -> L < newL <= 63 -> NoDup keys ->
    match TableO2.insert_all hash TableO2.empty_table L keys with
    | Ok t => TableO2_Proofs.Good hash L newL t TableO2.empty_table /\ TableO2_Proofs.gens_ok hash newL [(t, L)] /\ GensFind.gens_inv hash [(t, L)]
    | Exn => True
    | _ => False
    end.
Proof. exact Establish.o2_hypotheses_established. Qed.
Print Assumptions C12_open2n2_table_hypotheses_established.

Theorem C12_limp4_table_hypotheses_established :
  forall H mm hash, 4 <= H <= 8 -> 1 <= mm <= 4 -> (forall k, 0 <= hash k < 2 ^ 64) -> forall L newL keys, 0 <= L -> L < newL <= 63 -> NoDup keys ->
    match TableP4.pinsert_all H hash (TableP4.pempty_table H mm) L keys with
    | Ok t => TableP4_Proofs.PGood H hash L newL t (TableP4.pempty_table H mm) /\ TableP4_Proofs.pgens_ok H hash newL [(t, L)] /\ GensFind.pgens_inv H hash [(t, L)]
    | Exn => True
    | _ => False
    end.
Proof. exact Establish.p4_hypotheses_established. Qed.
Print Assumptions C12_limp4_table_hypotheses_established.

Theorem C12_one_table_hypotheses_established :
  forall hash L newL keys, 0 <= L <= 63 -> NoDup keys ->
    match TableOne.oinsert_all hash TableOne.oempty_table L keys with
    | Ok t => TableOne_Proofs.OGood hash L newL t TableOne.oempty_table
    | Exn => True
    | _ => False
    end.
Proof. exact Establish.one_hypotheses_established. Qed.
Print Assumptions C12_one_table_hypotheses_established.

(* concrete witnesses (computed): 8 keys inserted, then migrated into a larger fresh table WITHOUT the "table full" exception, for
   LimP4 and One (Open2N2: C12_open2n2_table_nonvacuous) and for chains of growths through the GENERATED loops.  There is NO
   general theorem that the Exn escape of the table-level theorems cannot be taken when the capacity suffices. *)
Theorem C12_limp4_table_nonvacuous :
  match TableP4.pinsert_all 4 TableO2_Proofs.demo_hash (TableP4.pempty_table 4 2) 2 [1; 2; 3; 4; 5; 6; 7; 8] with
  | Ok t => match TableP4.pmigrate 4 2 TableO2_Proofs.demo_hash t 2 5 with Ok _ => true | _ => false end
  | _ => false
  end = true.
Proof. exact Establish.p4_table_nonvacuous. Qed.
Print Assumptions C12_limp4_table_nonvacuous.

Theorem C12_one_table_nonvacuous :
  match TableOne.oinsert_all TableO2_Proofs.demo_hash TableOne.oempty_table 4 [1; 2; 3; 4; 5; 6; 7; 8] with
  | Ok t => match TableOne.omigrate TableO2_Proofs.demo_hash t 4 6 with Ok _ => true | _ => false end
  | _ => false
  end = true.
Proof. exact Establish.one_table_nonvacuous. Qed.
Print Assumptions C12_one_table_nonvacuous.

Theorem C12_generated_growth_loops_nonvacuous :
  match TableO2.insert_all TableO2_Proofs.demo_hash TableO2.empty_table 2 [1; 2; 3; 4; 5; 6; 7; 8],
        TableP4.pinsert_all 4 TableO2_Proofs.demo_hash (TableP4.pempty_table 4 2) 2 [1; 2; 3; 4; 5; 6; 7; 8] with
  | Ok t, Ok pt => match HSReloc_Refine.o2_gen_grow_chain TableO2_Proofs.demo_hash t 2 [3; 5; 9],
                         HSReloc_Refine.p4_gen_grow_chain 4 2 TableO2_Proofs.demo_hash pt 2 [4; 7] with
                   | Ok _, Ok _ => true
                   | _, _ => false
                   end
  | _, _ => false
  end = true.
Proof. exact Establish.gen_loops_nonvacuous. Qed.
Print Assumptions C12_generated_growth_loops_nonvacuous.

(* ---- Open2N2: the `Exn => True` escape is NOT taken when migrating into a fresh larger table ---- *)
(* triangular probing visits every bucket of a table of 2^n buckets within 2^n probes (C13's ProbeSeq proof, re-proved here for pidx) *)
Theorem C12_open2n2_probe_path_covers_table :
  forall n start, 0 <= n <= 63 -> forall b, 0 <= b < 2 ^ n -> exists p, 0 <= p < 2 ^ n /\ TableO2_Proofs.pidx n start p = b.
Proof. exact NoExn.pidx_covers. Qed.
Print Assumptions C12_open2n2_probe_path_covers_table.

(* pvAddNogrow does not throw "Hash table is full" when some bucket holds fewer than 3 elements *)
Theorem C12_open2n2_addnogrow_no_exception_when_a_bucket_is_free :
  forall hash L t code key, 0 <= L <= 63 -> TableO2_Proofs.Tinv hash L t -> 0 <= code < 2 ^ 64 ->
    (exists b, 0 <= b < 2 ^ L /\ TableO2.cnt (t b) < 3) -> TableO2.add_nogrow t L code key <> Exn.
Proof. exact NoExn.add_nogrow_not_exn. Qed.
Print Assumptions C12_open2n2_addnogrow_no_exception_when_a_bucket_is_free.

(* element_found_after_growth WITHOUT the escape (element-count invariant: #old + #new <= 3 * 2^L < 3 * 2^newL): the migration into a
   fresh table of 2^newL > 2^L buckets returns Ok, the new table satisfies its invariant and every key is Found *)
Theorem C12_open2n2_element_found_after_growth_no_exception :
  forall hash, (forall k, 0 <= hash k < 2 ^ 64) -> forall L newL, 0 <= L -> L < newL <= 63 ->
  forall told, TableO2_Proofs.Tinv hash L told ->
    exists told' tnew, TableO2.migrate hash told L newL = Ok (told', tnew) /\ TableO2_Proofs.Tinv hash newL tnew /\
      (forall k, TableO2_Proofs.Present L told k -> TableO2_Proofs.Found hash newL tnew k).
Proof. exact NoExn.migrate_found_ok. Qed.
Print Assumptions C12_open2n2_element_found_after_growth_no_exception.

(* ... for the GENERATED pvRelocateItems / pvAddNogrow loops *)
Theorem C12_open2n2_element_found_after_growth_generated_loops_no_exception :
  forall hash, (forall k, 0 <= hash k < 2 ^ 64) -> forall L newL told, 0 <= L -> L < newL <= 63 -> TableO2_Proofs.Tinv hash L told ->
    exists told' tnew, HSReloc_Refine.o2_gen_reloc hash L newL told TableO2.empty_table = Ok (told', tnew) /\
      TableO2_Proofs.Tinv hash newL tnew /\ (forall k, TableO2_Proofs.Present L told k -> TableO2_Proofs.Found hash newL tnew k).
Proof. exact NoExn.o2_gen_reloc_found_ok. Qed.
Print Assumptions C12_open2n2_element_found_after_growth_generated_loops_no_exception.

(* ... and for ANY chain of growths (hand model and generated loops agree and return Ok) *)
Theorem C12_open2n2_find_after_any_chain_of_growths_no_exception :
  forall hash, (forall k, 0 <= hash k < 2 ^ 64) ->
  forall Ls L t, 0 <= L <= 63 -> Chains.increasing L Ls -> TableO2_Proofs.Tinv hash L t ->
    exists t' L', TableO2.grow_chain hash t L Ls = Ok (t', L') /\ HSReloc_Refine.o2_gen_grow_chain hash t L Ls = Ok (t', L') /\
      TableO2_Proofs.Tinv hash L' t' /\
      (forall k, TableO2_Proofs.Present L t k -> exists r, TableO2.find t' L' k (hash k) = Ok r /\ TableO2_Find.hit hash L' t' k r).
Proof. exact NoExn.grow_chain_find_ok. Qed.
Print Assumptions C12_open2n2_find_after_any_chain_of_growths_no_exception.

(* ---- LimP4: the `Exn => True` escape is NOT taken when migrating into a fresh larger table (linear probing covers the table; buckets
   hold up to 4 elements: #old + #new <= 4 * 2^L < 4 * 2^newL) ---- *)
(* pvAddNogrow on a LimP4 table throws "Hash table is full" only when EVERY bucket holds 4 elements; on success exactly one bucket gains one *)
Theorem C12_limp4_addnogrow_exception_only_when_all_buckets_full :
  forall H hash, 4 <= H <= 8 -> forall L t code key, 0 <= L <= 63 -> TableP4_Proofs.PTinv H hash L t -> 0 <= code < 2 ^ 64 ->
    match TableP4.padd_nogrow H t L code key with
    | Ok t' => exists idx, 0 <= idx < 2 ^ L /\ forall j, TableP4.pcnt (t' j) = if Z.eqb j idx then TableP4.pcnt (t j) + 1 else TableP4.pcnt (t j)
    | Exn => forall b, 0 <= b < 2 ^ L -> TableP4.pcnt (t b) = 4
    | _ => False
    end.
Proof. exact NoExn.padd_nogrow_count. Qed.
Print Assumptions C12_limp4_addnogrow_exception_only_when_all_buckets_full.

Theorem C12_limp4_element_found_after_growth_no_exception :
  forall H mm hash, 4 <= H <= 8 -> 1 <= mm <= 4 -> (forall k, 0 <= hash k < 2 ^ 64) -> forall L newL, 0 <= L -> L < newL <= 63 ->
  forall told, TableP4_Proofs.PTinv H hash L told ->
    exists told' tnew calls, TableP4.pmigrate H mm hash told L newL = Ok (told', tnew, calls) /\ TableP4_Proofs.PTinv H hash newL tnew /\
      (forall k, TableP4_Proofs.PPresent L told k -> TableP4_Proofs.PFound hash newL tnew k).
Proof. exact NoExn.pmigrate_found_ok. Qed.
Print Assumptions C12_limp4_element_found_after_growth_no_exception.

Theorem C12_limp4_element_found_after_growth_generated_loops_no_exception :
  forall H mm hash, 4 <= H <= 8 -> 1 <= mm <= 4 -> (forall k, 0 <= hash k < 2 ^ 64) ->
  forall L newL told, 0 <= L -> L < newL <= 63 -> TableP4_Proofs.PTinv H hash L told ->
    exists told' tnew, HSReloc_Refine.p4_gen_reloc H mm hash L newL told (TableP4.pempty_table H mm) = Ok (told', tnew) /\
      TableP4_Proofs.PTinv H hash newL tnew /\ (forall k, TableP4_Proofs.PPresent L told k -> TableP4_Proofs.PFound hash newL tnew k).
Proof. exact NoExn.p4_gen_reloc_found_ok. Qed.
Print Assumptions C12_limp4_element_found_after_growth_generated_loops_no_exception.

Theorem C12_limp4_find_after_any_chain_of_growths_no_exception :
  forall H mm hash, 4 <= H <= 8 -> 1 <= mm <= 4 -> (forall k, 0 <= hash k < 2 ^ 64) ->
  forall Ls L t, 0 <= L <= 63 -> Chains.increasing L Ls -> TableP4_Proofs.PTinv H hash L t ->
    exists t' L', TableP4.pgrow_chain H mm hash t L Ls = Ok (t', L') /\ HSReloc_Refine.p4_gen_grow_chain H mm hash t L Ls = Ok (t', L') /\
      TableP4_Proofs.PTinv H hash L' t' /\
      (forall k, TableP4_Proofs.PPresent L t k -> exists r, TableP4.pfind t' L' k (hash k) = Ok r /\ TableP4_Find.phit hash L' t' k r).
Proof. exact NoExn.pgrow_chain_find_ok. Qed.
Print Assumptions C12_limp4_find_after_any_chain_of_growths_no_exception.

(* ---- BucketOne (one element per bucket, linear probing): the same ---- *)
Theorem C12_one_addnogrow_exception_only_when_all_buckets_full :
  forall L t code key, 0 <= L <= 63 ->
    match TableOne.oadd_nogrow t L code key with
    | Ok t' => exists idx, 0 <= idx < 2 ^ L /\ forall j, NoExnOne.oc (t' j) = if Z.eqb j idx then NoExnOne.oc (t j) + 1 else NoExnOne.oc (t j)
    | Exn => forall b, 0 <= b < 2 ^ L -> Gen_One.IsFull (TableOne.ost (t b)) = true
    | _ => False
    end.
Proof. exact NoExnOne.oadd_nogrow_count. Qed.
Print Assumptions C12_one_addnogrow_exception_only_when_all_buckets_full.

Theorem C12_one_element_found_after_growth_no_exception :
  forall hash, (forall k, 0 <= hash k < 2 ^ 64) -> forall L newL, 0 <= L -> L < newL <= 63 ->
  forall told, TableOne_Proofs.OTinv hash L told ->
    exists told' tnew, TableOne.omigrate hash told L newL = Ok (told', tnew) /\ TableOne_Proofs.OTinv hash newL tnew /\
      (forall k, TableOne_Proofs.OPresent L told k -> TableOne_Proofs.OFound hash newL tnew k).
Proof. exact NoExnOne.omigrate_found_ok. Qed.
Print Assumptions C12_one_element_found_after_growth_no_exception.

(* ---- Open2N2, migration into a NON-EMPTY newest table (chained generations, throwing full getter): no "Hash table is full" ----
   NoExn.gtot gens = number of elements of all older generations, NoExn.tot (2^newL) tnew = number of elements of the newest table.
   Hypothesis: their sum <= cap <= 3 * 2^newL (what HashSet guarantees: see the next two theorems).  Conclusion: migrate_gens returns
   Ok (possibly with thrown = true: the full getter's exception, swallowed by pvRelocateItems()), the element count is preserved, and
   Find over (newest table, remaining generations) returns every key. *)
Theorem C12_open2n2_chained_generations_migration_no_exception :
  forall hash, (forall k, 0 <= hash k < 2 ^ 64) -> forall newL budget, newL <= 63 ->
  forall gens tnew calls cap, 0 <= newL -> TableO2_Proofs.gens_ok hash newL gens -> TableO2_Proofs.Tinv hash newL tnew ->
    NoExn.gtot gens + NoExn.tot (Z.to_nat (2 ^ newL)) tnew <= cap -> cap <= 3 * 2 ^ newL ->
    exists gens' tnew' calls' thrown, TableO2.migrate_gens hash gens tnew newL budget calls = Ok (gens', tnew', calls', thrown) /\
      TableO2_Proofs.gens_ok hash newL gens' /\ TableO2_Proofs.Tinv hash newL tnew' /\ (thrown = false -> gens' = []) /\
      NoExn.gtot gens' + NoExn.tot (Z.to_nat (2 ^ newL)) tnew' = NoExn.gtot gens + NoExn.tot (Z.to_nat (2 ^ newL)) tnew /\
      (forall k, TableO2_Proofs.in_gens gens k \/ TableO2_Proofs.Present newL tnew k ->
         exists r, TableO2.find_gens ((tnew', newL) :: rev gens') k (hash k) = Ok (Some r) /\ GensFind.gens_hit ((tnew', newL) :: rev gens') k r).
Proof. exact NoExn.migrate_gens_find_ok. Qed.
Print Assumptions C12_open2n2_chained_generations_migration_no_exception.

(* the GENERATED growth decision of HashSet::pvAddGrow (Gen_HSGrow.pvAddGrow_loop0; C11 proves the same loop equal to its hand model:
   C11_growth_decision_is_source): whenever it returns (cap, r), cap = CalcCapacity(2^r, maxCount) and cap > mCount *)
Theorem C12_hashset_growth_decision_exceeds_count :
  forall bm (tc : Z -> Z -> Z) fuel ht mc cap0 nl0 cap r,
    Gen_HSGrow.pvAddGrow_loop0 bm tc fuel ht mc cap0 nl0 = Ok (None, (cap, r)) ->
    mc < cap /\ cap = tc (wrapU 64 (Z.shiftl 1 r)) bm.
Proof. exact NoExn.grow_decision. Qed.
Print Assumptions C12_hashset_growth_decision_exceeds_count.

(* ... hence: after the generated decision picked (cap, newL), with mCount counting the elements of all generations (the new element
   already added to the newest table: <= mc + 1) and CalcCapacity(bc, 3) <= 3 * bc, the relocation of all older generations does not throw *)
Theorem C12_open2n2_addgrow_migration_no_exception :
  forall hash, (forall k, 0 <= hash k < 2 ^ 64) ->
  forall (tc : Z -> Z -> Z) fuel ht mc cap0 nl0 cap newL budget gens tnew calls,
    (forall bc, tc bc 3 <= 3 * bc) -> 0 <= newL <= 62 ->
    Gen_HSGrow.pvAddGrow_loop0 3 tc fuel ht mc cap0 nl0 = Ok (None, (cap, newL)) ->
    TableO2_Proofs.gens_ok hash newL gens -> TableO2_Proofs.Tinv hash newL tnew ->
    NoExn.gtot gens + NoExn.tot (Z.to_nat (2 ^ newL)) tnew <= mc + 1 ->
    exists gens' tnew' calls' thrown, TableO2.migrate_gens hash gens tnew newL budget calls = Ok (gens', tnew', calls', thrown) /\
      TableO2_Proofs.gens_ok hash newL gens' /\ TableO2_Proofs.Tinv hash newL tnew' /\ (thrown = false -> gens' = []) /\
      NoExn.gtot gens' + NoExn.tot (Z.to_nat (2 ^ newL)) tnew' = NoExn.gtot gens + NoExn.tot (Z.to_nat (2 ^ newL)) tnew /\
      (forall k, TableO2_Proofs.in_gens gens k \/ TableO2_Proofs.Present newL tnew k ->
         exists r, TableO2.find_gens ((tnew', newL) :: rev gens') k (hash k) = Ok (Some r) /\ GensFind.gens_hit ((tnew', newL) :: rev gens') k r).
Proof. exact NoExn.migrate_gens_after_growth_decision. Qed.
Print Assumptions C12_open2n2_addgrow_migration_no_exception.

(* the capacity policy of Open2N2 GENERATED (HashBucketOpen2N2<maxCount>::CalcCapacity, to which the default HashTraitsStd::CalcCapacity
   delegates; double arithmetic read as exact rationals): the capacity never exceeds the number of slots *)
Theorem C12_open2n2_capacity_policy_within_slots :
  forall maxCount bc, 0 <= maxCount -> 0 <= bc -> 0 <= Gen_PolicyO2.CalcCapacity maxCount bc <= maxCount * bc.
Proof. exact CapBound.calc_capacity_le_slots. Qed.
Print Assumptions C12_open2n2_capacity_policy_within_slots.

(* C12_open2n2_addgrow_migration_no_exception with the hypothesis CalcCapacity(bc, 3) <= 3 * bc DISCHARGED: the growth decision runs with
   the generated capacity policy.  Remaining hypothesis: mCount (+1 for the element just added) bounds the elements of all generations. *)
Theorem C12_open2n2_addgrow_migration_no_exception_generated_policy :
  forall hash, (forall k, 0 <= hash k < 2 ^ 64) ->
  forall fuel ht mc cap0 nl0 cap newL budget gens tnew calls, 0 <= newL <= 62 ->
    Gen_HSGrow.pvAddGrow_loop0 3 (fun bc _ => Gen_PolicyO2.CalcCapacity 3 bc) fuel ht mc cap0 nl0 = Ok (None, (cap, newL)) ->
    TableO2_Proofs.gens_ok hash newL gens -> TableO2_Proofs.Tinv hash newL tnew ->
    NoExn.gtot gens + NoExn.tot (Z.to_nat (2 ^ newL)) tnew <= mc + 1 ->
    exists gens' tnew' calls' thrown, TableO2.migrate_gens hash gens tnew newL budget calls = Ok (gens', tnew', calls', thrown) /\
      TableO2_Proofs.gens_ok hash newL gens' /\ TableO2_Proofs.Tinv hash newL tnew' /\ (thrown = false -> gens' = []) /\
      NoExn.gtot gens' + NoExn.tot (Z.to_nat (2 ^ newL)) tnew' = NoExn.gtot gens + NoExn.tot (Z.to_nat (2 ^ newL)) tnew /\
      (forall k, TableO2_Proofs.in_gens gens k \/ TableO2_Proofs.Present newL tnew k ->
         exists r, TableO2.find_gens ((tnew', newL) :: rev gens') k (hash k) = Ok (Some r) /\ GensFind.gens_hit ((tnew', newL) :: rev gens') k r).
Proof. exact NoExn.migrate_gens_after_growth_decision_o2. Qed.
Print Assumptions C12_open2n2_addgrow_migration_no_exception_generated_policy.
