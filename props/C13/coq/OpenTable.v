(* C13, table level: an open-addressing table (as HashSet::pvAddNogrow / pvFind drive it) whose per-home-bucket
   search bound is ANY encoder satisfying the contract proved for Open2N2 / OpenN1 / Open8, and whose probe
   sequence is ANY step function satisfying the contract proved for GetNextBucketIndex.
   Consequences: a present key is always found; insertion reports "full" only when no bucket has room. *)
From Coq Require Import ZArith Bool List Lia.
From C13 Require Import ProbeSeq.
Import ListNotations.
Local Open Scope Z_scope.

Section Table.
Variable n : Z.
Hypothesis Hn : 0 <= n <= 63.
Variable next : Z -> Z -> Z -> Z.
Hypothesis next_spec : forall i p, 0 <= i < 2 ^ n -> 0 <= p < 2 ^ n -> next i (2 ^ n) p = (i + p) mod 2 ^ n.
Variable cap : nat.                       (* bucket capacity (maxCount) *)
Variable h : Z -> Z.                      (* home bucket of a key: ARBITRARY hash function *)
Hypothesis h_range : forall k, 0 <= h k < 2 ^ n.

(* the bound encoder *)
Variable B : Type.
Variable goodB : B -> Prop.
Variable decodeB : B -> Z.                (* GetMaxProbe *)
Variable updB : B -> Z -> B.              (* UpdateMaxProbe *)
Hypothesis upd_good : forall b p, goodB b -> 0 <= p < 2 ^ n -> goodB (updB b p).
Hypothesis upd_covers : forall b p, goodB b -> 0 <= p < 2 ^ n -> p <= decodeB (updB b p).
Hypothesis upd_keeps : forall b p q, goodB b -> 0 <= p < 2 ^ n -> q < 2 ^ n -> q <= decodeB b -> q <= decodeB (updB b p).
(* the bucket's own bookkeeping, which shares bytes with the bound: AddCrt / Remove of the bucket class.
   Aarg = the remaining arguments of those functions (hash code, slot index, ...): ARBITRARY. *)
Variable Aarg : Type.
Variable cntB : B -> Z.                   (* pvGetCount *)
Variable addB : Aarg -> B -> B.           (* AddCrt on the bucket that receives the item *)
Variable remB : Aarg -> B -> option B.    (* Remove on the bucket that loses the item; None = its precondition assertion fails *)
Variable fullB : B -> bool.               (* IsFull: the test HashSet::pvAddNogrow really performs *)
Hypothesis full_spec : forall b, goodB b -> 0 <= cntB b <= Z.of_nat cap -> (fullB b = true <-> cntB b = Z.of_nat cap).
Hypothesis upd_cnt : forall b p, goodB b -> 0 <= p < 2 ^ n -> cntB (updB b p) = cntB b.
Hypothesis add_spec : forall a b, goodB b -> 0 <= cntB b < Z.of_nat cap ->
  goodB (addB a b) /\ decodeB (addB a b) = decodeB b /\ cntB (addB a b) = cntB b + 1.
Hypothesis rem_spec : forall a b b', goodB b -> 0 < cntB b <= Z.of_nat cap -> remB a b = Some b' ->
  goodB b' /\ decodeB b' = decodeB b /\ cntB b' = cntB b - 1.

Record table := { bk : Z -> list Z; bd : Z -> B }.

Definition pidx (start : Z) (p : nat) : Z := probe_index next n start p.
Definition N : nat := Z.to_nat (2 ^ n).

(* pvAddNogrow: probe 0,1,2,... while the bucket is full; give up ("Hash table is full") at probe = bucketCount *)
Fixpoint first_free (s : table) (start : Z) (p : nat) (fuel : nat) : option nat :=
  match fuel with
  | O => None
  | S f => if fullB (bd s (pidx start p)) then first_free s start (S p) f else Some p
  end.

Definition add (s : table) (k : Z) (a : Aarg) : option table :=
  match first_free s (h k) 0 N with
  | None => None
  | Some p =>
      let b := pidx (h k) p in
      (* bucket->AddCrt(...) on the receiving bucket, then startBucket.UpdateMaxProbe(probe) on the home bucket *)
      Some {| bk := fun i => if Z.eqb i b then k :: bk s i else bk s i;
              bd := fun i => let d := if Z.eqb i b then addB a (bd s i) else bd s i in
                             if Z.eqb i (h k) then updB d (Z.of_nat p) else d |}
  end.

(* pvFind: home bucket, then probes 1..GetMaxProbe(home) *)
Definition mem (k : Z) (l : list Z) : bool := existsb (Z.eqb k) l.
Definition find (s : table) (k : Z) : bool :=
  existsb (fun p => mem k (bk s (pidx (h k) p))) (seq 0 (S (Z.to_nat (decodeB (bd s (h k)))))).

(* Remove: one occurrence of the key leaves bucket b (swap-with-last inside the bucket) and the bucket's Remove
   rewrites its bookkeeping bytes; nothing happens when the key is not in that bucket or Remove's assertion fails *)
Fixpoint remove_first (k : Z) (l : list Z) : list Z :=
  match l with [] => [] | x :: t => if Z.eqb x k then t else x :: remove_first k t end.
Definition remove (s : table) (b : Z) (k : Z) (a : Aarg) : table :=
  if mem k (bk s b) then
    match remB a (bd s b) with
    | Some d => {| bk := fun i => if Z.eqb i b then remove_first k (bk s i) else bk s i;
                   bd := fun i => if Z.eqb i b then d else bd s i |}
    | None => s
    end
  else s.

Definition Inv (s : table) : Prop :=
  (forall i, goodB (bd s i)) /\
  (forall i, cntB (bd s i) = Z.of_nat (length (bk s i)) /\ (length (bk s i) <= cap)%nat) /\
  (forall b k, In k (bk s b) ->
     exists p : nat, Z.of_nat p < 2 ^ n /\ pidx (h k) p = b /\ Z.of_nat p <= decodeB (bd s (h k))).

Lemma mem_In k l : mem k l = true <-> In k l.
Proof.
  unfold mem. rewrite existsb_exists. split.
  - intros (x & Hx & He). apply Z.eqb_eq in He. subst. exact Hx.
  - intros H. exists k. split; [exact H|apply Z.eqb_refl].
Qed.

Lemma first_free_spec s start : forall fuel p q, first_free s start p fuel = Some q ->
  (p <= q < p + fuel)%nat /\ fullB (bd s (pidx start q)) = false.
Proof.
  induction fuel as [|f IH]; intros p q H; cbn [first_free] in H; [discriminate|].
  destruct (fullB (bd s (pidx start p))) eqn:Hf.
  - apply IH in H. destruct H as [H1 H2]. split; [lia|exact H2].
  - inversion H; subst. split; [lia|exact Hf].
Qed.

Lemma first_free_none s start : forall fuel p, first_free s start p fuel = None ->
  forall q, (p <= q < p + fuel)%nat -> fullB (bd s (pidx start q)) = true.
Proof.
  induction fuel as [|f IH]; intros p H q Hq; [lia|]. cbn [first_free] in H.
  destruct (fullB (bd s (pidx start p))) eqn:Hf; [|discriminate].
  destruct (Nat.eq_dec q p) as [->|Hne]; [exact Hf|]. apply (IH (S p) H). lia.
Qed.

Lemma N_val : Z.of_nat N = 2 ^ n.
Proof. unfold N. pose proof (pow_n_pos n Hn). lia. Qed.

(* a present key is always found *)
Theorem find_present s b k : Inv s -> In k (bk s b) -> find s k = true.
Proof.
  intros (Hg & Hc & Hi) Hin. destruct (Hi b k Hin) as (p & Hp & Hb & Hcv).
  unfold find. apply existsb_exists. exists p. split.
  - apply in_seq. lia.
  - rewrite Hb. apply mem_In. exact Hin.
Qed.

(* find never reports a key that is in no bucket *)
Theorem find_sound s k : find s k = true -> exists b, In k (bk s b).
Proof.
  unfold find. intros H. apply existsb_exists in H. destruct H as (p & _ & Hm).
  apply mem_In in Hm. eexists; exact Hm.
Qed.

Lemma not_full_room s i : Inv s -> fullB (bd s i) = false -> (length (bk s i) < cap)%nat.
Proof.
  intros (Hg & Hc & _) Hf. destruct (Hc i) as [Hci Hli].
  destruct (Nat.eq_dec (length (bk s i)) cap) as [He|Hne]; [|lia].
  assert (fullB (bd s i) = true) by (apply (full_spec _ (Hg i)); lia). congruence.
Qed.
Lemma full_no_room s i : Inv s -> fullB (bd s i) = true -> (cap <= length (bk s i))%nat.
Proof.
  intros (Hg & Hc & _) Hf. destruct (Hc i) as [Hci Hli]. apply (full_spec _ (Hg i)) in Hf; lia.
Qed.

(* the bytes of bucket i after an insertion that put the key into bucket b at probe p *)
Lemma add_bd_facts s k a p i :
  Inv s -> 0 <= Z.of_nat p < 2 ^ n -> (length (bk s (pidx (h k) p)) < cap)%nat ->
  let b := pidx (h k) p in
  let d := if Z.eqb i b then addB a (bd s i) else bd s i in
  let d' := if Z.eqb i (h k) then updB d (Z.of_nat p) else d in
  goodB d' /\ cntB d' = Z.of_nat (length (if Z.eqb i b then k :: bk s i else bk s i)) /\
  (forall q, q < 2 ^ n -> q <= decodeB (bd s i) -> q <= decodeB d') /\
  (i = h k -> Z.of_nat p <= decodeB d').
Proof.
  intros (Hg & Hc & Hi) Hp Hroom b d d'. subst d'.
  assert (Hd : goodB d /\ cntB d = Z.of_nat (length (if Z.eqb i b then k :: bk s i else bk s i)) /\ decodeB d = decodeB (bd s i)).
  { subst d. destruct (Z.eqb_spec i b) as [Heq|Hne].
    - rewrite Heq. destruct (Hc b) as [Hcb Hlb]. destruct (add_spec a (bd s b) (Hg b)) as (H1 & H2 & H3); [subst b; lia|].
      split; [exact H1|]. split; [|exact H2]. rewrite H3, Hcb. cbn [length]. lia.
    - split; [apply Hg|]. split; [apply (Hc i)|reflexivity]. }
  destruct Hd as (Hd1 & Hd2 & Hd3). clearbody d.
  destruct (Z.eqb_spec i (h k)) as [He|He].
  - split; [apply upd_good; assumption|]. split; [rewrite upd_cnt; assumption|]. split.
    + intros q Hq Hqd. apply upd_keeps; try assumption. rewrite Hd3. exact Hqd.
    + intros _. apply upd_covers; assumption.
  - split; [exact Hd1|]. split; [exact Hd2|]. split; [intros q _ Hqd; rewrite Hd3; exact Hqd|intros; contradiction].
Qed.

(* insertion keeps the invariant *)
Theorem add_inv s k a s' : Inv s -> add s k a = Some s' -> Inv s'.
Proof.
  intros HI Hadd. pose proof HI as (Hg & Hc & Hi). unfold add in Hadd.
  destruct (first_free s (h k) 0 N) as [p|] eqn:Hf; [|discriminate]. inversion Hadd; subst s'; clear Hadd.
  apply first_free_spec in Hf. destruct Hf as [Hpr Hnf]. pose proof (not_full_room s _ HI Hnf) as Hroom.
  assert (HpN : 0 <= Z.of_nat p < 2 ^ n) by (rewrite <- N_val; lia).
  split; [|split].
  - intros i. cbn [bd]. apply (add_bd_facts s k a p i HI HpN Hroom).
  - intros i. cbn [bd bk]. destruct (add_bd_facts s k a p i HI HpN Hroom) as (_ & Hcnt & _). split; [exact Hcnt|].
    destruct (Z.eqb_spec i (pidx (h k) p)) as [Heq|Hne]; [rewrite Heq in *; cbn [length]; lia|apply (Hc i)].
  - intros b k' Hin. cbn [bk] in Hin. cbn [bd].
    assert (Hold : In k' (bk s b) -> exists q : nat, Z.of_nat q < 2 ^ n /\ pidx (h k') q = b /\
              Z.of_nat q <= decodeB (let d := if Z.eqb (h k') (pidx (h k) p) then addB a (bd s (h k')) else bd s (h k') in
                                     if Z.eqb (h k') (h k) then updB d (Z.of_nat p) else d)).
    { intros Hin'. destruct (Hi b k' Hin') as (q & Hq & Hqb & Hqc). exists q. split; [exact Hq|]. split; [exact Hqb|].
      destruct (add_bd_facts s k a p (h k') HI HpN Hroom) as (_ & _ & Hkeep & _). apply Hkeep; assumption. }
    destruct (Z.eqb_spec b (pidx (h k) p)) as [Hb|Hb]; [|exact (Hold Hin)].
    destruct Hin as [<-|Hin]; [|exact (Hold Hin)].
    exists p. split; [lia|]. split; [symmetry; exact Hb|].
    destruct (add_bd_facts s k a p (h k) HI HpN Hroom) as (_ & _ & _ & Hcov). apply Hcov. reflexivity.
Qed.

(* the added key is found afterwards, and it went into a bucket that had room *)
Theorem add_then_find s k a s' : Inv s -> add s k a = Some s' -> find s' k = true.
Proof.
  intros HI Hadd. pose proof (add_inv s k a s' HI Hadd) as HI'.
  unfold add in Hadd. destruct (first_free s (h k) 0 N) as [p|] eqn:Hf; [|discriminate].
  inversion Hadd; subst s'. apply (find_present _ (pidx (h k) p) k HI'). cbn. rewrite Z.eqb_refl. left. reflexivity.
Qed.

(* insertion fails only when NO bucket of the table has room *)
Theorem add_fails_only_if_all_full s k a : Inv s -> add s k a = None ->
  forall b, 0 <= b < 2 ^ n -> (cap <= length (bk s b))%nat.
Proof.
  intros HI Hadd b Hb. unfold add in Hadd.
  destruct (first_free s (h k) 0 N) as [p|] eqn:Hf; [discriminate|].
  destruct (probe_seq_covers next n Hn next_spec (h k) b (h_range k) Hb) as (p & Hp & Hpb).
  rewrite <- Hpb. apply (full_no_room s _ HI). apply (first_free_none s (h k) N 0 Hf). rewrite <- N_val in Hp. lia.
Qed.

Lemma remove_first_In k x l : In x (remove_first k l) -> In x l.
Proof.
  induction l as [|y t IH]; cbn [remove_first]; [intros []|].
  destruct (Z.eqb y k); [intros H; right; exact H|]. intros [->|H]; [left; reflexivity|right; exact (IH H)].
Qed.
Lemma remove_first_length k l : In k l -> S (length (remove_first k l)) = length l.
Proof.
  induction l as [|y t IH]; cbn [remove_first]; [intros []|]. intros Hin.
  destruct (Z.eqb_spec y k) as [->|Hne]; [reflexivity|]. cbn [length]. f_equal. apply IH.
  destruct Hin as [->|Hin]; [contradiction|exact Hin].
Qed.

Theorem remove_inv s b k a : Inv s -> Inv (remove s b k a).
Proof.
  intros HI. pose proof HI as (Hg & Hc & Hi). unfold remove.
  destruct (mem k (bk s b)) eqn:Hm; [|exact HI]. apply mem_In in Hm.
  destruct (remB a (bd s b)) as [d|] eqn:Hr; [|exact HI].
  destruct (Hc b) as [Hcb Hlb]. pose proof (remove_first_length k _ Hm) as Hlen.
  destruct (rem_spec a (bd s b) d (Hg b)) as (H1 & H2 & H3); [destruct (bk s b); [destruct Hm|cbn [length] in *; lia]|exact Hr|].
  split; [|split].
  - intros i. cbn [bd]. destruct (Z.eqb_spec i b); [exact H1|apply Hg].
  - intros i. cbn [bd bk]. destruct (Z.eqb_spec i b) as [->|Hne]; [|apply (Hc i)]. split; lia.
  - intros b' k' Hin. cbn [bk] in Hin. cbn [bd].
    assert (Hin' : In k' (bk s b')) by (destruct (Z.eqb_spec b' b) as [->|]; [exact (remove_first_In _ _ _ Hin)|exact Hin]).
    destruct (Hi b' k' Hin') as (q & Hq & Hqb & Hqc). exists q. split; [exact Hq|]. split; [exact Hqb|].
    destruct (Z.eqb_spec (h k') b) as [He|He]; [rewrite H2, <- He; exact Hqc|exact Hqc].
Qed.

(* every reachable table (any sequence of successful insertions and removals from the empty table) *)
Inductive op := OAdd (k : Z) (a : Aarg) | ORemove (b k : Z) (a : Aarg).
Definition step (s : table) (o : op) : table :=
  match o with
  | OAdd k a => match add s k a with Some s' => s' | None => s end   (* "full" exception: state unchanged *)
  | ORemove b k a => remove s b k a
  end.

Theorem reachable_inv s ops : Inv s -> Inv (fold_left step ops s).
Proof.
  revert s. induction ops as [|o ops IH]; intros s HI; [exact HI|]. cbn [fold_left]. apply IH.
  destruct o as [k a|b k a]; cbn [step].
  - destruct (add s k a) as [s'|] eqn:Ha; [exact (add_inv s k a s' HI Ha)|exact HI].
  - apply remove_inv; exact HI.
Qed.

Theorem present_key_found_all_histories b0 ops b k :
  goodB b0 -> cntB b0 = 0 ->
  let s := fold_left step ops {| bk := fun _ => []; bd := fun _ => b0 |} in
  In k (bk s b) -> find s k = true.
Proof.
  intros Hg Hc0 s Hin. apply (find_present s b k); [|exact Hin].
  apply reachable_inv. split; [intros i; exact Hg|]. split; [intros i; cbn; split; [exact Hc0|lia]|]. intros b' k' [].
Qed.

Theorem full_only_if_all_full_all_histories b0 ops k a :
  goodB b0 -> cntB b0 = 0 ->
  let s := fold_left step ops {| bk := fun _ => []; bd := fun _ => b0 |} in
  add s k a = None -> forall b, 0 <= b < 2 ^ n -> (cap <= length (bk s b))%nat.
Proof.
  intros Hg Hc0 s. apply add_fails_only_if_all_full.
  apply reachable_inv. split; [intros j; exact Hg|]. split; [intros j; cbn; split; [exact Hc0|lia]|]. intros b' k' [].
Qed.

(* the bucket counters stay exact: in every reachable table the count bits of every bucket equal the number of its items *)
Theorem count_exact_all_histories b0 ops i :
  goodB b0 -> cntB b0 = 0 ->
  let s := fold_left step ops {| bk := fun _ => []; bd := fun _ => b0 |} in
  cntB (bd s i) = Z.of_nat (length (bk s i)) /\ (length (bk s i) <= cap)%nat.
Proof.
  intros Hg Hc0 s.
  assert (HI : Inv s).
  { apply reachable_inv. split; [intros j; exact Hg|]. split; [intros j; cbn; split; [exact Hc0|lia]|]. intros b' k' []. }
  destruct HI as (_ & Hc & _). apply Hc.
Qed.
(* ... and the bookkeeping bytes of every bucket stay well-formed *)
Theorem good_all_histories b0 ops i :
  goodB b0 -> cntB b0 = 0 ->
  let s := fold_left step ops {| bk := fun _ => []; bd := fun _ => b0 |} in
  goodB (bd s i).
Proof.
  intros Hg Hc0 s.
  assert (HI : Inv s).
  { apply reachable_inv. split; [intros j; exact Hg|]. split; [intros j; cbn; split; [exact Hc0|lia]|]. intros b' k' []. }
  destruct HI as (Hgood & _ & _). apply Hgood.
Qed.
End Table.
