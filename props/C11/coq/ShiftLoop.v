(* COPIED from props/C13/coq (only change: the library name); C11 uses these bucket-operation facts for GenFull.v *)
(* Generic facts about the "halve until below T, counting" loop used by both encoders. *)
From Coq Require Import ZArith Bool Lia.
From MomoCommon Require Import GenPrelude.
Local Open Scope Z_scope.

Fixpoint shr_loop (T : Z) (fuel : nat) (x y : Z) {struct fuel} : outcome (Z * Z) :=
  match fuel with
  | O => Fuel
  | S fuel => if Z.geb x T then shr_loop T fuel (Z.shiftr x 1) (wrapU 64 (y + 1)) else Ok (x, y)
  end.

Lemma shr_loop_eq T fuel x y :
  shr_loop T (S fuel) x y =
  if Z.geb x T then shr_loop T fuel (Z.shiftr x 1) (wrapU 64 (y + 1)) else Ok (x, y).
Proof. reflexivity. Qed.

Lemma div_div_pow x k : 0 <= k -> x / 2 ^ 1 / 2 ^ k = x / 2 ^ (k + 1).
Proof.
  intros Hk. rewrite Z.div_div by (try apply Z.pow_pos_nonneg; lia).
  rewrite <- Z.pow_add_r by lia. f_equal. f_equal. lia.
Qed.

(* result: (x / 2^k, y + k) for the minimal k with x / 2^k < T *)
Lemma shr_loop_spec T : 0 < T -> forall fuel x y,
  0 <= x < 2 ^ (Z.of_nat fuel) -> 0 <= y -> y + Z.of_nat fuel < 2 ^ 64 ->
  exists k, 0 <= k <= Z.of_nat fuel /\
    shr_loop T (S fuel) x y = Ok (x / 2 ^ k, y + k) /\
    x / 2 ^ k < T /\ (0 < k -> T <= x / 2 ^ (k - 1)).
Proof.
  intros HT. induction fuel as [|fuel IH]; intros x y Hx Hy Hyf.
  - exists 0. simpl in Hx. assert (x = 0) by lia. subst x.
    rewrite shr_loop_eq. destruct (Z.geb_spec 0 T); [lia|].
    rewrite Z.add_0_r. cbn. repeat split; lia.
  - rewrite shr_loop_eq. destruct (Z.geb_spec x T) as [Hge|Hlt].
    + rewrite Z.shiftr_div_pow2 by lia.
      rewrite Nat2Z.inj_succ in Hx, Hyf. rewrite Z.pow_succ_r in Hx by lia.
      assert (Hd : 0 <= x / 2 ^ 1 < 2 ^ Z.of_nat fuel).
      { change (2 ^ 1) with 2. split; [apply Z.div_pos; lia | apply Z.div_lt_upper_bound; lia]. }
      rewrite (wrapU_small 64 (y + 1)) by lia.
      destruct (IH (x / 2 ^ 1) (y + 1) Hd ltac:(lia) ltac:(lia)) as (k & Hk & Hr & Hlt & Hmin).
      exists (k + 1). split; [lia|]. split.
      { rewrite Hr. rewrite div_div_pow by lia. do 2 f_equal. lia. }
      rewrite <- div_div_pow by lia. split; [exact Hlt|]. intros _.
      replace (k + 1 - 1) with k by lia.
      destruct (Z.eq_dec k 0) as [->|Hk0].
      * rewrite Z.pow_0_r, Z.div_1_r. exact Hge.
      * replace k with ((k - 1) + 1) by lia. rewrite <- div_div_pow by lia. apply Hmin; lia.
    + exists 0. rewrite Z.pow_0_r, Z.div_1_r, Z.add_0_r. repeat split; lia.
Qed.

(* rounding up: ((x / 2^k) + 1) * 2^k > x *)
Lemma round_up_gt x k : 0 <= x -> 0 <= k -> x < (x / 2 ^ k + 1) * 2 ^ k.
Proof.
  intros Hx Hk. assert (Hp : 0 < 2 ^ k) by (apply Z.pow_pos_nonneg; lia).
  pose proof (Z.div_mod x (2 ^ k) ltac:(lia)). pose proof (Z.mod_pos_bound x (2 ^ k) Hp). nia.
Qed.

Lemma round_up_le x k : 0 <= x -> 0 <= k -> (x / 2 ^ k + 1) * 2 ^ k <= x + 2 ^ k.
Proof.
  intros Hx Hk. assert (Hp : 0 < 2 ^ k) by (apply Z.pow_pos_nonneg; lia).
  pose proof (Z.div_mod x (2 ^ k) ltac:(lia)). pose proof (Z.mod_pos_bound x (2 ^ k) Hp). nia.
Qed.
