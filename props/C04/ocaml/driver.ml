(* C04 model driver: runs the extracted resource-machine mechanisms, one case per line:
     <mech> <cat N|C|T> <n> <k> [extra...]      k = index of the fallible step that fails (schedule = k x false, true)
   and prints   <Ok|Exn|Stuck> | <event trace> | <final blocks>
   in exactly the format of harness micro.cpp (which runs the real momo code on kit elements). *)
open Zutil
open Datatypes
open Effects

let n2i = int_of_nat
let i2n = nat_of_int
let loc b i = (i2n b, i2n i)

let mk_state (blocks : cell list list) (k : int) : st =
  let arr = Array.of_list (List.map Array.of_list blocks) in
  let nb = Array.length arr in
  let mem (l : loc) = let b = n2i (fst l) and i = n2i (snd l) in
    if b < nb && i < Array.length arr.(b) then arr.(b).(i) else Raw in
  let alive b = n2i b < nb in
  let bsize b = let b = n2i b in if b < nb then i2n (Array.length arr.(b)) else O in
  let rec sch k = if k <= 0 then [true] else false :: sch (k - 1) in
  { hp = { mem = mem; alive = alive; bsize = bsize; next = i2n nb; regs = (fun _ -> O) };
    sched = (if k < 0 then [] else sch k); trace = [] }

let lives base n = List.init n (fun j -> Live (i2n (base + j)))
let raws n = List.init n (fun _ -> Raw)

let sloc (l : loc) = Printf.sprintf "%d.%d" (n2i (fst l)) (n2i (snd l))
let sev = function
  | EvA (b, n) -> Printf.sprintf "A%d:%d" (n2i b) (n2i n)
  | EvD b -> Printf.sprintf "D%d" (n2i b)
  | EvC (s, d) -> Printf.sprintf "C%s>%s" (sloc s) (sloc d)
  | EvM (s, d) -> Printf.sprintf "M%s>%s" (sloc s) (sloc d)
  | EvX l -> Printf.sprintf "X%s" (sloc l)
  | EvF -> "F"
let scell = function Raw -> "R" | Live v -> Printf.sprintf "L%d" (n2i v) | Moved _ -> "M"

let show (r : 'a res) (s : st) =
  let h = s.hp in
  let out = match r with Ok _ -> "Ok" | Exn -> "Exn" | Stuck -> "Stuck" in
  let evs = String.concat " " (List.rev_map sev s.trace) in
  let nb = n2i h.next in
  let blk b =
    if h.alive (i2n b) then
      Printf.sprintf "b%d[%s]" b (String.concat " " (List.init (n2i (h.bsize (i2n b))) (fun i -> scell (h.mem (loc b i)))))
    else Printf.sprintf "b%d-" b in
  Printf.printf "%s | %s | %s\n" out evs (String.concat " " (List.init nb blk))

let cat_of = function "N" -> NTM | "C" -> CPY | "T" -> THM | _ -> failwith "cat"
let at b = fun j -> (i2n b, j)

let () = iter_lines (fun line ->
  try
    match words line with
    | ["relcreate"; c; n; k] ->
      let n = int_of_string n and k = int_of_string k in
      let s = mk_state [lives 100 n; raws (n + 1); [Live (i2n 7)]] k in
      let (r, s') = ObjMgr.relocate_create (cat_of c) (at 0) (at 1) (i2n n) (ObjMgr.creator_copy (loc 2 0)) (loc 1 n) s in
      show r s'
    | ["relrange"; c; n; k] ->
      let n = int_of_string n and k = int_of_string k in
      let s = mk_state [lives 100 n; raws n] k in
      let (r, s') = ObjMgr.relocate_range (cat_of c) (at 0) (at 1) (i2n n) s in
      show r s'
    | ["copyexec"; c; _; k] ->
      let k = int_of_string k in
      let s = mk_state [[Live (i2n 5)]; raws 2; [Live (i2n 7)]] k in
      let (r, s') = ObjMgr.copy_exec (loc 0 0) (loc 1 0) (ObjMgr.creator_copy (loc 2 0) (loc 1 1)) s in
      ignore c; show r s'
    | ["moveexec"; c; _; k] ->
      let k = int_of_string k in
      let s = mk_state [[Live (i2n 5)]; raws 2; [Live (i2n 7)]] k in
      let (r, s') = ObjMgr.move_exec (cat_of c) (loc 0 0) (loc 1 0) (ObjMgr.creator_copy (loc 2 0) (loc 1 1)) s in
      show r s'
    | _ -> print_endline "?"
  with e -> print_endline ("model-driver-error " ^ Printexc.to_string e))
