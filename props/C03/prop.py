"""C03 - every byte and every element is released exactly once, never touched after.

proof   : Monitor.v (executable trace monitor == declarative release discipline, sound + complete),
          Effects.v / EffectsProofs.v (L2 resource machine: ObjectManager relocation family, Array::Data::Reset,
          HashSet/TreeSet copy-constructor catch blocks; *_no_leak for every failure schedule, Stuck unreachable)
tie     : micro-correspondence - the extracted L2 model and the REAL ObjectManager/Array/HashSet/TreeSet code are
          run on every (mechanism, category, count <= N, failure index k) and must print the same canonical event trace
oracle  : operation histories with one injected failure at every k over all containers and stdish wrappers under the
          size/identity-checking manager; kit registry must be clean AND the extracted PROVED monitor must accept the log
"""
import os, json

RULE = ('tie cases = every (mechanism in relocate/relocate-exec/relocate-create/move-exec/copy-exec/Array regrow/Array add-back/'
        'HashSet copy-ctor/TreeSet copy-ctor, category in nothrow-move/copy-only, count 0..N, failing step k = none,0..#steps); '
        'oracle cases = (scenario, element, size p, failure kind alloc|copy|functor, k) - quick: no-failure run + first 6, last 4 and 6 '
        'random failure points per kind, thorough: every k; distinct = distinct case line; non-trivial = the injected failure fired '
        '(an exception unwound through the container) or, for k = none, at least one block was allocated and released')

MECH_N_QUICK, MECH_N_THOROUGH = 6, 12
SCENARIOS = [  # name, element kinds
    ('arr', 'nc'), ('arri', 'n'), ('arrr', 'n'), ('seg', 'nc'), ('hset', 'nc'), ('hseto', 'nc'), ('hset1', 'nc'), ('hsfirst', 'n'), ('hsfirsto', 'n'),
    ('hmap', 'nc'), ('hmm', 'nc'), ('tset', 'nc'), ('tsetf', 'nc'), ('tmap', 'nc'), ('tsmall', 'n'), ('tmergeb', 'n'), ('pool', 'n'), ('pool1', 'n'), ('pool2', 'n'), ('pool4', 'n'),
    ('dt', 'n'), ('svec', 'nc'), ('suset', 'n'), ('sset', 'n'), ('sumap', 'n'), ('summap', 'n'), ('smap', 'n'), ('smmap', 'n')]
PART = {'arr': 1, 'arri': 1, 'arrr': 1, 'seg': 1, 'hset': 1, 'hseto': 1, 'hset1': 1, 'hsfirst': 1, 'hsfirsto': 1,
        'trel': 2, 'trel0': 2, 'treld': 2, 'trelr': 2, 'tmrel': 2,
        'hmap': 2, 'hmm': 2, 'tset': 2, 'tsetf': 2, 'tmap': 2, 'tsmall': 2, 'tmergeb': 2, 'pool': 2, 'pool1': 2, 'pool2': 2, 'pool4': 2}


# aimed family: ONE insertion into a TreeSet / TreeMap with TreeNode<4, 1, MemPoolParams<1>> (every node = one block of the memory manager) is run
# with the injection armed for that insertion only; the parameter p is the index of the insertion (the p - 1 before it run unarmed).  EVERY fallible
# step of every insertion that splits (>= 3 allocation requests: cascading splits, the height-increasing insertions among them) is enumerated -
# never sampled; in the thorough tier every step of every insertion.  trel/trel0: ascending keys (pools with / without free-block cache),
# treld: descending, trelr: scattered, tmrel: TreeMap ascending.  Height 3 is reached at p = 17, height 4 at p = 53 (ascending).
AIMED = [('trel', 'nc'), ('trel0', 'nc'), ('treld', 'n'), ('trelr', 'n'), ('tmrel', 'nc')]
AIMED_NAMES = tuple(a for a, _ in AIMED)
AIMED_P_QUICK, AIMED_P_THOROUGH = 30, 70


# coverage audit (round 7): configurations / operations / boundary values the histories above never produced (harness_audit.inc; parts 4, 5, 6).
# (scenario, element kinds, p values quick, p values thorough).  Element kinds: ntm / cpo = kit elements with the kit::Hash FUNCTOR (slow hash: hash
# code parts kept in the buckets), suffix .d = hash distribution kit::Dist d (1 constant, 2 low bits, 3 high bits, 5 mod 7); i64 = HashSet<int64_t> with
# momo's HashCoder (FAST hash: the other variant of every bucket class, and the only way to get BucketOpen8); m64 = HashMap<int64_t, ElemNtm>.
HB = ['hbL4', 'hbL1', 'hbLP', 'hbUn', 'hbL4o', 'hbO8', 'hbO2', 'hbN1', 'hb1']
AUDIT = [(h, ['ntm', 'cpo', 'i64', 'm64', 'ntm.1', 'ntm.2', 'ntm.3', 'ntm.5'], [9], [5, 33]) for h in HB] + [
    ('inlhs', ['ntm', 'cpo'], [9], [5, 33]), ('inlts', ['ntm', 'cpo'], [9, 40], [5, 33, 70]), ('hmminl', ['ntm'], [9], [5, 33]),
    ('arrx', ['ntm', 'cpo'], [9], [5, 12, 33]), ('arrb', ['ntm'], [3, 9], [4, 5, 12, 33]), ('arrt', ['ntm'], [9], [5, 33]), ('arrs', ['ntm'], [9], [5, 33]),
    ('segx', ['ntm'], [9], [5, 33, 70]), ('segc2', ['ntm', 'cpo'], [9], [5, 12, 33]), ('segs0', ['ntm'], [9, 40], [5, 33, 70]),
    ('tmulti', ['ntm'], [9, 40], [5, 33, 70]), ('taud', ['ntm', 'cpo'], [9, 40], [5, 33, 70]), ('taud5', ['ntm'], [40], [12, 70]), ('ttriv', ['ntm'], [40], [12, 70]),
    ('hmmbig', ['ntm', 'cpo'], [9], [5, 33]), ('palloc', ['ntm'], [9, 40], [5, 33, 70]), ('palloc1', ['ntm'], [9], [5, 33]), ('poolg', ['ntm'], [9], [5, 33]),
    ('dt2', ['ntm'], [9], [5, 33]), ('dt3', ['ntm'], [4], [3, 12]), ('stdmore', ['ntm'], [9], [5, 33])]
AUDIT_NAMES = tuple(a[0] for a in AUDIT)
for _h in HB:
    PART[_h] = 4
for _n in ('inlhs', 'inlts', 'hmminl', 'arrx', 'arrb', 'arrt', 'arrs', 'segx', 'segc2', 'segs0', 'tmulti', 'taud', 'taud5', 'ttriv', 'hmmbig', 'palloc', 'palloc1', 'poolg'):
    PART[_n] = 5
for _n in ('dt2', 'dt3', 'stdmore'):
    PART[_n] = 6
# fault SEQUENCES: kinds A / C / F = the k-th step of that kind fails and, once that failure has been caught, the 2nd next step of the same kind fails too
DOUBLE_QUICK = ('arr', 'seg', 'hset', 'hseto', 'tset', 'hmm', 'dt', 'tmergeb', 'sset', 'taud', 'hbO8', 'segc2')
COV_AGG = {}
WIDENED = [False]     # set when a stage broke and the every-k search runs in the quick tier: the audit configurations keep their quick sampling then


def pick_ks_small(ctx, steps, n):
    if steps <= n:
        return list(range(steps))
    ks = {0, 1, steps - 1, steps - 2}
    while len(ks) < n:
        ks.add(ctx.rng.below(steps))
    return sorted(ks)


# stdish wrappers use the default HashSetSettings / TreeSetSettings with momo's debug self check (pvExtraCheck calls the functors again and asserts
# if they throw): injected functor failures are meaningless there; they are exercised through the momo containers instead
NO_FUNCTOR_FAILURES = ('suset', 'sumap', 'summap', 'sset', 'smap', 'smmap', 'stdmore')


def growcap(cap, mincap):       # ArraySettings<>::GrowCapacity(cap, mincap, add, linear=false) for cap <= 64 (input to the model only)
    n = 4 if cap <= 2 else cap * 2
    return max(n, mincap)


def tie_cases(N):
    cases = []
    for cat in ('ntm', 'cpo'):
        for cnt in range(0, N + 1):
            for mech, steps in (('reloc', cnt), ('relocexec', cnt + 1), ('reloccreate', cnt + 1)):
                for k in range(-1, steps + 1):
                    cases.append('om %s %s %d %d' % (mech, cat, cnt, k))
        for mech in ('moveexec', 'copyexec'):
            for k in range(-1, 3):
                cases.append('om %s %s 1 %d' % (mech, cat, k))
        for cnt in range(0, N + 1):
            caps = sorted(set([cnt, cnt + 1, cnt + 3])) if cnt > 0 else [0, 2]
            for cap in caps:
                news = set([cap + 1, cap + 4, max(cnt, 1)]) | ({cnt} if cnt > 0 else set())
                for newcap in sorted(news):
                    if newcap == cap or newcap < cnt or newcap == 0:
                        continue
                    for k in range(-1, cnt + 2):
                        cases.append('arr regrow %s %d %d %d %d' % (cat, cnt, cap, newcap, k))
            cap = cnt                                   # add-back with growth: the array is full
            for k in range(-1, cnt + 3):
                cases.append('arr addback %s %d %d %d %d' % (cat, cnt, cap, growcap(cap, cnt + 1), k))
        for n in range(0, min(N, 7) + 1):               # Open8: up to 7 items keep the start bucket count
            for k in range(-1, n + 4):
                cases.append('hs %s %d %d' % (cat, n, k))
        for n in range(0, 4 + 1):                       # TreeNode default capacity: the root stays a leaf
            for k in range(-1, n + 4):
                cases.append('ts %s %d %d' % (cat, n, k))
    # part 2 mechanisms (Effects2.v): crews / node params across MergeTo-into-empty, DataTable and HashMultiMap copy constructors
    for k, m in ((1, 0), (1, 1), (0, 0)):
        for f in range(-1, 7):
            cases.append('crew %d %d %d' % (k, m, f))
    for a in range(0, 4):
        for b in range(0, 4):
            for f in range(-1, a + b + 1):
                cases.append('pools %d %d %d' % (a, b, f))
    for n in (0, 1, 4, 5, 16, 17, 21):                  # ... with its pointer array (grows at the 5th segment): block level, sizes
        for k in range(-1, n + n // 4 + 4):
            cases.append('sa2 %d %d' % (n, k))
    for n in (0, 1, 3, 4, 5, 9):                        # SegmentedArray range constructor, 4 items per segment
        for c in range(-1, n + 1):
            cases.append('sa %d %d' % (n, c))
    for n in range(0, min(N, 6) + 1):
        for c in range(-1, 2 * n + 1):
            cases.append('dt %d %d' % (n, c))
        for c in range(-1, 3 * n + 2):
            cases.append('hmm %d %d' % (n, c))
    return cases


def grow_cases(ctx, harness):
    """HashSet growth: the real growth points are probed first (flags), then failure indices are chosen so that no insertion
    BEFORE a growth point fails (that would shift the real growth points, which the flag-driven model does not follow):
    copies of a migration (copy-only items) and insertions after the last growth"""
    cases = []
    path = os.path.join(ctx.build, 'growprobe.cases')
    ns = (50, 95)
    open(path, 'w').write(''.join('growprobe ntm %d\n' % n for n in ns))
    rc, lines, err = ctx.run_lines([harness], path)
    for n, line in zip(ns, lines):
        flags = line.split()[0] if line.split() else ''
        if len(flags) != n or set(flags) - set('01'):
            continue
        gs = [i for i, ch in enumerate(flags) if ch == '1']
        last = gs[-1] if gs else -1
        ntm = [-1] + [c for c in (last + 1, last + 2, n - 1) if last < c < n]
        cpo, counter = [-1], 0
        for j in range(n):
            counter += 1                                  # the insertion's own copy is copy number counter-1
            if flags[j] == '1':
                lo, hi = counter, counter + j - 1         # j items are migrated, each by a copy
                cpo += sorted(set([lo, lo + 1, (lo + hi) // 2, hi - 1, hi]))
                counter += j
        cpo += [counter - 1] if last >= 0 and last < n - 1 else []
        for c in sorted(set(ntm)):
            cases.append('grow ntm %s %d' % (flags, c))
        for c in sorted(set(cpo)):
            cases.append('grow cpo %s %d' % (flags, c))
    return cases


def tree_cases(ctx, harness):
    """TreeSet copy constructor on real trees of growing depth: the shape is probed from the real tree, the model copies a tree
    of exactly that shape; every element copy index fails once (small trees) or a spread of them (big trees)"""
    cases = []
    ns = (0, 1, 4, 5, 6, 7, 9, 12, 16, 22, 31, 40) if ctx.quick() else tuple(range(0, 60))
    path = os.path.join(ctx.build, 'tsnprobe.cases')
    open(path, 'w').write(''.join('tsnprobe %d\n' % n for n in ns))
    rc, lines, err = ctx.run_lines([harness], path)
    for n, line in zip(ns, lines):
        shape = line.split()[0] if line.split() else ''
        if not shape or shape == '?':
            continue
        js = range(-1, n + 1) if (n <= 16 or not ctx.quick()) else sorted(set([-1, 0, 1, n // 3, n // 2, n - 2, n - 1, n]))
        for j in js:
            cases.append('tsn %d %s %d' % (n, shape, j))
    for cat in ('ntm', 'cpo'):                          # first insertion into a bucket-less set: crew, bucket array, params, item
        for k in range(-1, 5):
            cases.append('hsf %s %d' % (cat, k))
    for cat, n in (('ntm', 50), ('cpo', 50), ('ntm', 95), ('cpo', 95)):       # growth points from the capacity policy: any c
        total = n if cat == 'ntm' else n + (44 if n > 44 else 0) + (88 if n > 88 else 0)
        cs = sorted(set([-1, 0, 1, 20, 43, 44, 45, 46, 60, 87, 88, 89, 90, 100, 131, 132, 133, 134, 180, total - 1, total]))
        for c in cs:
            if c <= total:
                cases.append('growa %s %d %d' % (cat, n, c))
    return cases


def round5_cases(ctx):
    """block-level pool scripts (two pools with a free-block cache, MergeFrom, DeallocateAll, one failing buffer allocation),
    DataTable crew scripts (counts after every operation), vector migration between unequal allocators (event multisets)"""
    r = ctx.rng
    cases = []
    nscripts = 40 if ctx.quick() else 400
    for i in range(nscripts):
        cfg = r.choice(['2.0', '4.3', '3.2', '8.16'])
        held = [0, 0]; toks = []
        for _ in range(r.range(6, 40)):
            t = r.below(100); p = r.below(2)
            if t < 45:
                toks.append('a%d' % p); held[p] += 1
            elif t < 80:
                if held[p] > 0:
                    k = r.below(held[p]) if r.chance(3, 4) else 0
                    toks.append('d%d.%d' % (p, k)); held[p] -= 1
            elif t < 93:
                toks.append('m%d' % p); held[p] += held[1 - p]; held[1 - p] = 0
            elif t < 96:
                toks.append('x%d' % p); held[p] = 0
            else:                                   # free everything a pool holds, newest first: empties whole buffers
                for k in range(held[p] - 1, -1, -1):
                    toks.append('d%d.%d' % (p, k))
                held[p] = 0
        script = ','.join(toks)
        for f in ([-1] if i % 3 else [-1, 0, 1, 2, 3]):
            cases.append('pc %s %s %d' % (cfg, script, f))
    # the situation of seeded change C03/b, scripted: the source frees blocks (cached), merge, refill the source, DeallocateAll of the destination
    for cfg in ('2.0', '4.3', '3.2', '8.16'):
        cases.append('pc %s a1,a1,a1,a1,a1,d1.0,d1.0,d1.0,a0,m0,a1,a1,x0,d1.0 -1' % cfg)
    for i in range(30 if ctx.quick() else 300):
        cases.append('dtc ' + ''.join(r.choice('nnnaaerrr') for _ in range(r.range(4, 30))))
    for n in (1, 2, 3, 7, 16):
        for k in (-1, 0, 1):
            cases.append('migv %d %d' % (n, k))
    # the insertion that takes a TreeNode<4, 1> tree from height 2 to 3, through TreeSet::Relocator: 8 allocations (4 nodes, the two segment
    # arrays, mNewNodes, the 5th node) + the relocation: every failure index
    for k in range(-1, 11):
        cases.append('rel %d' % k)
    return cases


def pick_ks(ctx, steps):
    if not ctx.quick() or steps <= 16:
        return list(range(steps))
    ks = set(range(6)) | set(range(steps - 4, steps))
    while len(ks) < 16:
        ks.add(ctx.rng.below(steps))
    return sorted(ks)


def run_hist(ctx, exes, cases):
    """run history cases on the right harness part; returns {case: output line}"""
    out = {}
    by_part = {}
    for c in cases:
        by_part.setdefault(PART.get(c.split()[0], 3), []).append(c)
    for part, cs in sorted(by_part.items()):
        exe = exes.get(part)
        if exe is None:
            for c in cs:
                out[c] = '<no harness>'
            continue
        rest = list(cs); crashes = 0
        while rest:
            path = os.path.join(ctx.build, 'hist%d.cases' % part)
            open(path, 'w').write('\n'.join(rest) + '\n')
            rc, lines, err = ctx.run_lines([exe], path, timeout=1500)
            for l in err.splitlines():
                if l.startswith('COV\t'):
                    f = l.split('\t')
                    if len(f) == 3 and f[2].isdigit():
                        COV_AGG[f[1]] = COV_AGG.get(f[1], 0) + int(f[2])
            for i, c in enumerate(rest[:len(lines)]):
                out[c] = lines[i]
            if len(lines) >= len(rest):
                break
            # the harness died on rest[len(lines)] (abort / sanitizer report): that case is a finding, the others still run
            c = rest[len(lines)]
            out[c] = 'CRASH rc=%s %s' % (rc, ' '.join(err.strip().splitlines()[-3:])[-400:])
            rest = rest[len(lines) + 1:]
            crashes += 1
            if crashes >= 12:
                for c in rest:
                    out[c] = 'SKIPPED after 12 crashes of the harness'
                break
    return out


def judge(ctx, case, line, verdict):
    """the property predicate on one real run: clean registry, nothing live, monitor accepts"""
    if line.startswith('SKIPPED'):
        return None
    if line.startswith('CRASH'):
        return 'the real code crashed (abort / sanitizer): %s' % line[:300]
    head = line.split('|')[0].split()
    if len(head) < 7 or not all(h.isdigit() for h in head[:7]):
        return 'harness output unusable: %s' % line[:200]
    blocks, objs, errs = int(head[0]), int(head[1]), int(head[2])
    if errs:
        return 'kit protocol error: %s' % (line.split('#')[-1].strip()[:200] if '#' in line else '?')
    if blocks or objs:
        return 'leak: %d block(s), %d element(s) live after destruction' % (blocks, objs)
    if verdict is not None and verdict != 'accept':
        return 'proved monitor rejects the event log: %s' % verdict
    return None


def oracle(ctx, exes, monitor, scale_ps):
    bad = []
    base = []
    for scn, els in SCENARIOS:
        for el in els:
            for p in scale_ps:
                base.append('%s %s %d n -1' % (scn, 'ntm' if el == 'n' else 'cpo', p))
    for scn, els, pq, pt in AUDIT:
        for el in els:
            for p in (pq if (ctx.quick() or WIDENED[0]) else pt):
                base.append('%s %s %d n -1' % (scn, el, p))
    aimed_p = AIMED_P_QUICK if ctx.quick() else AIMED_P_THOROUGH
    for scn, els in AIMED:
        for el in els:
            for p in range(1, aimed_p + 1):
                base.append('%s %s %d n -1' % (scn, 'ntm' if el == 'n' else 'cpo', p))
    res0 = run_hist(ctx, exes, base)
    cases = list(base)
    for c in base:
        head = res0[c].split('|')[0].split()
        if len(head) < 7 or not all(h.isdigit() for h in head[:7]):
            continue
        sa, sc, sf = int(head[3]), int(head[4]), int(head[5])
        w = c.split()
        aimed = w[0] in AIMED_NAMES
        if aimed and ctx.quick() and sa < 3:
            continue
        for kind, steps in (('a', sa), ('c', sc), ('f', sf)):
            if kind == 'f' and w[0] in NO_FUNCTOR_FAILURES:
                continue
            audit = w[0] in AUDIT_NAMES
            if audit and '.' in w[1]:
                # hash distributions other than identity (colliding: every insertion compares with all colliding items, logs of several
                # 100 000 read events): allocation failures only, 6 failure points, in both tiers
                if kind != 'a':
                    continue
                ks = pick_ks_small(ctx, steps, 6)
            elif audit and (ctx.quick() or WIDENED[0]):
                ks = pick_ks_small(ctx, steps, 6)       # quick: 6 failure points per kind (first two, last two, two random)
            elif audit:
                ks = pick_ks_small(ctx, steps, 12)
            else:
                ks = range(steps) if aimed else pick_ks(ctx, steps)
            for k in ks:
                cases.append('%s %s %s %s %d' % (w[0], w[1], w[2], kind, k))
            # fault sequences (two failures in one history)
            if not aimed and steps > 2 and (not ctx.quick() or w[0] in DOUBLE_QUICK) and '.' not in w[1]:
                for k in pick_ks_small(ctx, steps - 2, 4 if ctx.quick() else 12):
                    cases.append('%s %s %s %s %d' % (w[0], w[1], w[2], kind.upper(), k))
    res = run_hist(ctx, exes, [c for c in cases if c not in res0])
    res.update(res0)
    # the proved monitor on every log
    verdicts = {}
    if monitor:
        path = os.path.join(ctx.build, 'monitor.cases')
        with open(path, 'w') as f:
            for c in cases:
                toks = res[c].split('|')[1].split('#')[0].strip() if '|' in res[c] else ''
                f.write('mon ' + toks + '\n')
        rc, lines, err = ctx.run_lines(['bash', '-c', 'ulimit -s unlimited 2>/dev/null; exec "$0"', monitor], path, timeout=1500)
        for i, c in enumerate(cases):
            verdicts[c] = lines[i] if i < len(lines) else '<monitor died: %s>' % err.strip()[-200:]
    hist = {}
    events = 0
    for c in cases:
        ctx.evaluations += 1
        why = judge(ctx, c, res[c], verdicts.get(c) if monitor else None)
        head = res[c].split('|')[0].split()
        if why:
            bad.append((c, res[c][:400], why))
        elif len(head) >= 7 and head[0].isdigit():
            fired = head[6] == '1'
            if fired or (c.split()[3] == 'n' and int(head[3]) > 0):
                ctx.nontrivial.add(c)
            hist[c.split()[0]] = hist.get(c.split()[0], 0) + 1
            events += len(res[c].split('|')[1].split()) if '|' in res[c] else 0
    ctx.coverage.setdefault('input_distribution', {})['oracle_cases_per_scenario'] = hist
    # MEASURED by the harness processes of this run (printed on their stderr at exit): cases per (scenario / element kind / failure kind),
    # audit configurations instantiated, guarded operations executed (scenario: source text), threshold / refusal events that occurred
    dist = ctx.coverage['input_distribution']
    dist['measured_cases_by_scenario_element_failurekind'] = {k[5:]: v for k, v in sorted(COV_AGG.items()) if k.startswith('case:')}
    dist['measured_configurations'] = {k[7:]: v for k, v in sorted(COV_AGG.items()) if k.startswith('config:')}
    dist['measured_events'] = {k[6:]: v for k, v in sorted(COV_AGG.items()) if k.startswith('event:')}
    dist['measured_operations'] = {k[3:]: v for k, v in sorted(COV_AGG.items()) if k.startswith('op:')}
    fired_by_kind = {}
    for c in cases:
        head = res[c].split('|')[0].split()
        if len(head) >= 7 and head[6] == '1':
            key = c.split()[0] + '/' + c.split()[3]
            fired_by_kind[key] = fired_by_kind.get(key, 0) + 1
    dist['measured_failures_fired_by_scenario_kind'] = fired_by_kind
    ctx.coverage['input_distribution']['events_checked_by_monitor'] = events
    if monitor:
        ctx.traces_validated += len([c for c in cases if verdicts.get(c) == 'accept'])
    return bad, len(cases)


def _tree_hash(ctx):
    """content hash of everything a harness binary depends on: /repo headers (VERIF_REPO aware), kit, the harness sources"""
    import hashlib
    h = hashlib.sha256()
    roots = [os.path.join(ctx.repo, 'include'), os.path.join(ctx.root, 'harness')]
    files = []
    for r in roots:
        for dp, dn, fn in os.walk(r):
            files += [os.path.join(dp, f) for f in fn]
    files += [os.path.join(ctx.pdir, f) for f in ('harness.cpp', 'harness_hist.cpp', 'harness_audit.inc')]
    for f in sorted(files):
        h.update(f.encode()); h.update(open(f, 'rb').read())
    return h.hexdigest()


def build_all(ctx):
    """builds the 4 harness binaries in parallel; a binary is reused only when the content hash of all its inputs (headers of the
    tree under test included) is unchanged, so a changed /repo always means a fresh build"""
    # quick tier: -O0 -g0 everywhere (compile CPU 183 s -> 112 s; the run time of all harness binaries together is below 3 s either way);
    # thorough tier: -O1 -g + ASan / UBSan (parts 4-6 -O0: template-heavy)
    fast = ['-O0', '-g0'] if ctx.tier != 'thorough' else []
    jobs = [('harness.cpp', 'harness', ['-DC03_TIE_PART=1'] + fast), ('harness.cpp', 'harness2', ['-DC03_TIE_PART=2'] + fast)] + \
           [('harness_hist.cpp', 'hist%d' % i, ['-DC03_PART=%d' % i] + (fast or (['-O0'] if i >= 4 else []))) for i in (1, 2, 3, 4, 5, 6)]
    san = '.san' if ctx.tier == 'thorough' else ''
    key = _tree_hash(ctx) + san
    stamp = os.path.join(ctx.build, 'harness.stamp' + san)
    paths = {x: os.path.join(ctx.build, x + san) for (_, x, _) in jobs}
    if os.path.exists(stamp) and open(stamp).read() == key and all(os.path.exists(p) for p in paths.values()):
        ctx.log('harness binaries up to date (content hash of sources + headers unchanged)')
        res = paths
    else:
        if os.path.exists(stamp):
            os.remove(stamp)
        res = ctx.cxx_many(jobs)
        if all(res.get(x) for x in paths):
            open(stamp, 'w').write(key)
    exes = {i: res.get('hist%d' % i) for i in (1, 2, 3, 4, 5, 6)}
    exes['tie2'] = res.get('harness2')
    return res.get('harness'), exes


def replay(ctx, rp):
    case = rp.get('case')
    if not case:
        print('replay has no concrete case (no-failing-input-found): broken stages were', list(rp.get('broken', {}).keys())); return 1
    harness, exes = build_all(ctx)
    if case.split()[0] in ('dt', 'hmm', 'dtc'):
        harness = exes.get('tie2')
    gen_facts(ctx); ctx.regen(GEN_CFGS)
    have_model = ctx.prove() and ctx.extract()
    if case.split()[0] in ('om', 'arr', 'hs', 'ts', 'crew', 'pools', 'tsn', 'hsf', 'sa', 'sa2', 'grow', 'growa', 'pc', 'migv', 'dtc', 'rel', 'dt', 'hmm'):
        if harness is None or not have_model:
            print('cannot build harness/model'); return 2
        mism, _ = ctx.correspond('replay', [case], [harness], [ctx.model_exe], stage=False)
        print('case:', case)
        if mism:
            print('implementation:', mism[0][2]); print('model         :', mism[0][3])
            print('VIOLATION property=C03 replay=%s' % ctx.replay); return 1
        print('model and implementation agree'); return 0
    res = run_hist(ctx, exes, [case])
    verdict = None
    if have_model:
        path = os.path.join(ctx.build, 'replay.mon')
        open(path, 'w').write('mon ' + (res[case].split('|')[1].split('#')[0].strip() if '|' in res[case] else '') + '\n')
        rc, lines, err = ctx.run_lines([ctx.model_exe], path)
        verdict = lines[0] if lines else err
    why = judge(ctx, case, res[case], verdict)
    print('case:', case, '\nimplementation:', res[case][:300], '\nmonitor:', verdict)
    if why:
        print(why); print('VIOLATION property=C03 replay=%s' % ctx.replay); return 1
    print('property holds on this case'); return 0


GEN_CFGS = ['gen_mempooldata.json', 'gen_raw.json', 'gen_hashclear.json', 'gen_treeclear.json', 'gen_poolmerge.json']


def check_poolconc_copy(ctx):
    """coq/PoolConcC09.v must still be C09's coq/PoolConc.v: byte comparison modulo my one-line header comment and the library name
    (C03 <-> C09).  The `pc` tie runs THIS copy against the real MemPool; if C09's model moves on, the copy has to follow (or the
    divergence has to be a decision): a difference breaks a tie stage."""
    mine_p = os.path.join(ctx.cdir, 'PoolConcC09.v'); theirs_p = os.path.join(ctx.root, 'props', 'C09', 'coq', 'PoolConc.v')
    try:
        mine = open(mine_p).read(); theirs = open(theirs_p).read()
        first, rest = mine.split('\n', 1)
        ok = first.startswith('(* COPIED VERBATIM from props/C09/coq/PoolConc.v') and first.rstrip().endswith('*)') and rest.replace('C03', 'C09') == theirs
        why = '' if ok else 'props/C03/coq/PoolConcC09.v differs from props/C09/coq/PoolConc.v (modulo header line and library name)'
    except Exception as e:
        ok = False; why = 'cannot compare PoolConcC09.v with C09/coq/PoolConc.v: %s' % str(e)[:200]
    ctx.tie_obligations.append({'name': 'PoolConcC09.v is a verbatim copy of props/C09/coq/PoolConc.v (bytes, modulo header line and library name)', 'ok': ok})
    ctx.stage('corr:poolconc-copy', ok, why)
    return ok


def gen_facts(ctx):
    """T-gen (AST facts, astfacts.py): the statements of the catch blocks / branches / small functions where this project's release-discipline
    defects lived are read off the clang AST of the CURRENT headers (ctx.repo) and written to coq/Gen_C03Facts.v; coq/GenTie.v interprets them
    and instantiates the hand model at the result (theorems C03_gen_*).  A stale fact file must never keep the proofs green."""
    import importlib.util, hashlib
    out = os.path.join(ctx.cdir, 'Gen_C03Facts.v')
    try:
        sp = importlib.util.spec_from_file_location('c03_astfacts', os.path.join(ctx.pdir, 'astfacts.py'))
        m = importlib.util.module_from_spec(sp); sp.loader.exec_module(m)
        txt = m.facts_text(os.path.join(ctx.pdir, 'inst_facts.cpp'), ctx.repo, ctx.root)
        if not os.path.exists(out) or open(out).read() != txt:
            open(out, 'w').write(txt)
        ctx.tie_obligations.append({'name': 'translate Gen_C03Facts (AST facts: HashSet/TreeSet constructor catch blocks, DataTable::pvFill catch, HashMultiMap copy row, '
                                            'TreeSet::MergeTo empty-destination branch, Relocator::CreateNode + ~Relocator, MemPool::Data::Swap, MemPool::MergeFrom links, '
                                            'pvRebalance collapse loop, noexcept flag of select_on_container_copy_construction)', 'ok': True,
                                    'sha256': hashlib.sha256(txt.encode()).hexdigest()[:16]})
        ctx.stage('regen', True, '')
        return True
    except Exception as e:
        if os.path.exists(out):
            os.remove(out)
        ctx.tie_obligations.append({'name': 'translate Gen_C03Facts', 'ok': False, 'error': str(e)[:400]})
        ctx.stage('regen', False, 'AST facts: %s' % str(e)[:300])
        return False


def run(ctx):
    ctx.trusted += ['props/C03/astfacts.py (own walker over the clang 14 JSON AST, helpers of tools/cxx2coq.py) for the statement lists of Gen_C03Facts.v; the MEANING given to them (pointer states, swapped field sets, Relocator steps, pointer machine) is GenTie.v',
                    'extraction: ExtrOcamlBasic only (no Extract Constant), OCaml 4.13.1, zarith for decimal I/O only',
                    'harness/kit.h instrumentation (address registry, size/identity-checked manager, structured event log) and the token -> event '
                    'conversion in ocaml/driver.ml (copy/move = use of the source + construction of the destination)',
                    'g++ 12 -std=c++17; thorough tier: ASan+UBSan and kit red zones for "no access outside live blocks"']
    ctx.assumptions += ['L2 mechanism theorems are about the hand-written resource machine (Effects.v), tied to the real code by trace '
                        'correspondence on every (mechanism, category, count <= N, failure index); counts above N are covered by the proofs on the model only',
                        'element categories modelled: nothrow-move and genuinely copy-only; trivially relocatable items (memcpy) have no element events',
                        '"no memory is read or written outside live blocks" is a runtime check (ASan, red zones) - partial',
                        'whole-container statement (all operations, all histories) is checked by the proved monitor on generated histories, not proved']
    ok_facts = gen_facts(ctx)
    ok_gen = ctx.regen(GEN_CFGS)       # translated by tools/cxx2coq.py; configurations copied from C14 / C18 / C09 (see NOTES.md)
    if not ok_facts:
        ctx.stage('regen', False, 'AST facts (see tie obligations)')
    ctx.prove()
    check_poolconc_copy(ctx)
    harness, exes = build_all(ctx)
    harness2 = exes.pop('tie2', None)
    if harness is None or harness2 is None or any(v is None for v in exes.values()):
        ctx.stage('build-harness', False, getattr(ctx, 'last_cxx_error', ''))
    have_model = bool(ctx.stages.get('prove', {}).get('ok')) and ctx.extract()
    N = MECH_N_QUICK if ctx.quick() else MECH_N_THOROUGH
    # ---- tie: micro-correspondence of event traces
    if harness is not None and have_model:
        cases = tie_cases(N) + grow_cases(ctx, harness) + tree_cases(ctx, harness) + round5_cases(ctx)
        part2 = [c for c in cases if c.split()[0] in ('dt', 'hmm', 'dtc')]
        part1 = [c for c in cases if c.split()[0] not in ('dt', 'hmm', 'dtc')]
        mism, _ = ctx.correspond('micro-correspondence', part1, [harness], [ctx.model_exe])
        if harness2 is not None:
            mism2, _ = ctx.correspond('micro-correspondence-2', part2, [harness2], [ctx.model_exe])
            mism = mism + mism2
        ctx.tie_obligations.append({'name': 'L2 model trace == real code trace on %d (mechanism, category, count, k) cases' % len(cases), 'ok': not mism})
        for c in cases:
            if not c.endswith(' -1') or c.split()[0] in ('pc', 'dtc'):
                ctx.nontrivial.add(c)
        for (i, c, a, b) in mism[:3]:
            ctx.violation('resource-machine model and implementation disagree on the event trace', {'case': c, 'impl': a, 'model': b,
                          'cmd': 'echo "%s" | build/C03/harness' % c}, found_input=True)
        ctx.coverage.setdefault('input_distribution', {})['tie_cases'] = {k: sum(1 for c in cases if c.split()[0] == k) for k in ('om', 'arr', 'hs', 'ts', 'crew', 'pools', 'tsn', 'hsf', 'sa', 'sa2', 'grow', 'growa', 'pc', 'migv', 'dtc', 'rel', 'dt', 'hmm')}
        for c in cases[::max(1, len(cases) // 4)][:4]:
            ctx.add_sample(c)
    # ---- oracle / search on the real code
    broke = any(not s['ok'] for s in ctx.stages.values())
    if broke:
        ctx.log('a stage broke: searching the implementation with the thorough generator')
    ps = [9] if (ctx.quick() and not broke) else [5, 12, 33]
    saved_tier = ctx.tier
    if broke:
        ctx.tier = 'thorough'       # every k
        WIDENED[0] = True
    bad, n = oracle(ctx, exes, ctx.model_exe if have_model else None, ps)
    ctx.tier = saved_tier
    # (round 7) the audit's `palloc` scenarios found stdish::unsynchronized_pool_allocator::select_on_container_copy_construction() noexcept but
    # allocating -> std::terminate on an allocation failure; fixed in /repo; the cases stay on the normal violation path (reverse patch = mutant M10)
    ctx.stage('oracle', not bad, bad[0][2] if bad else '')
    ctx.tie_obligations.append({'name': 'proved monitor accepts the event log of %d real histories' % n, 'ok': not bad})
    for (c, out, why) in bad[:3]:
        ctx.violation(why, {'case': c, 'impl_output': out, 'cmd': 'echo "%s" | build/C03/hist%d' % (c, PART.get(c.split()[0], 3))}, found_input=True)
    for c in sorted(ctx.nontrivial)[::max(1, len(ctx.nontrivial) // 4)][:4]:
        ctx.add_sample(c)
    return ctx.finish(rule=RULE)
