(* C14 round 10 -- Array::Data generated end to end (Gen_ArrayData.v: pvInit, pvDeallocate, pvDestroy, Clear, pvInit(Data&&), the move
   constructor with its base-class initialiser, operator=(Data&&) with `this != &data`).  The manager base sub-object of *this / of
   the parameter is the scalar mgr / data_mgr; the ghost field freed_via records the manager the storage was returned through. *)
From Coq Require Import ZArith Bool List Lia.
From MomoCommon Require Import GenPrelude.
From C14 Require Import PropagationModel Model Proofs.
From C14 Require Gen_ArrayData.
Local Open Scope Z_scope.

(* operator=(Data&&), distinct objects: the old storage (if any: capacity > internalCapacity = 0) is returned through the OLD manager
   of *this, only then *this takes the source's manager and storage; the source is left without storage.  Same object: nothing. *)
Theorem gen_array_move_assign :
  forall m i n c dm di dn dc fv,
    Gen_ArrayData.MoveAssign false m i n c dm di dn dc fv = (dm, di, dn, dc, 0, 0, 0, if Z.gtb c 0 then m else fv) /\
    Gen_ArrayData.MoveAssign true m i n c dm di dn dc fv = (m, i, n, c, di, dn, dc, fv).
Proof.
  intros. split; [|reflexivity].
  unfold Gen_ArrayData.MoveAssign, Gen_ArrayData.pvInitMove, Gen_ArrayData.pvInit0, Gen_ArrayData.pvDestroy, Gen_ArrayData.pvDeallocate,
    Gen_ArrayData.GetCapacity, Gen_ArrayData.pvIsInternal, Gen_ArrayData.internalCapacity.
  cbn [negb]. destruct (Z.gtb c 0); reflexivity.
Qed.

(* Data(Data&&): manager and storage of the source; the source keeps no storage; nothing is deallocated *)
Theorem gen_array_move_ctor :
  forall m i n c dm di dn dc fv, Gen_ArrayData.MoveCtor m i n c dm di dn dc fv = (dm, di, dn, dc, 0, 0, 0).
Proof. reflexivity. Qed.

(* Clear(): storage returned through the array's own manager, then the null state *)
Theorem gen_array_clear :
  forall m i n c dm di dn dc fv, Gen_ArrayData.Clear m i n c dm di dn dc fv = (0, 0, 0, if Z.gtb c 0 then m else fv).
Proof.
  intros. unfold Gen_ArrayData.Clear, Gen_ArrayData.pvInit0, Gen_ArrayData.pvDestroy, Gen_ArrayData.pvDeallocate,
    Gen_ArrayData.GetCapacity, Gen_ArrayData.pvIsInternal, Gen_ArrayData.internalCapacity.
  destruct (Z.gtb c 0); reflexivity.
Qed.

(* Array::Swap = std::swap(mData, array.mData) = Data tmp(move(a)); a = move(b); b = move(tmp), composed of the generated functions *)
Definition array_swap_composed (a b : Z * Z * Z * Z) (fv : Z) :=
  let '(am, ai, an, ac) := a in let '(bm, bi, bn, bc) := b in
  let '(tm, ti, tn, tc, ai1, an1, ac1) := Gen_ArrayData.MoveCtor 0 0 0 0 am ai an ac fv in               (* tmp <- a *)
  let '(am2, ai2, an2, ac2, bi1, bn1, bc1, fv1) := Gen_ArrayData.MoveAssign false am ai1 an1 ac1 bm bi bn bc fv in   (* a = move(b) *)
  let '(bm2, bi2, bn2, bc2, ti1, tn1, tc1, fv2) := Gen_ArrayData.MoveAssign false bm bi1 bn1 bc1 tm ti tn tc fv1 in  (* b = move(tmp) *)
  ((am2, ai2, an2, ac2), (bm2, bi2, bn2, bc2), fv2).

Theorem gen_array_swap :
  forall am ai an ac bm bi bn bc fv,
    array_swap_composed (am, ai, an, ac) (bm, bi, bn, bc) fv = ((bm, bi, bn, bc), (am, ai, an, ac), fv).
Proof.
  intros. unfold array_swap_composed. rewrite gen_array_move_ctor.
  destruct (gen_array_move_assign am 0 0 0 bm bi bn bc fv) as [E1 _]. rewrite E1. cbn [Z.gtb Z.compare].
  destruct (gen_array_move_assign bm 0 0 0 am ai an ac fv) as [E2 _]. rewrite E2. reflexivity.
Qed.

(* refinement: the hand model's arr_move_assign (Model.v, internal capacity 0) agrees with the generated operator= on manager,
   contents and on the manager the old block is released through *)
Definition capz (a : arr) : Z := match ablock a with Some _ => 1 | None => 0 end.
Theorem arr_model_refines_generated :
  forall assign dst src w, assign_takes_source assign -> arr_wf dst -> arr_wf src ->
    exists d s' w', arr_move_assign assign dst src w = Ok (d, s') w' /\
      let '(gm, _, _, gc, _, _, gsc, gfv) :=
        Gen_ArrayData.MoveAssign false (amgr dst) (capz dst) 0 (capz dst) (amgr src) (capz src) 0 (capz src) (-1) in
      amgr d = gm /\ capz d = gc /\ capz s' = gsc /\
      (gfv = if Z.gtb (capz dst) 0 then amgr dst else -1).
Proof.
  intros assign dst src w HA Dw Sw.
  destruct (arr_move_assign_spec assign dst src w HA Dw Sw) as (d & s' & w' & E & Md & Id & Bd & Wd & Is & Bs & Ws & _).
  exists d, s', w'. split; [exact E|].
  destruct (gen_array_move_assign (amgr dst) (capz dst) 0 (capz dst) (amgr src) (capz src) 0 (capz src) (-1)) as [G _].
  rewrite G. unfold capz. rewrite Md, Bd, Bs. repeat split; reflexivity.
Qed.
