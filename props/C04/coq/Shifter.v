(* C04 -- ArrayShifter::InsertNogrow(array, index, count, item) and ArrayShifter::Remove(array, index, count)
   (ArrayUtility.h:196-224, 276-286): sequences of  AddBackNogrow(std::move(array[i])) / AddBackNogrow(item) /
   Assign(std::move(array[i]), array[j]) / Assign(item, array[j]).  Documented as BASIC exception safety: after an exception the
   array is valid -- mCount is consistent, every slot below mCount holds a constructed object (possibly moved-from), every slot
   above is raw, nothing leaked -- but its contents are unspecified.
   Moving from a moved-from object is legal C++, so the element steps here accept any constructed source. *)
From Coq Require Import List Arith Lia Bool PeanoNat.
From C04 Require Import Effects ObjMgr ArrayData.
Import ListNotations.

Definition moved_of (c : cell) : cell := match c with Live v | Moved v => Moved v | Raw => Raw end.
Definition take (l : loc) : M cell := c <- getc l ;; match c with Raw => stuck | _ => ret c end.
Definition may_throw (c : cat) : M unit := if nothrow c then ret tt else fallible.
Definition leave_src (c : cat) (l : loc) (x : cell) : M unit := match c with CPY => ret tt | _ => putc l (moved_of x) end.

Inductive bstep := BPushMove (i : nat) | BPushCopy | BAssignMove (i j : nat) | BAssignCopy (j : nat).

Definition run_bstep (c : cat) (arg : loc) (st : bstep) : M unit :=
  b <- getr rItems ;; cnt <- getr rCount ;;
  match st with
  | BPushMove i =>   (* array.AddBackNogrow(std::move(array[i])) *)
    x <- take (b, i) ;; d <- getc (b, cnt) ;;
    match d with Raw => may_throw c ;; putc (b, cnt) x ;; leave_src c (b, i) x ;; setr rCount (S cnt) | _ => stuck end
  | BPushCopy =>     (* array.AddBackNogrow(item) *)
    x <- take arg ;; d <- getc (b, cnt) ;;
    match d with Raw => fallible ;; putc (b, cnt) x ;; setr rCount (S cnt) | _ => stuck end
  | BAssignMove i j => (* ItemTraits::Assign(memManager, std::move(array[i]), array[j]) *)
    x <- take (b, i) ;; _ <- take (b, j) ;; may_throw c ;; putc (b, j) x ;; leave_src c (b, i) x
  | BAssignCopy j =>   (* ItemTraits::Assign(memManager, item, array[j]) *)
    x <- take arg ;; _ <- take (b, j) ;; fallible ;; putc (b, j) x
  end.
Fixpoint run_bsteps (c : cat) (arg : loc) (l : list bstep) : M unit :=
  match l with [] => ret tt | st :: r => run_bstep c arg st ;; run_bsteps c arg r end.

(* the loops of InsertNogrow / Remove as step lists *)
Definition insert_steps (index count initCount : nat) : list bstep :=
  if index + count <? initCount then
    map BPushMove (seq (initCount - count) count) ++
    map (fun i => BAssignMove (i - 1) (i + count - 1)) (rev (seq (S index) (initCount - count - index))) ++
    map BAssignCopy (seq index count)
  else
    map (fun _ => BPushCopy) (seq initCount (index + count - initCount)) ++
    flat_map (fun i => [BPushMove i; BAssignCopy i]) (seq index (initCount - index)).
Definition remove_steps (index count initCount : nat) : list bstep :=
  map (fun i => BAssignMove i (i - count)) (seq (index + count) (initCount - index - count)).

Definition array_insert_nogrow (c : cat) (arg : loc) (index count : nat) : M unit :=
  initCount <- getr rCount ;; run_bsteps c arg (insert_steps index count initCount).
Definition array_remove_at (c : cat) (arg : loc) (index count : nat) : M unit :=
  initCount <- getr rCount ;; run_bsteps c arg (remove_steps index count initCount) ;;
  b <- getr rItems ;; destroy_from (fun j => (b, j)) (initCount - count) count ;; setr rCount (initCount - count).

(* the BASIC guarantee: a valid array *)
Record arr_basic (arg : loc) (h : heap) : Prop := mkArrBasic
  { ab_alive : alive h (regs h rItems) = true; ab_size : bsize h (regs h rItems) = regs h rCap;
    ab_cnt : regs h rCount <= regs h rCap;
    ab_con : forall i, i < regs h rCount -> mem h (regs h rItems, i) <> Raw;
    ab_raw : forall i, regs h rCount <= i -> i < regs h rCap -> mem h (regs h rItems, i) = Raw;
    ab_arg : valid h arg = true /\ mem h arg <> Raw /\ fst arg <> regs h rItems }.

Fixpoint steps_ok (cnt cap : nat) (l : list bstep) : Prop :=
  match l with
  | [] => True
  | BPushMove i :: r => i < cnt /\ cnt < cap /\ steps_ok (S cnt) cap r
  | BPushCopy :: r => cnt < cap /\ steps_ok (S cnt) cap r
  | BAssignMove i j :: r => i < cnt /\ j < cnt /\ i <> j /\ steps_ok cnt cap r
  | BAssignCopy j :: r => j < cnt /\ steps_ok cnt cap r
  end.
Fixpoint pushes (l : list bstep) : nat :=
  match l with [] => 0 | (BPushMove _ | BPushCopy) :: r => S (pushes r) | _ :: r => pushes r end.

Lemma wp_take : forall l s (Q : cell -> st -> Prop) (E : st -> Prop),
  valid (hp s) l = true -> mem (hp s) l <> Raw -> Q (mem (hp s) l) s -> wp (take l) s Q E.
Proof.
  intros. unfold take. apply wp_bind, wp_getc; auto. destruct (mem (hp s) l) eqn:Em; [contradiction|apply wp_ret; auto|apply wp_ret; auto].
Qed.
Lemma wp_may_throw : forall c s (Q : unit -> st -> Prop) (E : st -> Prop),
  (forall s', heq (hp s) (hp s') -> E s') -> (forall s', heq (hp s) (hp s') -> Q tt s') -> wp (may_throw c) s Q E.
Proof. intros. unfold may_throw. destruct (nothrow c). apply wp_ret; auto. apply wp_fallible; auto. Qed.

Lemma moved_of_nonraw : forall x, x <> Raw -> moved_of x <> Raw.
Proof. destruct x; simpl; congruence. Qed.

(* writing constructed objects below the count keeps the array valid *)
Lemma arr_basic_write2 : forall arg h h' i x j y,
  arr_basic arg h -> i < regs h rCount -> j < regs h rCount -> x <> Raw -> y <> Raw ->
  heq (hset (hset h (regs h rItems, i) x) (regs h rItems, j) y) h' -> arr_basic arg h'.
Proof.
  intros arg h h' i x j y [A1 A2 A3 A4 A5 [A6 [A7 A8]]] Hi Hj Hx Hy H.
  assert (R : forall r, regs h' r = regs h r) by (intros; apply (hq_regs _ _ H)).
  split; rewrite ?R.
  - rewrite (hq_alive _ _ H). exact A1.
  - rewrite (hq_bsize _ _ H). exact A2.
  - exact A3.
  - intros k Hk. rewrite (hq_mem _ _ H). simpl. unfold updm.
    destruct (loc_eqb _ _); auto. destruct (loc_eqb _ _); auto.
  - intros k Hk1 Hk2. rewrite (hq_mem _ _ H). simpl. unfold updm.
    rewrite !loc_eqb_neq; auto; intro E; inversion E; lia.
  - rewrite (heq_valid _ _ _ H), !valid_hset. rewrite (hq_mem _ _ H). split; auto. split; auto.
    rewrite !mem_hset_other; auto; intro E; apply A8; rewrite E; reflexivity.
Qed.
Lemma arr_basic_write1 : forall arg h h' j y,
  arr_basic arg h -> j < regs h rCount -> y <> Raw -> heq (hset h (regs h rItems, j) y) h' -> arr_basic arg h'.
Proof.
  intros arg h h' j y B Hj Hy H. eapply (arr_basic_write2 arg h h' j (mem h (regs h rItems, j)) j y); eauto.
  - apply (ab_con _ _ B); auto.
  - eapply heq_trans; [|exact H]. split; simpl; auto. intros l. unfold updm. destruct (loc_eqb l (regs h rItems, j)) eqn:E; auto.
Qed.

Definition okst (arg : loc) (b cap : nat) (h : heap) (cnt : nat) : Prop :=
  arr_basic arg h /\ regs h rCount = cnt /\ regs h rCap = cap /\ regs h rItems = b.

Lemma okst_heq : forall arg b cap h h' cnt, heq h h' -> okst arg b cap h cnt -> okst arg b cap h' cnt.
Proof.
  intros arg b cap h h' cnt H [[A1 A2 A3 A4 A5 [A6 [A7 A8]]] [C1 [C2 C3]]].
  assert (R : forall r, regs h' r = regs h r) by (intros; apply (hq_regs _ _ H)).
  split; [|rewrite !R; auto]. split; rewrite ?R; rewrite ?(hq_alive _ _ H), ?(hq_bsize _ _ H); auto.
  - intros i Hi. rewrite (hq_mem _ _ H). auto.
  - intros i Hi Hj. rewrite (hq_mem _ _ H). auto.
  - rewrite (heq_valid _ _ _ H), (hq_mem _ _ H). auto.
Qed.

(* pushing a constructed object onto the first raw slot *)
Lemma okst_push : forall arg b cap h h' cnt x, okst arg b cap h cnt -> cnt < cap -> x <> Raw ->
  heq (hsetr (hset h (b, cnt) x) rCount (S cnt)) h' -> okst arg b cap h' (S cnt).
Proof.
  intros arg b cap h h' cnt x [[A1 A2 A3 A4 A5 [A6 [A7 A8]]] [C1 [C2 C3]]] Hc Hx H. subst b cap cnt.
  assert (R : forall r, r <> rCount -> regs h' r = regs h r).
  { intros r Hr. rewrite (hq_regs _ _ H). simpl. unfold updn. apply Nat.eqb_neq in Hr. rewrite Hr. reflexivity. }
  assert (Rc : regs h' rCount = S (regs h rCount)).
  { rewrite (hq_regs _ _ H). simpl. unfold updn. rewrite Nat.eqb_refl. reflexivity. }
  assert (Ri : regs h' rItems = regs h rItems) by (apply R; unfold rItems, rCount; lia).
  assert (Rp : regs h' rCap = regs h rCap) by (apply R; unfold rCap, rCount; lia).
  split; [|rewrite Rc, Ri, Rp; auto]. split; rewrite ?Rc, ?Ri, ?Rp.
  - rewrite (hq_alive _ _ H). exact A1.
  - rewrite (hq_bsize _ _ H). exact A2.
  - lia.
  - intros i Hi. rewrite (hq_mem _ _ H). simpl. unfold updm. destruct (loc_eqb _ _) eqn:E; auto. apply A4.
    assert (i <> regs h rCount) by (intro; subst; rewrite loc_eqb_refl in E; discriminate). lia.
  - intros i Hi Hj. rewrite (hq_mem _ _ H). simpl. unfold updm. rewrite loc_eqb_neq by (intro E; inversion E; lia). apply A5; lia.
  - rewrite (heq_valid _ _ _ H). rewrite (hq_mem _ _ H). simpl. split; [exact A6|]. split; auto.
    unfold updm. rewrite loc_eqb_neq; auto. intro E. apply A8. rewrite E. reflexivity.
Qed.

Lemma wp_run_bstep : forall c arg b cap stp s cnt (Q : unit -> st -> Prop) (E : st -> Prop),
  okst arg b cap (hp s) cnt -> steps_ok cnt cap [stp] ->
  (forall s', heq (hp s) (hp s') -> E s') ->
  (forall s', okst arg b cap (hp s') (cnt + pushes [stp]) -> Q tt s') ->
  wp (run_bstep c arg stp) s Q E.
Proof.
  intros c arg b cap stp s cnt Q E Hok Hst HE HQ.
  pose proof Hok as [[A1 A2 A3 A4 A5 [A6 [A7 A8]]] [C1 [C2 C3]]].
  unfold run_bstep. apply wp_bind, wp_getr. apply wp_bind, wp_getr. rewrite C1, C3.
  assert (Vb : forall i, i < cap -> valid (hp s) (b, i) = true).
  { intros i Hi. unfold valid. simpl. rewrite <- C3, A1, A2, C2. apply Nat.ltb_lt; auto. }
  assert (Cap : cnt <= cap) by (rewrite <- C1, <- C2; auto).
  destruct stp as [i| |i j|j]; simpl in Hst.
  - destruct Hst as [Hi [Hc _]].
    apply wp_bind. apply wp_take. { apply Vb; lia. } { rewrite <- C3. apply A4. lia. }
    apply wp_bind, wp_getc. { apply Vb; auto. }
    assert (Rc : mem (hp s) (b, cnt) = Raw) by (rewrite <- C3; apply A5; lia). rewrite Rc.
    set (x := mem (hp s) (b, i)). assert (Hx : x <> Raw) by (unfold x; rewrite <- C3; apply A4; lia).
    apply wp_bind. apply wp_may_throw; auto. intros s1 H1.
    apply wp_bind, wp_putc. { rewrite (heq_valid _ _ _ H1). apply Vb; auto. } intros s2 H2.
    assert (H2' : heq (hset (hp s) (b, cnt) x) (hp s2)) by (eapply heq_trans; [|exact H2]; apply heq_hset; auto).
    assert (Ok2 : okst arg b cap (hsetr (hp s2) rCount (S cnt)) (S cnt)).
    { eapply okst_push; [exact Hok| | |]; eauto. apply heq_hsetr. exact H2'. }
    destruct c; simpl.
    + apply wp_bind, wp_putc. { rewrite (heq_valid _ _ _ H2'), valid_hset. apply Vb; lia. } intros s3 H3.
      apply wp_setr. intros s4 H4. apply HQ. simpl. replace (cnt + 1) with (S cnt) by lia.
      (* overwrite slot i (below the count) with the moved-from object *)
      assert (Ok3 : okst arg b cap (hsetr (hset (hp s2) (b, i) (moved_of x)) rCount (S cnt)) (S cnt)).
      { destruct Ok2 as [B2 [D1 [D2 D3]]]. simpl in D1, D2, D3. split; [|simpl; auto].
        eapply (arr_basic_write1 arg (hsetr (hp s2) rCount (S cnt)) _ i (moved_of x)); eauto.
        - simpl. unfold updn. simpl. lia.
        - apply moved_of_nonraw; auto.
        - simpl. rewrite D3. split; simpl; auto. }
      eapply okst_heq; [|exact Ok3]. eapply heq_trans; [|exact H4]. apply heq_hsetr. exact H3.
    + apply wp_bind, wp_ret. apply wp_setr. intros s4 H4. apply HQ. simpl. replace (cnt + 1) with (S cnt) by lia.
      eapply okst_heq; [exact H4|exact Ok2].
    + apply wp_bind, wp_putc. { rewrite (heq_valid _ _ _ H2'), valid_hset. apply Vb; lia. } intros s3 H3.
      apply wp_setr. intros s4 H4. apply HQ. simpl. replace (cnt + 1) with (S cnt) by lia.
      assert (Ok3 : okst arg b cap (hsetr (hset (hp s2) (b, i) (moved_of x)) rCount (S cnt)) (S cnt)).
      { destruct Ok2 as [B2 [D1 [D2 D3]]]. simpl in D1, D2, D3. split; [|simpl; auto].
        eapply (arr_basic_write1 arg (hsetr (hp s2) rCount (S cnt)) _ i (moved_of x)); eauto.
        - simpl. unfold updn. simpl. lia.
        - apply moved_of_nonraw; auto.
        - simpl. rewrite D3. split; simpl; auto. }
      eapply okst_heq; [|exact Ok3]. eapply heq_trans; [|exact H4]. apply heq_hsetr. exact H3.
  - destruct Hst as [Hc _].
    apply wp_bind. apply wp_take; auto.
    apply wp_bind, wp_getc. { apply Vb; auto. }
    assert (Rc : mem (hp s) (b, cnt) = Raw) by (rewrite <- C3; apply A5; lia). rewrite Rc.
    apply wp_bind. apply wp_fallible; auto. intros s1 H1.
    apply wp_bind, wp_putc. { rewrite (heq_valid _ _ _ H1). apply Vb; auto. } intros s2 H2.
    apply wp_setr. intros s3 H3. apply HQ. simpl. replace (cnt + 1) with (S cnt) by lia.
    eapply okst_push; [exact Hok|exact Hc|exact A7|].
    eapply heq_trans; [|exact H3]. apply heq_hsetr. eapply heq_trans; [|exact H2]. apply heq_hset; auto.
  - destruct Hst as [Hi [Hj [Hij _]]].
    apply wp_bind. apply wp_take. { apply Vb; lia. } { rewrite <- C3. apply A4. lia. }
    apply wp_bind. apply wp_take. { apply Vb; lia. } { rewrite <- C3. apply A4. lia. }
    set (x := mem (hp s) (b, i)). assert (Hx : x <> Raw) by (unfold x; rewrite <- C3; apply A4; lia).
    apply wp_bind. apply wp_may_throw; auto. intros s1 H1.
    apply wp_bind, wp_putc. { rewrite (heq_valid _ _ _ H1). apply Vb; lia. } intros s2 H2.
    assert (H2' : heq (hset (hp s) (b, j) x) (hp s2)) by (eapply heq_trans; [|exact H2]; apply heq_hset; auto).
    assert (Ok2 : okst arg b cap (hp s2) cnt).
    { split; [|rewrite !(hq_regs _ _ H2'); simpl; auto]. eapply (arr_basic_write1 arg (hp s) _ j x); [exact (proj1 Hok) | rewrite C1; lia | exact Hx | rewrite C3; exact H2']. }
    destruct c; simpl.
    + apply wp_putc. { rewrite (heq_valid _ _ _ H2'), valid_hset. apply Vb; lia. } intros s3 H3.
      apply HQ. simpl. rewrite Nat.add_0_r. destruct Ok2 as [B2 [D1 [D2 D3]]]. split; [|rewrite !(hq_regs _ _ H3); simpl; auto].
      eapply (arr_basic_write1 arg (hp s2) _ i (moved_of x)); [exact B2 | rewrite D1; lia | apply moved_of_nonraw; auto | rewrite D3; exact H3].
    + apply wp_ret. apply HQ. simpl. rewrite Nat.add_0_r. exact Ok2.
    + apply wp_putc. { rewrite (heq_valid _ _ _ H2'), valid_hset. apply Vb; lia. } intros s3 H3.
      apply HQ. simpl. rewrite Nat.add_0_r. destruct Ok2 as [B2 [D1 [D2 D3]]]. split; [|rewrite !(hq_regs _ _ H3); simpl; auto].
      eapply (arr_basic_write1 arg (hp s2) _ i (moved_of x)); [exact B2 | rewrite D1; lia | apply moved_of_nonraw; auto | rewrite D3; exact H3].
  - destruct Hst as [Hj _].
    apply wp_bind. apply wp_take; auto.
    apply wp_bind. apply wp_take. { apply Vb; lia. } { rewrite <- C3. apply A4. lia. }
    apply wp_bind. apply wp_fallible; auto. intros s1 H1.
    apply wp_putc. { rewrite (heq_valid _ _ _ H1). apply Vb; lia. } intros s2 H2.
    apply HQ. simpl. rewrite Nat.add_0_r.
    assert (H2' : heq (hset (hp s) (b, j) (mem (hp s) arg)) (hp s2)) by (eapply heq_trans; [|exact H2]; apply heq_hset; auto).
    split; [|rewrite !(hq_regs _ _ H2'); simpl; auto]. eapply (arr_basic_write1 arg (hp s) _ j); [exact (proj1 Hok) | rewrite C1; lia | exact A7 | rewrite C3; exact H2'].
Qed.

Lemma steps_ok_cons : forall cnt cap stp r, steps_ok cnt cap (stp :: r) -> steps_ok cnt cap [stp] /\ steps_ok (cnt + pushes [stp]) cap r.
Proof.
  intros cnt cap stp r H. destruct stp; simpl in *; rewrite ?Nat.add_0_r; replace (cnt + 1) with (S cnt) by lia; intuition.
Qed.

Lemma wp_run_bsteps : forall c arg b cap l s cnt,
  okst arg b cap (hp s) cnt -> steps_ok cnt cap l ->
  wp (run_bsteps c arg l) s (fun _ s' => okst arg b cap (hp s') (cnt + pushes l))
     (fun s' => exists k, cnt <= k <= cnt + pushes l /\ okst arg b cap (hp s') k).
Proof.
  intros c arg b cap l. induction l as [|stp r IH]; intros s cnt Hok Hst; simpl.
  - apply wp_ret. rewrite Nat.add_0_r. exact Hok.
  - destruct (steps_ok_cons _ _ _ _ Hst) as [H1 H2].
    apply wp_bind. eapply wp_run_bstep; eauto.
    + intros s' H'. exists cnt. split. { destruct stp; simpl; lia. } eapply okst_heq; eauto.
    + intros s1 Ok1. eapply wp_mono. { apply IH; eauto. }
      * intros u s2 Ok2. simpl in Ok2. destruct stp; simpl in *; rewrite ?Nat.add_0_r in Ok2; try exact Ok2; replace (cnt + S (pushes r)) with (cnt + 1 + pushes r) by lia; exact Ok2.
      * intros s2 [k [Hk Ok2]]. exists k. split; auto. destruct stp; simpl in *; lia.
Qed.

Lemma steps_ok_app : forall l1 l2 cnt cap, steps_ok cnt cap l1 -> steps_ok (cnt + pushes l1) cap l2 -> steps_ok cnt cap (l1 ++ l2).
Proof.
  induction l1 as [|stp r IH]; intros l2 cnt cap H1 H2; simpl in *. { rewrite Nat.add_0_r in H2; auto. }
  destruct stp; simpl in *; intuition; apply IH; auto; try (replace (S cnt + pushes r) with (cnt + S (pushes r)) by lia; auto).
Qed.
Lemma pushes_app : forall l1 l2, pushes (l1 ++ l2) = pushes l1 + pushes l2.
Proof. induction l1 as [|stp r IH]; intros; simpl; auto. destruct stp; simpl; rewrite IH; auto. Qed.

Lemma ok_pushmoves : forall k a cnt cap, a < cnt -> cnt + k <= cap ->
  steps_ok cnt cap (map BPushMove (seq a k)) /\ pushes (map BPushMove (seq a k)) = k.
Proof.
  induction k; intros a cnt cap Ha Hc; simpl; auto.
  destruct (IHk (S a) (S cnt) cap ltac:(lia) ltac:(lia)) as [I1 I2]. repeat split; auto; lia.
Qed.
Lemma ok_pushcopies : forall k a cnt cap, cnt + k <= cap ->
  steps_ok cnt cap (map (fun _ => BPushCopy) (seq a k)) /\ pushes (map (fun _ => BPushCopy) (seq a k)) = k.
Proof.
  induction k; intros a cnt cap Hc; simpl; auto.
  destruct (IHk (S a) (S cnt) cap ltac:(lia)) as [I1 I2]. repeat split; auto; lia.
Qed.
Lemma ok_pairs : forall k a cnt cap, a < cnt -> cnt + k <= cap ->
  steps_ok cnt cap (flat_map (fun i => [BPushMove i; BAssignCopy i]) (seq a k)) /\
  pushes (flat_map (fun i => [BPushMove i; BAssignCopy i]) (seq a k)) = k.
Proof.
  induction k; intros a cnt cap Ha Hc; simpl; auto.
  destruct (IHk (S a) (S cnt) cap ltac:(lia) ltac:(lia)) as [I1 I2]. repeat split; auto; lia.
Qed.
Lemma ok_assignmoves : forall (f g : nat -> nat) idx cnt cap,
  Forall (fun i => f i < cnt /\ g i < cnt /\ f i <> g i) idx ->
  steps_ok cnt cap (map (fun i => BAssignMove (f i) (g i)) idx) /\ pushes (map (fun i => BAssignMove (f i) (g i)) idx) = 0.
Proof. induction 1 as [|i r [A [B C]] Hr [I1 I2]]; simpl; auto. Qed.
Lemma ok_assigncopies : forall idx cnt cap, Forall (fun j => j < cnt) idx ->
  steps_ok cnt cap (map BAssignCopy idx) /\ pushes (map BAssignCopy idx) = 0.
Proof. induction 1 as [|i r A Hr [I1 I2]]; simpl; auto. Qed.

Lemma insert_steps_ok : forall index count ic cap, 0 < count -> index <= ic -> ic + count <= cap ->
  steps_ok ic cap (insert_steps index count ic) /\ pushes (insert_steps index count ic) = count.
Proof.
  intros index count ic cap Hc Hi Hcap. unfold insert_steps. destruct (index + count <? ic) eqn:E.
  - apply Nat.ltb_lt in E.
    destruct (ok_pushmoves count (ic - count) ic cap ltac:(lia) ltac:(lia)) as [A1 A2].
    destruct (ok_assignmoves (fun i => i - 1) (fun i => i + count - 1) (rev (seq (S index) (ic - count - index))) (ic + count) cap) as [B1 B2].
    { apply Forall_forall. intros i Hin. apply in_rev in Hin. apply in_seq in Hin. lia. }
    destruct (ok_assigncopies (seq index count) (ic + count) cap) as [C1 C2].
    { apply Forall_forall. intros j Hin. apply in_seq in Hin. lia. }
    split.
    + apply steps_ok_app; auto. rewrite A2. apply steps_ok_app; auto. rewrite B2, Nat.add_0_r. auto.
    + rewrite !pushes_app, A2, B2, C2. lia.
  - apply Nat.ltb_ge in E.
    destruct (ok_pushcopies (index + count - ic) ic ic cap ltac:(lia)) as [A1 A2].
    destruct (ok_pairs (ic - index) index (index + count) cap ltac:(lia) ltac:(lia)) as [B1 B2].
    split.
    + apply steps_ok_app; auto. rewrite A2. replace (ic + (index + count - ic)) with (index + count) by lia. auto.
    + rewrite pushes_app, A2, B2. lia.
Qed.

Lemma remove_steps_ok : forall index count ic cap, 0 < count -> index + count <= ic ->
  steps_ok ic cap (remove_steps index count ic) /\ pushes (remove_steps index count ic) = 0.
Proof.
  intros. unfold remove_steps. apply (ok_assignmoves (fun i => i) (fun i => i - count)).
  apply Forall_forall. intros i Hin. apply in_seq in Hin. lia.
Qed.

(* Insert at a position (within the capacity): BASIC -- after an exception the array is valid, its count is between the old and
   the new one, every slot below the count is constructed, every slot above is raw *)
Theorem array_insert_basic_spec : forall c arg index count s,
  arr_basic arg (hp s) -> 0 < count -> index <= regs (hp s) rCount -> regs (hp s) rCount + count <= regs (hp s) rCap ->
  wp (array_insert_nogrow c arg index count) s
     (fun _ s' => arr_basic arg (hp s') /\ regs (hp s') rCount = regs (hp s) rCount + count)
     (fun s' => arr_basic arg (hp s') /\ regs (hp s) rCount <= regs (hp s') rCount <= regs (hp s) rCount + count).
Proof.
  intros c arg index count s B Hc Hi Hcap. unfold array_insert_nogrow. apply wp_bind, wp_getr.
  destruct (insert_steps_ok index count (regs (hp s) rCount) (regs (hp s) rCap) Hc Hi Hcap) as [S1 S2].
  eapply wp_mono. { eapply (wp_run_bsteps c arg (regs (hp s) rItems) (regs (hp s) rCap)); [|exact S1]. split; [exact B|repeat split; reflexivity]. }
  - intros u s' [B' [C1 _]]. rewrite S2 in C1. auto.
  - intros s' [k [Hk [B' [C1 _]]]]. rewrite S2 in Hk. split; auto. rewrite C1. exact Hk.
Qed.

(* Remove at a position: BASIC -- a failing move assignment leaves a valid array with the old count *)
Theorem array_remove_basic_spec : forall c arg index count s,
  arr_basic arg (hp s) -> 0 < count -> index + count <= regs (hp s) rCount ->
  wp (array_remove_at c arg index count) s
     (fun _ s' => arr_basic arg (hp s') /\ regs (hp s') rCount = regs (hp s) rCount - count)
     (fun s' => arr_basic arg (hp s') /\ regs (hp s') rCount = regs (hp s) rCount).
Proof.
  intros c arg index count s B Hc Hi. unfold array_remove_at. apply wp_bind, wp_getr.
  set (ic := regs (hp s) rCount) in *. set (b := regs (hp s) rItems). set (cap := regs (hp s) rCap).
  destruct (remove_steps_ok index count ic cap Hc Hi) as [S1 S2].
  apply wp_bind. eapply wp_mono. { eapply (wp_run_bsteps c arg b cap); [|exact S1]. split; [exact B|repeat split; reflexivity]. }
  - intros u s1 [B1 [C1 [C2 C3]]]. rewrite S2, Nat.add_0_r in C1. simpl.
    destruct B1 as [A1 A2 A3 A4 A5 [A6 [A7 A8]]].
    apply wp_bind, wp_getr. rewrite C3.
    apply wp_bind. apply wp_destroy_from.
    + intros j Hj. split. { unfold valid. simpl. rewrite <- C3, A1, A2. apply Nat.ltb_lt. lia. } rewrite <- C3. apply A4. lia.
    + intros j k Hj Hk Hjk E. inversion E. auto.
    + intros s2 [D1 D2 D3 D4]. apply wp_setr. intros s3 H3.
      assert (R3 : forall r, r <> rCount -> regs (hp s3) r = regs (hp s1) r).
      { intros r Hr. rewrite (hq_regs _ _ H3), regs_hsetr_other by auto. apply D4. }
      assert (Rc : regs (hp s3) rCount = ic - count) by (rewrite (hq_regs _ _ H3); apply regs_hsetr_same).
      assert (Ri : regs (hp s3) rItems = b) by (rewrite R3 by (unfold rItems, rCount; lia); auto).
      assert (Rp : regs (hp s3) rCap = cap) by (rewrite R3 by (unfold rCap, rCount; lia); auto).
      assert (M3 : forall l, mem (hp s3) l = mem (hp s2) l) by (intros; rewrite (hq_mem _ _ H3); reflexivity).
      split; auto. split; rewrite ?Rc, ?Ri, ?Rp.
      * rewrite (hq_alive _ _ H3). simpl. rewrite (ag_alive _ _ _ D3). rewrite <- C3. exact A1.
      * rewrite (hq_bsize _ _ H3). simpl. rewrite (ag_bsize _ _ _ D3). rewrite <- C3, <- C2. exact A2.
      * rewrite <- C2. lia.
      * intros i Hi'. rewrite M3, D2 by (intros j Hj E; inversion E; lia). rewrite <- C3. apply A4. lia.
      * intros i Hi1 Hi2. rewrite M3. destruct (le_lt_dec ic i).
        -- rewrite D2 by (intros j Hj E; inversion E; lia). rewrite <- C3. apply A5; lia.
        -- apply D1. lia.
      * rewrite (heq_valid _ _ _ H3), valid_hsetr, (agree_valid _ _ _ _ D3). rewrite M3, D2. { rewrite C3 in A8. auto. }
        intros j Hj E. apply A8. rewrite <- E. simpl. auto.
  - intros s1 [k [Hk [B1 [C1 _]]]]. rewrite S2 in Hk. split; auto. lia.
Qed.
