(* C03 -- proofs for Effects5.v (SegmentedArray with its pointer array) with the pointwise block view of Pointwise.v *)
From Coq Require Import ZArith Bool List Lia.
From C03 Require Import Effects EffectsProofs Effects2 Effects2Proofs Pointwise Effects5.
Import ListNotations.
Local Open Scope Z_scope.

Definition memr (x : Z) (rows : list (Z * nat)) : bool := existsb (fun rw => Z.eqb (fst rw) x) rows.

Lemma memr_false x rows : (forall rw, In rw rows -> fst rw <> x) -> memr x rows = false.
Proof.
  induction rows as [|r rows IH]; intros H; [reflexivity|]. simpl.
  destruct (Z.eqb_spec (fst r) x) as [E|E]; [exfalso; apply (H r (or_introl eq_refl) E)|]. simpl.
  apply IH. intros rw Hin. apply H. right. exact Hin.
Qed.
Lemma memr_in x rows : memr x rows = true -> In x (map fst rows).
Proof.
  induction rows as [|r rows IH]; intros H; [discriminate|]. simpl in H. apply orb_true_iff in H. destruct H as [H|H].
  - left. apply Z.eqb_eq in H. exact H.
  - right. apply IH. exact H.
Qed.

Section PW.
Variables mgr rsz : Z.
Variable f : loc -> bool.
Variable nb0 : Z.
Hypothesis Hcl : forall l, nb0 <= fst l -> f l = false.

(* rows with their own widths, in ANY position of the block view: dropping them one after the other *)
Lemma drop_rows_post2 : forall rows s (rest : bview) nb,
  st2 s (fun l => in_rows rows l || f l) (fun x => if memr x rows then Some (mgr, rsz) else rest x) nb ->
  NoDup (map fst rows) -> (forall rw, In rw rows -> nb0 <= fst rw) ->
  post (drop_rows mgr rsz rows) s (fun _ s' => st2 s' f (fun x => if memr x rows then None else rest x) nb) (fun _ => False).
Proof.
  induction rows as [|[r w] rows IH]; intros s rest nb H N Hge; simpl.
  - apply post_ret. exact H.
  - apply post_bind. unfold drop_row. cbn [fst snd].
    inversion N as [|x xs Hx Hxs]; subst.
    assert (Hr : nb0 <= r) by (apply (Hge (r, w)); left; reflexivity).
    assert (Hmr : memr r rows = false).
    { apply memr_false. intros rw Hin E. apply Hx. rewrite <- E. apply in_map. exact Hin. }
    assert (Hc : forall l : loc, fst l = r -> in_rows rows l || f l = false).
    { intros l El. rewrite (Hcl l) by lia. rewrite orb_false_r. apply in_rows_other. intros rw Hin E. apply Hx.
      rewrite <- El, <- E. apply in_map. exact Hin. }
    apply post_bind.
    eapply post_conseq; [apply (p_touch_post2 r s _ _ nb (mgr, rsz) H)| |auto].
    { cbv beta. simpl. rewrite Z.eqb_refl. reflexivity. }
    intros u1 s1 H1. apply post_bind.
    eapply post_conseq; [apply (om_destroy_n_post2 r w 0 s1 _ _ nb H1)| |auto].
    { intros k Hk. cbv beta. change (in_rows ((r, w) :: rows) (r, 0 + k)) with (inrng r 0 w (r, 0 + k) || in_rows rows (r, 0 + k)).
      rewrite (inrng_in r 0 w k Hk). reflexivity. }
    intros u2 s2 H2.
    eapply post_conseq; [apply (p_dealloc_post2 mgr r rsz s2 _ _ nb H2)| |auto].
    { cbv beta. simpl. rewrite Z.eqb_refl. reflexivity. }
    intros u3 s3 H3.
    eapply post_conseq; [apply (IH s3 (fun x => if Z.eqb r x then None else rest x) nb)| |auto].
    + eapply st2_ext; [| |exact H3].
      * intros l. cbv beta. change (in_rows ((r, w) :: rows) l) with (inrng r 0 w l || in_rows rows l).
        destruct (inrng_spec r 0 w l) as [[E _]|]; simpl; [|reflexivity]. symmetry. apply (Hc l E).
      * intros x. cbv beta. simpl. destruct (Z.eqb_spec r x) as [E|E]; simpl.
        -- subst x. rewrite Hmr. reflexivity.
        -- reflexivity.
    + exact Hxs.
    + intros rw Hin. apply Hge. right. exact Hin.
    + intros u4 s4 H4. eapply st2_ext; [intros l; reflexivity| |exact H4].
      intros x. cbv beta. simpl. destruct (Z.eqb_spec r x) as [E|E]; simpl; [subst x; rewrite Hmr; reflexivity|reflexivity].
Qed.

End PW.

Lemma nodup_app_l' {A} (l l' : list A) : NoDup (l ++ l') -> NoDup l.
Proof.
  induction l as [|a l IH]; intros N; [constructor|]. inversion N as [|x xs Hx Hxs]; subst. constructor.
  - intros Hin. apply Hx. apply in_or_app. left. exact Hin.
  - apply IH. exact Hxs.
Qed.

Lemma nodup_snoc {A} (l : list A) a : NoDup l -> ~ In a l -> NoDup (l ++ [a]).
Proof.
  induction l as [|x l IH]; intros N H; simpl.
  - constructor; [intros []|constructor].
  - inversion N as [|y ys Hy Hys]; subst. constructor.
    + intros Hin. apply in_app_or in Hin. destruct Hin as [Hin|[E|[]]]; [exact (Hy Hin)|]. apply H. left. symmetry. exact E.
    + apply IH; [exact Hys|]. intros Hin. apply H. right. exact Hin.
Qed.

Section SegArr2Proofs.
Variables mgr segsz psz : Z.
Variable segcapf : nat -> nat.
Variable pgrow : nat -> nat -> nat.
Variable f : loc -> bool.
Variable g0 : bview.
Variables nb0 src : Z.
Hypothesis Hcl : forall l, nb0 <= fst l -> f l = false.
Hypothesis Hg0 : forall b, nb0 <= b -> g0 b = None.
Hypothesis Hsr : forall x, 0 <= x -> f (src, x) = true.

(* all segments of the object, current one first; the ids the object owns *)
Definition segs (st : sa2) : list (Z * nat) := match s_cur st with Some c => c :: s_olds st | None => s_olds st end.
Definition pids (st : sa2) : list Z := match s_ptr st with Some (p, _) => [p] | None => [] end.
Definition own_ids (st : sa2) : list Z := map fst (segs st) ++ pids st.
Definition pview (st : sa2) : bview :=
  fun x => match s_ptr st with Some (p, cap) => if Z.eqb p x then Some (mgr, psz * Z.of_nat cap) else g0 x | None => g0 x end.
Definition sa_view (st : sa2) : bview := fun x => if memr x (segs st) then Some (mgr, segsz) else pview st x.

Definition sa2_inv (st : sa2) (s : rstate) (nb : Z) : Prop :=
  st2 s (fun l => in_rows (segs st) l || f l) (sa_view st) nb /\
  NoDup (own_ids st) /\ Forall (fun x => nb0 <= x < nb) (own_ids st) /\ nb0 <= nb.

Lemma fresh_not_owned st s nb : sa2_inv st s nb -> ~ In nb (own_ids st).
Proof. intros (_ & _ & G & _) Hin. rewrite Forall_forall in G. specialize (G nb Hin). lia. Qed.

Lemma ptr_reserve_spec st s nb :
  sa2_inv st s nb ->
  match ptr_reserve mgr psz pgrow st s with
  | ((_, Stuck), _) => False
  | ((st', _), s') => exists nb', nb <= nb' /\ sa2_inv st' s' nb' /\ s_olds st' = s_olds st /\ s_cur st' = s_cur st
  end.
Proof.
  intros I. pose proof I as (H & N & G & Hn). unfold ptr_reserve.
  destruct (s_ptr st) as [[p cap]|] eqn:Ep.
  - destruct (Nat.leb (S (segcount st)) cap).
    + exists nb. split; [lia|]. split; [exact I|split; reflexivity].
    + pose proof (p_alloc_post2 mgr (psz * Z.of_nat (pgrow cap (S (segcount st)))) s _ _ nb H) as A. unfold post in A.
      destruct (p_alloc mgr (psz * Z.of_nat (pgrow cap (S (segcount st)))) s) as [[np| |] s1]; [| |contradiction].
      2:{ exists nb. split; [lia|]. split; [|split; reflexivity]. split; [exact A|]. split; [exact N|split; [exact G|exact Hn]]. }
      destruct A as [En H1]. subst np.
      assert (Hp_own : In p (own_ids st)) by (unfold own_ids, pids; rewrite Ep; apply in_or_app; right; left; reflexivity).
      assert (Hp_rng : nb0 <= p < nb) by (rewrite Forall_forall in G; apply (G p Hp_own)).
      assert (Hp_seg : memr p (segs st) = false).
      { destruct (memr p (segs st)) eqn:E; [|reflexivity]. exfalso. apply memr_in in E.
        unfold own_ids, pids in N. rewrite Ep in N. apply NoDup_remove_2 in N. apply N. rewrite app_nil_r. exact E. }
      pose proof (p_dealloc_post2 mgr p (psz * Z.of_nat cap) s1 _ _ _ H1) as Dp.
      assert (Hgp : (fun x => if Z.eqb nb x then Some (mgr, psz * Z.of_nat (pgrow cap (S (segcount st)))) else sa_view st x) p
                    = Some (mgr, psz * Z.of_nat cap)).
      { cbv beta. destruct (Z.eqb_spec nb p); [lia|]. unfold sa_view, pview. rewrite Hp_seg, Ep, Z.eqb_refl. reflexivity. }
      specialize (Dp Hgp). unfold post in Dp.
      destruct (p_dealloc mgr p (psz * Z.of_nat cap) s1) as [[u| |] s2]; try contradiction.
      exists (nb + 1). split; [lia|]. split; [|split; reflexivity].
      set (st' := {| s_olds := s_olds st; s_cur := s_cur st; s_ptr := Some (nb, pgrow cap (S (segcount st))) |}).
      assert (Esegs : segs st' = segs st) by reflexivity.
      split; [|split; [|split; [|lia]]].
      * eapply st2_ext; [| |exact Dp]; [intros l; rewrite Esegs; reflexivity|].
        intros x. cbv beta. unfold sa_view, pview. rewrite Esegs. cbn [s_ptr st'].
        destruct (Z.eqb_spec p x) as [E|E].
        -- subst x. rewrite Hp_seg. destruct (Z.eqb_spec nb p); [lia|]. symmetry. apply Hg0. lia.
        -- destruct (Z.eqb_spec nb x) as [E2|E2].
           ++ subst x. rewrite (memr_false nb (segs st)); [reflexivity|].
              intros rw Hin Ef. apply (fresh_not_owned st s nb I). unfold own_ids. apply in_or_app. left. rewrite <- Ef. apply in_map. exact Hin.
           ++ destruct (memr x (segs st)); [reflexivity|]. rewrite Ep. destruct (Z.eqb_spec p x); [congruence|reflexivity].
      * unfold own_ids, pids in *. rewrite Esegs. cbn [s_ptr st']. rewrite Ep in N.
        apply NoDup_remove_1 in N. rewrite app_nil_r in N. apply nodup_snoc; [exact N|].
        intros Hin. apply (fresh_not_owned st s nb I). unfold own_ids. apply in_or_app. left. exact Hin.
      * unfold own_ids, pids in *. rewrite Esegs. cbn [s_ptr st']. rewrite Ep in G. apply Forall_app in G. destruct G as [G1 _].
        apply Forall_app. split; [eapply Forall_impl; [|exact G1]; intros a Ha; simpl in Ha; lia|constructor; [lia|constructor]].
  - pose proof (p_alloc_post2 mgr (psz * Z.of_nat (pgrow 0 (S (segcount st)))) s _ _ nb H) as A. unfold post in A.
    destruct (p_alloc mgr (psz * Z.of_nat (pgrow 0 (S (segcount st)))) s) as [[np| |] s1]; [| |contradiction].
    2:{ exists nb. split; [lia|]. split; [|split; reflexivity]. split; [exact A|]. split; [exact N|split; [exact G|exact Hn]]. }
    destruct A as [En H1]. subst np.
    exists (nb + 1). split; [lia|]. split; [|split; reflexivity].
    set (st' := {| s_olds := s_olds st; s_cur := s_cur st; s_ptr := Some (nb, pgrow 0 (S (segcount st))) |}).
    assert (Esegs : segs st' = segs st) by reflexivity.
    split; [|split; [|split; [|lia]]].
    + eapply st2_ext; [| |exact H1]; [intros l; rewrite Esegs; reflexivity|].
      intros x. cbv beta. unfold sa_view, pview. rewrite Esegs. cbn [s_ptr st']. rewrite Ep.
      destruct (Z.eqb_spec nb x) as [E2|E2]; [|reflexivity].
      subst x. rewrite (memr_false nb (segs st)); [reflexivity|].
      intros rw Hin Ef. apply (fresh_not_owned st s nb I). unfold own_ids. apply in_or_app. left. rewrite <- Ef. apply in_map. exact Hin.
    + unfold own_ids, pids in *. rewrite Esegs. cbn [s_ptr st']. rewrite Ep, app_nil_r in N. apply nodup_snoc; [exact N|].
      intros Hin. apply (fresh_not_owned st s nb I). unfold own_ids. apply in_or_app. left. exact Hin.
    + unfold own_ids, pids in *. rewrite Esegs. cbn [s_ptr st']. rewrite Ep, app_nil_r in G.
      apply Forall_app. split; [eapply Forall_impl; [|exact G]; intros a Ha; simpl in Ha; lia|constructor; [lia|constructor]].
Qed.

Lemma seg_not_ptr st s nb x : sa2_inv st s nb -> memr x (segs st) = true -> pview st x = g0 x /\ g0 x = None.
Proof.
  intros (_ & N & G & _) Hm. apply memr_in in Hm.
  assert (Hown : In x (own_ids st)) by (unfold own_ids; apply in_or_app; left; exact Hm).
  rewrite Forall_forall in G. specialize (G x Hown). split; [|apply Hg0; lia].
  unfold pview. destruct (s_ptr st) as [[p cap]|] eqn:Ep; [|reflexivity].
  destruct (Z.eqb_spec p x) as [E|E]; [|reflexivity]. exfalso. subst x.
  unfold own_ids, pids in N. rewrite Ep in N. apply NoDup_remove_2 in N. apply N. rewrite app_nil_r. exact Hm.
Qed.

Lemma new_segment_spec st s nb :
  sa2_inv st s nb ->
  match new_segment mgr segsz psz pgrow st s with
  | ((_, Stuck), _) => False
  | ((st', Val _), s') => exists nb', nb <= nb' /\ sa2_inv st' s' nb' /\ exists seg, s_cur st' = Some (seg, O)
  | ((st', Exc), s') => exists nb', nb <= nb' /\ sa2_inv st' s' nb'
  end.
Proof.
  intros I. unfold new_segment. pose proof (ptr_reserve_spec st s nb I) as R.
  destruct (ptr_reserve mgr psz pgrow st s) as [[st1 o] s1].
  destruct o as [u| |]; [| |contradiction].
  2:{ destruct R as (nb1 & Hle & I1 & _). exists nb1. split; [lia|exact I1]. }
  destruct R as (nb1 & Hle & I1 & Eo & Ec). pose proof I1 as (H1 & N1 & G1 & Hn1).
  pose proof (p_alloc_post2 mgr segsz s1 _ _ nb1 H1) as A. unfold post in A.
  destruct (p_alloc mgr segsz s1) as [[seg| |] s2]; [| |contradiction].
  2:{ exists nb1. split; [lia|]. split; [exact A|]. split; [exact N1|split; [exact G1|exact Hn1]]. }
  destruct A as [Es H2]. subst seg.
  exists (nb1 + 1). split; [lia|].
  set (st' := {| s_olds := match s_cur st1 with Some c => c :: s_olds st1 | None => s_olds st1 end;
                 s_cur := Some (nb1, 0%nat); s_ptr := s_ptr st1 |}).
  assert (Esegs : segs st' = (nb1, O) :: segs st1) by (unfold segs, st'; cbn [s_cur s_olds]; destruct (s_cur st1); reflexivity).
  assert (Hfresh : ~ In nb1 (own_ids st1)) by (apply (fresh_not_owned st1 s1 nb1 I1)).
  split; [|exists nb1; reflexivity].
  split; [|split; [|split; [|lia]]].
  - eapply st2_ext; [| |exact H2].
    + intros l. rewrite Esegs. change (in_rows ((nb1, O) :: segs st1) l) with (inrng nb1 0 0 l || in_rows (segs st1) l).
      rewrite inrng_0. reflexivity.
    + intros x. cbv beta. unfold sa_view. rewrite Esegs. simpl memr.
      assert (Ep : pview st' x = pview st1 x) by reflexivity. rewrite Ep.
      destruct (Z.eqb nb1 x); reflexivity.
  - unfold own_ids. rewrite Esegs. simpl map. assert (Ep : pids st' = pids st1) by reflexivity. rewrite Ep.
    simpl. constructor; [exact Hfresh|exact N1].
  - unfold own_ids. rewrite Esegs. simpl map. assert (Ep : pids st' = pids st1) by reflexivity. rewrite Ep.
    simpl. constructor; [lia|]. eapply Forall_impl; [|exact G1]. intros a Ha. simpl in Ha. lia.
Qed.

(* constructing one more item in the current segment *)
Lemma sa2_put st seg fill i s nb :
  0 <= i -> s_cur st = Some (seg, fill) -> sa2_inv st s nb ->
  match p_copy (seg, Z.of_nat fill) (src, i) s with
  | (Val _, s') => sa2_inv (mkS (s_olds st) (Some (seg, S fill)) (s_ptr st)) s' nb
  | (Exc, s') => sa2_inv st s' nb
  | (Stuck, _) => False
  end.
Proof.
  intros Hi Ec I. pose proof I as (H & N & G & Hn).
  assert (Esegs : segs st = (seg, fill) :: s_olds st) by (unfold segs; rewrite Ec; reflexivity).
  assert (Hseg_own : In seg (own_ids st)) by (unfold own_ids; rewrite Esegs; left; reflexivity).
  assert (Hseg : nb0 <= seg < nb) by (rewrite Forall_forall in G; apply (G seg Hseg_own)).
  assert (Hothers : forall rw, In rw (s_olds st) -> fst rw <> seg).
  { intros rw Hin E. unfold own_ids in N. rewrite Esegs in N. simpl in N. apply NoDup_cons_iff in N. destruct N as [Hx _].
    apply Hx. apply in_or_app. left. rewrite <- E. apply in_map. exact Hin. }
  assert (E1 : in_rows (segs st) (src, i) || f (src, i) = true) by (rewrite (Hsr i Hi); apply orb_true_r).
  assert (E2 : in_rows (segs st) (seg, Z.of_nat fill) || f (seg, Z.of_nat fill) = false).
  { rewrite (Hcl (seg, Z.of_nat fill)) by (simpl; lia). rewrite orb_false_r. rewrite Esegs.
    change (in_rows ((seg, fill) :: s_olds st) (seg, Z.of_nat fill))
      with (inrng seg 0 fill (seg, Z.of_nat fill) || in_rows (s_olds st) (seg, Z.of_nat fill)).
    rewrite (in_rows_other (s_olds st) (seg, Z.of_nat fill)) by (intros rw Hin; simpl; apply Hothers; exact Hin).
    destruct (inrng_spec seg 0 fill (seg, Z.of_nat fill)) as [[_ Eb]|]; [simpl in Eb; lia|reflexivity]. }
  pose proof (p_copy_post2 (seg, Z.of_nat fill) (src, i) s _ _ nb H E1 E2) as P. unfold post in P.
  destruct (p_copy (seg, Z.of_nat fill) (src, i) s) as [[u| |] s']; [| |contradiction].
  - set (st' := {| s_olds := s_olds st; s_cur := Some (seg, S fill); s_ptr := s_ptr st |}).
    assert (Esegs' : segs st' = (seg, S fill) :: s_olds st) by reflexivity.
    split; [|split; [|split; [|exact Hn]]].
    + eapply st2_ext; [| |exact P].
      * intros l. rewrite Esegs, Esegs'.
        change (in_rows ((seg, fill) :: s_olds st) l) with (inrng seg 0 fill l || in_rows (s_olds st) l).
        change (in_rows ((seg, S fill) :: s_olds st) l) with (inrng seg 0 (S fill) l || in_rows (s_olds st) l).
        pose proof (inrng_snoc seg 0 fill l) as E. rewrite Z.add_0_l in E. rewrite E.
        destruct (loc_eqb l (seg, Z.of_nat fill)), (inrng seg 0 fill l), (in_rows (s_olds st) l), (f l); reflexivity.
      * intros x. unfold sa_view. rewrite Esegs, Esegs'. reflexivity.
    + unfold own_ids. rewrite Esegs'. unfold own_ids in N. rewrite Esegs in N. exact N.
    + unfold own_ids. rewrite Esegs'. unfold own_ids in G. rewrite Esegs in G. exact G.
  - split; [exact P|]. split; [exact N|split; [exact G|exact Hn]].
Qed.

Lemma sa2_fill_spec : forall n i st s nb,
  0 <= i -> sa2_inv st s nb ->
  match sa2_fill mgr segsz psz segcapf pgrow src i n st s with
  | ((_, Stuck), _) => False
  | ((st', _), s') => exists nb', sa2_inv st' s' nb'
  end.
Proof.
  induction n as [|n IH]; intros i st s nb Hi I; simpl.
  - exists nb. exact I.
  - assert (Step : forall st1 s1 nb1 seg fill, sa2_inv st1 s1 nb1 -> s_cur st1 = Some (seg, fill) ->
              match (match p_copy (seg, Z.of_nat fill) (src, i) s1 with
                     | (Val _, s2) => sa2_fill mgr segsz psz segcapf pgrow src (i + 1) n (mkS (s_olds st1) (Some (seg, S fill)) (s_ptr st1)) s2
                     | (o, s2) => ((st1, o), s2)
                     end) with
              | ((_, Stuck), _) => False
              | ((st', _), s') => exists nb', sa2_inv st' s' nb'
              end).
    { intros st1 s1 nb1 seg fill I1 Ec. pose proof (sa2_put st1 seg fill i s1 nb1 Hi Ec I1) as P.
      destruct (p_copy (seg, Z.of_nat fill) (src, i) s1) as [[u| |] s2]; [| |contradiction].
      - apply (IH (i + 1) _ s2 nb1); [lia|exact P].
      - exists nb1. exact P. }
    destruct (s_cur st) as [[seg fill]|] eqn:Ec.
    + destruct (Nat.ltb fill (segcapf (length (s_olds st)))).
      * rewrite Ec. apply (Step st s nb seg fill I Ec).
      * pose proof (new_segment_spec st s nb I) as NS.
        destruct (new_segment mgr segsz psz pgrow st s) as [[st1 o] s1].
        destruct o as [u| |]; [| |contradiction].
        -- destruct NS as (nb1 & _ & I1 & (sg & Ec1)). rewrite Ec1. apply (Step st1 s1 nb1 sg O I1 Ec1).
        -- destruct NS as (nb1 & _ & I1). exists nb1. exact I1.
    + pose proof (new_segment_spec st s nb I) as NS.
      destruct (new_segment mgr segsz psz pgrow st s) as [[st1 o] s1].
      destruct o as [u| |]; [| |contradiction].
      * destruct NS as (nb1 & _ & I1 & (sg & Ec1)). rewrite Ec1. apply (Step st1 s1 nb1 sg O I1 Ec1).
      * destruct NS as (nb1 & _ & I1). exists nb1. exact I1.
Qed.

(* pvDecCount(0); pvDecCapacity(0): every item destroyed once, every segment returned once; the pointer array stays *)
Lemma sa2_clear_segs_post st s nb :
  sa2_inv st s nb ->
  post (sa2_clear_segs mgr segsz st) s (fun _ s' => sa2_inv (mkS [] None (s_ptr st)) s' nb) (fun _ => False).
Proof.
  intros I. pose proof I as (H & N & G & Hn).
  assert (Hgen : post (drop_rows mgr segsz (segs st)) s (fun _ s' => sa2_inv (mkS [] None (s_ptr st)) s' nb) (fun _ => False)).
  { assert (Nseg : NoDup (map fst (segs st))) by (unfold own_ids in N; apply (nodup_app_l' _ _ N)).
    assert (Gseg : forall rw, In rw (segs st) -> nb0 <= fst rw).
    { intros rw Hin. rewrite Forall_forall in G. assert (In (fst rw) (own_ids st)) by (unfold own_ids; apply in_or_app; left; apply in_map; exact Hin).
      specialize (G _ H0). lia. }
    eapply post_conseq; [apply (drop_rows_post2 mgr segsz f nb0 Hcl (segs st) s (pview st) nb H Nseg Gseg)| |auto].
    intros u s' H'. split; [|split; [|split; [|exact Hn]]].
    - eapply st2_ext; [intros l; reflexivity| |exact H'].
      intros x. cbv beta. unfold sa_view. cbn [segs s_cur s_olds]. simpl memr.
      destruct (memr x (segs st)) eqn:E.
      + destruct (seg_not_ptr st s nb x I E) as [E1 E2]. assert (Ep : pview {| s_olds := []; s_cur := None; s_ptr := s_ptr st |} x = pview st x) by reflexivity.
        rewrite Ep, E1, E2. reflexivity.
      + reflexivity.
    - unfold own_ids. cbn [segs s_cur s_olds]. simpl. unfold own_ids in N.
      clear -N. induction (map fst (segs st)) as [|a l IHl]; [exact N|]. simpl in N. inversion N; subst. apply IHl. assumption.
    - unfold own_ids. cbn [segs s_cur s_olds]. simpl. unfold own_ids in G. apply Forall_app in G. destruct G as [_ G2]. exact G2. }
  unfold sa2_clear_segs. unfold segs in Hgen. destruct (s_cur st) as [[seg fill]|] eqn:Ec.
  - simpl drop_rows in Hgen. unfold drop_row in Hgen. cbn [fst snd] in Hgen. exact Hgen.
  - apply post_bind. apply post_ret. exact Hgen.
Qed.

Lemma sa2_free_ptr_post st s nb :
  sa2_inv st s nb -> s_olds st = [] -> s_cur st = None ->
  post (sa2_free_ptr mgr psz st) s (fun _ s' => st2 s' f g0 nb) (fun _ => False).
Proof.
  intros (H & N & G & Hn) Eo Ec. unfold sa2_free_ptr.
  assert (Es : segs st = []) by (unfold segs; rewrite Ec, Eo; reflexivity).
  destruct (s_ptr st) as [[p cap]|] eqn:Ep.
  - assert (Hp : nb0 <= p < nb).
    { rewrite Forall_forall in G. apply (G p). unfold own_ids, pids. rewrite Ep. apply in_or_app. right. left. reflexivity. }
    eapply post_conseq; [apply (p_dealloc_post2 mgr p (psz * Z.of_nat cap) s _ _ nb H)| |auto].
    + unfold sa_view, pview. rewrite Es, Ep. simpl. rewrite Z.eqb_refl. reflexivity.
    + intros u s' H'. eapply st2_ext; [| |exact H'].
      * intros l. rewrite Es. reflexivity.
      * intros x. cbv beta. unfold sa_view, pview. rewrite Es, Ep. simpl.
        destruct (Z.eqb_spec p x) as [E|E]; [subst x; symmetry; apply Hg0; lia|reflexivity].
  - apply post_ret. eapply st2_ext; [| |exact H].
    + intros l. rewrite Es. reflexivity.
    + intros x. unfold sa_view, pview. rewrite Es, Ep. reflexivity.
Qed.

End SegArr2Proofs.

(* a world for the pointwise accounting: cells and blocks at and above the next id are untouched; endless source items *)
Definition pw_world (s : rstate) (f : loc -> bool) (g0 : bview) (src : Z) : Prop :=
  st2 s f g0 (nextb s) /\ (forall l, nextb s <= fst l -> f l = false) /\ (forall b, nextb s <= b -> g0 b = None) /\
  (forall x, 0 <= x -> f (src, x) = true).

(* AddBack with growth, n times, from ANY well-formed SegmentedArray state: segments AND the pointer array (replaced by a bigger
   one whenever it is full: allocate, free the old one - out of allocation order w.r.t. the segments), every schedule: the
   object stays well-formed (it owns exactly its segments and its current pointer array) whether or not an insertion threw *)
Theorem sa2_addback_growth_post mgr segsz psz segcapf pgrow f g0 nb0 src :
  (forall l, nb0 <= fst l -> f l = false) -> (forall b, nb0 <= b -> g0 b = None) -> (forall x, 0 <= x -> f (src, x) = true) ->
  forall n i st s nb, 0 <= i -> sa2_inv mgr segsz psz f g0 nb0 st s nb ->
  match sa2_fill mgr segsz psz segcapf pgrow src i n st s with
  | ((_, Stuck), _) => False
  | ((st', _), s') => exists nb', sa2_inv mgr segsz psz f g0 nb0 st' s' nb'
  end.
Proof. intros Hcl Hg0 Hsr. apply (sa2_fill_spec mgr segsz psz segcapf pgrow f g0 nb0 src Hcl Hg0 Hsr). Qed.

(* SegmentedArray(begin, end, memManager) with its pointer array, then ~SegmentedArray and ~mSegments: every schedule (failures of
   segment allocations, of pointer-array allocations, of item copies), every item count, any segment capacities, any pointer
   array growth policy: never Stuck, every item destroyed once, every segment and every pointer array returned exactly once *)
Theorem sa2_ctor_then_destroy_post mgr segsz psz segcapf pgrow src n s f g0 :
  pw_world s f g0 src ->
  post (sa2_ctor_then_destroy mgr segsz psz segcapf pgrow src n) s
       (fun _ s' => st2 s' f g0 (nextb s')) (fun s' => st2 s' f g0 (nextb s')).
Proof.
  intros (H & Hcl & Hg0 & Hsr). unfold sa2_ctor_then_destroy, post. set (nb := nextb s) in *.
  assert (I0 : sa2_inv mgr segsz psz f g0 nb (mkS [] None None) s nb).
  { split; [exact H|]. split; [constructor|]. split; [constructor|lia]. }
  pose proof (sa2_fill_spec mgr segsz psz segcapf pgrow f g0 nb src Hcl Hg0 Hsr n 0 _ s nb (Z.le_refl 0) I0) as F.
  destruct (sa2_fill mgr segsz psz segcapf pgrow src 0 n (mkS [] None None) s) as [[st o] s1].
  assert (Fin : forall st2' s2 nb2, sa2_inv mgr segsz psz f g0 nb st2' s2 nb2 ->
            match (sa2_clear_segs mgr segsz st2' ;;; sa2_free_ptr mgr psz st2') s2 with
            | (Stuck, _) => False
            | (_, s3) => st2 s3 f g0 (nextb s3)
            end).
  { intros st2' s2 nb2 I2.
    assert (P : post (sa2_clear_segs mgr segsz st2' ;;; sa2_free_ptr mgr psz st2') s2 (fun _ s3 => st2 s3 f g0 nb2) (fun _ => False)).
    { apply post_bind.
      eapply post_conseq; [apply (sa2_clear_segs_post mgr segsz psz f g0 nb Hcl Hg0 st2' s2 nb2 I2)| |auto].
      intros u s3 I3.
      assert (Ef : sa2_free_ptr mgr psz st2' = sa2_free_ptr mgr psz (mkS [] None (s_ptr st2'))) by reflexivity.
      rewrite Ef. apply (sa2_free_ptr_post mgr segsz psz f g0 nb Hg0 _ s3 nb2 I3 eq_refl eq_refl). }
    unfold post in P. destruct ((sa2_clear_segs mgr segsz st2';;; sa2_free_ptr mgr psz st2') s2) as [[u| |] s3]; try contradiction.
    destruct P as (A & B & C). split; [exact A|split; [exact B|reflexivity]]. }
  destruct o as [u| |]; [| |contradiction]; destruct F as [nb1 I1].
  - specialize (Fin st s1 nb1 I1).
    destruct ((sa2_clear_segs mgr segsz st;;; sa2_free_ptr mgr psz st) s1) as [[u'| |] s3]; try contradiction; exact Fin.
  - pose proof (sa2_clear_segs_post mgr segsz psz f g0 nb Hcl Hg0 st s1 nb1 I1) as C1. unfold post in C1.
    destruct (sa2_clear_segs mgr segsz st s1) as [[u'| |] s2]; try contradiction.
    specialize (Fin _ s2 nb1 C1).
    destruct ((sa2_clear_segs mgr segsz (mkS [] None (s_ptr st));;; sa2_free_ptr mgr psz (mkS [] None (s_ptr st))) s2) as [[u''| |] s3];
      try contradiction; exact Fin.
Qed.

(* closed form from the concrete world of Effects2Proofs.rows_init *)
Lemma rows_init_pw sch : pw_world (rows_init sch) rows_init_occ (fun _ => None) (-1).
Proof.
  destruct (rows_init_world sch) as ((A & B & C) & _ & Hcl & Hsr & _).
  split; [|split; [exact Hcl|split; [intros; reflexivity|exact Hsr]]].
  split; [exact A|split; [|exact C]]. intros b. rewrite B. reflexivity.
Qed.

Theorem sa2_ctor_any_schedule mgr segsz psz segcapf pgrow n sch :
  post (sa2_ctor_then_destroy mgr segsz psz segcapf pgrow (-1) n) (rows_init sch)
       (fun _ s' => back_to_start s') (fun s' => back_to_start s').
Proof.
  eapply post_conseq; [apply (sa2_ctor_then_destroy_post mgr segsz psz segcapf pgrow (-1) n _ _ _ (rows_init_pw sch))| |].
  - intros u s' (A & B & _). split; [apply bview_empty; exact B|exact A].
  - intros s' (A & B & _). split; [apply bview_empty; exact B|exact A].
Qed.
