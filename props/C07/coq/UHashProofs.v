(* C07 / the dumped UniqueHash member functions (Gen_Protocol.U_*, interpreted by UHashSem.v) are the hand model's u_* functions;
   frame theorem for the positions of a unique hash. *)
From Coq Require Import String List ZArith Bool Arith PeanoNat Lia Permutation.
From C07 Require Import TableSpec TableProofs MultiHash IndexModel IndexProofs ProtoSyntax UHashSem.
From C07 Require Gen_Protocol.
Import ListNotations.
Local Open Scope string_scope.

Definition env0 : uenv := fun _ => None.
Definition tags_nodup (u : uhash) : Prop := NoDup (map etag (uents u)).
Definition pos_occupied (u : uhash) : Prop := forall t, upadd u = Some t -> In t (map etag (uents u)).

Lemma deref_in u e : tags_nodup u -> In e (uents u) -> deref u (etag e) = eraw e.
Proof.
  intros Hn Hin. unfold deref. destruct (find (fun e0 => Nat.eqb (etag e0) (etag e)) (uents u)) as [e1|] eqn:Ef.
  - apply find_some in Ef as [Hin1 E1]. apply Nat.eqb_eq in E1.
    rewrite (NoDup_map_inj etag (uents u) e1 e Hn Hin1 Hin E1). reflexivity.
  - exfalso. apply (find_none _ _ Ef e) in Hin. rewrite Nat.eqb_refl in Hin. discriminate.
Qed.

Lemma deref_existsb u t raw : tags_nodup u -> In t (map etag (uents u)) ->
  existsb (fun e => Nat.eqb (etag e) t && Z.eqb (eraw e) raw) (uents u) = Z.eqb (deref u t) raw.
Proof.
  intros Hn Hin. apply in_map_iff in Hin as (e & <- & Hin). rewrite (deref_in u e Hn Hin).
  destruct (Z.eqb (eraw e) raw) eqn:E.
  - apply existsb_exists. exists e. rewrite Nat.eqb_refl, E. auto.
  - destruct (existsb _ (uents u)) eqn:Ex; [|reflexivity]. apply existsb_exists in Ex as (e1 & Hin1 & H1).
    apply andb_true_iff in H1 as [H1 H2]. apply Nat.eqb_eq in H1.
    rewrite (NoDup_map_inj etag (uents u) e1 e Hn Hin1 Hin H1) in H2. congruence.
Qed.

Section UGen.
Variables (ord : nat -> nat) (R : list Z -> list Z -> bool) (ct : Z -> row) (tag : nat).
Notation run := (urun ord R ct tag).

Theorem gen_RejectAdd0 u : run Gen_Protocol.U_RejectAdd0 u env0 = Some (u_reject_add u, None).
Proof. destruct u as [c es [t|] pr]; reflexivity. Qed.

Theorem gen_AcceptAdd0 u : run Gen_Protocol.U_AcceptAdd0 u env0 = Some (u_accept_add u, None).
Proof. destruct u as [c es pa pr]; reflexivity. Qed.

Theorem gen_AcceptAdd1 u raw : run Gen_Protocol.U_AcceptAdd1 u (uupd env0 "raw" (UVraw raw)) = Some (u_accept_add_raw u raw, None).
Proof. destruct u as [c es [t|] pr]; reflexivity. Qed.

Theorem gen_RejectRemove u : run Gen_Protocol.U_RejectRemove u env0 = Some (u_reject_remove u, None).
Proof. destruct u as [c es pa pr]; reflexivity. Qed.

Theorem gen_AcceptRemove u : run Gen_Protocol.U_AcceptRemove u env0 = Some (u_accept_remove u, None).
Proof. destruct u as [c es pa [t|]]; reflexivity. Qed.

Theorem gen_RejectAdd1 u raw : tags_nodup u -> pos_occupied u ->
  run Gen_Protocol.U_RejectAdd1 u (uupd env0 "raw" (UVraw raw)) = Some (u_reject_add_raw u raw, None).
Proof.
  intros Hn Hp. destruct u as [c es [t|] pr]; [|reflexivity].
  unfold u_reject_add_raw. cbn [upadd uents ucols uprem].
  pose proof (deref_existsb (mkU c es (Some t) pr) t raw Hn (Hp t eq_refl)) as Hd. cbn [uents] in Hd. rewrite Hd.
  unfold urun, Gen_Protocol.U_RejectAdd1.
  cbv -[deref u_remove_tag Z.eqb]. destruct (Z.eqb (deref _ t) raw); reflexivity.
Qed.

Lemma find_app_none {A} (p : A -> bool) l1 l2 : (forall y, In y l1 -> p y = false) -> find p (l1 ++ l2) = find p l2.
Proof. induction l1 as [|a l1 IH]; intros H; simpl; [reflexivity|]. rewrite (H a (or_introl eq_refl)). apply IH. intros y Hy. apply H. right. exact Hy. Qed.

Lemma deref_new u raw k : (forall e, In e (uents u) -> etag e <> tag) ->
  deref (add_entry ord tag u raw k) tag = raw.
Proof.
  intros Hf. unfold deref, add_entry, place, insert_at. cbn [uents].
  rewrite find_app_none.
  - cbn. rewrite Nat.eqb_refl. reflexivity.
  - intros y Hy. apply Nat.eqb_neq. apply Hf. rewrite <- (firstn_skipn (ord tag mod S (length (uents u))) (uents u)). apply in_or_app. left. exact Hy.
Qed.

Ltac unorm := cbv -[u_find deref add_entry u_remove_tag place keyc proj set_col Z.eqb Nat.eqb negb andb orb map uloop find etag eraw ekey]; cbn [andb orb negb].

Theorem gen_Add2 u raw old : tags_nodup u -> (forall e, In e (uents u) -> etag e <> tag) ->
  run Gen_Protocol.U_Add2 u (uupd (uupd env0 "raw" (UVraw raw)) "oldRaw" (UVraw old)) =
  Some (fst (u_add ord R ct u raw (Some old) tag), Some (UVraw (snd (u_add ord R ct u raw (Some old) tag)))).
Proof.
  intros Hn Hf. unfold u_add. destruct u as [c es pa pr]. cbn [ucols uents upadd uprem].
  unfold urun, Gen_Protocol.U_Add2. unorm.
  destruct (u_find R ct (mkU c es pa pr) (keyc ct c raw)) as [e|] eqn:Ef.
  - unorm. assert (Hin : In e es) by (unfold u_find in Ef; apply find_some in Ef; tauto).
    pose proof (deref_in (mkU c es pa pr) e Hn Hin) as Hd. unfold deref in *. cbn [uents] in *. rewrite Hd.
    destruct (Z.eqb (eraw e) old); unorm; unfold deref; cbn [uents]; rewrite ?Hd; reflexivity.
  - unorm. pose proof (deref_new (mkU c es pa pr) raw (keyc ct c raw) Hf) as Hd.
    unfold add_entry in *. cbn [ucols uents upadd uprem] in *. unfold deref in *. cbn [uents] in *. rewrite Hd. reflexivity.
Qed.

Theorem gen_AddMixed u raw c v : tags_nodup u -> (forall e, In e (uents u) -> etag e <> tag) ->
  run Gen_Protocol.U_AddMixed u (uupd env0 "hashMixedKey" (UVmixed raw c v)) =
  Some (fst (u_add_mixed ord R ct u raw c v tag), Some (UVraw (snd (u_add_mixed ord R ct u raw c v tag)))).
Proof.
  intros Hn Hf. unfold u_add_mixed. destruct u as [cs es pa pr]. cbn [ucols uents upadd uprem].
  unfold urun, Gen_Protocol.U_AddMixed. unorm.
  destruct (u_find R ct (mkU cs es pa pr) (proj cs (set_col c v (ct raw)))) as [e|] eqn:Ef.
  - unorm. assert (Hin : In e es) by (unfold u_find in Ef; apply find_some in Ef; tauto).
    pose proof (deref_in (mkU cs es pa pr) e Hn Hin) as Hd. unfold deref in *. cbn [uents] in *. rewrite Hd. reflexivity.
  - unorm. reflexivity.
Qed.

(* the linear fallback scan of PrepareRemove (4f7b624): the first entry, in iteration order, that stores raw at a position
   other than mPositionAdd *)
Definition scan_body : list pstmt :=
  match Gen_Protocol.U_PrepareRemove with
  | [_; SIf _ [SForC _ _ _ body] _] => body
  | _ => []
  end.

Lemma scan_loop raw t : forall es u env,
  upadd u = Some t -> env "raw" = Some (UVraw raw) -> (forall e, In e es -> deref u (etag e) = eraw e) ->
  exists env',
    uloop (uexec ord R ct tag scan_body) "iter" es u env =
    Some (match find (fun e => Z.eqb (eraw e) raw && negb (Nat.eqb (etag e) t)) es with
          | Some e2 => mkU (ucols u) (uents u) (upadd u) (Some (etag e2))
          | None => u
          end, env', FNext).
Proof.
  induction es as [|e es IH]; intros u env Hpa Hraw Hd; [exists env; reflexivity|].
  cbn [uloop find].
  set (env1 := uupd env "iter" (UVpos (Some (etag e)))).
  assert (E : uexec ord R ct tag scan_body u env1 =
              if Z.eqb (eraw e) raw && negb (Nat.eqb (etag e) t)
              then Some (mkU (ucols u) (uents u) (upadd u) (Some (etag e)), uupd env1 "pos" (UVpos (Some (etag e))), FBreak)
              else Some (u, uupd env1 "pos" (UVpos (Some (etag e))), FNext)).
  { unfold scan_body, Gen_Protocol.U_PrepareRemove. subst env1. destruct u as [cs ents pa pr]. cbn [upadd] in Hpa. subst pa.
    unorm. rewrite Hraw. unorm. rewrite (Hd e (or_introl eq_refl)).
    destruct (Z.eqb (eraw e) raw); unorm; [|reflexivity]. destruct (Nat.eqb (etag e) t); reflexivity. }
  rewrite E. destruct (Z.eqb (eraw e) raw && negb (Nat.eqb (etag e) t)).
  - eexists. reflexivity.
  - apply IH; [exact Hpa| |intros e1 H1; apply Hd; right; exact H1].
    subst env1. unfold uupd. cbn. exact Hraw.
Qed.

Theorem gen_PrepareRemove u raw : tags_nodup u -> uprem u = None ->
  run Gen_Protocol.U_PrepareRemove u (uupd env0 "raw" (UVraw raw)) = Some (u_prepare_remove true R ct u raw, None).
Proof.
  intros Hn Hpr. unfold u_prepare_remove. destruct u as [cs es pa pr]. cbn [ucols uents upadd uprem] in *. subst pr.
  unfold urun, Gen_Protocol.U_PrepareRemove. unorm.
  destruct pa as [a|]; unorm;
    (destruct (u_find R ct (mkU cs es _ None) (keyc ct cs raw)) as [e0|] eqn:Ef; unorm; [|reflexivity]); [|reflexivity].
  rewrite (Nat.eqb_sym (etag e0) a). destruct (Nat.eqb a (etag e0)) eqn:Ea; unorm; [|reflexivity].
  apply Nat.eqb_eq in Ea. subst a.
  match goal with |- context [uloop ?f "iter" es ?u1 ?e1] =>
    change (uloop f "iter" es u1 e1) with (uloop (uexec ord R ct tag scan_body) "iter" es u1 e1);
    destruct (scan_loop raw (etag e0) es u1 e1 eq_refl eq_refl) as (env' & E) end.
  { intros e He. unfold deref. cbn [uents]. apply (deref_in (mkU cs es (Some (etag e0)) None) e Hn He). }
  rewrite E. cbn [ucols uents upadd uprem]. destruct (find _ es); reflexivity.
Qed.

(* ---------------------------------------------------------------- frame: the positions of a unique hash
   every member function of UniqueHash that writes mHashSet keeps positions distinct and below the allocation bound; Add
   uses the fresh position `tag` *)
Definition upos_ok (n : nat) (u : uhash) : Prop :=
  NoDup (map etag (uents u)) /\ Forall (fun e => etag e < n) (uents u).

Lemma remove_tag_ok n t es : NoDup (map etag es) /\ Forall (fun e => etag e < n) es ->
  NoDup (map etag (u_remove_tag t es)) /\ Forall (fun e => etag e < n) (u_remove_tag t es).
Proof.
  intros [Hn Hf]. unfold u_remove_tag. split.
  - induction es as [|e es IH]; simpl; [constructor|]. inversion Hn; subst. inversion Hf; subst.
    destruct (negb (Nat.eqb (etag e) t)); [|auto]. simpl. constructor; [|auto].
    intros Hin. apply H1. apply in_map_iff in Hin as (x & Ex & Hx). apply filter_In in Hx as [Hx _]. apply in_map_iff. eauto.
  - rewrite Forall_forall in *. intros x Hx. apply filter_In in Hx as [Hx _]. auto.
Qed.

Lemma place_ok n (x : uent) es : n <= tag -> etag x = tag -> NoDup (map etag es) /\ Forall (fun e => etag e < n) es ->
  NoDup (map etag (place ord tag x es)) /\ Forall (fun e => etag e < S tag) (place ord tag x es).
Proof.
  intros Hle Hx [Hn Hf]. pose proof (place_perm ord tag x es) as P. split.
  - apply (Permutation_NoDup (l := map etag (x :: es))); [apply Permutation_map; symmetry; exact P|].
    simpl. constructor; [|exact Hn]. intros Hin. apply in_map_iff in Hin as (y & Ey & Hy).
    rewrite Forall_forall in Hf. specialize (Hf y Hy). lia.
  - rewrite Forall_forall in *. intros y Hy. apply (Permutation_in _ P) in Hy. destruct Hy as [<-|Hy]; [lia|specialize (Hf y Hy); lia].
Qed.

Inductive uop := UAdd (raw : Z) (old : option Z) | UAddMixed (raw : Z) (c : nat) (v : Z) | URejectAdd | URejectAddRaw (raw : Z)
               | UAcceptAdd | UAcceptAddRaw (raw : Z) | UPrepareRemove (fixu : bool) (raw : Z) | URejectRemove | UAcceptRemove.
Definition uapply (o : uop) (u : uhash) : uhash :=
  match o with
  | UAdd raw old => fst (u_add ord R ct u raw old tag)
  | UAddMixed raw c v => fst (u_add_mixed ord R ct u raw c v tag)
  | URejectAdd => u_reject_add u
  | URejectAddRaw raw => u_reject_add_raw u raw
  | UAcceptAdd => u_accept_add u
  | UAcceptAddRaw raw => u_accept_add_raw u raw
  | UPrepareRemove fixu raw => u_prepare_remove fixu R ct u raw
  | URejectRemove => u_reject_remove u
  | UAcceptRemove => u_accept_remove u
  end.

Theorem uniquehash_ops_frame o n u : n <= tag -> upos_ok n u -> upos_ok (S tag) (uapply o u).
Proof.
  intros Hle Hok.
  assert (Hw : upos_ok (S tag) u).
  { destruct Hok as [Hn Hf]. split; [exact Hn|]. rewrite Forall_forall in *. intros x Hx. specialize (Hf x Hx). lia. }
  assert (Hrm : forall t, upos_ok (S tag) (mkU (ucols u) (u_remove_tag t (uents u)) None (uprem u))).
  { intros t. unfold upos_ok. cbn [uents]. apply remove_tag_ok. exact Hw. }
  destruct o; cbn [uapply].
  - unfold u_add. destruct (u_find R ct u _) as [e|]; cbn [fst].
    + destruct old as [o|]; [destruct (Z.eqb (eraw e) o)|]; exact Hw.
    + unfold upos_ok. cbn [uents]. apply (place_ok n); [exact Hle|reflexivity|exact Hok].
  - unfold u_add_mixed. destruct (u_find R ct u _) as [e|]; cbn [fst]; [exact Hw|].
    unfold upos_ok. cbn [uents]. apply (place_ok n); [exact Hle|reflexivity|exact Hok].
  - unfold u_reject_add. destruct (upadd u); [apply Hrm|exact Hw].
  - unfold u_reject_add_raw. destruct (upadd u); [|exact Hw]. destruct (existsb _ _); [unfold upos_ok; cbn [uents]; apply remove_tag_ok; exact Hw|exact Hw].
  - exact Hw.
  - unfold u_accept_add_raw. destruct (upadd u) as [t|]; [|exact Hw]. unfold upos_ok. cbn [uents]. destruct Hw as [Hn Hf].
    assert (Em : map etag (map (fun e => if Nat.eqb (etag e) t then mkE (etag e) raw (ekey e) else e) (uents u)) = map etag (uents u)).
    { rewrite map_map. apply map_ext. intros e. destruct (Nat.eqb (etag e) t); reflexivity. }
    split; [rewrite Em; exact Hn|]. rewrite Forall_forall in *. intros x Hx. apply in_map_iff in Hx as (y & <- & Hy).
    specialize (Hf y Hy). destruct (Nat.eqb (etag y) t); exact Hf.
  - unfold u_prepare_remove. destruct (u_find R ct u _); exact Hw.
  - exact Hw.
  - unfold u_accept_remove. destruct (uprem u); [|exact Hw]. unfold upos_ok. cbn [uents]. apply remove_tag_ok. exact Hw.
Qed.

Theorem gen_reject_accept u :
  run Gen_Protocol.U_RejectAdd0 u env0 = Some (u_reject_add u, None) /\
  run Gen_Protocol.U_AcceptAdd0 u env0 = Some (u_accept_add u, None) /\
  run Gen_Protocol.U_RejectRemove u env0 = Some (u_reject_remove u, None) /\
  run Gen_Protocol.U_AcceptRemove u env0 = Some (u_accept_remove u, None) /\
  (forall raw, run Gen_Protocol.U_AcceptAdd1 u (uupd env0 "raw" (UVraw raw)) = Some (u_accept_add_raw u raw, None)) /\
  (forall raw, tags_nodup u -> pos_occupied u ->
     run Gen_Protocol.U_RejectAdd1 u (uupd env0 "raw" (UVraw raw)) = Some (u_reject_add_raw u raw, None)).
Proof.
  split; [apply gen_RejectAdd0|]. split; [apply gen_AcceptAdd0|]. split; [apply gen_RejectRemove|]. split; [apply gen_AcceptRemove|].
  split; [intros; apply gen_AcceptAdd1|intros; apply gen_RejectAdd1; assumption].
Qed.
End UGen.
