(* C13: frame conditions of the generated BucketOpen2N2 AddCrt / Remove (Gen_Open2N2_ops).  BucketOps.v shows that the
   decoded search bound and the count stay right; this file says what happens to every OTHER byte the lookup reads:
   AddCrt writes the new short hash into exactly one slot (the lowest free one), Remove moves the short hash of the
   lowest occupied slot into the vacated slot and marks that lowest slot empty; all remaining short-hash bytes and the
   mantissa byte mState[0] are untouched.  Hence a stored key keeps the short hash Bucket::Find compares against. *)
From Coq Require Import ZArith Bool List Lia.
From MomoCommon Require Import GenPrelude.
From C13 Require Gen_Open2N2 Gen_Open2N2_ops Gen_OpenN1 Gen_OpenN1_ops Open2N2_Proofs OpenN1_Proofs BucketOps.
Local Open Scope Z_scope.
Ltac Zify.zify_post_hook ::= Z.div_mod_to_equations.

Module O2F.
Import Gen_Open2N2_ops BucketOps.O2.
Section MC.
Variable mc : Z.
Hypothesis Hmc : 1 <= mc <= 3.

Ltac split_upd := unfold upd; repeat match goal with |- context [Z.eqb ?a ?b] => destruct (Z.eqb_spec a b) end; cbv beta iota.

Theorem add_frame hc lbc pr ni b : good mc b -> 0 <= cnt b < mc ->
  let b' := addP mc (hc, lbc, pr, ni) b in
  sh b' (mc - 1 - cnt b) = pvCalcShortHash (wrapU 64 hc) /\
  (forall i, i <> mc - 1 - cnt b -> sh b' i = sh b i) /\
  ms b' 0 = ms b 0 /\
  (forall i, i <> 1 -> ms b' i = ms b i).
Proof.
  intros Hg Hc. unfold addP, AddCrt. fold (cnt b).
  replace (Z.ltb (cnt b) mc) with true by (symmetry; apply Z.ltb_lt; lia).
  replace (wrapU 64 (wrapU 64 (mc - 1) - cnt b)) with (mc - 1 - cnt b)
    by (rewrite (wrapU_small 64 (mc - 1)) by lia; symmetry; apply wrapU_small; lia).
  cbn [ms sh hp]. split; [apply upd_same|]. split; [intros i Hi; apply upd_other; exact Hi|].
  split; [apply upd_other; lia|intros i Hi; apply upd_other; exact Hi].
Qed.

Theorem rem_frame idx x1 x2 x3 b b' : good mc b -> 0 < cnt b <= mc -> remP mc (idx, x1, x2, x3) b = Some b' ->
  mc - cnt b <= idx < mc /\
  (idx <> mc - cnt b -> sh b' idx = sh b (mc - cnt b)) /\
  sh b' (mc - cnt b) = 128 /\
  (forall i, i <> idx -> i <> mc - cnt b -> sh b' i = sh b i) /\
  ms b' 0 = ms b 0 /\
  (forall i, i <> 1 -> ms b' i = ms b i).
Proof.
  intros Hg Hc Hr. unfold remP in Hr.
  destruct (Z.leb_spec 0 idx) as [Hi0|]; [|discriminate]. destruct (Z.ltb_spec idx mc) as [Hi3|]; [|discriminate].
  cbn [andb] in Hr. unfold Remove in Hr. fold (cnt b) in Hr.
  rewrite (wrapU_small 64 (mc - cnt b)) in Hr by lia.
  destruct (Z.geb_spec idx (mc - cnt b)) as [Hge|]; [|discriminate].
  match type of Hr with Some ?t = _ => assert (Hb' : b' = t) by congruence end. clear Hr. subst b'.
  cbn [ms sh hp]. rewrite empty_sh_val.
  split; [lia|]. split; [intros Hne; rewrite upd_other by lia; apply upd_same|].
  split; [apply upd_same|]. split; [intros i H1 H2; rewrite !upd_other by lia; reflexivity|].
  split; [apply upd_other; lia|intros i Hi; apply upd_other; exact Hi].
Qed.

(* The short hashes of the stored items, as a multiset, change by exactly the added / removed one: stated through the
   sum over the slots of any weight function w with w 128 = 0 (128 = emptyShortHash). *)
Definition wsum (w : Z -> Z) (s : Z -> Z) : Z := w (s 0) + w (s 1) + w (s 2).

Theorem add_wsum w hc lbc pr ni b : mc = 3 -> good mc b -> 0 <= cnt b < mc -> w 128 = 0 ->
  wsum w (sh (addP mc (hc, lbc, pr, ni) b)) = wsum w (sh b) + w (pvCalcShortHash (wrapU 64 hc)).
Proof.
  intros Hm3 Hg Hc Hw. destruct (add_frame hc lbc pr ni b Hg Hc) as (Hn & Hf & _).
  destruct Hg as (_ & Hs). pose proof (Hs (mc - 1 - cnt b) ltac:(lia)) as Hfree.
  assert (He : sh b (mc - 1 - cnt b) = 128) by lia.
  unfold wsum. set (b' := addP mc (hc, lbc, pr, ni) b) in *. clearbody b'.
  assert (Hk : mc - 1 - cnt b = 0 \/ mc - 1 - cnt b = 1 \/ mc - 1 - cnt b = 2) by lia.
  destruct Hk as [Hk|[Hk|Hk]]; rewrite Hk in *; rewrite Hn;
    repeat match goal with |- context [sh b' ?j] => rewrite (Hf j) by lia end; rewrite ?He, ?Hw; lia.
Qed.

Theorem rem_wsum w idx x1 x2 x3 b b' : mc = 3 -> good mc b -> 0 < cnt b <= mc -> w 128 = 0 ->
  remP mc (idx, x1, x2, x3) b = Some b' ->
  wsum w (sh b') = wsum w (sh b) - w (sh b idx).
Proof.
  intros Hm3 Hg Hc Hw Hr. destruct (rem_frame idx x1 x2 x3 b b' Hg Hc Hr) as (Hi & Hmv & He & Hf & _).
  unfold wsum. set (l := mc - cnt b) in *.
  assert (Hl : l = 0 \/ l = 1 \/ l = 2) by lia. assert (Hx : idx = 0 \/ idx = 1 \/ idx = 2) by lia.
  destruct (Z.eq_dec idx l) as [Heq|Hne].
  - rewrite Heq in *. destruct Hl as [Hl|[Hl|Hl]]; rewrite Hl in *; rewrite He;
      repeat match goal with |- context [sh b' ?j] => rewrite (Hf j) by lia end; rewrite ?Hw; lia.
  - specialize (Hmv Hne).
    destruct Hl as [Hl|[Hl|Hl]]; destruct Hx as [Hx|[Hx|Hx]]; rewrite Hl, Hx in *; try lia; rewrite He, Hmv;
      repeat match goal with |- context [sh b' ?j] => rewrite (Hf j) by lia end; rewrite ?Hw; lia.
Qed.
(* the same for every maxCount in 1..3: the sum runs over the slots below maxCount only *)
Definition wsumN (w : Z -> Z) (s : Z -> Z) : Z :=
  w (s 0) + (if Z.ltb 1 mc then w (s 1) else 0) + (if Z.ltb 2 mc then w (s 2) else 0).

Theorem add_wsumN w hc lbc pr ni b : good mc b -> 0 <= cnt b < mc -> w 128 = 0 ->
  wsumN w (sh (addP mc (hc, lbc, pr, ni) b)) = wsumN w (sh b) + w (pvCalcShortHash (wrapU 64 hc)).
Proof.
  intros Hg Hc Hw. destruct (add_frame hc lbc pr ni b Hg Hc) as (Hn & Hf & _).
  destruct Hg as (_ & Hs). pose proof (Hs (mc - 1 - cnt b) ltac:(lia)) as Hfree.
  assert (He : sh b (mc - 1 - cnt b) = 128) by lia.
  unfold wsumN. set (b' := addP mc (hc, lbc, pr, ni) b) in *. clearbody b'.
  assert (Hk : mc - 1 - cnt b = 0 \/ mc - 1 - cnt b = 1 \/ mc - 1 - cnt b = 2) by lia.
  destruct (Z.ltb_spec 1 mc); destruct (Z.ltb_spec 2 mc); try lia;
  destruct Hk as [Hk|[Hk|Hk]]; try lia; rewrite Hk in *; rewrite Hn;
    repeat match goal with |- context [sh b' ?j] => rewrite (Hf j) by lia end; rewrite ?He, ?Hw; lia.
Qed.

Theorem rem_wsumN w idx x1 x2 x3 b b' : good mc b -> 0 < cnt b <= mc -> w 128 = 0 ->
  remP mc (idx, x1, x2, x3) b = Some b' ->
  wsumN w (sh b') = wsumN w (sh b) - w (sh b idx).
Proof.
  intros Hg Hc Hw Hr. destruct (rem_frame idx x1 x2 x3 b b' Hg Hc Hr) as (Hi & Hmv & He & Hf & _).
  unfold wsumN. remember (mc - cnt b) as l eqn:Hl0.
  assert (Hl : l = 0 \/ l = 1 \/ l = 2) by lia. assert (Hx : idx = 0 \/ idx = 1 \/ idx = 2) by lia.
  destruct (Z.ltb_spec 1 mc); destruct (Z.ltb_spec 2 mc); try lia;
  destruct (Z.eq_dec idx l) as [Heq|Hne];
  [ subst idx; destruct Hl as [Hl|[Hl|Hl]]; try lia; rewrite Hl in *; rewrite He;
      repeat match goal with |- context [sh b' ?j] => rewrite (Hf j) by lia end; rewrite ?Hw; lia
  | specialize (Hmv Hne);
    destruct Hl as [Hl|[Hl|Hl]]; destruct Hx as [Hx|[Hx|Hx]]; try lia; rewrite Hl, Hx in *; try lia; rewrite He, Hmv;
      repeat match goal with |- context [sh b' ?j] => rewrite (Hf j) by lia end; rewrite ?Hw; lia
  | subst idx; destruct Hl as [Hl|[Hl|Hl]]; try lia; rewrite Hl in *; rewrite He;
      repeat match goal with |- context [sh b' ?j] => rewrite (Hf j) by lia end; rewrite ?Hw; lia
  | specialize (Hmv Hne);
    destruct Hl as [Hl|[Hl|Hl]]; destruct Hx as [Hx|[Hx|Hx]]; try lia; rewrite Hl, Hx in *; try lia; rewrite He, Hmv;
      repeat match goal with |- context [sh b' ?j] => rewrite (Hf j) by lia end; rewrite ?Hw; lia
  | subst idx; destruct Hl as [Hl|[Hl|Hl]]; try lia; rewrite Hl in *; rewrite He;
      repeat match goal with |- context [sh b' ?j] => rewrite (Hf j) by lia end; rewrite ?Hw; lia
  | specialize (Hmv Hne);
    destruct Hl as [Hl|[Hl|Hl]]; destruct Hx as [Hx|[Hx|Hx]]; try lia; rewrite Hl, Hx in *; try lia; rewrite He, Hmv;
      repeat match goal with |- context [sh b' ?j] => rewrite (Hf j) by lia end; rewrite ?Hw; lia ].
Qed.
End MC.

(* premises are satisfiable: one AddCrt on the empty <.,3,.> bucket, then Remove of that item *)
Example frame_witness :
  let b0 := empty 3 in let b1 := addP 3 (12345, 4, 1, 0) b0 in
  good 3 b0 /\ cnt b0 = 0 /\ cnt b1 = 1 /\ sh b1 2 = pvCalcShortHash (wrapU 64 12345) /\
  exists b2, remP 3 (2, 0, 0, 0) b1 = Some b2 /\ sh b2 2 = 128.
Proof.
  cbv zeta. pose proof (empty_good 3) as (Hg & Hc & _).
  split; [exact Hg|]. split; [exact Hc|]. split; [vm_compute; reflexivity|]. split; [vm_compute; reflexivity|].
  eexists. split; [vm_compute; reflexivity|]. vm_compute. reflexivity.
Qed.
End O2F.

(* ------------------------------------------------------------------ OpenN1<maxCount, reverse> / Open8
   Here the state byte lives in the slot of the LAST item (it is overwritten by that item's short hash when the bucket
   becomes full), so the frame is stated over item numbers: items 0 .. count-1 live at pos 0 .. pos (count-1). *)
Module N1F.
Import Gen_OpenN1_ops BucketOps.N1.
Section MC.
Variable rv : bool.
Variable mc : Z.
Hypothesis Hmc : 1 <= mc <= 7.

Ltac split_upd := unfold upd; repeat match goal with |- context [Z.eqb ?a ?b] => destruct (Z.eqb_spec a b) end; cbv beta iota.

Theorem add_frame hc x1 x2 ni d : good rv mc d -> 0 <= cnt rv mc d < mc ->
  let d' := addP rv mc (hc, x1, x2, ni) d in
  d' (pos rv mc (cnt rv mc d)) = ptCalcShortHash (wrapU 64 hc) /\
  (forall i, 0 <= i < cnt rv mc d -> d' (pos rv mc i) = d (pos rv mc i)) /\
  (forall j, j < 0 \/ mc <= j -> d' j = d j).
Proof.
  intros Hg Hc. pose proof Hg as (He & H0).
  pose proof (cnt_val rv mc Hmc d Hg) as Hcv. pose proof (sp_range rv mc Hmc) as Hsp.
  pose proof (pos_range rv mc (cnt rv mc d) Hc) as Hpr.
  pose proof (pos_sp rv mc (cnt rv mc d) Hc) as Hps.
  unfold addP, AddCrt. fold (cnt rv mc d).
  replace (Z.ltb (cnt rv mc d) mc) with true by (symmetry; apply Z.ltb_lt; lia).
  set (shv := ptCalcShortHash (wrapU 64 hc)) in *.
  cbv beta iota zeta delta [emptyShortHash]. rewrite !(sp_gen rv mc Hmc). rewrite (pos_gen rv mc Hmc (cnt rv mc d)) by lia.
  rewrite (w64 (cnt rv mc d + 1)) by (change (2 ^ 32) with 4294967296; lia).
  set (c := cnt rv mc d) in *. clearbody c shv.
  destruct (Z.ltb_spec (c + 1) mc) as [Hnf|Hf].
  - split; [|split].
    + rewrite upd_other by lia. apply upd_same.
    + intros i Hi. pose proof (pos_sp rv mc i ltac:(lia)) as Hpi.
      assert (Hne : pos rv mc i <> pos rv mc c) by (unfold pos; destruct rv; lia).
      rewrite upd_other by lia. apply upd_other. exact Hne.
    + intros j Hj. rewrite !upd_other by lia. reflexivity.
  - split; [|split].
    + apply upd_same.
    + intros i Hi. assert (Hne : pos rv mc i <> pos rv mc c) by (unfold pos; destruct rv; lia).
      apply upd_other. exact Hne.
    + intros j Hj. rewrite upd_other by lia. reflexivity.
Qed.

Lemma rem_shape idx0 x1 x2 x3 d d' : good rv mc d -> 0 < cnt rv mc d <= mc -> remP rv mc (idx0, x1, x2, x3) d = Some d' ->
  0 <= wrapU 64 idx0 < cnt rv mc d /\
  exists v, d' = upd (upd (upd d (pos rv mc (wrapU 64 idx0)) (d (pos rv mc (cnt rv mc d - 1)))) (pos rv mc (cnt rv mc d - 1)) 248) (sp rv mc) v.
Proof.
  intros Hg Hc Hr. pose proof Hg as (He & H0).
  unfold remP, Remove in Hr. fold (cnt rv mc d) in Hr.
  pose proof (wrapU_range 64 idx0 ltac:(lia)) as Hidx. set (idx := wrapU 64 idx0) in *.
  destruct (Z.ltb_spec idx (cnt rv mc d)) as [Hlt|]; [|discriminate].
  cbv beta iota zeta delta [emptyShortHash] in Hr. rewrite !(sp_gen rv mc Hmc) in Hr.
  rewrite (w64 (cnt rv mc d - 1)) in Hr by (change (2 ^ 32) with 4294967296; lia).
  rewrite (pos_gen rv mc Hmc idx) in Hr by lia. rewrite !(pos_gen rv mc Hmc (cnt rv mc d - 1)) in Hr by lia.
  split; [lia|].
  destruct (Z.ltb (cnt rv mc d) mc);
    match type of Hr with Some (upd _ _ ?v) = _ => exists v end; congruence.
Qed.

Theorem rem_frame idx0 x1 x2 x3 d d' : good rv mc d -> 0 < cnt rv mc d <= mc -> remP rv mc (idx0, x1, x2, x3) d = Some d' ->
  let idx := wrapU 64 idx0 in
  0 <= idx < cnt rv mc d /\
  (idx < cnt rv mc d - 1 -> d' (pos rv mc idx) = d (pos rv mc (cnt rv mc d - 1))) /\
  (forall i, 0 <= i < cnt rv mc d - 1 -> i <> idx -> d' (pos rv mc i) = d (pos rv mc i)) /\
  (forall j, j < 0 \/ mc <= j -> d' j = d j).
Proof.
  intros Hg Hc Hr. destruct (rem_shape idx0 x1 x2 x3 d d' Hg Hc Hr) as (Hidx & v & Hd'). clear Hr.
  cbv zeta. generalize dependent (wrapU 64 idx0). intros idx Hidx Hd'. subst d'.
  pose proof (sp_range rv mc Hmc) as Hsp.
  generalize dependent (cnt rv mc d). intros c Hc Hidx.
  assert (Hinj : forall i j, pos rv mc i = pos rv mc j <-> i = j) by (intros i j; unfold pos; destruct rv; lia).
  pose proof (pos_range rv mc idx ltac:(lia)) as Hpi. pose proof (pos_range rv mc (c - 1) ltac:(lia)) as Hpl.
  pose proof (pos_sp rv mc idx ltac:(lia)) as Hsi. pose proof (pos_sp rv mc (c - 1) ltac:(lia)) as Hsl.
  split; [lia|]. split; [|split].
  - intros Hlast. pose proof (Hinj idx (c - 1)) as Hi1.
    rewrite upd_other by lia. rewrite upd_other by lia. apply upd_same.
  - intros i Hi Hne. pose proof (pos_sp rv mc i ltac:(lia)) as Hpsi. pose proof (pos_range rv mc i ltac:(lia)) as Hpri.
    pose proof (Hinj i (c - 1)) as Hi1. pose proof (Hinj i idx) as Hi2.
    rewrite upd_other by lia. rewrite upd_other by lia. apply upd_other. lia.
  - intros j Hj. rewrite !upd_other by lia. reflexivity.
Qed.
End MC.

(* premises are satisfiable: Open8 (= OpenN1<7, false>): two AddCrt on the empty bucket, then Remove of item 0 *)
Example frame_witness :
  let d0 := pvSetEmpty 7 (fun _ => 0) in
  let d1 := addP false 7 (12345, 0, 0, 0) d0 in let d2 := addP false 7 (2 ^ 63 + 77, 0, 0, 0) d1 in
  good false 7 d0 /\ cnt false 7 d0 = 0 /\ cnt false 7 d2 = 2 /\
  exists d3, remP false 7 (0, 0, 0, 0) d2 = Some d3 /\ d3 (pos false 7 0) = d2 (pos false 7 1) /\ cnt false 7 d3 = 1.
Proof.
  cbv zeta. pose proof (empty_good false 7 ltac:(lia) (fun _ => 0)) as (Hg & Hc & _).
  split; [exact Hg|]. split; [exact Hc|]. split; [vm_compute; reflexivity|].
  eexists. split; [vm_compute; reflexivity|]. split; vm_compute; reflexivity.
Qed.
End N1F.
