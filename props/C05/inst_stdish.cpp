// instantiation TU for the AST facts of momo::stdish::vector (C05): which Array operation each member forwards to
#include "momo/stdish/vector.h"
namespace momo {
inline void c05_use_stdish(stdish::vector<uint64_t>& v, const uint64_t& item)
{
	v.insert(v.cbegin(), 1, item); v.insert(v.cbegin(), item); { uint64_t t = 1; v.insert(v.cbegin(), std::move(t)); }
	v.erase(v.cbegin(), v.cend()); v.erase(v.cbegin()); v.push_back(item); { uint64_t t = 1; v.push_back(std::move(t)); }
	v.resize(1, item); v.resize(1); v.assign(1, item); v.reserve(1); v.shrink_to_fit(); v.clear(); v.pop_back();
}
}
