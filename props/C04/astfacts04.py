"""C04 - facts read off the clang AST of the current headers (T-gen, "AST facts") for the catch blocks in which this project's FIXED
exception-safety defects of property C04 lived.  Written to coq/Gen_C04Facts.v on every run; coq/FactsTie.v derives the parameters of the
hand model's constructors from them and states the theorems AT THE GENERATED VALUES, so that reverting a fix changes the generated file and
the theorem about the real code no longer holds (prove stage broken).

  hashset_copy_catch / hashset_ilist_catch      catch (...) of HashSet(const HashSet&, MemManager) / HashSet(initializer_list, ...)     806b9fe
  treeset_copy_catch / treeset_ilist_catch      the same for TreeSet                                                                    806b9fe
  hashset_copy_delegates / treeset_copy_delegates   the copy constructor delegates to another constructor (=> ~X() runs after the catch)
  datatable_fill_catch                          outer catch (...) of DataTable::pvFill                                                  91ea186
  multimap_copy_row / _try / _catch             body of the row loop of HashMultiMap(const HashMultiMap&, MemManager)                   84c9298
  relocexec_body / _try / _loop / _catch        ObjectManager::pvRelocateExec(.., false_type): copy loop, executor, handler, final destroy   mutant M3

The Walker (statement vocabulary) and the selection of the constructors are COPIED from props/C03/astfacts.py (C03's growth round; the
"delegates" flag follows props/C14's Gen_CtorCatch) so that C04 does not depend on another property's files at run time.
An unexpected shape raises TranslationError (regen stage broken)."""
import json, os, sys, hashlib, concurrent.futures


def _tools(root):
    p = os.path.join(root, 'tools')
    if p not in sys.path:
        sys.path.insert(0, p)
    import cxx2coq
    return cxx2coq


class Walker:
    def __init__(self, cx):
        self.cx = cx
        self.E = cx.TranslationError

    def strip(self, n):
        sk = self.cx.skip_wrappers
        n = sk(n)
        while n.get('kind') in ('ImplicitCastExpr', 'ParenExpr', 'CXXBindTemporaryExpr', 'MaterializeTemporaryExpr', 'ExprWithCleanups',
                                'CXXStaticCastExpr', 'CXXFunctionalCastExpr', 'CXXConstructExpr') and n.get('inner') and \
                (n.get('kind') != 'CXXConstructExpr' or len(n['inner']) == 1):
            n = sk(n['inner'][0])
        return n

    def path(self, n):
        """a.b.c for member / variable expressions; 'this' for the implicit object"""
        n = self.strip(n)
        k = n.get('kind')
        if k == 'CXXThisExpr':
            return 'this'
        if k == 'DeclRefExpr':
            return n['referencedDecl']['name']
        if k == 'MemberExpr':
            base = self.path(n['inner'][0]) if n.get('inner') else 'this'
            return n['name'] if base == 'this' else base + '.' + n['name']
        if k == 'UnaryOperator' and n.get('opcode') == '*':
            return self.path(n['inner'][0])
        if k in ('CXXMemberCallExpr', 'CallExpr', 'CXXOperatorCallExpr'):
            return self.call_name(n) + '()'
        return '?' + str(k)

    def call_name(self, n):
        c = self.strip(n['inner'][0])
        if c.get('kind') == 'MemberExpr':
            base = self.path(c['inner'][0]) if c.get('inner') else 'this'
            return c['name'] if base == 'this' else base + '.' + c['name']
        if c.get('kind') == 'DeclRefExpr':
            return c['referencedDecl']['name']
        return c.get('name') or '?'

    def is_null(self, n):
        return '"kind": "CXXNullPtrLiteralExpr"' in json.dumps(n)

    def stmt(self, st):
        """one statement -> Coq constructor text (None for assertions)"""
        if self.cx.is_assert_stmt(st):
            return None
        n = self.strip(st)
        k = n.get('kind')
        q = lambda s: '"%s"' % s
        if k == 'CXXThrowExpr':
            return 'SRethrow' if not n.get('inner') else 'SOther "throw"'
        if k == 'ReturnStmt':
            return 'SReturn'
        if k == 'BinaryOperator' and n.get('opcode') == '=':
            if self.is_null(n['inner'][1]):
                return 'SNull %s' % q(self.path(n['inner'][0]))
            return 'SAssign %s %s' % (q(self.path(n['inner'][0])), q(self.path(n['inner'][1])))
        if k in ('CXXMemberCallExpr', 'CallExpr', 'CXXOperatorCallExpr'):
            nm = self.call_name(n)
            args = [self.path(a) for a in n['inner'][1:]]
            if nm == 'swap' and len(args) == 2:
                return 'SSwap %s' % q(args[0])
            if '.' in nm:
                obj, f = nm.rsplit('.', 1)
                return 'SCallOn %s %s' % (q(obj), q(f))
            return 'SCall %s' % q(nm)
        if k == 'DeclStmt':
            v = [x for x in n['inner'] if x.get('kind') == 'VarDecl']
            if len(v) == 1:
                init = [x for x in v[0].get('inner', []) if isinstance(x, dict) and x.get('kind')]
                how = '-'
                if init:
                    i0 = self.strip(init[0])
                    if i0.get('kind') in ('CXXMemberCallExpr', 'CallExpr'):
                        how = self.call_name(i0)
                    elif i0.get('kind') == 'CXXConstructExpr':
                        how = 'ctor'
                    else:
                        how = self.path(i0)
                return 'SDecl %s %s' % (q(v[0]['name']), q(how))
        if k == 'IfStmt':
            return 'SIf'
        if k == 'CXXTryStmt':
            return 'STry'
        if k in ('CXXForRangeStmt', 'ForStmt', 'WhileStmt'):
            return 'SLoop'
        return 'SOther %s' % q(str(k))

    def stmts(self, compound):
        inner = compound.get('inner', []) if compound.get('kind') == 'CompoundStmt' else [compound]
        out = [self.stmt(s) for s in inner]
        return [o for o in out if o is not None]

    def find_all(self, n, pred, acc=None):
        if acc is None:
            acc = []
        if isinstance(n, dict):
            if pred(n):
                acc.append(n)
            for x in n.get('inner', []) or []:
                self.find_all(x, pred, acc)
        return acc

    def body(self, decl):
        b = [x for x in decl.get('inner', []) if x.get('kind') == 'CompoundStmt']
        if len(b) != 1:
            raise self.E('no body for %s' % decl.get('name'))
        return b[0]

    def catch_of(self, decl, what):
        cs = self.find_all(decl, lambda n: n.get('kind') == 'CXXCatchStmt')
        if len(cs) != 1:
            raise self.E('%s: expected exactly one catch block, found %d' % (what, len(cs)))
        comp = [x for x in cs[0].get('inner', []) if x.get('kind') == 'CompoundStmt']
        if len(comp) != 1:
            raise self.E('%s: catch block has no compound statement' % what)
        return self.stmts(comp[0])


def _dump(cx, repo, tu, part, flt):
    cfg = {'tu': tu, 'filter': flt, 'includes': [os.path.join(repo, 'include')], 'defines': ['FACTS_PART=%d' % part]}
    return cx.load_objs(cx.dump_ast(cfg, repo))


def _ctors(spec, name):
    return [m for m in spec.get('inner', []) if m.get('kind') == 'CXXConstructorDecl' and any(y.get('kind') == 'CompoundStmt' for y in m.get('inner', []))]


def _has_param(decl, tsub):
    return any(p.get('kind') == 'ParmVarDecl' and tsub in p.get('type', {}).get('qualType', '') for p in decl.get('inner', []))


def facts(tu, repo, root='/verif'):
    cx = _tools(root)
    W = Walker(cx)
    E = cx.TranslationError
    F = {}
    with concurrent.futures.ThreadPoolExecutor(max_workers=5) as ex:
        jobs = {1: ex.submit(_dump, cx, repo, tu, 1, 'HashSet'), 2: ex.submit(_dump, cx, repo, tu, 2, 'TreeSet'),
                3: ex.submit(_dump, cx, repo, tu, 3, 'HashMultiMap'), 4: ex.submit(_dump, cx, repo, tu, 4, 'DataTable'),
                5: ex.submit(_dump, cx, repo, tu, 5, 'ObjectManager')}
        objs = {k: v.result() for k, v in jobs.items()}

    def delegates(c):
        return 'true' if any(x.get('kind') == 'CXXCtorInitializer' and not x.get('anyInit') and not x.get('baseInit')
                             and '"kind": "CXXConstructExpr"' in json.dumps(x) for x in c.get('inner', [])) else 'false'

    def ctor_catches(spec, cls):
        cp = [c for c in _ctors(spec, cls) if _has_param(c, 'const ') and _has_param(c, cls) and not _has_param(c, 'initializer_list')
              and W.find_all(c, lambda n: n.get('kind') == 'CXXCatchStmt')]
        il = [c for c in _ctors(spec, cls) if _has_param(c, 'initializer_list') and W.find_all(c, lambda n: n.get('kind') == 'CXXCatchStmt')]
        if len(cp) != 1 or len(il) != 1:
            raise E('%s: copy / initializer-list constructors with a catch block: found %d / %d' % (cls, len(cp), len(il)))
        return W.catch_of(cp[0], cls + ' copy constructor'), W.catch_of(il[0], cls + ' initializer-list constructor'), delegates(cp[0]), delegates(il[0])

    hs = cx.find_spec(objs[1], {'class': 'HashSet'})
    F['hashset_copy_catch'], F['hashset_ilist_catch'], F['hashset_copy_delegates'], F['hashset_ilist_delegates'] = ctor_catches(hs, 'HashSet')
    ts = cx.find_spec(objs[2], {'class': 'TreeSet'})
    F['treeset_copy_catch'], F['treeset_ilist_catch'], F['treeset_copy_delegates'], F['treeset_ilist_delegates'] = ctor_catches(ts, 'TreeSet')

    # ---- DataTable::pvFill (91ea186)
    dt = cx.find_spec(objs[4], {'class': 'DataTable'})
    pf = cx.method_decls(dt, 'pvFill')
    pf = [d for d in pf if W.find_all(d, lambda n: n.get('kind') == 'CXXCatchStmt' and '"name": "pvDestroyRaws"' in json.dumps(n))]
    if len(pf) < 1:
        raise E('DataTable::pvFill with a catch calling pvDestroyRaws not found')
    cat = [W.stmts([x for x in c['inner'] if x.get('kind') == 'CompoundStmt'][0])
           for c in W.find_all(pf[0], lambda n: n.get('kind') == 'CXXCatchStmt' and '"name": "pvDestroyRaws"' in json.dumps(n))]
    if len(cat) != 1:
        raise E('pvFill: outer catch not found exactly once')
    F['datatable_fill_catch'] = cat[0]

    # ---- HashMultiMap copy constructor: the row loop (84c9298)
    hm = cx.find_spec(objs[3], {'class': 'HashMultiMap'})
    cp = [c for c in _ctors(hm, 'HashMultiMap') if _has_param(c, 'const ') and _has_param(c, 'HashMultiMap') and not _has_param(c, 'initializer_list')
          and W.find_all(c, lambda n: n.get('kind') == 'CXXForRangeStmt')]
    if len(cp) != 1:
        raise E('HashMultiMap copy constructor with the row loop: found %d' % len(cp))
    fl = W.find_all(cp[0], lambda n: n.get('kind') == 'CXXForRangeStmt')
    if len(fl) != 1:
        raise E('HashMultiMap copy constructor: row loop not found exactly once')
    lb = fl[0]['inner'][-1]
    F['multimap_copy_row'] = W.stmts(lb)
    F['multimap_copy_delegates'] = delegates(cp[0])
    tr = W.find_all(lb, lambda n: n.get('kind') == 'CXXTryStmt')
    if len(tr) == 1:
        F['multimap_copy_try'] = W.stmts(tr[0]['inner'][0])
        cc = [x for x in tr[0]['inner'][1].get('inner', []) if x.get('kind') == 'CompoundStmt']
        F['multimap_copy_catch'] = W.stmts(cc[0]) if cc else []
    else:
        F['multimap_copy_try'] = []; F['multimap_copy_catch'] = []

    # ---- ObjectManager::pvRelocateExec(.., std::false_type) (not nothrow relocatable): copy loop, executor, handler, final destroy (mutant M3)
    oms = []
    def walk_(o):
        if isinstance(o, dict):
            if o.get('kind') == 'ClassTemplateSpecializationDecl' and o.get('name') == 'ObjectManager': oms.append(o)
            for c_ in o.get('inner', []) or []: walk_(c_)
    for o in objs[5]: walk_(o)
    rx = [d for sp_ in oms for d in cx.method_decls(sp_, 'pvRelocateExec') if W.find_all(d, lambda n: n.get('kind') == 'CXXCatchStmt')]
    if not rx:
        raise E('ObjectManager::pvRelocateExec with a catch block (not nothrow relocatable) is not instantiated')
    def qs(l): return '[' + '; '.join('"%s"' % x for x in l) + ']'
    def stmt_a(st):   # like Walker.stmt, but a call keeps its argument paths
        if cx.is_assert_stmt(st): return None
        n = W.strip(st)
        if n.get('kind') in ('CallExpr', 'CXXMemberCallExpr'):
            return 'SCallArgs "%s" %s' % (W.call_name(n), qs([W.path(a) for a in n['inner'][1:]]))
        return W.stmt(st)
    def stmts_a(comp):
        inner = comp.get('inner', []) if comp.get('kind') == 'CompoundStmt' else [comp]
        return [x for x in (stmt_a(s_) for s_ in inner) if x is not None]
    d = rx[0]
    trs = W.find_all(d, lambda n: n.get('kind') == 'CXXTryStmt')
    if len(trs) != 1: raise E('pvRelocateExec: exactly one try statement expected')
    F['relocexec_body'] = stmts_a(W.body(d))
    F['relocexec_try'] = stmts_a(trs[0]['inner'][0])
    cc = [x for x in trs[0]['inner'][1].get('inner', []) if x.get('kind') == 'CompoundStmt']
    if len(trs[0]['inner']) != 2 or not cc or any(isinstance(x, dict) and x.get('kind') == 'VarDecl' for x in trs[0]['inner'][1].get('inner', [])):
        raise E('pvRelocateExec: a single catch (...) handler expected')
    F['relocexec_catch'] = stmts_a(cc[0])
    fl = W.find_all(trs[0]['inner'][0], lambda n: n.get('kind') == 'ForStmt')
    if len(fl) != 1: raise E('pvRelocateExec: one for loop expected in the try block')
    cond = W.strip(fl[0]['inner'][2]); inc = fl[0]['inner'][3]
    if cond.get('kind') != 'BinaryOperator': raise E('pvRelocateExec: loop condition')
    incs = [W.path(u['inner'][0]) for u in W.find_all(inc, lambda n: n.get('kind') == 'UnaryOperator' and n.get('opcode') == '++')] + \
           [W.path(u['inner'][1]) for u in W.find_all(inc, lambda n: n.get('kind') == 'CXXOperatorCallExpr' and '"name": "operator++"' in json.dumps(n['inner'][0]))]
    F['relocexec_loop'] = ['SCallArgs "%s" %s' % (cond.get('opcode'), qs([W.path(cond['inner'][0]), W.path(cond['inner'][1])])),
                           'SCallArgs "++" %s' % qs(incs)] + stmts_a(fl[0]['inner'][4])
    return F


def facts_text(tu, repo, root='/verif'):
    F = facts(tu, repo, root)
    out = ['(* GENERATED by props/C04/astfacts04.py from the clang AST of the current headers (' + os.path.basename(tu) + ') -- do not edit *)',
           'From Coq Require Import List String.', 'From C04 Require Import GenPrimsC04.', 'Import ListNotations.', 'Local Open Scope string_scope.', '']
    for k in sorted(F):
        v = F[k]
        if isinstance(v, list):
            out.append('Definition %s : list cstmt :=\n  [%s].\n' % (k, ';\n   '.join(v)))
        else:
            out.append('Definition %s : bool := %s.\n' % (k, v))
    return '\n'.join(out)


if __name__ == '__main__':
    repo = sys.argv[1] if len(sys.argv) > 1 else '/repo'
    print(facts_text(os.path.join(os.path.dirname(os.path.abspath(__file__)), 'inst_facts.cpp'), repo))
