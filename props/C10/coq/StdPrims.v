(* C10 - fixed meanings of the trivial primitives used by gen_stdinsert.json *)
From Coq Require Import ZArith.
Definition traits_ : Z := 0%Z.
