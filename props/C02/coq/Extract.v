(* Extraction of the hand-written executable model (T-cor) and of the generated leaves it calls. ExtrOcamlBasic only. *)
From Coq Require Import ZArith List Extraction ExtrOcamlBasic.
From C02 Require Import BTreeModel NodeScript.
Extraction Blacklist List String Nat.
Separate Extraction
  BTreeModel.empty_tree BTreeModel.insert BTreeModel.add BTreeModel.remove BTreeModel.clear
  BTreeModel.lower_bound BTreeModel.upper_bound BTreeModel.find BTreeModel.contains BTreeModel.key_count
  BTreeModel.iter_index BTreeModel.nth_iter BTreeModel.contents BTreeModel.end_iter
  BTreeModel.copy_tree BTreeModel.reset_key BTreeModel.remove_key BTreeModel.remove_if
  BTreeModel.merge_to BTreeModel.insert_range BTreeModel.remove_range BTreeModel.remove_key_multi BTreeModel.shape_of BTreeModel.traverse_fwd BTreeModel.traverse_bwd BTreeModel.cnt
  NodeScript.ns_create NodeScript.ns_accept NodeScript.ns_remove NodeScript.ns_table NodeScript.ns_live NodeScript.ns_slot
  NodeScript.ns_capacity NodeScript.ns_is_leaf NodeScript.ns_mpi NodeScript.ns_cnt NodeScript.ns_children.
