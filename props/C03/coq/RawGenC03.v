(* C03 (copied from props/C18/coq/RawGen.v; the proofs are C18's) -- theorems about the GENERATED DataColumnList::pvCreateRaw (Gen_Raw.v: the funcIndex loop, the createFunc call that
   may throw according to a per-call schedule, and the catch block's destroy loop over the records below funcIndex).
   Ghost state: created / destroyed = number of completed createFunc / destroyFunc calls per FuncRecord (identified by
   mFuncRecords[i]); n_create = number of completed createFunc calls (the schedule's clock). *)
From Coq Require Import ZArith Bool List Lia.
From MomoCommon Require Import GenPrelude.
From C03 Require Import Gen_RawC03.
Local Open Scope Z_scope.

(* how many i in [a, a + len) have arr i = x *)
Fixpoint cnt (arr : Z -> Z) (a : Z) (len : nat) (x : Z) : Z :=
  match len with O => 0 | S l => (if Z.eqb (arr a) x then 1 else 0) + cnt arr (a + 1) l x end.

Lemma cnt_range arr a len x : 0 <= cnt arr a len x <= Z.of_nat len.
Proof. revert a; induction len as [|l IH]; intros a; cbn [cnt]; [lia|]. specialize (IH (a + 1)). destruct (Z.eqb (arr a) x); lia. Qed.

Lemma cnt_snoc arr len : forall a x, cnt arr a (S len) x = cnt arr a len x + (if Z.eqb (arr (a + Z.of_nat len)) x then 1 else 0).
Proof.
  induction len as [|l IH]; intros a x.
  - cbn [cnt]. replace (a + Z.of_nat 0) with a by lia. lia.
  - change (cnt arr a (S (S l)) x) with ((if Z.eqb (arr a) x then 1 else 0) + cnt arr (a + 1) (S l) x).
    rewrite IH. cbn [cnt]. replace (a + 1 + Z.of_nat l) with (a + Z.of_nat (S l)) by lia. lia.
Qed.

(* the first call (counted from clock value c) that the schedule lets throw, among the next len calls *)
Fixpoint first_fail (P : Z -> bool) (c : Z) (len : nat) : option nat :=
  match len with
  | O => None
  | S l => if P c then Some O else match first_fail P (c + 1) l with Some t => Some (S t) | None => None end
  end.

Section Spec.
  Variable arr : Z -> Z.
  Variable n : Z.               (* mFuncRecords.GetCount() *)

  (* the destroy loop of the catch block: destroyFunc once for each record i <= index < funcIndex, nothing else changes *)
  Lemma loop1_spec len : forall fuel funcIndex i created destroyed ncr K,
    funcIndex = i + Z.of_nat len -> 0 <= i -> funcIndex < 2 ^ 63 -> (len < fuel)%nat ->
    (forall x, 0 <= destroyed x <= K) -> K + Z.of_nat len < 2 ^ 63 ->
    exists d', pvCreateRaw_loop1 fuel funcIndex arr n created destroyed i ncr = Ok (created, d', funcIndex, ncr) /\
               forall x, d' x = destroyed x + cnt arr i len x.
  Proof.
    induction len as [|l IH]; intros fuel funcIndex i created destroyed ncr K E Hi Hf Hfuel Hd HK;
      (destruct fuel as [|fuel]; [exfalso; clear - Hfuel; lia|]); rewrite pvCreateRaw_loop1_eq.
    - replace funcIndex with i by lia. rewrite Z.ltb_irrefl. exists destroyed. split; [reflexivity|]. intros x; cbn [cnt]; lia.
    - destruct (Z.ltb_spec i funcIndex) as [_|]; [|lia]. cbv zeta.
      set (d1 := upd destroyed (arr i) (wrapU 64 (destroyed (arr i) + 1))).
      assert (Hd1 : forall x, d1 x = destroyed x + (if Z.eqb (arr i) x then 1 else 0)).
      { intros x. unfold d1, upd. pose proof (Hd (arr i)). assert (2 ^ 63 < 2 ^ 64) by (apply Z.pow_lt_mono_r; lia).
        destruct (Z.eqb_spec x (arr i)); destruct (Z.eqb_spec (arr i) x); try congruence;
          [rewrite wrapU_small by (clear - H H0 HK; lia); rewrite e0; clear; lia | clear; lia]. }
      rewrite (wrapU_small 64 (i + 1)) by lia.
      destruct (IH fuel funcIndex (i + 1) created d1 ncr (K + 1)) as (d' & E' & Hd'); try lia.
      { intros x. rewrite Hd1. pose proof (Hd x). destruct (Z.eqb (arr i) x); lia. }
      exists d'. split; [exact E'|]. intros x. rewrite Hd', Hd1. cbn [cnt]. lia.
  Qed.

  (* the funcIndex loop of the try block, started at record a with `len` records to go *)
  Lemma loop0_spec P len : forall fuel a created destroyed ncr,
    n = a + Z.of_nat len -> 0 <= a -> n <= 65536 -> (len < fuel)%nat -> 0 <= ncr -> ncr + Z.of_nat len < 2 ^ 62 ->
    (forall x, 0 <= created x <= a) -> (forall x, 0 <= destroyed x <= 0) ->
    match first_fail P ncr len with
    | None => exists c', pvCreateRaw_loop0 fuel P n arr n created destroyed a ncr = Ok (None, (c', destroyed, n, ncr + Z.of_nat len)) /\
                         forall x, c' x = created x + cnt arr a len x
    | Some t => exists c' d', pvCreateRaw_loop0 fuel P n arr n created destroyed a ncr
                               = Ok (Some false, (c', d', a + Z.of_nat t, ncr + Z.of_nat t)) /\
                         (t < len)%nat /\ P (ncr + Z.of_nat t) = true /\
                         (forall x, c' x = created x + cnt arr a t x) /\
                         (forall x, d' x = destroyed x + cnt arr 0 (Z.to_nat (a + Z.of_nat t)) x)
    end.
  Proof.
    induction len as [|l IH]; intros fuel a created destroyed ncr E Ha Hn Hfuel Hncr Hb Hc Hd;
      (destruct fuel as [|fuel]; [exfalso; clear - Hfuel; lia|]); rewrite pvCreateRaw_loop0_eq.
    - cbn [first_fail]. replace a with n by lia. rewrite Z.ltb_irrefl. exists created. split.
      + replace (ncr + Z.of_nat 0) with ncr by lia. reflexivity.
      + intros x; cbn [cnt]; lia.
    - destruct (Z.ltb_spec a n) as [_|]; [|lia]. cbv zeta. cbn [first_fail].
      destruct (P ncr) eqn:EP.
      + (* this createFunc call throws: the catch block runs with funcIndex = a *)
        assert (G1 : a = 0 + Z.of_nat (Z.to_nat a)) by (clear - Ha; lia).
        assert (G2 : 0 <= 0) by lia.
        assert (G3 : a < 2 ^ 63) by (clear - E Hn; lia).
        assert (G4 : (Z.to_nat a < fuel_of_pvCreateRaw)%nat) by (unfold fuel_of_pvCreateRaw; clear - E Hn Ha; lia).
        assert (G6 : 0 + Z.of_nat (Z.to_nat a) < 2 ^ 63) by (clear - E Hn Ha; lia).
        destruct (loop1_spec (Z.to_nat a) fuel_of_pvCreateRaw a 0 created destroyed ncr 0 G1 G2 G3 G4 Hd G6) as (d' & E1 & Hd').
        rewrite E1. exists created, d'. replace (a + Z.of_nat 0) with a by lia. replace (ncr + Z.of_nat 0) with ncr by lia.
        split; [reflexivity|]. split; [lia|]. split; [exact EP|]. split; [intros x; cbn [cnt]; lia|exact Hd'].
      + set (c1 := upd created (arr a) (wrapU 64 (created (arr a) + 1))).
        assert (Hc1 : forall x, c1 x = created x + (if Z.eqb (arr a) x then 1 else 0)).
        { intros x. unfold c1, upd. pose proof (Hc (arr a)). assert (2 ^ 63 < 2 ^ 64) by (apply Z.pow_lt_mono_r; lia).
          destruct (Z.eqb_spec x (arr a)); destruct (Z.eqb_spec (arr a) x); try congruence;
            [rewrite wrapU_small by (clear - H H0 E Hn Ha; lia); rewrite e0; clear; lia | clear; lia]. }
        rewrite (wrapU_small 64 (ncr + 1)) by lia. rewrite (wrapU_small 64 (a + 1)) by lia.
        specialize (IH fuel (a + 1) c1 destroyed (ncr + 1)).
        assert (Hc1b : forall x, 0 <= c1 x <= a + 1).
        { intros x. rewrite Hc1. pose proof (Hc x). destruct (Z.eqb (arr a) x); lia. }
        destruct (first_fail P (ncr + 1) l) as [t|].
        * destruct IH as (c' & d' & E' & Ht & HP & Hc' & Hd'); auto; try lia.
          exists c', d'. replace (a + Z.of_nat (S t)) with (a + 1 + Z.of_nat t) by lia.
          replace (ncr + Z.of_nat (S t)) with (ncr + 1 + Z.of_nat t) by lia.
          split; [exact E'|]. split; [lia|]. split; [exact HP|]. split; [|exact Hd'].
          intros x. rewrite Hc', Hc1. cbn [cnt]. lia.
        * destruct IH as (c' & E' & Hc'); auto; try lia.
          exists c'. replace (ncr + Z.of_nat (S l)) with (ncr + 1 + Z.of_nat l) by lia.
          split; [exact E'|]. intros x. rewrite Hc', Hc1. cbn [cnt]. lia.
  Qed.
End Spec.

(* the whole generated pvCreateRaw on a list with n FuncRecords (n <= 65536; the list has at most 2^14), any record identities
   arr, any schedule P of throwing createFunc calls, fresh ghost counters: it never runs out of fuel or gets stuck, and
   - if no call throws: completed, every record created exactly as often as it occurs in mFuncRecords, nothing destroyed;
   - if the t-th call is the first to throw: not completed, the records 0..t-1 are created, and EVERY record is destroyed exactly
     as often as it was created (the failing record t, which cleaned up after itself, and the later ones are not touched) *)
Theorem generated_pvCreateRaw_balanced arr n P : 0 <= n <= 65536 ->
  match first_fail P 0 (Z.to_nat n) with
  | None => exists c', pvCreateRaw n arr 0 (fun _ => 0) (fun _ => 0) P = Ok (true, n, c', fun _ => 0) /\
                       forall x, c' x = cnt arr 0 (Z.to_nat n) x
  | Some t => exists c' d', pvCreateRaw n arr 0 (fun _ => 0) (fun _ => 0) P = Ok (false, Z.of_nat t, c', d') /\
                       (Z.of_nat t < n) /\ P (Z.of_nat t) = true /\
                       (forall x, c' x = cnt arr 0 t x) /\ (forall x, d' x = c' x)
  end.
Proof.
  intros Hn. unfold pvCreateRaw. cbv zeta.
  pose proof (loop0_spec arr n P (Z.to_nat n) fuel_of_pvCreateRaw 0 (fun _ => 0) (fun _ => 0) 0) as H.
  assert (Hf : (Z.to_nat n < fuel_of_pvCreateRaw)%nat) by (unfold fuel_of_pvCreateRaw; lia).
  assert (P62 : 65536 < 2 ^ 62) by (apply Z.pow_gt_lin_r || lia).
  specialize (H ltac:(lia) ltac:(lia) ltac:(lia) Hf ltac:(lia) ltac:(lia) ltac:(intros; lia) ltac:(intros; lia)).
  destruct (first_fail P 0 (Z.to_nat n)) as [t|].
  - destruct H as (c' & d' & E & Ht & HP & Hc & Hd). rewrite E. exists c', d'.
    replace (0 + Z.of_nat t) with (Z.of_nat t) in * by lia.
    split; [reflexivity|]. split; [lia|]. split; [exact HP|]. split; [intros x; rewrite Hc; lia|].
    intros x. rewrite Hd, Hc. rewrite Nat2Z.id. lia.
  - destruct H as (c' & E & Hc). rewrite E. exists c'. replace (0 + Z.of_nat (Z.to_nat n)) with n by lia.
    split; [reflexivity|]. intros x. rewrite Hc. lia.
Qed.
