(* C10 -- the extracted-item holder: GENERATED state machine (Gen_Holder.v, cxx2coq translation of
   SetExtractedItem::IsEmpty / Clear / Create / Remove, SetUtility.h:297-333) tied to the hand model by refinement, the
   frame lemmas of every holder operation, and the handle-keeping theorems of Add(pos, ExtractedItem&&) and of the
   stdish insert(hint, node&&) decision logic.
   In the generated functions mFlagAtCall is a ghost: the value of mHasItem at the moment the user functor (creator /
   remover, which may throw) is called = the state the holder is left in if that functor throws. *)
From Coq Require Import ZArith Bool List Lia Permutation.
From MomoCommon Require Import GenPrelude.
From C10 Require Import Machine Merge MergeProofs.
From C10 Require Gen_Holder Gen_HolderTree.
Import ListNotations.
Set Default Timeout 120.   (* robustness: no tactic may run away on a regenerated term *)
Local Open Scope Z_scope.

(* abstraction: the flag says whether the buffer holds an item *)
Definition R (flag : bool) (h : option item) : Prop := flag = match h with Some _ => true | None => false end.

(* ---------------------------------------------------------------- specs of the generated functions *)
(* Remove: requires an item (MOMO_CHECK); the remover runs while the flag is STILL SET; afterwards the holder is empty *)
Theorem gen_remove_spec g :
  Gen_Holder.Remove true g = Ok (tt, false, true) /\ Gen_Holder.Remove false g = Stuck.
Proof. split; reflexivity. Qed.

(* Create: requires an empty holder; the creator runs while the flag is STILL CLEAR; afterwards the holder is full *)
Theorem gen_create_spec g :
  Gen_Holder.Create false g = Ok (tt, true, false) /\ Gen_Holder.Create true g = Stuck.
Proof. split; reflexivity. Qed.

Theorem gen_clear_isempty_spec f g :
  Gen_Holder.Clear f g = false /\ Gen_Holder.IsEmpty f g = negb f.
Proof. split; reflexivity. Qed.

(* ---------------------------------------------------------------- hand-level holder operations (what the set operations use) *)
(* extItem.Remove(remover): throws = the remover (a relocation out of the buffer) throws *)
Definition h_remove (throws : bool) (h : option item) : outcome (option item) :=
  match h with None => Stuck | Some _ => if throws then Exn else Ok None end.
Definition h_remove_after_throw (h : option item) : option item := h.       (* the holder keeps the item *)
(* extItem.Create(creator) with the creator producing x *)
Definition h_create (throws : bool) (h : option item) (x : item) : outcome (option item) :=
  match h with Some _ => Stuck | None => if throws then Exn else Ok (Some x) end.

(* refinement: the generated Remove is the hand step on the abstracted state -- same Stuck condition, the final flag
   abstracts the holder after a successful remover, the flag-at-call abstracts the holder after a throwing remover *)
Theorem remove_refines flag g h : R flag h ->
  match Gen_Holder.Remove flag g with
  | Stuck => h_remove false h = Stuck /\ h_remove true h = Stuck
  | Ok (_, flag', at_call) =>
      (exists h', h_remove false h = Ok h' /\ R flag' h') /\ h_remove true h = Exn /\ R at_call (h_remove_after_throw h)
  | _ => False
  end.
Proof.
  unfold R. intros ->. destruct h as [x|]; simpl.
  - split; [exists None; split; reflexivity|]. split; reflexivity.
  - split; reflexivity.
Qed.

Theorem create_refines flag g h x : R flag h ->
  match Gen_Holder.Create flag g with
  | Stuck => h_create false h x = Stuck
  | Ok (_, flag', at_call) =>
      (exists h', h_create false h x = Ok h' /\ R flag' h') /\ h_create true h x = Exn /\ R at_call h
  | _ => False
  end.
Proof.
  unfold R. intros ->. destruct h as [y|]; simpl.
  - reflexivity.
  - split; [exists (Some x); split; reflexivity|]. split; reflexivity.
Qed.

(* the set-level model uses exactly these steps: Insert(ExtractedItem&&) / Add(pos, ExtractedItem&&) leave the holder as
   h_remove says -- emptied when the relocation succeeded, untouched when it (or anything before it) threw or when the item
   was refused *)
Theorem insert_holder_uses_h_remove c multi w dst x w' dst' h' st :
  insert_holder c multi w dst (Some x) = (w', dst', h', st) ->
  (h' = None /\ h_remove false (Some x) = Ok h' /\ dst' = dst ++ [x]) \/ (h' = h_remove_after_throw (Some x) /\ dst' = dst).
Proof.
  unfold insert_holder. destruct (step_func w) as [w1|]; [|intros H; inversion H; subst; right; auto].
  destruct (negb multi && has_key dst (key x)); [intros H; inversion H; subst; right; auto|].
  destruct (step_alloc w1) as [w2|]; [|intros H; inversion H; subst; right; auto].
  destruct (relocate c w2 x) as [w3 [e|]] eqn:E; intros H; inversion H; subst; [|right; auto].
  apply relocate_value in E. subst e. left. auto.
Qed.

(* ---------------------------------------------------------------- frame: a refused / failed element stays in the handle *)
Theorem add_holder_conservation c w dst h w' dst' h' st : add_holder c w dst h = (w', dst', h', st) ->
  Permutation (holder_items h' ++ dst') (holder_items h ++ dst) /\
  (h' = h /\ dst' = dst \/ exists x, h = Some x /\ h' = None /\ dst' = dst ++ [x] /\ st = Finished).
Proof.
  unfold add_holder. destruct h as [x|]; [|intros H; inversion H; subst; simpl; auto].
  destruct (step_alloc w) as [w1|]; [|intros H; inversion H; subst; simpl; auto].
  destruct (relocate c w1 x) as [w2 [e|]] eqn:E; intros H; inversion H; subst; simpl; auto.
  apply relocate_value in E. subst e. split; [symmetry; apply Permutation_cons_append|]. right. exists x. auto.
Qed.

(* stdish insert(hint, node&&) as fixed in 9f37105: for every schedule, category, hint verdict and key policy the node handle
   plus the container are conserved, and the element leaves the handle ONLY when it really went into the container *)
Theorem std_insert_hint_keeps_refused c multi w dst h hint_ok w' dst' h' st :
  std_insert_hint c multi w dst h hint_ok = (w', dst', h', st) ->
  Permutation (holder_items h' ++ dst') (holder_items h ++ dst) /\
  (h' = h /\ dst' = dst \/ exists x, h = Some x /\ h' = None /\ dst' = dst ++ [x]).
Proof.
  unfold std_insert_hint. destruct h as [x|]; [|intros H; inversion H; subst; simpl; auto].
  destruct (step_func w) as [w1|]; [|intros H; inversion H; subst; simpl; auto].
  destruct hint_ok; intros H.
  - apply add_holder_conservation in H. destruct H as [P [E|(y & E1 & E2 & E3 & _)]]; split; auto. right. exists y. auto.
  - apply insert_holder_conservation in H. destruct H as (P & [E|(y & E1 & E2 & E3 & _)] & _); split; auto. right. exists y. auto.
Qed.

(* the logic before 9f37105 is refuted: a concrete refused node (hint rejected, key already present, nothing throws) comes
   back EMPTY and the element is gone from handle and container *)
Theorem std_insert_hint_old_loses_refused_node :
  let r := std_insert_hint_old NTM false (W [] [] [] []) [102] (Some 101) false in
  snd (fst r) = None /\ snd (fst (fst r)) = [102] /\
  ~ Permutation (holder_items (snd (fst r)) ++ snd (fst (fst r))) (holder_items (Some 101) ++ [102]).
Proof.
  vm_compute. split; [reflexivity|]. split; [reflexivity|]. intros P. apply Permutation_length in P. discriminate P.
Qed.

(* a movable element is never copied by these paths *)
Theorem std_insert_hint_no_copy c multi w dst h hint_ok w' dst' h' st : nothrow_reloc c = true -> no_copy (tr w) ->
  std_insert_hint c multi w dst h hint_ok = (w', dst', h', st) -> no_copy (tr w').
Proof.
  intros Hc N. unfold std_insert_hint. destruct h as [x|]; [|intros H; inversion H; subst; exact N].
  destruct (step_func w) as [w1|] eqn:Ef; [|intros H; inversion H; subst; apply no_copy_cons; [reflexivity|exact N]].
  apply step_func_tr in Ef. destruct hint_ok.
  - unfold add_holder. destruct (step_alloc w1) as [w2|] eqn:Ea;
      [|intros H; inversion H; subst; apply no_copy_cons; [reflexivity|rewrite Ef; exact N]].
    apply step_alloc_tr in Ea. destruct (relocate c w2 x) as [w3 o] eqn:Er.
    assert (N3 : no_copy (tr w3)) by (eapply relocate_no_copy; [exact Hc| |exact Er]; rewrite Ea, Ef; exact N).
    destruct o; intros H; inversion H; subst; exact N3.
  - intros H. eapply holder_no_copy; [exact Hc| |exact H]. rewrite Ef. exact N.
Qed.

(* same code: the holder of TreeSet (SetExtractedItem<TreeSetItemTraits, TreeSetSettings>) is generated separately from the
   headers and is the same function as the HashSet one, so every theorem above holds for both instantiations *)
Theorem holder_same_code :
  Gen_HolderTree.Remove = Gen_Holder.Remove /\ Gen_HolderTree.Create = Gen_Holder.Create /\
  Gen_HolderTree.Clear = Gen_Holder.Clear /\ Gen_HolderTree.IsEmpty = Gen_Holder.IsEmpty.
Proof. repeat split; reflexivity. Qed.
