(* C01 -- the premises of ReserveDecision's theorems hold on every state that satisfies the invariant, for the regenerated
   GetBucketCountShift of every momo configuration *)
From Coq Require Import ZArith List Lia Bool.
From MomoCommon Require Import GenPrelude.
From C01 Require Import HashModel HashProofs HashInst HashInstProofs ReserveDecision.
From C01 Require Gen_HashBucketBase.
Local Open Scope Z_scope.

Lemma shift_fn_1_2 pol cap bc : 1 <= shift_fn pol cap bc <= 2.
Proof.
  unfold shift_fn. destruct (pol =? 0); [|lia]. unfold Gen_HashBucketBase.GetBucketCountShift.
  destruct (andb (Z.gtb bc 0) (Z.gtb cap 0)); [|lia].
  destruct (cap =? 1); [lia|]. destruct (cap =? 2); [destruct (bc <? _)|destruct (bc <? _)]; cbn; lia.
Qed.

Theorem momo_reserve_premises c (h : Z -> Z) (s : hset BS) :
  Inv BS bs0 (decode_fn (c_bound c)) h (c_cap c) (c_unlimited c) (c_wf0 c) start_fn (next_fn (c_probing c)) max_log (Binv_of (c_bound c)) s ->
  0 <= c_logStart c <= 63 ->
  gens_ok BS (shift_fn (c_pol c) (c_cap c)) (gens s) /\ 0 <= newLog BS (c_logStart c) (shift_fn (c_pol c) (c_cap c)) (gens s) <= 63.
Proof.
  intros I Hl. destruct I as [F _ _ _]. unfold gens_ok, newLog.
  destruct (gens s) as [|t r]; [split; [exact Logic.I|lia]|].
  inversion F as [|? ? It _]; subst. destruct It as [L _ _]. unfold max_log in L.
  pose proof (shift_fn_1_2 (c_pol c) (c_cap c) (2 ^ tlog t)). pose proof (shift_fn_1_2 (c_pol c) (c_cap c) (bcount BS t)).
  split; [split; lia|lia].
Qed.
