(* C17: the hand model instantiated with the GENERATED leaves (Gen_Leaves, regenerated from HashSorter.h on
   every run).  These are the functions that are extracted and run against the real C++, and the functions
   the Properties_C17 theorems talk about. *)
From Coq Require Import ZArith Bool List Lia.
From MomoCommon Require Import GenPrelude.
From C17 Require Import Gen_Leaves Leaves_Proofs SorterSearch Search_Proofs.
Import ListNotations.
Local Open Scope Z_scope.

Definition FindHash := SorterSearch.pvFindHash pvMultShift pvGetStepCount pvCompare.
Definition Find := SorterSearch.pvFind pvMultShift pvGetStepCount pvCompare.
Definition GetBounds := SorterSearch.pvGetBounds pvMultShift pvGetStepCount pvCompare.
Definition IsSorted := SorterSearch.pvIsSorted.
Definition BinarySearch := SorterSearch.pvBinarySearch.
Definition ExponentialSearch := SorterSearch.pvExponentialSearch.

Lemma MS_inst : forall h n, 0 <= h < 2 ^ 64 -> 0 < n < 2 ^ 64 -> 0 <= pvMultShift h n < n.
Proof. intros h n Hh Hn. pose proof (multshift_lt h n Hh Hn). lia. Qed.

Theorem FindHash_spec count hash qh :
  0 <= count < 2 ^ 62 -> (forall i, 0 <= i < count -> 0 <= hash i < 2 ^ 64) -> 0 <= qh < 2 ^ 64 ->
  exists k b, FindHash count hash qh = Ok (k, b) /\ fhres count hash qh k b.
Proof. intros. apply pvFindHash_spec; auto using MS_inst, stepcount_range, compare_spec. Qed.

Theorem FindHash_found_iff count hash qh k b :
  0 <= count < 2 ^ 62 -> (forall i, 0 <= i < count -> 0 <= hash i < 2 ^ 64) -> 0 <= qh < 2 ^ 64 ->
  FindHash count hash qh = Ok (k, b) -> sorted count hash ->
  (b = true <-> exists i, 0 <= i < count /\ hash i = qh).
Proof. intros. eapply findhash_found_iff; eauto using MS_inst, stepcount_range, compare_spec. Qed.

(* count = 0: not found, nothing read (hash is never applied: the result does not depend on it) *)
Theorem FindHash_empty hash qh : FindHash 0 hash qh = Ok (0, false).
Proof. reflexivity. Qed.

(* non-vacuity: a concrete sorted array with duplicates *)
Example FindHash_example :
  FindHash 5 (fun i => nth (Z.to_nat i) [3; 3; 7; 18446744073709551615; 18446744073709551615] 0) 7 = Ok (2, true).
Proof. vm_compute. reflexivity. Qed.

(* ------------------------------------------------------------------------------------------------
   Find / GetBounds / IsSorted of the instantiated model *)
From C17 Require Import Find_Proofs IsSorted_Proofs.

Definition equivalence (eqf : Z -> Z -> bool) : Prop :=
  (forall a, eqf a a = true) /\ (forall a b, eqf a b = true -> eqf b a = true) /\
  (forall a b c, eqf a b = true -> eqf b c = true -> eqf a c = true).

(* the hash function respects equalFunc, for array items and for the searched item (qh = hash of qx) *)
Definition hash_consistent (count : Z) (hash item : Z -> Z) (eqf : Z -> Z -> bool) (qh qx : Z) : Prop :=
  (forall i j, 0 <= i < count -> 0 <= j < count -> eqf (item i) (item j) = true -> hash i = hash j) /\
  (forall i, 0 <= i < count -> eqf (item i) qx = true -> hash i = qh).

Theorem IsSorted_iff count hash item eqf : 0 <= count -> equivalence eqf ->
  exists b, IsSorted count hash item eqf = Ok b /\ (b = true <-> sorted_spec count hash item eqf).
Proof. intros Hc (R & S & T). apply pvIsSorted_spec; assumption. Qed.

Theorem IsSorted_empty hash item eqf : IsSorted 0 hash item eqf = Ok true.
Proof. reflexivity. Qed.

Lemma IsSorted_true_spec count hash item eqf : 0 <= count -> equivalence eqf ->
  IsSorted count hash item eqf = Ok true -> sorted_spec count hash item eqf.
Proof.
  intros Hc He H. destruct (IsSorted_iff count hash item eqf Hc He) as (b & Eb & Hb).
  rewrite H in Eb. inversion Eb; subst b. apply Hb. reflexivity.
Qed.

Theorem Find_eq_linear_scan count hash item eqf qh qx :
  0 <= count < 2 ^ 62 -> (forall i, 0 <= i < count -> 0 <= hash i < 2 ^ 64) -> 0 <= qh < 2 ^ 64 ->
  equivalence eqf -> hash_consistent count hash item eqf qh qx ->
  IsSorted count hash item eqf = Ok true ->
  exists r b, Find count hash item eqf qh qx = Ok (r, b) /\ 0 <= r <= count /\
    (b = true -> r < count /\ eqf (item r) qx = true) /\
    (b = true <-> exists i, 0 <= i < count /\ eqf (item i) qx = true).
Proof.
  intros Hc Hh Hq He (C1 & C2) Hs. pose proof (IsSorted_true_spec count hash item eqf ltac:(lia) He Hs) as (S1 & S2).
  destruct He as (R & S & T).
  apply (pvFind_spec pvMultShift pvGetStepCount pvCompare MS_inst stepcount_range compare_spec
           count hash item eqf qh qx); assumption.
Qed.

Theorem GetBounds_eq_linear_scan count hash item eqf qh qx :
  0 <= count < 2 ^ 62 -> (forall i, 0 <= i < count -> 0 <= hash i < 2 ^ 64) -> 0 <= qh < 2 ^ 64 ->
  equivalence eqf -> hash_consistent count hash item eqf qh qx ->
  IsSorted count hash item eqf = Ok true ->
  exists b e, GetBounds count hash item eqf qh qx = Ok (b, e) /\ 0 <= b <= e /\ e <= count /\
    (forall i, 0 <= i < count -> (b <= i < e <-> eqf (item i) qx = true)).
Proof.
  intros Hc Hh Hq He (C1 & C2) Hs. pose proof (IsSorted_true_spec count hash item eqf ltac:(lia) He Hs) as (S1 & S2).
  destruct He as (R & S & T).
  apply (pvGetBounds_spec pvMultShift pvGetStepCount pvCompare MS_inst stepcount_range compare_spec
           count hash item eqf qh qx); assumption.
Qed.

Theorem Find_empty hash item eqf qh qx : Find 0 hash item eqf qh qx = Ok (0, false).
Proof. reflexivity. Qed.
Theorem GetBounds_empty hash item eqf qh qx : GetBounds 0 hash item eqf qh qx = Ok (0, 0).
Proof. reflexivity. Qed.

Lemma Zeqb_equivalence : equivalence Z.eqb.
Proof.
  split; [apply Z.eqb_refl|]. split.
  - intros a b H. apply Z.eqb_eq in H. subst. apply Z.eqb_refl.
  - intros a b c H1 H2. apply Z.eqb_eq in H1. apply Z.eqb_eq in H2. subst. apply Z.eqb_refl.
Qed.

(* ---- the checker that is run on the real output of Sort / SortPrehashed (elements = (hash, item id)) ---- *)
From C17 Require Import Checker.
From Coq Require Import Permutation.
Definition hash_of (l : list (Z * Z)) : Z -> Z := fun i => fst (nth (Z.to_nat i) l (0, 0)).
Definition item_of (l : list (Z * Z)) : Z -> Z := fun i => snd (nth (Z.to_nat i) l (0, 0)).
Definition len (l : list (Z * Z)) : Z := Z.of_nat (length l).

Definition check_sort_output (inp out : list (Z * Z)) : bool :=
  perm_check inp out &&
  match IsSorted (len out) (hash_of out) (item_of out) Z.eqb with Ok true => true | _ => false end.

Theorem check_sort_output_sound inp out : check_sort_output inp out = true ->
  Permutation inp out /\ sorted_spec (len out) (hash_of out) (item_of out) Z.eqb.
Proof.
  unfold check_sort_output. intros H. apply andb_true_iff in H. destruct H as [P S]. split.
  - apply perm_check_iff. exact P.
  - apply IsSorted_true_spec; [unfold len; lia|apply Zeqb_equivalence|].
    destruct (IsSorted _ _ _ _) as [[|]| | |]; try discriminate. reflexivity.
Qed.

(* non-vacuity: a concrete arrangement with a hash collision (items 1,1,2 share hash 3; item 5 at 2^64-1) *)
Definition ex_arr : list (Z * Z) := [(3, 1); (3, 1); (3, 2); (7, 4); (18446744073709551615, 5); (18446744073709551615, 5)].
Example ex_sorted : IsSorted (len ex_arr) (hash_of ex_arr) (item_of ex_arr) Z.eqb = Ok true.
Proof. vm_compute. reflexivity. Qed.
Example ex_find : Find (len ex_arr) (hash_of ex_arr) (item_of ex_arr) Z.eqb 3 2 = Ok (2, true).
Proof. vm_compute. reflexivity. Qed.
Example ex_bounds : GetBounds (len ex_arr) (hash_of ex_arr) (item_of ex_arr) Z.eqb 3 1 = Ok (0, 2).
Proof. vm_compute. reflexivity. Qed.
Example ex_bounds_absent : GetBounds (len ex_arr) (hash_of ex_arr) (item_of ex_arr) Z.eqb 3 9 = Ok (3, 3).
Proof. vm_compute. reflexivity. Qed.
Example ex_unsorted : IsSorted 3 (hash_of [(3, 1); (3, 2); (3, 1)]) (item_of [(3, 1); (3, 2); (3, 1)]) Z.eqb = Ok false.
Proof. vm_compute. reflexivity. Qed.
Example ex_check : check_sort_output [(7, 4); (3, 1); (3, 2); (3, 1)] [(3, 1); (3, 1); (3, 2); (7, 4)] = true.
Proof. vm_compute. reflexivity. Qed.

(* ------------------------------------------------------------------------------------------------
   the SORT half (model SorterSort.v with sw := swap) *)
From C17 Require Import SorterSort Sort_Proofs.

Definition HashSort (eqf : Z -> Z -> bool) : arr -> outcome arr := RadixSortG swap eqf 8 true 64.
Lemma swap_is_swap : forall l i j, swap l i j = swap l i j. Proof. reflexivity. Qed.

Theorem Group_makes_equal_contiguous eqf l q cnt : equivalence eqf -> 0 <= q -> 0 <= cnt -> q + cnt <= alen l ->
  exists l', pvGroup swap eqf l q cnt = Ok l' /\ relR q (q + cnt) l l' /\ contigL eqf l' q (q + cnt).
Proof. intros (R & S & T). apply (pvGroup_spec swap swap_is_swap eqf R S T). Qed.

Theorem SelectionSort_perm_sorted eqf grp l p cnt : equivalence eqf ->
  (forall l q c, 0 <= q -> 0 <= c -> q + c <= alen l ->
     exists l', grp l q c = Ok l' /\ relR q (q + c) l l' /\ contigL eqf l' q (q + c)) ->
  0 <= p -> 0 < cnt -> p + cnt <= alen l ->
  exists l', pvSelectionSort swap grp l p cnt = Ok l' /\ relR p (p + cnt) l l' /\
    sortedR l' p (p + cnt) /\ groupedR eqf l' p (p + cnt).
Proof.
  intros (R & S & T) Hg Hp Hc Hl.
  destruct (pvSelectionSort_spec swap swap_is_swap eqf grp True p cnt Hp) with (l := l) as (l' & E & Rl & Sd & G); auto.
  - intros l0 q c A B C. destruct (Hg l0 q c A B C) as (l1 & E1 & R1 & C1). exists l1. auto.
  - exists l'. auto.
Qed.

Theorem RadixSort_perm_partial eqf R g W l l' :
  RadixSortG swap eqf R g W l = Ok l' -> Permutation l l' /\ alen l' = alen l.
Proof. apply (RadixSortG_perm_partial swap swap_is_swap eqf). Qed.

From C17 Require Import Radix_Proofs.

Definition codes_below (W : Z) (l : arr) : Prop := Forall (fun e => 0 <= fst e < 2 ^ W) l.
Lemma codes_below_nth W l : codes_below W l -> forall k, 0 <= k < alen l -> 0 <= code l k < 2 ^ W.
Proof.
  intros H k Hk. unfold code, get. unfold codes_below in H. rewrite Forall_forall in H. apply H. apply nth_In. unfold alen in Hk. lia.
Qed.

(* RadixSorter<R>::Sort: every radix size, every code width, with / without HashSorter's group callback *)
Theorem RadixSort_perm_sorted eqf R g W l : equivalence eqf -> 1 <= R -> 0 <= W -> codes_below W l ->
  exists l', RadixSortG swap eqf R g W l = Ok l' /\ Permutation l l' /\ alen l' = alen l /\
    sortedR l' 0 (alen l') /\ (g = true -> groupedR eqf l' 0 (alen l')).
Proof.
  intros (Rf & S & T) HR HW Hc.
  apply (RadixSortG_total swap swap_is_swap eqf Rf S T R g W l HR HW). apply codes_below_nth. exact Hc.
Qed.

(* HashSorter::Sort / SortPrehashed at EVERY size *)
Theorem HashSort_output_satisfies_is_sorted eqf l : equivalence eqf -> codes_below 64 l ->
  exists l', HashSort eqf l = Ok l' /\ Permutation l l' /\
    IsSorted (alen l') (code l') (itm l') eqf = Ok true.
Proof.
  intros He Hc. destruct (RadixSort_perm_sorted eqf 8 true 64 l He ltac:(lia) ltac:(lia) Hc) as (l' & E & P & L & Sd & G).
  exists l'. split; [exact E|]. split; [exact P|].
  destruct (IsSorted_iff (alen l') (code l') (itm l') eqf ltac:(unfold alen; lia) He) as (b & Eb & Hb).
  rewrite Eb. f_equal. apply Hb. split.
  - intros i j Hi Hij Hj. apply Sd; lia.
  - intros a m c Ha Ham Hmc Hcc Hh Eac. apply (G eq_refl a m c); auto.
Qed.

Example ex_hashsort : HashSort Z.eqb [(7, 4); (3, 1); (3, 2); (3, 1); (0, 9)] = Ok [(0, 9); (3, 1); (3, 1); (3, 2); (7, 4)].
Proof. vm_compute. reflexivity. Qed.

(* non-vacuity of the radix path incl. the final PARTIAL digit: R = 3 on 8-bit codes uses the shifts 5, 2, 0 (selection-sort
   threshold 4, so 7 items take the radix path); with grouping *)
Example ex_radix_partial_digit :
  RadixSortG swap Z.eqb 3 true 8 [(201, 1); (7, 2); (201, 3); (64, 4); (201, 1); (6, 5); (255, 6)]
  = Ok [(6, 5); (7, 2); (64, 4); (201, 1); (201, 1); (201, 3); (255, 6)].
Proof. vm_compute. reflexivity. Qed.
