(* C15 -- proofs about the version / handle model (Version.v). *)
From Coq Require Import ZArith List Bool Arith Lia.
From C15 Require Import Version.
Import ListNotations.
Local Open Scope Z_scope.

Ltac dmatch :=
  repeat match goal with
         | |- context [match ?x with _ => _ end] => destruct x eqn:?
         | |- context [if ?x then _ else _] => destruct x eqn:?
         end.
(* robustness: a regenerated term that makes a tactic run away fails the proof (prove BROKEN) instead of hanging the build *)
Set Default Timeout 300.

(* ---------- a rejected (or out-of-domain) call leaves the whole state unchanged ---------- *)
Lemma rejected_call_is_identity k s o s' :
  step k s o = (s', Rej) -> s' = s.
Proof.
  destruct o; cbn [step]; unfold do_find, do_begin, do_end, do_bound, do_deref, do_inc, do_dec, do_addat, do_rmat,
    do_rmrange, do_reset, do_chk, do_insert, do_rmkey, do_rmif, do_clear, do_reserve, do_merge, do_swap, do_moveassign, do_copyassign; cbv zeta;
  dmatch; intro H; inversion H; reflexivity.
Qed.

(* ---------- invariant of reachable states ---------- *)
Definition pos_ok (l : list Z) (p : pos) : Prop :=
  match p with PElem k => In k l | PGap k => ~ In k l | _ => True end.

Record Inv (s : state) : Prop := mkInv {
  inv_crews : crew (w0 s) <> crew (w1 s);
  inv_snap : forall i cr, hcrew (hs s i) = Some cr ->
             exists v, ver_of_crew s cr = Some v /\ (hsnap (hs s i) <= v)%nat;
  inv_acc : forall i cr, hcrew (hs s i) = Some cr -> ver_of_crew s cr = Some (hsnap (hs s i)) ->
            pos_ok (keys (owner s cr)) (hpos (hs s i)) }.

Definition mono (x x' : cont) : Prop :=
  crew x' = crew x /\ (ver x <= ver x')%nat /\ (ver x' = ver x -> keys x' = keys x).

Lemma mono_refl x : mono x x.
Proof. repeat split; auto. Qed.
Lemma mono_trans x y z : mono x y -> mono y z -> mono x z.
Proof.
  intros (a1 & a2 & a3) (b1 & b2 & b3). repeat split; try congruence; try lia.
  intros E. assert (ver y = ver x) by lia. assert (ver z = ver y) by lia. rewrite b3, a3; auto.
Qed.

Lemma getc_setc_same s c x : getc (setc s c x) c = x.
Proof. destruct c; reflexivity. Qed.
Lemma getc_setc_other s c x : getc (setc s c x) (negb c) = getc s (negb c).
Proof. destruct c; reflexivity. Qed.
Lemma hs_setc s c x : hs (setc s c x) = hs s.
Proof. destruct c; reflexivity. Qed.

Lemma ver_of_crew_getc s c : Inv s -> ver_of_crew s (crew (getc s c)) = Some (ver (getc s c)).
Proof.
  intros I. unfold ver_of_crew. destruct c; simpl.
  - destruct (Nat.eqb_spec (crew (w0 s)) (crew (w1 s))) as [E|E]; [destruct (inv_crews _ I E)|].
    rewrite Nat.eqb_refl. reflexivity.
  - rewrite Nat.eqb_refl. reflexivity.
Qed.
Lemma owner_getc s c : Inv s -> owner s (crew (getc s c)) = getc s c.
Proof.
  intros I. unfold owner. destruct c; simpl.
  - destruct (Nat.eqb_spec (crew (w0 s)) (crew (w1 s))) as [E|E]; [destruct (inv_crews _ I E)|]. reflexivity.
  - rewrite Nat.eqb_refl. reflexivity.
Qed.

Lemma Inv_setc s c x' : Inv s -> mono (getc s c) x' -> Inv (setc s c x').
Proof.
  intros I (m1 & m2 & m3). pose proof (inv_crews _ I) as D.
  constructor.
  - destruct c; simpl in *; congruence.
  - intros i cr H. rewrite hs_setc in *. destruct (inv_snap _ I i cr H) as (v & Hv & Hle).
    unfold ver_of_crew in *. destruct c; simpl in *.
    + destruct (Nat.eqb (crew (w0 s)) cr); [eauto|]. rewrite m1.
      destruct (Nat.eqb (crew (w1 s)) cr); [|discriminate]. inversion Hv; subst. eexists; split; [reflexivity|lia].
    + rewrite m1. destruct (Nat.eqb (crew (w0 s)) cr); [inversion Hv; subst; eexists; split; [reflexivity|lia]|eauto].
  - intros i cr H F. rewrite hs_setc in *. destruct (inv_snap _ I i cr H) as (v & Hv & Hle).
    pose proof (inv_acc _ I i cr H) as A.
    unfold ver_of_crew, owner in *. destruct c; simpl in *.
    + destruct (Nat.eqb (crew (w0 s)) cr) eqn:E0; [auto|]. rewrite m1 in F.
      destruct (Nat.eqb (crew (w1 s)) cr) eqn:E1; [|discriminate].
      inversion Hv; subst. inversion F. rewrite m3 by lia. apply A. f_equal. lia.
    + rewrite m1 in *. destruct (Nat.eqb (crew (w0 s)) cr) eqn:E0; [|auto].
      inversion Hv; subst. inversion F. rewrite m3 by lia. apply A. f_equal. lia.
Qed.

Lemma Inv_seth_null s i : Inv s -> Inv (seth s i hnull).
Proof.
  intros I. constructor; simpl.
  - apply (inv_crews _ I).
  - intros j cr. destruct (Nat.eqb j i); [discriminate|]. apply (inv_snap _ I).
  - intros j cr. destruct (Nat.eqb j i); [discriminate|]. apply (inv_acc _ I).
Qed.

Lemma Inv_seth_fresh s i c p mov : Inv s -> pos_ok (keys (getc s c)) p -> Inv (seth s i (fresh (getc s c) p mov)).
Proof.
  intros I P. constructor; simpl.
  - apply (inv_crews _ I).
  - intros j cr. destruct (Nat.eqb j i); [|apply (inv_snap _ I)]. simpl. intros H; inversion H; subst.
    exists (ver (getc s c)). split; [apply (ver_of_crew_getc s c I)|lia].
  - intros j cr. destruct (Nat.eqb j i); [|apply (inv_acc _ I)]. simpl. intros H _; inversion H; subst.
    change (owner (seth s i (fresh (getc s c) p mov)) (crew (getc s c))) with (owner s (crew (getc s c))).
    rewrite owner_getc; auto.
Qed.

Lemma Inv_seth_repos s i p :
  Inv s ->
  (forall cr, hcrew (hs s i) = Some cr -> ver_of_crew s cr = Some (hsnap (hs s i)) -> pos_ok (keys (owner s cr)) p) ->
  Inv (seth s i (repos (hs s i) p)).
Proof.
  intros I P. constructor; simpl.
  - apply (inv_crews _ I).
  - intros j cr. destruct (Nat.eqb j i); [|apply (inv_snap _ I)]. simpl. apply (inv_snap _ I).
  - intros j cr. destruct (Nat.eqb j i); [|apply (inv_acc _ I)]. simpl. apply P.
Qed.

Definition swapst (s : state) : state := mkS (w1 s) (w0 s) (hs s).
Lemma Inv_swap s : Inv s -> Inv (swapst s).
Proof.
  intros I. pose proof (inv_crews _ I) as D. constructor; simpl.
  - congruence.
  - intros i cr H. destruct (inv_snap _ I i cr H) as (v & Hv & Hle). exists v. split; [|exact Hle].
    unfold ver_of_crew in *; simpl.
    destruct (Nat.eqb_spec (crew (w0 s)) cr), (Nat.eqb_spec (crew (w1 s)) cr); try congruence.
  - intros i cr H F. pose proof (inv_acc _ I i cr H) as A.
    unfold ver_of_crew, owner in *; simpl in *.
    destruct (Nat.eqb_spec (crew (w0 s)) cr), (Nat.eqb_spec (crew (w1 s)) cr); try congruence; auto.
Qed.

(* ---------- list facts ---------- *)
Lemma mem_In k l : mem k l = true <-> In k l.
Proof.
  unfold mem. rewrite existsb_exists. split.
  - intros (x & Hx & E). apply Z.eqb_eq in E. subst; auto.
  - intros H. exists k. split; auto. apply Z.eqb_refl.
Qed.
Lemma mem_false k l : mem k l = false -> ~ In k l.
Proof. intros H I. apply mem_In in I. congruence. Qed.
Lemma In_ins k l : In k (ins k l).
Proof.
  induction l as [|x t IH]; simpl; auto.
  destruct (k <? x); simpl; auto. destruct (Z.eqb_spec k x); subst; simpl; auto.
Qed.
Lemma upper_In k l u : upper k l = Some u -> In u l.
Proof. induction l as [|x t IH]; simpl; [discriminate|]. destruct (k <? x); intros H; [inversion H; auto|auto]. Qed.
Lemma lower_In k l u : lower k l = Some u -> In u l.
Proof. induction l as [|x t IH]; simpl; [discriminate|]. destruct (k <=? x); intros H; [inversion H; auto|auto]. Qed.
Lemma prevk_In k l u : prevk k l = Some u -> In u l.
Proof.
  revert u. induction l as [|x t IH]; simpl; [discriminate|]. intros u.
  destruct (x <? k); [|discriminate]. destruct (prevk k t) eqn:E; intros H; inversion H; subst; auto.
Qed.
Lemma lastk_In l u : lastk l = Some u -> In u l.
Proof.
  unfold lastk. destruct (rev l) eqn:E; [discriminate|]. intros H; inversion H; subst.
  apply in_rev. rewrite E. left; reflexivity.
Qed.
Lemma hd_error_In (l : list Z) u : hd_error l = Some u -> In u l.
Proof. destruct l; simpl; [discriminate|]. intros H; inversion H; auto. Qed.
Lemma pos_of_ok l o : (forall u, o = Some u -> In u l) -> pos_ok l (pos_of o).
Proof. destruct o; simpl; auto. Qed.
Lemma filter_len0 (f : Z -> bool) l : length (filter f l) = 0%nat -> filter (fun z => negb (f z)) l = l.
Proof.
  induction l as [|x t IH]; simpl; auto. destruct (f x); simpl; [discriminate|]. intros H. f_equal; auto.
Qed.
Lemma filter_len0' (f : Z -> bool) l : length (filter (fun z => negb (f z)) l) = 0%nat -> filter f l = l.
Proof.
  induction l as [|x t IH]; simpl; auto. destruct (f x); simpl; [|discriminate]. intros H. f_equal; auto.
Qed.

(* ---------- the primitive container updates are monotone: the version never decreases, and the contents
   can only change together with the version ---------- *)
Lemma mono_add1 k x key : mono x (add1 k x key).
Proof. destruct k; repeat split; simpl; try lia. Qed.
Lemma mono_ins1 k x key : mono x (ins1 k x key).
Proof. unfold ins1. destruct (mem key (keys x)); [apply mono_refl|apply mono_add1]. Qed.
Lemma mono_rem1 x key : mono x (rem1 x key).
Proof. repeat split; simpl; try lia. Qed.
Lemma mono_bump_pos x n l c p : (0 < n)%nat -> mono x (bump x n l c p).
Proof. intros. repeat split; simpl; try lia. Qed.
Lemma mono_bump_same x n c p : mono x (bump x n (keys x) c p).
Proof. repeat split; simpl; try lia. Qed.
Lemma mono_ins_many k n : forall x a, mono x (ins_many k x a n).
Proof.
  induction n as [|n IH]; intros x a; simpl; [apply mono_refl|].
  eapply mono_trans; [apply (mono_ins1 k x a)|apply IH].
Qed.
Lemma fold_add1_ver k l : forall x, ver (fold_left (add1 k) l x) = (length l + ver x)%nat.
Proof.
  induction l as [|a t IH]; intros x; simpl; auto. rewrite IH. destruct k; simpl; lia.
Qed.
Lemma fold_add1_crew k l : forall x, crew (fold_left (add1 k) l x) = crew x.
Proof. induction l as [|a t IH]; intros x; simpl; auto. rewrite IH. destruct k; reflexivity. Qed.
Lemma mono_fold_add1 k l x : mono x (fold_left (add1 k) l x).
Proof.
  repeat split.
  - apply fold_add1_crew.
  - rewrite fold_add1_ver. lia.
  - rewrite fold_add1_ver. intros E. destruct l; [reflexivity|simpl in E; lia].
Qed.
Lemma mono_merge_src (f : Z -> bool) x c p :
  mono x (bump x (length (filter (fun z => negb (f z)) (keys x))) (filter f (keys x)) c p).
Proof.
  repeat split; simpl; try lia. intros E. apply filter_len0'. lia.
Qed.
Lemma mono_rmif (f : Z -> bool) x c p :
  mono x (bump x (length (filter f (keys x))) (filter (fun z => negb (f z)) (keys x)) c p).
Proof.
  repeat split; simpl; try lia. intros E. apply filter_len0. lia.
Qed.

(* ---------- every step preserves the invariant ---------- *)
Lemma Inv_setc_seth_fresh s c x' i p mov :
  Inv s -> mono (getc s c) x' -> pos_ok (keys x') p -> Inv (seth (setc s c x') i (fresh x' p mov)).
Proof.
  intros I M P. pose proof (Inv_setc s c x' I M) as I1.
  rewrite <- (getc_setc_same s c x') at 2. apply Inv_seth_fresh; auto. rewrite getc_setc_same. exact P.
Qed.
Lemma Inv_put s c a' b' :
  Inv s -> mono (getc s c) a' -> mono (getc s (negb c)) b' -> Inv (setc (setc s c a') (negb c) b').
Proof.
  intros I Ma Mb. apply Inv_setc; [apply Inv_setc; auto|]. rewrite getc_setc_other. exact Mb.
Qed.
Lemma Inv_put_swap s c a' b' :
  Inv s -> mono (getc s (negb c)) a' -> mono (getc s c) b' -> Inv (setc (setc s c a') (negb c) b').
Proof.
  intros I Ma Mb.
  replace (setc (setc s c a') (negb c) b') with (setc (setc (swapst s) c a') (negb c) b') by (destruct c; reflexivity).
  apply Inv_put; [apply Inv_swap; auto| |]; destruct c; simpl in *; auto.
Qed.
Lemma In_ins1 k x key : In key (keys (ins1 k x key)).
Proof.
  unfold ins1. destruct (mem key (keys x)) eqn:E; [apply mem_In; auto|]. destruct k; simpl; apply In_ins.
Qed.
Lemma In_add1 k x key : In key (keys (add1 k x key)).
Proof. destruct k; simpl; apply In_ins. Qed.

Ltac pos_tac :=
  simpl;
  first [ exact I
        | apply In_ins1 | apply In_add1 | apply In_ins
        | apply mem_In; assumption
        | apply mem_false; assumption
        | solve [apply pos_of_ok; intros ? ?; eauto using upper_In, lower_In, prevk_In, lastk_In, hd_error_In]
        | solve [eauto using upper_In, lower_In, prevk_In, lastk_In, hd_error_In] ].
Ltac mono_tac :=
  first [ apply mono_refl | apply mono_add1 | apply mono_ins1 | apply mono_rem1 | apply mono_ins_many
        | apply mono_bump_same | apply mono_rmif | apply mono_merge_src | apply mono_fold_add1
        | apply mono_bump_pos; lia ].
Ltac inv_tac I :=
  first [ exact I
        | apply Inv_seth_null; exact I
        | apply Inv_seth_fresh; [exact I|pos_tac]
        | apply Inv_setc_seth_fresh; [exact I|mono_tac|pos_tac]
        | apply Inv_setc; [exact I|mono_tac]
        | apply Inv_put; [exact I|mono_tac|mono_tac]
        | apply Inv_put_swap; [exact I|mono_tac|mono_tac]
        | apply Inv_swap; exact I ].

(* assignment: the destination's crew is replaced (by the source's, or by a fresh one) and the handles into the destroyed crew are dropped *)
Lemma newcrew_gt s : (crew (w0 s) < newcrew s)%nat /\ (crew (w1 s) < newcrew s)%nat.
Proof. unfold newcrew. lia. Qed.
Lemma Inv_assign s (a' b' : cont) (dead : nat) :
  Inv s ->
  (* the new pair of containers: one of them is an OLD container kept as it is (same crew, version, keys), the other has a fresh crew *)
  forall keep fresh_c : cont, forall (swap : bool),
  (keep = w0 s \/ keep = w1 s) -> dead = (if Nat.eqb (crew keep) (crew (w0 s)) then crew (w1 s) else crew (w0 s)) ->
  crew fresh_c = newcrew s ->
  Inv (if swap then mkS keep fresh_c (drop_crew s dead) else mkS fresh_c keep (drop_crew s dead)).
Proof.
  intros I keep fresh_c swap Hk Hd Hf. pose proof (inv_crews _ I) as D. destruct (newcrew_gt s) as (G0 & G1).
  assert (CK : crew keep = crew (w0 s) \/ crew keep = crew (w1 s)) by (destruct Hk; subst; auto).
  assert (NF : crew fresh_c <> crew keep) by (destruct CK as [E|E]; rewrite E, Hf; lia).
  (* facts about a surviving handle *)
  assert (SV : forall j cr, hcrew (drop_crew s dead j) = Some cr -> drop_crew s dead j = hs s j /\ cr = crew keep /\ cr <> dead).
  { intros j cr. unfold drop_crew. destruct (hcrew (hs s j)) as [c|] eqn:HC; [|rewrite HC; discriminate].
    destruct (Nat.eqb_spec c dead) as [E|E]; [discriminate|]. rewrite HC. intros H; inversion H; subst c.
    split; [reflexivity|]. split; [|exact E].
    destruct (inv_snap _ I j cr HC) as (v & Hv & _). unfold ver_of_crew in Hv.
    destruct (Nat.eqb_spec (crew (w0 s)) cr) as [E0|E0].
    - subst cr. destruct CK as [E1|E1]; [congruence|]. exfalso. apply E. subst dead.
      destruct (Nat.eqb_spec (crew keep) (crew (w0 s))); congruence.
    - destruct (Nat.eqb_spec (crew (w1 s)) cr) as [E1|E1]; [|discriminate]. subst cr.
      destruct CK as [E2|E2]; [|congruence]. exfalso. apply E. subst dead. rewrite E2, Nat.eqb_refl. reflexivity. }
  assert (KV : forall cr, cr = crew keep -> ver_of_crew s cr = Some (ver keep) /\ owner s cr = keep).
  { intros cr E. subst cr. unfold ver_of_crew, owner. destruct Hk; subst keep.
    - rewrite Nat.eqb_refl. auto.
    - destruct (Nat.eqb_spec (crew (w0 s)) (crew (w1 s))); [congruence|]. rewrite Nat.eqb_refl. auto. }
  destruct swap; constructor; simpl.
  - congruence.
  - intros j cr H. destruct (SV j cr H) as (E & Ec & _). rewrite E. destruct (KV cr Ec) as (V & _).
    destruct (inv_snap _ I j cr ltac:(rewrite <- E; exact H)) as (v & Hv & L). rewrite V in Hv. inversion Hv; subst v.
    exists (ver keep). split; [|exact L]. unfold ver_of_crew; simpl. subst cr. rewrite Nat.eqb_refl. reflexivity.
  - intros j cr H F. destruct (SV j cr H) as (E & Ec & _). rewrite E in *. destruct (KV cr Ec) as (V & O).
    pose proof (inv_acc _ I j cr H) as A. rewrite V, O in A.
    unfold ver_of_crew, owner in *; simpl in *. subst cr. rewrite Nat.eqb_refl in *. apply A. exact F.
  - congruence.
  - intros j cr H. destruct (SV j cr H) as (E & Ec & _). rewrite E. destruct (KV cr Ec) as (V & _).
    destruct (inv_snap _ I j cr ltac:(rewrite <- E; exact H)) as (v & Hv & L). rewrite V in Hv. inversion Hv; subst v.
    exists (ver keep). split; [|exact L]. unfold ver_of_crew; simpl. subst cr.
    destruct (Nat.eqb_spec (crew fresh_c) (crew keep)); [congruence|]. rewrite Nat.eqb_refl. reflexivity.
  - intros j cr H F. destruct (SV j cr H) as (E & Ec & _). rewrite E in *. destruct (KV cr Ec) as (V & O).
    pose proof (inv_acc _ I j cr H) as A. rewrite V, O in A.
    unfold ver_of_crew, owner in *; simpl in *. subst cr.
    destruct (Nat.eqb_spec (crew fresh_c) (crew keep)); [congruence|]. rewrite Nat.eqb_refl in *. apply A. exact F.
Qed.

Lemma step_inv k s o : Inv s -> Inv (fst (step k s o)).
Proof.
  intros I. destruct o; cbn [step].
  - unfold do_find, tree_end; cbv zeta; dmatch; cbn [fst]; inv_tac I.
  - unfold do_begin; cbv zeta; dmatch; cbn [fst]; try inv_tac I.
    apply Inv_seth_fresh; [exact I|]. rewrite Heql. simpl; auto.
  - unfold do_end, tree_end; cbv zeta; dmatch; cbn [fst]; inv_tac I.
  - unfold do_bound, tree_end; cbv zeta; dmatch; cbn [fst]; inv_tac I.
  - unfold do_bound, tree_end; cbv zeta; dmatch; cbn [fst]; inv_tac I.
  - unfold do_deref; cbv zeta; dmatch; cbn [fst]; inv_tac I.
  - unfold do_inc; cbv zeta; dmatch; cbn [fst]; try inv_tac I.
    + apply Inv_seth_repos; [exact I|]. simpl; auto.
    + apply Inv_seth_repos; [exact I|]. simpl; auto.
    + apply Inv_seth_repos; [exact I|]. intros cr Hc _.
      rewrite Hc in *. match goal with H : Some _ = Some _ |- _ => inversion H; subst end.
      apply pos_of_ok. intros u Hu. eapply upper_In; eauto.
  - unfold do_dec; cbv zeta; dmatch; cbn [fst]; try inv_tac I.
    + apply Inv_seth_repos; [exact I|]. intros cr Hc _.
      rewrite Hc in *. match goal with H : Some _ = Some _ |- _ => inversion H; subst end.
      simpl. eapply prevk_In; eauto.
    + apply Inv_seth_repos; [exact I|]. intros cr Hc _.
      rewrite Hc in *. match goal with H : Some _ = Some _ |- _ => inversion H; subst end.
      simpl. eapply lastk_In; eauto.
  - unfold do_addat; cbv zeta; dmatch; cbn [fst]; try inv_tac I.
    all: apply Inv_setc_seth_fresh; [exact I|mono_tac|apply In_add1].
  - unfold do_rmat; cbv zeta; dmatch; cbn [fst]; inv_tac I.
  - unfold do_rmat; cbv zeta; dmatch; cbn [fst]; inv_tac I.
  - unfold do_rmrange; cbv zeta; dmatch; cbn [fst]; inv_tac I.
  - unfold do_reset; cbv zeta; dmatch; cbn [fst]; inv_tac I.
  - unfold do_chk; cbv zeta; dmatch; cbn [fst]; inv_tac I.
  - unfold do_insert; cbv zeta; dmatch; cbn [fst]; inv_tac I.
  - cbn [fst]; inv_tac I.
  - unfold do_rmkey; cbv zeta; dmatch; cbn [fst]; inv_tac I.
  - unfold do_rmif; cbv zeta; dmatch; cbn [fst]; inv_tac I.
  - unfold do_clear; cbv zeta; dmatch; cbn [fst]; inv_tac I.
  - unfold do_reserve; cbv zeta; dmatch; cbn [fst]; inv_tac I.
  - unfold do_merge, merge_each; cbv zeta; dmatch; cbn [fst snd]; inv_tac I.
  - cbn [fst]; exact I.
  - unfold do_swap; cbn [fst]. apply (Inv_swap s I).
  - cbn [fst]; exact I.
  - cbn [fst]; exact I.
  - unfold do_moveassign; cbv zeta; cbn [fst]. pose proof (inv_crews _ I) as D. destruct src; cbn [getc negb].
    + (* source = w1: destination w0 takes w1, source becomes fresh *)
      apply (Inv_assign s (w1 s) (w1 s) (crew (w0 s)) I (w1 s) (empty_cont (newcrew s)) true); auto.
      destruct (Nat.eqb_spec (crew (w1 s)) (crew (w0 s))); [congruence|reflexivity].
    + apply (Inv_assign s (w0 s) (w0 s) (crew (w1 s)) I (w0 s) (empty_cont (newcrew s)) false); auto.
      rewrite Nat.eqb_refl. reflexivity.
  - unfold do_copyassign; cbv zeta; cbn [fst]. pose proof (inv_crews _ I) as D. destruct src; cbn [getc negb].
    + apply (Inv_assign s (w1 s) (w1 s) (crew (w0 s)) I (w1 s) (copy_cont k (newcrew s) (w1 s)) false); auto.
      * destruct (Nat.eqb_spec (crew (w1 s)) (crew (w0 s))); [congruence|reflexivity].
      * unfold copy_cont. destruct (keys (w1 s)); [reflexivity|destruct k; reflexivity].
    + apply (Inv_assign s (w0 s) (w0 s) (crew (w1 s)) I (w0 s) (copy_cont k (newcrew s) (w0 s)) true); auto.
      * rewrite Nat.eqb_refl. reflexivity.
      * unfold copy_cont. destruct (keys (w0 s)); [reflexivity|destruct k; reflexivity].
Qed.

(* ---------- versions are monotone ---------- *)
Definition ext (s s' : state) : Prop :=
  forall cr v, ver_of_crew s cr = Some v -> exists v', ver_of_crew s' cr = Some v' /\ (v <= v')%nat.
Lemma ext_refl s : ext s s.
Proof. intros cr v H; eauto. Qed.
Lemma ext_trans a b c : ext a b -> ext b c -> ext a c.
Proof. intros H1 H2 cr v H. destruct (H1 _ _ H) as (v1 & E1 & L1). destruct (H2 _ _ E1) as (v2 & E2 & L2). exists v2; split; auto; lia. Qed.
Lemma ext_seth s s' i h : ext s s' -> ext s (seth s' i h).
Proof. intros H cr v E. apply (H cr v E). Qed.
Lemma ext_setc s c x' : Inv s -> mono (getc s c) x' -> ext s (setc s c x').
Proof.
  intros I (m1 & m2 & m3) cr v H. pose proof (inv_crews _ I) as D.
  unfold ver_of_crew in *. destruct c; simpl in *.
  - destruct (Nat.eqb (crew (w0 s)) cr); [eauto|]. rewrite m1.
    destruct (Nat.eqb (crew (w1 s)) cr); [|discriminate]. inversion H; subst. eexists; split; [reflexivity|lia].
  - rewrite m1. destruct (Nat.eqb (crew (w0 s)) cr); [inversion H; subst; eexists; split; [reflexivity|lia]|eauto].
Qed.
Lemma ext_swap s : Inv s -> ext s (swapst s).
Proof.
  intros I cr v H. pose proof (inv_crews _ I) as D. exists v. split; [|lia].
  unfold ver_of_crew in *; simpl.
  destruct (Nat.eqb_spec (crew (w0 s)) cr), (Nat.eqb_spec (crew (w1 s)) cr); try congruence.
Qed.
Lemma ext_setc_seth s c x' i h : Inv s -> mono (getc s c) x' -> ext s (seth (setc s c x') i h).
Proof. intros. apply ext_seth, ext_setc; auto. Qed.
Lemma ext_put s c a' b' :
  Inv s -> mono (getc s c) a' -> mono (getc s (negb c)) b' -> ext s (setc (setc s c a') (negb c) b').
Proof.
  intros I Ma Mb. eapply ext_trans; [apply (ext_setc s c a' I Ma)|].
  apply ext_setc; [apply Inv_setc; auto|]. rewrite getc_setc_other. exact Mb.
Qed.
Lemma ext_put_swap s c a' b' :
  Inv s -> mono (getc s (negb c)) a' -> mono (getc s c) b' -> ext s (setc (setc s c a') (negb c) b').
Proof.
  intros I Ma Mb.
  replace (setc (setc s c a') (negb c) b') with (setc (setc (swapst s) c a') (negb c) b') by (destruct c; reflexivity).
  eapply ext_trans; [apply (ext_swap s I)|]. apply ext_put; [apply Inv_swap; auto| |]; destruct c; simpl in *; auto.
Qed.

Ltac ext_tac I :=
  first [ apply ext_refl
        | apply ext_seth; apply ext_refl
        | apply ext_setc_seth; [exact I|mono_tac]
        | apply ext_setc; [exact I|mono_tac]
        | apply ext_put; [exact I|mono_tac|mono_tac]
        | apply ext_put_swap; [exact I|mono_tac|mono_tac]
        | apply ext_swap; exact I ].

Definition is_assign (o : op) : bool := match o with OMoveAssign _ | OCopyAssign _ => true | _ => false end.
Lemma step_ext k s o : Inv s -> is_assign o = false -> ext s (fst (step k s o)).
Proof.
  intros I NA. destruct o; try discriminate NA; cbn [step];
  unfold do_find, do_begin, do_end, do_bound, do_deref, do_inc, do_dec, do_addat, do_rmat,
    do_rmrange, do_reset, do_chk, do_insert, do_rmkey, do_rmif, do_clear, do_reserve, do_merge, merge_each, do_swap, tree_end;
  cbv zeta; dmatch; cbn [fst snd]; ext_tac I.
Qed.

Lemma init_inv : Inv init.
Proof.
  constructor; simpl.
  - discriminate.
  - intros i cr H; discriminate.
  - intros i cr H; discriminate.
Qed.
Lemma run_inv k ops : forall s, Inv s -> Inv (run k s ops).
Proof. induction ops as [|o t IH]; intros s I; simpl; auto. apply IH, step_inv, I. Qed.
Lemma run_ext k ops : forall s, Inv s -> Forall (fun o => is_assign o = false) ops -> ext s (run k s ops).
Proof.
  induction ops as [|o t IH]; intros s I F; simpl; [apply ext_refl|]. inversion F; subst.
  eapply ext_trans; [apply (step_ext k s o I); auto|apply IH; [apply step_inv, I|auto]].
Qed.

Definition reachable (k : kind) (s : state) : Prop := exists ops, s = run k init ops.
Lemma reachable_inv k s : reachable k s -> Inv s.
Proof. intros (ops & E); subst. apply run_inv, init_inv. Qed.

(* versions never decrease, along any history from any reachable state *)
Lemma versions_monotone k s ops cr v :
  reachable k s -> Forall (fun o => is_assign o = false) ops -> ver_of_crew s cr = Some v ->
  exists v', ver_of_crew (run k s ops) cr = Some v' /\ (v <= v')%nat.
Proof. intros R F H. apply (run_ext k ops s (reachable_inv k s R) F cr v H). Qed.

(* the invariant some theorems take as a hypothesis is established: it holds initially, every operation preserves it, every reachable state has it *)
Lemma inv_established : Inv init /\ (forall k s o, Inv s -> Inv (fst (step k s o))) /\ (forall k s, reachable k s -> Inv s).
Proof. split; [exact init_inv|split; [exact step_inv|exact reachable_inv]]. Qed.

(* ---------- contents changed => version changed (review round: the keys clause of `mono`, for whole histories) ---------- *)
Definition extk (s s' : state) : Prop :=
  forall cr v, ver_of_crew s cr = Some v ->
    exists v', ver_of_crew s' cr = Some v' /\ (v <= v')%nat /\ (v' = v -> keys (owner s' cr) = keys (owner s cr)).
Lemma extk_refl s : extk s s.
Proof. intros cr v H; exists v; auto. Qed.
Lemma extk_trans a b c : extk a b -> extk b c -> extk a c.
Proof.
  intros H1 H2 cr v H. destruct (H1 _ _ H) as (v1 & E1 & L1 & K1). destruct (H2 _ _ E1) as (v2 & E2 & L2 & K2).
  exists v2; repeat split; auto; [lia|]. intros Q. assert (v1 = v) by lia. assert (v2 = v1) by lia. rewrite K2, K1; auto.
Qed.
Lemma extk_seth s s' i h : extk s s' -> extk s (seth s' i h).
Proof. intros H cr v E. apply (H cr v E). Qed.
Lemma extk_setc s c x' : Inv s -> mono (getc s c) x' -> extk s (setc s c x').
Proof.
  intros I (m1 & m2 & m3) cr v H. pose proof (inv_crews _ I) as D.
  unfold ver_of_crew, owner in *. destruct c; simpl in *.
  - destruct (Nat.eqb (crew (w0 s)) cr); [exists v; auto|].
    destruct (Nat.eqb (crew (w1 s)) cr) eqn:E1; [|discriminate]. inversion H; subst. rewrite m1, E1.
    eexists; split; [reflexivity|split; [lia|]]. intros Q. apply m3. exact Q.
  - rewrite m1. destruct (Nat.eqb (crew (w0 s)) cr).
    + inversion H; subst. eexists; split; [reflexivity|split; [lia|]]. intros Q. apply m3. exact Q.
    + destruct (Nat.eqb (crew (w1 s)) cr); [|discriminate]. exists v; auto.
Qed.
Lemma extk_swap s : Inv s -> extk s (swapst s).
Proof.
  intros I cr v H. pose proof (inv_crews _ I) as D. exists v.
  unfold ver_of_crew, owner in *; simpl.
  destruct (Nat.eqb_spec (crew (w0 s)) cr), (Nat.eqb_spec (crew (w1 s)) cr); try congruence; auto.
Qed.
Lemma extk_setc_seth s c x' i h : Inv s -> mono (getc s c) x' -> extk s (seth (setc s c x') i h).
Proof. intros. apply extk_seth, extk_setc; auto. Qed.
Lemma extk_put s c a' b' :
  Inv s -> mono (getc s c) a' -> mono (getc s (negb c)) b' -> extk s (setc (setc s c a') (negb c) b').
Proof.
  intros I Ma Mb. eapply extk_trans; [apply (extk_setc s c a' I Ma)|].
  apply extk_setc; [apply Inv_setc; auto|]. rewrite getc_setc_other. exact Mb.
Qed.
Lemma extk_put_swap s c a' b' :
  Inv s -> mono (getc s (negb c)) a' -> mono (getc s c) b' -> extk s (setc (setc s c a') (negb c) b').
Proof.
  intros I Ma Mb.
  replace (setc (setc s c a') (negb c) b') with (setc (setc (swapst s) c a') (negb c) b') by (destruct c; reflexivity).
  eapply extk_trans; [apply (extk_swap s I)|]. apply extk_put; [apply Inv_swap; auto| |]; destruct c; simpl in *; auto.
Qed.
Ltac extk_tac I :=
  first [ apply extk_refl
        | apply extk_seth; apply extk_refl
        | apply extk_setc_seth; [exact I|mono_tac]
        | apply extk_setc; [exact I|mono_tac]
        | apply extk_put; [exact I|mono_tac|mono_tac]
        | apply extk_put_swap; [exact I|mono_tac|mono_tac]
        | apply extk_swap; exact I ].
Lemma step_extk k s o : Inv s -> is_assign o = false -> extk s (fst (step k s o)).
Proof.
  intros I NA. destruct o; try discriminate NA; cbn [step];
  unfold do_find, do_begin, do_end, do_bound, do_deref, do_inc, do_dec, do_addat, do_rmat,
    do_rmrange, do_reset, do_chk, do_insert, do_rmkey, do_rmif, do_clear, do_reserve, do_merge, merge_each, do_swap, tree_end;
  cbv zeta; dmatch; cbn [fst snd]; extk_tac I.
Qed.
Lemma run_extk k ops : forall s, Inv s -> Forall (fun o => is_assign o = false) ops -> extk s (run k s ops).
Proof.
  induction ops as [|o t IH]; intros s I F; simpl; [apply extk_refl|]. inversion F; subst.
  eapply extk_trans; [apply (step_extk k s o I); auto|apply IH; [apply step_inv, I|auto]].
Qed.
(* for every reachable state and every history without assignments: a container (identified by its version cell) whose version is
   the same afterwards holds the same keys -- i.e. ANY change of the contents comes with a version change *)
Lemma contents_change_bumps_version k s ops cr v :
  reachable k s -> Forall (fun o => is_assign o = false) ops -> ver_of_crew s cr = Some v ->
  ver_of_crew (run k s ops) cr = Some v -> keys (owner (run k s ops) cr) = keys (owner s cr).
Proof.
  intros R F H E. destruct (run_extk k ops s (reachable_inv k s R) F cr v H) as (v' & E' & _ & K).
  rewrite E in E'. inversion E'; subst. apply K. reflexivity.
Qed.

(* ---------- stale handles ---------- *)
Definition stale (s : state) (h : handle) : Prop :=
  match hcrew h with Some cr => ver_of_crew s cr <> Some (hsnap h) | None => False end.

Inductive uses (k : kind) (i : nat) : op -> Prop :=
| U_deref : uses k i (ODeref i)
| U_inc : uses k i (OInc i)
| U_dec : k = KTree -> uses k i (ODec i)
| U_addat c key : uses k i (OAddAt c i key)
| U_rmat c : uses k i (ORemoveAt c i)
| U_extract c : uses k i (OExtract c i)
| U_reset c key : uses k i (OResetKey c i key)
| U_chk c a : uses k i (OChk c i a)
| U_range1 c j : k = KTree -> uses k i (ORemoveRange c i j)
| U_range2 c j : k = KTree -> uses k i (ORemoveRange c j i).

Lemma stale_chk_self s h : stale s h -> chk_self s h = false.
Proof.
  unfold stale, chk_self. destruct (hcrew h); [|tauto]. intros H.
  destruct (ver_of_crew s n); auto. destruct (Nat.eqb_spec n0 (hsnap h)); auto. subst; congruence.
Qed.
Lemma stale_chk_cont s c h a : Inv s -> stale s h -> chk_cont (getc s c) h a = false.
Proof.
  unfold stale, chk_cont. intros I. destruct (hcrew h); [|tauto]. intros H.
  destruct (Nat.eqb_spec n (crew (getc s c))); simpl; auto. subst n.
  rewrite (ver_of_crew_getc s c I) in H.
  destruct (Nat.eqb_spec (hsnap h) (ver (getc s c))); auto. congruence.
Qed.

(* a handle whose snapshot differs from the current version of its container is rejected by every use,
   and the rejected call changes nothing *)
Lemma stale_rejected k s i o :
  Inv s -> stale s (hs s i) -> uses k i o -> step k s o = (s, Rej).
Proof.
  intros I S U. pose proof (stale_chk_self _ _ S) as CS.
  assert (CC : forall c a, chk_cont (getc s c) (hs s i) a = false) by (intros; apply stale_chk_cont; auto).
  assert (HC : exists cr, hcrew (hs s i) = Some cr) by (unfold stale in S; destruct (hcrew (hs s i)); [eauto|tauto]).
  destruct HC as (cr & HC).
  destruct U; subst; cbn [step];
    unfold do_deref, do_inc, do_dec, do_addat, do_rmat, do_reset, do_chk, do_rmrange; cbv zeta;
    rewrite ?CS, ?CC, ?HC, ?andb_false_r; simpl; dmatch; reflexivity.
Qed.

Definition writes (o : op) (i : nat) : bool :=
  match o with
  | OFind _ _ j | OBegin _ j | OEnd _ j | OLower _ _ j | OUpper _ _ j | OInc j | ODec j
  | OAddAt _ j _ | OInsert _ _ j => Nat.eqb j i
  | OMoveAssign _ | OCopyAssign _ => true      (* an assignment destroys a version cell: every handle into it is dropped *)
  | _ => false
  end.
Lemma writes_false_not_assign o i : writes o i = false -> is_assign o = false.
Proof. destruct o; simpl; auto; discriminate. Qed.
Lemma hs_unwritten k s o i : writes o i = false -> hs (fst (step k s o)) i = hs s i.
Proof.
  destruct o; cbn [step writes]; intros W; try discriminate W;
  unfold do_find, do_begin, do_end, do_bound, do_deref, do_inc, do_dec, do_addat, do_rmat,
    do_rmrange, do_reset, do_chk, do_insert, do_rmkey, do_rmif, do_clear, do_reserve, do_merge, merge_each, do_swap, tree_end;
  cbv zeta; dmatch; cbn [fst snd]; rewrite ?hs_setc; simpl; rewrite ?hs_setc; try rewrite Nat.eqb_sym, W; try reflexivity.
Qed.

Lemma stale_preserved k s o i :
  Inv s -> stale s (hs s i) -> writes o i = false ->
  stale (fst (step k s o)) (hs (fst (step k s o)) i).
Proof.
  intros I S W. rewrite (hs_unwritten k s o i W). unfold stale in *.
  destruct (hcrew (hs s i)) as [cr|] eqn:HC; [|tauto].
  destruct (inv_snap _ I i cr HC) as (v & Hv & Hle).
  destruct (step_ext k s o I (writes_false_not_assign o i W) cr v Hv) as (v' & Hv' & Hle'). rewrite Hv'. rewrite Hv in S.
  intros E; inversion E; subst. apply S. f_equal. lia.
Qed.

(* any step that changes the version of the handle's container (and does not overwrite the slot) makes it stale *)
Lemma modification_makes_stale k s o i cr :
  Inv s -> hcrew (hs s i) = Some cr -> writes o i = false ->
  ver_of_crew (fst (step k s o)) cr <> ver_of_crew s cr ->
  stale (fst (step k s o)) (hs (fst (step k s o)) i).
Proof.
  intros I HC W D. rewrite (hs_unwritten k s o i W). unfold stale. rewrite HC.
  destruct (inv_snap _ I i cr HC) as (v & Hv & Hle).
  destruct (step_ext k s o I (writes_false_not_assign o i W) cr v Hv) as (v' & Hv' & Hle'). rewrite Hv' in *. rewrite Hv in D.
  intros E; inversion E; subst. apply D. f_equal. lia.
Qed.

Lemma stale_forever k ops : forall s i,
  Inv s -> stale s (hs s i) -> Forall (fun o => writes o i = false) ops ->
  stale (run k s ops) (hs (run k s ops) i).
Proof.
  induction ops as [|o t IH]; intros s i I S F; simpl; auto.
  inversion F; subst. apply IH; auto. apply step_inv; auto. apply stale_preserved; auto.
Qed.

(* the history form: once a modification has happened after the handle was taken, every later use is rejected,
   whatever happens in between (as long as the slot is not re-assigned) *)
Lemma stale_rejected_history k s o ops i cr u :
  reachable k s -> hcrew (hs s i) = Some cr -> writes o i = false ->
  ver_of_crew (fst (step k s o)) cr <> ver_of_crew s cr ->
  Forall (fun o => writes o i = false) ops -> uses k i u ->
  let s' := run k (fst (step k s o)) ops in step k s' u = (s', Rej).
Proof.
  intros R HC W D F U s'. pose proof (reachable_inv k s R) as I.
  apply (stale_rejected k s' i u); auto.
  - apply run_inv, step_inv, I.
  - apply stale_forever; auto. apply step_inv, I. eapply modification_makes_stale; eauto.
Qed.

(* ---------- fresh handles are accepted ---------- *)
Lemma fresh_chk_self s c h : Inv s -> hcrew h = Some (crew (getc s c)) -> hsnap h = ver (getc s c) -> chk_self s h = true.
Proof. intros I HC HS. unfold chk_self. rewrite HC, (ver_of_crew_getc s c I), HS. apply Nat.eqb_refl. Qed.
Lemma fresh_chk_cont s c h a : hcrew h = Some (crew (getc s c)) -> hsnap h = ver (getc s c) -> chk_cont (getc s c) h a = true.
Proof. intros HC HS. unfold chk_cont. rewrite HC, HS, !Nat.eqb_refl. reflexivity. Qed.

(* a handle whose snapshot equals the current version of the container it was taken from, and which points at an
   element, still points at an element of that container, and reading it, checking it, advancing it and
   ResetKey (same key) through it are all accepted *)
Lemma fresh_accepted k s c i key :
  Inv s -> hcrew (hs s i) = Some (crew (getc s c)) -> hsnap (hs s i) = ver (getc s c) -> hpos (hs s i) = PElem key ->
  In key (keys (getc s c)) /\
  step k s (ODeref i) = (s, Acc (Some key)) /\
  step k s (OChk c i false) = (s, Acc None) /\
  step k s (OResetKey c i key) = (s, Acc None) /\
  snd (step k s (OInc i)) = Acc None /\
  (cap (getc s c) <> None -> exists s', step k s (ORemoveAt c i) = (s', Acc (Some key)) /\ ver (getc s' c) = S (ver (getc s c))).
Proof.
  intros I HC HS HP.
  pose proof (fresh_chk_self s c _ I HC HS) as CS. pose proof (fun a => fresh_chk_cont s c _ a HC HS) as CC.
  assert (HIn : In key (keys (getc s c))).
  { pose proof (inv_acc _ I i _ HC) as A. rewrite (ver_of_crew_getc s c I), HS in A. specialize (A eq_refl).
    rewrite (owner_getc s c I), HP in A. exact A. }
  split; [exact HIn|]. cbn [step]. unfold do_deref, do_chk, do_reset, do_inc, do_rmat; cbv zeta.
  rewrite CS, !CC, HP, Z.eqb_refl, HC. repeat split.
  - destruct k; reflexivity.
  - intros NC. destruct k; destruct (cap (getc s c)) eqn:E; try congruence;
      (eexists; split; [reflexivity|rewrite getc_setc_same; reflexivity]).
Qed.

Definition nonmod (o : op) : bool :=
  match o with
  | OFind _ _ _ | OBegin _ _ | OEnd _ _ | OLower _ _ _ | OUpper _ _ _ | ODeref _ | OInc _ | ODec _
  | OChk _ _ _ | OResetKey _ _ _ | OCount _ | OHas _ _ | OMergeSelf _ => true
  | _ => false
  end.
(* the operations the model treats as non-modifying never change any version or any contents *)
Lemma nonmodifying_keeps_containers k s o : nonmod o = true -> w0 (fst (step k s o)) = w0 s /\ w1 (fst (step k s o)) = w1 s.
Proof.
  destruct o; cbn [nonmod step]; try discriminate; intros _;
  unfold do_find, do_begin, do_end, do_bound, do_deref, do_inc, do_dec, do_reset, do_chk, tree_end; cbv zeta; dmatch; cbn [fst]; auto.
Qed.
Lemma run_nonmod k ops : forall s, Forall (fun o => nonmod o = true) ops -> w0 (run k s ops) = w0 s /\ w1 (run k s ops) = w1 s.
Proof.
  induction ops as [|o t IH]; intros s F; simpl; auto. inversion F; subst.
  destruct (IH (fst (step k s o)) H2) as (A & B). destruct (nonmodifying_keeps_containers k s o H1) as (C & D).
  split; congruence.
Qed.
Lemma run_unwritten k ops i : forall s, Forall (fun o => writes o i = false) ops -> hs (run k s ops) i = hs s i.
Proof.
  induction ops as [|o t IH]; intros s F; simpl; auto. inversion F; subst.
  rewrite IH by auto. apply hs_unwritten; auto.
Qed.

(* history form: a handle to an element obtained after the last modification stays accepted after any number of
   non-modifying operations (Find, iteration through other handles, CheckIterator, ResetKey, GetCount, ...) *)
Lemma fresh_accepted_after_queries k s c i key ops :
  reachable k s -> hcrew (hs s i) = Some (crew (getc s c)) -> hsnap (hs s i) = ver (getc s c) -> hpos (hs s i) = PElem key ->
  Forall (fun o => nonmod o = true) ops -> Forall (fun o => writes o i = false) ops ->
  let s' := run k s ops in step k s' (ODeref i) = (s', Acc (Some key)) /\ In key (keys (getc s' c)).
Proof.
  intros R HC HS HP FN FW s'. pose proof (reachable_inv k s R) as I.
  assert (I' : Inv s') by (apply run_inv; auto).
  destruct (run_nonmod k ops s FN) as (A & B).
  assert (G : getc s' c = getc s c) by (destruct c; simpl; auto).
  pose proof (run_unwritten k ops i s FW) as Hh. fold s' in Hh.
  assert (P : hcrew (hs s' i) = Some (crew (getc s' c)) /\ hsnap (hs s' i) = ver (getc s' c) /\ hpos (hs s' i) = PElem key)
    by (rewrite Hh, G; auto).
  destruct P as (P1 & P2 & P3).
  destruct (fresh_accepted k s' c i key I' P1 P2 P3) as (X1 & X2 & _). split; assumption.
Qed.

(* more generally: accepted whenever the version is unchanged (covers Insert of an existing key, Reserve within the
   capacity, Clear of a table without buckets, rejected calls, operations on the other container, ...) *)
Lemma fresh_accepted_if_version_unchanged k s c i key ops :
  reachable k s -> hcrew (hs s i) = Some (crew (getc s c)) -> hsnap (hs s i) = ver (getc s c) -> hpos (hs s i) = PElem key ->
  Forall (fun o => writes o i = false) ops ->
  let s' := run k s ops in
  crew (getc s' c) = crew (getc s c) -> ver (getc s' c) = ver (getc s c) ->
  step k s' (ODeref i) = (s', Acc (Some key)) /\ In key (keys (getc s' c)).
Proof.
  intros R HC HS HP FW s' EC EV. pose proof (reachable_inv k s R) as I.
  assert (I' : Inv s') by (apply run_inv; auto).
  pose proof (run_unwritten k ops i s FW) as Hh. fold s' in Hh.
  assert (P : hcrew (hs s' i) = Some (crew (getc s' c)) /\ hsnap (hs s' i) = ver (getc s' c) /\ hpos (hs s' i) = PElem key)
    by (rewrite Hh; repeat split; congruence).
  destruct P as (P1 & P2 & P3).
  destruct (fresh_accepted k s' c i key I' P1 P2 P3) as (X1 & X2 & _). split; assumption.
Qed.

(* ---------- end / empty / foreign handles ---------- *)
Inductive needs_elem (k : kind) (i : nat) : op -> Prop :=
| N_deref : needs_elem k i (ODeref i)
| N_inc : needs_elem k i (OInc i)
| N_dec : k = KTree -> needs_elem k i (ODec i)
| N_rmat c : needs_elem k i (ORemoveAt c i)
| N_extract c : needs_elem k i (OExtract c i)
| N_reset c key : needs_elem k i (OResetKey c i key)
| N_chk c : needs_elem k i (OChk c i false).

(* the default-constructed (empty) iterator, e.g. HashSet::GetEnd() or Find on an empty tree *)
Lemma null_handle_rejected k s i o :
  hcrew (hs s i) = None -> needs_elem k i o -> step k s o = (s, Rej).
Proof.
  intros HC N. destruct N; subst; cbn [step];
  unfold do_deref, do_inc, do_dec, do_rmat, do_reset, do_chk, chk_self, chk_cont; cbv zeta; rewrite HC; dmatch; reflexivity.
Qed.

(* an end iterator / an empty hash position where an element is required, even when its version is current *)
Lemma end_position_rejected k s i o :
  hpos (hs s i) = PEnd \/ (k = KHash /\ exists g, hpos (hs s i) = PGap g) ->
  (o = ODeref i \/ o = OInc i \/ (exists c, o = ORemoveAt c i) \/ (exists c, o = OExtract c i) \/ (exists c key, o = OResetKey c i key)) ->
  step k s o = (s, Rej).
Proof.
  intros HP HO.
  destruct HO as [E|[E|[(c & E)|[(c & E)|(c & key & E)]]]]; subst; cbn [step];
  unfold do_deref, do_inc, do_rmat, do_reset; cbv zeta;
  (destruct HP as [HP|(Ek & g & HP)]; [|subst k]; rewrite HP; dmatch; reflexivity).
Qed.

(* an iterator of the OTHER container passed to an entry point of this one *)
Lemma foreign_handle_rejected k s c i o :
  Inv s -> hcrew (hs s i) = Some (crew (getc s (negb c))) ->
  (exists key, o = OAddAt c i key) \/ o = ORemoveAt c i \/ o = OExtract c i \/ (exists key, o = OResetKey c i key) \/
  (exists a, o = OChk c i a) \/ (k = KTree /\ exists j, o = ORemoveRange c i j \/ o = ORemoveRange c j i) ->
  step k s o = (s, Rej).
Proof.
  intros I HC HO.
  assert (CC : forall a, chk_cont (getc s c) (hs s i) a = false).
  { intros a. unfold chk_cont. rewrite HC. pose proof (inv_crews _ I) as D.
    destruct (Nat.eqb_spec (crew (getc s (negb c))) (crew (getc s c))) as [E|E]; simpl; auto.
    destruct c; simpl in E; congruence. }
  destruct HO as [(key & E)|[E|[E|[(key & E)|[(a & E)|(Ek & j & [E|E])]]]]]; subst; cbn [step];
  unfold do_addat, do_rmat, do_reset, do_chk, do_rmrange; cbv zeta; rewrite ?CC, ?HC, ?andb_false_r; simpl; dmatch; reflexivity.
Qed.

(* non-vacuity: a concrete history in which a stale, a fresh, an end and a foreign handle all occur *)
Example witness_history :
  let ops := [OInsMany false 10 5; OInsMany true 100 3; OFind false 12 1; OFind false 13 2; OEnd false 3; OFind true 100 4;
              OInsert false 99 5] in
  snd (run_out KTree init (ops ++ [ODeref 1; ODeref 5; ODeref 3; OResetKey false 4 100; OChk false 5 false]))
  = [Acc None; Acc None; Acc (Some 1%Z); Acc (Some 1%Z); Acc None; Acc (Some 1%Z); Acc (Some 1%Z);
     Rej; Acc (Some 99%Z); Rej; Rej; Acc None].
Proof. vm_compute. reflexivity. Qed.

(* ---------- the same statements for reachable states (as used in Properties_C15.v) ---------- *)
Lemma stale_rejected_reachable k s i o :
  reachable k s -> stale s (hs s i) -> uses k i o -> step k s o = (s, Rej).
Proof. intros R. apply stale_rejected, (reachable_inv k s R). Qed.
Lemma fresh_accepted_reachable k s c i key :
  reachable k s -> hcrew (hs s i) = Some (crew (getc s c)) -> hsnap (hs s i) = ver (getc s c) -> hpos (hs s i) = PElem key ->
  In key (keys (getc s c)) /\
  step k s (ODeref i) = (s, Acc (Some key)) /\
  step k s (OChk c i false) = (s, Acc None) /\
  step k s (OResetKey c i key) = (s, Acc None) /\
  snd (step k s (OInc i)) = Acc None /\
  (cap (getc s c) <> None -> exists s', step k s (ORemoveAt c i) = (s', Acc (Some key)) /\ ver (getc s' c) = S (ver (getc s c))).
Proof. intros R. apply fresh_accepted, (reachable_inv k s R). Qed.
Lemma foreign_handle_rejected_reachable k s c i o :
  reachable k s -> hcrew (hs s i) = Some (crew (getc s (negb c))) ->
  (exists key, o = OAddAt c i key) \/ o = ORemoveAt c i \/ o = OExtract c i \/ (exists key, o = OResetKey c i key) \/
  (exists a, o = OChk c i a) \/ (k = KTree /\ exists j, o = ORemoveRange c i j \/ o = ORemoveRange c j i) ->
  step k s o = (s, Rej).
Proof. intros R. apply foreign_handle_rejected, (reachable_inv k s R). Qed.

(* ---------- the exact accepted-set of the code ---------- *)
(* "no version-bumping step ran": every step of the history kept the version of crew cr *)
Fixpoint steps_keep (k : kind) (s : state) (ops : list op) (cr : nat) : Prop :=
  match ops with
  | [] => True
  | o :: t => ver_of_crew (fst (step k s o)) cr = ver_of_crew s cr /\ steps_keep k (fst (step k s o)) t cr
  end.
Lemma version_unchanged_iff_no_bumping_step k ops : forall s cr v,
  Inv s -> Forall (fun o => is_assign o = false) ops -> ver_of_crew s cr = Some v ->
  (ver_of_crew (run k s ops) cr = Some v <-> steps_keep k s ops cr).
Proof.
  induction ops as [|o t IH]; intros s cr v I F Hv; simpl; [tauto|]. inversion F as [|? ? NA F']; subst.
  destruct (step_ext k s o I NA cr v Hv) as (v1 & Hv1 & L1).
  pose proof (step_inv k s o I) as I1.
  destruct (run_ext k t _ I1 F' cr v1 Hv1) as (v2 & Hv2 & L2).
  split.
  - intros E. rewrite Hv2 in E. inversion E; subst. assert (v1 = v) by lia. subst v1.
    split; [congruence|]. apply (IH _ cr v I1 F' Hv1). congruence.
  - intros (E1 & K). rewrite Hv in E1. apply (IH _ cr v I1 F' E1). exact K.
Qed.

(* The code's accepted-set, exactly: a handle to an element (not re-assigned meanwhile) is accepted by a read IF AND ONLY IF
   the version of its container is still the one it recorded, i.e. iff no version-bumping entry point ran since it was
   taken.  (The property's reading "... iff the container was not modified" is weaker on the accepting side: see the
   over-invalidation witnesses below.) *)
Lemma accepted_iff_no_bump k s c i key ops :
  reachable k s -> hcrew (hs s i) = Some (crew (getc s c)) -> hsnap (hs s i) = ver (getc s c) -> hpos (hs s i) = PElem key ->
  Forall (fun o => writes o i = false) ops ->
  let s' := run k s ops in
  (step k s' (ODeref i) = (s', Acc (Some key)) <-> steps_keep k s ops (crew (getc s c))) /\
  (step k s' (ODeref i) = (s', Rej) <-> ~ steps_keep k s ops (crew (getc s c))).
Proof.
  intros R HC HS HP FW s'. pose proof (reachable_inv k s R) as I.
  pose proof (run_unwritten k ops i s FW) as Hh. fold s' in Hh.
  assert (FA : Forall (fun o => is_assign o = false) ops).
  { clear -FW. induction FW; constructor; auto. eapply writes_false_not_assign; eauto. }
  pose proof (version_unchanged_iff_no_bumping_step k ops s _ _ I FA (ver_of_crew_getc s c I)) as V. fold s' in V.
  assert (D : step k s' (ODeref i) = (s', Acc (Some key)) \/ step k s' (ODeref i) = (s', Rej)).
  { cbn [step]. unfold do_deref. rewrite Hh, HP. destruct (chk_self s' (hs s i)); auto. }
  assert (A : step k s' (ODeref i) = (s', Acc (Some key)) <-> ver_of_crew s' (crew (getc s c)) = Some (ver (getc s c))).
  { cbn [step]. unfold do_deref, chk_self. rewrite Hh, HP, HC, HS.
    destruct (ver_of_crew s' (crew (getc s c))) as [v|]; [|split; intros X; discriminate].
    destruct (Nat.eqb_spec v (ver (getc s c))); split; intros X; try congruence; inversion X; congruence. }
  split; [rewrite A; exact V|].
  split.
  - intros E K. apply V in K. apply A in K. congruence.
  - intros NK. destruct D as [D|D]; auto. exfalso. apply NK, V, A, D.
Qed.

(* over-invalidation witness on the set model: Clear(shrink = false) of an EMPTY table that still owns buckets changes no
   contents but bumps the version, so a position taken before it is rejected afterwards *)
Example noop_clear_invalidates :
  let pre := [OInsert false 5 0; ORemoveKey false 5; OFind false 7 1] in
  keys (w0 (run KHash init pre)) = keys (w0 (run KHash init (pre ++ [OClear false false]))) /\
  snd (step KHash (run KHash init pre) (OAddAt false 1 7)) = Acc None /\
  snd (step KHash (run KHash init (pre ++ [OClear false false])) (OAddAt false 1 7)) = Rej.
Proof. vm_compute. repeat split. Qed.

(* ---------- assignment ---------- *)
(* move-assignment: the destination IS the source afterwards (same version cell, version, contents) and every handle of the source is
   untouched, hence exactly as valid for the destination as it was for the source; the moved-from source is a fresh empty container;
   handles into the destination's destroyed cell are dropped *)
Lemma move_assign_source_handles_follow k s src i :
  Inv s -> hcrew (hs s i) = Some (crew (getc s src)) ->
  let s' := fst (step k s (OMoveAssign src)) in
  getc s' (negb src) = getc s src /\ hs s' i = hs s i /\ keys (getc s' src) = [] /\ crew (getc s' src) = newcrew s /\
  chk_self s' (hs s' i) = chk_self s (hs s i) /\ (forall a, chk_cont (getc s' (negb src)) (hs s' i) a = chk_cont (getc s src) (hs s i) a).
Proof.
  intros I HC s'. pose proof (inv_crews _ I) as D. destruct (newcrew_gt s) as (G0 & G1).
  assert (H1 : getc s' (negb src) = getc s src) by (subst s'; destruct src; reflexivity).
  assert (H2 : hs s' i = hs s i).
  { subst s'. cbn [step]. unfold do_moveassign; cbv zeta; cbn [fst]. destruct src; cbn [hs getc negb] in *; unfold drop_crew; rewrite HC;
      [destruct (Nat.eqb_spec (crew (w1 s)) (crew (w0 s)))|destruct (Nat.eqb_spec (crew (w0 s)) (crew (w1 s)))]; congruence. }
  repeat split; auto.
  - subst s'; destruct src; reflexivity.
  - subst s'; destruct src; reflexivity.
  - rewrite H2. unfold chk_self. rewrite HC. subst s'. cbn [step]. unfold do_moveassign, ver_of_crew; cbv zeta; cbn [fst].
    remember (newcrew s) as nc eqn:Enc.
    destruct src; simpl in *;
      repeat match goal with |- context [Nat.eqb ?x ?y] => destruct (Nat.eqb_spec x y) end; try congruence; try lia; reflexivity.
  - intros a. rewrite H1, H2. reflexivity.
Qed.
Lemma assign_target_handles_dropped k s src i o :
  Inv s -> (o = OMoveAssign src \/ o = OCopyAssign src) -> hcrew (hs s i) = Some (crew (getc s (negb src))) ->
  hs (fst (step k s o)) i = hnull.
Proof.
  intros I HO HC. destruct HO; subst o; cbn [step]; unfold do_moveassign, do_copyassign; cbv zeta; cbn [fst];
    destruct src; cbn [hs getc negb] in *; unfold drop_crew; rewrite HC, Nat.eqb_refl; reflexivity.
Qed.
(* copy-assignment: the source and its handles are untouched; the destination is a NEW container (fresh cell, version 0) with the same
   keys, so the source's handles are foreign to it *)
Lemma copy_assign_source_unchanged k s src i a :
  Inv s -> hcrew (hs s i) = Some (crew (getc s src)) ->
  let s' := fst (step k s (OCopyAssign src)) in
  getc s' src = getc s src /\ hs s' i = hs s i /\ keys (getc s' (negb src)) = keys (getc s src) /\ ver (getc s' (negb src)) = 0%nat /\
  chk_cont (getc s' (negb src)) (hs s' i) a = false.
Proof.
  intros I HC s'. pose proof (inv_crews _ I) as D. destruct (newcrew_gt s) as (G0 & G1).
  assert (H2 : hs s' i = hs s i).
  { subst s'. cbn [step]. unfold do_copyassign; cbv zeta; cbn [fst]. destruct src; cbn [hs getc negb] in *; unfold drop_crew; rewrite HC;
      [destruct (Nat.eqb_spec (crew (w1 s)) (crew (w0 s)))|destruct (Nat.eqb_spec (crew (w0 s)) (crew (w1 s)))]; congruence. }
  assert (CC : crew (getc s' (negb src)) = newcrew s).
  { subst s'. cbn [step]. unfold do_copyassign, copy_cont; cbv zeta; cbn [fst]. destruct src; cbn [getc negb w0 w1];
      [destruct (keys (w1 s))|destruct (keys (w0 s))]; try reflexivity; destruct k; reflexivity. }
  repeat split; auto.
  - subst s'; destruct src; reflexivity.
  - subst s'. cbn [step]. unfold do_copyassign, copy_cont; cbv zeta; cbn [fst]. destruct src; cbn [getc negb w0 w1];
      [destruct (keys (w1 s)) eqn:E|destruct (keys (w0 s)) eqn:E]; try reflexivity; destruct k; reflexivity.
  - subst s'. cbn [step]. unfold do_copyassign, copy_cont; cbv zeta; cbn [fst]. destruct src; cbn [getc negb w0 w1];
      [destruct (keys (w1 s))|destruct (keys (w0 s))]; try reflexivity; destruct k; reflexivity.
  - rewrite H2. unfold chk_cont. rewrite HC, CC. destruct (Nat.eqb_spec (crew (getc s src)) (newcrew s)) as [E|E]; [|reflexivity].
    destruct src; simpl in E; lia.
Qed.
