(* C05 -- SegmentedArray (thin layer, ArrayModel.v Section Seg): Insert / Remove are the same ArrayShifter code on an
   index-addressed array, so the shifter theorems apply; Reserve / SetCount never relocate an existing item *)
From Coq Require Import List Arith Lia Bool ZArith.
From C05 Require Import ArrayShift ArrayModel ShiftProofs FilterProofs ArrayProofs.
Import ListNotations.

Section SP.
Variable V : Type.
Variable self_move : V -> option V.
Variable after_move : V -> option V.
Variable seg_cap : nat -> nat.
Hypothesis seg_cap_ge : forall n, n <= seg_cap n.
Notation O := (option V).

(* Reserve appends raw cells: every existing cell stays where it is (no relocation), the count is unchanged *)
Theorem seg_reserve_no_relocation (b : arr V) c :
  firstn (cap b) (cells (seg_reserve V seg_cap b c)) = cells b /\ cnt (seg_reserve V seg_cap b c) = cnt b /\
  cap b <= cap (seg_reserve V seg_cap b c).
Proof.
  unfold seg_reserve. destruct (Nat.ltb_spec (cap b) c); simpl.
  - unfold cap. simpl. rewrite firstn_app, Nat.sub_diag, firstn_all. simpl. rewrite app_nil_r, app_length. split; auto. split; auto. lia.
  - unfold cap. rewrite firstn_all. auto.
Qed.

Lemma seg_reserve_arr_ofo (l : list O) r c :
  exists r', seg_reserve V seg_cap (arr_ofo l r) c = arr_ofo l r' /\ r <= r' /\ c <= length l + r'.
Proof.
  unfold seg_reserve. rewrite (cap_arr_ofo V). destruct (Nat.ltb_spec (length l + r) c).
  - exists (r + (seg_cap c - (length l + r))). split.
    + unfold arr_ofo. simpl. f_equal. rewrite <- app_assoc. f_equal. unfold raws. rewrite repeat_app. reflexivity.
    + pose proof (seg_cap_ge c). lia.
  - exists r. split; auto; lia.
Qed.

(* SegmentedArray::Insert(index, count, item), item aliasing ANY element: exactly the list insertion *)
Theorem seg_insert_refines (l : list O) r index count (x : arg V) :
  index <= length l -> arg_in V (length l) x ->
  exists r', seg_insert V self_move after_move seg_cap (arr_ofo l r) index count x =
    Ok (arr_ofo (firstn index l ++ repeat (arg_val V l x) count ++ skipn index l) r').
Proof.
  intros Hi Hx. unfold seg_insert. rewrite (read_arg_arr_ofo V l r x Hx). simpl.
  destruct (seg_reserve_arr_ofo l r (length l + count)) as (r1 & -> & _ & Hc).
  rewrite (insert_temp_refines V self_move after_move) by (auto; lia). eexists; reflexivity.
Qed.

(* SegmentedArray::Insert(index, Item&&) with item = any element: the old a[p] is inserted, a[p] is left moved-from *)
Theorem seg_insert_rvalue_refines (l : list O) r index (x : arg V) :
  index <= length l -> arg_in V (length l) x ->
  exists r', seg_insert_rvalue V self_move after_move seg_cap (arr_ofo l r) index x =
    Ok (arr_ofo (firstn index (moved_out V after_move l x) ++ [arg_val V l x] ++ skipn index (moved_out V after_move l x)) r').
Proof.
  intros Hi Hx. unfold seg_insert_rvalue. rewrite (take_arg_arr_ofo V after_move l r x Hx). simpl.
  pose proof (length_moved_out V after_move l x) as Hlm.
  destruct (seg_reserve_arr_ofo (moved_out V after_move l x) r (length (moved_out V after_move l x) + 1)) as (r1 & -> & _ & Hc).
  rewrite (insert_temp_refines V self_move after_move) by (rewrite ?Hlm in *; lia). eexists; reflexivity.
Qed.

(* SegmentedArray::Remove is ArrayShifter::Remove *)
Theorem seg_remove_refines (l : list O) r index count :
  index + count <= length l ->
  seg_remove V self_move after_move (arr_ofo l r) index count =
    Ok (arr_ofo (firstn index l ++ skipn (index + count) l) (r + count)).
Proof. intros. unfold seg_remove. apply remove_refines; auto. Qed.

(* SegmentedArray::SetCount(count, item): pvDecCount / pvIncCapacity + construction in place *)
Theorem seg_set_count_refines (l : list O) r m (x : arg V) :
  arg_in V (length l) x ->
  exists r', seg_set_count V seg_cap (arr_ofo l r) m x =
    Ok (arr_ofo (firstn m l ++ repeat (arg_val V l x) (m - length l)) r').
Proof.
  intros Hx. unfold seg_set_count. replace (cnt (arr_ofo l r)) with (length l) by reflexivity.
  destruct (Nat.leb_spec m (length l)).
  - rewrite (remove_back_arr_ofo V) by lia. replace (length l - (length l - m)) with m by lia.
    replace (m - length l) with 0 by lia. simpl. rewrite app_nil_r. eexists; reflexivity.
  - rewrite firstn_all2 by lia. cbv zeta.
    destruct (seg_reserve_arr_ofo l r m) as (r1 & -> & _ & Hc).
    rewrite (push_loop V (fun b => read_arg V b x) (arg_val V l x) (m - length l)); try lia.
    + eexists; reflexivity.
    + rewrite (cap_arr_ofo V). lia.
    + intros k' r'. apply read_arg_app; auto.
Qed.
End SP.
