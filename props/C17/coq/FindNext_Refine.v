(* C17: the GENERATED HashSorter::pvFindNext (forward iterators; Gen_FindNext.v, regenerated from HashSorter.h on every run)
   follows the hand model's fn_loop on the forward view: whenever the hand loop returns Ok (r, found), the generated loop exits at
   position begin + r with the exit code of `found`.  pvFindOther is a parameter of the generated function; its contract is
   "returns what the hand model's pvFindOther returns, at least one position further". *)
From Coq Require Import ZArith Bool List Lia.
From MomoCommon Require Import GenPrelude.
From C17 Require Import SorterSearch Search_Proofs Gen_FindNext.
Local Open Scope Z_scope.

Section FindNextRefine.
  Variable count : Z.
  Variable hash item : Z -> Z.
  Variable eqf : Z -> Z -> bool.
  Variable qh qx : Z.
  Variable idx cnt : Z.                    (* pvFindNext(begin = idx, count = cnt, item, itemHash, ...) *)
  Hypothesis Hcnt : cnt < 2 ^ 62.
  Variable findOther : Z -> Z -> Z.
  Local Notation hand_other := (SorterSearch.pvFindOther count item eqf).
  Hypothesis Hfo : forall rel o, 0 <= rel -> hand_other (fun k => fwd idx (rel + k)) (cnt - rel) = Ok o ->
    findOther (idx + rel) (cnt - rel) = idx + rel + o /\ 1 <= o.

  Lemma other_pos v n o : hand_other v n = Ok o -> 0 < n.
  Proof. unfold SorterSearch.pvFindOther. destruct (Z.ltb_spec 0 n); [auto|discriminate]. Qed.

  Lemma rd_inv (f : Z -> Z) (rd : Z -> outcome Z) i v :
    (rd = SorterSearch.rdh count f \/ rd = SorterSearch.rdi count f) -> rd i = Ok v -> v = f i.
  Proof.
    intros [-> | ->]; unfold SorterSearch.rdh, SorterSearch.rdi; destruct (inb count i); intros H; try discriminate; inversion H; reflexivity.
  Qed.

  Theorem gen_findnext_simulates : forall f rel r b, 0 <= rel ->
    SorterSearch.fn_loop count hash item eqf qh qx f (fwd idx) cnt rel = Ok (r, b) ->
    exists code, pvFindNext_loop0 eqf findOther f idx cnt hash qx qh item (idx + rel) = Ok (code, idx + r) /\
      b = (match code with Some _ => true | None => false end) /\ rel < r.
  Proof.
    induction f as [|f IH]; intros rel r b Hrel Hh; [simpl in Hh; discriminate|].
    cbn [SorterSearch.fn_loop] in Hh. rewrite pvFindNext_loop0_eq.
    destruct (hand_other (fun k => fwd idx (rel + k)) (cnt - rel)) as [o| | |] eqn:Eo; try discriminate. cbn [bind] in Hh.
    pose proof (other_pos _ _ _ Eo) as Hpos. destruct (Hfo rel o Hrel Eo) as [Efo Ho]. cbv zeta in Hh |- *.
    replace (idx + rel - idx) with rel by lia. rewrite (wrapU_small 64 (cnt - rel)) by lia. rewrite Efo.
    replace (idx + rel + o) with (idx + (rel + o)) by lia.
    destruct (Z.eqb_spec (rel + o) cnt) as [Ee|Ne].
    - inversion Hh; subst r b. destruct (Z.eqb_spec (idx + (rel + o)) (idx + cnt)); [|lia]. cbn [orb].
      exists None. split; [reflexivity|]. split; [reflexivity|lia].
    - destruct (Z.eqb_spec (idx + (rel + o)) (idx + cnt)); [lia|]. cbn [orb].
      destruct (SorterSearch.rdh count hash (fwd idx (rel + o))) as [h| | |] eqn:Er; try discriminate. cbn [bind] in Hh.
      rewrite (rd_inv hash _ _ _ (or_introl eq_refl) Er) in Hh. unfold fwd in Hh.
      destruct (Z.eqb_spec (hash (idx + (rel + o))) qh); cbn [negb] in Hh |- *.
      + destruct (SorterSearch.rdi count item (idx + (rel + o))) as [a| | |] eqn:Ea; try discriminate. cbn [bind] in Hh.
        rewrite (rd_inv item _ _ _ (or_intror eq_refl) Ea) in Hh.
        destruct (eqf (item (idx + (rel + o))) qx).
        * inversion Hh; subst r b. exists (Some 1). split; [reflexivity|]. split; [reflexivity|lia].
        * destruct (IH (rel + o) r b ltac:(lia) Hh) as (code & G1 & G2 & G3). exists code. split; [exact G1|]. split; [exact G2|lia].
      + inversion Hh; subst r b. exists None. split; [reflexivity|]. split; [reflexivity|lia].
  Qed.
End FindNextRefine.
