(* C04 -- the tree Relocator (TreeSet.h:346-499) at node granularity.
   An insertion into a full leaf builds the replacement nodes ASIDE: CreateNode (TreeSet.h:394-400) allocates a node and
   records it in mNewNodes; AddSegment records which items go where (the split / grow plan of pvSplitNode / GrowLeafNode);
   RelocateCreate (TreeSet.h:447-459) runs ItemTraits::RelocateCreate over the segment iterators and then COMMITS by
   swapping mNewNodes with mOldNodes; the destructor (TreeSet.h:386-390) destroys the nodes in mNewNodes - i.e. the nodes
   built aside when anything failed, the replaced old nodes after the commit.
   Nodes are blocks.  The Relocator object is a local: mNewNodes = the consecutive blocks [rFirst, rFirst + rNewCnt). *)
From Coq Require Import List Arith Lia Bool PeanoNat.
From C04 Require Import Effects ObjMgr ArrayData.
Import ListNotations.

Definition rFirst := 14.     (* members of the (local) Relocator object; they die with it *)
Definition rNewCnt := 15.
Definition rfields_same (h h' : heap) : Prop := forall r, 10 <= r -> r <> rFirst -> r <> rNewCnt -> regs h' r = regs h r.

(* CreateNode for every node of the plan *)
Fixpoint create_nodes (sizes : list nat) : M unit :=
  match sizes with
  | [] => ret tt
  | n :: r => b <- alloc n ;;
              cnt <- getr rNewCnt ;; (if cnt =? 0 then setr rFirst b else ret tt) ;; setr rNewCnt (S cnt) ;;
              create_nodes r
  end.
(* for (Node* node : mNewNodes) node->Destroy(mNodeParams) *)
Fixpoint free_from (b n : nat) : M unit := match n with 0 => ret tt | S n' => dealloc b ;; free_from (S b) n' end.
Fixpoint free_list (l : list nat) : M unit := match l with [] => ret tt | b :: r => dealloc b ;; free_list r end.

(* one insertion that replaces the nodes `olds` by new nodes of the given sizes: src/dst = the segment iterators (dst and
   the place of the new item depend on where the new nodes were allocated), creator = the item creator *)
Definition relocator_run (c : cat) (sizes : list nat) (src : nat -> loc) (dst : nat -> nat -> loc) (count : nat)
    (creator : loc -> M unit) (newl : nat -> loc) (olds : list nat) : M unit :=
  setr rNewCnt 0 ;;
  try_catch (create_nodes sizes ;;
             first <- getr rFirst ;;
             relocate_create c src (dst first) count creator (newl first))
            (first <- getr rFirst ;; cnt <- getr rNewCnt ;; free_from first cnt ;; throw) ;;   (* ~Relocator, not committed *)
  free_list olds.                                                                                (* ~Relocator after the commit *)

(* h' = h plus j freshly allocated, still raw nodes *)
Record allocd (h : heap) (sizes : list nat) (j : nat) (h' : heap) : Prop := mkAllocd
  { al_next : next h' = next h + j;
    al_old_mem : forall l, fst l < next h -> mem h' l = mem h l;
    al_old_alive : forall b, b < next h -> alive h' b = alive h b;
    al_old_bsize : forall b, b < next h -> bsize h' b = bsize h b;
    al_new_alive : forall i, i < j -> alive h' (next h + i) = true;
    al_new_bsize : forall i, i < j -> bsize h' (next h + i) = nth i sizes 0;
    al_new_raw : forall i x, i < j -> mem h' (next h + i, x) = Raw;
    al_beyond : forall b, next h + j <= b -> alive h' b = false;
    al_fields : rfields_same h h' }.

Lemma wp_create_nodes : forall h sizes r pre s (Q : unit -> st -> Prop) (E : st -> Prop),
  sizes = pre ++ r ->
  allocd h sizes (length pre) (hp s) -> regs (hp s) rNewCnt = length pre -> (length pre > 0 -> regs (hp s) rFirst = next h) ->
  (forall j s', length pre <= j < length sizes -> allocd h sizes j (hp s') -> regs (hp s') rNewCnt = j ->
                (j > 0 -> regs (hp s') rFirst = next h) -> E s') ->
  (forall s', allocd h sizes (length sizes) (hp s') -> regs (hp s') rNewCnt = length sizes ->
              (length sizes > 0 -> regs (hp s') rFirst = next h) -> Q tt s') ->
  wp (create_nodes r) s Q E.
Proof.
  intros h sizes r. induction r as [|n r IH]; intros pre s Q E Hs Hal Hc Hf HE HQ.
  - simpl. apply wp_ret. rewrite app_nil_r in Hs. subst pre. apply HQ; auto.
  - simpl. set (j := length pre) in *.
    assert (Hlen : length sizes = j + S (length r)) by (rewrite Hs, app_length; reflexivity).
    assert (Hnth : nth j sizes 0 = n) by (rewrite Hs, app_nth2 by (unfold j; lia); unfold j; rewrite Nat.sub_diag; reflexivity).
    apply wp_bind. apply wp_alloc.
    { intros s' H'. apply (HE j s'). lia.
      - destruct Hal. split; intros; rewrite ?(hq_mem _ _ H'), ?(hq_alive _ _ H'), ?(hq_bsize _ _ H'), ?(hq_next _ _ H'); auto.
        intros rr Hr Hr1 Hr2. rewrite (hq_regs _ _ H'). auto.
      - rewrite (hq_regs _ _ H'); auto.
      - intros Hj. rewrite (hq_regs _ _ H'); auto. }
    intros s1 H1. destruct Hal as [A1 A2 A3 A4 A5 A6 A7 A8 A9]. rewrite A1.
    apply wp_bind, wp_getr. rewrite (hq_regs _ _ H1). simpl. rewrite Hc.
    assert (Hal1 : forall s2, (forall l, mem (hp s2) l = mem (hp s1) l) -> (forall b, alive (hp s2) b = alive (hp s1) b) ->
                     (forall b, bsize (hp s2) b = bsize (hp s1) b) -> next (hp s2) = next (hp s1) -> rfields_same (hp s1) (hp s2) ->
                     allocd h sizes (S j) (hp s2)).
    { intros s2 M2 L2 B2 N2 F2. split.
      - rewrite N2, (hq_next _ _ H1). simpl. lia.
      - intros l Hl. rewrite M2, (hq_mem _ _ H1). simpl. rewrite A1. destruct (fst l =? next h + j) eqn:Eq.
        + apply Nat.eqb_eq in Eq. lia. + auto.
      - intros b Hb. rewrite L2, (hq_alive _ _ H1). simpl. unfold updn. rewrite A1. destruct (b =? next h + j) eqn:Eq.
        + apply Nat.eqb_eq in Eq. lia. + auto.
      - intros b Hb. rewrite B2, (hq_bsize _ _ H1). simpl. unfold updn. rewrite A1. destruct (b =? next h + j) eqn:Eq.
        + apply Nat.eqb_eq in Eq. lia. + auto.
      - intros i Hi. rewrite L2, (hq_alive _ _ H1). simpl. unfold updn. rewrite A1. destruct (next h + i =? next h + j) eqn:Eq; auto.
        apply Nat.eqb_neq in Eq. apply A5. lia.
      - intros i Hi. rewrite B2, (hq_bsize _ _ H1). simpl. unfold updn. rewrite A1. destruct (next h + i =? next h + j) eqn:Eq.
        + apply Nat.eqb_eq in Eq. assert (i = j) by lia. subst i. auto.
        + apply Nat.eqb_neq in Eq. apply A6. lia.
      - intros i x Hi. rewrite M2, (hq_mem _ _ H1). simpl. rewrite A1. destruct (next h + i =? next h + j) eqn:Eq; auto.
        apply Nat.eqb_neq in Eq. apply A7. lia.
      - intros b Hb. rewrite L2, (hq_alive _ _ H1). simpl. unfold updn. rewrite A1. destruct (b =? next h + j) eqn:Eq.
        + apply Nat.eqb_eq in Eq. lia. + apply A8. lia.
      - intros rr Hr Hr1 Hr2. rewrite F2 by auto. rewrite (hq_regs _ _ H1). simpl. auto. }
    assert (Step : forall s2, (forall l, mem (hp s2) l = mem (hp s1) l) -> (forall b, alive (hp s2) b = alive (hp s1) b) ->
                     (forall b, bsize (hp s2) b = bsize (hp s1) b) -> next (hp s2) = next (hp s1) -> rfields_same (hp s1) (hp s2) ->
                     regs (hp s2) rNewCnt = j -> regs (hp s2) rFirst = next h ->
                     wp (setr rNewCnt (S j) ;; create_nodes r) s2 Q E).
    { intros s2 M2 L2 B2 N2 F2 C2 R2. apply wp_bind, wp_setr. intros s3 H3.
      apply (IH (pre ++ [n])).
      - rewrite <- app_assoc. exact Hs.
      - rewrite app_length. simpl. replace (length pre + 1) with (S j) by (unfold j; lia).
        apply (Hal1 s3); intros; rewrite ?(hq_mem _ _ H3), ?(hq_alive _ _ H3), ?(hq_bsize _ _ H3), ?(hq_next _ _ H3); simpl; auto.
        intros rr Hr Hr1 Hr2. rewrite (hq_regs _ _ H3), regs_hsetr_other by auto. apply F2; auto.
      - rewrite app_length. simpl. rewrite (hq_regs _ _ H3), regs_hsetr_same. unfold j. lia.
      - intros _. rewrite (hq_regs _ _ H3), regs_hsetr_other by (unfold rFirst, rNewCnt; lia). exact R2.
      - intros j' s' Hj'. rewrite app_length in Hj'. simpl in Hj'. apply HE. unfold j. lia.
      - exact HQ. }
    destruct (j =? 0) eqn:Ej.
    + apply wp_bind, wp_setr. intros s2 H2. apply Nat.eqb_eq in Ej.
      apply Step; intros; rewrite ?(hq_mem _ _ H2), ?(hq_alive _ _ H2), ?(hq_bsize _ _ H2), ?(hq_next _ _ H2); simpl; auto.
      * intros rr Hr Hr1 Hr2. rewrite (hq_regs _ _ H2), regs_hsetr_other by auto. reflexivity.
      * rewrite (hq_regs _ _ H2), regs_hsetr_other by (unfold rFirst, rNewCnt; lia). rewrite (hq_regs _ _ H1). simpl. exact Hc.
      * rewrite (hq_regs _ _ H2), regs_hsetr_same. lia.
    + apply wp_bind, wp_ret. apply Nat.eqb_neq in Ej.
      apply Step; auto.
      * intros rr Hr Hr1 Hr2; reflexivity.
      * rewrite (hq_regs _ _ H1). simpl. exact Hc.
      * rewrite (hq_regs _ _ H1). simpl. apply Hf. unfold j in Ej. lia.
Qed.

Lemma wp_free_from : forall n b s (Q : unit -> st -> Prop) (E : st -> Prop),
  (forall i, i < n -> alive (hp s) (b + i) = true /\ forall x, x < bsize (hp s) (b + i) -> mem (hp s) (b + i, x) = Raw) ->
  (forall s', (forall l, mem (hp s') l = mem (hp s) l) -> (forall x, bsize (hp s') x = bsize (hp s) x) -> next (hp s') = next (hp s) ->
              same_regs (hp s) (hp s') ->
              (forall x, alive (hp s') x = if (b <=? x) && (x <? b + n) then false else alive (hp s) x) -> Q tt s') ->
  wp (free_from b n) s Q E.
Proof.
  induction n; intros b s Q E Hp HQ.
  - simpl. apply wp_ret. apply HQ; auto. intro; reflexivity.
    intros x. destruct (b <=? x) eqn:E1; simpl; auto. destruct (x <? b + 0) eqn:E2; auto. apply Nat.ltb_lt in E2. apply Nat.leb_le in E1. lia.
  - simpl. destruct (Hp 0 ltac:(lia)) as [A0 R0]. rewrite Nat.add_0_r in A0, R0.
    apply wp_bind. apply wp_dealloc; auto. intros s1 H1.
    apply IHn.
    + intros i Hi. destruct (Hp (S i) ltac:(lia)) as [Ai Ri]. replace (S b + i) with (b + S i) by lia.
      rewrite (hq_alive _ _ H1), (hq_bsize _ _ H1). simpl. unfold updn. destruct (b + S i =? b) eqn:Eq. { apply Nat.eqb_eq in Eq. lia. }
      split; auto. intros x Hx. rewrite (hq_mem _ _ H1). simpl. auto.
    + intros s' M B N R A. apply HQ.
      * intros l. rewrite M. apply (hq_mem _ _ H1).
      * intros x. rewrite B. apply (hq_bsize _ _ H1).
      * rewrite N. apply (hq_next _ _ H1).
      * intros r. rewrite R. apply (hq_regs _ _ H1).
      * intros x. rewrite A. rewrite (hq_alive _ _ H1). unfold hfree, updn. cbn [alive].
        destruct (x =? b) eqn:E0; destruct (S b <=? x) eqn:E1; destruct (b <=? x) eqn:E2; destruct (x <? S b + n) eqn:E3;
          destruct (x <? b + S n) eqn:E4; simpl; auto;
          repeat match goal with
          | H : (_ =? _) = true |- _ => apply Nat.eqb_eq in H | H : (_ =? _) = false |- _ => apply Nat.eqb_neq in H
          | H : (_ <=? _) = true |- _ => apply Nat.leb_le in H | H : (_ <=? _) = false |- _ => apply Nat.leb_gt in H
          | H : (_ <? _) = true |- _ => apply Nat.ltb_lt in H | H : (_ <? _) = false |- _ => apply Nat.ltb_ge in H end; lia.
Qed.

Lemma wp_free_list : forall l s (Q : unit -> st -> Prop) (E : st -> Prop),
  NoDup l ->
  (forall b, In b l -> alive (hp s) b = true /\ forall x, x < bsize (hp s) b -> mem (hp s) (b, x) = Raw) ->
  (forall s', (forall x, mem (hp s') x = mem (hp s) x) -> (forall x, bsize (hp s') x = bsize (hp s) x) -> next (hp s') = next (hp s) ->
              same_regs (hp s) (hp s') ->
              (forall x, In x l -> alive (hp s') x = false) -> (forall x, ~ In x l -> alive (hp s') x = alive (hp s) x) -> Q tt s') ->
  wp (free_list l) s Q E.
Proof.
  induction l as [|b l IH]; intros s Q E Hnd Hp HQ.
  - simpl. apply wp_ret. apply HQ; auto. intro; reflexivity. intros x [].
  - simpl. inversion Hnd as [|? ? Hni Hnd']; subst. destruct (Hp b (or_introl eq_refl)) as [Ab Rb].
    apply wp_bind. apply wp_dealloc; auto. intros s1 H1.
    apply IH; auto.
    + intros x Hx. destruct (Hp x (or_intror Hx)) as [Ax Rx].
      rewrite (hq_alive _ _ H1), (hq_bsize _ _ H1). simpl. unfold updn.
      destruct (x =? b) eqn:Eq. { apply Nat.eqb_eq in Eq. subst. contradiction. }
      split; auto. intros y Hy. rewrite (hq_mem _ _ H1). simpl. auto.
    + intros s' M B N R A1 A2. apply HQ.
      * intros x. rewrite M. apply (hq_mem _ _ H1).
      * intros x. rewrite B. apply (hq_bsize _ _ H1).
      * rewrite N. apply (hq_next _ _ H1).
      * intros r. rewrite R. apply (hq_regs _ _ H1).
      * intros x [->|Hx]. 
        -- rewrite A2 by auto. rewrite (hq_alive _ _ H1). simpl. unfold updn. rewrite Nat.eqb_refl. reflexivity.
        -- apply A1; auto.
      * intros x Hx. rewrite A2 by (intro; apply Hx; right; auto). rewrite (hq_alive _ _ H1). simpl. unfold updn.
        destruct (x =? b) eqn:Eq; auto. apply Nat.eqb_eq in Eq. subst. exfalso. apply Hx. left; auto.
Qed.

(* the outcome of a failed insertion: every cell of every live node, the set of live nodes, their sizes and all data
   members (other than those of the dead Relocator object) are as before *)
Record rolled_back (h h' : heap) : Prop := mkRolledBack
  { rb_mem : forall l, alive h (fst l) = true -> mem h' l = mem h l;
    rb_alive : forall b, alive h' b = alive h b;
    rb_bsize : forall b, alive h b = true -> bsize h' b = bsize h b;
    rb_fields : rfields_same h h' }.

Lemma wf_lt : forall h b, wf h -> alive h b = true -> b < next h.
Proof. intros h b W A. destruct (le_lt_dec (next h) b); auto. rewrite W in A by auto. discriminate. Qed.

(* ~Relocator before the commit: frees exactly the nodes built aside *)
Lemma wp_rollback : forall h sizes j s1 (Q : unit -> st -> Prop),
  wf h -> allocd h sizes j (hp s1) -> regs (hp s1) rNewCnt = j -> (j > 0 -> regs (hp s1) rFirst = next h) ->
  wp (first <- getr rFirst ;; cnt <- getr rNewCnt ;; free_from first cnt ;; throw) s1 Q (fun s' => rolled_back h (hp s')).
Proof.
  intros h sizes j s1 Q W [A1 A2 A3 A4 A5 A6 A7 A8 A9] Hc Hf.
  apply wp_bind, wp_getr. apply wp_bind, wp_getr. rewrite Hc.
  destruct j as [|j].
  - simpl. apply wp_bind, wp_ret. apply wp_throw. split; auto.
    + intros l Al. apply A2. apply wf_lt; auto.
    + intros b. destruct (le_lt_dec (next h) b). { rewrite A8 by lia. rewrite W; auto. } apply A3; auto.
    + intros b Ab. apply A4. apply wf_lt; auto.
  - rewrite Hf by lia. apply wp_bind. apply wp_free_from.
    + intros i Hi. split. { apply A5; auto. } intros x _. apply A7; auto.
    + intros s' M B N R A. apply wp_throw. split.
      * intros l Al. rewrite M. apply A2. apply wf_lt; auto.
      * intros b. rewrite A. destruct ((next h <=? b) && (b <? next h + S j)) eqn:E.
        -- apply andb_true_iff in E. destruct E as [E1 _]. apply Nat.leb_le in E1. rewrite W; auto.
        -- destruct (le_lt_dec (next h) b). { rewrite W by auto. apply A8.
             apply andb_false_iff in E. destruct E as [E|E]. apply Nat.leb_gt in E; lia. apply Nat.ltb_ge in E; lia. }
           apply A3; auto.
      * intros b Ab. rewrite B. apply A4. apply wf_lt; auto.
      * intros r H1 H2 H3. rewrite R. apply A9; auto.
Qed.

Lemma allocd_unchanged : forall h sizes j h1 h2, allocd h sizes j h1 -> unchanged h1 h2 -> allocd h sizes j h2.
Proof.
  intros h sizes j h1 h2 [A1 A2 A3 A4 A5 A6 A7 A8 A9] [U1 U2 U3 U4 U5].
  split; intros; rewrite ?U1, ?U2, ?U3, ?U4; auto. intros r H1 H2 H3. rewrite U5 by auto. apply A9; auto.
Qed.

Section RelocatorRun.
Variables (c : cat) (sizes : list nat) (src : nat -> loc) (dst : nat -> nat -> loc) (count : nat)
          (creator : loc -> M unit) (newl : nat -> loc) (olds : list nat)
          (fp : loc -> Prop) (P : heap -> Prop) (R : heap -> heap -> Prop).

Theorem relocator_spec : forall s,
  wf (hp s) -> sizes <> [] ->
  exec_spec (creator (newl (next (hp s)))) fp P R ->
  (forall j, j < count -> ~ fp (src j) /\ ~ fp (dst (next (hp s)) j)) ->
  (* the plan: in the heap extended by the new raw nodes the sources are live items, the destinations distinct raw cells *)
  (forall h1, allocd (hp s) sizes (length sizes) h1 -> range_pre src (dst (next (hp s))) count h1 /\ P h1) ->
  (* the replaced nodes: distinct, live, and every object in them is one of the relocated items; nothing is relocated INTO them *)
  NoDup olds ->
  (forall b, In b olds -> alive (hp s) b = true /\
             forall x, x < bsize (hp s) b -> mem (hp s) (b, x) = Raw \/ exists j, j < count /\ src j = (b, x)) ->
  (forall b x, In b olds -> ~ fp (b, x)) ->
  (forall j, j < count -> ~ In (fst (dst (next (hp s)) j)) olds) ->
  wp (relocator_run c sizes src dst count creator newl olds) s
     (fun _ s' => (forall b, In b olds -> alive (hp s') b = false) /\
                  (forall i, i < length sizes -> alive (hp s') (next (hp s) + i) = true) /\
                  (forall b, b < next (hp s) -> ~ In b olds -> alive (hp s') b = alive (hp s) b) /\
                  (forall j, j < count -> mem (hp s') (dst (next (hp s)) j) = mem (hp s) (src j) /\ mem (hp s') (src j) = Raw) /\
                  (forall l, fst l < next (hp s) -> ~ fp l -> (forall j, j < count -> src j <> l) ->
                             (forall j, j < count -> dst (next (hp s)) j <> l) -> mem (hp s') l = mem (hp s) l) /\
                  rfields_same (hp s) (hp s') /\
                  (* what the item creator established survives: R held between the heap with the nodes built aside and the heap after
                     the relocation, and the commit did not touch any cell *)
                  (exists h1 h2, allocd (hp s) sizes (length sizes) h1 /\ R h1 h2 /\ forall l, mem (hp s') l = mem h2 l))
     (fun s' => rolled_back (hp s) (hp s')).
Proof.
  intros s W Hne Hex Hfp Hplan Hnd Holds Hfpold Hdstold.
  set (first := next (hp s)) in *.
  unfold relocator_run. apply wp_bind, wp_setr. intros s0 H0.
  assert (Al0 : allocd (hp s) sizes 0 (hp s0)).
  { split; intros; try lia; rewrite ?(hq_mem _ _ H0), ?(hq_alive _ _ H0), ?(hq_bsize _ _ H0), ?(hq_next _ _ H0); simpl; auto.
    - apply W. lia.
    - intros r H1 H2 H3. rewrite (hq_regs _ _ H0). apply regs_hsetr_other; auto. }
  assert (Hlen : length sizes > 0) by (destruct sizes; [contradiction|simpl; lia]).
  apply wp_bind. apply wp_try. apply wp_bind.
  eapply (wp_create_nodes (hp s) sizes sizes []);
    [ reflexivity | exact Al0 | simpl; rewrite (hq_regs _ _ H0); apply regs_hsetr_same | simpl; intros; lia | | ].
  - (* a node allocation failed *)
    intros j s1 Hj Al Cn Fn. apply (wp_rollback (hp s) sizes j s1); auto.
  - (* all nodes built: relocate the items and create the new one *)
    intros s1 Al Cn Fn. apply wp_bind, wp_getr. rewrite Fn by auto. fold first.
    destruct (Hplan (hp s1) Al) as [Hpre HP].
    eapply wp_mono. { eapply relocate_create_spec; eauto. }
    + intros _ s2 [[D1 D2 D3 D4 D5] HR]. simpl.
      pose proof Al as Al'. destruct Al as [A1 A2 A3 A4 A5 A6 A7 A8 A9].
      assert (Oldlt : forall b, In b olds -> b < first) by (intros b Hb; apply wf_lt; auto; apply Holds; auto).
      apply wp_free_list; auto.
      * intros b Hb. destruct (Holds b Hb) as [Ab Hcells]. specialize (Oldlt b Hb). split.
        { rewrite (ag_alive _ _ _ D4), A3; auto. }
        intros x Hx. rewrite (ag_bsize _ _ _ D4), A4 in Hx by auto.
        destruct (in_range_dec src 0 count (b, x)) as [[j [Hj Ej]]|N].
        -- rewrite <- Ej. apply D2. lia.
        -- rewrite D3.
           ++ rewrite A2 by auto. destruct (Hcells x Hx) as [Hr|[j [Hj Ej]]]; auto. exfalso. apply (N j); auto; lia.
           ++ apply Hfpold; auto.
           ++ intros j Hj. apply N; lia.
           ++ intros j Hj E. apply (Hdstold j Hj). rewrite E. exact Hb.
      * intros s3 M B N Rg F1 F2. split; [|split; [|split; [|split; [|split; [|split]]]]].
        -- exact F1.
        -- intros i Hi. rewrite F2. { rewrite (ag_alive _ _ _ D4). apply A5; auto. }
           intro Hin. specialize (Oldlt _ Hin). unfold first in Oldlt. lia.
        -- intros b Hb Hn. rewrite F2 by auto. rewrite (ag_alive _ _ _ D4). apply A3; auto.
        -- intros j H. split.
           ++ rewrite M, D1 by auto. destruct (rp_cells _ _ _ _ Hpre j H) as [Vs _].
              apply A2. (* the source is in an old node *)
              destruct (le_lt_dec first (fst (src j))) as [Hge|Hlt]; auto. exfalso.
              destruct (rp_cells _ _ _ _ Hpre j H) as [_ [_ [[v Hv] _]]].
              unfold valid in Vs. apply andb_true_iff in Vs. destruct Vs as [Va _].
              destruct (le_lt_dec (first + length sizes) (fst (src j))). { rewrite A8 in Va by auto. discriminate. }
              replace (src j) with (first + (fst (src j) - first), snd (src j)) in Hv by (destruct (src j); simpl in *; f_equal; lia).
              rewrite A7 in Hv by lia. discriminate.
           ++ rewrite M. apply D2; auto.
        -- intros l Hl Hf Hs Hd. rewrite M, D3 by auto. apply A2; auto.
        -- intros r H1 H2 H3. rewrite Rg, D5 by auto. apply A9; auto.
        -- exists (hp s1), (hp s2). split; [exact Al'|split; [exact HR|exact M]].
    + (* the relocation or the creator threw: the destructor frees the nodes built aside *)
      intros s2 U. simpl.
      apply (wp_rollback (hp s) sizes (length sizes) s2); auto.
      * eapply allocd_unchanged; eauto.
      * rewrite (un_regs _ _ U) by (unfold rNewCnt; lia). exact Cn.
      * intros _. rewrite (un_regs _ _ U) by (unfold rFirst; lia). apply Fn; auto.
Qed.
End RelocatorRun.

(* ---- the split / grow plans of TreeSet::pvAddGrow and pvAddSplit for a root leaf (TreeSet.h:413-422, 462-490, 1293-1338),
        executable: used by the micro-correspondence against real TreeSet inserts with TreeNode<4, 2> ------------------- *)
Definition seg := (nat * nat * nat * nat * nat)%type.   (* src node, src begin, index of the dst node among the new ones, dst begin, length *)
Fixpoint seg_at (segs : list seg) (j : nat) : loc * (nat * nat) :=
  match segs with
  | [] => ((0, 0), (0, 0))
  | (sb, s0, dk, d0, len) :: r => if j <? len then ((sb, s0 + j), (dk, d0 + j)) else seg_at r (j - len)
  end.
Fixpoint segs_count (segs : list seg) : nat :=
  match segs with [] => 0 | (_, _, _, _, len) :: r => len + segs_count r end.
(* AddSegment: if (itemCount > 0) ... *)
Definition add_segment (segs : list seg) (s : seg) : list seg :=
  match s with (_, _, _, _, len) => if len =? 0 then segs else segs ++ [s] end.
(* TreeNode<4, 2>: capacity of a leaf created for `count` items (Node::pvGetLeafMemPoolIndex) *)
Definition leaf_cap (count : nat) : nat := if count <=? 2 then 2 else 4.
(* TreeNode::GetSplitItemIndex *)
Definition split_index (itemCount newIdx : nat) : nat :=
  let s := itemCount / 2 in if (itemCount mod 2 =? 0) && (newIdx <? s) then s - 1 else s.

Definition plan := (list nat * list seg * (nat * nat))%type.
(* GrowLeafNode *)
Definition grow_plan (node itemCount pos : nat) : plan :=
  ([leaf_cap (S itemCount)],
   add_segment (add_segment [] (node, 0, 0, 0, pos)) (node, pos, 0, S pos, itemCount - pos),
   (0, pos)).
(* pvSplitNode of the root leaf + the new root receiving the separator *)
Definition split_root_plan (node itemCount pos : nat) : plan :=
  let sp := split_index itemCount pos in
  if pos <=? sp then
    ([leaf_cap (S sp); leaf_cap (itemCount - sp - 1); 4],
     add_segment (add_segment (add_segment (add_segment [] (node, 0, 0, 0, pos)) (node, pos, 0, S pos, sp - pos))
                              (node, S sp, 1, 0, itemCount - sp - 1)) (node, sp, 2, 0, 1),
     (0, pos))
  else
    ([leaf_cap sp; leaf_cap (itemCount - sp); 4],
     add_segment (add_segment (add_segment (add_segment [] (node, 0, 0, 0, sp)) (node, S sp, 1, 0, pos - sp - 1))
                              (node, pos, 1, pos - sp, itemCount - pos)) (node, sp, 2, 0, 1),
     (1, pos - sp - 1)).

Definition run_plan (c : cat) (p : plan) (arg : loc) (olds : list nat) : M unit :=
  match p with
  | (sizes, segs, (nk, ni)) =>
    relocator_run c sizes (fun j => fst (seg_at segs j))
                  (fun first j => match snd (seg_at segs j) with (k, i) => (first + k, i) end)
                  (segs_count segs) (creator_copy arg) (fun first => (first + nk, ni)) olds
  end.
