(* C09: the blockCount = 1 pool (MemPool.h 285-325, 386-399, 459-478): no buffers - every block is its own manager block
   (the manager block itself when the alignment addend is 0, else pvNewBlock1's layout: PoolLayout.alloc1/dealloc1).
   A block is identified by the number of its manager allocation.  Two pools share the manager. *)
From Coq Require Import ZArith List Bool Lia.
From MomoCommon Require Import GenPrelude.
From C09 Require Gen_MemPool PoolLayout PoolArith.
Import ListNotations.
Local Open Scope Z_scope.

Record pool1 := mkP1 { live1 : list Z; cache1 : list Z; acount1 : Z }.
Record world1 := mkW1 { fresh1 : Z; returned1 : list Z; q0 : pool1; q1 : pool1 }.
Definition get1 (w : world1) (p : bool) : pool1 := if p then q1 w else q0 w.
Definition set1 (w : world1) (p : bool) (x : pool1) : world1 :=
  if p then mkW1 (fresh1 w) (returned1 w) (q0 w) x else mkW1 (fresh1 w) (returned1 w) x (q1 w).
Definition empty1 : world1 := mkW1 1 [] (mkP1 [] [] 0) (mkP1 [] [] 0).
Fixpoint len1 (l : list Z) : Z := match l with [] => 0 | _ :: t => 1 + len1 t end.
Definition remove1z (x : Z) (l : list Z) : list Z := filter (fun y => negb (y =? x)) l.

Section One.
Variable CF : Z.
Variable uc : bool.

(* pvFlushDeallocate 459-468 with pvDeleteBlock(void* ) 470-478 for blockCount = 1: every cached block goes back to the manager *)
Definition flush1 (w : world1) (p : bool) : world1 :=
  let x := get1 w p in
  set1 (mkW1 (fresh1 w) (rev (cache1 x) ++ returned1 w) (q0 w) (q1 w)) p (mkP1 (live1 x) [] (acount1 x)).

(* Allocate 285-306 *)
Definition Allocate1 (w : world1) (p : bool) : world1 * Z :=
  let x := get1 w p in
  match cache1 x with
  | b :: rest => if uc then (set1 w p (mkP1 (b :: live1 x) rest (acount1 x + 1)), b)                     (* 289-294, 304 *)
                 else let b' := fresh1 w in
                      (set1 (mkW1 (b' + 1) (returned1 w) (q0 w) (q1 w)) p (mkP1 (b' :: live1 x) (cache1 x) (acount1 x + 1)), b')
  | [] => let b' := fresh1 w in                                                                           (* 299-302: a new manager block *)
          (set1 (mkW1 (b' + 1) (returned1 w) (q0 w) (q1 w)) p (mkP1 (b' :: live1 x) (cache1 x) (acount1 x + 1)), b')
  end.

(* Deallocate 308-325 *)
Definition Deallocate1 (w : world1) (p : bool) (b : Z) : world1 :=
  if uc then
    let w := if CF <=? len1 (cache1 (get1 w p)) then flush1 w p else w in                                 (* 314-315 *)
    let x := get1 w p in
    set1 w p (mkP1 (remove1z b (live1 x)) (b :: cache1 x) (acount1 x - 1))                                (* 316-318, 324 *)
  else
    let x := get1 w p in
    set1 (mkW1 (fresh1 w) (b :: returned1 w) (q0 w) (q1 w)) p (mkP1 (remove1z b (live1 x)) (cache1 x) (acount1 x - 1)).   (* 322, 475/477 *)

(* MergeFrom 386-399: both heads are null, so only the flush of the source and the counters matter *)
Definition MergeFrom1 (w : world1) (d : bool) : world1 :=
  let s := negb d in
  let w := if uc then flush1 w s else w in
  let x := get1 w d in let y := get1 w s in
  set1 (set1 w d (mkP1 (live1 x ++ live1 y) (cache1 x) (acount1 x + acount1 y))) s (mkP1 [] (cache1 y) 0).

Inductive op1 := A1 (p : bool) | F1 (p : bool) (b : Z) | M1 (d : bool).
Definition step1 (w : world1) (o : op1) : world1 :=
  match o with
  | A1 p => fst (Allocate1 w p)
  | F1 p b => if existsb (Z.eqb b) (live1 (get1 w p)) then Deallocate1 w p b else w
  | M1 d => MergeFrom1 w d
  end.
Definition run1 (ops : list op1) : world1 := fold_left step1 ops empty1.

(* invariant: the blocks in use (live or cached, both pools) are pairwise different manager blocks, never returned ones;
   returned blocks are distinct; ids are fresh; allocCount = number of live blocks; without pvUseCache the caches are empty *)
Definition all1 (w : world1) : list Z := live1 (q0 w) ++ cache1 (q0 w) ++ live1 (q1 w) ++ cache1 (q1 w).
Definition Inv1 (w : world1) : Prop :=
  NoDup (all1 w ++ returned1 w) /\ (forall b, In b (all1 w ++ returned1 w) -> 1 <= b < fresh1 w) /\
  acount1 (q0 w) = len1 (live1 (q0 w)) /\ acount1 (q1 w) = len1 (live1 (q1 w)) /\
  (uc = false -> cache1 (q0 w) = [] /\ cache1 (q1 w) = []) /\ 1 <= fresh1 w.
End One.

(* the address of single-block pool block b: what Allocate returns for the manager address beg b *)
Definition addr1 (B A : Z) (beg : Z -> Z) (b : Z) : Z :=
  match PoolLayout.alloc1 B A (beg b) with Ok (block, _) => block | _ => 0 end.
Definition size1 (B A : Z) (beg : Z -> Z) (b : Z) : Z :=
  match PoolLayout.alloc1 B A (beg b) with Ok (_, size) => size | _ => 0 end.

(* blockCount = 1, address level: two different blocks (= two different manager allocations that do not overlap) are aligned,
   inside their manager blocks and disjoint, for every alignment 1..1024 and all 16-aligned manager addresses.
   (The history-level facts for single-block pools - block ids pairwise different while live, returned once - are stated as
   Inv1 above but NOT proved; they are covered by the oracle only.) *)
Theorem one_block_addresses B A beg b b' :
  1 <= A <= 1024 -> 0 < B < 2 ^ 62 ->
  (forall x, 0 < beg x /\ beg x mod 16 = 0 /\ beg x + B + A + 2 < 2 ^ 64) ->
  b <> b' ->
  (beg b + size1 B A beg b <= beg b' \/ beg b' + size1 B A beg b' <= beg b) ->
  addr1 B A beg b mod A = 0 /\ beg b <= addr1 B A beg b /\ addr1 B A beg b + B <= beg b + size1 B A beg b /\
  (addr1 B A beg b + B <= addr1 B A beg b' \/ addr1 B A beg b' + B <= addr1 B A beg b).
Proof.
  intros HA HB Hbeg Ne Man. unfold addr1, size1 in *.
  destruct (Hbeg b) as (p1 & p2 & p3). destruct (Hbeg b') as (r1 & r2 & r3).
  destruct (PoolArith.block1_dispatch_aligned B A (beg b) HA HB p1 p2 p3) as (blk & sz & E & M & L1 & L2 & _).
  destruct (PoolArith.block1_dispatch_aligned B A (beg b') HA HB r1 r2 r3) as (blk' & sz' & E' & M' & L1' & L2' & _).
  rewrite E, E' in *. split; [exact M|]. split; [exact L1|]. split; [exact L2|]. destruct Man; [left|right]; lia.
Qed.
