(* C09 (a): proofs about the GENERATED address / parameter arithmetic of momo::MemPool
   (Gen_UIntMath.v, Gen_MemPoolConst.v, Gen_MemPool.v are regenerated from /repo's headers on every run). *)
From Coq Require Import ZArith List Bool Lia.
From MomoCommon Require Import GenPrelude.
From C09 Require Gen_UIntMath Gen_MemPoolConst Gen_MemPool Gen_MemPoolData PoolLayout.
Import ListNotations.
Local Open Scope Z_scope.

(* x * B <= y * B from x <= y, 0 <= B without a certificate search (nia on these goals costs 5-50 s when its cache is cold) *)
Ltac mulmono := first [apply Z.mul_le_mono_nonneg_r; lia | nia].

Lemma two64 : 2 ^ 64 = 18446744073709551616. Proof. reflexivity. Qed.
Lemma two63 : 2 ^ 63 = 9223372036854775808. Proof. reflexivity. Qed.

Lemma wrapS_small w x : 0 < w -> 0 <= x < 2 ^ (w - 1) -> wrapS w x = x.
Proof.
  intros Hw Hx. unfold wrapS.
  assert (2 ^ w = 2 * 2 ^ (w - 1)) by (replace w with (Z.succ (w - 1)) at 1 by lia; apply Z.pow_succ_r; lia).
  rewrite Z.mod_small by lia. destruct (Z.ltb_spec x (2 ^ (w - 1))); lia.
Qed.

Lemma wrapS8_id x : -128 <= x < 128 -> wrapS 8 x = x.
Proof.
  intros H. unfold wrapS. change (2 ^ 8) with 256. change (2 ^ (8 - 1)) with 128.
  destruct (Z_lt_le_dec x 0).
  - replace (x mod 256) with (x + 256).
    + destruct (Z.ltb_spec (x + 256) 128); lia.
    + apply Z.mod_unique with (q := -1); lia.
  - rewrite Z.mod_small by lia. destruct (Z.ltb_spec x 128); lia.
Qed.

(* ---------- UIntMath::Ceil ---------- *)
Lemma Ceil_spec v m : 0 <= v -> 0 < m -> v + m < 2 ^ 64 ->
  exists k, Gen_UIntMath.Ceil v m = m * k /\ v <= m * k < v + m.
Proof.
  intros Hv Hm Hs. unfold Gen_UIntMath.Ceil.
  rewrite (wrapU_small 64 (v + m)) by lia.
  rewrite (wrapU_small 64 (v + m - 1)) by lia.
  pose proof (Z.div_mod (v + m - 1) m ltac:(lia)) as D.
  pose proof (Z.mod_pos_bound (v + m - 1) m Hm) as R.
  exists ((v + m - 1) / m). rewrite wrapU_small; [split|]; try lia.
Qed.

(* ---------- pvGetAlignmentAddend: finite sweep over every legal alignment 1..1024 ---------- *)
Definition addend (A : Z) : Z := Gen_MemPool.pvGetAlignmentAddend 0 A.
Definition gran (A : Z) : Z := A - addend A.     (* = min(maxAllocAlignment, lowest set bit of A) *)

Lemma addend_indep bs A : Gen_MemPool.pvGetAlignmentAddend bs A = addend A.
Proof. reflexivity. Qed.

Definition addend_ok (A : Z) : bool :=
  (0 <=? addend A) && (addend A <? A) && (A mod (gran A) =? 0) && (gran A <=? 16) && (16 mod (gran A) =? 0).

Lemma addend_sweep : forallb addend_ok (map Z.of_nat (seq 1 1024)) = true.
Proof. vm_compute. reflexivity. Qed.

Lemma addend_facts A : 1 <= A <= 1024 ->
  0 <= addend A < A /\ A mod (gran A) = 0 /\ 1 <= gran A <= 16.
Proof.
  intros H. pose proof addend_sweep as S. rewrite forallb_forall in S.
  assert (In A (map Z.of_nat (seq 1 1024))) as I.
  { apply in_map_iff. exists (Z.to_nat A). split; [lia|]. apply in_seq. lia. }
  specialize (S A I). unfold addend_ok in S.
  repeat (apply andb_prop in S; destruct S as [S ?]).
  unfold gran in *.
  repeat match goal with H : (_ <=? _) = true |- _ => apply Z.leb_le in H | H : (_ <? _) = true |- _ => apply Z.ltb_lt in H
                    | H : (_ =? _) = true |- _ => apply Z.eqb_eq in H end.
  lia.
Qed.

(* the offset of the first multiple of A at or after an address that is a multiple of gran A is at most addend A *)
Lemma ceil_offset_le_addend A begin k :
  1 <= A <= 1024 -> begin mod (gran A) = 0 -> begin <= A * k < begin + A -> A * k - begin <= addend A.
Proof.
  intros HA Hg Hk. destruct (addend_facts A HA) as (Ha & Hd & Hgr).
  set (g := gran A) in *. assert (addend A = A - g) as -> by (unfold g, gran; lia).
  assert (A = g * (A / g)) as EA by (pose proof (Z.div_mod A g ltac:(lia)); lia).
  assert (begin = g * (begin / g)) as EB by (pose proof (Z.div_mod begin g ltac:(lia)); lia).
  set (a := A / g) in *. set (b := begin / g) in *.
  rewrite EA, EB in *. clearbody a b. clear EA EB Hd Hg Ha.
  assert (g * (a * k - b) < g * a) by lia.
  assert (a * k - b < a) by nia.
  nia.
Qed.

(* ---------- canonical form of addresses: A * (m*T + Q), 0 <= Q < m, where blockSize B = A*m ---------- *)
Section Layout.
Variables C B A m : Z.
Hypothesis HA : 1 <= A <= 1024.
Hypothesis Hm : 2 <= m.
Hypothesis HB : B = A * m.
Hypothesis HC : 2 <= C <= 127.
Hypothesis Hsmall : C * B + 4 * A + 32 < 2 ^ 63.

Definition pt (T Q : Z) : Z := A * (m * T + Q).

Lemma pt_div T Q : 0 <= Q < m -> pt T Q / B = T.
Proof.
  intros HQ. unfold pt. rewrite HB. rewrite Z.div_mul_cancel_l by lia.
  rewrite (Z.mul_comm m T). rewrite Z.div_add_l by lia. rewrite Z.div_small by lia. lia.
Qed.

Lemma pt_mod T Q : 0 <= Q < m -> pt T Q mod B = A * Q.
Proof.
  intros HQ. unfold pt. rewrite HB. rewrite Z.mul_mod_distr_l by lia.
  replace (m * T + Q) with (Q + T * m) by ring. rewrite Z.mod_add by lia. rewrite Z.mod_small by lia. reflexivity.
Qed.

Lemma pt_modA T Q : pt T Q mod A = 0.
Proof. unfold pt. rewrite Z.mul_comm. apply Z.mod_mul. lia. Qed.

Lemma pt_shift T Q j : pt T Q + j * B = pt (T + j) Q.
Proof. unfold pt. rewrite HB. ring. Qed.

Lemma pt_stepA T Q : pt T Q + A = pt T (Q + 1).
Proof. unfold pt. ring. Qed.

Lemma pt_carry T : pt T m = pt (T + 1) 0.
Proof. unfold pt. ring. Qed.

Lemma B_pos : 0 < B. Proof. rewrite HB. nia. Qed.
Lemma B_small : B < 2 ^ 62. Proof. pose proof B_pos. rewrite two63 in Hsmall. change (2 ^ 62) with 4611686018427387904. nia. Qed.
Lemma A_le_B : 2 * A <= B. Proof. rewrite HB. nia. Qed.

Lemma mod_add_small T j : 0 <= j -> T mod C + j < C -> (T + j) mod C = T mod C + j.
Proof.
  intros Hj Hs. pose proof (Z.mod_pos_bound T C ltac:(lia)).
  symmetry. apply Z.mod_unique with (q := T / C); [lia|].
  pose proof (Z.div_mod T C ltac:(lia)). lia.
Qed.

(* pvGetBlock in closed form *)
Lemma getblock_spec buffer i :
  Gen_MemPool.pvGetBlock B A buffer i = buffer + i * B + (if 0 <=? i then A else 0).
Proof.
  unfold Gen_MemPool.pvGetBlock. pose proof B_pos. pose proof B_small.
  rewrite (wrapS_small 64 B) by (change (2 ^ (64 - 1)) with (2 * 2 ^ 62); lia).
  rewrite (wrapS_small 64 A) by (change (2 ^ (64 - 1)) with 9223372036854775808; lia).
  rewrite Z.geb_leb. destruct (Z.leb_spec 0 i).
  - change (- (1)) with (-1). rewrite Z.land_m1_r. reflexivity.
  - change (- (0)) with 0. rewrite Z.land_0_r. reflexivity.
Qed.

(* pvGetBlockIndex on a canonical address: the direction bit is the parity of Q, the index comes from T mod C *)
Lemma getblockindex_canon T Q :
  0 <= T -> 0 <= Q < m ->
  Gen_MemPool.pvGetBlockIndex C B A (pt T Q) =
    let index := T mod C - (if Q mod 2 =? 0 then C else 0) in
    Ok (index, pt T Q - index * B - (if Q mod 2 =? 0 then 0 else A)).
Proof.
  intros HT HQ. unfold Gen_MemPool.pvGetBlockIndex. cbv zeta.
  pose proof B_pos. pose proof B_small.
  rewrite pt_modA. rewrite Z.eqb_refl.
  rewrite pt_mod, pt_div by assumption.
  rewrite (Z.mul_comm A Q), Z.div_mul by lia.
  pose proof (Z.mod_pos_bound Q 2 ltac:(lia)) as HQ2.
  pose proof (Z.mod_pos_bound T C ltac:(lia)) as HTC.
  rewrite (wrapS_small 64 (Q mod 2)) by (change (2 ^ (64 - 1)) with 9223372036854775808; lia).
  rewrite (wrapS_small 64 (T mod C)) by (change (2 ^ (64 - 1)) with 9223372036854775808; lia).
  rewrite (wrapS_small 64 C) by (change (2 ^ (64 - 1)) with 9223372036854775808; lia).
  rewrite (wrapS_small 64 B) by (change (2 ^ (64 - 1)) with (2 * 2 ^ 62); lia).
  rewrite (wrapS_small 64 A) by (change (2 ^ (64 - 1)) with 9223372036854775808; lia).
  destruct (Z.eqb_spec (Q mod 2) 0) as [E|E].
  - rewrite E. change (0 - 1) with (-1). rewrite Z.land_m1_r. change (- 0) with 0. rewrite Z.land_0_r.
    rewrite wrapS8_id by lia. reflexivity.
  - assert (Q mod 2 = 1) as E1 by lia. rewrite E1. change (1 - 1) with 0. rewrite Z.land_0_r.
    change (- (1)) with (-1). rewrite Z.land_m1_r. rewrite wrapS8_id by lia.
    rewrite Z.sub_0_r. reflexivity.
Qed.
(* pvGetBufferSize in closed form (no wrap-around under Hsmall) *)
Lemma buffersize_spec :
  Gen_MemPool.pvGetBufferSize C B A =
    C * B + addend A + (2 + m mod 2) * A + (if 3 <=? A then 0 else 2) + 18.
Proof.
  unfold Gen_MemPool.pvGetBufferSize. rewrite addend_indep.
  destruct (addend_facts A HA) as (Had & _ & _).
  pose proof B_pos. pose proof (Z.mod_pos_bound m 2 ltac:(lia)).
  assert (B / A = m) as -> by (rewrite HB, Z.mul_comm, Z.div_mul by lia; reflexivity).
  unfold Gen_MemPool.pvIsBufferBytesNear. change (wrapU 64 (2 + 1)) with 3. rewrite Z.geb_leb.
  change (wrapU 64 (2 * 8)) with 16.
  rewrite two63 in Hsmall.
  assert (0 <= (2 + m mod 2) * A <= 3 * A) by nia.
  rewrite (wrapU_small 64 (C * B)) by (rewrite two64; nia).
  rewrite (wrapU_small 64 (C * B + addend A)) by (rewrite two64; nia).
  rewrite (wrapU_small 64 (2 + m mod 2)) by (rewrite two64; lia).
  rewrite (wrapU_small 64 ((2 + m mod 2) * A)) by (rewrite two64; nia).
  rewrite (wrapU_small 64 (C * B + addend A + (2 + m mod 2) * A)) by (rewrite two64; nia).
  destruct (Z.leb_spec 3 A).
  - rewrite (wrapU_small 64 (C * B + addend A + (2 + m mod 2) * A + 0)) by (rewrite two64; nia).
    rewrite (wrapU_small 64 (C * B + addend A + (2 + m mod 2) * A + 0 + 16)) by (rewrite two64; nia).
    rewrite wrapU_small by (rewrite two64; nia). lia.
  - rewrite (wrapU_small 64 (C * B + addend A + (2 + m mod 2) * A + 2)) by (rewrite two64; nia).
    rewrite (wrapU_small 64 (C * B + addend A + (2 + m mod 2) * A + 2 + 16)) by (rewrite two64; nia).
    rewrite wrapU_small by (rewrite two64; nia). lia.
Qed.

(* what pvNewBuffer's first block looks like: canonical address whose direction bit (parity of Q) tells whether the
   block index is 0 (odd, T mod C = 0) or negative (even, T mod C <> 0), and how far from `begin` it can be *)
Definition first_ok (begin fb : Z) : Prop :=
  exists T Q, fb = pt T Q /\ 0 <= T /\ 0 <= Q < m /\ begin <= fb /\
   ((Q mod 2 = 0 /\ Q + 1 < m /\ T mod C <> 0 /\ fb <= begin + addend A + (1 + m mod 2) * A) \/
    (Q mod 2 = 1 /\ T mod C = 0 /\ begin + A <= fb /\ fb <= begin + addend A + (2 + m mod 2) * A)).

Lemma newbuffer_prefix_spec begin :
  0 < begin -> begin mod (gran A) = 0 -> begin + Gen_MemPool.pvGetBufferSize C B A <= 2 ^ 64 ->
  exists fb, Gen_MemPool.pvNewBuffer C B A begin = Ok (fb, fb - begin) /\ first_ok begin fb /\ fb - begin < 65536.
Proof.
  intros Hb0 Hbg Hend. rewrite buffersize_spec in Hend.
  destruct (addend_facts A HA) as (Had & _ & _).
  pose proof B_pos as HBp. pose proof A_le_B as HAB. pose proof (Z.mod_pos_bound m 2 ltac:(lia)) as Hm2.
  assert (begin + 4 * A + 18 <= 2 ^ 64) as Hroom.
  { assert (4 * A <= C * B) by nia. assert (0 <= (2 + m mod 2) * A) by nia. destruct (3 <=? A); lia. }
  rewrite two64 in Hroom.
  unfold Gen_MemPool.pvNewBuffer. cbv zeta.
  destruct (Ceil_spec begin A ltac:(lia) ltac:(lia) ltac:(rewrite two64; lia)) as (k & Hk & Hkr).
  pose proof (ceil_offset_le_addend A begin k HA Hbg Hkr) as Hoff.
  rewrite Hk.
  (* canonical form of p0 = A*k *)
  set (t := k / m). set (q := k mod m).
  assert (k = m * t + q) as Ek by (unfold t, q; apply Z.div_mod; lia).
  assert (0 <= q < m) as Hq by (unfold q; apply Z.mod_pos_bound; lia).
  assert (0 <= k) as Hk0 by nia.
  assert (0 <= t) as Ht by (unfold t; apply Z.div_pos; lia).
  assert (A * k = pt t q) as E0 by (unfold pt; rewrite Ek; reflexivity).
  rewrite E0. rewrite E0 in Hkr, Hoff. clear Hk.
  (* step 1 (line 612): make Q even *)
  change (wrapU 64 (2 * A)) with (wrapU 64 (2 * A)).
  rewrite (wrapU_small 64 (2 * A)) by (rewrite two64; lia).
  rewrite pt_mod by assumption.
  replace (2 * A) with (A * 2) by ring. rewrite Z.mul_mod_distr_l by lia.
  pose proof (Z.mod_pos_bound q 2 ltac:(lia)) as Hq2.
  rewrite (wrapU_small 64 (pt t q + A * (q mod 2))) by (rewrite two64; nia).
  assert (exists T1 Q1, pt t q + A * (q mod 2) = pt T1 Q1 /\ 0 <= T1 /\ 0 <= Q1 < m /\ Q1 mod 2 = 0) as (T1 & Q1 & E1 & HT1 & HQ1 & HQ1e).
  { assert ((q + q mod 2) mod 2 = 0) as Hev.
    { rewrite Z.add_mod_idemp_r by lia. replace (q + q) with (q * 2) by ring. apply Z.mod_mul. lia. }
    destruct (Z.eq_dec (q + q mod 2) m) as [E|E].
    - exists (t + 1), 0. repeat split; try lia. rewrite <- pt_carry. unfold pt. rewrite <- E. ring.
    - exists t, (q + q mod 2). repeat split; try lia. unfold pt. ring. }
  rewrite E1.
  assert (pt T1 Q1 <= pt t q + A) as B1
    by (rewrite <- E1; assert (A * (q mod 2) <= A * 1) by (apply Z.mul_le_mono_nonneg_l; lia); lia).
  (* step 2 (lines 613-614) *)
  rewrite (wrapU_small 64 (pt T1 Q1 + A)) by (rewrite two64; lia).
  set (p2 := if (pt T1 Q1 + A) mod B =? 0 then pt T1 Q1 + A else pt T1 Q1).
  assert (exists T2 Q2, p2 = pt T2 Q2 /\ 0 <= T2 /\ 0 <= Q2 < m /\ Q2 mod 2 = 0 /\ Q2 + 1 < m /\
                        pt T1 Q1 <= p2 <= pt T1 Q1 + (m mod 2) * A) as (T2 & Q2 & E2 & HT2 & HQ2 & HQ2e & HQ2m & B2).
  { unfold p2. rewrite pt_stepA. destruct (Z.eq_dec (Q1 + 1) m) as [E|E].
    - rewrite E, pt_carry. rewrite pt_mod by lia. rewrite Z.mul_0_r, Z.eqb_refl.
      exists (T1 + 1), 0. repeat split; try lia.
      + rewrite <- pt_carry, <- E, <- pt_stepA. lia.
      + assert (m mod 2 = 1) as ->.
        { rewrite <- E. rewrite <- Z.add_mod_idemp_l by lia. rewrite HQ1e. reflexivity. }
        rewrite <- pt_carry, <- E, <- pt_stepA. lia.
    - rewrite pt_mod by lia. destruct (Z.eqb_spec (A * (Q1 + 1)) 0) as [Z0|Z0]; [nia|].
      exists T1, Q1. repeat split; try lia; try nia. }
  clearbody p2. subst p2.
  (* step 3 (lines 615-616) *)
  rewrite pt_div by assumption.
  assert (0 <= (m mod 2) * A <= A) as Hm2A.
  { split; [apply Z.mul_nonneg_nonneg; lia|]. rewrite <- (Z.mul_1_l A) at 2. apply Z.mul_le_mono_nonneg_r; lia. }
  rewrite (wrapU_small 64 (pt T2 Q2 + A)) by (rewrite two64; lia).
  destruct (Z.eqb_spec (T2 mod C) 0) as [Ez|Ez].
  - rewrite (wrapU_small 64 (pt T2 Q2 + A - begin)) by (rewrite two64; lia).
    change (wrapU 64 (Z.shiftl 1 16)) with 65536.
    destruct (Z.ltb_spec (pt T2 Q2 + A - begin) 65536) as [L|L]; [|lia].
    exists (pt T2 Q2 + A). split; [reflexivity|]. split; [|assumption].
    exists T2, (Q2 + 1). rewrite pt_stepA. repeat split; try lia.
    + rewrite <- pt_stepA. lia.
    + right. repeat split; try lia.
      * rewrite <- Z.add_mod_idemp_l by lia. rewrite HQ2e. reflexivity.
      * rewrite <- pt_stepA. lia.
      * rewrite <- pt_stepA. nia.
  - rewrite (wrapU_small 64 (pt T2 Q2 - begin)) by (rewrite two64; lia).
    change (wrapU 64 (Z.shiftl 1 16)) with 65536.
    destruct (Z.ltb_spec (pt T2 Q2 - begin) 65536) as [L|L]; [|lia].
    exists (pt T2 Q2). split; [reflexivity|]. split; [|assumption].
    exists T2, Q2. repeat split; try lia; try (left; repeat split; try lia; nia).
Qed.
Lemma mod_add_wrap T j : 0 <= j -> C <= T mod C + j < 2 * C -> (T + j) mod C = T mod C + j - C.
Proof.
  intros Hj Hs. symmetry. apply Z.mod_unique with (q := T / C + 1); [lia|].
  pose proof (Z.div_mod T C ltac:(lia)). lia.
Qed.

(* the complete result of pvNewBuffer's address computation (lines 605-622) *)
Definition laid_out (begin fb first buffer : Z) : Prop :=
  exists T Q, fb = pt T Q /\ 0 <= T /\ 0 <= Q < m /\ begin <= fb /\
   ((Q mod 2 = 0 /\ Q + 1 < m /\ T mod C <> 0 /\ first = T mod C - C /\ buffer = fb - first * B /\
     fb <= begin + addend A + (1 + m mod 2) * A) \/
    (Q mod 2 = 1 /\ T mod C = 0 /\ first = 0 /\ buffer = fb - A /\ begin + A <= fb /\
     fb <= begin + addend A + (2 + m mod 2) * A)).

Lemma new_buffer_layout_spec begin :
  0 < begin -> begin mod (gran A) = 0 -> begin + Gen_MemPool.pvGetBufferSize C B A <= 2 ^ 64 ->
  exists fb first buffer,
    PoolLayout.new_buffer_layout C B A begin = Ok (fb, fb - begin, first, buffer) /\
    laid_out begin fb first buffer /\ fb - begin < 65536.
Proof.
  intros H1 H2 H3. destruct (newbuffer_prefix_spec begin H1 H2 H3) as (fb & E & (T & Q & Efb & HT & HQ & Hbf & Hcase) & Hoff).
  unfold PoolLayout.new_buffer_layout. rewrite E.
  replace (begin + (fb - begin)) with fb by ring. rewrite Efb.
  rewrite getblockindex_canon by assumption. cbv zeta.
  destruct Hcase as [(Qe & Qm & Tn & Bd)|(Qo & Tz & Bl & Bu)].
  - rewrite Qe. simpl (0 =? 0).  cbv iota.
    exists (pt T Q), (T mod C - C), (pt T Q - (T mod C - C) * B - 0).
    split; [rewrite <- Efb; reflexivity|]. split; [|rewrite <- Efb; assumption].
    exists T, Q. repeat split; try lia; try (left; repeat split; lia).
  - rewrite Qo. simpl (1 =? 0). cbv iota. rewrite Tz.
    exists (pt T Q), 0, (pt T Q - (0 - 0) * B - A).
    split; [rewrite <- Efb; reflexivity|]. split; [|rewrite <- Efb; assumption].
    exists T, Q. repeat split; try lia; try (right; repeat split; lia).
Qed.

(* explicit address of the j-th block of a laid-out buffer *)
Lemma block_explicit begin fb first buffer j :
  laid_out begin fb first buffer -> 0 <= j < C ->
  -128 <= first + j <= 127 /\
  PoolLayout.block_of B A buffer first j = fb + j * B + (if (first <? 0) && (0 <=? first + j) then A else 0).
Proof.
  intros (T & Q & Efb & HT & HQ & Hbf & Hcase) Hj.
  pose proof (Z.mod_pos_bound T C ltac:(lia)) as HTC.
  assert (-128 <= first + j <= 127) as R by (destruct Hcase as [(?&?&?&?&?&?)|(?&?&?&?&?&?)]; lia).
  split; [exact R|].
  unfold PoolLayout.block_of. rewrite wrapS8_id by lia. rewrite getblock_spec.
  destruct Hcase as [(Qe & Qm & Tn & Ef & Eb & Bd)|(Qo & Tz & Ef & Eb & Bl & Bu)].
  - assert (first <? 0 = true) as -> by (apply Z.ltb_lt; lia). simpl andb.
    rewrite Eb. destruct (0 <=? first + j); ring.
  - subst first. simpl (0 <? 0). simpl andb. cbv iota.
    replace (0 + j) with j by ring. assert (0 <=? j = true) as -> by (apply Z.leb_le; lia). rewrite Eb. ring.
Qed.

Lemma first_block begin fb first buffer :
  laid_out begin fb first buffer -> Gen_MemPool.pvGetBlock B A buffer first = fb.
Proof.
  intros L. destruct (block_explicit begin fb first buffer 0 L ltac:(lia)) as (R & E).
  unfold PoolLayout.block_of in E. rewrite Z.add_0_r in E. rewrite wrapS8_id in E by lia. rewrite E.
  destruct L as (T & Q & _ & _ & _ & _ & [(?&?&?&?&?&?)|(?&?&?&?&?&?)]).
  - assert (0 <=? first = false) as -> by (apply Z.leb_gt; pose proof (Z.mod_pos_bound T C ltac:(lia)); lia).
    rewrite andb_false_r. ring.
  - subst first. simpl. ring.
Qed.

(* blockindex_roundtrip: the index and the buffer are recovered from the address of every block *)
Lemma blockindex_roundtrip begin fb first buffer j :
  laid_out begin fb first buffer -> 0 <= j < C ->
  Gen_MemPool.pvGetBlockIndex C B A (PoolLayout.block_of B A buffer first j) = Ok (first + j, buffer).
Proof.
  intros L Hj. destruct (block_explicit begin fb first buffer j L Hj) as (R & E). rewrite E. clear E.
  destruct L as (T & Q & Efb & HT & HQ & Hbf & Hcase).
  pose proof (Z.mod_pos_bound T C ltac:(lia)) as HTC.
  destruct Hcase as [(Qe & Qm & Tn & Ef & Eb & Bd)|(Qo & Tz & Ef & Eb & Bl & Bu)].
  - assert (first <? 0 = true) as -> by (apply Z.ltb_lt; lia). simpl andb.
    destruct (Z.leb_spec 0 (first + j)) as [G|G].
    + (* non-negative index: one alignment step above the negative blocks *)
      rewrite Efb, pt_shift, pt_stepA.
      rewrite getblockindex_canon by lia. cbv zeta.
      assert ((Q + 1) mod 2 = 1) as -> by (rewrite <- Z.add_mod_idemp_l by lia; rewrite Qe; reflexivity).
      simpl (1 =? 0). cbv iota.
      rewrite mod_add_wrap by lia.
      f_equal. f_equal; [lia|]. rewrite Eb, Efb, <- pt_stepA, <- pt_shift. rewrite Ef. ring.
    + rewrite Z.add_0_r. rewrite Efb, pt_shift.
      rewrite getblockindex_canon by lia. cbv zeta. rewrite Qe. simpl (0 =? 0). cbv iota.
      rewrite mod_add_small by lia.
      f_equal. f_equal; [lia|]. rewrite Eb, Efb, <- pt_shift. rewrite Ef. ring.
  - subst first. simpl (0 <? 0). simpl andb. cbv iota. rewrite Z.add_0_r.
    rewrite Efb, pt_shift. rewrite getblockindex_canon by lia. cbv zeta. rewrite Qo. simpl (1 =? 0). cbv iota.
    rewrite mod_add_small by lia. rewrite Tz.
    f_equal. f_equal; [lia|]. rewrite Eb, Efb, <- pt_shift. ring.
Qed.
Lemma endpos_spec buffer first : - (C - 1) <= first <= 0 ->
  Gen_MemPool.pvGetBlocksEndPosition C (fun _ => first) B A buffer = buffer + A + B * (C + first).
Proof.
  intros Hf. unfold Gen_MemPool.pvGetBlocksEndPosition. cbv zeta. pose proof B_pos. rewrite two63 in Hsmall.
  rewrite (wrapU_small 64 (- first)) by (rewrite two64; lia).
  replace (C - - first) with (C + first) by ring.
  rewrite (wrapU_small 64 (C + first)) by (rewrite two64; lia).
  rewrite wrapU_small by (rewrite two64; nia). reflexivity.
Qed.

Lemma laid_out_first_range begin fb first buffer : laid_out begin fb first buffer -> - (C - 1) <= first <= 0.
Proof.
  intros (T & Q & _ & _ & _ & _ & [(?&?&?&?&?&?)|(?&?&?&?&?&?)]); pose proof (Z.mod_pos_bound T C ltac:(lia)); lia.
Qed.

(* the geometry of a buffer: blocks aligned, inside the memory obtained, pairwise disjoint, disjoint from every byte the
   pool itself uses in the buffer; those bytes are inside the memory obtained as well *)
Lemma layout_geometry begin fb first buffer :
  laid_out begin fb first buffer ->
  let size := Gen_MemPool.pvGetBufferSize C B A in
  (forall j, 0 <= j < C ->
     let b := PoolLayout.block_of B A buffer first j in
     b mod A = 0 /\ begin <= b /\ b + B <= begin + size /\
     (forall j', j < j' < C -> b + B <= PoolLayout.block_of B A buffer first j') /\
     (forall p len, In (p, len) (PoolLayout.meta_ranges C B A buffer first) -> p + len <= b \/ b + B <= p)) /\
  (forall p len, In (p, len) (PoolLayout.meta_ranges C B A buffer first) -> begin <= p /\ p + len <= begin + size).
Proof.
  intros L size. unfold size. rewrite buffersize_spec.
  pose proof (laid_out_first_range _ _ _ _ L) as Hfr.
  pose proof B_pos as HBp. pose proof A_le_B as HAB.
  destruct (addend_facts A HA) as (Had & _ & _).
  pose proof (Z.mod_pos_bound m 2 ltac:(lia)) as Hm2.
  assert (forall p len, In (p, len) (PoolLayout.meta_ranges C B A buffer first) ->
            (p = buffer /\ len = 1) \/ (3 <= A /\ p = buffer + 1 /\ len = 2) \/
            (buffer + A + B * (C + first) <= p /\ p + len <= buffer + A + B * (C + first) + (if 3 <=? A then 0 else 2) + 18)) as Hmeta.
  { intros p len Hin. unfold PoolLayout.meta_ranges in Hin. cbv zeta in Hin.
    unfold Gen_MemPool.pvGetBeginOffsetPosition, Gen_MemPool.pvGetNextBufferPosition, Gen_MemPool.pvGetPrevBufferPosition,
      Gen_MemPool.pvGetBufferBytesPosition, Gen_MemPool.pvIsBufferBytesNear in Hin.
    rewrite endpos_spec in Hin by assumption. change (wrapU 64 (2 + 1)) with 3 in Hin. rewrite Z.geb_leb in Hin.
    simpl in Hin. destruct (Z.leb_spec 3 A);
    repeat (destruct Hin as [Hin|Hin]; [inversion Hin; subst; clear Hin; lia|]); contradiction. }
  assert (forall j, 0 <= j < C -> PoolLayout.block_of B A buffer first j = fb + j * B + (if (first <? 0) && (0 <=? first + j) then A else 0)) as Hblk
    by (intros j Hj; apply (block_explicit begin fb first buffer j L Hj)).
  destruct L as (T & Q & Efb & HT & HQ & Hbf & Hcase).
  pose proof (Z.mod_pos_bound T C ltac:(lia)) as HTC.
  assert (0 <= (1 + m mod 2) * A /\ (2 + m mod 2) * A = (1 + m mod 2) * A + A) as (Hx1 & Hx2) by nia.
  split.
  - intros j Hj. cbv zeta. rewrite (Hblk j Hj).
    assert (0 <= j * B /\ (j + 1) * B <= C * B) as (Hj1 & Hj2) by nia.
    split; [|split; [|split; [|split]]].
    + (* aligned *)
      rewrite Efb. unfold pt. rewrite HB.
      destruct ((first <? 0) && (0 <=? first + j)).
      * replace (A * (m * T + Q) + j * (A * m) + A) with ((m * T + Q + j * m + 1) * A) by ring. apply Z.mod_mul. lia.
      * replace (A * (m * T + Q) + j * (A * m) + 0) with ((m * T + Q + j * m) * A) by ring. apply Z.mod_mul. lia.
    + destruct ((first <? 0) && (0 <=? first + j)); lia.
    + destruct Hcase as [(?&?&?&?&?&?)|(?&?&?&?&?&?)].
      * destruct ((first <? 0) && (0 <=? first + j)); destruct (3 <=? A); lia.
      * subst first. change (0 <? 0) with false. simpl andb. cbv iota. destruct (3 <=? A); lia.
    + intros j' Hj'. rewrite (Hblk j' ltac:(lia)).
      assert ((j + 1) * B <= j' * B) by mulmono.
      destruct (Z.ltb_spec first 0); simpl andb; [|lia].
      destruct (Z.leb_spec 0 (first + j)); destruct (Z.leb_spec 0 (first + j')); lia.
    + intros p len Hin. destruct (Hmeta p len Hin) as [(Ep & El)|[(HA3 & Ep & El)|(Hp1 & Hp2)]].
      * subst p len. destruct Hcase as [(?&?&?&Ef&Eb&?)|(?&?&Ef&Eb&?&?)].
        -- assert (first <? 0 = true) as -> by (apply Z.ltb_lt; lia). simpl andb.
           destruct (Z.leb_spec 0 (first + j)).
           ++ left. rewrite Eb. assert (- first * B <= j * B) by mulmono. lia.
           ++ right. rewrite Eb. assert ((j + 1) * B <= - first * B) by mulmono. lia.
        -- subst first. change (0 <? 0) with false. simpl andb. cbv iota. left. lia.
      * subst p len. destruct Hcase as [(?&?&?&Ef&Eb&?)|(?&?&Ef&Eb&?&?)].
        -- assert (first <? 0 = true) as -> by (apply Z.ltb_lt; lia). simpl andb.
           destruct (Z.leb_spec 0 (first + j)).
           ++ left. rewrite Eb. assert (- first * B <= j * B) by mulmono. lia.
           ++ right. rewrite Eb. assert ((j + 1) * B <= - first * B) by mulmono. lia.
        -- subst first. change (0 <? 0) with false. simpl andb. cbv iota. left. lia.
      * right. destruct Hcase as [(?&?&?&Ef&Eb&?)|(?&?&Ef&Eb&?&?)].
        -- rewrite Eb in Hp1. destruct ((first <? 0) && (0 <=? first + j)); nia.
        -- subst first. change (0 <? 0) with false. simpl andb. cbv iota. rewrite Eb in Hp1. nia.
  - intros p len Hin. destruct (Hmeta p len Hin) as [(Ep & El)|[(HA3 & Ep & El)|(Hp1 & Hp2)]].
    + subst p len. destruct Hcase as [(?&?&?&Ef&Eb&?)|(?&?&Ef&Eb&?&?)].
      * rewrite Eb. assert (0 <= - first * B <= C * B) by nia. destruct (3 <=? A); lia.
      * rewrite Eb. assert (0 <= C * B) by nia. destruct (3 <=? A); lia.
    + subst p len. destruct Hcase as [(?&?&?&Ef&Eb&?)|(?&?&Ef&Eb&?&?)].
      * rewrite Eb. assert (0 <= - first * B <= C * B) by nia. destruct (3 <=? A); lia.
      * rewrite Eb. assert (0 <= C * B) by nia. destruct (3 <=? A); lia.
    + destruct Hcase as [(?&?&?&Ef&Eb&?)|(?&?&Ef&Eb&?&?)].
      * rewrite Eb in Hp1, Hp2. assert (0 <= - first * B <= C * B) by nia.
        replace (fb - first * B + A + B * (C + first)) with (fb + A + C * B) in * by ring.
        destruct (3 <=? A); lia.
      * subst first. rewrite Eb in Hp1, Hp2. replace (fb - A + A + B * (C + 0)) with (fb + C * B) in * by ring.
        destruct (3 <=? A); lia.
Qed.
End Layout.

(* ====================== top-level statements (no section variables) ====================== *)
(* legal parameters of a multi-block pool: what pvCheckParams enforces (check_params) + no overflow of the buffer size *)
Definition legal (C B A : Z) : Prop :=
  2 <= C <= 127 /\ 1 <= A <= 1024 /\ B mod A = 0 /\ 2 <= B / A /\ C * B + 4 * A + 32 < 2 ^ 63.
(* an address the memory manager may return for a request of `size` bytes *)
Definition begin_ok (A size begin : Z) : Prop :=
  0 < begin /\ begin mod (gran A) = 0 /\ begin + size <= 2 ^ 64.

Lemma legal_m C B A : legal C B A -> 2 <= B / A /\ B = A * (B / A).
Proof. intros (HC & HA & Hd & Hm & Hs). split; [exact Hm|]. pose proof (Z.div_mod B A ltac:(lia)). lia. Qed.

Lemma check_params_legal C B A :
  PoolLayout.check_params C B A = true -> 2 <= C -> C * B + 4 * A + 32 < 2 ^ 63 -> legal C B A.
Proof.
  unfold PoolLayout.check_params, Gen_MemPoolConst.CheckBlockCount, Gen_MemPoolConst.CheckBlockAlignment.
  intros H HC Hs. repeat (apply andb_prop in H; destruct H as [H ?]).
  assert (C =? 1 = false) as E by (apply Z.eqb_neq; lia). rewrite E in *. simpl orb in *.
  repeat match goal with H : (_ <=? _) = true |- _ => apply Z.leb_le in H | H : (_ <? _) = true |- _ => apply Z.ltb_lt in H
                    | H : (_ =? _) = true |- _ => apply Z.eqb_eq in H end.
  unfold legal. lia.
Qed.

(* params_corrected_ok: what MemPoolParams' constructor computes (CorrectBlockSize) passes pvCheckParams *)
Lemma params_corrected_ok bs al C :
  1 <= C <= 127 -> 1 <= al <= 1024 -> 0 <= bs <= 2 ^ 48 ->
  PoolLayout.check_params C (Gen_MemPoolConst.CorrectBlockSize bs al C) al = true.
Proof.
  intros HC Hal Hbs. change (2 ^ 48) with 281474976710656 in Hbs.
  assert (forall B, 0 < B <= 2 ^ 49 -> negb (B >? (18446744073709551615 - PoolLayout.max_overhead B al) / C) = true) as Hmax.
  { intros B HB. change (2 ^ 49) with 562949953421312 in HB. rewrite Z.gtb_ltb.
    destruct (addend_facts al Hal) as (Had & _ & _). unfold PoolLayout.max_overhead. rewrite addend_indep.
    assert (2 ^ 57 <= (18446744073709551615 - (addend al + 3 * al + 2 + 2 * 8 + 2)) / C) by (apply Z.div_le_lower_bound; [lia|]; change (2 ^ 57) with 144115188075855872; lia).
    change (2 ^ 57) with 144115188075855872 in *.
    destruct (Z.ltb_spec ((18446744073709551615 - (addend al + 3 * al + 2 + 2 * 8 + 2)) / C) B); [lia|reflexivity]. }
  unfold PoolLayout.check_params, Gen_MemPoolConst.CheckBlockCount, Gen_MemPoolConst.CheckBlockAlignment, Gen_MemPoolConst.CorrectBlockSize.
  assert ((0 <? C) && (C <? 128) = true) as -> by (apply andb_true_intro; split; [apply Z.ltb_lt|apply Z.ltb_lt]; lia).
  assert ((0 <? al) && (al <=? 1024) = true) as -> by (apply andb_true_intro; split; [apply Z.ltb_lt|apply Z.leb_le]; lia).
  rewrite !andb_true_l.
  destruct (Z.eqb_spec C 1) as [E1|E1].
  - rewrite !orb_true_l. rewrite !andb_true_r.
    rewrite Z.gtb_ltb. destruct (Z.ltb_spec 0 bs).
    + assert (0 <? bs = true) as -> by (apply Z.ltb_lt; lia). cbv iota. apply Hmax. change (2 ^ 49) with 562949953421312. lia.
    + assert (0 <? bs = false) as E0 by (apply Z.ltb_ge; lia). rewrite ?E0. cbv iota. apply Hmax. change (2 ^ 49) with 562949953421312. lia.
  - rewrite !orb_false_l. destruct (Z.leb_spec bs al).
    + rewrite wrapU_small by (rewrite two64; lia).
      assert (0 <? 2 * al = true) as -> by (apply Z.ltb_lt; lia).
      rewrite Z.mod_mul by lia. simpl (0 =? 0).
      rewrite Z.div_mul by lia. simpl (2 <=? 2). rewrite !andb_true_l. apply Hmax. change (2 ^ 49) with 562949953421312. lia.
    + destruct (Ceil_spec bs al ltac:(lia) ltac:(lia) ltac:(rewrite two64; lia)) as (k & Ek & Hk).
      rewrite Ek. assert (2 <= k) by nia.
      assert (0 <? al * k = true) as -> by (apply Z.ltb_lt; nia).
      rewrite (Z.mul_comm al k). rewrite Z.mod_mul by lia. simpl (0 =? 0).
      rewrite Z.div_mul by lia. assert (2 <=? k = true) as -> by (apply Z.leb_le; lia). rewrite !andb_true_l.
      apply Hmax. change (2 ^ 49) with 562949953421312. nia.
Qed.

(* newbuffer_layout + blockindex_roundtrip, for all legal parameters and every address the manager may return *)
Theorem newbuffer_layout_thm C B A begin :
  legal C B A -> begin_ok A (Gen_MemPool.pvGetBufferSize C B A) begin ->
  exists fb first buffer,
    PoolLayout.new_buffer_layout C B A begin = Ok (fb, fb - begin, first, buffer) /\
    fb - begin < 65536 /\ - (C - 1) <= first <= 0 /\
    Gen_MemPool.pvGetBlock B A buffer first = fb /\
    let size := Gen_MemPool.pvGetBufferSize C B A in
    (forall j, 0 <= j < C ->
       let b := PoolLayout.block_of B A buffer first j in
       -128 <= first + j <= 127 /\
       b mod A = 0 /\ begin <= b /\ b + B <= begin + size /\
       (forall j', j < j' < C -> b + B <= PoolLayout.block_of B A buffer first j') /\
       (forall p len, In (p, len) (PoolLayout.meta_ranges C B A buffer first) -> p + len <= b \/ b + B <= p) /\
       Gen_MemPool.pvGetBlockIndex C B A b = Ok (first + j, buffer)) /\
    (forall p len, In (p, len) (PoolLayout.meta_ranges C B A buffer first) -> begin <= p /\ p + len <= begin + size).
Proof.
  intros L (Hb0 & Hbg & Hbe). destruct (legal_m C B A L) as (Hm & EB). destruct L as (HC & HA & _ & _ & Hs).
  destruct (new_buffer_layout_spec C B A (B / A) HA Hm EB HC Hs begin Hb0 Hbg Hbe) as (fb & first & buffer & E & LO & Hoff).
  exists fb, first, buffer. split; [exact E|]. split; [exact Hoff|].
  split; [eapply laid_out_first_range; eassumption|].
  split; [eapply first_block; eassumption|].
  assert (let size := Gen_MemPool.pvGetBufferSize C B A in _) as G by (eapply layout_geometry; eassumption).
  cbv zeta in G. destruct G as (G1 & G2).
  cbv zeta. split; [|exact G2].
  intros j Hj. destruct (G1 j Hj) as (a1 & a2 & a3 & a4 & a5).
  assert (-128 <= first + j <= 127) as R by (eapply block_explicit; eassumption).
  repeat split; try assumption; try lia.
  eapply blockindex_roundtrip; eassumption.
Qed.

(* ---------- single-block pools (blockCount = 1, alignment above the manager's): pvNewBlock1 / pvDeleteBlock1 ---------- *)
Theorem block1_layout_thm B A buffer :
  1 <= A <= 1024 -> 0 < B < 2 ^ 62 -> begin_ok A (Gen_MemPool.pvGetBufferSize1 B A) buffer -> buffer + A < 2 ^ 64 ->
  exists block,
    PoolLayout.new_block1_layout B A buffer = Ok (block, block + B, block - buffer) /\
    block mod A = 0 /\ buffer <= block /\
    block + B + PoolLayout.offset_width <= buffer + Gen_MemPool.pvGetBufferSize1 B A /\
    block - buffer < 65536 /\
    (forall ld, ld (block + B) = block - buffer -> Gen_MemPool.pvDeleteBlock1 ld B A block = (block - buffer, buffer)).
Proof.
  intros HA HB (Hb0 & Hbg & Hbe) Htop. destruct (addend_facts A HA) as (Had & _ & _).
  change (2 ^ 62) with 4611686018427387904 in HB. rewrite two64 in Hbe, Htop.
  assert (Gen_MemPool.pvGetBufferSize1 B A = B + addend A + 2) as ES.
  { unfold Gen_MemPool.pvGetBufferSize1. rewrite addend_indep.
    rewrite (wrapU_small 64 (B + addend A)) by (rewrite two64; lia). rewrite wrapU_small by (rewrite two64; lia). reflexivity. }
  rewrite ES in *.
  destruct (Ceil_spec buffer A ltac:(lia) ltac:(lia) ltac:(rewrite two64; lia)) as (k & Ek & Hk).
  pose proof (ceil_offset_le_addend A buffer k HA Hbg Hk) as Hoff.
  unfold PoolLayout.new_block1_layout, Gen_MemPool.pvNewBlock1. cbv zeta. rewrite Ek.
  rewrite (wrapU_small 64 (A * k - buffer)) by (rewrite two64; lia).
  change (wrapU 64 (Z.shiftl 1 16)) with 65536.
  destruct (Z.ltb_spec (A * k - buffer) 65536) as [Lt|Ge]; [|lia].
  exists (A * k). replace (buffer + (A * k - buffer)) with (A * k) by ring.
  rewrite (wrapU_small 16 (A * k - buffer)) by (change (2 ^ 16) with 65536; lia).
  split; [reflexivity|]. split; [rewrite Z.mul_comm; apply Z.mod_mul; lia|].
  unfold PoolLayout.offset_width. repeat split; try lia.
  intros ld Hld. unfold Gen_MemPool.pvDeleteBlock1. cbv zeta. rewrite Hld. f_equal. ring.
Qed.

(* the shape pvNewBlock1 had BEFORE fix bf4257f (offset kept in one byte): legal alignments make its assertion fail *)
Definition pvNewBlock1_onebyte (B A buffer : Z) : outcome Z :=
  let uipBlock := Gen_UIntMath.Ceil buffer A in
  let offset := wrapU 64 (uipBlock - buffer) in
  if offset <? 256 then Ok (buffer + offset) else Stuck.

Lemma block1_onebyte_refuted :
  exists B A buffer, 1 <= A <= 1024 /\ 0 < B /\ 0 < buffer /\ buffer mod (gran A) = 0 /\ pvNewBlock1_onebyte B A buffer = Stuck.
Proof. exists 8, 512, 16. vm_compute. repeat split; intros; discriminate. Qed.

Lemma legal_example : legal 32 24 8.
Proof. unfold legal. rewrite two63. repeat split; try lia; vm_compute; congruence. Qed.

(* ---------- blockCount = 1: the dispatch of Allocate / Deallocate on the alignment addend ---------- *)
Lemma gran_divides_16 A : 1 <= A <= 1024 -> 16 mod (gran A) = 0.
Proof.
  intros H. pose proof addend_sweep as S. rewrite forallb_forall in S.
  assert (In A (map Z.of_nat (seq 1 1024))) as I.
  { apply in_map_iff. exists (Z.to_nat A). split; [lia|]. apply in_seq. lia. }
  specialize (S A I). unfold addend_ok in S. repeat (apply andb_prop in S; destruct S as [S ?]).
  apply Z.eqb_eq. assumption.
Qed.

Lemma mod16_mod_gran A begin : 1 <= A <= 1024 -> begin mod 16 = 0 -> begin mod (gran A) = 0.
Proof.
  intros HA H. destruct (addend_facts A HA) as (_ & _ & Hg). pose proof (gran_divides_16 A HA) as G.
  apply Z.mod_divide; [lia|]. apply Z.divide_trans with 16; apply Z.mod_divide; try lia; assumption.
Qed.

Lemma buffersize1_spec B A : 1 <= A <= 1024 -> 0 < B < 2 ^ 62 -> Gen_MemPool.pvGetBufferSize1 B A = B + addend A + 2.
Proof.
  intros HA HB. destruct (addend_facts A HA) as (Had & _ & _). change (2 ^ 62) with 4611686018427387904 in HB.
  unfold Gen_MemPool.pvGetBufferSize1. rewrite addend_indep.
  rewrite (wrapU_small 64 (B + addend A)) by (rewrite two64; lia). rewrite wrapU_small by (rewrite two64; lia). reflexivity.
Qed.

(* C09_block1_dispatch_aligned: whatever branch Allocate takes for a single-block pool, for EVERY legal alignment 1..1024
   (power of two or not) and every manager address that is a multiple of maxAllocAlignment = 16, the block is a multiple of
   blockAlignment, lies inside the bytes requested from the manager, and Deallocate gives back exactly that manager block.
   (The raw manager block is used only when the addend is 0, i.e. when blockAlignment = min(16, its lowest set bit), a power of
   two dividing 16 - that is what makes every 16-aligned address already blockAlignment-aligned.) *)
Theorem block1_dispatch_aligned B A begin :
  1 <= A <= 1024 -> 0 < B < 2 ^ 62 -> 0 < begin -> begin mod 16 = 0 -> begin + B + A + 2 < 2 ^ 64 ->
  exists block size,
    PoolLayout.alloc1 B A begin = Ok (block, size) /\
    block mod A = 0 /\ begin <= block /\ block + B <= begin + size /\
    (forall ld, ld (block + B) = block - begin -> PoolLayout.dealloc1 ld B A block = (begin, size)).
Proof.
  intros HA HB Hb0 H16 Htop. destruct (addend_facts A HA) as (Had & Hdiv & Hg).
  unfold PoolLayout.alloc1, PoolLayout.dealloc1. rewrite addend_indep.
  destruct (Z.eqb_spec (addend A) 0) as [E|E].
  - exists begin, (Gen_MemPool.pvGetBufferSize0 B A). split; [reflexivity|].
    assert (gran A = A) as GA by (unfold gran; lia).
    split; [rewrite <- GA at 1; apply mod16_mod_gran; assumption|]. split; [lia|].
    split; [|intros; reflexivity].
    unfold Gen_MemPool.pvGetBufferSize0. destruct (Z.ltb_spec A B); simpl; lia.
  - pose proof (buffersize1_spec B A HA HB) as ES.
    destruct (block1_layout_thm B A begin HA HB) as (block & E1 & M & L1 & L2 & _ & D).
    + unfold begin_ok. rewrite ES. split; [lia|]. split; [apply mod16_mod_gran; assumption|]. lia.
    + lia.
    + unfold PoolLayout.new_block1_layout in E1. destruct (Gen_MemPool.pvNewBlock1 B A begin) as [blk| | |] eqn:N; try discriminate.
      inversion E1; subst. exists block, (Gen_MemPool.pvGetBufferSize1 B A). split; [reflexivity|].
      split; [exact M|]. split; [exact L1|]. split; [unfold PoolLayout.offset_width in L2; lia|].
      intros ld Hld. rewrite (D ld Hld). reflexivity.
Qed.

(* the raw-manager-block branch is taken exactly for the alignments 1, 2, 4, 8, 16 *)
Lemma addend_zero_iff A : 1 <= A <= 1024 -> (addend A = 0 <-> A = 1 \/ A = 2 \/ A = 4 \/ A = 8 \/ A = 16).
Proof.
  intros H. assert (forallb (fun a => Bool.eqb (addend a =? 0) ((a =? 1) || (a =? 2) || (a =? 4) || (a =? 8) || (a =? 16))) (map Z.of_nat (seq 1 1024)) = true) as S by (vm_compute; reflexivity).
  rewrite forallb_forall in S.
  assert (In A (map Z.of_nat (seq 1 1024))) as I by (apply in_map_iff; exists (Z.to_nat A); split; [lia|apply in_seq; lia]).
  specialize (S A I). apply Bool.eqb_prop in S.
  split.
  - intros E. apply Z.eqb_eq in E. rewrite E in S. symmetry in S.
    repeat (apply orb_true_iff in S; destruct S as [S|S]); apply Z.eqb_eq in S; auto.
  - intros D. apply Z.eqb_eq. rewrite S. destruct D as [D|[D|[D|[D|D]]]]; rewrite D; reflexivity.
Qed.

(* the hand-mirrored choice of PoolLayout.alloc1 / dealloc1 is the machine-translated dispatch of pvDeleteBlock(void* ):
   branch 1 = multi-block pool (pvDeleteBlock(Byte* )), 2 = the manager block itself (Deallocate), 3 = pvDeleteBlock1 *)
Lemma dispatch_generated C B A blk :
  Gen_MemPool.pvDeleteBlock_dispatch C B A blk =
    if C >? 1 then 1 else if Gen_MemPool.pvGetAlignmentAddend B A =? 0 then 2 else 3.
Proof. reflexivity. Qed.

Lemma dispatch_single_block B A blk ld :
  (Gen_MemPool.pvDeleteBlock_dispatch 1 B A blk = 2 /\ PoolLayout.dealloc1 ld B A blk = (blk, Gen_MemPool.pvGetBufferSize0 B A)) \/
  (Gen_MemPool.pvDeleteBlock_dispatch 1 B A blk = 3 /\
   PoolLayout.dealloc1 ld B A blk = (snd (Gen_MemPool.pvDeleteBlock1 ld B A blk), Gen_MemPool.pvGetBufferSize1 B A)).
Proof.
  rewrite dispatch_generated. unfold PoolLayout.dealloc1. change (1 >? 1) with false. cbv iota.
  destruct (Gen_MemPool.pvGetAlignmentAddend B A =? 0); [left|right]; split; reflexivity.
Qed.

(* ---------- after fix e4ec548: every block size accepted by pvCheckParams has a buffer size that does NOT wrap ---------- *)
Lemma check_params_facts C B A : PoolLayout.check_params C B A = true ->
  1 <= C <= 127 /\ 1 <= A <= 1024 /\ 0 < B /\ C * B + PoolLayout.max_overhead B A <= 18446744073709551615.
Proof.
  unfold PoolLayout.check_params, Gen_MemPoolConst.CheckBlockCount, Gen_MemPoolConst.CheckBlockAlignment.
  intros H. repeat (apply andb_prop in H; destruct H as [H ?]).
  repeat match goal with H : (_ <=? _) = true |- _ => apply Z.leb_le in H | H : (_ <? _) = true |- _ => apply Z.ltb_lt in H end.
  match goal with H : negb _ = true |- _ => apply negb_true_iff in H; rewrite Z.gtb_ltb in H; apply Z.ltb_ge in H; rename H into Hle end.
  assert (1 <= A <= 1024) as HA by lia. destruct (addend_facts A HA) as (Had & _ & _).
  assert (0 <= PoolLayout.max_overhead B A <= 5000) as Ho by (unfold PoolLayout.max_overhead; rewrite addend_indep; lia).
  repeat split; try lia.
  pose proof (Z.mul_div_le (18446744073709551615 - PoolLayout.max_overhead B A) C ltac:(lia)) as Hd.
  assert (C * B <= C * ((18446744073709551615 - PoolLayout.max_overhead B A) / C)) as Hm by (apply Z.mul_le_mono_nonneg_l; lia).
  lia.
Qed.

Theorem check_params_no_wrap C B A : PoolLayout.check_params C B A = true ->
  Gen_MemPool.pvGetBufferSize C B A =
    C * B + addend A + (2 + (B / A) mod 2) * A + (if 3 <=? A then 0 else 2) + 18 /\
  Gen_MemPool.pvGetBufferSize C B A < 2 ^ 64 /\ C * B <= Gen_MemPool.pvGetBufferSize C B A /\
  Gen_MemPool.pvGetBufferSize1 B A = B + addend A + 2 /\ Gen_MemPool.pvGetBufferSize1 B A < 2 ^ 64.
Proof.
  intros H. destruct (check_params_facts C B A H) as (HC & HA & HB & Hov). unfold PoolLayout.max_overhead in Hov. rewrite addend_indep in Hov.
  destruct (addend_facts A HA) as (Had & _ & _).
  pose proof (Z.mod_pos_bound (B / A) 2 ltac:(lia)) as Hm2.
  assert (0 <= (2 + (B / A) mod 2) * A <= 3 * A) as Hx by (split; [apply Z.mul_nonneg_nonneg; lia|apply Z.mul_le_mono_nonneg_r; lia]).
  assert (0 <= C * B) as Hcb by (apply Z.mul_nonneg_nonneg; lia).
  unfold Gen_MemPool.pvGetBufferSize, Gen_MemPool.pvGetBufferSize1. rewrite !addend_indep.
  unfold Gen_MemPool.pvIsBufferBytesNear. change (wrapU 64 (2 + 1)) with 3. rewrite Z.geb_leb. change (wrapU 64 (2 * 8)) with 16.
  rewrite (wrapU_small 64 (C * B)) by (rewrite two64; lia).
  rewrite (wrapU_small 64 (C * B + addend A)) by (rewrite two64; lia).
  rewrite (wrapU_small 64 (2 + (B / A) mod 2)) by (rewrite two64; lia).
  rewrite (wrapU_small 64 ((2 + (B / A) mod 2) * A)) by (rewrite two64; lia).
  rewrite (wrapU_small 64 (C * B + addend A + (2 + (B / A) mod 2) * A)) by (rewrite two64; lia).
  assert (B <= C * B) as HBC by (rewrite <- (Z.mul_1_l B) at 1; apply Z.mul_le_mono_nonneg_r; lia).
  assert (B + addend A + 2 <= 18446744073709551615) as H1 by lia.
  rewrite (wrapU_small 64 (B + addend A)) by (rewrite two64; lia). rewrite (wrapU_small 64 (B + addend A + 2)) by (rewrite two64; lia).
  rewrite two64.
  destruct (Z.leb_spec 3 A).
  - rewrite (wrapU_small 64 (C * B + addend A + (2 + (B / A) mod 2) * A + 0)) by (rewrite two64; lia).
    rewrite (wrapU_small 64 (C * B + addend A + (2 + (B / A) mod 2) * A + 0 + 16)) by (rewrite two64; lia).
    rewrite wrapU_small by (rewrite two64; lia). repeat split; lia.
  - rewrite (wrapU_small 64 (C * B + addend A + (2 + (B / A) mod 2) * A + 2)) by (rewrite two64; lia).
    rewrite (wrapU_small 64 (C * B + addend A + (2 + (B / A) mod 2) * A + 2 + 16)) by (rewrite two64; lia).
    rewrite wrapU_small by (rewrite two64; lia). repeat split; lia.
Qed.

(* the check as it was BEFORE the fix accepted a size whose buffer size wraps (blockCount 127, alignment 1) *)
Definition check_params_prefix (C B A : Z) : bool :=
  Gen_MemPoolConst.CheckBlockCount C && Gen_MemPoolConst.CheckBlockAlignment A && (0 <? B)
  && ((C =? 1) || (B mod A =? 0)) && ((C =? 1) || (2 <=? B / A)) && negb (B >? 18446744073709551615 / C).
Lemma check_params_prefix_refuted :
  exists C B A, check_params_prefix C B A = true /\ Gen_MemPool.pvGetBufferSize C B A < C * B.
Proof. exists 127, 145249953336295682, 1. vm_compute. split; reflexivity. Qed.

(* ---- MemPoolConst::GetBlockAlignment (generated from the recursive constexpr function as a fuelled Fixpoint) ----
   For a power-of-two maxAlignment 2^k (k <= 63; the library default is alignof(max_align_t)) and ANY block size, the generated
   function terminates within its fuel (65) and returns the LARGEST power of two that is <= maxAlignment and <= max(blockSize, 1). *)
Lemma gba_rec_spec : forall bs k fuel, 0 <= bs -> (k < fuel)%nat ->
  exists i, (i <= k)%nat /\ Gen_MemPoolConst.GetBlockAlignment_rec fuel bs (2 ^ Z.of_nat k) = Ok (2 ^ Z.of_nat i)
    /\ (2 ^ Z.of_nat i <= bs \/ i = O) /\ (i = k \/ bs < 2 ^ (Z.of_nat i + 1)).
Proof.
  intros bs k. induction k as [|k IH]; intros fuel Hbs Hf.
  - destruct fuel as [|fuel]; [lia|]. exists O. cbn [Gen_MemPoolConst.GetBlockAlignment_rec].
    change (2 ^ Z.of_nat 0) with 1. rewrite andb_false_r. repeat split; auto; lia.
  - destruct fuel as [|fuel]; [lia|]. cbn [Gen_MemPoolConst.GetBlockAlignment_rec].
    assert (2 ^ Z.of_nat (S k) = 2 * 2 ^ Z.of_nat k) as Hp by (rewrite Nat2Z.inj_succ, Z.pow_succ_r by lia; reflexivity).
    assert (0 < 2 ^ Z.of_nat k) as Hpos by (apply Z.pow_pos_nonneg; lia).
    rewrite !Z.gtb_ltb. destruct (Z.ltb_spec bs (2 ^ Z.of_nat (S k))) as [Hlt|Hge].
    + assert ((1 <? 2 ^ Z.of_nat (S k)) = true) as -> by (apply Z.ltb_lt; lia). cbv iota. rewrite andb_true_l.
      replace (2 ^ Z.of_nat (S k) / 2) with (2 ^ Z.of_nat k) by (rewrite Hp, Z.mul_comm, Z.div_mul by lia; reflexivity).
      destruct (IH fuel Hbs ltac:(lia)) as (i & Hi & He & Hle & Hmax). exists i. split; [lia|]. split; [exact He|]. split; [exact Hle|].
      right. destruct Hmax as [->|Hm]; [|exact Hm]. replace (Z.of_nat k + 1) with (Z.of_nat (S k)) by lia. exact Hlt.
    + rewrite andb_false_l. exists (S k). repeat split; auto; lia.
Qed.

Theorem get_block_alignment_spec : forall bs k, 0 <= bs -> (k <= 63)%nat ->
  exists i, (i <= k)%nat /\ Gen_MemPoolConst.GetBlockAlignment bs (2 ^ Z.of_nat k) = Ok (2 ^ Z.of_nat i)
    /\ (2 ^ Z.of_nat i <= bs \/ i = O) /\ (i = k \/ bs < 2 ^ (Z.of_nat i + 1)).
Proof.
  intros bs k Hbs Hk. unfold Gen_MemPoolConst.GetBlockAlignment. apply gba_rec_spec; [exact Hbs|].
  change (Z.to_nat 65) with 65%nat. lia.
Qed.

(* with the library default maxAlignment 16 the result is accepted by CheckBlockAlignment, and the constructor
   MemPoolParams(blockSize) = MemPoolParams(blockSize, GetBlockAlignment(blockSize)) yields parameters accepted by pvCheckParams
   (for every block count and every block size that is not astronomically large) *)
Theorem default_alignment_params_ok : forall C bs, 1 <= C <= 127 -> 0 <= bs <= 2 ^ 48 ->
  exists a, Gen_MemPoolConst.GetBlockAlignment bs 16 = Ok a /\ (a = 1 \/ a = 2 \/ a = 4 \/ a = 8 \/ a = 16) /\ (a <= bs \/ a = 1)
    /\ Gen_MemPoolConst.CheckBlockAlignment a = true
    /\ PoolLayout.check_params C (Gen_MemPoolConst.CorrectBlockSize bs a C) a = true.
Proof.
  intros C bs HC Hbs. destruct (get_block_alignment_spec bs 4 ltac:(lia) ltac:(lia)) as (i & Hi & He & Hle & _).
  change (2 ^ Z.of_nat 4) with 16 in He. exists (2 ^ Z.of_nat i). split; [exact He|].
  assert (i = 0 \/ i = 1 \/ i = 2 \/ i = 3 \/ i = 4)%nat as Hc by lia.
  assert (1 <= 2 ^ Z.of_nat i <= 1024) as Hr by (destruct Hc as [->|[->|[->|[->| ->]]]]; cbn; lia).
  split; [destruct Hc as [->|[->|[->|[->| ->]]]]; cbn; tauto|].
  split; [destruct Hle as [Hle| ->]; [left; exact Hle|right; reflexivity]|].
  split; [unfold Gen_MemPoolConst.CheckBlockAlignment; apply andb_true_intro; split; [apply Z.ltb_lt|apply Z.leb_le]; lia|].
  apply params_corrected_ok; assumption.
Qed.

(* ---- MemPool::Data::Swap (GENERATED, Gen_MemPoolData.v): the memory manager sub-object and allocCount of the two pools change
   places - also when the managers do not compare equal (the buffers change places in MemPool::Swap, PoolConc.Swap) ---- *)
Lemma data_swap_spec m a dm da : Gen_MemPoolData.Swap m a dm da = (dm, da, m, a).
Proof. reflexivity. Qed.

(* consequence for "every buffer goes back through the manager that allocated it": if every buffer of each pool was obtained from
   that pool's manager, then after Swap (buffer lists exchanged, Data exchanged by the generated function) this still holds;
   exchanging the buffer lists WITHOUT the managers (the shape a Swap that skips Data::Swap's three manager moves would have) breaks
   it as soon as the managers differ and a buffer exists *)
Definition owned_by (mgr : Z) (bufs : list Z) (owner : Z -> Z) : Prop := forall b, In b bufs -> owner b = mgr.
Theorem data_swap_keeps_owner m a dm da l dl owner :
  owned_by m l owner -> owned_by dm dl owner ->
  let '(m', _, dm', _) := Gen_MemPoolData.Swap m a dm da in owned_by m' dl owner /\ owned_by dm' l owner.
Proof. intros H1 H2. rewrite data_swap_spec. split; assumption. Qed.
Lemma swap_without_managers_refuted :
  exists m dm l dl owner, owned_by m l owner /\ owned_by dm dl owner /\ ~ (owned_by m dl owner /\ owned_by dm l owner).
Proof.
  exists 1, 2, [10], [], (fun _ => 1). split; [intros b _; reflexivity|]. split; [intros b []|].
  intros (_ & H). specialize (H 10 (or_introl eq_refl)). discriminate.
Qed.

(* ---- pvCheckParams GENERATED (Gen_MemPool.pvCheckParams, MOMO_CHECK under the default check mode = assertion): it is Ok exactly when
   the hand mirror PoolLayout.check_params holds; a failed MOMO_CHECK is Stuck (assertion), a too large block size is Exn (length_error).
   So every theorem stated with `check_params C B A = true` is a theorem about the generated constructor check. ---- *)
Lemma check_params_generated C B A :
  Gen_MemPool.pvCheckParams C B A = if PoolLayout.check_params C B A then Ok tt
    else if Gen_MemPoolConst.CheckBlockCount C && Gen_MemPoolConst.CheckBlockAlignment A && (0 <? B)
            && ((C =? 1) || (B mod A =? 0)) && ((C =? 1) || (2 <=? B / A)) then Exn else Stuck.
Proof.
  unfold Gen_MemPool.pvCheckParams, PoolLayout.check_params, PoolLayout.max_overhead, Gen_MemPool.checkMode, Gen_MemPool.maxSize.
  change (1 =? 1) with true. change (1 =? 2) with false. cbn [negb orb]. cbv iota.
  rewrite Z.geb_leb, (Z.gtb_ltb B 0).
  destruct (Gen_MemPoolConst.CheckBlockCount C); [|reflexivity].
  destruct (Gen_MemPoolConst.CheckBlockAlignment A) eqn:EA; [|reflexivity].
  destruct (0 <? B); [|reflexivity].
  destruct ((C =? 1) || (B mod A =? 0)); [|reflexivity].
  destruct ((C =? 1) || (2 <=? B / A)); [|reflexivity].
  cbn [andb].
  unfold Gen_MemPoolConst.CheckBlockAlignment in EA. apply andb_prop in EA. destruct EA as (E1 & E2).
  apply Z.ltb_lt in E1. apply Z.leb_le in E2.
  destruct (addend_facts A ltac:(lia)) as (Had & _ & _). rewrite addend_indep.
  rewrite (wrapU_small 64 (3 * A)) by (rewrite two64; lia).
  rewrite (wrapU_small 64 (addend A + 3 * A)) by (rewrite two64; lia).
  rewrite (wrapU_small 64 (addend A + 3 * A + 2)) by (rewrite two64; lia).
  change (wrapU 64 (2 * 8)) with 16. change (2 * 8) with 16.
  rewrite (wrapU_small 64 (addend A + 3 * A + 2 + 16)) by (rewrite two64; lia).
  rewrite (wrapU_small 64 (addend A + 3 * A + 2 + 16 + 2)) by (rewrite two64; lia).
  rewrite (wrapU_small 64 (18446744073709551615 - _)) by (rewrite two64; lia).
  destruct (B >? _); reflexivity.
Qed.

Theorem check_params_generated_no_wrap C B A : Gen_MemPool.pvCheckParams C B A = Ok tt ->
  Gen_MemPool.pvGetBufferSize C B A =
    C * B + addend A + (2 + (B / A) mod 2) * A + (if 3 <=? A then 0 else 2) + 18 /\
  Gen_MemPool.pvGetBufferSize C B A < 2 ^ 64 /\ C * B <= Gen_MemPool.pvGetBufferSize C B A /\
  Gen_MemPool.pvGetBufferSize1 B A = B + addend A + 2 /\ Gen_MemPool.pvGetBufferSize1 B A < 2 ^ 64.
Proof.
  intros H. apply check_params_no_wrap. rewrite check_params_generated in H.
  destruct (PoolLayout.check_params C B A); [reflexivity|].
  destruct (_ && _); discriminate.
Qed.
