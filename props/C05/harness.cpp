// C05 implementation side: the REAL momo array-like containers run the same scripts as ocaml/driver.ml.
// One binary per element kind (-DELEM=0..4).  Case line:   CONT ELEM IC NM NR op op op ...
// Output line: after every op  [v0,v1,...]c<capacity>a<allocations>   then  twin=ok | twin=BAD@<op index>
// (M = a moved-from element; the std::vector<long long> twin is the independent oracle).
#include "private_access.h"
#include "momo/Array.h"
#include "momo/SegmentedArray.h"
#include "momo/stdish/vector.h"
#include <unistd.h>
#include <sys/wait.h>
#include <csignal>
#include <fcntl.h>

typedef long long ll;
static size_t gAllocs = 0;        // Allocate + Reallocate calls seen by the memory manager
static size_t gLive = 0;          // outstanding blocks

static void* poisonAlloc(size_t size) { ++gAllocs; ++gLive; void* p = std::malloc(size ? size : 1); if (!p) throw std::bad_alloc(); std::memset(p, 0xEE, size); return p; }
static void poisonFree(void* p, size_t size) { --gLive; std::memset(p, 0xEF, size); std::free(p); }   // stale reads become visible

class CountMM
{
public:
	explicit CountMM() noexcept {}
	CountMM(CountMM&&) noexcept {}
	CountMM(const CountMM&) noexcept {}
	~CountMM() noexcept {}
	CountMM& operator=(const CountMM&) = delete;
	void* Allocate(size_t size) { return poisonAlloc(size); }
	void Deallocate(void* ptr, size_t size) noexcept { poisonFree(ptr, size); }
};
class CountMMR : public CountMM    // with Reallocate (always moves the block: the adversarial case)
{
public:
	explicit CountMMR() noexcept {}
	CountMMR(CountMMR&&) noexcept {}
	CountMMR(const CountMMR&) noexcept {}
	CountMMR& operator=(const CountMMR&) = delete;
	void* Reallocate(void* ptr, size_t size, size_t newSize)
	{
		void* p = poisonAlloc(newSize); std::memcpy(p, ptr, std::min(size, newSize)); poisonFree(ptr, size); return p;
	}
};
template<class T> struct PoisonAlloc
{
	typedef T value_type;
	PoisonAlloc() noexcept {}
	template<class U> PoisonAlloc(const PoisonAlloc<U>&) noexcept {}
	T* allocate(size_t n) { return static_cast<T*>(poisonAlloc(n * sizeof(T))); }
	void deallocate(T* p, size_t n) noexcept { poisonFree(p, n * sizeof(T)); }
	template<class U> bool operator==(const PoisonAlloc<U>&) const noexcept { return true; }
	template<class U> bool operator!=(const PoisonAlloc<U>&) const noexcept { return false; }
};

// ---------------------------------------------------------------- element kinds
struct Pod { ll v; Pod(ll x = 0) noexcept : v(x) {} };   // trivially copyable => trivially relocatable
static Pod mkE(ll v, Pod*) { return Pod(v); }
static ll valE(const Pod& e) { return e.v; }

struct Ntm                                              // heap-owning, nothrow move, self-move safe
{
	ll* p;
	explicit Ntm(ll v = 0) : p(new ll(v)) {}
	Ntm(const Ntm& o) : p(o.p ? new ll(*o.p) : nullptr) {}
	Ntm(Ntm&& o) noexcept : p(o.p) { o.p = nullptr; }
	Ntm& operator=(const Ntm& o) { if (this != &o) { ll* q = o.p ? new ll(*o.p) : nullptr; delete p; p = q; } return *this; }
	Ntm& operator=(Ntm&& o) noexcept { if (this != &o) { delete p; p = o.p; o.p = nullptr; } return *this; }
	~Ntm() { delete p; }
};
static Ntm mkE(ll v, Ntm*) { return Ntm(v); }
static ll valE(const Ntm& e) { return e.p ? *e.p : -1; }

struct Cpy                                              // copy-only (copying may throw): "moves" are copies
{
	ll* p;
	explicit Cpy(ll v = 0) : p(new ll(v)) {}
	Cpy(const Cpy& o) : p(new ll(*o.p)) {}
	Cpy& operator=(const Cpy& o) { ll* q = new ll(*o.p); delete p; p = q; return *this; }
	~Cpy() { delete p; }
};
static Cpy mkE(ll v, Cpy*) { return Cpy(v); }
static ll valE(const Cpy& e) { return *e.p; }

struct Smh                                              // self-move-hostile: x = std::move(x) empties x (like libstdc++ std::string)
{
	ll* p;
	explicit Smh(ll v = 0) : p(new ll(v)) {}
	Smh(const Smh& o) : p(o.p ? new ll(*o.p) : nullptr) {}
	Smh(Smh&& o) noexcept : p(o.p) { o.p = nullptr; }
	Smh& operator=(const Smh& o) { if (this != &o) { ll* q = o.p ? new ll(*o.p) : nullptr; delete p; p = q; } return *this; }
	Smh& operator=(Smh&& o) noexcept { std::swap(p, o.p); delete o.p; o.p = nullptr; return *this; }
	~Smh() { delete p; }
};
static Smh mkE(ll v, Smh*) { return Smh(v); }
static ll valE(const Smh& e) { return e.p ? *e.p : -1; }

typedef std::string Str;                                // long values: heap storage, moved-from / self-moved = empty
static Str mkE(ll v, Str*) { return std::string(40, char('a' + v % 26)) + std::to_string(v); }
static ll valE(const Str& e) { return e.empty() ? -1 : std::stoll(e.substr(40)); }

#ifndef ELEM
#define ELEM 0
#endif
#if ELEM == 0
typedef Pod Elem; static const char* kElem = "pod";
#elif ELEM == 1
typedef Ntm Elem; static const char* kElem = "ntm";
#elif ELEM == 2
typedef Cpy Elem; static const char* kElem = "cpy";
#elif ELEM == 3
typedef Smh Elem; static const char* kElem = "smh";
#else
typedef Str Elem; static const char* kElem = "str";
#endif
static Elem mk(ll v) { return mkE(v, static_cast<Elem*>(nullptr)); }

// an INPUT (non-forward) iterator over a buffer of elements: selects ArrayShifter::Insert (one InsertCrt per item)
struct InIt
{
	typedef std::input_iterator_tag iterator_category; typedef Elem value_type; typedef ptrdiff_t difference_type;
	typedef const Elem* pointer; typedef const Elem& reference;
	const Elem* p;
	reference operator*() const { return *p; }
	pointer operator->() const { return p; }
	InIt& operator++() { ++p; return *this; }
	InIt operator++(int) { InIt t = *this; ++p; return t; }
	bool operator==(InIt o) const { return p == o.p; }
	bool operator!=(InIt o) const { return p != o.p; }
};

// ---------------------------------------------------------------- container adapters
template<class C> struct MomoOps      // momo::Array / ArrayIntCap / SegmentedArray
{
	static size_t count(const C& c) { return c.GetCount(); }
	static void addBack(C& c, const Elem& e) { c.AddBack(e); }
	static void addBackR(C& c, Elem&& e) { c.AddBack(std::move(e)); }
	static void insertN(C& c, size_t j, size_t n, const Elem& e) { c.Insert(j, n, e); }
	static void insert1(C& c, size_t j, const Elem& e) { c.Insert(j, e); }
	static void insertR(C& c, size_t j, Elem&& e) { c.Insert(j, std::move(e)); }
	static void insertRange(C& c, size_t j, const std::vector<Elem>& v) { c.Insert(j, v.begin(), v.end()); }
	static void remove(C& c, size_t j, size_t n) { c.Remove(j, n); }
	template<class F> static void removeIf(C& c, const F& f) { c.Remove(f); }
	static void setCount(C& c, size_t n, const Elem& e) { c.SetCount(n, e); }
	static void reserve(C& c, size_t n) { c.Reserve(n); }
	static void shrink(C& c, size_t n) { c.Shrink(n); }
	static bool assign(C&, size_t, const Elem&) { return false; }
	static bool assignRange(C&, const std::vector<Elem>&) { return false; }
	static void insertInput(C& c, size_t j, const std::vector<Elem>& v) { c.Insert(j, InIt{v.data()}, InIt{v.data() + v.size()}); }
	static void removeBack(C& c, size_t n) { c.RemoveBack(n); }
	static void clear(C& c, bool shrink) { c.Clear(shrink); }
	template<class A> static void emplaceBack(C& c, A&& a) { c.AddBackVar(std::forward<A>(a)); }
	template<class A> static void emplaceAt(C& c, size_t j, A&& a) { c.InsertVar(j, std::forward<A>(a)); }
	static void insertList(C& c, size_t j, const std::vector<Elem>& v)
	{
		switch (v.size()) {
		case 0: c.Insert(j, std::initializer_list<Elem>{}); break;
		case 1: c.Insert(j, {v[0]}); break;
		case 2: c.Insert(j, {v[0], v[1]}); break;
		default: c.Insert(j, {v[0], v[1], v[2]}); break; }
	}
	static void setCount0(C& c, size_t n) { c.SetCount(n); }
	static void remove1(C& c, size_t j) { c.Remove(j); }
	static void swap(C& a, C& b) { a.Swap(b); }
};
template<class C> struct StdOps       // momo::stdish::vector / vector_intcap
{
	static size_t count(const C& c) { return c.size(); }
	static void addBack(C& c, const Elem& e) { c.push_back(e); }
	static void addBackR(C& c, Elem&& e) { c.push_back(std::move(e)); }
	static void insertN(C& c, size_t j, size_t n, const Elem& e) { auto it = c.insert(c.cbegin() + j, n, e); if (size_t(it - c.begin()) != j) std::abort(); }
	static void insert1(C& c, size_t j, const Elem& e) { c.insert(c.cbegin() + j, e); }
	static void insertR(C& c, size_t j, Elem&& e) { c.insert(c.cbegin() + j, std::move(e)); }
	static void insertRange(C& c, size_t j, const std::vector<Elem>& v) { c.insert(c.cbegin() + j, v.begin(), v.end()); }
	static void remove(C& c, size_t j, size_t n) { auto it = c.erase(c.cbegin() + j, c.cbegin() + j + n); if (size_t(it - c.begin()) != j) std::abort(); }
	template<class F> static void removeIf(C& c, const F& f) { erase_if(c, f); }
	static void setCount(C& c, size_t n, const Elem& e) { c.resize(n, e); }
	static void reserve(C& c, size_t n) { c.reserve(n); }
	static void shrink(C& c, size_t n) { if (n == c.size()) c.shrink_to_fit(); }
	static bool assign(C& c, size_t n, const Elem& e) { c.assign(n, e); return true; }
	static bool assignRange(C& c, const std::vector<Elem>& v) { c.assign(v.begin(), v.end()); return true; }
	static void insertInput(C& c, size_t j, const std::vector<Elem>& v) { c.insert(c.cbegin() + j, InIt{v.data()}, InIt{v.data() + v.size()}); }
	static void removeBack(C& c, size_t n) { for (size_t i = 0; i < n; ++i) c.pop_back(); }
	static void clear(C& c, bool) { c.clear(); }
	template<class A> static void emplaceBack(C& c, A&& a) { c.emplace_back(std::forward<A>(a)); }
	template<class A> static void emplaceAt(C& c, size_t j, A&& a) { c.emplace(c.cbegin() + j, std::forward<A>(a)); }
	static void insertList(C& c, size_t j, const std::vector<Elem>& v)
	{
		switch (v.size()) {
		case 0: c.insert(c.cbegin() + j, std::initializer_list<Elem>{}); break;
		case 1: c.insert(c.cbegin() + j, {v[0]}); break;
		case 2: c.insert(c.cbegin() + j, {v[0], v[1]}); break;
		default: c.insert(c.cbegin() + j, {v[0], v[1], v[2]}); break; }
	}
	static void setCount0(C& c, size_t n) { c.resize(n); }
	static void remove1(C& c, size_t j) { c.erase(c.cbegin() + j); }
	static void swap(C& a, C& b) { a.swap(b); }
};

static std::vector<std::string> split(const std::string& s, char sep)
{
	std::vector<std::string> r; std::string cur;
	for (char ch : s) { if (ch == sep) { r.push_back(cur); cur.clear(); } else cur += ch; }
	r.push_back(cur); return r;
}

// emplace argument: a plain integer for the custom kinds, a C string for std::string
template<class F> static void withEmplaceArg(ll v, F f)
{
	if constexpr (std::is_same<Elem, Str>::value) { Str s0 = mk(v); f(s0.c_str()); } else f(v);
}

template<class C, class Ops> struct Runner
{
	C c;
	std::vector<ll> twin;           // -1 = moved-from (value unspecified)
	long bad = -1;

	std::string seq() const
	{
		std::string out = "[";
		size_t cntNow = Ops::count(c);
		for (size_t i = 0; i < cntNow; ++i)
		{
			ll v = valE(c[i]);
			if (i) out += ',';
			out += (v < 0) ? std::string("M") : std::to_string(v);
		}
		return out + "]";
	}

	// one script op: first the twin (on values; skipped for calls that must be rejected), then the real container
	void apply(const std::string& tok, size_t k, bool doTwin)
	{
		std::vector<std::string> w = split(tok, ':');
		const std::string& o = w[0];
		auto argIsRef = [&] (size_t pos) { return w[pos] == "r"; };
		auto argNum = [&] (size_t pos) { return size_t(std::stoull(w[pos + 1])); };
		auto tv = [&] (size_t i) { return (doTwin && i < twin.size()) ? twin[i] : ll(0); };
		auto values = [&] (size_t pos, std::vector<Elem>& vs, std::vector<ll>& tvs)
		{
			if (w.size() > pos && !w[pos].empty())
				for (const std::string& x : split(w[pos], ',')) { tvs.push_back(std::stoll(x)); vs.push_back(mk(tvs.back())); }
		};
		if (o == "ab" || o == "abm" || o == "emb")
		{
			bool ref = argIsRef(1); size_t i = ref ? argNum(1) : 0; ll v = ref ? tv(i) : ll(argNum(1));
			if (doTwin) { if (o == "abm" && ref) twin[i] = -1; twin.push_back(v); }
			if (o == "ab") { if (ref) Ops::addBack(c, static_cast<const Elem&>(c[i])); else { Elem e = mk(v); Ops::addBack(c, e); } }
			else if (o == "abm") { if (ref) Ops::addBackR(c, std::move(c[i])); else Ops::addBackR(c, mk(v)); }
			else { if (ref) Ops::emplaceBack(c, static_cast<const Elem&>(c[i])); else withEmplaceArg(v, [&] (auto a) { Ops::emplaceBack(c, a); }); }
		}
		else if (o == "ins")
		{
			size_t j = std::stoull(w[1]), n = std::stoull(w[2]); bool ref = argIsRef(3); size_t i = ref ? argNum(3) : 0;
			ll v = ref ? tv(i) : ll(argNum(3));
			if (doTwin) twin.insert(twin.begin() + j, n, v);
			if (ref) Ops::insertN(c, j, n, static_cast<const Elem&>(c[i])); else { Elem e = mk(v); Ops::insertN(c, j, n, e); }
		}
		else if (o == "ins1" || o == "insm" || o == "emi")
		{
			size_t j = std::stoull(w[1]); bool ref = argIsRef(2); size_t i = ref ? argNum(2) : 0;
			ll v = ref ? tv(i) : ll(argNum(2));
			if (doTwin) { if (o == "insm" && ref) twin[i] = -1; twin.insert(twin.begin() + j, v); }
			if (o == "ins1") { if (ref) Ops::insert1(c, j, static_cast<const Elem&>(c[i])); else { Elem e = mk(v); Ops::insert1(c, j, e); } }
			else if (o == "insm") { if (ref) Ops::insertR(c, j, std::move(c[i])); else Ops::insertR(c, j, mk(v)); }
			else { if (ref) Ops::emplaceAt(c, j, static_cast<const Elem&>(c[i])); else withEmplaceArg(v, [&] (auto a) { Ops::emplaceAt(c, j, a); }); }
		}
		else if (o == "insr" || o == "insi" || o == "insl")
		{
			size_t j = std::stoull(w[1]); std::vector<Elem> vs; std::vector<ll> tvs; values(2, vs, tvs);
			if (doTwin) twin.insert(twin.begin() + j, tvs.begin(), tvs.end());
			if (o == "insr") Ops::insertRange(c, j, vs); else if (o == "insi") Ops::insertInput(c, j, vs); else Ops::insertList(c, j, vs);
		}
		else if (o == "asgr")
		{
			std::vector<Elem> vs; std::vector<ll> tvs; values(1, vs, tvs);
			if (Ops::assignRange(c, vs)) twin = tvs;
		}
		else if (o == "rb") { size_t n = std::stoull(w[1]); if (doTwin) twin.resize(twin.size() - n); Ops::removeBack(c, n); }
		else if (o == "clr") { twin.clear(); Ops::clear(c, w[1] == "1"); }
		else if (o == "rm")
		{
			size_t j = std::stoull(w[1]), n = std::stoull(w[2]);
			if (doTwin) twin.erase(twin.begin() + j, twin.begin() + j + n);
			Ops::remove(c, j, n);
		}
		else if (o == "rm1") { size_t j = std::stoull(w[1]); if (doTwin) twin.erase(twin.begin() + j); Ops::remove1(c, j); }
		else if (o == "rmf")
		{
			ll m = std::stoll(w[1]);
			twin.erase(std::remove_if(twin.begin(), twin.end(), [m] (ll v) { return v % m == 0; }), twin.end());
			Ops::removeIf(c, [m] (const Elem& e) { return valE(e) % m == 0; });
		}
		else if (o == "sc" || o == "asg")
		{
			size_t n = std::stoull(w[1]); bool ref = argIsRef(2); size_t i = ref ? argNum(2) : 0;
			ll v = ref ? tv(i) : ll(argNum(2));
			if (o == "sc")
			{
				if (doTwin) twin.resize(n, v);
				if (ref) Ops::setCount(c, n, static_cast<const Elem&>(c[i])); else { Elem e = mk(v); Ops::setCount(c, n, e); }
			}
			else
			{
				bool done = ref ? Ops::assign(c, n, static_cast<const Elem&>(c[i])) : Ops::assign(c, n, mk(v));
				if (done) twin.assign(n, v);
			}
		}
		else if (o == "sc0") { size_t n = std::stoull(w[1]); if (doTwin) twin.resize(n, 0); Ops::setCount0(c, n); }
		else if (o == "rs") Ops::reserve(c, std::stoull(w[1]));
		else if (o == "sh") Ops::shrink(c, w[1] == "-" ? Ops::count(c) : size_t(std::stoull(w[1])));
		else if (o == "set") { size_t i = std::stoull(w[1]); ll v = std::stoll(w[2]); if (doTwin) twin[i] = v; c[i] = mk(v); }
		else if (o == "cpc") { C d(static_cast<const C&>(c)); Ops::swap(c, d); }                 // copy construction (+ swap)
		else if (o == "cpa") { C d; d = static_cast<const C&>(c); Ops::swap(c, d); }            // copy assignment (+ swap)
		else if (o == "mvc") { C d(std::move(c)); c = std::move(d); }                           // move construction + move assignment
		else if (o == "swp")
		{	// swap with another container, check that it received the old contents, swap back
			ll x = std::stoll(w[1]), y = std::stoll(w[2]);
			size_t savedAllocs = gAllocs;       // allocations of the OTHER container are not counted
			C d; { Elem e1 = mk(x); Ops::addBack(d, e1); Elem e2 = mk(y); Ops::addBack(d, e2); }
			gAllocs = savedAllocs;
			Ops::swap(c, d);
			bool okSwap = Ops::count(c) == 2 && valE(static_cast<const C&>(c)[0]) == x && valE(static_cast<const C&>(c)[1]) == y
				&& Ops::count(d) == twin.size();
			for (size_t i = 0; okSwap && i < twin.size(); ++i)
				if (twin[i] >= 0 && valE(static_cast<const C&>(d)[i]) != twin[i]) okSwap = false;
			if (!okSwap && bad < 0) bad = long(k);
			Ops::swap(d, c);
		}
		else if (bad < 0) bad = long(k);
	}

	void compareTwin(size_t k)
	{
		size_t cntNow = Ops::count(c);
		if (bad < 0 && cntNow != twin.size()) bad = long(k);
		for (size_t i = 0; bad < 0 && i < cntNow; ++i)
			if (twin[i] >= 0 && twin[i] != valE(static_cast<const C&>(c)[i])) bad = long(k);
	}
};

template<class C, class Ops, bool showAllocs, bool showCap, class CapFn>
static void runScript(const std::vector<std::string>& ops, CapFn capFn)
{
	std::string out;
	{
		gAllocs = 0;
		Runner<C, Ops> r;
		for (size_t k = 0; k < ops.size(); ++k)
		{
			r.apply(ops[k], k, true);
			out += r.seq();
			r.compareTwin(k);
			out += 'c'; out += showCap ? std::to_string(capFn(r.c)) : std::string("-");
			out += 'a'; out += showAllocs ? std::to_string(gAllocs) : std::string("-");
			out += ' ';
		}
		out += (r.bad < 0) ? std::string("twin=ok") : ("twin=BAD@" + std::to_string(r.bad));
	}
	if (gLive != 0) out += " LEAK";
	std::puts(out.c_str());
}

// ---- calls that must be REJECTED (MOMO_CHECK / MOMO_ASSERT = assert in this build, or an exception such as
// std::bad_array_new_length) WITHOUT touching the array.  ops = setup ops, "|", the offending op.  The offending op runs in
// a forked child; its SIGABRT handler reports the element sequence at the moment of the abort.
static std::string (*gStateFn)() = nullptr;
static int gPipeFd = -1;
static void onAbort(int)
{
	std::string st = "abort " + (gStateFn ? gStateFn() : std::string("?")) + "\n";
	ssize_t r = write(gPipeFd, st.data(), st.size()); (void)r;
	_exit(3);
}
template<class C, class Ops> static Runner<C, Ops>* gRunner = nullptr;
template<class C, class Ops> static std::string runnerState() { return gRunner<C, Ops>->seq(); }

template<class C, class Ops>
static void runRejected(const std::vector<std::string>& ops)
{
	size_t bar = 0; while (bar < ops.size() && ops[bar] != "|") ++bar;
	if (bar + 2 != ops.size()) { std::puts("bad-rej-line"); return; }
	std::fflush(stdout);
	int fds[2]; if (pipe(fds) != 0) { std::puts("pipe-failed"); return; }
	pid_t pid = fork();
	if (pid == 0)
	{
		close(fds[0]); gPipeFd = fds[1];
		int devnull = open("/dev/null", O_WRONLY); if (devnull >= 0) dup2(devnull, 2);
		Runner<C, Ops>* r = new Runner<C, Ops>();     // never destroyed: the child _exits
		for (size_t k = 0; k < bar; ++k) r->apply(ops[k], k, true);
		std::string pre = "pre " + r->seq() + "\n";
		ssize_t wr = write(gPipeFd, pre.data(), pre.size()); (void)wr;
		gRunner<C, Ops> = r; gStateFn = &runnerState<C, Ops>;
		std::signal(SIGABRT, onAbort);
		std::string how;
		try { r->apply(ops[bar + 1], bar + 1, false); how = "accepted "; }
		catch (const std::exception&) { how = "exception "; }
		std::string st = how + r->seq() + "\n";
		wr = write(gPipeFd, st.data(), st.size()); (void)wr;
		_exit(0);
	}
	close(fds[1]);
	std::string got; char buf[4096]; ssize_t n;
	while ((n = read(fds[0], buf, sizeof buf)) > 0) got.append(buf, size_t(n));
	close(fds[0]);
	int status = 0; waitpid(pid, &status, 0);
	for (char& ch : got) if (ch == '\n') ch = ' ';
	if (WIFSIGNALED(status)) got += "signal=" + std::to_string(WTERMSIG(status));
	std::puts(got.c_str());
}

template<class C> static void runMomoArr(const std::vector<std::string>& ops)
{ runScript<C, MomoOps<C>, true, true>(ops, [] (const C& c) { return c.GetCapacity(); }); }
template<class C> static void runMomoSeg(const std::vector<std::string>& ops)
{ runScript<C, MomoOps<C>, false, false>(ops, [] (const C&) { return size_t(0); }); }
template<class C> static void runStd(const std::vector<std::string>& ops)
{ runScript<C, StdOps<C>, false, true>(ops, [] (const C& c) { return c.capacity(); }); }

using namespace momo;
template<SegmentedArrayItemCountFunc f, size_t lg> using Seg =
	SegmentedArray<Elem, CountMM, SegmentedArrayItemTraits<Elem, CountMM>, SegmentedArraySettings<f, lg>>;
typedef Array<Elem, CountMM, ArrayItemTraits<Elem, CountMM>, ArraySettings<0, false>> ArrNoGrowOnReserve;

// ---- the INTENDED classes / trait combinations are really instantiated
typedef ArrayItemTraits<Elem, CountMM> IT0;
#if ELEM == 0
static_assert(IT0::isTriviallyRelocatable && IT0::isNothrowRelocatable && IT0::isNothrowMoveConstructible, "pod traits");
static_assert(internal::MemManagerProxy<CountMMR>::canReallocate && !internal::MemManagerProxy<CountMMR>::canReallocateInplace, "CountMMR reallocates");
#elif ELEM == 1
static_assert(!IT0::isTriviallyRelocatable && IT0::isNothrowRelocatable && IT0::isNothrowMoveConstructible, "ntm traits");
#elif ELEM == 2
static_assert(!IT0::isTriviallyRelocatable && !IT0::isNothrowRelocatable && !IT0::isNothrowMoveConstructible, "cpy traits: copy-only, copying may throw");
#elif ELEM == 3
static_assert(!IT0::isTriviallyRelocatable && IT0::isNothrowRelocatable && IT0::isNothrowMoveConstructible, "smh traits");
#else
static_assert(!IT0::isTriviallyRelocatable && IT0::isNothrowRelocatable && IT0::isNothrowMoveConstructible, "std::string traits");
#endif
static_assert(!internal::MemManagerProxy<CountMM>::canReallocate, "CountMM has no Reallocate");
static_assert(Array<Elem, CountMM>::internalCapacity == 0 && Array<Elem, CountMM>::Settings::growOnReserve
	&& Array<Elem, CountMM>::Settings::usePtrIterator && Array<Elem, CountMM>::Settings::checkMode == CheckMode::assertion, "Array settings");
static_assert(!ArrNoGrowOnReserve::Settings::growOnReserve, "growOnReserve = false configuration");
static_assert(std::is_same<Array<Elem, CountMM>::Iterator, Elem*>::value, "Array uses pointer iterators");
#if ELEM != 2
static_assert(ArrayIntCap<4, Elem, CountMM>::internalCapacity == 4 && !ArrayIntCap<4, Elem, CountMM>::Settings::usePtrIterator, "ArrayIntCap<4>: index iterators");
static_assert(ArrayIntCap<16, Elem, CountMM>::internalCapacity == 16 && ArrayIntCap<1, Elem, CountMM>::internalCapacity == 1, "ArrayIntCap<N>");
static_assert(std::is_same<stdish::vector_intcap<4, Elem, PoisonAlloc<Elem>>::nested_container_type,
	ArrayIntCap<4, Elem, MemManagerStd<PoisonAlloc<Elem>>>>::value, "vector_intcap<4> wraps ArrayIntCap<4>");
#endif
static_assert(std::is_same<stdish::vector<Elem, PoisonAlloc<Elem>>::nested_container_type, Array<Elem, MemManagerStd<PoisonAlloc<Elem>>>>::value, "stdish::vector wraps Array");
static_assert(Seg<SegmentedArrayItemCountFunc::cnst, 2>::Settings::itemCountFunc == SegmentedArrayItemCountFunc::cnst
	&& Seg<SegmentedArrayItemCountFunc::cnst, 2>::Settings::logInitialItemCount == 2, "segc 2");
static_assert(Seg<SegmentedArrayItemCountFunc::sqrt, 1>::Settings::itemCountFunc == SegmentedArrayItemCountFunc::sqrt
	&& Seg<SegmentedArrayItemCountFunc::sqrt, 1>::Settings::logInitialItemCount == 1, "segs 1");
static_assert(!std::is_base_of<std::forward_iterator_tag, std::iterator_traits<InIt>::iterator_category>::value
	&& !internal::IsForwardIterator17<InIt>::value, "InIt selects the input-iterator overload");

// ---- translator validation of the GENERATED guards (Gen_Guards*.v): the real function is called on an array with exactly
// n items and capacity cap, in a forked child; reported: ok [g=<allocated?>] | abort | exception  (+ TOUCHED if a rejected
// call changed the element sequence).   line: gd <fn> <n> <cap> <index> <count>
#if ELEM == 0
template<class A, bool showG, class F, bool showSeq = false> static void guardChild(size_t n, size_t cap, F call)
{
	std::fflush(stdout);
	int fds[2]; if (pipe(fds) != 0) { std::puts("pipe-failed"); return; }
	pid_t pid = fork();
	if (pid == 0)
	{
		close(fds[0]); gPipeFd = fds[1];
		int devnull = open("/dev/null", O_WRONLY); if (devnull >= 0) dup2(devnull, 2);
		typedef Runner<A, MomoOps<A>> R;
		R* r = new R();
		if (cap > 0) r->c.Reserve(cap);
		for (size_t k = 0; k < n; ++k) { Elem e = mk(ll(10 + k)); r->c.AddBack(e); }
		static std::string pre; pre = r->seq();
		gRunner<A, MomoOps<A>> = r;
		gStateFn = [] () { return std::string(gRunner<A, MomoOps<A>>->seq() == pre ? "" : "TOUCHED"); };
		std::signal(SIGABRT, onAbort);
		size_t allocs0 = gAllocs;
		std::string st;
		alarm(20);      // a runaway call (e.g. a huge Reserve) must not hang the check
		try { call(r->c); st = showSeq ? "ok " + r->seq() + "\n" : showG ? "ok g=" + std::to_string(int(gAllocs != allocs0)) + "\n" : std::string("ok\n"); }
		catch (const std::exception&) { st = std::string("exception ") + (r->seq() == pre ? "" : "TOUCHED") + "\n"; }
		ssize_t wr = write(gPipeFd, st.data(), st.size()); (void)wr;
		_exit(0);
	}
	close(fds[1]);
	std::string got; char buf[512]; ssize_t m;
	while ((m = read(fds[0], buf, sizeof buf)) > 0) got.append(buf, size_t(m));
	close(fds[0]);
	int status = 0; waitpid(pid, &status, 0);
	while (!got.empty() && (got.back() == '\n' || got.back() == ' ')) got.pop_back();
	std::puts(got.c_str());
}
// translator validation of the GENERATED loops (Gen_ShiftLoops.v): the real ArrayShifter::Remove / InsertNogrow on an array with n items
// 10..10+n-1 and capacity cap; item = element itemidx (aliased) if itemidx < n, else an external object of value 5.  line: gl <fn> n cap index count itemidx
static void runLoops(const std::string& line)
{
	std::istringstream is(line); std::string g, fn; unsigned long long n, cap, index, count, itemidx; is >> g >> fn >> n >> cap >> index >> count >> itemidx;
	typedef Array<Elem, CountMM, ArrayItemTraits<Elem, CountMM>, ArraySettings<0, false>> A;
	size_t i = size_t(index), c = size_t(count), ii = size_t(itemidx);
	if (fn == "remove") guardChild<A, false, std::function<void(A&)>, true>(n, cap, [=] (A& a) { internal::ArrayShifter<A>::Remove(a, i, c); });
	else if (fn == "insert") guardChild<A, false, std::function<void(A&)>, true>(n, cap, [=] (A& a) {
		Elem ext = mk(5); const Elem& item = (ii < a.GetCount()) ? a[ii] : ext; internal::ArrayShifter<A>::InsertNogrow(a, i, c, item); });
	else if (fn == "ainsert") guardChild<A, false, std::function<void(A&)>, true>(n, cap, [=] (A& a) {      // the real Array::Insert, item aliased or external
		Elem ext = mk(5); const Elem& item = (ii < a.GetCount()) ? a[ii] : ext; a.Insert(i, c, item); });
	else if (fn == "aaddback") guardChild<A, false, std::function<void(A&)>, true>(n, cap, [=] (A& a) {     // the real Array::AddBack(const Item&)
		Elem ext = mk(5); const Elem& item = (ii < a.GetCount()) ? a[ii] : ext; a.AddBack(item); });
	else if (fn == "aaddbackm") guardChild<A, false, std::function<void(A&)>, true>(n, cap, [=] (A& a) {    // the real Array::AddBack(Item&&)
		Elem ext = mk(5); if (ii < a.GetCount()) a.AddBack(std::move(a[ii])); else a.AddBack(std::move(ext)); });
	else if (fn == "sremove" || fn == "sinsert")
	{	// ArrayShifter<SegmentedArray> (cnst, 4 items per segment): validates Gen_ShiftLoopsSeg.v directly
		typedef SegmentedArray<Elem, CountMM, SegmentedArrayItemTraits<Elem, CountMM>, SegmentedArraySettings<SegmentedArrayItemCountFunc::cnst, 2>> S;
		if (fn == "sremove") guardChild<S, false, std::function<void(S&)>, true>(n, cap, [=] (S& a) { internal::ArrayShifter<S>::Remove(a, i, c); });
		else guardChild<S, false, std::function<void(S&)>, true>(n, cap, [=] (S& a) {
			Elem ext = mk(5); const Elem& item = (ii < a.GetCount()) ? a[ii] : ext; internal::ArrayShifter<S>::InsertNogrow(a, i, c, item); });
	}
	else std::puts("unsupported-loop");
}
static void runGuard(const std::string& line)
{
	std::istringstream is(line); std::string g, fn; unsigned long long n, cap, index, count; is >> g >> fn >> n >> cap >> index >> count;
	typedef Array<Elem, CountMM, ArrayItemTraits<Elem, CountMM>, ArraySettings<0, false>> A;   // Reserve(cap) gives exactly cap
	typedef SegmentedArray<Elem, CountMM, SegmentedArrayItemTraits<Elem, CountMM>, SegmentedArraySettings<SegmentedArrayItemCountFunc::cnst, 2>> S;
	size_t i = size_t(index), c = size_t(count);
	if (fn == "remove") guardChild<A, true>(n, cap, [=] (A& a) { internal::ArrayShifter<A>::Remove(a, i, c); });
	else if (fn == "insnogrow") guardChild<A, true>(n, cap, [=] (A& a) { Elem e = mk(5); internal::ArrayShifter<A>::InsertNogrow(a, i, c, e); });
	else if (fn == "insert") guardChild<A, true>(n, cap, [=] (A& a) { Elem e = mk(5); a.Insert(i, c, e); });
	else if (fn == "rb") guardChild<A, true>(n, cap, [=] (A& a) { a.RemoveBack(c); });
	else if (fn == "abn") guardChild<A, true>(n, cap, [=] (A& a) { Elem e = mk(5); a.AddBackNogrow(e); });
	else if (fn == "idx") guardChild<A, true>(n, cap, [=] (A& a) { (void)a[i]; });
	else if (fn == "indexof")
	{	// the real (private) Array::pvIndexOf on a reference to element i (i < n), to the one-past-the-end slot (i == n) or to an external object
		A a; if (cap > 0) a.Reserve(cap); for (size_t k = 0; k < n; ++k) { Elem e = mk(ll(10 + k)); a.AddBack(e); }
		Elem ext = mk(5);
		const Elem& ref = (i < n) ? a[i] : (i == n && a.GetItems() != nullptr) ? *(a.GetItems() + n) : ext;
		size_t r = a.pvIndexOf(ref);
		std::puts(r == SIZE_MAX ? "max" : std::to_string(r).c_str());
	}
	else if (fn == "shrink" || fn == "segshrink")
	{	// the real Shrink(capacity): the capacity afterwards (validates the generated clamps Shrink_clamp / SegShrink_clamp)
		if (fn == "shrink")
		{
			A a; if (cap > 0) a.Reserve(cap); for (size_t k = 0; k < n; ++k) { Elem e = mk(ll(10 + k)); a.AddBack(e); }
			a.Shrink(c); std::printf("cap %llu\n", (unsigned long long)a.GetCapacity());
		}
		else
		{
			S a; if (cap > 0) a.Reserve(cap); for (size_t k = 0; k < n; ++k) { Elem e = mk(ll(10 + k)); a.AddBack(e); }
			a.Shrink(c); std::printf("cap %llu\n", (unsigned long long)a.GetCapacity());
		}
	}
	else if (fn == "seginsert") guardChild<S, false>(n, 0, [=] (S& a) { Elem e = mk(5); a.Insert(i, c, e); });
	else if (fn == "segrb") guardChild<S, false>(n, 0, [=] (S& a) { a.RemoveBack(c); });
	else std::puts("unsupported-guard");
}
#endif

template<class C> static void runMomoRej(const std::vector<std::string>& ops) { runRejected<C, MomoOps<C>>(ops); }
template<class C> static void runStdRej(const std::vector<std::string>& ops) { runRejected<C, StdOps<C>>(ops); }

int main()
{
	std::string line;
	while (std::getline(std::cin, line))
	{
		std::istringstream is(line); std::string cont, elem, tok; size_t ic, nm, nr; is >> cont >> elem >> ic >> nm >> nr;
		std::vector<std::string> ops; while (is >> tok) ops.push_back(tok);
		if (cont == "traits")
		{	// what the model needs to know about this element type, as momo sees it
			typedef ArrayItemTraits<Elem, CountMM> IT;
			std::printf("%s %d %d\n", kElem, int(IT::isNothrowMoveConstructible), int(IT::isNothrowRelocatable));
			continue;
		}
#if ELEM == 0
		if (cont == "gd") { runGuard(line); continue; }
		if (cont == "gl") { runLoops(line); continue; }
#endif
		if (cont == "grow")
		{	// translator validation: the real ArraySettings::GrowCapacity.  line: grow <growOnReserve> <capacity> <minNew> <cause> <linear>
			std::istringstream is2(line); std::string g; unsigned long long gor, cap, mn, cause, lin; is2 >> g >> gor >> cap >> mn >> cause >> lin;
			size_t r = gor ? ArraySettings<0, true>::GrowCapacity(size_t(cap), size_t(mn), static_cast<ArrayGrowCause>(cause), lin != 0)
				: ArraySettings<4, false>::GrowCapacity(size_t(cap), size_t(mn), static_cast<ArrayGrowCause>(cause), lin != 0);
			std::printf("%llu\n", (unsigned long long)r);
			continue;
		}
		if (elem != kElem) { std::puts("wrong-elem"); continue; }
		if (cont == "rej-arr" && ic == 0) runMomoRej<Array<Elem, CountMM>>(ops);
		else if (cont == "rej-segc" && ic == 2) runMomoRej<Seg<SegmentedArrayItemCountFunc::cnst, 2>>(ops);
		else if (cont == "rej-vec" && ic == 0) runStdRej<stdish::vector<Elem, PoisonAlloc<Elem>>>(ops);
#if ELEM != 2
		else if (cont == "rej-arr" && ic == 4) runMomoRej<ArrayIntCap<4, Elem, CountMM>>(ops);
#endif
		else if (cont == "arrG" && ic == 0) runMomoArr<ArrNoGrowOnReserve>(ops);
		else if (cont == "arr" && ic == 0) runMomoArr<Array<Elem, CountMM>>(ops);
#if ELEM == 0
		else if (cont == "arrR" && ic == 0) runMomoArr<Array<Elem, CountMMR>>(ops);
		else if (cont == "arrR" && ic == 4) runMomoArr<ArrayIntCap<4, Elem, CountMMR>>(ops);
#endif
#if ELEM != 2
		else if (cont == "arr" && ic == 1) runMomoArr<ArrayIntCap<1, Elem, CountMM>>(ops);
		else if (cont == "arr" && ic == 4) runMomoArr<ArrayIntCap<4, Elem, CountMM>>(ops);
		else if (cont == "arr" && ic == 16) runMomoArr<ArrayIntCap<16, Elem, CountMM>>(ops);
		else if (cont == "vec" && ic == 4) runStd<stdish::vector_intcap<4, Elem, PoisonAlloc<Elem>>>(ops);
#endif
		else if (cont == "vec" && ic == 0) runStd<stdish::vector<Elem, PoisonAlloc<Elem>>>(ops);
		else if (cont == "segc" && ic == 0) runMomoSeg<Seg<SegmentedArrayItemCountFunc::cnst, 0>>(ops);
		else if (cont == "segc" && ic == 2) runMomoSeg<Seg<SegmentedArrayItemCountFunc::cnst, 2>>(ops);
		else if (cont == "segc" && ic == 5) runMomoSeg<Seg<SegmentedArrayItemCountFunc::cnst, 5>>(ops);
		else if (cont == "segs" && ic == 0) runMomoSeg<Seg<SegmentedArrayItemCountFunc::sqrt, 0>>(ops);
		else if (cont == "segs" && ic == 1) runMomoSeg<Seg<SegmentedArrayItemCountFunc::sqrt, 1>>(ops);
		else if (cont == "segs" && ic == 3) runMomoSeg<Seg<SegmentedArrayItemCountFunc::sqrt, 3>>(ops);
		else std::puts("unsupported");
	}
	return 0;
}
