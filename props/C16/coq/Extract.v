(* Extraction for C16 (translator validation + L1 model). ExtrOcamlBasic only.  What is extracted are the twins of
   Fast.v: derived from the GENERATED definitions by Ltac and proved equal to them for all arguments (Fast.*_eq). *)
From Coq Require Import ZArith List Extraction ExtrOcamlBasic.
From MomoCommon Require Import GenPrelude.
From C16 Require Gen_Log2_64 Gen_Log2_32 Gen_SegSqrt Gen_SegCnst Gen_ArrSqrt Gen_ArrLog Gen_ShiftSqrt Gen_ShiftXSqrt Fast SegModel.
(* the generated table lookup uses Coq's List.nth; keep OCaml's own List module visible to lib/zutil.ml *)
Extraction Blacklist List String.
Separate Extraction
  Fast.log2_64 Fast.log2_32 Fast.sq_seg Fast.sq_idx Fast.sq_cnt Fast.cn_seg Fast.cn_idx Fast.cn_cnt
  SegModel.step SegModel.capacity SegModel.empty SegModel.len SegModel.wstep SegModel.wempty SegModel.stA SegModel.stB
  Gen_ArrSqrt.GetCapacity Gen_ArrSqrt.Reserve Gen_ArrSqrt.ShrinkTo Gen_ArrSqrt.ShrinkFit Gen_ArrSqrt.Clear Gen_ArrSqrt.AddBackCrt
  Gen_ArrSqrt.SetCountCrt Gen_ArrSqrt.pvDecCount Gen_ArrSqrt.RemoveBack Gen_ArrSqrt.AddBackNogrowCrt Gen_ArrSqrt.pvGetItem Gen_ArrLog.pvDecCount Gen_ShiftSqrt.ShiftInsert Gen_ShiftSqrt.ShiftRemove Gen_ShiftXSqrt.ShiftInsertRange Gen_ShiftXSqrt.ShiftRemoveIf.
