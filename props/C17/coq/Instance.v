(* C17: the hand model instantiated with the GENERATED leaves (Gen_Leaves, regenerated from HashSorter.h on
   every run).  These are the functions that are extracted and run against the real C++, and the functions
   the Properties_C17 theorems talk about. *)
From Coq Require Import ZArith Bool List Lia.
From MomoCommon Require Import GenPrelude.
From C17 Require Import Gen_Leaves Leaves_Proofs SorterSearch Search_Proofs.
Import ListNotations.
Local Open Scope Z_scope.

Definition FindHash := SorterSearch.pvFindHash pvMultShift pvGetStepCount pvCompare.
Definition Find := SorterSearch.pvFind pvMultShift pvGetStepCount pvCompare.
Definition GetBounds := SorterSearch.pvGetBounds pvMultShift pvGetStepCount pvCompare.
Definition IsSorted := SorterSearch.pvIsSorted.
Definition BinarySearch := SorterSearch.pvBinarySearch.
Definition ExponentialSearch := SorterSearch.pvExponentialSearch.

Lemma MS_inst : forall h n, 0 <= h < 2 ^ 64 -> 0 < n < 2 ^ 64 -> 0 <= pvMultShift h n < n.
Proof. intros h n Hh Hn. pose proof (multshift_lt h n Hh Hn). lia. Qed.

Theorem FindHash_spec count hash qh :
  0 <= count < 2 ^ 62 -> (forall i, 0 <= i < count -> 0 <= hash i < 2 ^ 64) -> 0 <= qh < 2 ^ 64 ->
  exists k b, FindHash count hash qh = Ok (k, b) /\ fhres count hash qh k b.
Proof. intros. apply pvFindHash_spec; auto using MS_inst, stepcount_range, compare_spec. Qed.

Theorem FindHash_found_iff count hash qh k b :
  0 <= count < 2 ^ 62 -> (forall i, 0 <= i < count -> 0 <= hash i < 2 ^ 64) -> 0 <= qh < 2 ^ 64 ->
  FindHash count hash qh = Ok (k, b) -> sorted count hash ->
  (b = true <-> exists i, 0 <= i < count /\ hash i = qh).
Proof. intros. eapply findhash_found_iff; eauto using MS_inst, stepcount_range, compare_spec. Qed.

(* count = 0: not found, nothing read (hash is never applied: the result does not depend on it) *)
Theorem FindHash_empty hash qh : FindHash 0 hash qh = Ok (0, false).
Proof. reflexivity. Qed.

(* non-vacuity: a concrete sorted array with duplicates *)
Example FindHash_example :
  FindHash 5 (fun i => nth (Z.to_nat i) [3; 3; 7; 18446744073709551615; 18446744073709551615] 0) 7 = Ok (2, true).
Proof. vm_compute. reflexivity. Qed.
