(* C12: migrating an Open2N2 table into a FRESH larger table cannot raise "Hash table is full" (Exn): the `Exn => True` escape of
   element_found_after_growth is not taken.  Element-count invariant: #old + #new is constant during pvRelocateItems and <= 3 * 2^L
   < 3 * 2^newL, so some bucket of the new table is not full; triangular probing visits every bucket within 2^newL probes (copied
   from C13's ProbeSeq.v: tri_inj + pigeonhole), so the probe loop of pvAddNogrow meets it before it gives up. *)
From Coq Require Import ZArith Znumtheory Zpow_facts Bool List Lia.
From MomoCommon Require Import GenPrelude.
From C12 Require Import Bits Known P4_Model P4_Slot O2_Slot Chain O2_Bucket Gen_Base Gen_O2 Gen_O2MP MP_Open2N2 TableO2 TableO2_Proofs.
Import ListNotations.
Local Open Scope Z_scope.

(* ---- triangular probing covers the table (C13 ProbeSeq.v, re-proved for this project's pidx) ---- *)
Lemma two_tri k : 2 * tri k = k * (k + 1).
Proof.
  unfold tri.
  assert (H: (k * (k + 1)) mod 2 = 0).
  { rewrite Z.mul_mod by lia.
    assert (Hk: k mod 2 = 0 \/ k mod 2 = 1) by (pose proof (Z.mod_pos_bound k 2); lia).
    destruct Hk as [Hk|Hk].
    - rewrite Hk. reflexivity.
    - assert (Hk1 : (k+1) mod 2 = 0).
      { rewrite Z.add_mod by lia. rewrite Hk. reflexivity. }
      rewrite Hk1. rewrite Z.mul_0_r. reflexivity. }
  pose proof (Z.div_mod (k * (k+1)) 2 ltac:(lia)). lia.
Qed.

Lemma odd_rel_prime_pow2 x m : 0 <= m -> x mod 2 = 1 -> rel_prime (2 ^ m) x.
Proof.
  intros Hm Hx. apply rel_prime_sym. apply rel_prime_Zpower_r; [exact Hm|].
  apply Zgcd_1_rel_prime.
  pose proof (Z.gcd_divide_r x 2) as Hd. pose proof (Z.gcd_divide_l x 2) as Hl.
  pose proof (Z.gcd_nonneg x 2) as Hn.
  assert (Hle: Z.gcd x 2 <= 2) by (apply Z.divide_pos_le; [lia|exact Hd]).
  assert (Hc: Z.gcd x 2 = 0 \/ Z.gcd x 2 = 1 \/ Z.gcd x 2 = 2) by lia.
  destruct Hc as [H0|[H1|H2]].
  - apply Z.gcd_eq_0_r in H0. lia.
  - exact H1.
  - rewrite H2 in Hl. apply Z.mod_divide in Hl; lia.
Qed.

Theorem tri_inj n i j : 0 <= n -> 0 <= i -> i < j -> j < 2 ^ n ->
  (tri j - tri i) mod 2 ^ n <> 0.
Proof.
  intros Hn Hi Hij Hj Hmod.
  assert (Hp: 0 < 2 ^ n) by (apply Z.pow_pos_nonneg; lia).
  apply Z.mod_divide in Hmod; [|lia].
  set (a := j - i). set (b := i + j + 1).
  assert (Hab: 2 * (tri j - tri i) = a * b).
  { rewrite Z.mul_sub_distr_l, !two_tri. unfold a, b. ring. }
  assert (Hdiv: (2 ^ (n + 1) | a * b)).
  { rewrite <- Hab. rewrite Z.pow_add_r by lia. rewrite Z.mul_comm.
    apply Z.mul_divide_mono_l. exact Hmod. }
  assert (Hpar: a mod 2 = 1 \/ b mod 2 = 1).
  { assert (Hs: (a + b) mod 2 = 1).
    { unfold a, b. replace (j - i + (i + j + 1)) with (1 + j * 2) by ring.
      rewrite Z.mod_add by lia. reflexivity. }
    pose proof (Z.mod_pos_bound a 2 ltac:(lia)). pose proof (Z.mod_pos_bound b 2 ltac:(lia)).
    rewrite Z.add_mod in Hs by lia.
    assert (Ha: a mod 2 = 0 \/ a mod 2 = 1) by lia.
    assert (Hb: b mod 2 = 0 \/ b mod 2 = 1) by lia.
    destruct Ha as [Ha|Ha]; destruct Hb as [Hb|Hb]; rewrite Ha, Hb in Hs; cbn in Hs; try lia; auto. }
  assert (Hpow: 2 ^ (n + 1) = 2 * 2 ^ n) by (rewrite Z.pow_add_r by lia; lia).
  destruct Hpar as [Ha|Hb].
  - assert (Hd: (2 ^ (n + 1) | b)).
    { apply Gauss with a; [exact Hdiv|]. apply odd_rel_prime_pow2; lia. }
    apply Z.divide_pos_le in Hd; unfold b in *; lia.
  - assert (Hd: (2 ^ (n + 1) | a)).
    { apply Gauss with b; [rewrite Z.mul_comm; exact Hdiv|]. apply odd_rel_prime_pow2; lia. }
    apply Z.divide_pos_le in Hd; unfold a in *; lia.
Qed.

Lemma NoDup_snoc {A} (l : list A) x : NoDup l -> ~ In x l -> NoDup (l ++ [x]).
Proof.
  induction l as [|a l IH]; intros Hnd Hin; cbn [app].
  - constructor; [intros []|constructor].
  - inversion Hnd as [|? ? Ha Hl]; subst. constructor.
    + intros Hc. apply in_app_or in Hc. destruct Hc as [Hc|[Hc|[]]]; [contradiction|subst; apply Hin; left; reflexivity].
    + apply IH; [assumption|intros Hc; apply Hin; right; exact Hc].
Qed.

Section Cover.
Variables (n start : Z).
Hypothesis Hn : 0 <= n <= 63.
Let f (p : nat) : Z := pidx n start (Z.of_nat p).

Lemma pidx_inj p q : (p < q)%nat -> Z.of_nat q < 2 ^ n -> f p <> f q.
Proof.
  intros Hpq Hq Heq. assert (Hpos : 0 < 2 ^ n) by (apply pow2_pos; lia). unfold f, pidx in Heq.
  apply (tri_inj n (Z.of_nat p) (Z.of_nat q)); try lia.
  assert (H : (start + tri (Z.of_nat q) - (start + tri (Z.of_nat p))) mod 2 ^ n = 0).
  { rewrite Zminus_mod, Heq, Z.sub_diag. apply Z.mod_0_l. lia. }
  replace (start + tri (Z.of_nat q) - (start + tri (Z.of_nat p))) with (tri (Z.of_nat q) - tri (Z.of_nat p)) in H by ring.
  exact H.
Qed.

Theorem pidx_covers b : 0 <= b < 2 ^ n -> exists p, 0 <= p < 2 ^ n /\ pidx n start p = b.
Proof.
  intros Hb. assert (Hpos : 0 < 2 ^ n) by (apply pow2_pos; lia).
  set (N := Z.to_nat (2 ^ n)).
  set (l := map f (seq 0 N)).
  assert (Hnd : NoDup l).
  { unfold l.
    assert (Hgen : forall m, (m <= N)%nat -> NoDup (map f (seq 0 m))).
    { induction m as [|m IHm]; intros Hm; [constructor|].
      rewrite seq_S, map_app. cbn [map]. apply NoDup_snoc; [apply IHm; lia|].
      intros Hin. apply in_map_iff in Hin. destruct Hin as (q & Heq & Hq). apply in_seq in Hq.
      apply (pidx_inj q m); [lia|unfold N in Hm; lia|exact Heq]. }
    apply Hgen. lia. }
  assert (Hincl : incl l (map Z.of_nat (seq 0 N))).
  { intros x Hx. unfold l in Hx. apply in_map_iff in Hx. destruct Hx as (q & <- & Hq). apply in_seq in Hq.
    pose proof (pidx_range n start (Z.of_nat q) ltac:(lia)) as Hr. fold (f q) in Hr.
    apply in_map_iff. exists (Z.to_nat (f q)). split; [lia|]. apply in_seq. unfold N. lia. }
  assert (Hlen : (length (map Z.of_nat (seq 0 N)) <= length l)%nat).
  { unfold l. rewrite !map_length. lia. }
  pose proof (NoDup_length_incl Hnd Hlen Hincl) as Hrev.
  assert (Hbin : In b (map Z.of_nat (seq 0 N))).
  { apply in_map_iff. exists (Z.to_nat b). split; [lia|]. apply in_seq. unfold N. lia. }
  apply Hrev in Hbin. unfold l in Hbin. apply in_map_iff in Hbin. destruct Hbin as (p & Hp & Hin).
  apply in_seq in Hin. exists (Z.of_nat p). split; [unfold N in Hin; lia|exact Hp].
Qed.
End Cover.

(* ---- the number of elements in the first n buckets ---- *)
Fixpoint tot (n : nat) (t : table) : Z := match n with O => 0 | S m => tot m t + cnt (t (Z.of_nat m)) end.

Lemma tot_ext n t t' : (forall j, 0 <= j < Z.of_nat n -> cnt (t' j) = cnt (t j)) -> tot n t' = tot n t.
Proof. induction n as [|m IH]; intros H; [reflexivity|]. cbn [tot]. rewrite IH by (intros; apply H; lia). rewrite H by lia. reflexivity. Qed.

Lemma tot_upd n t t' idx d : 0 <= idx < Z.of_nat n ->
  (forall j, 0 <= j < Z.of_nat n -> cnt (t' j) = if j =? idx then cnt (t j) + d else cnt (t j)) -> tot n t' = tot n t + d.
Proof.
  induction n as [|m IH]; intros Hi H; [lia|]. cbn [tot]. rewrite (H (Z.of_nat m)) by lia.
  destruct (Z.eqb_spec (Z.of_nat m) idx) as [E|E].
  - rewrite (tot_ext m t t'); [lia|]. intros j Hj. rewrite H by lia. destruct (Z.eqb_spec j idx); [lia|reflexivity].
  - rewrite IH; [lia|lia|]. intros j Hj. apply H. lia.
Qed.

Lemma tot_notfull n t : (forall j, cnt (t j) <= 3) -> tot n t < 3 * Z.of_nat n -> exists b, 0 <= b < Z.of_nat n /\ cnt (t b) < 3.
Proof.
  intros Hle. induction n as [|m IH]; intros H; [cbn [tot] in H; lia|]. cbn [tot] in H.
  destruct (Z.lt_ge_cases (cnt (t (Z.of_nat m))) 3) as [Hlt|Hge].
  - exists (Z.of_nat m). split; [lia|exact Hlt].
  - destruct IH as (b & Hb & Hc); [pose proof (Hle (Z.of_nat m)); lia|]. exists b. split; [lia|exact Hc].
Qed.

Lemma tot_ge n t i : (forall j, 0 <= cnt (t j)) -> 0 <= i < Z.of_nat n -> cnt (t i) <= tot n t.
Proof.
  intros H0. induction n as [|m IH]; intros Hi; [lia|]. cbn [tot].
  assert (Hm : 0 <= tot m t) by (clear IH Hi; induction m as [|k IHk]; cbn [tot]; [lia|pose proof (H0 (Z.of_nat k)); lia]).
  destruct (Z.eq_dec i (Z.of_nat m)) as [->|]; [lia|]. pose proof (H0 (Z.of_nat m)). specialize (IH ltac:(lia)). lia.
Qed.

Lemma tot_le n t : (forall j, cnt (t j) <= 3) -> tot n t <= 3 * Z.of_nat n.
Proof. intros H. induction n as [|m IH]; cbn [tot]; [lia|]. pose proof (H (Z.of_nat m)). lia. Qed.

Lemma tot_zero n t : (forall j, 0 <= j < Z.of_nat n -> cnt (t j) = 0) -> tot n t = 0.
Proof. induction n as [|m IH]; intros H; cbn [tot]; [reflexivity|]. rewrite IH by (intros; apply H; lia). rewrite H by lia. reflexivity. Qed.

Lemma tot_empty n : tot n empty_table = 0.
Proof. induction n as [|m IH]; cbn [tot]; [reflexivity|]. rewrite IH. reflexivity. Qed.

(* ---- the probe loop gives up only after 2^L full buckets ---- *)
Lemma probe_loop_exn L t start : 0 <= L <= 63 -> forall fuel probe,
  0 <= probe < 2 ^ L -> (Z.to_nat (2 ^ L - probe) <= fuel)%nat ->
  probe_loop fuel t (2 ^ L) (pidx L start probe) probe = Exn ->
  forall p, probe <= p < 2 ^ L -> Gen_O2.IsFull (bst (t (pidx L start p))) (bsh (t (pidx L start p))) (bhp (t (pidx L start p))) = true.
Proof.
  intros HL. assert (2 ^ L <= 2 ^ 63) by (apply pow2_le_mono; lia).
  induction fuel as [|f IH]; intros probe Hp Hf; [lia|].
  cbn [probe_loop]. destruct (Gen_O2.IsFull _ _ _) eqn:Hfull; [|discriminate].
  rewrite (wrapU_small 64 (probe + 1)) by (change (2 ^ 64) with (2 * 2 ^ 63); lia).
  destruct (Z.geb_spec (probe + 1) (2 ^ L)).
  - intros _ p Hpp. replace p with probe by lia. exact Hfull.
  - rewrite next_pidx by lia. intros E p Hpp. destruct (Z.eq_dec p probe) as [->|]; [exact Hfull|].
    apply (IH (probe + 1)); [lia|lia|exact E|lia].
Qed.

Section NE.
Variable hash : Z -> Z.
Hypothesis hash_range : forall k, 0 <= hash k < 2 ^ 64.

Lemma notfull_of_cnt b : bwf b -> cnt b < 3 -> Gen_O2.IsFull (bst b) (bsh b) (bhp b) = false.
Proof.
  intros (_ & Hemp & _) Hc. unfold Gen_O2.IsFull, Gen_O2.emptyShortHash.
  change (wrapU 8 (Z.shiftl 1 (wrapU 64 (wrapU 64 (1 * 8) - 1)))) with 128.
  pose proof (bwf_cnt b) as X. rewrite (Hemp 0) by (destruct (Z.lt_ge_cases (cnt b) 0); lia). reflexivity.
Qed.

(* pvAddNogrow does not throw when some bucket of the table is not full *)
Lemma add_nogrow_not_exn L t code key : 0 <= L <= 63 -> Tinv hash L t -> 0 <= code < 2 ^ 64 ->
  (exists b, 0 <= b < 2 ^ L /\ cnt (t b) < 3) -> add_nogrow t L code key <> Exn.
Proof.
  intros HL [Hwf Hel] Hcode (b1 & Hb1 & Hc1).
  assert (Hpos : 0 < 2 ^ L) by (apply pow2_pos; lia).
  assert (Hle : 2 ^ L <= 2 ^ 63) by (apply pow2_le_mono; lia).
  unfold add_nogrow. rewrite shl1_pow2 by lia.
  rewrite (wrapU_small 64 (2 ^ L)) by (change (2 ^ 64) with (2 * 2 ^ 63); lia).
  set (start := Gen_Base.GetStartBucketIndex code (2 ^ L)).
  assert (Hstart : 0 <= start < 2 ^ L) by (unfold start; rewrite start_mod by lia; apply Z.mod_pos_bound; lia).
  pose proof (probe_loop_spec L t start ltac:(lia) (S (Z.to_nat (2 ^ L))) 0 ltac:(lia) ltac:(lia)) as Hloop.
  pose proof (probe_loop_exn L t start ltac:(lia) (S (Z.to_nat (2 ^ L))) 0 ltac:(lia) ltac:(lia)) as Hexn.
  rewrite pidx_0 in Hloop, Hexn by lia.
  destruct (probe_loop _ t (2 ^ L) start 0) as [[idx p]| | |]; try contradiction.
  - destruct Hloop as (Hp & Hidx & Hfull).
    pose proof (Hwf idx) as Hwfi. pose proof (bwf_cnt _ Hwfi) as [Hc Hcv]. destruct Hwfi as (Henc & Hemp & Hoc).
    set (c := cnt (t idx)) in *.
    assert (Hc3 : c < 3).
    { destruct (Z.lt_ge_cases c 3); [assumption|exfalso]. assert (c = 3) by lia.
      unfold Gen_O2.IsFull, Gen_O2.emptyShortHash in Hfull. pose proof (Hoc 0 ltac:(lia)).
      change (wrapU 8 (Z.shiftl 1 (wrapU 64 (wrapU 64 (1 * 8) - 1)))) with 128 in Hfull.
      destruct (Z.ltb_spec (bsh (t idx) 0) 128); [discriminate|lia]. }
    rewrite o2_addcrt_eq by (try lia; change (2 ^ 64) with (2 * 2 ^ 63); lia).
    fold (cnt (t idx)). fold c. cbv zeta. destruct (Z.ltb_spec c 3); [|lia].
    rewrite (wrapU_small 64 (2 - c)) by (change (2 ^ 64) with 18446744073709551616; lia).
    destruct (st_inc (bst (t idx)) Henc ltac:(lia)) as (Henc' & Hdec' & Hcnt' & Hs0').
    set (st' := upd (bst (t idx)) 1 (wrapU 8 (bst (t idx) 1 + 1))) in *.
    set (sh' := upd (bsh (t idx)) (2 - c) (Gen_O2.pvCalcShortHash code)).
    set (hp' := upd (bhp (t idx)) (2 - c) (o2_byte code L p)).
    set (ky' := upd (bky (t idx)) (2 - c) key).
    set (t1 := tupd t idx (mkB st' sh' hp' ky')).
    assert (Henc1 : enc_inv (bst (t1 start))).
    { unfold t1, tupd. destruct (Z.eqb start idx); [exact Henc'|apply (Hwf start)]. }
    destruct (update_spec (bst (t1 start)) p Henc1 ltac:(lia)) as (st'' & Hupd & _).
    rewrite Hupd. discriminate.
  - (* the loop gave up: all 2^L buckets on the probe path are full, but the path covers b1 *)
    intros _. destruct (pidx_covers L start HL b1 Hb1) as (p & Hp & Hpb).
    specialize (Hexn eq_refl p ltac:(lia)). rewrite Hpb in Hexn.
    rewrite (notfull_of_cnt (t b1) (Hwf b1) Hc1) in Hexn. discriminate.
Qed.
(* ... and on success exactly one bucket gains one element *)
Lemma add_nogrow_cnt L t code key : 0 <= L <= 63 -> Tinv hash L t -> 0 <= code < 2 ^ 64 ->
  match add_nogrow t L code key with
  | Ok t' => exists idx, 0 <= idx < 2 ^ L /\ forall j, cnt (t' j) = if Z.eqb j idx then cnt (t j) + 1 else cnt (t j)
  | Exn => True
  | _ => False
  end.
Proof.
  intros HL [Hwf Hel] Hcode.
  assert (Hpos : 0 < 2 ^ L) by (apply pow2_pos; lia).
  assert (Hle : 2 ^ L <= 2 ^ 63) by (apply pow2_le_mono; lia).
  unfold add_nogrow. rewrite shl1_pow2 by lia.
  rewrite (wrapU_small 64 (2 ^ L)) by (change (2 ^ 64) with (2 * 2 ^ 63); lia).
  set (start := Gen_Base.GetStartBucketIndex code (2 ^ L)).
  assert (Hstart : 0 <= start < 2 ^ L) by (unfold start; rewrite start_mod by lia; apply Z.mod_pos_bound; lia).
  pose proof (probe_loop_spec L t start ltac:(lia) (S (Z.to_nat (2 ^ L))) 0 ltac:(lia) ltac:(lia)) as Hloop.
  rewrite pidx_0 in Hloop by lia.
  destruct (probe_loop _ t (2 ^ L) start 0) as [[idx p]| | |]; try exact Hloop.
  destruct Hloop as (Hp & Hidx & Hfull).
  pose proof (Hwf idx) as Hwfi. pose proof (bwf_cnt _ Hwfi) as [Hc Hcv]. destruct Hwfi as (Henc & Hemp & Hoc).
  set (c := cnt (t idx)) in *.
  assert (Hc3 : c < 3).
  { destruct (Z.lt_ge_cases c 3); [assumption|exfalso]. assert (c = 3) by lia.
    unfold Gen_O2.IsFull, Gen_O2.emptyShortHash in Hfull. pose proof (Hoc 0 ltac:(lia)).
    change (wrapU 8 (Z.shiftl 1 (wrapU 64 (wrapU 64 (1 * 8) - 1)))) with 128 in Hfull.
    destruct (Z.ltb_spec (bsh (t idx) 0) 128); [discriminate|lia]. }
  rewrite o2_addcrt_eq by (try lia; change (2 ^ 64) with (2 * 2 ^ 63); lia).
  fold (cnt (t idx)). fold c. cbv zeta. destruct (Z.ltb_spec c 3); [|lia].
  rewrite (wrapU_small 64 (2 - c)) by (change (2 ^ 64) with 18446744073709551616; lia).
  destruct (st_inc (bst (t idx)) Henc ltac:(lia)) as (Henc' & Hdec' & Hcnt' & Hs0').
  set (st' := upd (bst (t idx)) 1 (wrapU 8 (bst (t idx) 1 + 1))) in *.
  set (sh' := upd (bsh (t idx)) (2 - c) (Gen_O2.pvCalcShortHash code)).
  set (hp' := upd (bhp (t idx)) (2 - c) (o2_byte code L p)).
  set (ky' := upd (bky (t idx)) (2 - c) key).
  set (t1 := tupd t idx (mkB st' sh' hp' ky')).
  assert (Henc1 : enc_inv (bst (t1 start))).
  { unfold t1, tupd. destruct (Z.eqb start idx); [exact Henc'|apply (Hwf start)]. }
  destruct (update_spec (bst (t1 start)) p Henc1 ltac:(lia))
    as (st'' & Hupd & Henc'' & Hcov & Hmono & Hcb).
  rewrite Hupd. unfold count_bits in Hcb.
  set (t' := tupd t1 start (mkB st'' (bsh (t1 start)) (bhp (t1 start)) (bky (t1 start)))).
  assert (Fst : forall j, enc_inv (bst (t' j)) /\ decode (bst (t j)) <= decode (bst (t' j)) /\
                          bst (t' j) 1 mod 4 = (if Z.eqb j idx then c + 1 else bst (t j) 1 mod 4) /\
                          (j = start -> p <= decode (bst (t' j)))).
  { intros j. unfold t', tupd. destruct (Z.eqb_spec j start) as [Hjs|Hjs]; cbn [bst].
    - assert (Hc1 : st'' 1 mod 4 = bst (t1 start) 1 mod 4).
      { unfold Gen_O2MP.pvGetCount in Hcb. destruct Henc'' as (_ & ? & _). destruct Henc1 as (_ & ? & _).
        rewrite !land3 in Hcb by lia. exact Hcb. }
      assert (Hrel : decode (bst (t j)) <= decode (bst (t1 start)) /\
                     bst (t1 start) 1 mod 4 = (if Z.eqb j idx then c + 1 else bst (t j) 1 mod 4)).
      { rewrite Hjs. unfold t1, tupd. destruct (Z.eqb_spec start idx) as [E|E]; cbn [bst].
        - rewrite E. split; lia.
        - split; lia. }
      destruct Hrel as [Hr1 Hr2]. split; [exact Henc''|]. split; [lia|]. split; [congruence|]. intros _. exact Hcov.
    - unfold t1, tupd. destruct (Z.eqb_spec j idx) as [E|E]; cbn [bst].
      + rewrite E. split; [exact Henc'|]. split; [lia|]. split; [lia|]. intros Hx; exfalso; lia.
      + destruct (Hwf j) as (He & _). split; [exact He|]. split; [lia|]. split; [reflexivity|]. intros Hx; exfalso; lia.
  }
  assert (Hidxr : 0 <= idx < 2 ^ L) by (rewrite Hidx; apply pidx_range; lia).
  exists idx. split; [exact Hidxr|].
  intros j. destruct (Fst j) as ((_ & H1 & _) & _ & Hm & _). rewrite cnt_val by lia. rewrite Hm.
  destruct (Z.eqb_spec j idx) as [->|]; [reflexivity|]. destruct (bwf_cnt _ (Hwf j)) as [_ ->]. reflexivity.
Qed.
End NE.

Section NE2.
Variable hash : Z -> Z.
Hypothesis hash_range : forall k, 0 <= hash k < 2 ^ 64.

(* one step of pvRelocateItems: it cannot throw when the new table has a non-full bucket, and it moves exactly one element *)
Lemma relocate_item_count L newL told tnew i : 0 <= L -> L < newL <= 63 -> Tinv hash L told -> Tinv hash newL tnew ->
  0 <= i < 2 ^ L -> 0 < cnt (told i) -> tot (Z.to_nat (2 ^ newL)) tnew < 3 * 2 ^ newL ->
  match relocate_item hash told tnew L newL i with
  | Ok (told', tnew') => tot (Z.to_nat (2 ^ L)) told' = tot (Z.to_nat (2 ^ L)) told - 1 /\
                         tot (Z.to_nat (2 ^ newL)) tnew' = tot (Z.to_nat (2 ^ newL)) tnew + 1
  | _ => False
  end.
Proof.
  intros HL0 HnL Hold Hnew Hi Hc0 Htot.
  assert (HposL : 0 < 2 ^ L) by (apply pow2_pos; lia). assert (HposN : 0 < 2 ^ newL) by (apply pow2_pos; lia).
  pose proof (relocate_item_spec hash hash_range L newL told tnew i HL0 HnL Hold Hnew Hi Hc0) as Hspec.
  assert (Heq : exists told1 tnew1, relocate_item hash told tnew L newL i = Ok (told1, tnew1) /\
                  tot (Z.to_nat (2 ^ newL)) tnew1 = tot (Z.to_nat (2 ^ newL)) tnew + 1).
  { destruct Hold as [Hwf Hel]. unfold relocate_item.
    pose proof (Hwf i) as Hwfi. pose proof (bwf_cnt _ Hwfi) as [Hc Hcv]. destruct Hwfi as (Henc & Hemp & Hoc).
    set (b := told i) in *. set (c := cnt b) in *. set (slot := 3 - c). set (key := bky b slot).
    assert (Ho : occ b slot) by (unfold occ; fold c; subst slot; lia).
    destruct (Hel i slot Hi Ho) as (p0 & Hp0 & Hb0 & Hbd0 & Hs0 & Hr0 & Hy0). fold b key in Hb0, Hbd0, Hs0, Hr0, Hy0.
    pose proof (hash_range key) as Hh.
    destruct (o2_code_raw (bst b) (bsh b) (bhp b) (hash key) i L newL slot p0 Hh ltac:(lia) HnL ltac:(lia) Hs0 Hr0 Hy0)
      as (code & Hcode & Hcc).
    { rewrite Hb0 at 1. unfold pidx, home. rewrite start_mod by lia. reflexivity. }
    fold b c slot key. rewrite Hcode.
    assert (Hcr : 0 <= code < 2 ^ 64).
    { destruct Hcc as [->| ->]; [lia|]. apply known_range; [apply qof_nonneg; lia|lia]. }
    assert (Hnf : exists b1, 0 <= b1 < 2 ^ newL /\ cnt (tnew b1) < 3).
    { destruct (tot_notfull (Z.to_nat (2 ^ newL)) tnew) as (b1 & Hb1 & Hc1).
      - intros j. pose proof (bwf_cnt _ (proj1 Hnew j)). lia.
      - lia.
      - exists b1. split; [lia|exact Hc1]. }
    pose proof (add_nogrow_not_exn hash newL tnew code key ltac:(lia) Hnew Hcr Hnf) as Hadd.
    pose proof (add_nogrow_cnt hash newL tnew code key ltac:(lia) Hnew Hcr) as Hcntn.
    destruct (add_nogrow tnew newL code key) as [tnew'| | |]; try contradiction.
    destruct Hcntn as (idx & Hidx & Hcj).
    rewrite o2_remove_eq by (fold (cnt b); fold c; lia). fold (cnt b). fold c. cbv zeta. fold slot.
    destruct (Z.geb_spec slot slot); [|lia].
    eexists. exists tnew'. split; [reflexivity|].
    rewrite (tot_upd (Z.to_nat (2 ^ newL)) tnew tnew' idx 1); [lia|lia|]. intros j _. apply Hcj. }
  destruct Heq as (told1 & tnew1 & E & Htn). rewrite E in Hspec |- *.
  destruct Hspec as (Ho1 & Hn1 & Hc1 & Hfr & _).
  split; [|exact Htn].
  rewrite (tot_upd (Z.to_nat (2 ^ L)) told told1 i (-1)); [lia|lia|].
  intros j Hj. destruct (Z.eqb_spec j i) as [->|Hne']; [lia|]. rewrite Hfr by assumption. reflexivity.
Qed.
End NE2.

Section NE3.
Variable hash : Z -> Z.
Hypothesis hash_range : forall k, 0 <= hash k < 2 ^ 64.
Variables (L newL : Z).
Hypothesis HL : 0 <= L.
Hypothesis HnL : L < newL <= 63.

Notation totL := (tot (Z.to_nat (2 ^ L))).
Notation totN := (tot (Z.to_nat (2 ^ newL))).

Lemma pow_lt : 2 ^ L < 2 ^ newL.
Proof. apply Z.pow_lt_mono_r; lia. Qed.

Lemma migrate_bucket_ok i : 0 <= i < 2 ^ L -> forall fuel told tnew, Tinv hash L told -> Tinv hash newL tnew ->
  totL told + totN tnew <= 3 * 2 ^ L -> (Z.to_nat (cnt (told i)) < fuel)%nat ->
  match migrate_bucket hash fuel told tnew L newL i with
  | Ok (told', tnew') => Tinv hash L told' /\ Tinv hash newL tnew' /\ totL told' + totN tnew' = totL told + totN tnew
  | _ => False
  end.
Proof.
  intros Hi. pose proof pow_lt as Hlt. assert (HposL : 0 < 2 ^ L) by (apply pow2_pos; lia).
  induction fuel as [|f IH]; intros told tnew Hold Hnew Hsum Hf; [lia|].
  cbn [migrate_bucket]. pose proof (bwf_cnt _ (proj1 Hold i)) as [Hc _].
  destruct (Z.eqb_spec (cnt (told i)) 0) as [Hz|Hnz]; [split; [assumption|split; [assumption|reflexivity]]|].
  assert (Hge : cnt (told i) <= totL told).
  { apply tot_ge; [|lia]. intros j. pose proof (bwf_cnt _ (proj1 Hold j)). lia. }
  pose proof (relocate_item_count hash hash_range L newL told tnew i HL HnL Hold Hnew Hi ltac:(lia) ltac:(lia)) as Hcnt.
  pose proof (relocate_item_spec hash hash_range L newL told tnew i HL HnL Hold Hnew Hi ltac:(lia)) as Hspec.
  destruct (relocate_item hash told tnew L newL i) as [[told1 tnew1]| | |]; try contradiction.
  destruct Hcnt as [Ht1 Ht2]. destruct Hspec as (Ho1 & Hn1 & Hc1 & _).
  specialize (IH told1 tnew1 Ho1 Hn1 ltac:(lia) ltac:(lia)).
  destruct (migrate_bucket hash f told1 tnew1 L newL i) as [[told2 tnew2]| | |]; try contradiction.
  destruct IH as (Ho2 & Hn2 & Hs2). split; [assumption|]. split; [assumption|lia].
Qed.

Lemma migrate_from_ok : forall n i told tnew, Tinv hash L told -> Tinv hash newL tnew ->
  totL told + totN tnew <= 3 * 2 ^ L -> 0 <= i -> i + Z.of_nat n <= 2 ^ L ->
  match migrate_from hash n told tnew L newL i with
  | Ok (told', tnew') => Tinv hash L told' /\ Tinv hash newL tnew' /\ totL told' + totN tnew' = totL told + totN tnew
  | _ => False
  end.
Proof.
  induction n as [|m IH]; intros i told tnew Hold Hnew Hsum Hi Hin; cbn [migrate_from].
  - split; [assumption|]. split; [assumption|reflexivity].
  - pose proof (bwf_cnt _ (proj1 Hold i)) as [Hc _].
    pose proof (migrate_bucket_ok i ltac:(lia) 4%nat told tnew Hold Hnew Hsum ltac:(lia)) as Hb.
    destruct (migrate_bucket hash 4 told tnew L newL i) as [[told1 tnew1]| | |]; try contradiction.
    destruct Hb as (Ho1 & Hn1 & Hs1).
    specialize (IH (i + 1) told1 tnew1 Ho1 Hn1 ltac:(lia) ltac:(lia) ltac:(lia)).
    destruct (migrate_from hash m told1 tnew1 L newL (i + 1)) as [[told2 tnew2]| | |]; try contradiction.
    destruct IH as (Ho2 & Hn2 & Hs2). split; [assumption|]. split; [assumption|lia].
Qed.

(* migrating into a FRESH table of 2^newL > 2^L buckets never throws: element_found_after_growth without the escape *)
Theorem migrate_found_ok told : Tinv hash L told ->
  exists told' tnew, migrate hash told L newL = Ok (told', tnew) /\ Tinv hash newL tnew /\
    (forall k, Present L told k -> Found hash newL tnew k).
Proof.
  intros Hold. assert (HposL : 0 < 2 ^ L) by (apply pow2_pos; lia).
  pose proof (migrate_found hash hash_range L newL told HL HnL Hold) as Hf. unfold migrate in *.
  pose proof (migrate_from_ok (Z.to_nat (2 ^ L)) 0 told empty_table Hold (empty_inv hash newL)) as Hok.
  rewrite tot_empty in Hok. specialize (Hok ltac:(pose proof (tot_le (Z.to_nat (2 ^ L)) told ltac:(intros j; pose proof (bwf_cnt _ (proj1 Hold j)); lia)); lia) ltac:(lia) ltac:(lia)).
  destruct (migrate_from hash (Z.to_nat (2 ^ L)) told empty_table L newL 0) as [[told' tnew]| | |]; try contradiction.
  exists told', tnew. split; [reflexivity|exact Hf].
Qed.
End NE3.

(* ---- the same for the GENERATED loops and for any chain of growths ---- *)
From C12 Require Import TableO2_Find Chains HSReloc_Refine.

Section NE4.
Variable hash : Z -> Z.
Hypothesis hash_range : forall k, 0 <= hash k < 2 ^ 64.

Theorem o2_gen_reloc_found_ok L newL told : 0 <= L -> L < newL <= 63 -> Tinv hash L told ->
  exists told' tnew, o2_gen_reloc hash L newL told empty_table = Ok (told', tnew) /\ Tinv hash newL tnew /\
    (forall k, Present L told k -> Found hash newL tnew k).
Proof.
  intros HL HnL Hold. rewrite (o2_gen_reloc_eq hash hash_range L newL HL HnL told empty_table Hold (empty_inv hash newL)).
  exact (migrate_found_ok hash hash_range L newL HL HnL told Hold).
Qed.

Theorem grow_chain_find_ok : forall Ls L t, 0 <= L <= 63 -> increasing L Ls -> Tinv hash L t ->
  exists t' L', grow_chain hash t L Ls = Ok (t', L') /\ o2_gen_grow_chain hash t L Ls = Ok (t', L') /\ Tinv hash L' t' /\
    (forall k, Present L t k -> exists r, find t' L' k (hash k) = Ok r /\ hit hash L' t' k r).
Proof.
  intros Ls L t HL Hinc Ht. rewrite (o2_gen_grow_chain_eq hash hash_range Ls L t HL Hinc Ht).
  pose proof (grow_chain_find hash hash_range Ls L t HL Hinc Ht) as Hf.
  assert (Hok : exists r, grow_chain hash t L Ls = Ok r).
  { clear Hf. revert L t HL Hinc Ht. induction Ls as [|n r IH]; intros L t HL Hinc Ht; cbn [grow_chain]; [eexists; reflexivity|].
    destruct Hinc as [Hn Hr].
    destruct (migrate_found_ok hash hash_range L n ltac:(lia) Hn t Ht) as (told' & tnew & E & Htn & _). rewrite E.
    apply IH; [lia|exact Hr|exact Htn]. }
  destruct Hok as ([t' L'] & E). rewrite E in Hf |- *. exists t', L'. split; [reflexivity|]. split; [reflexivity|exact Hf].
Qed.
End NE4.

(* ==== the same for LimP4: linear probing start, start+1, .. trivially covers the table; buckets hold up to 4 elements ==== *)
From C12 Require Import Gen_P4 P4_Bucket TableP4 TableP4_Proofs TableP4_Find.

Lemma lidx_covers L start b : 0 <= L -> 0 <= b < 2 ^ L -> exists p, 0 <= p < 2 ^ L /\ lidx L start p = b.
Proof.
  intros HL Hb. assert (Hpos : 0 < 2 ^ L) by (apply pow2_pos; lia).
  exists ((b - start) mod 2 ^ L). split; [apply Z.mod_pos_bound; lia|].
  unfold lidx. rewrite Zplus_mod_idemp_r. replace (start + (b - start)) with b by ring. apply Z.mod_small. lia.
Qed.

Fixpoint ptot (n : nat) (t : ptable) : Z := match n with O => 0 | S m => ptot m t + pcnt (t (Z.of_nat m)) end.

Lemma ptot_ext n t t' : (forall j, 0 <= j < Z.of_nat n -> pcnt (t' j) = pcnt (t j)) -> ptot n t' = ptot n t.
Proof. induction n as [|m IH]; intros H; [reflexivity|]. cbn [ptot]. rewrite IH by (intros; apply H; lia). rewrite H by lia. reflexivity. Qed.

Lemma ptot_upd n t t' idx d : 0 <= idx < Z.of_nat n ->
  (forall j, 0 <= j < Z.of_nat n -> pcnt (t' j) = if j =? idx then pcnt (t j) + d else pcnt (t j)) -> ptot n t' = ptot n t + d.
Proof.
  induction n as [|m IH]; intros Hi H; [lia|]. cbn [ptot]. rewrite (H (Z.of_nat m)) by lia.
  destruct (Z.eqb_spec (Z.of_nat m) idx) as [E|E].
  - rewrite (ptot_ext m t t'); [lia|]. intros j Hj. rewrite H by lia. destruct (Z.eqb_spec j idx); [lia|reflexivity].
  - rewrite IH; [lia|lia|]. intros j Hj. apply H. lia.
Qed.

Lemma ptot_notfull n t : (forall j, pcnt (t j) <= 4) -> ptot n t < 4 * Z.of_nat n -> exists b, 0 <= b < Z.of_nat n /\ pcnt (t b) < 4.
Proof.
  intros Hle. induction n as [|m IH]; intros H; [cbn [ptot] in H; lia|]. cbn [ptot] in H.
  destruct (Z.lt_ge_cases (pcnt (t (Z.of_nat m))) 4) as [Hlt|Hge].
  - exists (Z.of_nat m). split; [lia|exact Hlt].
  - destruct IH as (b & Hb & Hc); [pose proof (Hle (Z.of_nat m)); lia|]. exists b. split; [lia|exact Hc].
Qed.

Lemma ptot_ge n t i : (forall j, 0 <= pcnt (t j)) -> 0 <= i < Z.of_nat n -> pcnt (t i) <= ptot n t.
Proof.
  intros H0. induction n as [|m IH]; intros Hi; [lia|]. cbn [ptot].
  assert (Hm : 0 <= ptot m t) by (clear IH Hi; induction m as [|k IHk]; cbn [ptot]; [lia|pose proof (H0 (Z.of_nat k)); lia]).
  destruct (Z.eq_dec i (Z.of_nat m)) as [->|]; [lia|]. pose proof (H0 (Z.of_nat m)). specialize (IH ltac:(lia)). lia.
Qed.

Lemma ptot_le n t : (forall j, pcnt (t j) <= 4) -> ptot n t <= 4 * Z.of_nat n.
Proof. intros H. induction n as [|m IH]; cbn [ptot]; [lia|]. pose proof (H (Z.of_nat m)). lia. Qed.

Lemma pprobe_loop_exn L t start : 0 <= L <= 63 -> forall fuel probe,
  0 <= probe < 2 ^ L -> (Z.to_nat (2 ^ L - probe) <= fuel)%nat ->
  pprobe_loop fuel t (2 ^ L) (lidx L start probe) probe = Exn ->
  forall p, probe <= p < 2 ^ L -> Gen_P4.IsFull (ps (t (lidx L start p))) = true.
Proof.
  intros HL. assert (2 ^ L <= 2 ^ 63) by (apply pow2_le_mono; lia).
  induction fuel as [|f IH]; intros probe Hp Hf; [lia|].
  cbn [pprobe_loop]. destruct (Gen_P4.IsFull _) eqn:Hfull; [|discriminate].
  rewrite (wrapU_small 64 (probe + 1)) by (change (2 ^ 64) with (2 * 2 ^ 63); lia).
  destruct (Z.geb_spec (probe + 1) (2 ^ L)).
  - intros _ p Hpp. replace p with probe by lia. exact Hfull.
  - rewrite next_lidx by lia. intros E p Hpp. destruct (Z.eq_dec p probe) as [->|]; [exact Hfull|].
    apply (IH (probe + 1)); [lia|lia|exact E|lia].
Qed.

Section PNE.
Variables (H mm : Z).
Variable hash : Z -> Z.
Hypothesis HH : 4 <= H <= 8.
Hypothesis Hmm : 1 <= mm <= 4.
Hypothesis hash_range : forall k, 0 <= hash k < 2 ^ 64.

(* pvAddNogrow on a LimP4 table: no throw when some bucket has < 4 elements; on success exactly one bucket gains one element *)
Lemma padd_nogrow_count L t code key : 0 <= L <= 63 -> PTinv H hash L t -> 0 <= code < 2 ^ 64 ->
  match padd_nogrow H t L code key with
  | Ok t' => exists idx, 0 <= idx < 2 ^ L /\ forall j, pcnt (t' j) = if Z.eqb j idx then pcnt (t j) + 1 else pcnt (t j)
  | Exn => forall b, 0 <= b < 2 ^ L -> pcnt (t b) = 4
  | _ => False
  end.
Proof.
  intros HL [Hwf Hel] Hcode.
  assert (Hpos : 0 < 2 ^ L) by (apply pow2_pos; lia).
  assert (Hle : 2 ^ L <= 2 ^ 63) by (apply pow2_le_mono; lia).
  unfold padd_nogrow. rewrite shl1_pow2 by lia.
  rewrite (wrapU_small 64 (2 ^ L)) by (change (2 ^ 64) with (2 * 2 ^ 63); lia).
  set (start := Gen_Base.GetStartBucketIndex code (2 ^ L)).
  assert (Hstart : 0 <= start < 2 ^ L) by (unfold start; rewrite start_mod by lia; apply Z.mod_pos_bound; lia).
  pose proof (pprobe_loop_spec L t start HL (S (Z.to_nat (2 ^ L))) 0 ltac:(lia) ltac:(lia)) as Hloop.
  pose proof (pprobe_loop_exn L t start HL (S (Z.to_nat (2 ^ L))) 0 ltac:(lia) ltac:(lia)) as Hexn.
  assert (E0 : lidx L start 0 = start) by (unfold lidx; rewrite Z.add_0_r; apply Z.mod_small; lia).
  rewrite E0 in Hloop, Hexn.
  destruct (pprobe_loop _ t (2 ^ L) start 0) as [[idx p]| | |]; try contradiction.
  - destruct Hloop as (Hp & Hidx & Hfull & Hpath).
    destruct (Hwf idx) as (Hinv & Hmpi & Hmpi1 & Hpr).
    set (c := pcnt (t idx)) in *.
    assert (Hc : 0 <= c <= 4) by (apply (pbwf_cnt H hash L), Hwf).
    assert (Hc4 : c < 4).
    { destruct (Z.eq_dec c 4) as [E|]; [|lia]. apply (isfull_cnt H HH _ _ _ _ Hinv) in E. congruence. }
    destruct (p4_add_inv H (ps (t idx)) c _ _ code L p HH Hcode HL ltac:(change (2 ^ 64) with (2 * 2 ^ 63); lia) Hinv Hc4)
      as (s' & Hadd & Hinv').
    rewrite Hadd. fold c.
    set (mpi' := if c =? 0 then pmpi (t idx) else if c =? pmpi (t idx) then pmpi (t idx) + 1 else pmpi (t idx)).
    set (b' := mkP s' mpi' (upd (pky (t idx)) c key) (upd (ppr (t idx)) c p)).
    assert (Hcnt' : pcnt b' = c + 1) by (unfold pcnt, b'; cbn [ps]; apply (p4_count_inv H _ _ _ _ ltac:(lia) Hinv')).
    exists idx. split; [rewrite Hidx; apply lidx_range; lia|].
    intros j. unfold ptupd. destruct (Z.eqb_spec j idx) as [->|]; [exact Hcnt'|reflexivity].
  - (* the loop gave up: every bucket on the path start .. start + 2^L - 1, i.e. every bucket, is full *)
    intros b Hb. destruct (lidx_covers L start b ltac:(lia) Hb) as (p & Hp & Hpb).
    specialize (Hexn eq_refl p ltac:(lia)). rewrite Hpb in Hexn.
    destruct (Hwf b) as (Hinv & _). apply (isfull_cnt H HH _ _ _ _ Hinv). exact Hexn.
Qed.

Notation ptotL L := (ptot (Z.to_nat (2 ^ L))).

Lemma prelocate_item_count L newL told tnew i : 0 <= L -> L < newL <= 63 -> PTinv H hash L told -> PTinv H hash newL tnew ->
  0 <= i < 2 ^ L -> 0 < pcnt (told i) -> ptotL newL tnew < 4 * 2 ^ newL ->
  match prelocate_item H mm hash told tnew L newL i with
  | Ok (told', tnew') => ptotL L told' = ptotL L told - 1 /\ ptotL newL tnew' = ptotL newL tnew + 1
  | _ => False
  end.
Proof.
  intros HL0 HnL Hold Hnew Hi Hc0 Htot.
  assert (HposL : 0 < 2 ^ L) by (apply pow2_pos; lia). assert (HposN : 0 < 2 ^ newL) by (apply pow2_pos; lia).
  pose proof (prelocate_item_spec H mm hash HH Hmm hash_range L newL told tnew i HL0 HnL Hold Hnew Hi Hc0) as Hspec.
  assert (Heq : exists told1 tnew1, prelocate_item H mm hash told tnew L newL i = Ok (told1, tnew1) /\
                  ptotL newL tnew1 = ptotL newL tnew + 1).
  { pose proof Hold as [Hwf Hel]. unfold prelocate_item.
    destruct (Hwf i) as (Hinv & Hmpi & Hmpi1 & Hpr). set (c := pcnt (told i)) in *. set (idx := c - 1).
    set (key := pky (told i) idx). pose proof (hash_range key) as Hh.
    destruct (Hel i idx Hi ltac:(fold c; subst idx; lia)) as (Hp0 & Hb0 & _). fold key in Hb0. set (p0 := ppr (told i) idx) in *.
    set (code := Gen_P4.GetHashCodePart H (ps (told i)) (hash key) i L newL 8 idx).
    assert (Hcc : code = hash key \/ code = known (qof newL) (hash key)).
    { destruct (p4_bucket_read H (ps (told i)) c _ _ idx (hash key) i L newL 8 HH Hinv ltac:(subst idx; lia) ltac:(lia) ltac:(lia))
        as [Hf|(Hsl & Hv & Hs)]; [left; exact Hf|].
      assert (Hrec : code = if p4_full_used (p4_byte (hash key) L p0) L newL then hash key else known (qof L) (hash key)).
      { unfold code. apply p4_reconstruct; try lia; try exact Hv; try exact Hs; try (subst idx; lia).
        rewrite Hb0 at 1. unfold lidx, phome. rewrite start_mod by lia. reflexivity. }
      rewrite Hrec. destruct (p4_full_used _ _ _) eqn:Hfu; [left; reflexivity|right].
      apply p4_full_used_false in Hfu; [|apply p4_byte_range; lia]. destruct Hfu as [_ Hq]. rewrite Hq. reflexivity. }
    assert (Hcr : 0 <= code < 2 ^ 64).
    { destruct Hcc as [->| ->]; [lia|]. apply known_range; [apply qof_nonneg; lia|lia]. }
    pose proof (padd_nogrow_count newL tnew code key ltac:(lia) Hnew Hcr) as Hcntn.
    destruct (padd_nogrow H tnew newL code key) as [tnew'| | |]; try contradiction.
    - destruct Hcntn as (ix & Hix & Hcj).
      destruct (premove_at_spec H mm hash HH Hmm hash_range L told i idx ltac:(lia) Hold ltac:(fold c; subst idx; lia)) as (told' & Hrm & _).
      rewrite Hrm. exists told', tnew'. split; [reflexivity|].
      rewrite (ptot_upd (Z.to_nat (2 ^ newL)) tnew tnew' ix 1); [lia|lia|]. intros j _. apply Hcj.
    - exfalso. destruct (ptot_notfull (Z.to_nat (2 ^ newL)) tnew) as (b1 & Hb1 & Hc1).
      + intros j. pose proof (pbwf_cnt H hash newL _ (proj1 Hnew j)). lia.
      + lia.
      + rewrite (Hcntn b1) in Hc1 by lia. lia. }
  destruct Heq as (told1 & tnew1 & E & Htn). rewrite E in Hspec |- *.
  destruct Hspec as (Ho1 & Hn1 & Hc1 & Hfr & _).
  split; [|exact Htn].
  rewrite (ptot_upd (Z.to_nat (2 ^ L)) told told1 i (-1)); [lia|lia|].
  intros j Hj. destruct (Z.eqb_spec j i) as [->|Hne']; [lia|]. rewrite Hfr by assumption. reflexivity.
Qed.
End PNE.

Section PNE3.
Variables (H mm : Z).
Variable hash : Z -> Z.
Hypothesis HH : 4 <= H <= 8.
Hypothesis Hmm : 1 <= mm <= 4.
Hypothesis hash_range : forall k, 0 <= hash k < 2 ^ 64.
Variables (L newL : Z).
Hypothesis HL : 0 <= L.
Hypothesis HnL : L < newL <= 63.

Notation ptotL := (ptot (Z.to_nat (2 ^ L))).
Notation ptotN := (ptot (Z.to_nat (2 ^ newL))).

Lemma pmigrate_bucket_ok i : 0 <= i < 2 ^ L -> forall fuel told tnew calls, PTinv H hash L told -> PTinv H hash newL tnew ->
  ptotL told + ptotN tnew <= 4 * 2 ^ L -> (Z.to_nat (pcnt (told i)) < fuel)%nat ->
  match pmigrate_bucket H mm hash fuel told tnew L newL i calls with
  | Ok (told', tnew', _) => PTinv H hash L told' /\ PTinv H hash newL tnew' /\ ptotL told' + ptotN tnew' = ptotL told + ptotN tnew
  | _ => False
  end.
Proof.
  intros Hi. pose proof (pow_lt L newL HL HnL) as Hlt. assert (HposL : 0 < 2 ^ L) by (apply pow2_pos; lia).
  induction fuel as [|f IH]; intros told tnew calls Hold Hnew Hsum Hf; [lia|].
  cbn [pmigrate_bucket]. pose proof (pbwf_cnt H hash L _ (proj1 Hold i)) as Hc.
  destruct (Z.eqb_spec (pcnt (told i)) 0) as [Hz|Hnz]; [split; [assumption|split; [assumption|reflexivity]]|].
  assert (Hge : pcnt (told i) <= ptotL told).
  { apply ptot_ge; [|lia]. intros j. pose proof (pbwf_cnt H hash L _ (proj1 Hold j)). lia. }
  pose proof (prelocate_item_count H mm hash HH Hmm hash_range L newL told tnew i HL HnL Hold Hnew Hi ltac:(lia) ltac:(lia)) as Hcnt.
  pose proof (prelocate_item_spec H mm hash HH Hmm hash_range L newL told tnew i HL HnL Hold Hnew Hi ltac:(lia)) as Hspec.
  cbv zeta. destruct (prelocate_item H mm hash told tnew L newL i) as [[told1 tnew1]| | |]; try contradiction.
  destruct Hcnt as [Ht1 Ht2]. destruct Hspec as (Ho1 & Hn1 & Hc1 & _).
  match goal with |- context [pmigrate_bucket H mm hash f told1 tnew1 L newL i ?c] => specialize (IH told1 tnew1 c Ho1 Hn1 ltac:(lia) ltac:(lia));
    destruct (pmigrate_bucket H mm hash f told1 tnew1 L newL i c) as [[[told2 tnew2] c2]| | |]; try contradiction end.
  destruct IH as (Ho2 & Hn2 & Hs2). split; [assumption|]. split; [assumption|lia].
Qed.

Lemma pmigrate_from_ok : forall n i told tnew calls, PTinv H hash L told -> PTinv H hash newL tnew ->
  ptotL told + ptotN tnew <= 4 * 2 ^ L -> 0 <= i -> i + Z.of_nat n <= 2 ^ L ->
  match pmigrate_from H mm hash n told tnew L newL i calls with
  | Ok (told', tnew', _) => PTinv H hash L told' /\ PTinv H hash newL tnew' /\ ptotL told' + ptotN tnew' = ptotL told + ptotN tnew
  | _ => False
  end.
Proof.
  induction n as [|m IH]; intros i told tnew calls Hold Hnew Hsum Hi Hin; cbn [pmigrate_from].
  - split; [assumption|]. split; [assumption|reflexivity].
  - pose proof (pbwf_cnt H hash L _ (proj1 Hold i)) as Hc.
    pose proof (pmigrate_bucket_ok i ltac:(lia) 5%nat told tnew calls Hold Hnew Hsum ltac:(lia)) as Hb.
    destruct (pmigrate_bucket H mm hash 5 told tnew L newL i calls) as [[[told1 tnew1] c1]| | |]; try contradiction.
    destruct Hb as (Ho1 & Hn1 & Hs1).
    specialize (IH (i + 1) told1 tnew1 c1 Ho1 Hn1 ltac:(lia) ltac:(lia) ltac:(lia)).
    destruct (pmigrate_from H mm hash m told1 tnew1 L newL (i + 1) c1) as [[[told2 tnew2] c2]| | |]; try contradiction.
    destruct IH as (Ho2 & Hn2 & Hs2). split; [assumption|]. split; [assumption|lia].
Qed.

Lemma ptot_empty n : ptot n (pempty_table H mm) = 0.
Proof.
  induction n as [|m IH]; cbn [ptot]; [reflexivity|]. rewrite IH.
  unfold pempty_table, pempty_bucket, pcnt. cbn [ps].
  rewrite (p4_count_inv H _ 0 (fun _ => 0) (fun _ => 0)); [reflexivity|lia|apply p4_inv_empty; lia].
Qed.

(* LimP4: migrating into a FRESH table of 2^newL > 2^L buckets never throws *)
Theorem pmigrate_found_ok told : PTinv H hash L told ->
  exists told' tnew calls, pmigrate H mm hash told L newL = Ok (told', tnew, calls) /\ PTinv H hash newL tnew /\
    (forall k, PPresent L told k -> PFound hash newL tnew k).
Proof.
  intros Hold. assert (HposL : 0 < 2 ^ L) by (apply pow2_pos; lia).
  pose proof (pmigrate_found H mm hash HH Hmm hash_range L newL told HL HnL Hold) as Hf. unfold pmigrate in *.
  pose proof (pmigrate_from_ok (Z.to_nat (2 ^ L)) 0 told (pempty_table H mm) 0 Hold (pempty_inv H mm hash HH Hmm newL)) as Hok.
  rewrite ptot_empty in Hok.
  specialize (Hok ltac:(pose proof (ptot_le (Z.to_nat (2 ^ L)) told ltac:(intros j; pose proof (pbwf_cnt H hash L _ (proj1 Hold j)); lia)); lia) ltac:(lia) ltac:(lia)).
  destruct (pmigrate_from H mm hash (Z.to_nat (2 ^ L)) told (pempty_table H mm) L newL 0 0) as [[[told' tnew] c]| | |]; try contradiction.
  exists told', tnew, c. split; [reflexivity|exact Hf].
Qed.
End PNE3.

Section PNE4.
Variables (H mm : Z).
Variable hash : Z -> Z.
Hypothesis HH : 4 <= H <= 8.
Hypothesis Hmm : 1 <= mm <= 4.
Hypothesis hash_range : forall k, 0 <= hash k < 2 ^ 64.

Theorem p4_gen_reloc_found_ok L newL told : 0 <= L -> L < newL <= 63 -> PTinv H hash L told ->
  exists told' tnew, p4_gen_reloc H mm hash L newL told (pempty_table H mm) = Ok (told', tnew) /\ PTinv H hash newL tnew /\
    (forall k, PPresent L told k -> PFound hash newL tnew k).
Proof.
  intros HL HnL Hold.
  rewrite (p4_gen_reloc_eq H mm hash HH Hmm hash_range L newL HL HnL told (pempty_table H mm) 0 Hold (pempty_inv H mm hash HH Hmm newL)).
  destruct (pmigrate_found_ok H mm hash HH Hmm hash_range L newL HL HnL told Hold) as (told' & tnew & c & E & Hrest).
  unfold pmigrate in E. rewrite E. exists told', tnew. split; [reflexivity|exact Hrest].
Qed.

Theorem pgrow_chain_find_ok : forall Ls L t, 0 <= L <= 63 -> increasing L Ls -> PTinv H hash L t ->
  exists t' L', pgrow_chain H mm hash t L Ls = Ok (t', L') /\ p4_gen_grow_chain H mm hash t L Ls = Ok (t', L') /\ PTinv H hash L' t' /\
    (forall k, PPresent L t k -> exists r, pfind t' L' k (hash k) = Ok r /\ phit hash L' t' k r).
Proof.
  intros Ls L t HL Hinc Ht. rewrite (p4_gen_grow_chain_eq H mm hash HH Hmm hash_range Ls L t HL Hinc Ht).
  pose proof (pgrow_chain_find H mm hash HH Hmm hash_range Ls L t HL Hinc Ht) as Hf.
  assert (Hok : exists r, pgrow_chain H mm hash t L Ls = Ok r).
  { clear Hf. revert L t HL Hinc Ht. induction Ls as [|n r IH]; intros L t HL Hinc Ht; cbn [pgrow_chain]; [eexists; reflexivity|].
    destruct Hinc as [Hn Hr].
    destruct (pmigrate_found_ok H mm hash HH Hmm hash_range L n ltac:(lia) Hn t Ht) as (told' & tnew & c & E & Htn & _). rewrite E.
    apply IH; [lia|exact Hr|exact Htn]. }
  destruct Hok as ([t' L'] & E). rewrite E in Hf |- *. exists t', L'. split; [reflexivity|]. split; [reflexivity|exact Hf].
Qed.
End PNE4.

(* ==== migration into a NON-EMPTY newest table (chained generations, throwing full getter), Open2N2 ====
   HashSet only starts a growth with mCount <= capacity(new bucket array) (pvAddGrow's loop leaves with newCapacity > mCount; the generated
   decision is C11's theorem C11_growth_decision_is_source), mCount counts the elements of ALL generations and capacity <= 3 * 2^newL.
   Hypothesis below: (elements of all older generations) + (elements of the newest table) <= cap <= 3 * 2^newL. *)
From C12 Require Import GensFind.

Fixpoint gtot (gens : list (table * Z)) : Z :=
  match gens with [] => 0 | (t, L) :: r => tot (Z.to_nat (2 ^ L)) t + gtot r end.

Lemma tot_nonneg hash L t n : Tinv hash L t -> 0 <= tot n t.
Proof. intros [Hwf _]. induction n as [|m IH]; cbn [tot]; [lia|]. pose proof (bwf_cnt _ (Hwf (Z.of_nat m))). lia. Qed.

Lemma gtot_nonneg hash newL gens : gens_ok hash newL gens -> 0 <= gtot gens.
Proof.
  induction gens as [|[t L] r IH]; intros Hg; cbn [gtot]; [lia|]. inversion Hg as [|g gs Hg1 Hg2]; subst. cbn [fst snd] in Hg1.
  destruct Hg1 as (_ & _ & Ht). pose proof (tot_nonneg hash L t (Z.to_nat (2 ^ L)) Ht). specialize (IH Hg2). lia.
Qed.

Section NE5.
Variable hash : Z -> Z.
Hypothesis hash_range : forall k, 0 <= hash k < 2 ^ 64.
Variables (newL budget : Z).
Hypothesis HnL63 : newL <= 63.
Notation totN := (tot (Z.to_nat (2 ^ newL))).

Lemma migrate_bucket_c_ok L i : 0 <= L -> L < newL -> 0 <= i < 2 ^ L -> forall fuel told tnew calls, Tinv hash L told -> Tinv hash newL tnew ->
  tot (Z.to_nat (2 ^ L)) told + totN tnew <= 3 * 2 ^ newL -> (Z.to_nat (cnt (told i)) < fuel)%nat ->
  match migrate_bucket_c hash fuel told tnew L newL i budget calls with
  | Ok (told', tnew', _, _) => Tinv hash L told' /\ Tinv hash newL tnew' /\
                               tot (Z.to_nat (2 ^ L)) told' + totN tnew' = tot (Z.to_nat (2 ^ L)) told + totN tnew
  | _ => False
  end.
Proof.
  intros HL HLn Hi. assert (HposL : 0 < 2 ^ L) by (apply pow2_pos; lia).
  induction fuel as [|f IH]; intros told tnew calls Hold Hnew Hsum Hf; [lia|].
  cbn [migrate_bucket_c]. pose proof (bwf_cnt _ (proj1 Hold i)) as [Hc _].
  destruct (Z.eqb_spec (cnt (told i)) 0) as [Hz|Hnz]; [split; [assumption|split; [assumption|reflexivity]]|].
  cbv zeta. destruct (getter_used (told i) i L newL (3 - cnt (told i)) && (budget <=? calls)); [split; [assumption|split; [assumption|reflexivity]]|].
  assert (Hge : cnt (told i) <= tot (Z.to_nat (2 ^ L)) told).
  { apply tot_ge; [|lia]. intros j. pose proof (bwf_cnt _ (proj1 Hold j)). lia. }
  pose proof (relocate_item_count hash hash_range L newL told tnew i HL ltac:(lia) Hold Hnew Hi ltac:(lia) ltac:(lia)) as Hcnt.
  pose proof (relocate_item_spec hash hash_range L newL told tnew i HL ltac:(lia) Hold Hnew Hi ltac:(lia)) as Hspec.
  destruct (relocate_item hash told tnew L newL i) as [[told1 tnew1]| | |]; try contradiction.
  destruct Hcnt as [Ht1 Ht2]. destruct Hspec as (Ho1 & Hn1 & Hc1 & _).
  match goal with |- context [migrate_bucket_c hash f told1 tnew1 L newL i budget ?c] => specialize (IH told1 tnew1 c Ho1 Hn1 ltac:(lia) ltac:(lia));
    destruct (migrate_bucket_c hash f told1 tnew1 L newL i budget c) as [[[[told2 tnew2] c2] th2]| | |]; try contradiction end.
  destruct IH as (Ho2 & Hn2 & Hs2). split; [assumption|]. split; [assumption|lia].
Qed.

Lemma migrate_from_c_ok L : 0 <= L -> L < newL -> forall n i told tnew calls, Tinv hash L told -> Tinv hash newL tnew ->
  tot (Z.to_nat (2 ^ L)) told + totN tnew <= 3 * 2 ^ newL -> 0 <= i -> i + Z.of_nat n <= 2 ^ L ->
  match migrate_from_c hash n told tnew L newL i budget calls with
  | Ok (told', tnew', _, _) => Tinv hash L told' /\ Tinv hash newL tnew' /\
                               tot (Z.to_nat (2 ^ L)) told' + totN tnew' = tot (Z.to_nat (2 ^ L)) told + totN tnew
  | _ => False
  end.
Proof.
  intros HL HLn. induction n as [|m IH]; intros i told tnew calls Hold Hnew Hsum Hi Hin; cbn [migrate_from_c].
  - split; [assumption|]. split; [assumption|reflexivity].
  - pose proof (bwf_cnt _ (proj1 Hold i)) as [Hc _].
    pose proof (migrate_bucket_c_ok L i HL HLn ltac:(lia) 4%nat told tnew calls Hold Hnew Hsum ltac:(lia)) as Hb.
    destruct (migrate_bucket_c hash 4 told tnew L newL i budget calls) as [[[[told1 tnew1] c1] th]| | |]; try contradiction.
    destruct Hb as (Ho1 & Hn1 & Hs1). destruct th; [split; [assumption|split; [assumption|exact Hs1]]|].
    specialize (IH (i + 1) told1 tnew1 c1 Ho1 Hn1 ltac:(lia) ltac:(lia) ltac:(lia)).
    destruct (migrate_from_c hash m told1 tnew1 L newL (i + 1) budget c1) as [[[[told2 tnew2] c2] th2]| | |]; try contradiction.
    destruct IH as (Ho2 & Hn2 & Hs2). split; [assumption|]. split; [assumption|lia].
Qed.

(* the whole chain of older generations into the (possibly non-empty) newest table: never "Hash table is full" *)
Lemma migrate_gens_ok : forall gens tnew calls, gens_ok hash newL gens -> Tinv hash newL tnew ->
  gtot gens + totN tnew <= 3 * 2 ^ newL ->
  match migrate_gens hash gens tnew newL budget calls with
  | Ok (gens', tnew', _, _) => gtot gens' + totN tnew' = gtot gens + totN tnew
  | _ => False
  end.
Proof.
  induction gens as [|[told L] r IH]; intros tnew calls Hg Hnew Hsum; cbn [migrate_gens]; [reflexivity|].
  inversion Hg as [|g gs Hg1 Hg2]; subst. cbn [fst snd] in Hg1. destruct Hg1 as (HL0 & HLn & Hold).
  assert (Hpos : 0 < 2 ^ L) by (apply pow2_pos; lia). cbn [gtot] in Hsum |- *.
  pose proof (gtot_nonneg hash newL r Hg2) as Hr0.
  pose proof (migrate_from_c_ok L HL0 HLn (Z.to_nat (2 ^ L)) 0 told tnew calls Hold Hnew ltac:(lia) ltac:(lia) ltac:(lia)) as Hm.
  pose proof (migrate_from_c_spec hash hash_range L newL budget HL0 ltac:(lia) (Z.to_nat (2 ^ L)) told tnew 0 calls ltac:(lia) ltac:(lia) Hold Hnew ltac:(intros; lia)) as Hsp.
  destruct (migrate_from_c hash (Z.to_nat (2 ^ L)) told tnew L newL 0 budget calls) as [[[[told1 tnew1] c1] th]| | |]; try contradiction.
  destruct Hm as (Ho1 & Hn1 & Hs1). destruct Hsp as (_ & Hz). destruct th; [cbn [gtot]; lia|].
  (* the fully migrated generation told1 is dropped: it is empty *)
  assert (H10 : tot (Z.to_nat (2 ^ L)) told1 = 0).
  { apply tot_zero. intros j Hj. apply (Hz eq_refl). lia. }
  specialize (IH tnew1 c1 Hg2 Hn1 ltac:(lia)).
  destruct (migrate_gens hash r tnew1 newL budget c1) as [[[[r' t2] c2] th2]| | |]; try contradiction.
  lia.
Qed.

(* with the spec: every key stored anywhere is found afterwards, and the run does not throw "Hash table is full" *)
Theorem migrate_gens_find_ok gens tnew calls cap : 0 <= newL -> gens_ok hash newL gens -> Tinv hash newL tnew ->
  gtot gens + totN tnew <= cap -> cap <= 3 * 2 ^ newL ->
  exists gens' tnew' calls' thrown, migrate_gens hash gens tnew newL budget calls = Ok (gens', tnew', calls', thrown) /\
    gens_ok hash newL gens' /\ Tinv hash newL tnew' /\ (thrown = false -> gens' = []) /\
    gtot gens' + totN tnew' = gtot gens + totN tnew /\
    (forall k, in_gens gens k \/ Present newL tnew k ->
       exists r, find_gens ((tnew', newL) :: rev gens') k (hash k) = Ok (Some r) /\ gens_hit ((tnew', newL) :: rev gens') k r).
Proof.
  intros H0 Hg Hnew Hsum Hcap.
  pose proof (migrate_gens_ok gens tnew calls Hg Hnew ltac:(lia)) as Hok.
  pose proof (migrate_gens_spec hash hash_range newL budget HnL63 gens tnew calls Hg Hnew) as Hsp.
  pose proof (migrate_gens_find hash hash_range newL budget ltac:(lia) gens tnew calls Hg Hnew) as Hf.
  destruct (migrate_gens hash gens tnew newL budget calls) as [[[[gens' tnew'] c'] th]| | |]; try contradiction.
  destruct Hsp as (Hg' & Ht' & _ & Hth). exists gens', tnew', c', th. split; [reflexivity|]. split; [exact Hg'|]. split; [exact Ht'|].
  split; [exact Hth|]. split; [exact Hok|exact Hf].
Qed.
End NE5.

(* ---- what the GENERATED growth decision of HashSet::pvAddGrow (Gen_HSGrow.pvAddGrow_loop0, HashSet.h:1156-1166: `while (true) {
   newCapacity = CalcCapacity(1 << newLog, maxCount); if (newCapacity > mCount) break; ... ++newLog; }`) establishes: the chosen
   capacity exceeds mCount, so after the new element is added mCount + 1 <= capacity ---- *)
From C12 Require Import Gen_HSGrow.

Lemma grow_decision bm (tc : Z -> Z -> Z) : forall fuel ht mc cap0 nl0 cap r,
  pvAddGrow_loop0 bm tc fuel ht mc cap0 nl0 = Ok (None, (cap, r)) ->
  mc < cap /\ cap = tc (wrapU 64 (Z.shiftl 1 r)) bm.
Proof.
  induction fuel as [|f IH]; intros ht mc cap0 nl0 cap r; [discriminate|].
  rewrite pvAddGrow_loop0_eq. cbv zeta.
  destruct (Z.gtb_spec (tc (wrapU 64 (Z.shiftl 1 nl0)) bm) mc).
  - intros E. injection E as <- <-. split; [lia|reflexivity].
  - destruct (Z.geb nl0 (wrapU 64 (wrapU 64 (8 * 8) - 1))); [discriminate|]. apply IH.
Qed.

Section NE6.
Variable hash : Z -> Z.
Hypothesis hash_range : forall k, 0 <= hash k < 2 ^ 64.

(* pvAddGrow as a whole, Open2N2: the generated decision picks (cap, newL); the new element is added to the fresh newest table (so it
   holds 1 element, or more if older relocations were interrupted before); all older generations are then relocated into it.  If mCount
   counts the elements of all generations and CalcCapacity never exceeds the number of slots, the relocation cannot throw
   "Hash table is full", whatever the full getter's exceptions do, and Find afterwards returns every key. *)
Theorem migrate_gens_after_growth_decision (tc : Z -> Z -> Z) fuel ht mc cap0 nl0 cap newL budget gens tnew calls :
  (forall bc, tc bc 3 <= 3 * bc) -> 0 <= newL <= 62 ->
  pvAddGrow_loop0 3 tc fuel ht mc cap0 nl0 = Ok (None, (cap, newL)) ->
  gens_ok hash newL gens -> Tinv hash newL tnew ->
  gtot gens + tot (Z.to_nat (2 ^ newL)) tnew <= mc + 1 ->
  exists gens' tnew' calls' thrown, migrate_gens hash gens tnew newL budget calls = Ok (gens', tnew', calls', thrown) /\
    gens_ok hash newL gens' /\ Tinv hash newL tnew' /\ (thrown = false -> gens' = []) /\
    gtot gens' + tot (Z.to_nat (2 ^ newL)) tnew' = gtot gens + tot (Z.to_nat (2 ^ newL)) tnew /\
    (forall k, in_gens gens k \/ Present newL tnew k ->
       exists r, find_gens ((tnew', newL) :: rev gens') k (hash k) = Ok (Some r) /\ gens_hit ((tnew', newL) :: rev gens') k r).
Proof.
  intros Htc HnL Hdec Hg Hnew Hsum.
  destruct (grow_decision 3 tc fuel ht mc cap0 nl0 cap newL Hdec) as [Hlt Hcap].
  assert (Hpow : 2 ^ newL <= 2 ^ 62) by (apply pow2_le_mono; lia). assert (Hpos : 0 < 2 ^ newL) by (apply pow2_pos; lia).
  rewrite shl1_pow2 in Hcap by lia. rewrite (wrapU_small 64 (2 ^ newL)) in Hcap by (change (2 ^ 64) with (4 * 2 ^ 62); lia).
  apply (migrate_gens_find_ok hash hash_range newL budget ltac:(lia) gens tnew calls cap ltac:(lia) Hg Hnew ltac:(lia)).
  rewrite Hcap. apply Htc.
Qed.
End NE6.

(* ---- the same with the GENERATED capacity policy of Open2N2 in place of the hypothesis CalcCapacity(bc, 3) <= 3 * bc ---- *)
From C12 Require Import Gen_PolicyO2 CapBound.

Section NE7.
Variable hash : Z -> Z.
Hypothesis hash_range : forall k, 0 <= hash k < 2 ^ 64.

Theorem migrate_gens_after_growth_decision_o2 fuel ht mc cap0 nl0 cap newL budget gens tnew calls :
  0 <= newL <= 62 ->
  pvAddGrow_loop0 3 (fun bc _ => Gen_PolicyO2.CalcCapacity 3 bc) fuel ht mc cap0 nl0 = Ok (None, (cap, newL)) ->
  gens_ok hash newL gens -> Tinv hash newL tnew ->
  gtot gens + tot (Z.to_nat (2 ^ newL)) tnew <= mc + 1 ->
  exists gens' tnew' calls' thrown, migrate_gens hash gens tnew newL budget calls = Ok (gens', tnew', calls', thrown) /\
    gens_ok hash newL gens' /\ Tinv hash newL tnew' /\ (thrown = false -> gens' = []) /\
    gtot gens' + tot (Z.to_nat (2 ^ newL)) tnew' = gtot gens + tot (Z.to_nat (2 ^ newL)) tnew /\
    (forall k, in_gens gens k \/ Present newL tnew k ->
       exists r, find_gens ((tnew', newL) :: rev gens') k (hash k) = Ok (Some r) /\ gens_hit ((tnew', newL) :: rev gens') k r).
Proof.
  intros HnL Hdec Hg Hnew Hsum.
  destruct (grow_decision 3 (fun bc _ => Gen_PolicyO2.CalcCapacity 3 bc) fuel ht mc cap0 nl0 cap newL Hdec) as [Hlt Hcap].
  assert (Hpow : 2 ^ newL <= 2 ^ 62) by (apply pow2_le_mono; lia). assert (Hpos : 0 < 2 ^ newL) by (apply pow2_pos; lia).
  cbv beta in Hcap. rewrite shl1_pow2 in Hcap by lia. rewrite (wrapU_small 64 (2 ^ newL)) in Hcap by (change (2 ^ 64) with (4 * 2 ^ 62); lia).
  apply (migrate_gens_find_ok hash hash_range newL budget ltac:(lia) gens tnew calls cap ltac:(lia) Hg Hnew ltac:(lia)).
  rewrite Hcap. apply (calc_capacity_le_slots 3 (2 ^ newL)); lia.
Qed.
End NE7.
