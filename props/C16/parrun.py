#!/usr/bin/env python3
"""run `exe` over the stdin lines in N contiguous chunks in parallel; outputs concatenated in order.
usage: parrun.py N exe [args...]   (both sides of the C16 correspondence use it: the extracted Coq integers are slow)"""
import sys, subprocess, tempfile, os
n = int(sys.argv[1]); cmd = sys.argv[2:]
lines = sys.stdin.read().splitlines()
if not lines:
    sys.exit(0)
# balance by cost: a range line `xxr L lo n` costs n
def cost_of(l):
    w = l.split()
    c = int(w[3]) if l[2:3] == 'r' and len(w) == 4 else 1
    return c * (10 if l.startswith('sq') else 1)      # the sqrt functions are ~10x the cnst ones in extracted Coq integers
cost = [cost_of(l) for l in lines]
total = sum(cost); chunks = []; cur = []; acc = 0; target = total / n
for l, c in zip(lines, cost):
    cur.append(l); acc += c
    if acc >= target and len(chunks) < n - 1:
        chunks.append(cur); cur = []; acc = 0
if cur:
    chunks.append(cur)
procs = []
for ch in chunks:
    f = tempfile.TemporaryFile('w+'); f.write('\n'.join(ch) + '\n'); f.seek(0)
    o = tempfile.TemporaryFile('w+')      # a file, not a pipe: the children must not block on a full pipe
    procs.append((subprocess.Popen(cmd, stdin=f, stdout=o, text=True), o, len(ch)))
rc = 0
for p, o, k in procs:
    p.wait(); o.seek(0); out = o.read()
    sys.stdout.write(out)
    if p.returncode != 0:
        rc = p.returncode
    got = out.count('\n')
    if got < k:   # keep line alignment for the caller
        sys.stdout.write('<missing>\n' * (k - got))
sys.exit(rc)
