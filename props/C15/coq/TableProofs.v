(* C15 -- proofs about the DataTable model (Table.v). *)
From Coq Require Import ZArith List Bool Arith Lia.
From C15 Require Import Table.
Import ListNotations.
Local Open Scope Z_scope.

Ltac tdm :=
  repeat match goal with
         | |- context [match ?x with _ => _ end] => destruct x eqn:?
         | |- context [if ?x then _ else _] => destruct x eqn:?
         end.

Lemma dt_rejected_call_is_identity s o s' : tstep s o = (s', TRej) -> s' = s.
Proof. destruct o; cbn [tstep]; cbv zeta; tdm; intro H; inversion H; reflexivity. Qed.

Lemma dt_step_monotone s o : (cver s <= cver (fst (tstep s o)))%nat /\ (rver s <= rver (fst (tstep s o)))%nat.
Proof. destruct o; cbn [tstep]; cbv zeta; tdm; cbn [fst cver rver tset tupd]; lia. Qed.
Lemma dt_versions_monotone ops : forall s, (cver s <= cver (trun s ops))%nat /\ (rver s <= rver (trun s ops))%nat.
Proof.
  induction ops as [|o t IH]; intros s; simpl; [lia|].
  destruct (dt_step_monotone s o), (IH (fst (tstep s o))). lia.
Qed.

(* a row reference (or a reference taken out of a selection) whose removeVersion snapshot is not current is rejected by
   read, GetNumber, Remove/Extract and Update, and nothing changes *)
Definition dt_stale (s : tstate) (h : thandle) : Prop := ttid h = Some 0%nat /\ tsnap h <> rver s.
Lemma dt_stale_rejected s i o :
  dt_stale s (ths s i) ->
  (o = TRead i \/ o = TGetNumber i \/ o = TRemoveRef i \/ exists v, o = TUpdateRef i v) ->
  tstep s o = (s, TRej).
Proof.
  intros (A & B) HO.
  assert (S : tself s (ths s i) = false).
  { unfold tself. rewrite A. destruct (Nat.eqb_spec (tsnap (ths s i)) (rver s)); [congruence|reflexivity]. }
  destruct HO as [E|[E|[E|(v & E)]]]; subst; cbn [tstep]; cbv zeta; rewrite ?A, ?S; reflexivity.
Qed.
(* a row reference of another table is rejected by Remove/Extract/Update of this table; an out-of-range row number or
   selection index is rejected *)
Lemma dt_foreign_rejected s i v :
  ttid (ths s i) <> Some 0%nat -> tstep s (TRemoveRef i) = (s, TRej) /\ tstep s (TUpdateRef i v) = (s, TRej).
Proof. intros A. cbn [tstep]; cbv zeta. destruct (ttid (ths s i)) as [[|n]|]; try congruence; auto. Qed.
Lemma dt_out_of_range_rejected s i slot v :
  (tcount s <= i)%nat ->
  tstep s (TRef i slot) = (s, TRej) /\ tstep s (TRemoveNum i) = (s, TRej) /\ tstep s (TUpdateNum i v) = (s, TRej) /\
  tstep s (TInsert (S i) v) = (s, TRej).
Proof.
  intros H. unfold tcount in H. cbn [tstep]; cbv zeta.
  assert (E : nth_error (rows s) i = None) by (apply nth_error_None; lia). rewrite E.
  repeat split. unfold tcount. destruct (Nat.leb_spec (S i) (length (rows s))); [lia|reflexivity].
Qed.

(* ---------- fresh references ---------- *)
Lemma find_id_In id : forall l, find_id id l <> None <-> In id (map fst l).
Proof.
  induction l as [|(x, v) t IH]; simpl; [tauto|].
  destruct (Nat.eqb_spec x id); subst; [split; [auto|discriminate]|].
  rewrite IH. split; [auto|]. intros [H|H]; [congruence|auto].
Qed.
(* invariant: the raws a current row reference / selection refers to are rows of the table *)
Definition tinv (s : tstate) : Prop :=
  forall i, ttid (ths s i) = Some 0%nat ->
    (tsnap (ths s i) <= rver s)%nat /\
    (tsnap (ths s i) = rver s -> forall id, In id (tids (ths s i)) -> In id (map fst (rows s))).

(* rows disappear only together with a bump of removeVersion *)
Lemma dt_rows_persist s o id :
  rver (fst (tstep s o)) = rver s -> In id (map fst (rows s)) -> In id (map fst (rows (fst (tstep s o)))).
Proof.
  destruct o; cbn [tstep]; cbv zeta; tdm; cbn [fst rver rows tset tupd]; intros E H; auto; try lia.
  - rewrite map_app, in_app_iff. auto.
  - rewrite <- (firstn_skipn i (rows s)) in H. rewrite map_app, in_app_iff in *. simpl. tauto.
  - unfold set_val. rewrite map_map. apply in_map_iff in H. destruct H as ((x, w) & Hx & Hin). simpl in Hx. subst x.
    apply in_map_iff. exists (id, w). split; auto. simpl. destruct (Nat.eqb_spec id n0); subst; reflexivity.
Qed.

Lemma tinv_step s o : tinv s -> tinv (fst (tstep s o)).
Proof.
  intros I i. set (s' := fst (tstep s o)).
  pose proof (dt_step_monotone s o) as (_ & Mr). fold s' in Mr.
  assert (Hcase : (exists j, ttid (ths s' i) = ttid (ths s j) /\ tsnap (ths s' i) = tsnap (ths s j) /\
                             (forall id, In id (tids (ths s' i)) -> In id (tids (ths s j)))) \/
          (tsnap (ths s' i) = rver s' /\ forall id, In id (tids (ths s' i)) -> In id (map fst (rows s'))) \/
          ttid (ths s' i) <> Some 0%nat).
  { subst s'. destruct o; cbn [tstep]; cbv zeta; tdm; cbn [fst ths tset tupd rver rows];
      try (left; exists i; auto; fail);
      destruct (Nat.eqb i _) eqn:Ei; try (left; exists i; auto; fail).
    - right; left. cbn [tsnap tids tref]. split; [reflexivity|]. intros id [H|[]]; subst.
      apply nth_error_In in Heqo. apply in_map_iff. exists (id, z). auto.
    - right; left. cbn [tsnap tids]. split; [reflexivity|]. auto.
    - right; right. cbn [ttid]. discriminate.
    - left. exists ssel. cbn [ttid tsnap tids]. repeat split; auto. intros id [H|[]]; subst. eapply nth_error_In; eauto. }
  intros Hc.
  destruct Hcase as [(j & E1 & E2 & E3)|[(F1 & F2)|F]]; [| |congruence].
  - rewrite E1 in Hc. destruct (I j Hc) as (A & B). rewrite E2. split; [lia|].
    intros Es id Hid. apply dt_rows_persist; [fold s'; lia|]. apply B; [lia|auto].
  - split; [lia|]. intros _. exact F2.
Qed.
Lemma tinv_run ops : forall s, tinv s -> tinv (trun s ops).
Proof. induction ops as [|o t IH]; intros s I; simpl; auto. apply IH, tinv_step, I. Qed.
Lemma tinv_init : tinv tinit.
Proof. intros i H; discriminate. Qed.

(* for every history: a row reference whose snapshot is current (no row was removed or replaced since it was taken --
   rows may have been added, inserted, items updated) refers to a row of the table and reading it is accepted *)
Lemma dt_fresh_reference_accepted ops i id :
  let s := trun tinit ops in
  ttid (ths s i) = Some 0%nat -> tsnap (ths s i) = rver s -> tids (ths s i) = [id] ->
  exists v, tstep s (TRead i) = (s, TAcc (Some v)) /\ find_id id (rows s) = Some v.
Proof.
  intros s Hc Hs Hi. pose proof (tinv_run ops tinit tinv_init) as I. fold s in I.
  destruct (I i Hc) as (_ & B). specialize (B Hs id). rewrite Hi in B. specialize (B (or_introl eq_refl)).
  apply find_id_In in B. destruct (find_id id (rows s)) as [v|] eqn:E; [|congruence].
  exists v. split; auto. cbn [tstep]; cbv zeta. unfold tself. rewrite Hc, Hs, Nat.eqb_refl, Hi, E. reflexivity.
Qed.

Example dt_witness :
  snd (trun_out tinit [TAddRow 5; TAddRow 6; TAddRow 7; TRef 1 0; TSelect 10; TAddRow 8; TUpdateRef 0 60; TRead 0;
                       TSelRef 10 2 1; TRead 1; TRemoveNum 0; TRead 0; TRead 1; TRef 0 2; TRead 2; TRef 9 3])
  = [TAcc None; TAcc None; TAcc None; TAcc None; TAcc (Some 3); TAcc None; TAcc None; TAcc (Some 60);
     TAcc None; TAcc (Some 7); TAcc None; TRej; TRej; TAcc None; TAcc (Some 60); TRej].
Proof. vm_compute. reflexivity. Qed.
