(* C16 (round 4): Arr_Proofs instantiated with the regenerated sizing functions (sqrt / cnst, every L <= 62, sizes < 2^62) *)
From Coq Require Import ZArith Bool List Lia.
From MomoCommon Require Import GenPrelude.
From C16 Require Gen_SegSqrt Gen_SegCnst Gen_ArrSqrt Gen_ArrCnst SegMath SegSqrt_Proofs SegCnst_Proofs SegModel SegModel_Inst Arr_Proofs.
Local Open Scope Z_scope.
Import SegMath SegModel_Inst.

Lemma maxi_small : maxi <= 2 ^ 62. Proof. unfold maxi. lia. Qed.

Section Sqrt.
Variable L : Z.
Hypothesis HL : 0 <= L <= 62.
Let seg := Gen_SegSqrt.GetSegItemIndexes L.
Let idx := Gen_SegSqrt.GetIndex L.
Let HL64 : 0 <= L < 64. Proof. lia. Qed.
Let R := maxi_in_range L HL.

Lemma q_last : 0 <= maxi - 1 < 2 ^ 64 - 2 ^ L. Proof. unfold maxi in *. lia. Qed.

Lemma q_SC_small : SCq L < 2 ^ 63.
Proof.
  unfold SCq. destruct (SegSqrt_Proofs.seg_small L (maxi - 1) HL64 q_last) as (H0 & H1 & _).
  rewrite SegSqrt_Proofs.gen_seg_of by (try assumption; apply q_last).
  change (2 ^ 64) with (2 * 2 ^ 63) in H1. lia.
Qed.

Lemma q_fit sc : 0 <= sc <= SCq L -> idx_of L sc 0 < 2 ^ 64 - 2 ^ L.
Proof.
  intros Hsc. pose proof q_last as Hm.
  pose proof (SegSqrt_Proofs.item_lt_count L (maxi - 1) HL64 Hm) as Hlast. cbv zeta in Hlast.
  rewrite SegSqrt_Proofs.gen_seg_of in Hlast by assumption.
  destruct Hlast as (Hs0 & Hj & Hcnt & Hk).
  assert (Hfit : idx_of L (SCq L) 0 < 2 ^ 64 - 2 ^ L).
  { unfold SCq. rewrite SegSqrt_Proofs.gen_seg_of by assumption.
    set (s := fst (seg_of L (maxi - 1))) in *. set (j := snd (seg_of L (maxi - 1))) in *.
    rewrite cap_step by lia.
    pose proof (roundtrip L ltac:(lia) (maxi - 1) ltac:(lia)) as Rt. fold s j in Rt.
    rewrite idx_offset in Rt; [|lia|lia|].
    2:{ rewrite <- SegSqrt_Proofs.gen_cnt_of; try lia.
        destruct (SegSqrt_Proofs.seg_small L (maxi - 1) HL64 Hm) as (_ & X & _). exact X. }
    assert (cnt_of L s <= 2 ^ 63) by (unfold cnt_of; apply Z.pow_le_mono_r; lia).
    assert (2 ^ L <= 2 ^ 62) by (apply Z.pow_le_mono_r; lia).
    unfold maxi in *. change (2 ^ 64) with (4 * 2 ^ 62). change (2 ^ 63) with (2 * 2 ^ 62) in *. lia. }
  pose proof (cap_mono L sc (SCq L) ltac:(lia) ltac:(lia)). lia.
Qed.

Lemma q_seg_idx0 sc : 0 <= sc <= SCq L -> idx sc 0 < maxi -> seg (idx sc 0) = (sc, 0).
Proof.
  intros Hsc _. unfold seg, idx. pose proof (q_fit sc Hsc) as Hfit.
  pose proof (cnt_pos L sc ltac:(lia) ltac:(lia)) as Hc.
  rewrite SegSqrt_Proofs.gen_idx_of by (try assumption; lia).
  destruct (roundtrip_rev L ltac:(lia) sc 0 ltac:(lia) ltac:(lia)) as [Rr R0].
  rewrite SegSqrt_Proofs.gen_seg_of by lia. exact Rr.
Qed.


Ltac dq := first [exact (q_nonneg L HL)|exact (q_zero L HL)|exact (q_next L HL)|exact (q_mono L HL)|exact (q_bound L HL)|exact (q_cap_lt L HL)
                 |exact maxi_pos|exact q_SC_small|exact maxi_small|exact q_seg_idx0|eassumption].

Theorem sqrt_Reserve_refines alloc segs n c cap : Arr_Proofs.ginv seg maxi (SCq L) n c -> 0 <= cap < maxi ->
  exists segs' n', Gen_ArrSqrt.Reserve seg idx alloc segs n c cap = Ok (tt, segs', n') /\
    (forall i, i < n -> segs' i = segs i) /\ n <= n' /\
    n' = SegModel.len (SegModel.reserve seg idx (Arr_Proofs.mst n c) cap) /\ Arr_Proofs.ginv seg maxi (SCq L) n' c.
Proof. intros. eapply (Arr_Proofs.Reserve_refines seg idx alloc maxi (SCq L)); dq. Qed.

Theorem sqrt_ShrinkTo_refines segs n c cap : Arr_Proofs.ginv seg maxi (SCq L) n c -> 0 <= cap < maxi -> idx n 0 < maxi ->
  exists n', Gen_ArrSqrt.ShrinkTo seg idx segs n c cap = Ok (tt, n') /\ n' <= n /\
    (exists st', SegModel.step seg idx (Arr_Proofs.mst n c) (SegModel.ShrinkTo cap) = Some st' /\ n' = SegModel.len st') /\
    Arr_Proofs.ginv seg maxi (SCq L) n' c.
Proof. intros. eapply (Arr_Proofs.ShrinkTo_refines seg idx maxi (SCq L)); dq. Qed.

Theorem sqrt_AddBackCrt_refines alloc segs n c : Arr_Proofs.ginv seg maxi (SCq L) n c -> c + 1 < maxi ->
  exists segs' n', Gen_ArrSqrt.AddBackCrt seg alloc segs n c = Ok (tt, segs', n', c + 1) /\
    (forall i, i < n -> segs' i = segs i) /\ (n' = n \/ (n' = n + 1 /\ segs' n = alloc n)) /\ Arr_Proofs.ginv seg maxi (SCq L) n' (c + 1).
Proof. intros. eapply (Arr_Proofs.AddBackCrt_refines seg idx alloc maxi (SCq L)); dq. Qed.

Theorem sqrt_ginv_empty : Arr_Proofs.ginv seg maxi (SCq L) 0 0.
Proof. split; [lia|]. apply (SegModel_Inst.sqrt_inv_empty L HL). Qed.
End Sqrt.

Section Cnst.
Variable L : Z.
Hypothesis HL : 0 <= L <= 62.
Let seg := Gen_SegCnst.GetSegItemIndexes L.
Let idx := Gen_SegCnst.GetIndex L.
Let HL64 : 0 <= L < 64. Proof. lia. Qed.
Let HB : 0 < 2 ^ L. Proof. apply SegMath.pow2_pos; lia. Qed.

Lemma c_SC_small : SCc L < 2 ^ 63.
Proof.
  unfold SCc. assert ((maxi - 1) / 2 ^ L <= maxi - 1) by (apply Z.div_le_upper_bound; [lia|]; unfold maxi; nia).
  unfold maxi in *. change (2 ^ 63) with (2 * 2 ^ 62). lia.
Qed.

Lemma c_seg_idx0 sc : 0 <= sc <= SCc L -> idx sc 0 < maxi -> seg (idx sc 0) = (sc, 0).
Proof.
  intros Hsc _. unfold seg, idx.
  assert (Hq : ((maxi - 1) / 2 ^ L) * 2 ^ L <= maxi - 1).
  { pose proof (Z.div_mod (maxi - 1) (2 ^ L) ltac:(lia)). pose proof (Z.mod_pos_bound (maxi - 1) (2 ^ L) HB). lia. }
  assert (HB62 : 2 ^ L <= 2 ^ 62) by (apply Z.pow_le_mono_r; lia).
  assert (Hfit : sc * 2 ^ L < 2 ^ 64).
  { unfold SCc in Hsc. assert (sc * 2 ^ L <= ((maxi - 1) / 2 ^ L + 1) * 2 ^ L) by nia.
    unfold maxi in *. change (2 ^ 64) with (4 * 2 ^ 62). lia. }
  rewrite SegCnst_Proofs.gen_idx by lia. rewrite SegCnst_Proofs.gen_seg by assumption. rewrite Z.add_0_r.
  rewrite Z.div_mul, Z.mod_mul by lia. reflexivity.
Qed.

Ltac dc := first [exact (c_nonneg L HL)|exact (c_zero L HL)|exact (c_next L HL)|exact (c_mono L HL)|exact (c_bound L HL)|exact (c_cap_lt L HL)
                 |exact maxi_pos|exact c_SC_small|exact maxi_small|exact c_seg_idx0|eassumption].

Theorem cnst_Reserve_refines alloc segs n c cap : Arr_Proofs.ginv seg maxi (SCc L) n c -> 0 <= cap < maxi ->
  exists segs' n', Gen_ArrCnst.Reserve seg idx alloc segs n c cap = Ok (tt, segs', n') /\
    (forall i, i < n -> segs' i = segs i) /\ n <= n' /\
    n' = SegModel.len (SegModel.reserve seg idx (Arr_Proofs.mst n c) cap) /\ Arr_Proofs.ginv seg maxi (SCc L) n' c.
Proof. intros. eapply (Arr_Proofs.Reserve_refines seg idx alloc maxi (SCc L)); dc. Qed.

Theorem cnst_ShrinkTo_refines segs n c cap : Arr_Proofs.ginv seg maxi (SCc L) n c -> 0 <= cap < maxi -> idx n 0 < maxi ->
  exists n', Gen_ArrCnst.ShrinkTo seg idx segs n c cap = Ok (tt, n') /\ n' <= n /\
    (exists st', SegModel.step seg idx (Arr_Proofs.mst n c) (SegModel.ShrinkTo cap) = Some st' /\ n' = SegModel.len st') /\
    Arr_Proofs.ginv seg maxi (SCc L) n' c.
Proof. intros. eapply (Arr_Proofs.ShrinkTo_refines seg idx maxi (SCc L)); dc. Qed.

Theorem cnst_AddBackCrt_refines alloc segs n c : Arr_Proofs.ginv seg maxi (SCc L) n c -> c + 1 < maxi ->
  exists segs' n', Gen_ArrCnst.AddBackCrt seg alloc segs n c = Ok (tt, segs', n', c + 1) /\
    (forall i, i < n -> segs' i = segs i) /\ (n' = n \/ (n' = n + 1 /\ segs' n = alloc n)) /\ Arr_Proofs.ginv seg maxi (SCc L) n' (c + 1).
Proof. intros. eapply (Arr_Proofs.AddBackCrt_refines seg idx alloc maxi (SCc L)); dc. Qed.
End Cnst.
