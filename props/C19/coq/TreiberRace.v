(* C19 -- under the interleaving (SC) semantics no plain access of the free-list protocol to a link word can be
   concurrent with any other access to the same buffer: "two enabled steps of different actors touching the same
   buffer" never involves DLink (the disposer's plain store), ORead (the owner's plain load) or OFree (the pool's
   writes into the deallocated buffer). *)
From Coq Require Import List Arith Bool PeanoNat Lia.
From C19 Require Import Treiber TreiberInv.
Import ListNotations.

Inductive actor := Disposer (t : tid) | Owner | Client.

Definition actor_of (l : label) : actor :=
  match l with
  | DBegin t _ | DLoad t | DLink t | DCas t _ => Disposer t
  | Scribble _ _ => Client
  | _ => Owner
  end.

(* the buffer whose memory (link word = first word, overlapping the items) a label reads or writes non-atomically *)
Definition touches (s : state) (l : label) : option row :=
  match l with
  | DBegin _ r => Some r                                  (* item destructors *)
  | DLink t => match dpcs s t with Loaded r _ => Some r | _ => None end
  | ORead => match own s with ODrain (Some r) => Some r | _ => None end
  | OFree _ => match own s with ONext r _ => Some r | _ => None end
  | OAlloc r _ | OAdd r | OExtract r | ORemove r _ | Scribble r _ => Some r
  | _ => None
  end.

Definition protocol_access (l : label) : bool :=
  match l with DLink _ | ORead | OFree _ => true | _ => false end.

Theorem protocol_accesses_race_free s l1 l2 r :
  reachable s ->
  protocol_access l1 = true ->
  step s l1 <> None -> step s l2 <> None ->
  actor_of l1 <> actor_of l2 ->
  touches s l1 = Some r -> touches s l2 = Some r -> False.
Proof.
  intros R P E1 E2 A T1 T2. pose proof (inv_reachable s R) as I.
  assert (Hdl : forall t r0 h, dpcs s t = Loaded r0 h -> status s r0 = Pending).
  { intros t r0 h Hd. apply (i_held s I t). rewrite Hd; auto. }
  assert (Hdr : forall r0, (own s = ODrain (Some r0) \/ exists n, own s = ONext r0 n) -> status s r0 = Listed).
  { intros r0 Ho. apply (i_listed s I). apply in_or_app; right. pose proof (i_own s I) as O.
    destruct Ho as [Ho|[n Ho]]; rewrite Ho in O.
    - destruct (drain s); simpl in O; [discriminate|]. destruct O as [E _]. inversion E; left; auto.
    - destruct O as [d [-> _]]. left; auto. }
  destruct l1; try discriminate; simpl in T1.
  - (* DLink t *)
    destruct (dpcs s t) eqn:Ep; try discriminate. inversion T1; subst; clear T1.
    pose proof (Hdl _ _ _ Ep) as Hp.
    destruct l2; simpl in T2; try discriminate; unfold step in E2.
    + inversion T2; subst. destruct (dpcs s t0); try congruence. rewrite Hp in E2. congruence.
    + destruct (dpcs s t0) eqn:Ep0; try discriminate. inversion T2; subst.
      apply A. simpl. f_equal. apply (i_inj s I t t0 r); [rewrite Ep|rewrite Ep0]; auto.
    + destruct (own s) as [|[c|]|] eqn:Eo; try discriminate. inversion T2; subst.
      rewrite (Hdr r (or_introl eq_refl)) in Hp. discriminate.
    + destruct (own s) eqn:Eo; try discriminate. inversion T2; subst.
      rewrite (Hdr r (or_intror (ex_intro _ n eq_refl))) in Hp. discriminate.
    + inversion T2; subst. destruct (own s); try congruence. rewrite Hp in E2. congruence.
    + inversion T2; subst. destruct (own s); try congruence. rewrite Hp in E2. congruence.
    + inversion T2; subst. destruct (own s); try congruence. rewrite Hp in E2. congruence.
    + inversion T2; subst. destruct (own s); try congruence. rewrite Hp in E2. congruence.
    + inversion T2; subst. rewrite Hp in E2. simpl in E2. congruence.
  - (* ORead *)
    destruct (own s) as [|[c|]|] eqn:Eo; try discriminate. inversion T1; subst; clear T1.
    pose proof (Hdr r (or_introl eq_refl)) as Hl.
    destruct l2; simpl in T2; try discriminate; simpl in A; try congruence; unfold step in E2.
    + inversion T2; subst. destruct (dpcs s t); try congruence. rewrite Hl in E2. congruence.
    + destruct (dpcs s t) eqn:Ep0; try discriminate. inversion T2; subst.
      rewrite (Hdl _ _ _ Ep0) in Hl. discriminate.
    + inversion T2; subst. rewrite Hl in E2. simpl in E2. congruence.
  - (* OFree *)
    destruct (own s) eqn:Eo; try discriminate. inversion T1; subst; clear T1.
    pose proof (Hdr r (or_intror (ex_intro _ n eq_refl))) as Hl.
    destruct l2; simpl in T2; try discriminate; simpl in A; try congruence; unfold step in E2.
    + inversion T2; subst. destruct (dpcs s t); try congruence. rewrite Hl in E2. congruence.
    + destruct (dpcs s t) eqn:Ep0; try discriminate. inversion T2; subst.
      rewrite (Hdl _ _ _ Ep0) in Hl. discriminate.
    + inversion T2; subst. rewrite Hl in E2. simpl in E2. congruence.
Qed.
