(* C19 -- the owner's program modelled EXACTLY, as a refinement of the over-approximating machine of Treiber.v.

     pvAllocateRaw:   if (freeRaws != nullptr)      XCheck            (an atomic load; b := head <> null)
                          pvDeallocateFreeRaws();     OExchange ... ODone  only after the check said "non-null"
                      return mRawMemPool.Allocate()   OAlloc           only after "null", or after that drain
     pvDestroyRaws:   pvDeallocateFreeRaws();         OExchange ... ODone  unconditionally (Clear, ~DataTable)
     Add / Extract / Remove                           only between those calls

   The check is racy on purpose: it may read null while a disposer is between its load and its CAS.  That row is then
   published AFTER the check and stays on the shared list; the theorems below say it is not lost: a published row makes
   every later check answer "non-null", the allocation that follows such a check cannot complete before the row is
   reclaimed, and neither can any complete drain (Clear / destruction). *)
From Coq Require Import List Arith Bool PeanoNat Lia.
From C19 Require Import Treiber TreiberInv TreiberThms.
Import ListNotations.

Inductive xpc := XIdle | XChecked (b : bool) | XAllocDrain | XAllocReady | XDestroyDrain.

Record xstate := mkX { base : state; xo : xpc }.

Inductive xlabel := XL (l : label) | XCheck.

Definition xinit : xstate := mkX init XIdle.

Definition is_null (a : option row) : bool := match a with None => true | Some _ => false end.

Definition stepx (xs : xstate) (xl : xlabel) : option xstate :=
  match xl with
  | XCheck =>
      match xo xs, own (base xs) with
      | XIdle, OIdle => Some (mkX (base xs) (XChecked (negb (is_null (head (base xs))))))
      | _, _ => None
      end
  | XL l =>
      let go (x' : xpc) := match step (base xs) l with Some s' => Some (mkX s' x') | None => None end in
      match l with
      | OExchange => match xo xs with
                     | XChecked true => go XAllocDrain
                     | XIdle => go XDestroyDrain
                     | _ => None
                     end
      | ODone => match xo xs with
                 | XAllocDrain => go XAllocReady
                 | XDestroyDrain => go XIdle
                 | _ => None
                 end
      | OAlloc _ _ => match xo xs with
                      | XChecked false | XAllocReady => go XIdle
                      | _ => None
                      end
      | OAdd _ | OExtract _ | ORemove _ _ => match xo xs with XIdle => go XIdle | _ => None end
      | _ => go (xo xs)
      end
  end.

Fixpoint runx (xs : xstate) (ls : list xlabel) : option xstate :=
  match ls with
  | [] => Some xs
  | l :: ls' => match stepx xs l with Some xs' => runx xs' ls' | None => None end
  end.

Definition proj (ls : list xlabel) : list label :=
  flat_map (fun xl => match xl with XL l => [l] | XCheck => [] end) ls.

Lemma stepx_refines xs xl xs' :
  stepx xs xl = Some xs' ->
  match xl with XCheck => base xs' = base xs | XL l => step (base xs) l = Some (base xs') end.
Proof.
  unfold stepx. destruct xl as [l|].
  - destruct l; repeat match goal with
      | |- match ?x with _ => _ end = _ -> _ => destruct x eqn:?; try discriminate
      end; intros H; inversion H; subst; simpl; auto.
  - destruct (xo xs); try discriminate. destruct (own (base xs)); try discriminate.
    intros H; inversion H; subst; auto.
Qed.

Lemma runx_refines ls : forall xs xs', runx xs ls = Some xs' -> run (base xs) (proj ls) = Some (base xs').
Proof.
  induction ls as [|xl ls IH]; simpl; intros xs xs' H.
  - inversion H; auto.
  - destruct (stepx xs xl) as [xs1|] eqn:E; try discriminate.
    pose proof (stepx_refines _ _ _ E) as R. destruct xl; simpl.
    + rewrite R. eauto.
    + rewrite <- R. eauto.
Qed.

Definition reachable_x (xs : xstate) : Prop := exists ls, runx xinit ls = Some xs.

(* every state of the exact machine is a state of the over-approximation: all theorems of TreiberThms apply *)
Theorem exact_refines xs : reachable_x xs -> reachable (base xs) /\ inv (base xs).
Proof.
  intros [ls H]. apply runx_refines in H. simpl in H.
  assert (R : reachable (base xs)) by (exists (proj ls); auto). split; auto. apply inv_reachable; auto.
Qed.

(* a published row is never missed by the check *)
Theorem check_never_misses_published xs xs' r :
  inv (base xs) -> In r (shared (base xs)) -> stepx xs XCheck = Some xs' -> xo xs' = XChecked true.
Proof.
  intros I Hin. unfold stepx. destruct (xo xs); try discriminate. destruct (own (base xs)); try discriminate.
  intros H; inversion H; subst; simpl. pose proof (i_chain _ I) as C.
  destruct (shared (base xs)); [contradiction|]. simpl in C. destruct C as [-> _]. reflexivity.
Qed.

(* ------------------------------------------------------------------ base-machine facts about one row *)
Ltac step_cases Hs :=
  unfold step in Hs;
  repeat match type of Hs with
  | match ?x with _ => _ end = _ => let E := fresh "E" in destruct x eqn:E; try discriminate
  | (if ?x then _ else _) = _ => let E := fresh "E" in destruct x eqn:E; try discriminate
  end; inversion Hs; subst; clear Hs; simpl in *.

Lemma shared_step s l s' r :
  step s l = Some s' -> In r (shared s) -> (l <> OExchange /\ In r (shared s')) \/ (l = OExchange /\ In r (drain s')).
Proof.
  intros Hs Hin. destruct l; step_cases Hs; try (left; split; [discriminate|auto]; fail).
  right; auto.
Qed.

Lemma drain_step s l s' r :
  inv s -> step s l = Some s' -> In r (drain s) ->
  In r (drain s') \/ (exists g, l = OFree g /\ In (r, gen s r) (reclaimed s')).
Proof.
  intros I Hs Hin. pose proof (i_own s I) as O.
  destruct l; step_cases Hs; auto.
  - rewrite O in Hin. contradiction.
  - destruct O as [d [Ed _]]. rewrite Ed in *. simpl. destruct Hin as [->|Hin]; auto. right. eexists; split; eauto.
Qed.

Lemma reclaimed_step s l s' x : step s l = Some s' -> In x (reclaimed s) -> In x (reclaimed s').
Proof. intros Hs Hin. destruct l; step_cases Hs; auto. Qed.

Lemma gen_step_listed s l s' r : inv s -> step s l = Some s' -> status s r = Listed -> gen s' r = gen s r.
Proof.
  intros I Hs Hl. destruct l; step_cases Hs; auto.
  destruct (Nat.eq_dec r r0); [subst; congruence|]. apply upd_neq; auto.
Qed.

Definition completes (xl : xlabel) : bool :=
  match xl with XL (OAlloc _ _) | XL ODone => true | _ => false end.

Lemma step_keeps_own s l s' : step s l = Some s' ->
  match l with OExchange | ORead | OFree _ | ODone => True | _ => own s' = own s end.
Proof. intros Hs. destruct l; auto; step_cases Hs; auto. Qed.

Local Arguments step : simpl never.

Lemma stepx_idle_other xs l xs' :
  stepx xs (XL l) = Some xs' -> own (base xs) = OIdle -> (xo xs = XIdle \/ xo xs = XChecked true) -> l <> OExchange ->
  own (base xs') = OIdle /\ xo xs' = xo xs /\ completes (XL l) = false.
Proof.
  intros Hx Ho Hxo Ne. unfold stepx in Hx.
  destruct l; try congruence; destruct Hxo as [E0|E0]; rewrite ?E0 in Hx; simpl in Hx; try discriminate;
    (destruct (step (base xs) _) eqn:E; [|discriminate]); inversion Hx; subst; simpl;
    first [ exfalso; unfold step in E; rewrite Ho in E; discriminate
          | pose proof (step_keeps_own _ _ _ E) as K; simpl in K; rewrite K; auto ].
Qed.

(* ------------------------------------------------------------------ a published row and the next allocation / complete drain *)
Definition ph (r : row) (g : nat) (xs : xstate) : Prop :=
  In (r, g) (reclaimed (base xs))
  \/ (gen (base xs) r = g /\ In r (shared (base xs)) /\ own (base xs) = OIdle /\ (xo xs = XIdle \/ xo xs = XChecked true))
  \/ (gen (base xs) r = g /\ In r (drain (base xs)) /\ (xo xs = XAllocDrain \/ xo xs = XDestroyDrain)).

Lemma ph_step r g xs xl xs' :
  inv (base xs) -> ph r g xs -> stepx xs xl = Some xs' ->
  ph r g xs' /\ (completes xl = true -> In (r, g) (reclaimed (base xs'))).
Proof.
  intros I P Hx. pose proof (stepx_refines _ _ _ Hx) as R.
  destruct P as [D|[[G [Hs [Ho Hxo]]]|[G [Hd Hxo]]]].
  - (* already reclaimed *)
    assert (D' : In (r, g) (reclaimed (base xs'))).
    { destruct xl; [eapply reclaimed_step; eauto|rewrite R; auto]. }
    split; [left; auto|auto].
  - (* on the shared list, owner idle *)
    assert (Hl : status (base xs) r = Listed) by (apply (i_listed _ I); apply in_or_app; auto).
    destruct xl as [l|].
    + pose proof (gen_step_listed _ _ _ r I R Hl) as G'.
      destruct (shared_step _ _ _ r R Hs) as [[Ne Hs']|[-> Hd']].
      * pose proof (stepx_idle_other _ _ _ Hx Ho Hxo Ne) as Ho'.
        destruct Ho' as [Ho' [Exo Ec]]. split; [|rewrite Ec; discriminate].
        right; left. rewrite G', Exo. auto.
      * (* OExchange: the row moves to the owner's chain *)
        split; [|discriminate]. right; right. rewrite G'. split; auto. split; auto.
        unfold stepx in Hx. destruct Hxo as [E0|E0]; rewrite E0 in Hx;
          destruct (step (base xs) OExchange); try discriminate; inversion Hx; subst; simpl; auto.
    + (* XCheck: answers non-null *)
      split; [|discriminate]. right; left. rewrite R. repeat split; auto.
      right. eapply check_never_misses_published; eauto.
  - (* on the owner's chain *)
    assert (Hl : status (base xs) r = Listed) by (apply (i_listed _ I); apply in_or_app; auto).
    destruct xl as [l|].
    + pose proof (gen_step_listed _ _ _ r I R Hl) as G'.
      assert (NI : own (base xs) <> OIdle).
      { intro E. pose proof (i_own _ I) as O. rewrite E in O. rewrite O in Hd. contradiction. }
      assert (ND : l <> ODone).
      { intro; subst. unfold step in R. pose proof (i_own _ I) as O.
        destruct (own (base xs)) as [|[c|]|]; try discriminate.
        destruct (drain (base xs)); [contradiction|]. simpl in O. destruct O; discriminate. }
      assert (NA : forall r0 g0, l <> OAlloc r0 g0).
      { intros r0 g0 ->. unfold stepx in Hx. destruct Hxo as [E0|E0]; rewrite E0 in Hx; discriminate. }
      assert (Exo : xo xs' = xo xs).
      { unfold stepx in Hx. destruct l; try congruence;
          try (destruct (step (base xs) _); [|discriminate]; inversion Hx; subst; reflexivity);
          try (destruct Hxo as [E0|E0]; rewrite E0 in Hx; discriminate). }
      destruct (drain_step _ _ _ r I R Hd) as [Hd'|[g0 [-> Hr]]].
      * split.
        -- right; right. rewrite G', Exo. auto.
        -- destruct l; simpl; try discriminate; [congruence|intros _; exfalso; eapply NA; eauto].
      * split; [left; rewrite <- G; auto|discriminate].
    + unfold stepx in Hx. destruct Hxo as [E0|E0]; rewrite E0 in Hx; discriminate.
Qed.

Lemma reclaimed_runx ls : forall xs xs' x, runx xs ls = Some xs' -> In x (reclaimed (base xs)) -> In x (reclaimed (base xs')).
Proof.
  induction ls as [|xl ls IH]; simpl; intros xs xs' x H Hin; [inversion H; subst; auto|].
  destruct (stepx xs xl) as [xs1|] eqn:E; try discriminate. eapply IH; eauto.
  pose proof (stepx_refines _ _ _ E) as R. destruct xl; [eapply reclaimed_step; eauto|rewrite R; auto].
Qed.

Lemma ph_run ls : forall xs xs' r g,
  inv (base xs) -> ph r g xs -> runx xs ls = Some xs' -> existsb completes ls = true ->
  In (r, g) (reclaimed (base xs')).
Proof.
  induction ls as [|xl ls IH]; simpl; intros xs xs' r g I P H Hc; [discriminate|].
  destruct (stepx xs xl) as [xs1|] eqn:E; try discriminate.
  destruct (ph_step _ _ _ _ _ I P E) as [P1 C1].
  assert (I1 : inv (base xs1)).
  { pose proof (stepx_refines _ _ _ E) as R. destruct xl; [eapply inv_step; eauto|rewrite R; auto]. }
  destruct (completes xl) eqn:Ec.
  - eapply reclaimed_runx; eauto.
  - simpl in Hc. eapply IH; eauto.
Qed.

(* The row r is on the shared list and the owner is between operations.  Whatever happens next, in particular even
   if a previous check missed r: the next allocation (OAlloc) and the next complete drain (ODone: the drain of that
   allocation, of Clear, or of the table destructor) cannot happen before r has been reclaimed. *)
Theorem published_row_reclaimed_by_next_alloc_or_drain ls xs xs' r :
  reachable_x xs -> xo xs = XIdle -> own (base xs) = OIdle -> In r (shared (base xs)) ->
  runx xs ls = Some xs' -> existsb completes ls = true ->
  In (r, gen (base xs) r) (reclaimed (base xs')).
Proof.
  intros R X O Hin H Hc. destruct (exact_refines _ R) as [_ I].
  eapply ph_run; eauto. right; left; auto.
Qed.

(* the racy miss, concretely: the check reads null while disposer 1 is between its load and its CAS; NewRow allocates
   without draining; the row is published afterwards, stays on the list, and is reclaimed by the next NewRow, whose
   check answers non-null *)
Definition sched_miss : list xlabel :=
  [ XCheck; XL (OAlloc 0 None); XCheck; XL (OAlloc 1 None);
    XL (DBegin 1 0); XL (DLoad 1);
    XCheck;                                   (* reads null: misses row 0 *)
    XL (DLink 1); XL (DCas 1 false);          (* row 0 is published after the check *)
    XL (OAlloc 2 None) ].                     (* NewRow completes without a drain *)

Definition sched_miss_next : list xlabel :=
  [ XCheck; XL OExchange; XL ORead; XL (OFree None); XL ODone; XL (OAlloc 0 None) ].

Theorem racy_miss_is_harmless_example :
  (exists xs, runx xinit sched_miss = Some xs /\ xo xs = XIdle /\ shared (base xs) = [0] /\
              reclaimed (base xs) = [] /\ status (base xs) 2 = Detached) /\
  (exists xs, runx xinit (sched_miss ++ sched_miss_next) = Some xs /\ shared (base xs) = [] /\
              reclaimed (base xs) = [(0, 1)] /\ gen (base xs) 0 = 2) /\
  (* after the missed push the owner cannot allocate without draining: the check no longer answers null *)
  runx xinit (sched_miss ++ [XCheck; XL (OAlloc 0 None)]) = None.
Proof.
  split; [|split].
  - eexists; split; [vm_compute; reflexivity|]. vm_compute. repeat split.
  - eexists; split; [vm_compute; reflexivity|]. vm_compute. repeat split.
  - vm_compute. reflexivity.
Qed.
