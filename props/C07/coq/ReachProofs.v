(* C07 / L1 -> L0, part 3: the consistency relation is preserved by the whole two-phase operations of
   DataIndexes on the full index state, for every failure step, entry order and visibility relation;
   hence every reachable index state is consistent with the table rows and every query through an index
   equals the brute-force filter over the current rows. *)
From Coq Require Import List ZArith Lia Bool Arith PeanoNat Permutation.
From C07 Require Import TableSpec TableProofs MultiHash MultiHashProofs SegProofs IndexModel IndexProofs AtomicProofs RefineProofs ConsProofs.
Import ListNotations.

(* ================================================================ position tags stay below the counter *)

Definition utags (u : uhash) : list nat := map etag (uents u).
Definition mtags (m : mhash) : list nat := map gtag (mgroups m).
Definition tags_ok (s : istate) : Prop :=
  Forall (fun u => Forall (fun t => t < ntag s) (utags u)) (uhs s) /\
  Forall (fun m => Forall (fun t => t < ntag s) (mtags m)) (mhs s).

Lemma incl_filter_map {A B} (f : A -> B) p l : incl (map f (filter p l)) (map f l).
Proof. intros x Hx. apply in_map_iff in Hx as (y & <- & Hy). apply filter_In in Hy as [Hy _]. apply in_map. exact Hy. Qed.

Lemma incl_place {A B} (f : A -> B) ord t x l : incl (map f (place ord t x l)) (f x :: map f l).
Proof.
  intros y Hy. apply in_map_iff in Hy as (z & <- & Hz). apply (Permutation_in _ (place_perm ord t x l)) in Hz.
  destruct Hz as [<-|Hz]; [left; reflexivity|right; apply in_map; exact Hz].
Qed.

Lemma Forall_lt_incl n n' (l l' : list nat) t :
  Forall (fun x => x < n) l -> incl l' (t :: l) -> t < n' -> n <= n' -> Forall (fun x => x < n') l'.
Proof.
  intros H Hi Ht Hn. rewrite Forall_forall in *. intros x Hx. apply Hi in Hx. destruct Hx as [<-|Hx]; [exact Ht|].
  specialize (H x Hx). lia.
Qed.

Lemma utags_u_add ord R ct u raw old t : incl (utags (fst (u_add ord R ct u raw old t))) (t :: utags u).
Proof.
  unfold u_add. destruct (u_find R ct u _) as [e|]; cbn [fst].
  - destruct (match old with Some o => Z.eqb (eraw e) o | None => false end); intros x Hx; right; exact Hx.
  - unfold utags. cbn [uents]. apply (incl_place etag ord t (mkE t raw _) (uents u)).
Qed.

Lemma utags_u_add_mixed ord R ct u raw c v t : incl (utags (fst (u_add_mixed ord R ct u raw c v t))) (t :: utags u).
Proof.
  unfold u_add_mixed. destruct (u_find R ct u _) as [e|]; cbn [fst].
  - intros x Hx; right; exact Hx.
  - unfold utags. cbn [uents]. apply (incl_place etag ord t (mkE t raw _) (uents u)).
Qed.

Lemma utags_prepare fixu R ct u raw : utags (u_prepare_remove fixu R ct u raw) = utags u.
Proof. unfold utags. destruct (u_prepare_remove_keeps fixu R ct u raw) as (E & _). rewrite E. reflexivity. Qed.

Lemma utags_accept_remove u : incl (utags (u_accept_remove u)) (utags u).
Proof. unfold u_accept_remove, utags. destruct (uprem u); [cbn [uents]; apply incl_filter_map|apply incl_refl]. Qed.

Lemma utags_accept_add u : utags (u_accept_add u) = utags u.
Proof. reflexivity. Qed.

Lemma mtags_update t f gs : (forall g, gtag (f g) = gtag g) -> map gtag (m_update_group t f gs) = map gtag gs.
Proof. apply update_group_tags. Qed.

Lemma mtags_m_add ord R ct m raw t : incl (mtags (m_add ord R ct m raw t)) (t :: mtags m).
Proof.
  unfold m_add, mtags. destruct (m_find R ct m _) as [g|]; cbn [mgroups].
  - destruct (Z.eqb (gkey g) raw); [intros x Hx; right; exact Hx|]. rewrite mtags_update by reflexivity. intros x Hx; right; exact Hx.
  - apply (incl_place gtag ord t (mkG t raw _ []) (mgroups m)).
Qed.

Lemma mtags_m_add_mixed ord R ct m raw c v t : incl (mtags (m_add_mixed ord R ct m raw c v t)) (t :: mtags m).
Proof.
  unfold m_add_mixed, mtags. destruct (m_find R ct m _) as [g|]; cbn [mgroups].
  - rewrite mtags_update by reflexivity. intros x Hx; right; exact Hx.
  - apply (incl_place gtag ord t (mkG t raw _ []) (mgroups m)).
Qed.

Lemma mtags_prepare fixm R ct m raw : mtags (m_prepare_remove fixm R ct m raw) = mtags m.
Proof. unfold mtags. destruct (m_prepare_remove_keeps fixm R ct m raw) as (E & _). rewrite E. reflexivity. Qed.

Lemma mtags_accept_add m : mtags (m_accept_add m) = mtags m.
Proof. reflexivity. Qed.

Lemma mtags_accept_remove m raw : incl (mtags (m_accept_remove m raw)) (mtags m).
Proof.
  unfold m_accept_remove, mtags. destruct (mprem m) as [t|]; [|apply incl_refl].
  destruct (m_get_group t (mgroups m)) as [g|]; cbn [mgroups]; [|apply incl_refl].
  destruct (gvals g); [apply incl_filter_map|].
  destruct (Z.eqb (gkey g) raw); [rewrite mtags_update by reflexivity; apply incl_refl|].
  destruct (accept_remove raw _); [rewrite mtags_update by reflexivity|]; apply incl_refl.
Qed.

(* ================================================================ good states *)

Definition small (s : istate) : Prop := Forall (fun m => forall g, In g (mgroups m) -> length (gvals g) < max_vals) (mhs s).
Definition good (ct : Z -> row) (rs : list Z) (s : istate) : Prop := consistent ct rs s /\ tags_ok s /\ NoDup rs.

Lemma group_len_le_rows ct rs m g : m_cons ct rs m -> In g (mgroups m) -> length (gvals g) < length rs.
Proof.
  intros [_ Hp] Hg. rewrite <- (Permutation_length Hp). destruct (in_split _ _ Hg) as (a & b & ->).
  rewrite allrows_mid, !app_length. unfold rows_of. simpl. lia.
Qed.

Lemma good_small ct rs s : good ct rs s -> length rs <= max_vals -> small s.
Proof.
  intros [[_ Hm] _] Hl. unfold small. rewrite Forall_forall in *. intros m Hin g Hg.
  pose proof (group_len_le_rows ct rs m g (Hm m Hin) Hg). lia.
Qed.

Lemma good_wf ct rs s : good ct rs s -> wf s.
Proof.
  intros [[Hu Hm] [[Htu Htm] _]]. constructor; rewrite Forall_forall in *.
  - intros u Hin. destruct (Hu u Hin) as [(Ha & Hr & _) _]. split; [split; assumption|].
    unfold utags_lt. specialize (Htu u Hin). unfold utags in Htu. rewrite Forall_forall in *. intros e He. apply Htu. apply in_map. exact He.
  - intros m Hin. destruct (Hm m Hin) as [Hi _]. split; [exact (mi_clean ct m Hi)|]. split; [|exact (mi_tags ct m Hi)].
    specialize (Htm m Hin). unfold mtags in Htm. rewrite Forall_forall in *. intros g Hg. apply Htm. apply in_map. exact Hg.
Qed.

Lemma fresh_u n u t : Forall (fun x => x < n) (utags u) -> n <= t -> ~ In t (map etag (uents u)).
Proof. intros H Hn Hin. rewrite Forall_forall in H. specialize (H t Hin). lia. Qed.
Lemma fresh_m n m t : Forall (fun x => x < n) (mtags m) -> n <= t -> ~ In t (map gtag (mgroups m)).
Proof. intros H Hn Hin. rewrite Forall_forall in H. specialize (H t Hin). lia. Qed.

(* ================================================================ the shape of a try phase *)

Lemma Forall2_refl_l {A} (Q : A -> A -> Prop) l : (forall a, Q a a) -> Forall2 Q l l.
Proof. intros H. induction l; constructor; auto. Qed.

Lemma Forall2_impl {A B} (P Q : A -> B -> Prop) l l' : (forall a b, P a b -> Q a b) -> Forall2 P l l' -> Forall2 Q l l'.
Proof. intros H. induction 1; constructor; auto. Qed.


Lemma u_phase_shape f bad applies fl : forall hs j step tag,
  let r := u_phase f bad applies fl hs j step tag in
  Forall2 (fun u u' => u' = u \/ exists t, tag + j <= t < tag + j + length hs /\ u' = fst (f u t)) hs (fst (fst r)) /\
  (snd (fst r) = None ->
   Forall2 (fun u u' => (applies u = false /\ u' = u) \/
                        (applies u = true /\ exists t, tag + j <= t < tag + j + length hs /\ u' = fst (f u t) /\ bad (snd (f u t)) = false))
           hs (fst (fst r))).
Proof.
  induction hs as [|u hs IH]; intros j step tag; cbn [u_phase]; [split; [constructor|intros _; constructor]|].
  destruct (negb (applies u)) eqn:Ea.
  - specialize (IH (S j) step tag). destruct (u_phase f bad applies fl hs (S j) step tag) as [[hs2 v2] s2]. cbn [fst snd] in *.
    destruct IH as [IH1 IH2]. split.
    + constructor; [left; reflexivity|]. eapply Forall2_impl; [|exact IH1]. intros a b [E|(t & Ht & E)]; [left; exact E|right; exists t; split; [simpl; lia|exact E]].
    + intros Hv. constructor; [left; split; [apply negb_true_iff; exact Ea|reflexivity]|]. eapply Forall2_impl; [|exact (IH2 Hv)].
      intros a b [E|(E1 & t & Ht & E)]; [left; exact E|right; split; [exact E1|exists t; split; [simpl; lia|exact E]]].
  - destruct (hits fl step); cbn [fst snd].
    + split; [|discriminate]. constructor; [left; reflexivity|]. apply Forall2_refl_l; intros; left; reflexivity.
    + destruct (f u (tag + j)) as [u' r] eqn:Ef. destruct (bad r) eqn:Eb; cbn [fst snd].
      * split; [|discriminate]. constructor; [right; exists (tag + j); split; [simpl; lia|rewrite Ef; reflexivity]|]. apply Forall2_refl_l; intros; left; reflexivity.
      * specialize (IH (S j) (S step) tag). destruct (u_phase f bad applies fl hs (S j) (S step) tag) as [[hs2 v2] s2]. cbn [fst snd] in *.
        destruct IH as [IH1 IH2]. split.
        -- constructor; [right; exists (tag + j); split; [simpl; lia|rewrite Ef; reflexivity]|].
           eapply Forall2_impl; [|exact IH1]. intros a b [E|(t & Ht & E)]; [left; exact E|right; exists t; split; [simpl; lia|exact E]].
        -- intros Hv. constructor.
           ++ right. split; [apply negb_false_iff; exact Ea|]. exists (tag + j). split; [simpl; lia|]. rewrite Ef. split; [reflexivity|exact Eb].
           ++ eapply Forall2_impl; [|exact (IH2 Hv)].
              intros a b [E|(E1 & t & Ht & E)]; [left; exact E|right; split; [exact E1|exists t; split; [simpl; lia|exact E]]].
Qed.

Lemma m_phase_shape f applies fl : forall ms j step tag,
  let r := m_phase f applies fl ms j step tag in
  Forall2 (fun m m' => m' = m \/ exists t, tag + j <= t < tag + j + length ms /\ m' = f m t) ms (fst (fst r)) /\
  (snd (fst r) = None ->
   Forall2 (fun m m' => (applies m = false /\ m' = m) \/
                        (applies m = true /\ exists t, tag + j <= t < tag + j + length ms /\ m' = f m t)) ms (fst (fst r))).
Proof.
  induction ms as [|m ms IH]; intros j step tag; cbn [m_phase]; [split; [constructor|intros _; constructor]|].
  destruct (negb (applies m)) eqn:Ea.
  - specialize (IH (S j) step tag). destruct (m_phase f applies fl ms (S j) step tag) as [[ms2 v2] s2]. cbn [fst snd] in *.
    destruct IH as [IH1 IH2]. split.
    + constructor; [left; reflexivity|]. eapply Forall2_impl; [|exact IH1]. intros a b [E|(t & Ht & E)]; [left; exact E|right; exists t; split; [simpl; lia|exact E]].
    + intros Hv. constructor; [left; split; [apply negb_true_iff; exact Ea|reflexivity]|]. eapply Forall2_impl; [|exact (IH2 Hv)].
      intros a b [E|(E1 & t & Ht & E)]; [left; exact E|right; split; [exact E1|exists t; split; [simpl; lia|exact E]]].
  - destruct (hits fl step); cbn [fst snd].
    + split; [|discriminate]. constructor; [left; reflexivity|]. apply Forall2_refl_l; intros; left; reflexivity.
    + specialize (IH (S j) (S step) tag). destruct (m_phase f applies fl ms (S j) (S step) tag) as [[ms2 v2] s2]. cbn [fst snd] in *.
      destruct IH as [IH1 IH2]. split.
      * constructor; [right; exists (tag + j); split; [simpl; lia|reflexivity]|].
        eapply Forall2_impl; [|exact IH1]. intros a b [E|(t & Ht & E)]; [left; exact E|right; exists t; split; [simpl; lia|exact E]].
      * intros Hv. constructor.
        -- right. split; [apply negb_false_iff; exact Ea|]. exists (tag + j). split; [simpl; lia|reflexivity].
        -- eapply Forall2_impl; [|exact (IH2 Hv)].
           intros a b [E|(E1 & t & Ht & E)]; [left; exact E|right; split; [exact E1|exists t; split; [simpl; lia|exact E]]].
Qed.

Lemma Forall2_Forall_map {A} (P : A -> Prop) (Q : A -> A -> Prop) (h : A -> A) (P' : A -> Prop) l l' :
  Forall P l -> Forall2 Q l l' -> (forall a b, P a -> Q a b -> P' (h b)) -> Forall P' (map h l').
Proof.
  intros HP HQ H. induction HQ; simpl; [constructor|]. inversion HP; subst. constructor; [eapply H; eassumption|apply IHHQ; assumption].
Qed.

Lemma mtags_reject_add m : incl (mtags (m_reject_add m)) (mtags m).
Proof.
  unfold m_reject_add, mtags. destruct (mpadd m) as [t|]; [|apply incl_refl].
  destruct (m_get_group t (mgroups m)) as [g|]; cbn [mgroups]; [|apply incl_refl].
  destruct (gvals g); [apply incl_filter_map|rewrite mtags_update by reflexivity; apply incl_refl].
Qed.

Lemma u_clean_reject_add u : uclean u -> u_reject_add u = u.
Proof. intros [Ha _]. unfold u_reject_add. rewrite Ha. reflexivity. Qed.
Lemma m_clean_reject_add m : mclean m -> m_reject_add m = m.
Proof. intros [Ha _]. unfold m_reject_add. rewrite Ha. reflexivity. Qed.

Lemma u_cons_clean ct rs u : u_cons ct rs u -> uclean u.
Proof. intros [(Ha & Hr & _) _]. split; assumption. Qed.
Lemma m_cons_clean ct rs m : m_cons ct rs m -> mclean m.
Proof. intros [Hi _]. exact (mi_clean ct m Hi). Qed.

Lemma Forall_lt_mono n n' (l : list nat) : Forall (fun x => x < n) l -> n <= n' -> Forall (fun x => x < n') l.
Proof. intros H Hn. rewrite Forall_forall in *. intros x Hx. specialize (H x Hx). lia. Qed.

Lemma utags_lt_of n u : Forall (fun x => x < n) (utags u) -> utags_lt n u.
Proof. unfold utags_lt, utags. intros H. rewrite Forall_forall in *. intros e He. apply H. apply in_map. exact He. Qed.

(* ================================================================ AddRaw on the whole index state *)

Theorem add_raw_good ord R ct fl rs s raw :
  (forall k, R k k = true) -> good ct rs s -> ~ In raw rs -> length rs < max_vals ->
  let '(s', o) := add_raw ord R ct fl s raw in
  (o = Accepted /\ good ct (rs ++ [raw]) s') \/ (o <> Accepted /\ good ct rs s').
Proof.
  intros HR Hg Hraw Hlen. pose proof (good_small ct rs s Hg ltac:(lia)) as Hsm.
  destruct Hg as [[Hu Hm] [[Htu Htm] Hnd]]. unfold add_raw.
  set (n := ntag s) in *.
  set (fu := fun u t => u_add ord R ct u raw None t). set (badu := fun r => negb (Z.eqb r raw)).
  set (fm := fun m t => m_add ord R ct m raw t).
  pose proof (u_phase_shape fu badu (fun _ => true) fl (uhs s) 0 0 n) as [SU1 SU2].
  pose proof (u_phase_not_accepted fu badu (fun _ => true) fl (uhs s) 0 0 n) as HUa.
  destruct (u_phase fu badu (fun _ => true) fl (uhs s) 0 0 n) as [[us1 v1] st1]. cbn [fst snd] in *.
  assert (HPu : Forall (fun u => u_cons ct rs u /\ Forall (fun x => x < n) (utags u)) (uhs s)).
  { apply Forall_forall. intros u Hin. split; [exact (proj1 (Forall_forall _ _) Hu u Hin)|exact (proj1 (Forall_forall _ _) Htu u Hin)]. }
  assert (HPm : Forall (fun m => m_cons ct rs m /\ Forall (fun x => x < n) (mtags m) /\ (forall g, In g (mgroups m) -> length (gvals g) < max_vals)) (mhs s)).
  { apply Forall_forall. intros m Hin. split; [exact (proj1 (Forall_forall _ _) Hm m Hin)|].
    split; [exact (proj1 (Forall_forall _ _) Htm m Hin)|exact (proj1 (Forall_forall _ _) Hsm m Hin)]. }
  (* rejected unique hashes are exactly what they were *)
  assert (HUrej : Forall (fun u => u_cons ct rs u /\ Forall (fun x => x < n + tags_used s) (utags u)) (map u_reject_add us1)).
  { eapply Forall2_Forall_map; [exact HPu|exact SU1|]. intros a b [Hc Ht] [->|(t & Hrange & ->)].
    - rewrite (u_clean_reject_add a (u_cons_clean ct rs a Hc)). split; [exact Hc|eapply Forall_lt_mono; [exact Ht|lia]].
    - unfold fu. rewrite (u_add_reject ord R ct a raw t n (u_cons_clean ct rs a Hc) (utags_lt_of n a Ht) ltac:(lia)).
      split; [exact Hc|eapply Forall_lt_mono; [exact Ht|lia]]. }
  assert (Hsplit : forall (us : list uhash) (ms : list mhash) rs0,
            Forall (fun u => u_cons ct rs0 u /\ Forall (fun x => x < n + tags_used s) (utags u)) us ->
            Forall (fun m => m_cons ct rs0 m /\ Forall (fun x => x < n + tags_used s) (mtags m)) ms ->
            NoDup rs0 -> good ct rs0 (mkI us ms (n + tags_used s))).
  { intros us ms rs0 H1 H2 H3. unfold good, consistent, tags_ok. cbn [uhs mhs ntag].
    split; [split|split; [split|exact H3]].
    - eapply Forall_impl; [|exact H1]. intros a [H _]; exact H.
    - eapply Forall_impl; [|exact H2]. intros a [H _]; exact H.
    - eapply Forall_impl; [|exact H1]. intros a [_ H]; exact H.
    - eapply Forall_impl; [|exact H2]. intros a [_ H]; exact H. }
  destruct v1 as [o|].
  - right. unfold finish. cbn [fst snd]. split; [congruence|]. apply Hsplit; [exact HUrej| |exact Hnd].
    rewrite (map_id_clean m_reject_add mclean); [|apply m_clean_reject_add|].
    + eapply Forall_impl; [|exact HPm]. intros m (Hc & Ht & _). split; [exact Hc|eapply Forall_lt_mono; [exact Ht|lia]].
    + eapply Forall_impl; [|exact HPm]. intros m (Hc & _). exact (m_cons_clean ct rs m Hc).
  - pose proof (m_phase_shape fm (fun _ => true) fl (mhs s) 0 st1 (n + length (uhs s))) as [SM1 SM2].
    pose proof (m_phase_verdict fm (fun _ => true) fl (mhs s) 0 st1 (n + length (uhs s))) as HMv.
    destruct (m_phase fm (fun _ => true) fl (mhs s) 0 st1 (n + length (uhs s))) as [[ms1 v2] st2]. cbn [fst snd] in *.
    destruct HMv as [-> | ->].
    + (* accepted *)
      left. unfold finish. split; [reflexivity|]. apply Hsplit.
      * eapply Forall2_Forall_map; [exact HPu|exact (SU2 eq_refl)|]. intros a b [Hc Ht] [[E _]|(_ & t & Hrange & -> & Hb)]; [discriminate|].
        pose proof (u_add_preserves_cons ord R ct rs a raw t HR Hc (fresh_u n a t Ht ltac:(lia)) Hraw) as H.
        unfold fu, badu in *. destruct (u_add ord R ct a raw None t) as [u1 r] eqn:Ea. cbn [fst snd] in *.
        apply negb_false_iff in Hb. rewrite Hb in H. split; [exact H|].
        rewrite utags_accept_add. eapply Forall_lt_incl; [exact Ht| |instantiate (1 := t); unfold tags_used; lia|lia].
        pose proof (utags_u_add ord R ct a raw None t) as Hi. rewrite Ea in Hi. exact Hi.
      * eapply Forall2_Forall_map; [exact HPm|exact (SM2 eq_refl)|]. intros a b (Hc & Ht & Hs1) [[E _]|(_ & t & Hrange & ->)]; [discriminate|].
        split; [apply (m_add_preserves_cons ord R ct rs a raw t HR Hc (fresh_m n a t Ht ltac:(lia)) Hraw Hs1)|].
        rewrite mtags_accept_add. eapply Forall_lt_incl; [exact Ht|apply mtags_m_add|unfold tags_used; lia|lia].
      * apply (Permutation_NoDup (Permutation_cons_append rs raw)). constructor; assumption.
    + right. unfold finish. cbn [fst snd]. split; [discriminate|]. apply Hsplit; [exact HUrej| |exact Hnd].
      eapply Forall2_Forall_map; [exact HPm|exact SM1|]. intros a b (Hc & Ht & Hs1) [->|(t & Hrange & ->)].
      * rewrite (m_clean_reject_add a (m_cons_clean ct rs a Hc)). split; [exact Hc|eapply Forall_lt_mono; [exact Ht|lia]].
      * split; [apply (m_add_reject_cons ord R ct rs a raw t Hc (fresh_m n a t Ht ltac:(lia)) Hraw Hs1)|].
        eapply Forall_lt_incl; [exact Ht| |instantiate (1 := t); unfold tags_used; lia|lia].
        intros x Hx. apply mtags_reject_add in Hx. apply (mtags_m_add ord R ct a raw t). exact Hx.
Qed.

(* ================================================================ UpdateRaw(raw, column, item) on the whole index state *)

Lemma set_col_same c v r : c < length r -> v = getc r c -> set_col c v r = r.
Proof.
  revert c; induction r as [|x r IH]; intros c Hl Hv; [simpl in Hl; lia|]. destruct c as [|c]; unfold getc in Hv; simpl in Hv |- *.
  - subst. reflexivity.
  - f_equal. apply IH; [simpl in Hl; lia|exact Hv].
Qed.

Lemma u_cons_keyext ct ct' rs u : (forall r, keyc ct' (ucols u) r = keyc ct (ucols u) r) -> u_cons ct rs u -> u_cons ct' rs u.
Proof.
  intros H [(Ha & Hr & Ht & Hk & Hs) Hp]. split; [|exact Hp]. unfold uinv. repeat split; auto.
  - rewrite map_ext with (g := fun e => keyc ct (ucols u) (eraw e)); [exact Hk|]. intros e. apply H.
  - rewrite Forall_forall in *. intros e He. rewrite H. apply Hs. exact He.
Qed.
Lemma m_cons_keyext ct ct' rs m : (forall r, keyc ct' (mcols m) r = keyc ct (mcols m) r) -> m_cons ct rs m -> m_cons ct' rs m.
Proof.
  intros H [[Hc Ht Hr Hk Hs Hv] Hp]. split; [|exact Hp]. constructor; auto. intros g r Hg Hrr. rewrite H. apply Hk; assumption.
Qed.

Lemma m_reject_remove_clean m : mprem m = None -> m_reject_remove m = m.
Proof. intros H. unfold m_reject_remove. destruct m; simpl in *; subst; reflexivity. Qed.
Lemma u_accept_clean u : uclean u -> u_accept_remove (u_accept_add u) = u.
Proof. intros [Ha Hr]. unfold u_accept_remove, u_accept_add. cbn [uprem]. rewrite Hr. destruct u; simpl in *; subst; reflexivity. Qed.
Lemma m_accept_clean m raw : mclean m -> m_accept_remove (m_accept_add m) raw = m.
Proof. intros [Ha Hr]. unfold m_accept_remove, m_accept_add. cbn [mprem]. rewrite Hr. destruct m; simpl in *; subst; reflexivity. Qed.

Theorem update_col_good ord R ct fl rs s raw c v :
  (forall k, R k k = true) -> good ct rs s -> In raw rs -> c < length (ct raw) -> length rs <= max_vals ->
  let '(s', o, ctn) := update_col true true ord R ct fl s raw c v in
  good ctn rs s' /\ (o <> Accepted -> ctn = ct).
Proof.
  intros HR Hg Hraw Hlen Hmax. pose proof (good_small ct rs s Hg Hmax) as Hsm.
  pose proof Hg as [[Hu Hm] [[Htu Htm] Hnd]]. unfold update_col.
  set (ct' := fun r => if Z.eqb r raw then set_col c v (ct raw) else ct r).
  destruct (Z.eqb_spec v (getc (ct raw) c)) as [Ev|Ev].
  - split; [|intros H; congruence].
    assert (Hext : forall cols r, keyc ct' cols r = keyc ct cols r).
    { intros cols r. unfold keyc, ct'. destruct (Z.eqb_spec r raw) as [Er|Er]; [rewrite Er; rewrite (set_col_same c v (ct raw) Hlen Ev)|]; reflexivity. }
    split; [split|split; [split; assumption|exact Hnd]].
    + eapply Forall_impl; [|exact Hu]. intros a Ha. apply (u_cons_keyext ct ct' rs a); [intros; apply Hext|exact Ha].
    + eapply Forall_impl; [|exact Hm]. intros a Ha. apply (m_cons_keyext ct ct' rs a); [intros; apply Hext|exact Ha].
  - set (n := ntag s) in *.
    set (fu := fun u t => let '(u', r) := u_add_mixed ord R ct u raw c v t in
                          (if Z.eqb r raw then u_prepare_remove true R ct u' raw else u', r)).
    set (badu := fun r => negb (Z.eqb r raw)).
    set (appu := fun u => has_col (ucols u) c). set (appm := fun m => has_col (mcols m) c).
    set (fm := fun m t => m_prepare_remove true R ct (m_add_mixed ord R ct m raw c v t) raw).
    pose proof (u_phase_shape fu badu appu fl (uhs s) 0 0 n) as [SU1 SU2].
    pose proof (u_phase_not_accepted fu badu appu fl (uhs s) 0 0 n) as HUa.
    destruct (u_phase fu badu appu fl (uhs s) 0 0 n) as [[us1 v1] st1]. cbn [fst snd] in *.
    assert (HPu : Forall (fun u => u_cons ct rs u /\ Forall (fun x => x < n) (utags u)) (uhs s)).
    { apply Forall_forall. intros u Hin. split; [exact (proj1 (Forall_forall _ _) Hu u Hin)|exact (proj1 (Forall_forall _ _) Htu u Hin)]. }
    assert (HPm : Forall (fun m => m_cons ct rs m /\ Forall (fun x => x < n) (mtags m) /\ (forall g, In g (mgroups m) -> length (gvals g) < max_vals)) (mhs s)).
    { apply Forall_forall. intros m Hin. split; [exact (proj1 (Forall_forall _ _) Hm m Hin)|].
      split; [exact (proj1 (Forall_forall _ _) Htm m Hin)|exact (proj1 (Forall_forall _ _) Hsm m Hin)]. }
    assert (HUrej : Forall (fun u => u_cons ct rs u /\ Forall (fun x => x < n + tags_used s) (utags u))
                           (map (fun u => u_reject_remove (u_reject_add u)) us1)).
    { eapply Forall2_Forall_map; [exact HPu|exact SU1|]. intros a b [Hc Ht] [->|(t & Hrange & ->)].
      - rewrite (u_clean_reject_col a (u_cons_clean ct rs a Hc)). split; [exact Hc|eapply Forall_lt_mono; [exact Ht|lia]].
      - unfold fu. rewrite (u_addmixed_reject true ord R ct a raw c v t n (u_cons_clean ct rs a Hc) (utags_lt_of n a Ht) ltac:(lia)).
        split; [exact Hc|eapply Forall_lt_mono; [exact Ht|lia]]. }
    assert (HMrej : forall ms1, Forall2 (fun m m' => m' = m \/ exists t, n + length (uhs s) + 0 <= t < n + length (uhs s) + 0 + length (mhs s) /\ m' = fm m t) (mhs s) ms1 ->
               Forall (fun m => m_cons ct rs m /\ Forall (fun x => x < n + tags_used s) (mtags m))
                      (map (fun m => m_reject_remove (m_reject_add m)) ms1)).
    { intros ms1 SM. eapply Forall2_Forall_map; [exact HPm|exact SM|]. intros a b (Hc & Ht & Hs1) [->|(t & Hrange & ->)].
      - rewrite (m_clean_reject a (m_cons_clean ct rs a Hc)). split; [exact Hc|eapply Forall_lt_mono; [exact Ht|lia]].
      - unfold fm. rewrite m_reject_after_prepare.
        pose proof (m_addmixed_reject_cons ord R ct rs a raw c v t Hc (fresh_m n a t Ht ltac:(lia)) Hs1) as Hc'.
        rewrite (m_reject_remove_clean _ (proj2 (m_cons_clean ct rs _ Hc'))). split; [exact Hc'|].
        eapply Forall_lt_incl; [exact Ht| |instantiate (1 := t); unfold tags_used; lia|lia].
        intros x Hx. apply mtags_reject_add in Hx. apply (mtags_m_add_mixed ord R ct a raw c v t). exact Hx. }
    assert (Hsplit : forall ctx (us : list uhash) (ms : list mhash),
              Forall (fun u => u_cons ctx rs u /\ Forall (fun x => x < n + tags_used s) (utags u)) us ->
              Forall (fun m => m_cons ctx rs m /\ Forall (fun x => x < n + tags_used s) (mtags m)) ms ->
              good ctx rs (mkI us ms (n + tags_used s))).
    { intros ctx us ms H1 H2. unfold good, consistent, tags_ok. cbn [uhs mhs ntag].
      split; [split|split; [split|exact Hnd]].
      - eapply Forall_impl; [|exact H1]. intros a [H _]; exact H.
      - eapply Forall_impl; [|exact H2]. intros a [H _]; exact H.
      - eapply Forall_impl; [|exact H1]. intros a [_ H]; exact H.
      - eapply Forall_impl; [|exact H2]. intros a [_ H]; exact H. }
    assert (HMclean : Forall (fun m => m_cons ct rs m /\ Forall (fun x => x < n + tags_used s) (mtags m))
                             (map (fun m => m_reject_remove (m_reject_add m)) (mhs s))).
    { apply HMrej. apply Forall2_refl_l. intros; left; reflexivity. }
    destruct v1 as [o|].
    + unfold finish. cbn [fst snd]. split; [|reflexivity]. apply Hsplit; assumption.
    + pose proof (m_phase_shape fm appm fl (mhs s) 0 st1 (n + length (uhs s))) as [SM1 SM2].
      pose proof (m_phase_verdict fm appm fl (mhs s) 0 st1 (n + length (uhs s))) as HMv.
      destruct (m_phase fm appm fl (mhs s) 0 st1 (n + length (uhs s))) as [[ms1 v2] st2]. cbn [fst snd] in *.
      destruct HMv as [-> | ->].
      * destruct (hits fl st2).
        -- unfold finish. cbn [fst snd]. split; [|reflexivity]. apply Hsplit; [exact HUrej|apply HMrej; exact SM1].
        -- unfold finish. cbn [fst snd]. split; [|intros H; congruence]. apply Hsplit.
           ++ eapply Forall2_Forall_map; [exact HPu|exact (SU2 eq_refl)|].
              intros a b [Hc Ht] [[Ea ->]|(Ea & t & Hrange & -> & Hb)].
              ** rewrite (u_accept_clean a (u_cons_clean ct rs a Hc)). split; [apply u_cons_col_other; assumption|eapply Forall_lt_mono; [exact Ht|lia]].
              ** pose proof (u_update_column_preserves_cons ord R ct rs a raw c v t HR Hc Hraw (fresh_u n a t Ht ltac:(lia)) Ea Hlen Ev) as H.
                 cbv zeta in H. unfold fu, badu in *. destruct (u_add_mixed ord R ct a raw c v t) as [u1 r] eqn:Eam. cbn [fst snd] in *.
                 apply negb_false_iff in Hb. rewrite Hb in H |- *. split; [exact H|].
                 eapply Forall_lt_incl; [exact Ht| |instantiate (1 := t); unfold tags_used; lia|lia].
                 intros x Hx. apply utags_accept_remove in Hx. rewrite utags_accept_add, utags_prepare in Hx.
                 pose proof (utags_u_add_mixed ord R ct a raw c v t) as Hi. rewrite Eam in Hi. apply Hi. exact Hx.
           ++ eapply Forall2_Forall_map; [exact HPm|exact (SM2 eq_refl)|].
              intros a b (Hc & Ht & Hs1) [[Ea ->]|(Ea & t & Hrange & ->)].
              ** rewrite (m_accept_clean a raw (m_cons_clean ct rs a Hc)). split; [apply m_cons_col_other; assumption|eapply Forall_lt_mono; [exact Ht|lia]].
              ** split; [apply (m_update_column_preserves_cons ord R ct rs a raw c v t HR Hc Hraw (fresh_m n a t Ht ltac:(lia)) Ea Hlen Ev Hs1)|].
                 eapply Forall_lt_incl; [exact Ht| |instantiate (1 := t); unfold tags_used; lia|lia].
                 intros x Hx. apply mtags_accept_remove in Hx. rewrite mtags_accept_add in Hx. unfold fm in Hx. rewrite mtags_prepare in Hx.
                 apply (mtags_m_add_mixed ord R ct a raw c v t). exact Hx.
      * unfold finish. cbn [fst snd]. split; [|reflexivity]. apply Hsplit; [exact HUrej|apply HMrej; exact SM1].
Qed.

(* ================================================================ RemoveRaw on the whole index state *)

Lemma utags_reject_remove u : utags (u_reject_remove u) = utags u.
Proof. reflexivity. Qed.

Theorem remove_raw_good R ct fl rs rs' s raw :
  (forall k, R k k = true) -> good ct rs s -> Permutation rs (raw :: rs') ->
  let '(s', o) := remove_raw true true R ct fl s raw in
  (o = Accepted /\ good ct rs' s') \/ (o <> Accepted /\ good ct rs s').
Proof.
  intros HR [[Hu Hm] [[Htu Htm] Hnd]] Hrs. unfold remove_raw, finish.
  assert (Hnd' : NoDup rs') by (pose proof (Permutation_NoDup Hrs Hnd) as H; inversion H; assumption).
  destruct fl as [k|].
  - right. split; [discriminate|]. unfold good, consistent, tags_ok. cbn [uhs mhs ntag].
    rewrite (map_id_clean u_reject_remove uclean), (map_id_clean m_reject_remove mclean).
    + repeat split; auto.
      * eapply Forall_impl; [|exact Htu]. intros a Ha. eapply Forall_lt_mono; [exact Ha|lia].
      * eapply Forall_impl; [|exact Htm]. intros a Ha. eapply Forall_lt_mono; [exact Ha|lia].
    + intros m [_ Hr]. apply m_reject_remove_clean. exact Hr.
    + eapply Forall_impl; [|exact Hm]. intros a Ha. exact (m_cons_clean ct rs a Ha).
    + intros u [Ha Hr]. unfold u_reject_remove. destruct u; simpl in *; subst; reflexivity.
    + eapply Forall_impl; [|exact Hu]. intros a Ha. exact (u_cons_clean ct rs a Ha).
  - left. split; [reflexivity|]. unfold good, consistent, tags_ok. cbn [uhs mhs ntag]. rewrite !map_map.
    split; [split|split; [split|exact Hnd']].
    + apply Forall_map. eapply Forall_impl; [|exact Hu]. intros a Ha. apply (u_remove_preserves_cons true R ct rs rs' a raw HR Ha Hrs).
    + apply Forall_map. eapply Forall_impl; [|exact Hm]. intros a Ha. apply (m_remove_preserves_cons true R ct rs rs' a raw HR Ha Hrs).
    + apply Forall_map. eapply Forall_impl; [|exact Htu]. intros a Ha. rewrite Forall_forall in *. intros x Hx.
      apply utags_accept_remove in Hx. rewrite utags_prepare in Hx. specialize (Ha x Hx). lia.
    + apply Forall_map. eapply Forall_impl; [|exact Htm]. intros a Ha. rewrite Forall_forall in *. intros x Hx.
      apply mtags_accept_remove in Hx. rewrite mtags_prepare in Hx. specialize (Ha x Hx). lia.
Qed.

(* ================================================================ UpdateRaw(oldRaw, newRaw) on the whole index state *)

Lemma utags_accept_add_raw u raw : utags (u_accept_add_raw u raw) = utags u.
Proof.
  unfold u_accept_add_raw, utags. destruct (upadd u) as [t|]; [|reflexivity]. cbn [uents]. rewrite map_map.
  apply map_ext. intros e. destruct (Nat.eqb (etag e) t); reflexivity.
Qed.

Theorem update_raw_good ord R ct fl rs rs' s old new :
  (forall k, R k k = true) -> good ct rs s -> ~ In new rs -> In old rs -> length rs < max_vals ->
  Permutation (rs ++ [new]) (old :: rs') ->
  let '(s', o) := update_raw true true ord R ct fl s old new in
  (o = Accepted /\ good ct rs' s') \/ (o <> Accepted /\ good ct rs s').
Proof.
  intros HR Hg Hnew Hold Hlen Hrs. pose proof (good_small ct rs s Hg ltac:(lia)) as Hsm.
  destruct Hg as [[Hu Hm] [[Htu Htm] Hnd]]. unfold update_raw.
  set (n := ntag s) in *.
  set (fu := fun u t => let '(u', r) := u_add ord R ct u new (Some old) t in
                        (if Z.eqb r new then u_prepare_remove true R ct u' old else u', r)).
  set (badu := fun r => negb (Z.eqb r new) && negb (Z.eqb r old)).
  set (fm := fun m t => m_prepare_remove true R ct (m_add ord R ct m new t) old).
  pose proof (u_phase_shape fu badu (fun _ => true) fl (uhs s) 0 0 n) as [SU1 SU2].
  pose proof (u_phase_not_accepted fu badu (fun _ => true) fl (uhs s) 0 0 n) as HUa.
  destruct (u_phase fu badu (fun _ => true) fl (uhs s) 0 0 n) as [[us1 v1] st1]. cbn [fst snd] in *.
  assert (HPu : Forall (fun u => u_cons ct rs u /\ Forall (fun x => x < n) (utags u)) (uhs s)).
  { apply Forall_forall. intros u Hin. split; [exact (proj1 (Forall_forall _ _) Hu u Hin)|exact (proj1 (Forall_forall _ _) Htu u Hin)]. }
  assert (HPm : Forall (fun m => m_cons ct rs m /\ Forall (fun x => x < n) (mtags m) /\ (forall g, In g (mgroups m) -> length (gvals g) < max_vals)) (mhs s)).
  { apply Forall_forall. intros m Hin. split; [exact (proj1 (Forall_forall _ _) Hm m Hin)|].
    split; [exact (proj1 (Forall_forall _ _) Htm m Hin)|exact (proj1 (Forall_forall _ _) Hsm m Hin)]. }
  assert (Hnd' : NoDup rs').
  { assert (H : NoDup (old :: rs')).
    { eapply Permutation_NoDup; [exact Hrs|]. apply (Permutation_NoDup (Permutation_cons_append rs new)). constructor; assumption. }
    inversion H; assumption. }
  assert (HUrej : Forall (fun u => u_cons ct rs u /\ Forall (fun x => x < n + tags_used s) (utags u))
                         (map (fun u => u_reject_remove (u_reject_add_raw u new)) us1)).
  { eapply Forall2_Forall_map; [exact HPu|exact SU1|]. intros a b [Hc Ht] [->|(t & Hrange & ->)].
    - rewrite (u_clean_reject_update a new (u_cons_clean ct rs a Hc)). split; [exact Hc|eapply Forall_lt_mono; [exact Ht|lia]].
    - assert (Habs : row_absent_u new a).
      { intros Hin. apply Hnew. destruct Hc as [_ Hp]. apply (Permutation_in _ Hp). exact Hin. }
      unfold fu. rewrite (u_update_reject true ord R ct a old new t n (u_cons_clean ct rs a Hc) (utags_lt_of n a Ht) ltac:(lia) Habs).
      split; [exact Hc|eapply Forall_lt_mono; [exact Ht|lia]]. }
  assert (HMrej : forall ms1, Forall2 (fun m m' => m' = m \/ exists t, n + length (uhs s) + 0 <= t < n + length (uhs s) + 0 + length (mhs s) /\ m' = fm m t) (mhs s) ms1 ->
             Forall (fun m => m_cons ct rs m /\ Forall (fun x => x < n + tags_used s) (mtags m))
                    (map (fun m => m_reject_remove (m_reject_add m)) ms1)).
  { intros ms1 SM. eapply Forall2_Forall_map; [exact HPm|exact SM|]. intros a b (Hc & Ht & Hs1) [->|(t & Hrange & ->)].
    - rewrite (m_clean_reject a (m_cons_clean ct rs a Hc)). split; [exact Hc|eapply Forall_lt_mono; [exact Ht|lia]].
    - unfold fm. rewrite m_reject_after_prepare.
      pose proof (m_add_reject_cons ord R ct rs a new t Hc (fresh_m n a t Ht ltac:(lia)) Hnew Hs1) as Hc'.
      rewrite (m_reject_remove_clean _ (proj2 (m_cons_clean ct rs _ Hc'))). split; [exact Hc'|].
      eapply Forall_lt_incl; [exact Ht| |instantiate (1 := t); unfold tags_used; lia|lia].
      intros x Hx. apply mtags_reject_add in Hx. apply (mtags_m_add ord R ct a new t). exact Hx. }
  assert (Hsplit : forall rs0 (us : list uhash) (ms : list mhash), NoDup rs0 ->
            Forall (fun u => u_cons ct rs0 u /\ Forall (fun x => x < n + tags_used s) (utags u)) us ->
            Forall (fun m => m_cons ct rs0 m /\ Forall (fun x => x < n + tags_used s) (mtags m)) ms ->
            good ct rs0 (mkI us ms (n + tags_used s))).
  { intros rs0 us ms H0 H1 H2. unfold good, consistent, tags_ok. cbn [uhs mhs ntag].
    split; [split|split; [split|exact H0]].
    - eapply Forall_impl; [|exact H1]. intros a [H _]; exact H.
    - eapply Forall_impl; [|exact H2]. intros a [H _]; exact H.
    - eapply Forall_impl; [|exact H1]. intros a [_ H]; exact H.
    - eapply Forall_impl; [|exact H2]. intros a [_ H]; exact H. }
  destruct v1 as [o|].
  - right. unfold finish. cbn [fst snd]. split; [congruence|]. apply Hsplit; [exact Hnd|exact HUrej|].
    apply HMrej. apply Forall2_refl_l. intros; left; reflexivity.
  - pose proof (m_phase_shape fm (fun _ => true) fl (mhs s) 0 st1 (n + length (uhs s))) as [SM1 SM2].
    pose proof (m_phase_verdict fm (fun _ => true) fl (mhs s) 0 st1 (n + length (uhs s))) as HMv.
    destruct (m_phase fm (fun _ => true) fl (mhs s) 0 st1 (n + length (uhs s))) as [[ms1 v2] st2]. cbn [fst snd] in *.
    destruct HMv as [-> | ->].
    + left. unfold finish. split; [reflexivity|]. apply Hsplit; [exact Hnd'| |].
      * eapply Forall2_Forall_map; [exact HPu|exact (SU2 eq_refl)|]. intros a b [Hc Ht] [[E _]|(_ & t & Hrange & -> & Hb)]; [discriminate|].
        pose proof (u_update_preserves_cons true ord R ct rs rs' a old new t HR Hc (fresh_u n a t Ht ltac:(lia)) Hnew Hold Hrs) as H.
        unfold fu, badu in *.
        pose proof (utags_u_add ord R ct a new (Some old) t) as Hi.
        destruct (u_add ord R ct a new (Some old) t) as [u' r] eqn:Ea. cbn [fst snd] in *.
        destruct (Z.eqb r new) eqn:Ern; cbn [fst snd] in *.
        -- split; [apply H; exact Hb|]. eapply Forall_lt_incl; [exact Ht| |instantiate (1 := t); unfold tags_used; lia|lia].
           intros x Hx. apply utags_accept_remove in Hx. rewrite utags_accept_add_raw, utags_prepare in Hx. apply Hi. exact Hx.
        -- split; [apply H; exact Hb|]. eapply Forall_lt_incl; [exact Ht| |instantiate (1 := t); unfold tags_used; lia|lia].
           intros x Hx. apply utags_accept_remove in Hx. rewrite utags_accept_add_raw in Hx. apply Hi. exact Hx.
      * eapply Forall2_Forall_map; [exact HPm|exact (SM2 eq_refl)|]. intros a b (Hc & Ht & Hs1) [[E _]|(_ & t & Hrange & ->)]; [discriminate|].
        split; [apply (m_update_preserves_cons true ord R ct rs rs' a old new t HR Hc (fresh_m n a t Ht ltac:(lia)) Hnew Hs1 Hrs)|].
        eapply Forall_lt_incl; [exact Ht| |instantiate (1 := t); unfold tags_used; lia|lia].
        intros x Hx. apply mtags_accept_remove in Hx. rewrite mtags_accept_add in Hx. unfold fm in Hx. rewrite mtags_prepare in Hx.
        apply (mtags_m_add ord R ct a new t). exact Hx.
    + right. unfold finish. cbn [fst snd]. split; [discriminate|]. apply Hsplit; [exact Hnd|exact HUrej|apply HMrej; exact SM1].
Qed.

(* ================================================================ FilterRaws on the whole index state *)

Lemma mtags_filter keep m : incl (mtags (m_filter keep m)) (mtags m).
Proof.
  unfold m_filter, mtags. cbn [mgroups]. intros x Hx. apply in_map_iff in Hx as (g' & <- & Hg'). apply in_flat_map in Hg' as (g & Hg & Hg').
  destruct (filter_group keep (gkey g) (gvals g)) as [[k vs]|]; [|contradiction]. destruct Hg' as [<-|[]]. cbn [gtag]. apply in_map. exact Hg.
Qed.

Theorem filter_raws_good ct rs keep s :
  good ct rs s -> length rs <= max_vals -> good ct (filter keep rs) (filter_raws keep s).
Proof.
  intros Hg Hlen. pose proof (good_small ct rs s Hg Hlen) as Hsm. destruct Hg as [[Hu Hm] [[Htu Htm] Hnd]].
  unfold filter_raws, good, consistent, tags_ok. cbn [uhs mhs ntag].
  split; [split|split; [split|apply NoDup_filter; exact Hnd]].
  - apply Forall_map. eapply Forall_impl; [|exact Hu]. intros a Ha. apply u_filter_preserves_cons. exact Ha.
  - apply Forall_map. unfold small in Hsm. rewrite Forall_forall in *. intros m Hin. apply m_filter_preserves_cons; [apply Hm|apply Hsm]; exact Hin.
  - apply Forall_map. eapply Forall_impl; [|exact Htu]. intros a Ha. rewrite Forall_forall in *. intros x Hx. apply Ha.
    unfold utags, u_filter in *. cbn [uents] in Hx. apply (incl_filter_map etag (fun e => keep (eraw e)) (uents a)). exact Hx.
  - apply Forall_map. eapply Forall_impl; [|exact Htm]. intros a Ha. rewrite Forall_forall in *. intros x Hx. apply Ha. apply (mtags_filter keep a). exact Hx.
Qed.

(* ================================================================ contents of rows outside the table do not matter *)

Lemma u_cons_frame ct ct' rs u : (forall r, In r rs -> ct' r = ct r) -> u_cons ct rs u -> u_cons ct' rs u.
Proof.
  intros H [(Ha & Hr & Ht & Hk & Hs) Hp].
  assert (He : forall e, In e (uents u) -> keyc ct' (ucols u) (eraw e) = keyc ct (ucols u) (eraw e)).
  { intros e Hin. unfold keyc. rewrite H; [reflexivity|]. apply (Permutation_in _ Hp). apply in_map. exact Hin. }
  split; [|exact Hp]. unfold uinv. repeat split; auto.
  - rewrite (map_ext_in _ (fun e => keyc ct (ucols u) (eraw e))); [exact Hk|exact He].
  - rewrite Forall_forall in *. intros e Hin. rewrite (He e Hin). apply Hs. exact Hin.
Qed.

Lemma m_cons_frame ct ct' rs m : (forall r, In r rs -> ct' r = ct r) -> m_cons ct rs m -> m_cons ct' rs m.
Proof.
  intros H [[Hc Ht Hr Hk Hs Hv] Hp]. split; [|exact Hp]. constructor; auto.
  intros g r Hg Hrr. unfold keyc. rewrite H; [apply Hk; assumption|].
  apply (Permutation_in _ Hp). unfold allrows. apply in_flat_map. exists g. split; assumption.
Qed.

Lemma good_frame ct ct' rs s : (forall r, In r rs -> ct' r = ct r) -> good ct rs s -> good ct' rs s.
Proof.
  intros H [[Hu Hm] Hrest]. split; [split|exact Hrest].
  - eapply Forall_impl; [|exact Hu]. intros a. apply u_cons_frame. exact H.
  - eapply Forall_impl; [|exact Hm]. intros a. apply m_cons_frame. exact H.
Qed.

(* ================================================================ index creation over the existing rows *)

Lemma fill_unique_cons ord R ct : (forall k, R k k = true) -> forall raws pre u tag,
  u_cons ct pre u -> NoDup (pre ++ raws) -> Forall (fun x => x < tag) (utags u) ->
  match fill_unique ord R ct u raws tag with
  | inl u' => u_cons ct (pre ++ raws) u' /\ Forall (fun x => x < tag + length raws) (utags u')
  | inr _ => True
  end.
Proof.
  intros HR. induction raws as [|r raws IH]; intros pre u tag Hc Hnd Ht; cbn [fill_unique].
  - rewrite app_nil_r, Nat.add_0_r. split; assumption.
  - assert (Hr : ~ In r pre).
    { intros Hin. apply NoDup_remove_2 in Hnd. apply Hnd. apply in_app_iff. left. exact Hin. }
    pose proof (u_add_preserves_cons ord R ct pre u r tag HR Hc (fresh_u tag u tag Ht (le_n _)) Hr) as H.
    pose proof (utags_u_add ord R ct u r None tag) as Hi.
    destruct (u_add ord R ct u r None tag) as [u1 found]. cbn [fst] in Hi.
    destruct (Z.eqb found r); [|exact I].
    specialize (IH (pre ++ [r]) (u_accept_add u1) (S tag) H).
    rewrite <- app_assoc in IH. cbn [app] in IH. replace (S tag + length raws) with (tag + length (r :: raws)) in IH by (simpl; lia).
    apply IH; [exact Hnd|]. rewrite utags_accept_add. eapply Forall_lt_incl; [exact Ht|exact Hi|lia|lia].
Qed.

Lemma fill_multi_cons ord R ct : (forall k, R k k = true) -> forall raws pre m tag,
  m_cons ct pre m -> NoDup (pre ++ raws) -> Forall (fun x => x < tag) (mtags m) -> length (pre ++ raws) <= max_vals ->
  m_cons ct (pre ++ raws) (fill_multi ord R ct m raws tag) /\
  Forall (fun x => x < tag + length raws) (mtags (fill_multi ord R ct m raws tag)).
Proof.
  intros HR. induction raws as [|r raws IH]; intros pre m tag Hc Hnd Ht Hlen; cbn [fill_multi].
  - rewrite app_nil_r, Nat.add_0_r. split; assumption.
  - assert (Hr : ~ In r pre).
    { intros Hin. apply NoDup_remove_2 in Hnd. apply Hnd. apply in_app_iff. left. exact Hin. }
    assert (Hsm : forall g, In g (mgroups m) -> length (gvals g) < max_vals).
    { intros g Hg. pose proof (group_len_le_rows ct pre m g Hc Hg). rewrite app_length in Hlen. simpl in Hlen. lia. }
    pose proof (m_add_preserves_cons ord R ct pre m r tag HR Hc (fresh_m tag m tag Ht (le_n _)) Hr Hsm) as H.
    specialize (IH (pre ++ [r]) (m_accept_add (m_add ord R ct m r tag)) (S tag) H).
    rewrite <- app_assoc in IH. cbn [app] in IH. replace (S tag + length raws) with (tag + length (r :: raws)) in IH by (simpl; lia).
    apply IH; [exact Hnd| |exact Hlen]. rewrite mtags_accept_add. eapply Forall_lt_incl; [exact Ht|apply mtags_m_add|lia|lia].
Qed.

Theorem add_unique_index_good ord R ct rs s cols :
  (forall k, R k k = true) -> good ct rs s -> good ct rs (fst (add_unique_index ord R ct s cols rs)).
Proof.
  intros HR Hg. pose proof Hg as [[Hu Hm] [[Htu Htm] Hnd]]. unfold add_unique_index.
  destruct (existsb _ (uhs s)); [exact Hg|].
  pose proof (fill_unique_cons ord R ct HR rs [] (mkU cols [] None None) (ntag s) (proj1 (empty_consistent ct cols)) Hnd (Forall_nil _)) as H.
  destruct (fill_unique ord R ct (mkU cols [] None None) rs (ntag s)) as [u|r]; cbn [fst].
  - destruct H as [Hc Ht]. unfold good, consistent, tags_ok. cbn [uhs mhs ntag]. repeat split; auto.
    + apply Forall_app. split; [exact Hu|constructor; [exact Hc|constructor]].
    + apply Forall_app. split; [|constructor; [exact Ht|constructor]].
      eapply Forall_impl; [|exact Htu]. intros a Ha. eapply Forall_lt_mono; [exact Ha|lia].
    + eapply Forall_impl; [|exact Htm]. intros a Ha. eapply Forall_lt_mono; [exact Ha|lia].
  - unfold good, consistent, tags_ok. cbn [uhs mhs ntag]. repeat split; auto.
    + eapply Forall_impl; [|exact Htu]. intros a Ha. eapply Forall_lt_mono; [exact Ha|lia].
    + eapply Forall_impl; [|exact Htm]. intros a Ha. eapply Forall_lt_mono; [exact Ha|lia].
Qed.

Theorem add_multi_index_good ord R ct rs s cols :
  (forall k, R k k = true) -> good ct rs s -> length rs <= max_vals -> good ct rs (add_multi_index ord R ct s cols rs).
Proof.
  intros HR Hg Hlen. pose proof Hg as [[Hu Hm] [[Htu Htm] Hnd]]. unfold add_multi_index.
  destruct (existsb _ (mhs s)); [exact Hg|].
  destruct (fill_multi_cons ord R ct HR rs [] (mkM cols [] None None) (ntag s) (proj2 (empty_consistent ct cols)) Hnd (Forall_nil _) Hlen) as [Hc Ht].
  unfold good, consistent, tags_ok. cbn [uhs mhs ntag]. repeat split; auto.
  - apply Forall_app. split; [exact Hm|constructor; [exact Hc|constructor]].
  - eapply Forall_impl; [|exact Htu]. intros a Ha. eapply Forall_lt_mono; [exact Ha|lia].
  - apply Forall_app. split; [|constructor; [exact Ht|constructor]].
    eapply Forall_impl; [|exact Htm]. intros a Ha. eapply Forall_lt_mono; [exact Ha|lia].
Qed.

(* ================================================================ every reachable index state *)

(* histories of the table's index object - the complete operation alphabet of DataIndexes: indexes created at any time over the
   current rows; AddRaw / RemoveRaw / UpdateRaw(old,new) / single-column UpdateRaw with ANY failure step; FilterRaws, entry order and reflexive visibility relation; the contents of
   rows that are not in the table may change arbitrarily (NewRow).  rs = the rows currently in the table. *)
Inductive reach : (Z -> row) -> list Z -> istate -> Prop :=
| r_empty ct : reach ct [] empty_istate
| r_frame ct ct' rs s : reach ct rs s -> (forall r, In r rs -> ct' r = ct r) -> reach ct' rs s
| r_index_u ord R ct rs s cols : (forall k, R k k = true) -> reach ct rs s ->
    reach ct rs (fst (add_unique_index ord R ct s cols rs))
| r_index_m ord R ct rs s cols : (forall k, R k k = true) -> reach ct rs s -> length rs <= max_vals ->
    reach ct rs (add_multi_index ord R ct s cols rs)
| r_add ord R ct fl rs s raw : (forall k, R k k = true) -> reach ct rs s -> ~ In raw rs -> length rs < max_vals ->
    reach ct (match snd (add_raw ord R ct fl s raw) with Accepted => rs ++ [raw] | _ => rs end) (fst (add_raw ord R ct fl s raw))
| r_remove R ct fl rs rs' s raw : (forall k, R k k = true) -> reach ct rs s -> Permutation rs (raw :: rs') ->
    reach ct (match snd (remove_raw true true R ct fl s raw) with Accepted => rs' | _ => rs end) (fst (remove_raw true true R ct fl s raw))
| r_update_row ord R ct fl rs rs' s old new : (forall k, R k k = true) -> reach ct rs s -> ~ In new rs -> In old rs ->
    length rs < max_vals -> Permutation (rs ++ [new]) (old :: rs') ->
    reach ct (match snd (update_raw true true ord R ct fl s old new) with Accepted => rs' | _ => rs end)
          (fst (update_raw true true ord R ct fl s old new))
| r_filter ct rs s keep : reach ct rs s -> length rs <= max_vals -> reach ct (filter keep rs) (filter_raws keep s)
| r_update_col ord R ct fl rs s raw c v : (forall k, R k k = true) -> reach ct rs s -> In raw rs -> c < length (ct raw) ->
    length rs <= max_vals ->
    reach (snd (update_col true true ord R ct fl s raw c v)) rs (fst (fst (update_col true true ord R ct fl s raw c v))).

Lemma empty_good ct : good ct [] empty_istate.
Proof. unfold good, consistent, tags_ok, empty_istate. cbn. repeat split; constructor. Qed.

Theorem every_reachable_index_state_consistent ct rs s : reach ct rs s -> good ct rs s.
Proof.
  induction 1.
  - apply empty_good.
  - eapply good_frame; eassumption.
  - apply add_unique_index_good; assumption.
  - apply add_multi_index_good; assumption.
  - pose proof (add_raw_good ord R ct fl rs s raw H IHreach H1 H2) as Hg.
    destruct (add_raw ord R ct fl s raw) as [s' o]. cbn [fst snd]. destruct Hg as [[-> Hg]|[Ho Hg]]; [exact Hg|].
    destruct o; [congruence|exact Hg|exact Hg].
  - pose proof (remove_raw_good R ct fl rs rs' s raw H IHreach H1) as Hg.
    destruct (remove_raw true true R ct fl s raw) as [s' o]. cbn [fst snd]. destruct Hg as [[-> Hg]|[Ho Hg]]; [exact Hg|].
    destruct o; [congruence|exact Hg|exact Hg].
  - pose proof (update_raw_good ord R ct fl rs rs' s old new H IHreach H1 H2 H3 H4) as Hg.
    destruct (update_raw true true ord R ct fl s old new) as [s' o]. cbn [fst snd]. destruct Hg as [[-> Hg]|[Ho Hg]]; [exact Hg|].
    destruct o; [congruence|exact Hg|exact Hg].
  - apply filter_raws_good; assumption.
  - pose proof (update_col_good ord R ct fl rs s raw c v H IHreach H1 H2 H3) as Hg.
    destruct (update_col true true ord R ct fl s raw c v) as [[s' o] ctn]. cbn [fst snd]. exact (proj1 Hg).
Qed.

(* the central sentence of the property: after ANY such history, a query answered through ANY index of the
   state returns what the brute-force filter over the current rows returns *)
Theorem queries_equal_brute_force_all_histories ct rs s :
  reach ct rs s ->
  (forall R u k, (forall x, R x x = true) -> In u (uhs s) ->
     Permutation (find_unique R ct u k) (filter (has_key ct (ucols u) k) rs)) /\
  (forall R m k, (forall x, R x x = true) -> In m (mhs s) ->
     Permutation (find_multi R ct m k) (filter (has_key ct (mcols m) k) rs)) /\
  (forall R u k f g, (forall x, R x x = true) -> In u (uhs s) -> (forall r, g r = has_key ct (ucols u) k r && f r) ->
     Permutation (select_via_unique R ct u k f) (select_scan rs g) /\
     length (select_via_unique R ct u k f) = length (select_scan rs g)) /\
  (forall R m k f g, (forall x, R x x = true) -> In m (mhs s) -> (forall r, g r = has_key ct (mcols m) k r && f r) ->
     Permutation (select_via_multi R ct m k f) (select_scan rs g) /\
     length (select_via_multi R ct m k f) = length (select_scan rs g)).
Proof.
  intros Hr. destruct (every_reachable_index_state_consistent ct rs s Hr) as [[Hu Hm] _].
  rewrite Forall_forall in Hu, Hm. repeat split.
  - intros R u k HR Hin. apply find_unique_is_scan; [exact HR|apply Hu; exact Hin].
  - intros R m k HR Hin. apply find_multi_is_scan; [exact HR|apply Hm; exact Hin].
  - apply (select_via_unique_is_scan R ct rs u k f g); [assumption|apply Hu; assumption|assumption].
  - apply Permutation_length. apply (select_via_unique_is_scan R ct rs u k f g); [assumption|apply Hu; assumption|assumption].
  - apply (select_via_multi_is_scan R ct rs m k f g); [assumption|apply Hm; assumption|assumption].
  - apply Permutation_length. apply (select_via_multi_is_scan R ct rs m k f g); [assumption|apply Hm; assumption|assumption].
Qed.

(* every group of every multi hash of every reachable state has its completed segments sorted *)
Corollary reachable_segments_sorted ct rs s m g :
  reach ct rs s -> In m (mhs s) -> In g (mgroups m) -> vals_ok (gvals g).
Proof.
  intros Hr Hm Hg. destruct (every_reachable_index_state_consistent ct rs s Hr) as [[_ Hms] _].
  rewrite Forall_forall in Hms. destruct (Hms m Hm) as [Hi _]. exact (mi_vok ct m Hi g Hg).
Qed.
