// instantiation TU for cxx2coq (C16): SegmentedArray index arithmetic + de Bruijn Log2
#include "momo/SegmentedArray.h"
namespace momo {
template class SegmentedArraySettings<SegmentedArrayItemCountFunc::sqrt, 3>;
template class SegmentedArraySettings<SegmentedArrayItemCountFunc::cnst, 5>;
namespace internal {
template struct UIntMath<size_t>;
template struct UIntMath<uint32_t>;
}}
