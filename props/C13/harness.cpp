// C13 implementation side: the REAL encoders / probe step, same case format as ocaml/driver.ml
#include "private_access.h"
#include <set>
#include <cstring>
#include "momo/HashSet.h"
#include "momo/details/HashBucketOpen2N2.h"
#include "momo/details/HashBucketOpenN1.h"
#include "momo/details/HashBucketOpen8.h"
using namespace momo;
typedef HashSetItemTraits<uint64_t, MemManagerDefault> IT;
template<size_t M> using O2 = internal::BucketOpen2N2<IT, M, true>;
template<size_t M> using N1 = internal::BucketOpenN1<IT, M, true>;
template<size_t M> using N1F = internal::BucketOpenN1<IT, M, false>;
typedef internal::BucketOpen8<IT> O8;
typedef unsigned long long ull;

template<class B> struct Raw {   // storage that is never destroyed (the destructor asserts count == 0)
	alignas(B) unsigned char buf[sizeof(B)];
	B* b;
	Raw() { memset(buf, 0, sizeof(buf)); b = new (buf) B(); }
};

template<size_t M> static void runN1(uint8_t x, size_t L, const std::vector<size_t>& ps)
{
	Raw<N1<M>> r; r.b->mData[M] = x;
	for (size_t p : ps) r.b->UpdateMaxProbe(p);
	printf("%u %llu\n", unsigned(r.b->mData[M]), ull(r.b->GetMaxProbe(L)));
}
static void runO8(uint8_t x, size_t L, const std::vector<size_t>& ps)
{
	Raw<O8> r; r.b->mData[7] = x;
	for (size_t p : ps) r.b->UpdateMaxProbe(p);
	printf("%u %llu\n", unsigned(r.b->mData[7]), ull(r.b->GetMaxProbe(L)));
}

// table level: a real HashSet with open-addressing buckets and a scripted hash (key -> hash code table)
struct TblHash { const std::map<uint64_t, uint64_t>* t; size_t operator()(uint64_t k) const { auto it = t->find(k); return it == t->end() ? size_t(k) : size_t(it->second); } };
static const std::map<uint64_t, uint64_t>* gTab = nullptr;
// fast-hash traits (isFastNothrowHashable stays true => HashBucketOpen8 really selects BucketOpen8) with a scripted hash
struct FastTraits8 : public momo::HashTraits<uint64_t, momo::HashBucketOpen8>
{
	size_t GetHashCode(const uint64_t& k) const { auto it = gTab->find(k); return it == gTab->end() ? size_t(k) : size_t(it->second); }
};
struct SlowTraits2 : public momo::HashTraitsStd<uint64_t, TblHash, std::equal_to<uint64_t>, momo::HashBucketOpen2N2<3>>
{
	SlowTraits2() : momo::HashTraitsStd<uint64_t, TblHash, std::equal_to<uint64_t>, momo::HashBucketOpen2N2<3>>(size_t(1), TblHash{ gTab }) {}
};
// full-load variants: capacity = every slot, so insertions must probe up to the very last bucket
struct FastTraits8Full : public FastTraits8 { size_t CalcCapacity(size_t bucketCount, size_t bucketMaxItemCount) const noexcept { return bucketCount * bucketMaxItemCount; } };
struct SlowTraits2Full : public SlowTraits2 { size_t CalcCapacity(size_t bucketCount, size_t bucketMaxItemCount) const noexcept { return bucketCount * bucketMaxItemCount; } };
struct TblOp { bool add; uint64_t key, hash; };
template<class HT, size_t expectMax> static void runTbl(size_t n, const std::vector<TblOp>& ops)
{
	typedef momo::HashSet<uint64_t, HT> HS;
	std::map<uint64_t, uint64_t> tab; for (auto& o : ops) if (o.add && !tab.count(o.key)) tab[o.key] = o.hash;
	gTab = &tab;
	static_assert(HS::Bucket::maxCount == expectMax, "unexpected bucket type selected");
	HS hs{ HT() };
	// choose a reservation that yields exactly 2^n buckets (no growth during the inserts)
	size_t want = size_t(1) << n; bool ok = false; size_t adds = 0; for (auto& o : ops) adds += o.add ? 1 : 0;
	for (size_t r = 1; r <= want * 8 && !ok; ++r) { HS probe{ HT() }; probe.Reserve(r); if (probe.GetBucketCount() == want) { hs.Reserve(r); ok = true; } if (probe.GetBucketCount() > want) break; }
	if (!ok || hs.GetBucketCount() != want) { puts("skip"); return; }
	bool full = false, badfull = false; std::set<uint64_t> present, removed;
	for (auto& o : ops)
	{
		if (o.add)
		{
			if (hs.GetCount() >= hs.GetCapacity()) { puts("skip"); return; }   // would grow: outside the fixed-size model
			try { hs.Insert(o.key); present.insert(o.key); removed.erase(o.key); }
			catch (const std::runtime_error&) { full = true; if (hs.GetCount() < want * expectMax) badfull = true; }
		}
		else if (hs.Remove(o.key)) { present.erase(o.key); removed.insert(o.key); }
	}
	if (hs.GetBucketCount() != want || hs.mBuckets->GetNextBuckets() != nullptr) { puts("skip"); return; }
	std::string out; size_t i = 0;
	auto& params = hs.mBuckets->GetBucketParams();
	for (auto& b : *hs.mBuckets)
	{
		std::vector<uint64_t> items; for (auto& it : b.GetBounds(params)) items.push_back(it);
		std::sort(items.begin(), items.end());
		size_t bound = b.GetMaxProbe(n);
		if (!items.empty() || bound != 0)
		{
			out += std::to_string(i) + ":[";
			for (size_t j = 0; j < items.size(); ++j) out += (j ? "," : "") + std::to_string(items[j]);
			out += "]:" + std::to_string(bound) + ":" + std::to_string(b.pvGetCount()) + ";";
		}
		++i;
	}
	bool all = true; for (uint64_t k : present) all = all && hs.ContainsKey(k);
	for (uint64_t k : removed) all = all && !hs.ContainsKey(k);
	printf("%s found=%s full=%s badfull=%s\n", out.c_str(), all ? "true" : "false", full ? "true" : "false", badfull ? "true" : "false");
}

// bucket level: AddCrt / Remove / UpdateMaxProbe / Clear on one real bucket; dump every bookkeeping byte
struct BOp { char k; ull a, b, c; };
template<class B> static typename B::Iterator nthIter(B& b, typename B::Params& pa, size_t j)
{
	auto bounds = b.GetBounds(pa); auto it = bounds.GetBegin(); for (size_t t = 0; t < j; ++t) ++it; return it;
}
template<size_t M> static void runBopsO2(const std::vector<BOp>& ops)
{
	typedef O2<M> B; Raw<B> r; MemManagerDefault mm; typename B::Params pa(mm);
	for (size_t i = 0; i < M; ++i) r.b->mHashData.hashProbes[i] = 0;   // the constructor leaves them uninitialised (the memset in Raw() may be elided as a dead store)
	for (auto& o : ops)
	{
		size_t cnt = r.b->pvGetCount();
		if (o.k == 'A') { if (cnt >= M) { puts("stuck"); return; } ull v = o.a; r.b->AddCrt(pa, [v] (uint64_t* p) { *p = v; }, size_t(o.a), size_t(o.b), size_t(o.c)); }
		else if (o.k == 'R') { if (o.a >= cnt) { puts("stuck"); return; } r.b->Remove(pa, nthIter(*r.b, pa, size_t(o.a)), [] (uint64_t& src, uint64_t& dst) { dst = src; }); }
		else if (o.k == 'U') r.b->UpdateMaxProbe(size_t(o.a));
		else r.b->Clear(pa);
	}
	printf("%u %u ", unsigned(r.b->mState[0]), unsigned(r.b->mState[1]));
	for (size_t i = 0; i < M; ++i) printf("%u ", unsigned(r.b->mHashData.shortHashes[i]));
	for (size_t i = 0; i < M; ++i) printf("%u ", unsigned(r.b->mHashData.hashProbes[i]));
	printf("%llu %llu\n", ull(r.b->pvGetCount()), ull(r.b->GetMaxProbe(0)));
}
template<class B, size_t M> static void runBopsN1(size_t L, const std::vector<BOp>& ops)
{
	Raw<B> r; MemManagerDefault mm; typename B::Params pa(mm);
	for (auto& o : ops)
	{
		size_t cnt = r.b->pvGetCount();
		if (o.k == 'A') { if (cnt >= M) { puts("stuck"); return; } ull v = o.a; r.b->AddCrt(pa, [v] (uint64_t* p) { *p = v; }, size_t(o.a), size_t(o.b), size_t(o.c)); }
		else if (o.k == 'R') { if (o.a >= cnt) { puts("stuck"); return; } r.b->Remove(pa, nthIter(*r.b, pa, size_t(o.a)), [] (uint64_t& src, uint64_t& dst) { dst = src; }); }
		else if (o.k == 'U') r.b->UpdateMaxProbe(size_t(o.a));
		else r.b->Clear(pa);
	}
	for (size_t i = 0; i <= M; ++i) printf("%u ", unsigned(r.b->mData[i]));
	printf("%llu %llu\n", ull(r.b->pvGetCount()), ull(r.b->GetMaxProbe(L)));
}

int main()
{
	std::string line;
	while (std::getline(std::cin, line))
	{
		std::istringstream is(line); std::string cmd; is >> cmd;
		if (cmd == "o2")
		{
			ull s0, s1; is >> s0 >> s1; std::vector<size_t> ps; ull p; while (is >> p) ps.push_back(size_t(p));
			Raw<O2<3>> r; r.b->mState[0] = uint8_t(s0); r.b->mState[1] = uint8_t(s1);
			for (size_t q : ps) r.b->UpdateMaxProbe(q);
			printf("%u %u %llu %llu\n", unsigned(r.b->mState[0]), unsigned(r.b->mState[1]), ull(r.b->GetMaxProbe(0)), ull(r.b->pvGetCount()));
		}
		else if (cmd == "n1")
		{
			ull m, x, L; is >> m >> x >> L; std::vector<size_t> ps; ull p; while (is >> p) ps.push_back(size_t(p));
			switch (m) {
			case 1: runN1<1>(uint8_t(x), L, ps); break; case 2: runN1<2>(uint8_t(x), L, ps); break;
			case 3: runN1<3>(uint8_t(x), L, ps); break; case 4: runN1<4>(uint8_t(x), L, ps); break;
			case 5: runN1<5>(uint8_t(x), L, ps); break; case 6: runN1<6>(uint8_t(x), L, ps); break;
			case 7: runO8(uint8_t(x), L, ps); break;
			default: puts("?"); }
		}
		else if (cmd == "nx")
		{
			std::string kind; ull i, bc, p; is >> kind >> i >> bc >> p;
			size_t r = (kind == "o2") ? O2<3>::GetNextBucketIndex(i, 0, bc, p) : O8::GetNextBucketIndex(i, 0, bc, p);
			printf("%llu\n", ull(r));
		}
		else if (cmd == "tblm")
		{
			std::string kind; ull n, capIgnored; is >> kind >> n >> capIgnored; std::vector<TblOp> ops; std::string tok;
			while (is >> tok)
			{
				if (tok[0] == '-') ops.push_back({ false, std::stoull(tok.substr(1)), 0 });
				else { auto c = tok.find(':'); ops.push_back({ true, std::stoull(tok.substr(0, c)), std::stoull(tok.substr(c + 1)) }); }
			}
			if (kind == "o2") runTbl<SlowTraits2, 3>(n, ops); else if (kind == "o8") runTbl<FastTraits8, 7>(n, ops);
			else if (kind == "o2f") runTbl<SlowTraits2Full, 3>(n, ops); else runTbl<FastTraits8Full, 7>(n, ops);
		}
		else if (cmd == "bops")
		{
			std::string kind; ull m, L; is >> kind >> m >> L; std::vector<BOp> ops; std::string tok;
			while (is >> tok)
			{
				BOp o{ tok[0], 0, 0, 0 }; std::vector<ull> v; size_t pos = 1;
				while (pos < tok.size()) { size_t e = tok.find(':', pos + 1); if (e == std::string::npos) e = tok.size(); v.push_back(std::stoull(tok.substr(pos + 1, e - pos - 1))); pos = e; }
				if (v.size() > 0) o.a = v[0]; if (v.size() > 1) o.b = v[1]; if (v.size() > 2) o.c = v[2];
				ops.push_back(o);
			}
			if (kind == "o2") { if (m == 1) runBopsO2<1>(ops); else if (m == 2) runBopsO2<2>(ops); else runBopsO2<3>(ops); }
			else if (kind == "n1f") switch (m) {
			case 1: runBopsN1<N1F<1>, 1>(L, ops); break; case 2: runBopsN1<N1F<2>, 2>(L, ops); break;
			case 3: runBopsN1<N1F<3>, 3>(L, ops); break; case 4: runBopsN1<N1F<4>, 4>(L, ops); break;
			case 5: runBopsN1<N1F<5>, 5>(L, ops); break; case 6: runBopsN1<N1F<6>, 6>(L, ops); break;
			case 7: runBopsN1<O8, 7>(L, ops); break;
			default: puts("?"); }
			else switch (m) {
			case 1: runBopsN1<N1<1>, 1>(L, ops); break; case 2: runBopsN1<N1<2>, 2>(L, ops); break;
			case 3: runBopsN1<N1<3>, 3>(L, ops); break; case 4: runBopsN1<N1<4>, 4>(L, ops); break;
			case 5: runBopsN1<N1<5>, 5>(L, ops); break; case 6: runBopsN1<N1<6>, 6>(L, ops); break;
			case 7: runBopsN1<N1<7>, 7>(L, ops); break;
			default: puts("?"); }
		}
		else if (cmd == "sweep")
		{	// property predicate on the real encoders for every probe in [lo, hi): a fresh bucket and an accumulating bucket
			std::string kind; ull lo, hi; is >> kind >> lo >> hi; ull bad = 0; size_t L = 40;
			if (kind == "o2") { Raw<O2<3>> acc; size_t mx = 0;
				for (ull q = lo; q < hi && !bad; ++q) { Raw<O2<3>> r; r.b->UpdateMaxProbe(size_t(q)); if (r.b->GetMaxProbe(0) < q) bad = q;
					size_t pr = size_t((q * 2654435761ull) % (hi ? hi : 1)); acc.b->UpdateMaxProbe(pr); if (pr > mx) mx = pr; if (acc.b->GetMaxProbe(0) < mx) bad = q; } }
			else if (kind == "n1") { Raw<N1<3>> acc; size_t mx = 0;
				for (ull q = lo; q < hi && !bad; ++q) { Raw<N1<3>> r; r.b->UpdateMaxProbe(size_t(q)); if (r.b->GetMaxProbe(L) < q) bad = q;
					size_t pr = size_t((q * 2654435761ull) % (hi ? hi : 1)); acc.b->UpdateMaxProbe(pr); if (pr > mx) mx = pr; if (acc.b->GetMaxProbe(L) < mx) bad = q; } }
			else { Raw<O8> acc; size_t mx = 0;
				for (ull q = lo; q < hi && !bad; ++q) { Raw<O8> r; r.b->UpdateMaxProbe(size_t(q)); if (r.b->GetMaxProbe(L) < q) bad = q;
					size_t pr = size_t((q * 2654435761ull) % (hi ? hi : 1)); acc.b->UpdateMaxProbe(pr); if (pr > mx) mx = pr; if (acc.b->GetMaxProbe(L) < mx) bad = q; } }
			if (bad) printf("BAD %llu\n", bad); else puts("ok");
		}
		else if (cmd == "cov")
		{	// number of distinct buckets visited by the real probe sequence within 2^n probes
			std::string kind; ull n, start; is >> kind >> n >> start;
			size_t bc = size_t(1) << n; std::vector<bool> seen(bc, false); size_t idx = size_t(start), cnt = 0;
			for (size_t p = 0; p < bc; ++p)
			{
				if (p > 0) idx = (kind == "o2") ? O2<3>::GetNextBucketIndex(idx, 0, bc, p) : O8::GetNextBucketIndex(idx, 0, bc, p);
				if (idx < bc && !seen[idx]) { seen[idx] = true; ++cnt; }
			}
			printf("%llu\n", ull(cnt));
		}
		else puts("?");
	}
	return 0;
}
