// C01 harness TU 5: LimP4 audit configurations (inline crew, library HashTraits with an arithmetic key, odd item sizes, struct / string values)
#include "c01_harness.h"
using namespace momo;
typedef HashBucketLimP4<3> L3; typedef HashBucketLimP4<4> L4;
static const Reg regs[] = {
	C01_SETN("S.L4.b.v", L4, 8, 4, 0, false, false),
	C01_SETU("S.L4.u.n", L4),
	C01_SET("S.L4.z.p", L4, 12, 4, 0, false, true),
	C01_MAPV("B.L4.b.q", L4, 8, 4, 0, false, false, BigVal),
	C01_MAPV("T.L4.b.q", L4, 8, 4, 0, false, false, StrVal),
	C01_SET("S.L3.g.f", L3, 1, 1, 0, true, false),
	C01_MAP("M.L3.x.q", L3, 8, 4, 2, false, false),
};
static void leaf(const std::vector<std::string>& w) { puts("?leaf"); }
int main() { return c01_main(regs, sizeof(regs) / sizeof(regs[0]), &leaf); }
